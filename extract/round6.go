package main

// Round-6 source shapes that a sixth round of seeded defects changed without any extracted fact noticing.  Seven
// independent units (one Lean consumer each, each consumer imports only its own generated file):
//
//	HandleTail      (Props/C02HandleTail)      server.go handlePacket / request-server.go packetWorker: every case of the big type
//	                                           switch falls out of the switch into the common tail that queues the reply.
//	RecvBound       (Props/C18RecvBound)       packet.go recvPacket's upper bound on `length` against what allocator.GetPage makes.
//	InMemShape      (Props/C18InMem)           request-example.go: memFile never stores the caller's slice; openfile truncates
//	                                           the existing object and stores a new one only under a name that was not found.
//	SrvWorkDir      (Props/C05WorkDir)         server.go: the only write of Server.workDir is the option closure.
//	FilestatClose   (Props/C11FilestatClose)   request.go filestat: no return between lister.ListAt and the lister's Close.
//	ConnCloseShape  (Props/C03ConnClose)       conn.go: conn.Close takes the mutex conn.sendPacket holds across both writes.
//	FstatMethod     (Props/C15FstatMethod)     request-server.go / request.go: the method each request kind is served with.
//
// Helpers are prefixed r6 (r4 / r5 helpers of round4.go / round5.go are reused); each unit is its own extractor (own panic
// isolation) and emits its file from values computed beforehand, so the generated Lean is well-typed also when the
// analysis fails.  All names emitted into namespace Sftp.G carry a unit-specific prefix (ht, rb, im, wd, fc, cc, fm).

import (
	"fmt"
	"go/ast"
	"go/token"
	"go/types"
	"sort"
	"strings"
)

func init() {
	extractors = append(extractors, extractHandleTail, extractRecvBound, extractInMemShape, extractSrvWorkDir,
		extractFilestatClose, extractConnCloseShape, extractFstatMethod)
}

// ---------------------------------------------------------------------------------------------------------------
// shared helpers

// r6Inspect walks n without entering function literals.
func r6Inspect(n ast.Node, f func(ast.Node) bool) {
	ast.Inspect(n, func(m ast.Node) bool {
		if _, ok := m.(*ast.FuncLit); ok {
			return false
		}
		if m == nil {
			return true
		}
		return f(m)
	})
}

// r6IsBuiltin: c calls the builtin `name`.
func r6IsBuiltin(pi *pkgInfo, c *ast.CallExpr, name string) bool {
	id, ok := ast.Unparen(c.Fun).(*ast.Ident)
	if !ok || id.Name != name {
		return false
	}
	_, isB := pi.info.Uses[id].(*types.Builtin)
	return isB
}

// r6FieldOf: e is `X.f` selecting the struct field f declared in the named struct type owner (of this package).
func r6FieldOf(pi *pkgInfo, e ast.Expr, owner, f string) (ast.Expr, bool) {
	x, ok := r5FieldSel(pi, e, f)
	if !ok {
		return nil, false
	}
	sel := ast.Unparen(e).(*ast.SelectorExpr)
	v := pi.info.Uses[sel.Sel].(*types.Var)
	tn, _ := pi.pkg.Scope().Lookup(owner).(*types.TypeName)
	if tn == nil {
		return nil, false
	}
	st, ok := tn.Type().Underlying().(*types.Struct)
	if !ok {
		return nil, false
	}
	for i := 0; i < st.NumFields(); i++ {
		if st.Field(i) == v {
			return x, true
		}
	}
	return nil, false
}

// r6Guards: the conditions of the if statements enclosing n inside root, outermost first (`!(c)` for an else branch,
// `case …` for switch clauses), " && "-joined; "" at top level.
func r6Guards(pi *pkgInfo, par map[ast.Node]ast.Node, root, n ast.Node, ren map[types.Object]string) string {
	var conds []string
	child := n
	for p := par[n]; p != nil && child != root; child, p = p, par[p] {
		switch t := p.(type) {
		case *ast.IfStmt:
			c := r4Text(pi, t.Cond, ren)
			if t.Init != nil {
				c = r4Text(pi, t.Init, ren) + "; " + c
			}
			if child == ast.Node(t.Body) {
				conds = append(conds, c)
			} else if child == t.Else {
				conds = append(conds, "!("+c+")")
			}
		case *ast.CaseClause:
			if t.List == nil {
				conds = append(conds, "default")
			} else {
				parts := make([]string, len(t.List))
				for i, e := range t.List {
					parts[i] = r4Text(pi, e, ren)
				}
				conds = append(conds, "case "+strings.Join(parts, ", "))
			}
		case *ast.ForStmt, *ast.RangeStmt:
			conds = append(conds, "loop")
		}
	}
	for i, j := 0, len(conds)-1; i < j; i, j = i+1, j-1 {
		conds[i], conds[j] = conds[j], conds[i]
	}
	return strings.Join(conds, " && ")
}

// r6ParamOfType: the first parameter (or receiver) of fd whose type prints as one of `names` (package-unqualified).
func r6ParamOfType(pi *pkgInfo, fd *ast.FuncDecl, names ...string) types.Object {
	qual := func(p *types.Package) string {
		if p == pi.pkg {
			return ""
		}
		return p.Name()
	}
	var fields []*ast.Field
	if fd.Recv != nil {
		fields = append(fields, fd.Recv.List...)
	}
	fields = append(fields, fd.Type.Params.List...)
	for _, f := range fields {
		for _, id := range f.Names {
			o := pi.info.Defs[id]
			if o == nil {
				continue
			}
			ts := types.TypeString(o.Type(), qual)
			for _, n := range names {
				if ts == n {
					return o
				}
			}
		}
	}
	return nil
}

func r6Texts(pi *pkgInfo, list []ast.Stmt, ren map[types.Object]string) []string {
	out := make([]string, len(list))
	for i, s := range list {
		out[i] = r4Text(pi, s, ren)
	}
	return out
}

func r6SortedUnique(ss []string) []string {
	seen := map[string]bool{}
	var out []string
	for _, s := range ss {
		if !seen[s] {
			seen[s] = true
			out = append(out, s)
		}
	}
	sort.Strings(out)
	return out
}

// ---------------------------------------------------------------------------------------------------------------
// 1. HandleTail
//
// Shape recognised, for handlePacket (server.go) and (*RequestServer).packetWorker (request-server.go):
//	… switch p := X.requestPacket.(type) { case T…: BODY … default: BODY }        one such switch in the function
//	  Y.pktMgr.readyPacket(Y.pktMgr.newOrderedResponse(V, orderID))               the statement right after it, same block
//	  [return nil]                                                                 (handlePacket; packetWorker: end of the loop body)
// Per case: every way BODY can leave other than by falling out of the switch (return, goto, labelled branch, a
// `continue` of the enclosing worker loop, panic / os.Exit / runtime.Goexit; function literals are not entered) and
// whether V is assigned on every path: "always" (syntactically definite), "ok-or-err" (the FSTAT / READ shape:
// `var err error = EBADF; f, ok := getHandle(…); if ok { … V = … }; if err != nil { V = … }`, err assigned only under
// `if ok`), "maybe" otherwise.

type r6Case struct {
	label   string
	exits   []string
	assigns string
}

type r6TailFacts struct {
	server, fn, src string
	cases           []r6Case
	tail            []string
	queues          bool
	respVar         string
}

// r6Definite: the statement list assigns obj on every path that falls out of its end.
func r6Definite(pi *pkgInfo, list []ast.Stmt, obj types.Object) bool {
	for _, s := range list {
		if r6DefiniteStmt(pi, s, obj) {
			return true
		}
	}
	return false
}

func r6DefiniteStmt(pi *pkgInfo, s ast.Stmt, obj types.Object) bool {
	switch st := s.(type) {
	case *ast.AssignStmt:
		for _, l := range st.Lhs {
			if r5IsIdentOf(pi, l, obj) {
				return true
			}
		}
	case *ast.BlockStmt:
		return r6Definite(pi, st.List, obj)
	case *ast.IfStmt:
		if st.Else == nil {
			return false
		}
		return r6Definite(pi, st.Body.List, obj) && r6DefiniteStmt(pi, st.Else, obj)
	}
	return false
}

// r6OkOrErr: the FSTAT / READ shape described above.
func r6OkOrErr(pi *pkgInfo, body []ast.Stmt, obj types.Object) bool {
	var errObj, okObj types.Object
	var ifOk *ast.IfStmt
	errGuardAssigns := false
	for _, s := range body {
		switch st := s.(type) {
		case *ast.DeclStmt:
			gd, ok := st.Decl.(*ast.GenDecl)
			if !ok || gd.Tok != token.VAR || len(gd.Specs) != 1 {
				continue
			}
			vs := gd.Specs[0].(*ast.ValueSpec)
			if len(vs.Names) == 1 && len(vs.Values) == 1 && pi.nodeText(vs.Values[0]) == "EBADF" {
				if v := pi.info.Defs[vs.Names[0]]; v != nil && types.TypeString(v.Type(), nil) == "error" {
					errObj = v
				}
			}
		case *ast.AssignStmt:
			if st.Tok == token.DEFINE && len(st.Lhs) == 2 && len(st.Rhs) == 1 {
				if c, ok := ast.Unparen(st.Rhs[0]).(*ast.CallExpr); ok {
					if fn := r4Callee(pi, c); fn != nil && fn.Name() == "getHandle" {
						if id, ok := st.Lhs[1].(*ast.Ident); ok {
							okObj = pi.info.Defs[id]
						}
					}
				}
			}
		case *ast.IfStmt:
			if st.Init != nil || st.Else != nil {
				continue
			}
			if okObj != nil && r5IsIdentOf(pi, st.Cond, okObj) && ifOk == nil {
				if r6Definite(pi, st.Body.List, obj) {
					ifOk = st
				}
				continue
			}
			if be, ok := ast.Unparen(st.Cond).(*ast.BinaryExpr); ok && be.Op == token.NEQ && errObj != nil && ifOk != nil &&
				r5IsIdentOf(pi, be.X, errObj) && pi.nodeText(be.Y) == "nil" && r6Definite(pi, st.Body.List, obj) {
				errGuardAssigns = true
			}
		}
	}
	if errObj == nil || okObj == nil || ifOk == nil || !errGuardAssigns {
		return false
	}
	// err is assigned nowhere but inside `if ok { … }`
	clean := true
	for _, s := range body {
		if s == ast.Stmt(ifOk) {
			continue
		}
		r6Inspect(s, func(n ast.Node) bool {
			if as, ok := n.(*ast.AssignStmt); ok {
				for _, l := range as.Lhs {
					if r5IsIdentOf(pi, l, errObj) {
						clean = false
					}
				}
			}
			return true
		})
	}
	return clean
}

// r6CaseExits: the ways a case body leaves other than by falling out of the switch.
func r6CaseExits(pi *pkgInfo, body []ast.Stmt, inLoop bool) []string {
	var exits []string
	var walk func(n ast.Node, loopDepth, breakDepth int)
	walk = func(n ast.Node, loopDepth, breakDepth int) {
		ast.Inspect(n, func(m ast.Node) bool {
			if m == nil || m == n {
				return true
			}
			switch t := m.(type) {
			case *ast.FuncLit:
				return false
			case *ast.ReturnStmt:
				exits = append(exits, "return")
			case *ast.BranchStmt:
				switch {
				case t.Tok == token.GOTO:
					exits = append(exits, "goto")
				case t.Label != nil:
					exits = append(exits, strings.ToLower(t.Tok.String())+":"+t.Label.Name)
				case t.Tok == token.CONTINUE && loopDepth == 0:
					if inLoop {
						exits = append(exits, "continue")
					} else {
						exits = append(exits, "continue?")
					}
				case t.Tok == token.FALLTHROUGH:
					exits = append(exits, "fallthrough")
				}
			case *ast.CallExpr:
				switch r5CallName(pi, t) {
				case "builtin:panic":
					exits = append(exits, "panic")
				case "os.Exit", "runtime.Goexit", "log.Fatal", "log.Fatalf", "log.Fatalln", "log.Panic", "log.Panicf":
					exits = append(exits, "exit")
				}
			case *ast.ForStmt, *ast.RangeStmt:
				walk(t, loopDepth+1, breakDepth+1)
				return false
			case *ast.SwitchStmt, *ast.TypeSwitchStmt, *ast.SelectStmt:
				walk(t, loopDepth, breakDepth+1)
				return false
			}
			return true
		})
	}
	for _, s := range body {
		// the statement itself
		wrapper := &ast.BlockStmt{List: []ast.Stmt{s}}
		walk(wrapper, 0, 0)
	}
	return exits
}

func r6TailAnalyse(pi *pkgInfo, u *unit, server, fn string) (f r6TailFacts) {
	f.server, f.fn, f.src, f.respVar = server, fn, fn, "?"
	fd := pi.funcDecl(fn)
	if fd == nil || fd.Body == nil {
		u.fail("%s not found", fn)
		return
	}
	f.src = pi.pos(fd)
	par := r4Parents(fd)
	// the type switch over X.requestPacket.(type)
	type hit struct {
		list []ast.Stmt
		at   int
		sw   *ast.TypeSwitchStmt
	}
	var hits []hit
	for _, list := range r4StmtLists(fd.Body) {
		for i, s := range list {
			ts, ok := s.(*ast.TypeSwitchStmt)
			if !ok {
				continue
			}
			var x ast.Expr
			switch a := ts.Assign.(type) {
			case *ast.AssignStmt:
				if len(a.Rhs) == 1 {
					x = a.Rhs[0]
				}
			case *ast.ExprStmt:
				x = a.X
			}
			ta, ok := ast.Unparen(x).(*ast.TypeAssertExpr)
			if !ok || ta.Type != nil {
				continue
			}
			if sel, ok := ast.Unparen(ta.X).(*ast.SelectorExpr); ok && sel.Sel.Name == "requestPacket" {
				hits = append(hits, hit{list, i, ts})
			}
		}
	}
	if len(hits) != 1 {
		u.fail("%s (%s): expected exactly one `switch … := X.requestPacket.(type)`, found %d", fn, f.src, len(hits))
		return
	}
	h := hits[0]
	f.src = pi.pos(h.sw)
	// is the block that holds the switch the body of the worker loop / the function body?
	inLoop := false
	for p := par[h.sw]; p != nil; p = par[p] {
		switch p.(type) {
		case *ast.ForStmt, *ast.RangeStmt:
			inLoop = true
		case *ast.FuncLit:
			u.fail("%s: the type switch is inside a function literal (%s)", fn, f.src)
		case *ast.IfStmt, *ast.CaseClause, *ast.CommClause:
			u.fail("%s: the type switch is nested in a conditional statement (%s): the tail is not common", fn, f.src)
		}
	}
	ren := map[types.Object]string{}
	if o := r6ParamOfType(pi, fd, "*Server", "*RequestServer"); o != nil {
		ren[o] = "s"
	}
	// the tail
	tail := h.list[h.at+1:]
	var resp types.Object
	if len(tail) >= 1 {
		if es, ok := tail[0].(*ast.ExprStmt); ok {
			if c, ok := ast.Unparen(es.X).(*ast.CallExpr); ok && len(c.Args) == 1 {
				if fn1 := r4Callee(pi, c); fn1 != nil && r4CalleeName(pi, fn1) == "packetManager.readyPacket" {
					if c2, ok := ast.Unparen(c.Args[0]).(*ast.CallExpr); ok && len(c2.Args) >= 1 {
						if fn2 := r4Callee(pi, c2); fn2 != nil && r4CalleeName(pi, fn2) == "packetManager.newOrderedResponse" {
							if id, ok := ast.Unparen(c2.Args[0]).(*ast.Ident); ok {
								resp = r4Obj(pi, id)
							}
						}
					}
				}
			}
		}
	}
	if resp != nil {
		ren[resp] = "rpkt" // a local rename of the response variable is cosmetic
	}
	f.tail = r6Texts(pi, tail, ren)
	for i := range f.tail { // a line break inside a call's parentheses is cosmetic
		f.tail[i] = strings.ReplaceAll(strings.ReplaceAll(f.tail[i], "( ", "("), " )", ")")
	}
	if resp == nil {
		u.fail("%s: the statement after the type switch is not X.pktMgr.readyPacket(X.pktMgr.newOrderedResponse(V, …)) (%s)", fn, f.src)
	} else {
		f.respVar = resp.Name()
		f.queues = true
		// nothing else in the tail but an optional final `return nil`
		for i, s := range tail[1:] {
			if rs, ok := s.(*ast.ReturnStmt); ok && i == len(tail)-2 && !inLoop && len(rs.Results) == 1 && pi.nodeText(rs.Results[0]) == "nil" {
				continue
			}
			u.fail("%s: unrecognised statement in the common tail: %s (%s)", fn, pi.nodeText(s), pi.pos(s))
			f.queues = false
		}
	}
	// the cases
	for _, c := range h.sw.Body.List {
		cc := c.(*ast.CaseClause)
		label := "default"
		if cc.List != nil {
			parts := make([]string, len(cc.List))
			for i, e := range cc.List {
				parts[i] = strings.TrimPrefix(pi.nodeText(e), "*")
			}
			label = strings.Join(parts, "|")
		}
		rc := r6Case{label: label, exits: r6CaseExits(pi, cc.Body, inLoop), assigns: "maybe"}
		if resp != nil {
			switch {
			case r6Definite(pi, cc.Body, resp):
				rc.assigns = "always"
			case r6OkOrErr(pi, cc.Body, resp):
				rc.assigns = "ok-or-err"
			}
		}
		f.cases = append(f.cases, rc)
	}
	return
}

func extractHandleTail(x *extractor) {
	u := x.newUnit("HandleTail")
	var fs []r6TailFacts
	for _, s := range [][2]string{{"Server", "handlePacket"}, {"RequestServer", "RequestServer.packetWorker"}} {
		s := s
		f := r6TailFacts{server: s[0], fn: s[1], src: s[1], respVar: "?"}
		r5Guard(u, func() { f = r6TailAnalyse(x.root, u, s[0], s[1]) })
		f.server = s[0]
		fs = append(fs, f)
	}
	u.pf("namespace Sftp.G\n\n")
	for _, f := range fs {
		u.pf("-- source: %s (%s): the cases of `switch … := X.requestPacket.(type)`: (packet types of the case, number of statements\n", f.src, f.fn)
		u.pf("-- in its body that leave without falling out of the switch, is the response variable assigned on every path)\n")
		var rows, exits []string
		for _, c := range f.cases {
			rows = append(rows, fmt.Sprintf("(%s, %d, %s)", leanStr(c.label), len(c.exits), leanStr(c.assigns)))
			if len(c.exits) > 0 {
				exits = append(exits, "("+leanStr(c.label)+", "+leanStrList(c.exits)+")")
			}
		}
		u.pf("def ht%sCases : List (String × Nat × String) :=\n  [%s]\n", f.server, strings.Join(rows, ",\n   "))
		u.pf("-- the kinds of those early exits (cases that have none are omitted)\n")
		u.pf("def ht%sExits : List (String × List String) := [%s]\n", f.server, strings.Join(exits, ", "))
		u.pf("-- the statements after the switch in the same block (server printed as `s`), and: the first one queues the reply\n")
		u.pf("-- (packetManager.readyPacket of packetManager.newOrderedResponse of the response variable), nothing follows but `return nil`\n")
		u.pf("def ht%sTail : List String := %s\n", f.server, leanStrList(f.tail))
		u.pf("def ht%sTailQueues : Bool := %s\n\n", f.server, leanBool(f.queues))
	}
	u.pf("end Sftp.G\n")
}

// ---------------------------------------------------------------------------------------------------------------
// 2. RecvBound
//
// Shapes recognised:
//	packet.go recvPacket:   length, _ := unmarshalUint32(b)
//	                        if length > C { …; return 0, nil, errLongPacket }        C a constant expression (>= C: C-1)
//	                        … io.ReadFull(r, b[:length])                              the only slice of b with a non-constant bound
//	                        b = alloc.GetPage(orderID) | make([]byte, 4) | make([]byte, length)   every assignment to b, with guards
//	allocator.go GetPage:   result = make([]byte, N)   N a constant expression; the only make of a byte slice in allocator.go
//	                        result = a.available[…]    (a page made by an earlier GetPage)

type r6RecvFacts struct {
	src, allocSrc string
	boundCond     string
	bound         int64
	boundOK       bool
	sliceText     string
	sliceLow      string
	sliceHigh     string
	bufSources    [][2]string
	pageMakes     []int64
	pageSources   []string
	pageSize      int64
}

func r6RecvAnalyse(pi *pkgInfo, u *unit) (f r6RecvFacts) {
	f.src, f.allocSrc = "packet.go", "allocator.go"
	fd := pi.funcDecl("recvPacket")
	if fd == nil || fd.Body == nil {
		u.fail("recvPacket not found")
	} else {
		f.src = pi.pos(fd)
		par := r4Parents(fd)
		// the length variable
		var lengthObj, bufObj types.Object
		for _, s := range fd.Body.List {
			if as, ok := s.(*ast.AssignStmt); ok && as.Tok == token.DEFINE && len(as.Lhs) == 2 && len(as.Rhs) == 1 {
				if c, ok := ast.Unparen(as.Rhs[0]).(*ast.CallExpr); ok && r5CallName(pi, c) == "unmarshalUint32" && len(c.Args) == 1 {
					if id, ok := as.Lhs[0].(*ast.Ident); ok {
						lengthObj = pi.info.Defs[id]
					}
					if id, ok := ast.Unparen(c.Args[0]).(*ast.Ident); ok {
						bufObj = r4Obj(pi, id)
					}
				}
			}
		}
		if lengthObj == nil || bufObj == nil {
			u.fail("recvPacket (%s): `length, _ := unmarshalUint32(b)` not found", f.src)
		} else {
			ren := map[types.Object]string{lengthObj: "length", bufObj: "b"}
			if o := r6ParamOfType(pi, fd, "*allocator"); o != nil {
				ren[o] = "alloc"
			}
			if o := r6ParamOfType(pi, fd, "uint32"); o != nil {
				ren[o] = "orderID"
			}
			// the upper bound
			n := 0
			for _, s := range fd.Body.List {
				is, ok := s.(*ast.IfStmt)
				if !ok || len(is.Body.List) == 0 {
					continue
				}
				rs, ok := is.Body.List[len(is.Body.List)-1].(*ast.ReturnStmt)
				if !ok || len(rs.Results) != 3 || pi.nodeText(rs.Results[2]) != "errLongPacket" {
					continue
				}
				n++
				f.boundCond = r4Text(pi, is.Cond, ren)
				be, ok := ast.Unparen(is.Cond).(*ast.BinaryExpr)
				if !ok || is.Init != nil || is.Else != nil || !r5IsIdentOf(pi, be.X, lengthObj) {
					u.fail("recvPacket: the long-packet check is not `if length > C` (%s): %s", pi.pos(is), f.boundCond)
					continue
				}
				v, okv := pi.exprInt(be.Y)
				switch {
				case okv && be.Op == token.GTR:
					f.bound, f.boundOK = v, true
				case okv && be.Op == token.GEQ && v > 0:
					f.bound, f.boundOK = v-1, true
				default:
					u.fail("recvPacket: the long-packet check is not `length > C` with a constant C (%s): %s", pi.pos(is), f.boundCond)
				}
			}
			if n != 1 {
				u.fail("recvPacket (%s): expected exactly one `if … { …; return 0, nil, errLongPacket }`, found %d", f.src, n)
				f.boundOK = false
			}
			// slices of b
			nBody := 0
			r6Inspect(fd.Body, func(m ast.Node) bool {
				se, ok := m.(*ast.SliceExpr)
				if !ok || !r5IsIdentOf(pi, se.X, bufObj) {
					return true
				}
				if se.High != nil {
					if _, isConst := pi.exprInt(se.High); isConst && !se.Slice3 {
						return true // b[:4]: the header, every buffer has 4 bytes
					}
				}
				mentionsLength := false
				ast.Inspect(se, func(k ast.Node) bool {
					if id, ok := k.(*ast.Ident); ok && r4Obj(pi, id) == lengthObj {
						mentionsLength = true
					}
					return true
				})
				if !mentionsLength {
					return true // b[:n], b[1:n]: n is what ReadFull returned, at most the length of what it was given
				}
				nBody++
				f.sliceText = r4Text(pi, se, ren)
				if se.Low != nil {
					f.sliceLow = r4Text(pi, se.Low, ren)
				}
				if se.High != nil {
					f.sliceHigh = r4Text(pi, se.High, ren)
				}
				if se.Slice3 {
					f.sliceHigh += ":" + r4Text(pi, se.Max, ren)
				}
				// it must be the buffer argument of io.ReadFull
				if c, ok := par[se].(*ast.CallExpr); !ok || r5CallName(pi, c) != "io.ReadFull" || len(c.Args) != 2 || c.Args[1] != ast.Expr(se) {
					u.fail("recvPacket: %s is not the buffer argument of io.ReadFull (%s)", f.sliceText, pi.pos(se))
				}
				return true
			})
			if nBody != 1 {
				u.fail("recvPacket (%s): expected exactly one slice of the buffer bounded by `length`, found %d", f.src, nBody)
			}
			// every assignment to b
			r6Inspect(fd.Body, func(m ast.Node) bool {
				switch st := m.(type) {
				case *ast.AssignStmt:
					for i, l := range st.Lhs {
						if r5IsIdentOf(pi, l, bufObj) && len(st.Rhs) == len(st.Lhs) {
							rhs := ast.Unparen(st.Rhs[i])
							if se, ok := rhs.(*ast.SliceExpr); ok && r5IsIdentOf(pi, se.X, bufObj) {
								continue // b = b[:n] narrows
							}
							f.bufSources = append(f.bufSources, [2]string{r6Guards(pi, par, fd.Body, st, ren), r4Text(pi, rhs, ren)})
						}
					}
				}
				return true
			})
		}
	}
	// allocator.GetPage
	gp := pi.funcDecl("allocator.GetPage")
	if gp == nil || gp.Body == nil {
		u.fail("allocator.GetPage not found")
		return
	}
	f.allocSrc = pi.pos(gp)
	// every make of a byte slice in the methods of allocator
	for _, fd := range r5Methods(pi, "allocator") {
		if fd.Body == nil {
			continue
		}
		ast.Inspect(fd.Body, func(m ast.Node) bool {
			c, ok := m.(*ast.CallExpr)
			if !ok || !r6IsBuiltin(pi, c, "make") || len(c.Args) < 2 {
				return true
			}
			if tv, ok := pi.info.Types[c.Args[0]]; !ok || !r4IsByteSlice(tv.Type) {
				return true
			}
			if fd != gp {
				u.fail("allocator.%s makes a byte slice: %s (%s)", fd.Name.Name, pi.nodeText(c), pi.pos(c))
			}
			v, okv := pi.exprInt(c.Args[1])
			if !okv || len(c.Args) != 2 {
				u.fail("allocator.%s: %s is not make([]byte, <constant>) (%s)", fd.Name.Name, pi.nodeText(c), pi.pos(c))
				v = 0
			}
			f.pageMakes = append(f.pageMakes, v)
			return true
		})
	}
	// what GetPage returns
	var resObj types.Object
	if n := len(gp.Body.List); n > 0 {
		if rs, ok := gp.Body.List[n-1].(*ast.ReturnStmt); ok && len(rs.Results) == 1 {
			if id, ok := ast.Unparen(rs.Results[0]).(*ast.Ident); ok {
				resObj = r4Obj(pi, id)
			}
		}
	}
	nRet := 0
	r6Inspect(gp.Body, func(m ast.Node) bool {
		if _, ok := m.(*ast.ReturnStmt); ok {
			nRet++
		}
		return true
	})
	if resObj == nil || nRet != 1 {
		u.fail("allocator.GetPage (%s): does not end in its only `return <variable>`", f.allocSrc)
		return
	}
	ren := map[types.Object]string{resObj: "result"}
	if r := r5RecvObj(pi, gp); r != nil {
		ren[r] = "a"
	}
	r6Inspect(gp.Body, func(m ast.Node) bool {
		if as, ok := m.(*ast.AssignStmt); ok && len(as.Lhs) == len(as.Rhs) {
			for i, l := range as.Lhs {
				if r5IsIdentOf(pi, l, resObj) {
					rhs := ast.Unparen(as.Rhs[i])
					switch e := rhs.(type) {
					case *ast.CallExpr:
						if r6IsBuiltin(pi, e, "make") {
							f.pageSources = append(f.pageSources, "make")
							continue
						}
					case *ast.IndexExpr:
						if x, ok := r6FieldOf(pi, e.X, "allocator", "available"); ok && r5IsIdentOf(pi, x, r5RecvObj(pi, gp)) {
							f.pageSources = append(f.pageSources, "available")
							continue
						}
					}
					f.pageSources = append(f.pageSources, "other:"+r4Text(pi, rhs, ren))
					u.fail("allocator.GetPage: unrecognised source of the page: %s (%s)", r4Text(pi, as, ren), pi.pos(as))
				}
			}
		}
		return true
	})
	sort.Strings(f.pageSources)
	if len(f.pageMakes) == 1 {
		f.pageSize = f.pageMakes[0]
	} else {
		u.fail("allocator.go: expected exactly one make([]byte, N) in the allocator's methods, found %d", len(f.pageMakes))
	}
	return
}

func extractRecvBound(x *extractor) {
	u := x.newUnit("RecvBound")
	var f r6RecvFacts
	r5Guard(u, func() { f = r6RecvAnalyse(x.root, u) })
	u.pf("namespace Sftp.G\n\n")
	u.pf("-- source: %s (recvPacket): the condition under which a frame is refused as too long (length variable printed as\n", f.src)
	u.pf("-- `length`) and the largest length that passes it (the constant evaluated by go/types); rbBoundRecognised = the\n-- condition is `length > C` / `length >= C` with a constant C and is the only errLongPacket return\n")
	u.pf("def rbRecvBoundCond : String := %s\n", leanStr(f.boundCond))
	u.pf("def rbRecvBound : Nat := %d\n", f.bound)
	u.pf("def rbBoundRecognised : Bool := %s\n", leanBool(f.boundOK))
	u.pf("-- the one slice of the receive buffer whose bound mentions `length` (the buffer argument of io.ReadFull): text, low, high\n")
	u.pf("def rbBodySlice : String := %s\n", leanStr(f.sliceText))
	u.pf("def rbBodySliceLow : String := %s\n", leanStr(f.sliceLow))
	u.pf("def rbBodySliceHigh : String := %s\n", leanStr(f.sliceHigh))
	u.pf("-- every assignment to the receive buffer other than a re-slice of itself (guard, right-hand side)\n")
	u.pf("def rbBufferSources : List (String × String) := %s\n\n", r4Pairs(f.bufSources))
	var ms []string
	for _, v := range f.pageMakes {
		ms = append(ms, fmt.Sprint(v))
	}
	u.pf("-- source: %s (allocator.GetPage): the constant size of every make([]byte, N) in the methods of allocator, where the\n-- page GetPage returns comes from, and the page size (0 if there is not exactly one make)\n", f.allocSrc)
	u.pf("def rbPageMakes : List Nat := [%s]\n", strings.Join(ms, ", "))
	u.pf("def rbPageSources : List String := %s\n", leanStrList(f.pageSources))
	u.pf("def rbPageSize : Nat := %d\n", f.pageSize)
	u.pf("\nend Sftp.G\n")
}

// ---------------------------------------------------------------------------------------------------------------
// 3. InMemShape
//
// Shapes recognised (request-example.go):
//	(a) every assignment `<receiver>.content = R` in a method of memFile:  R ∈
//	      append(<receiver>.content[…]…, …)   "append(content)"      make(…)  "make"      nil  "nil"
//	      <receiver>.content[…]                "reslice(content)"    bytes.Clone / slices.Clone(…)  "clone"
//	      a []byte PARAMETER of the method or a slice of one          "param:<text>"   (recognised, and what must not be)
//	    anything else is a broken tie ("other:<text>").
//	    every occurrence of a []byte parameter of a method of memFile: len(b) "len", copy(b, …) "copy-dst", copy(…, b)
//	    "copy-src", append(…, b...) "append-elems", b[i:j] below one of these; anything else "other:<statement>".
//	(b) (*root).openfile:  `file, err := fs.fetch(pathname)`; memFile literals, stores into fs.files, calls of fs.putfile
//	    and assignments to that `file` variable, each with the conditions it stands under; the statement
//	    `if pflags.Trunc { if err := file.Truncate(0); err != nil { return nil, err } }` (truncate the EXISTING object);
//	    (*root).putfile: its statements (the store is preceded by the "name not found" check).

type r6MemFacts struct {
	src, openSrc  string
	writes        [][2]string
	paramUses     [][2]string
	noAlias       bool
	lookup        string
	truncStmt     string
	truncInPlace  bool
	newObjects    [][2]string
	stores        [][2]string
	putCalls      [][2]string
	reassigned    [][2]string
	putfileBody   []string
	putfileStores int
	allStores     [][2]string
}

func r6MemAnalyse(pi *pkgInfo, u *unit) (f r6MemFacts) {
	f.src, f.openSrc = "request-example.go", "request-example.go"
	ms := r5Methods(pi, "memFile")
	if len(ms) == 0 {
		u.fail("type memFile has no methods / not found")
	} else {
		f.src = pi.pos(ms[0])
	}
	f.noAlias = len(ms) > 0
	for _, fd := range ms {
		if fd.Body == nil {
			continue
		}
		recv := r5RecvObj(pi, fd)
		ren := map[types.Object]string{}
		if recv != nil {
			ren[recv] = "f"
		}
		params := map[types.Object]bool{}
		for _, p := range fd.Type.Params.List {
			for _, id := range p.Names {
				if o := pi.info.Defs[id]; o != nil && r4IsByteSlice(o.Type()) {
					params[o] = true
					ren[o] = "b"
				}
			}
		}
		par := r4Parents(fd)
		isContent := func(e ast.Expr) bool { // <anything>.content, the field of memFile
			_, ok := r6FieldOf(pi, e, "memFile", "content")
			return ok
		}
		var baseIsContent func(e ast.Expr) bool
		baseIsContent = func(e ast.Expr) bool {
			e = ast.Unparen(e)
			if se, ok := e.(*ast.SliceExpr); ok {
				return baseIsContent(se.X)
			}
			return isContent(e)
		}
		var baseIsParam func(e ast.Expr) bool
		baseIsParam = func(e ast.Expr) bool {
			e = ast.Unparen(e)
			if se, ok := e.(*ast.SliceExpr); ok {
				return baseIsParam(se.X)
			}
			id, ok := e.(*ast.Ident)
			return ok && params[r4Obj(pi, id)]
		}
		classify := func(rhs ast.Expr) string {
			rhs = ast.Unparen(rhs)
			switch e := rhs.(type) {
			case *ast.Ident:
				if _, isNil := pi.info.Uses[e].(*types.Nil); isNil {
					return "nil"
				}
			case *ast.SliceExpr:
				if baseIsContent(e) && !e.Slice3 {
					return "reslice(content)"
				}
			case *ast.CallExpr:
				switch r5CallName(pi, e) {
				case "builtin:make":
					return "make"
				case "builtin:append":
					if len(e.Args) >= 1 && baseIsContent(e.Args[0]) {
						return "append(content)"
					}
				case "bytes.Clone", "slices.Clone":
					return "clone"
				}
			}
			if baseIsParam(rhs) {
				return "param:" + r4Text(pi, rhs, ren)
			}
			return "other:" + r4Text(pi, rhs, ren)
		}
		ast.Inspect(fd.Body, func(m ast.Node) bool {
			switch st := m.(type) {
			case *ast.AssignStmt:
				for i, l := range st.Lhs {
					if !isContent(l) {
						continue
					}
					k := "other:" + r4Text(pi, st, ren)
					if len(st.Rhs) == len(st.Lhs) && st.Tok == token.ASSIGN {
						k = classify(st.Rhs[i])
					}
					f.writes = append(f.writes, [2]string{fd.Name.Name, k})
					switch {
					case strings.HasPrefix(k, "other:"):
						f.noAlias = false
						u.fail("memFile.%s: unrecognised right-hand side of an assignment to content: %s (%s)", fd.Name.Name, r4Text(pi, st, ren), pi.pos(st))
					case strings.HasPrefix(k, "param:"):
						f.noAlias = false
					}
				}
			case *ast.UnaryExpr:
				if st.Op == token.AND && isContent(st.X) {
					f.noAlias = false
					u.fail("memFile.%s: the address of content is taken (%s)", fd.Name.Name, pi.pos(st))
				}
			}
			return true
		})
		// uses of the []byte parameters
		var uses []string
		ast.Inspect(fd.Body, func(m ast.Node) bool {
			id, ok := m.(*ast.Ident)
			if !ok || !params[pi.info.Uses[id]] {
				return true
			}
			// climb over re-slices of the parameter
			var node ast.Node = id
			for {
				p := par[node]
				if se, ok := p.(*ast.SliceExpr); ok && se.X == node {
					node = se
					continue
				}
				if pe, ok := p.(*ast.ParenExpr); ok {
					node = pe
					continue
				}
				break
			}
			kind := ""
			if c, ok := par[node].(*ast.CallExpr); ok {
				switch r5CallName(pi, c) {
				case "builtin:len":
					kind = "len"
				case "builtin:copy":
					if len(c.Args) == 2 && c.Args[0] == node {
						kind = "copy-dst"
					} else if len(c.Args) == 2 && c.Args[1] == node {
						kind = "copy-src"
					}
				case "builtin:append":
					if len(c.Args) == 2 && c.Args[1] == node && c.Ellipsis.IsValid() {
						kind = "append-elems"
					}
				}
			}
			if kind == "" {
				// the enclosing statement
				var s ast.Node = node
				for s != nil {
					if _, ok := s.(ast.Stmt); ok {
						break
					}
					s = par[s]
				}
				if s == nil {
					s = node
				}
				kind = "other:" + r4Text(pi, s, ren)
				f.noAlias = false
			}
			uses = append(uses, kind)
			return true
		})
		for _, k := range r6SortedUnique(uses) {
			f.paramUses = append(f.paramUses, [2]string{fd.Name.Name, k})
		}
	}

	// (b) openfile
	of := pi.funcDecl("root.openfile")
	if of == nil || of.Body == nil {
		u.fail("(*root).openfile not found")
		return
	}
	f.openSrc = pi.pos(of)
	par := r4Parents(of)
	recv := r5RecvObj(pi, of)
	ren := map[types.Object]string{}
	if recv != nil {
		ren[recv] = "fs"
	}
	if len(of.Type.Params.List) >= 1 && len(of.Type.Params.List[0].Names) >= 1 {
		if o := pi.info.Defs[of.Type.Params.List[0].Names[0]]; o != nil {
			ren[o] = "pathname"
		}
	}
	var fileObj, errObj types.Object
	for _, s := range of.Body.List {
		as, ok := s.(*ast.AssignStmt)
		if !ok || as.Tok != token.DEFINE || len(as.Lhs) != 2 || len(as.Rhs) != 1 {
			continue
		}
		c, ok := ast.Unparen(as.Rhs[0]).(*ast.CallExpr)
		if !ok {
			continue
		}
		if fn := r4Callee(pi, c); fn != nil && r4CalleeName(pi, fn) == "root.fetch" {
			if id, ok := as.Lhs[0].(*ast.Ident); ok {
				fileObj = pi.info.Defs[id]
			}
			if id, ok := as.Lhs[1].(*ast.Ident); ok {
				errObj = pi.info.Defs[id]
			}
			if fileObj != nil {
				ren[fileObj] = "file"
			}
			if errObj != nil {
				ren[errObj] = "err"
			}
			f.lookup = r4Text(pi, as, ren)
		}
	}
	if fileObj == nil || errObj == nil {
		u.fail("openfile (%s): `file, err := fs.fetch(pathname)` not found among its top-level statements", f.openSrc)
		return
	}
	isFilesMap := func(e ast.Expr) bool {
		ix, ok := ast.Unparen(e).(*ast.IndexExpr)
		if !ok {
			return false
		}
		_, ok = r6FieldOf(pi, ix.X, "root", "files")
		return ok
	}
	memTN := pi.pkg.Scope().Lookup("memFile")
	ast.Inspect(of.Body, func(m ast.Node) bool {
		switch t := m.(type) {
		case *ast.CompositeLit:
			if tv, ok := pi.info.Types[t]; ok {
				if nn := r4NamedOf(tv.Type); nn != nil && nn.Obj() == memTN {
					f.newObjects = append(f.newObjects, [2]string{r6Guards(pi, par, of.Body, t, ren), "memFile literal"})
				}
			}
		case *ast.CallExpr:
			if r6IsBuiltin(pi, t, "new") && len(t.Args) == 1 && pi.nodeText(t.Args[0]) == "memFile" {
				f.newObjects = append(f.newObjects, [2]string{r6Guards(pi, par, of.Body, t, ren), "new(memFile)"})
			}
			if fn := r4Callee(pi, t); fn != nil && r4CalleeName(pi, fn) == "root.putfile" {
				f.putCalls = append(f.putCalls, [2]string{r6Guards(pi, par, of.Body, t, ren), r4Text(pi, t, ren)})
			}
			if r6IsBuiltin(pi, t, "delete") && len(t.Args) == 2 {
				if _, ok := r6FieldOf(pi, t.Args[0], "root", "files"); ok {
					f.stores = append(f.stores, [2]string{r6Guards(pi, par, of.Body, t, ren), r4Text(pi, t, ren)})
				}
			}
		case *ast.AssignStmt:
			for _, l := range t.Lhs {
				if isFilesMap(l) {
					f.stores = append(f.stores, [2]string{r6Guards(pi, par, of.Body, t, ren), r4Text(pi, t, ren)})
				}
				if r5IsIdentOf(pi, l, fileObj) && !(t.Tok == token.DEFINE && pi.info.Defs[l.(*ast.Ident)] == fileObj) {
					f.reassigned = append(f.reassigned, [2]string{r6Guards(pi, par, of.Body, t, ren), r4Text(pi, t, ren)})
				}
			}
		}
		return true
	})
	// the O_TRUNC branch
	nTrunc := 0
	for _, s := range of.Body.List {
		is, ok := s.(*ast.IfStmt)
		if !ok || !strings.HasSuffix(pi.nodeText(is.Cond), ".Trunc") {
			continue
		}
		nTrunc++
		f.truncStmt = r4Text(pi, is, ren)
		if is.Init != nil || is.Else != nil || len(is.Body.List) != 1 {
			continue
		}
		inner, ok := is.Body.List[0].(*ast.IfStmt)
		if !ok || inner.Else != nil || inner.Init == nil {
			continue
		}
		as, ok := inner.Init.(*ast.AssignStmt)
		if !ok || len(as.Lhs) != 1 || len(as.Rhs) != 1 {
			continue
		}
		c, ok := ast.Unparen(as.Rhs[0]).(*ast.CallExpr)
		if !ok || len(c.Args) != 1 {
			continue
		}
		x, isTrunc := r5MethodCall(pi, &ast.CallExpr{Fun: c.Fun}, r5MethodObj(pi, "memFile.Truncate"))
		v, isConst := pi.exprInt(c.Args[0])
		retOK := len(inner.Body.List) == 1
		if retOK {
			_, retOK = inner.Body.List[0].(*ast.ReturnStmt)
		}
		if isTrunc && r5IsIdentOf(pi, x, fileObj) && isConst && v == 0 && retOK {
			f.truncInPlace = true
		}
	}
	if nTrunc != 1 {
		u.fail("openfile (%s): expected exactly one top-level `if <flags>.Trunc { … }`, found %d", f.openSrc, nTrunc)
		f.truncInPlace = false
	}
	// putfile
	if pf := pi.funcDecl("root.putfile"); pf == nil || pf.Body == nil {
		u.fail("(*root).putfile not found")
	} else {
		pren := map[types.Object]string{}
		if r := r5RecvObj(pi, pf); r != nil {
			pren[r] = "fs"
		}
		f.putfileBody = r6Texts(pi, pf.Body.List, pren)
	}
	// every store into the files map in the package (function, statement)
	for _, fd := range r4Funcs(pi) {
		fren := map[types.Object]string{}
		if r := r5RecvObj(pi, fd); r != nil {
			fren[r] = "fs"
		}
		ast.Inspect(fd.Body, func(m ast.Node) bool {
			if as, ok := m.(*ast.AssignStmt); ok {
				for _, l := range as.Lhs {
					if isFilesMap(l) {
						f.allStores = append(f.allStores, [2]string{r4FuncName(fd), r4Text(pi, as, fren)})
					}
				}
			}
			return true
		})
	}
	return
}

func extractInMemShape(x *extractor) {
	u := x.newUnit("InMemShape")
	var f r6MemFacts
	r5Guard(u, func() { f = r6MemAnalyse(x.root, u) })
	u.pf("namespace Sftp.G\n\n")
	u.pf("-- source: %s (methods of memFile): every assignment to the field `content` (method, kind of the right-hand side:\n", f.src)
	u.pf("-- append(content) | make | reslice(content) | nil | clone | param:<text> = a []byte parameter of the method | other:<text>)\n")
	u.pf("def imContentWrites : List (String × String) := %s\n", r4Pairs(f.writes))
	u.pf("-- every use of a []byte parameter in those methods (method, len | copy-dst | copy-src | append-elems | other:<statement>)\n")
	u.pf("def imParamUses : List (String × String) := %s\n", r4Pairs(f.paramUses))
	u.pf("-- no write is param:/other:, no use is other:, the address of content is never taken\n")
	u.pf("def imContentNeverAliasesParam : Bool := %s\n\n", leanBool(f.noAlias))
	u.pf("-- source: %s ((*root).openfile; receiver printed as `fs`, first parameter as `pathname`, the looked-up object as `file`)\n", f.openSrc)
	u.pf("def imOpenLookup : String := %s\n", leanStr(f.lookup))
	u.pf("-- the O_TRUNC statement, and: it is `if <flags>.Trunc { if err := file.Truncate(0); err != nil { return … } }` with `file`\n-- the looked-up object and Truncate the method of memFile\n")
	u.pf("def imOpenTruncStmt : String := %s\n", leanStr(f.truncStmt))
	u.pf("def imOpenTruncInPlace : Bool := %s\n", leanBool(f.truncInPlace))
	u.pf("-- in openfile, each with the conditions it stands under: memFile objects made; stores into / deletes from fs.files;\n-- calls of fs.putfile; assignments to the looked-up `file` variable\n")
	u.pf("def imOpenNewObjects : List (String × String) := %s\n", r4Pairs(f.newObjects))
	u.pf("def imOpenStores : List (String × String) := %s\n", r4Pairs(f.stores))
	u.pf("def imOpenPutfileCalls : List (String × String) := %s\n", r4Pairs(f.putCalls))
	u.pf("def imOpenFileReassigned : List (String × String) := %s\n", r4Pairs(f.reassigned))
	u.pf("-- source: request-example.go (*root).putfile, statement by statement\n")
	u.pf("def imPutfileBody : List String :=\n  %s\n", leanStrList(f.putfileBody))
	u.pf("-- every `fs.files[…] = …` in the package (function, statement)\n")
	u.pf("def imFilesStores : List (String × String) := %s\n", r4Pairs(f.allStores))
	u.pf("\nend Sftp.G\n")
}

// ---------------------------------------------------------------------------------------------------------------
// 4. SrvWorkDir
//
// Shapes recognised (server.go, server_unix.go):
//	every write of the field Server.workDir in the package: an assignment `X.workDir = R`, `X.workDir += …`, a key
//	`workDir:` in a Server composite literal, `&X.workDir`; for each: the function, whether it stands inside a function
//	literal of that function ("closure") or in its body ("body"), the text (the Server printed as `s`).
//	NewServer: every call in its body (by callee), the keys of its Server literal.
//	Server.toLocalPath: `if G { p = path.Join(s.workDir, p) }; return p` — G and the statements are emitted as text.
//	every function of the package that calls os.Getwd; every function that reads Server.workDir.

type r6WdFacts struct {
	src, tlSrc   string
	writes       [][3]string
	newCalls     []string
	newLitKeys   []string
	getwdCallers []string
	readers      []string
	guard        string
	then         string
	body         []string
}

func r6WdAnalyse(pi *pkgInfo, u *unit) (f r6WdFacts) {
	f.src, f.tlSrc = "server.go", "server_unix.go"
	srvTN, _ := pi.pkg.Scope().Lookup("Server").(*types.TypeName)
	if srvTN == nil {
		u.fail("type Server not found")
		return
	}
	isWorkDir := func(e ast.Expr) bool {
		_, ok := r6FieldOf(pi, e, "Server", "workDir")
		return ok
	}
	if _, ok := srvTN.Type().Underlying().(*types.Struct); !ok {
		u.fail("Server is not a struct type")
		return
	}
	hasField := false
	st := srvTN.Type().Underlying().(*types.Struct)
	for i := 0; i < st.NumFields(); i++ {
		if st.Field(i).Name() == "workDir" {
			hasField = true
		}
	}
	if !hasField {
		u.fail("Server has no field workDir")
	}
	for _, fd := range r4Funcs(pi) {
		name := r4FuncName(fd)
		par := r4Parents(fd)
		ren := map[types.Object]string{}
		// every *Server-typed variable of the function prints as `s`
		ast.Inspect(fd, func(m ast.Node) bool {
			if id, ok := m.(*ast.Ident); ok {
				if v, isVar := pi.info.Defs[id].(*types.Var); isVar && !v.IsField() {
					if nn := r4NamedOf(v.Type()); nn != nil && nn.Obj() == srvTN {
						ren[v] = "s"
					}
				}
			}
			return true
		})
		where := func(n ast.Node) string {
			for p := par[n]; p != nil; p = par[p] {
				if _, ok := p.(*ast.FuncLit); ok {
					return "closure"
				}
			}
			return "body"
		}
		written := map[ast.Node]bool{}
		ast.Inspect(fd.Body, func(m ast.Node) bool {
			switch t := m.(type) {
			case *ast.AssignStmt:
				for _, l := range t.Lhs {
					if isWorkDir(l) {
						written[ast.Unparen(l)] = true
						f.writes = append(f.writes, [3]string{name, where(t), r4Text(pi, t, ren)})
					}
				}
			case *ast.IncDecStmt:
				if isWorkDir(t.X) {
					written[ast.Unparen(t.X)] = true
					f.writes = append(f.writes, [3]string{name, where(t), r4Text(pi, t, ren)})
				}
			case *ast.UnaryExpr:
				if t.Op == token.AND && isWorkDir(t.X) {
					written[ast.Unparen(t.X)] = true
					f.writes = append(f.writes, [3]string{name, where(t), "&" + r4Text(pi, t.X, ren)})
				}
			case *ast.CompositeLit:
				tv, ok := pi.info.Types[t]
				if !ok {
					return true
				}
				if nn := r4NamedOf(tv.Type); nn == nil || nn.Obj() != srvTN {
					return true
				}
				for _, el := range t.Elts {
					kv, ok := el.(*ast.KeyValueExpr)
					if !ok {
						f.writes = append(f.writes, [3]string{name, where(t), "positional Server literal"})
						u.fail("%s: positional Server literal (%s)", name, pi.pos(t))
						break
					}
					if k, ok := kv.Key.(*ast.Ident); ok {
						if name == "NewServer" {
							f.newLitKeys = append(f.newLitKeys, k.Name)
						}
						if k.Name == "workDir" {
							f.writes = append(f.writes, [3]string{name, where(t), "literal workDir: " + r4Text(pi, kv.Value, ren)})
						}
					}
				}
			}
			return true
		})
		reads := false
		ast.Inspect(fd.Body, func(m ast.Node) bool {
			switch t := m.(type) {
			case *ast.SelectorExpr:
				if isWorkDir(t) && !written[t] {
					reads = true
				}
			case *ast.CallExpr:
				if r5CallName(pi, t) == "os.Getwd" {
					f.getwdCallers = append(f.getwdCallers, name)
				}
			}
			return true
		})
		if reads {
			f.readers = append(f.readers, name)
		}
	}
	f.getwdCallers = r6SortedUnique(f.getwdCallers)

	ns := pi.funcDecl("NewServer")
	if ns == nil || ns.Body == nil {
		u.fail("NewServer not found")
	} else {
		f.src = pi.pos(ns)
		var optVars = map[types.Object]bool{}
		ast.Inspect(ns.Body, func(m ast.Node) bool {
			c, ok := m.(*ast.CallExpr)
			if !ok {
				return true
			}
			n := r5CallName(pi, c)
			if strings.HasPrefix(n, "?") {
				// a call of a ServerOption value
				if id, ok := ast.Unparen(c.Fun).(*ast.Ident); ok {
					if v, isVar := r4Obj(pi, id).(*types.Var); isVar {
						if nn := r4NamedOf(v.Type()); nn != nil && nn.Obj().Name() == "ServerOption" {
							optVars[v] = true
							n = "option(s)"
						}
					}
				}
			}
			if strings.HasPrefix(n, "?") {
				u.fail("NewServer: unresolved call %s (%s)", pi.nodeText(c), pi.pos(c))
			}
			f.newCalls = append(f.newCalls, n)
			return true
		})
	}

	tl := pi.funcDecl("Server.toLocalPath")
	if tl == nil || tl.Body == nil {
		u.fail("Server.toLocalPath not found")
		return
	}
	f.tlSrc = pi.pos(tl)
	ren := map[types.Object]string{}
	if r := r5RecvObj(pi, tl); r != nil {
		ren[r] = "s"
	}
	if len(tl.Type.Params.List) == 1 && len(tl.Type.Params.List[0].Names) == 1 {
		if o := pi.info.Defs[tl.Type.Params.List[0].Names[0]]; o != nil {
			ren[o] = "p"
		}
	}
	f.body = r6Texts(pi, tl.Body.List, ren)
	n := 0
	for _, s := range tl.Body.List {
		is, ok := s.(*ast.IfStmt)
		if !ok {
			continue
		}
		uses := false
		ast.Inspect(is, func(m ast.Node) bool {
			if e, ok := m.(ast.Expr); ok && isWorkDir(e) {
				uses = true
			}
			return true
		})
		if !uses {
			continue
		}
		n++
		if is.Init != nil || is.Else != nil || len(is.Body.List) != 1 {
			u.fail("Server.toLocalPath: the statement that uses workDir is not `if G { one statement }` (%s)", pi.pos(is))
			continue
		}
		f.guard = r4Text(pi, is.Cond, ren)
		f.then = r4Text(pi, is.Body.List[0], ren)
	}
	if n != 1 {
		u.fail("Server.toLocalPath (%s): expected exactly one if statement that uses workDir, found %d", f.tlSrc, n)
	}
	return
}

func extractSrvWorkDir(x *extractor) {
	u := x.newUnit("SrvWorkDir")
	var f r6WdFacts
	r5Guard(u, func() { f = r6WdAnalyse(x.root, u) })
	u.pf("namespace Sftp.G\n\n")
	u.pf("-- source: server.go: every write of the field Server.workDir in the package (function, closure = inside a function\n")
	u.pf("-- literal of it | body, text with the Server printed as `s`)\n")
	u.pf("def wdWrites : List (String × String × String) := %s\n", r4Triples(f.writes))
	u.pf("-- every function that reads Server.workDir; every function that calls os.Getwd\n")
	u.pf("def wdReaders : List String := %s\n", leanStrList(f.readers))
	u.pf("def wdGetwdCallers : List String := %s\n", leanStrList(f.getwdCallers))
	u.pf("-- source: %s (NewServer): every call in its body in source order (option(s) = the call of a ServerOption value) and the\n-- keys of its Server literal\n", f.src)
	u.pf("def wdNewServerCalls : List String := %s\n", leanStrList(f.newCalls))
	u.pf("def wdNewServerLiteralKeys : List String := %s\n\n", leanStrList(f.newLitKeys))
	u.pf("-- source: %s (Server.toLocalPath; receiver `s`, parameter `p`): its statements, and the one that uses workDir:\n-- `if <guard> { <then> }`\n", f.tlSrc)
	u.pf("def wdToLocalBody : List String := %s\n", leanStrList(f.body))
	u.pf("def wdToLocalGuard : String := %s\n", leanStr(f.guard))
	u.pf("def wdToLocalThen : String := %s\n", leanStr(f.then))
	u.pf("\nend Sftp.G\n")
}

// ---------------------------------------------------------------------------------------------------------------
// 5. FilestatClose
//
// "Obtain" calls: the handler methods that hand out an object the server has to close — Filelist, Lstat (of
// LstatFileLister), Fileread, Filewrite, OpenFile — recognised by the callee's name and its interface type.
// For every function of the package that makes such a call: what becomes of the result —
//	attached:<setter>     the variable is passed to <request>.setListerAt / setReaderAt / setWriterAt / setWriterAtReaderAt
//	                      (the Request owns it; Request.close and Serve's sweep are units SrvCloseSites / ServeShape)
//	local                 it stays in a local variable: the function itself must close it.
// For a function with local objects (request.go filestat) the top-level statements are classified:
//	var        a declaration                       obtain     assigns the local from obtain calls, contains no return
//	errReturn  `if err != nil { return … }` with err the error of the obtain calls, before listAt
//	listAt     `n, err := <local>.ListAt(…)`       close      `if c, ok := <local>.(io.Closer); ok { c.Close() }`
//	plain      contains no return / branch / panic and does not mention the local
//	uses       mentions the local otherwise (no return)      returns    contains a return statement
// and the Bool says: exactly one listAt, exactly one close, after it, only `plain` between them, only var / obtain /
// errReturn / plain before listAt.

type r6FcFacts struct {
	src        string
	sites      [][3]string
	kinds      []string
	between    []string
	dominates  bool
	localFuncs []string
}

var r6ObtainMethods = map[string]bool{"Filelist": true, "Lstat": true, "Fileread": true, "Filewrite": true, "OpenFile": true}

func r6IsObtain(pi *pkgInfo, c *ast.CallExpr) (string, bool) {
	sel, ok := ast.Unparen(c.Fun).(*ast.SelectorExpr)
	if !ok || !r6ObtainMethods[sel.Sel.Name] {
		return "", false
	}
	fn, ok := pi.info.Uses[sel.Sel].(*types.Func)
	if !ok || fn.Pkg() != pi.pkg {
		return "", false
	}
	sig, ok := fn.Type().(*types.Signature)
	if !ok || sig.Recv() == nil {
		return "", false
	}
	if _, isIface := sig.Recv().Type().Underlying().(*types.Interface); !isIface {
		return "", false
	}
	return sel.Sel.Name, true
}

func r6HasExit(pi *pkgInfo, n ast.Node) bool {
	bad := false
	r6Inspect(n, func(m ast.Node) bool {
		switch t := m.(type) {
		case *ast.ReturnStmt:
			bad = true
		case *ast.BranchStmt:
			if t.Tok == token.GOTO || t.Label != nil {
				bad = true
			}
		case *ast.CallExpr:
			switch r5CallName(pi, t) {
			case "builtin:panic", "os.Exit", "runtime.Goexit":
				bad = true
			}
		}
		return true
	})
	return bad
}

func r6FcAnalyse(pi *pkgInfo, u *unit) (f r6FcFacts) {
	f.src = "request.go"
	setters := map[string]bool{"setListerAt": true, "setReaderAt": true, "setWriterAt": true, "setWriterAtReaderAt": true}
	localIn := map[*ast.FuncDecl]map[types.Object]bool{}
	for _, fd := range r4Funcs(pi) {
		name := r4FuncName(fd)
		par := r4Parents(fd)
		ast.Inspect(fd.Body, func(m ast.Node) bool {
			c, ok := m.(*ast.CallExpr)
			if !ok {
				return true
			}
			meth, ok := r6IsObtain(pi, c)
			if !ok {
				return true
			}
			// the variable the result goes to
			as, ok := par[c].(*ast.AssignStmt)
			if !ok || len(as.Rhs) != 1 || len(as.Lhs) != 2 {
				f.sites = append(f.sites, [3]string{name, meth, "?"})
				u.fail("%s: result of %s is not assigned as `v, err := …` (%s)", name, meth, pi.pos(c))
				return true
			}
			id, ok := as.Lhs[0].(*ast.Ident)
			if !ok {
				f.sites = append(f.sites, [3]string{name, meth, "?"})
				u.fail("%s: result of %s is not assigned to a variable (%s)", name, meth, pi.pos(c))
				return true
			}
			obj := r4Obj(pi, id)
			// is it handed to a setter of the request?
			disp := "local"
			nUses := 0
			ast.Inspect(fd.Body, func(k ast.Node) bool {
				c2, ok := k.(*ast.CallExpr)
				if !ok || len(c2.Args) != 1 || !r5IsIdentOf(pi, c2.Args[0], obj) {
					return true
				}
				if fn := r4Callee(pi, c2); fn != nil && setters[fn.Name()] && fn.Pkg() == pi.pkg {
					disp = "attached:" + fn.Name()
					nUses++
				}
				return true
			})
			_ = nUses
			if disp == "local" {
				if localIn[fd] == nil {
					localIn[fd] = map[types.Object]bool{}
				}
				localIn[fd][obj] = true
			}
			f.sites = append(f.sites, [3]string{name, meth, disp})
			return true
		})
	}
	var locals []*ast.FuncDecl
	for fd := range localIn {
		locals = append(locals, fd)
	}
	sort.Slice(locals, func(i, j int) bool { return r4FuncName(locals[i]) < r4FuncName(locals[j]) })
	for _, fd := range locals {
		f.localFuncs = append(f.localFuncs, r4FuncName(fd))
	}
	if len(locals) != 1 || r4FuncName(locals[0]) != "filestat" {
		u.fail("expected exactly one function that keeps an obtained object in a local variable (filestat), found %v", f.localFuncs)
		if len(locals) == 0 {
			return
		}
	}
	fd := locals[0]
	f.src = pi.pos(fd)
	if len(localIn[fd]) != 1 {
		u.fail("%s: the obtained objects go to %d different variables", r4FuncName(fd), len(localIn[fd]))
		return
	}
	var lister types.Object
	for o := range localIn[fd] {
		lister = o
	}
	ren := map[types.Object]string{lister: "lister"}
	mentions := func(n ast.Node) bool {
		hit := false
		ast.Inspect(n, func(k ast.Node) bool {
			if id, ok := k.(*ast.Ident); ok && r4Obj(pi, id) == lister {
				hit = true
			}
			return true
		})
		return hit
	}
	// the error variable of the obtain calls
	var errObj types.Object
	ast.Inspect(fd.Body, func(m ast.Node) bool {
		if as, ok := m.(*ast.AssignStmt); ok && len(as.Lhs) == 2 && len(as.Rhs) == 1 {
			if c, ok := ast.Unparen(as.Rhs[0]).(*ast.CallExpr); ok {
				if _, ok := r6IsObtain(pi, c); ok {
					if id, ok := as.Lhs[1].(*ast.Ident); ok {
						errObj = r4Obj(pi, id)
					}
				}
			}
		}
		return true
	})
	isListAt := func(s ast.Stmt) bool {
		as, ok := s.(*ast.AssignStmt)
		if !ok || len(as.Rhs) != 1 {
			return false
		}
		c, ok := ast.Unparen(as.Rhs[0]).(*ast.CallExpr)
		if !ok {
			return false
		}
		sel, ok := ast.Unparen(c.Fun).(*ast.SelectorExpr)
		return ok && sel.Sel.Name == "ListAt" && r5IsIdentOf(pi, sel.X, lister)
	}
	isClose := func(s ast.Stmt) bool {
		is, ok := s.(*ast.IfStmt)
		if !ok || is.Init == nil || is.Else != nil || len(is.Body.List) != 1 {
			return false
		}
		as, ok := is.Init.(*ast.AssignStmt)
		if !ok || as.Tok != token.DEFINE || len(as.Lhs) != 2 || len(as.Rhs) != 1 {
			return false
		}
		ta, ok := ast.Unparen(as.Rhs[0]).(*ast.TypeAssertExpr)
		if !ok || ta.Type == nil || !r5IsIdentOf(pi, ta.X, lister) || pi.nodeText(ta.Type) != "io.Closer" {
			return false
		}
		cid, ok1 := as.Lhs[0].(*ast.Ident)
		okid, ok2 := as.Lhs[1].(*ast.Ident)
		if !ok1 || !ok2 || !r5IsIdentOf(pi, is.Cond, pi.info.Defs[okid]) {
			return false
		}
		es, ok := is.Body.List[0].(*ast.ExprStmt)
		if !ok {
			return false
		}
		c, ok := ast.Unparen(es.X).(*ast.CallExpr)
		if !ok || len(c.Args) != 0 {
			return false
		}
		sel, ok := ast.Unparen(c.Fun).(*ast.SelectorExpr)
		return ok && sel.Sel.Name == "Close" && r5IsIdentOf(pi, sel.X, pi.info.Defs[cid])
	}
	isErrReturn := func(s ast.Stmt) bool {
		is, ok := s.(*ast.IfStmt)
		if !ok || is.Init != nil || is.Else != nil || len(is.Body.List) != 1 || errObj == nil {
			return false
		}
		be, ok := ast.Unparen(is.Cond).(*ast.BinaryExpr)
		if !ok || be.Op != token.NEQ || !r5IsIdentOf(pi, be.X, errObj) || pi.nodeText(be.Y) != "nil" {
			return false
		}
		_, ok = is.Body.List[0].(*ast.ReturnStmt)
		return ok
	}
	hasObtain := func(s ast.Stmt) bool {
		hit := false
		ast.Inspect(s, func(k ast.Node) bool {
			if c, ok := k.(*ast.CallExpr); ok {
				if _, ok := r6IsObtain(pi, c); ok {
					hit = true
				}
			}
			return true
		})
		return hit
	}
	iList, iClose, nList, nClose := -1, -1, 0, 0
	for i, s := range fd.Body.List {
		k := ""
		_, isDecl := s.(*ast.DeclStmt)
		switch {
		case isDecl && !r6HasExit(pi, s) && !hasObtain(s):
			k = "var"
		case isListAt(s):
			k = "listAt"
			iList = i
			nList++
		case isClose(s):
			k = "close"
			iClose = i
			nClose++
		case hasObtain(s) && !r6HasExit(pi, s):
			k = "obtain"
		case isErrReturn(s) && !mentions(s):
			k = "errReturn"
		case r6HasExit(pi, s):
			k = "returns"
		case mentions(s):
			k = "uses"
		default:
			k = "plain"
		}
		f.kinds = append(f.kinds, k)
	}
	// ListAt / Close of the local anywhere else (nested) is an unrecognised shape
	nested := 0
	ast.Inspect(fd.Body, func(m ast.Node) bool {
		if sel, ok := m.(*ast.SelectorExpr); ok && (sel.Sel.Name == "ListAt") && r5IsIdentOf(pi, sel.X, lister) {
			nested++
		}
		return true
	})
	if nested != nList {
		u.fail("%s: <lister>.ListAt is called outside a top-level `n, err := lister.ListAt(…)` (%s)", r4FuncName(fd), f.src)
	}
	f.dominates = nList == 1 && nClose == 1 && iList < iClose
	if f.dominates {
		for i, k := range f.kinds {
			switch {
			case i < iList && k != "var" && k != "obtain" && k != "errReturn" && k != "plain":
				f.dominates = false
			case i > iList && i < iClose:
				f.between = append(f.between, r4Text(pi, fd.Body.List[i], ren))
				if k != "plain" && !(k == "uses" && !r6HasExit(pi, fd.Body.List[i])) {
					f.dominates = false
				}
			}
		}
	} else {
		u.fail("%s (%s): not exactly one top-level ListAt followed by exactly one top-level `if c, ok := lister.(io.Closer); ok { c.Close() }`", r4FuncName(fd), f.src)
	}
	return
}

func extractFilestatClose(x *extractor) {
	u := x.newUnit("FilestatClose")
	var f r6FcFacts
	r5Guard(u, func() { f = r6FcAnalyse(x.root, u) })
	u.pf("namespace Sftp.G\n\n")
	u.pf("-- source: request.go / request-server.go: every call of a handler method that hands out an object to be closed\n")
	u.pf("-- (function, method, attached:<setter of the Request> | local)\n")
	u.pf("def fcObtainSites : List (String × String × String) := %s\n", r4Triples(f.sites))
	u.pf("def fcLocalObjectFuncs : List String := %s\n\n", leanStrList(f.localFuncs))
	u.pf("-- source: %s (filestat): the kinds of its top-level statements (var | obtain | errReturn | listAt | close | plain |\n-- uses | returns), the statements between listAt and close (the local printed as `lister`), and: the close is reached on\n-- every path from the ListAt call\n", f.src)
	u.pf("def fcFilestatKinds : List String := %s\n", leanStrList(f.kinds))
	u.pf("def fcBetweenListAtAndClose : List String := %s\n", leanStrList(f.between))
	u.pf("def fcCloseDominatesReturns : Bool := %s\n", leanBool(f.dominates))
	u.pf("\nend Sftp.G\n")
}

// ---------------------------------------------------------------------------------------------------------------
// 6. ConnCloseShape
//
// Shapes recognised (conn.go, packet.go):
//	func (c *conn) Close() error       { c.Lock(); defer c.Unlock(); return c.WriteCloser.Close() }
//	func (c *conn) sendPacket(m) error { c.Lock(); defer c.Unlock(); return sendPacket(c, m) }
//	func sendPacket(w io.Writer, m)    …  w.Write(header) … if len(payload) > 0 { … w.Write(payload) … } …
// Emitted: both bodies as text (receiver `c`); the mutex OBJECT the leading `X.Lock(); defer X.Unlock()` pair selects
// (go/types field path, Owner.field; "" if the body does not start with such a pair); the Write calls of sendPacket
// with the conditions they stand under; every function of the package that calls Close on conn's WriteCloser field.
// (Which mutex the in-flight table uses and what else runs under conn's mutex is unit ConnLocks.)

type r6CcFacts struct {
	src                 string
	closeBody, sendBody []string
	closeLock, sendLock string
	closeHeld, sendHeld string
	writes              [][2]string
	closers             []string
}

// r6LeadingLock: the body starts with `X.Lock(); defer X.Unlock()` on one mutex object of package sync — returns
// Owner.field of that object and the statements that follow (executed while it is held).
func r6LeadingLock(pi *pkgInfo, fd *ast.FuncDecl) (string, []ast.Stmt) {
	if fd == nil || fd.Body == nil || len(fd.Body.List) < 2 {
		return "", nil
	}
	obj := func(c *ast.CallExpr, method string) string {
		if c == nil || len(c.Args) != 0 {
			return ""
		}
		sel, ok := ast.Unparen(c.Fun).(*ast.SelectorExpr)
		if !ok || sel.Sel.Name != method {
			return ""
		}
		tv, ok := pi.info.Types[sel.X]
		if !ok {
			return ""
		}
		steps, o := r4FieldPath(pi, tv.Type, method)
		fn, isFunc := o.(*types.Func)
		if !isFunc || fn.Pkg() == nil || fn.Pkg().Path() != "sync" {
			return ""
		}
		if len(steps) > 0 {
			return steps[len(steps)-1][0] + "." + steps[len(steps)-1][1]
		}
		if xs, ok := ast.Unparen(sel.X).(*ast.SelectorExpr); ok {
			if xtv, ok := pi.info.Types[xs.X]; ok {
				if st, fo := r4FieldPath(pi, xtv.Type, xs.Sel.Name); fo != nil && len(st) > 0 {
					return st[len(st)-1][0] + "." + st[len(st)-1][1]
				}
			}
		}
		return "local:" + pi.nodeText(sel.X)
	}
	es, ok := fd.Body.List[0].(*ast.ExprStmt)
	if !ok {
		return "", nil
	}
	c0, _ := ast.Unparen(es.X).(*ast.CallExpr)
	ds, ok := fd.Body.List[1].(*ast.DeferStmt)
	if !ok {
		return "", nil
	}
	l, ul := obj(c0, "Lock"), obj(ds.Call, "Unlock")
	if l == "" || l != ul {
		return "", nil
	}
	return l, fd.Body.List[2:]
}

func r6CcAnalyse(pi *pkgInfo, u *unit) (f r6CcFacts) {
	f.src = "conn.go"
	cl := pi.funcDecl("conn.Close")
	sp := pi.funcDecl("conn.sendPacket")
	if cl == nil || cl.Body == nil {
		u.fail("(*conn).Close not found")
	}
	if sp == nil || sp.Body == nil {
		u.fail("(*conn).sendPacket not found")
	}
	isPipeClose := func(c *ast.CallExpr) bool { // <conn>.WriteCloser.Close() / <conn>.Close() promoted from WriteCloser
		sel, ok := ast.Unparen(c.Fun).(*ast.SelectorExpr)
		if !ok || sel.Sel.Name != "Close" || len(c.Args) != 0 {
			return false
		}
		if _, ok := r6FieldOf(pi, sel.X, "conn", "WriteCloser"); ok {
			return true
		}
		return false
	}
	if cl != nil && cl.Body != nil {
		f.src = pi.pos(cl)
		ren := map[types.Object]string{}
		if r := r5RecvObj(pi, cl); r != nil {
			ren[r] = "c"
		}
		f.closeBody = r6Texts(pi, cl.Body.List, ren)
		var held []ast.Stmt
		f.closeLock, held = r6LeadingLock(pi, cl)
		if f.closeLock == "" {
			held = nil
		}
		// the pipe's Close must be among the statements executed while the lock is held
		for _, s := range held {
			ast.Inspect(s, func(m ast.Node) bool {
				if c, ok := m.(*ast.CallExpr); ok && isPipeClose(c) {
					f.closeHeld = "WriteCloser.Close"
				}
				return true
			})
		}
		n := 0
		ast.Inspect(cl.Body, func(m ast.Node) bool {
			if c, ok := m.(*ast.CallExpr); ok && isPipeClose(c) {
				n++
			}
			return true
		})
		if n != 1 {
			u.fail("(*conn).Close (%s): expected exactly one <receiver>.WriteCloser.Close(), found %d", f.src, n)
		}
	}
	if sp != nil && sp.Body != nil {
		ren := map[types.Object]string{}
		if r := r5RecvObj(pi, sp); r != nil {
			ren[r] = "c"
		}
		if len(sp.Type.Params.List) == 1 && len(sp.Type.Params.List[0].Names) == 1 {
			if o := pi.info.Defs[sp.Type.Params.List[0].Names[0]]; o != nil {
				ren[o] = "m"
			}
		}
		f.sendBody = r6Texts(pi, sp.Body.List, ren)
		var held []ast.Stmt
		f.sendLock, held = r6LeadingLock(pi, sp)
		if f.sendLock == "" {
			held = nil
		}
		for _, s := range held {
			ast.Inspect(s, func(m ast.Node) bool {
				if c, ok := m.(*ast.CallExpr); ok {
					if fn := r4Callee(pi, c); fn != nil && fn.Pkg() == pi.pkg && r4CalleeName(pi, fn) == "sendPacket" &&
						len(c.Args) == 2 && r5IsIdentOf(pi, c.Args[0], r5RecvObj(pi, sp)) {
						f.sendHeld = "sendPacket(c, m)"
					}
				}
				return true
			})
		}
	}
	// the writes of sendPacket
	if fd := pi.funcDecl("sendPacket"); fd == nil || fd.Body == nil {
		u.fail("sendPacket not found")
	} else {
		par := r4Parents(fd)
		ren := map[types.Object]string{}
		var w types.Object
		if len(fd.Type.Params.List) >= 1 && len(fd.Type.Params.List[0].Names) == 1 {
			w = pi.info.Defs[fd.Type.Params.List[0].Names[0]]
			if w != nil {
				ren[w] = "w"
			}
		}
		r6Inspect(fd.Body, func(m ast.Node) bool {
			c, ok := m.(*ast.CallExpr)
			if !ok {
				return true
			}
			sel, ok := ast.Unparen(c.Fun).(*ast.SelectorExpr)
			if ok && r5IsIdentOf(pi, sel.X, w) {
				f.writes = append(f.writes, [2]string{r6Guards(pi, par, fd.Body, c, ren), r4Text(pi, c, ren)})
			} else {
				// the writer handed to anything else is an unrecognised shape
				for _, a := range c.Args {
					if r5IsIdentOf(pi, a, w) {
						f.writes = append(f.writes, [2]string{r6Guards(pi, par, fd.Body, c, ren), "other:" + r4Text(pi, c, ren)})
						u.fail("sendPacket: the writer is passed on: %s (%s)", r4Text(pi, c, ren), pi.pos(c))
					}
				}
			}
			return true
		})
	}
	// every function that closes conn's pipe
	for _, fd := range r4Funcs(pi) {
		ast.Inspect(fd.Body, func(m ast.Node) bool {
			if c, ok := m.(*ast.CallExpr); ok && isPipeClose(c) {
				f.closers = append(f.closers, r4FuncName(fd))
			}
			return true
		})
	}
	f.closers = r6SortedUnique(f.closers)
	return
}

func extractConnCloseShape(x *extractor) {
	u := x.newUnit("ConnCloseShape")
	var f r6CcFacts
	r5Guard(u, func() { f = r6CcAnalyse(x.root, u) })
	u.pf("namespace Sftp.G\n\n")
	u.pf("-- source: %s ((*conn).Close, (*conn).sendPacket; receiver printed as `c`): the bodies, statement by statement\n", f.src)
	u.pf("def ccCloseBody : List String := %s\n", leanStrList(f.closeBody))
	u.pf("def ccSendBody : List String := %s\n", leanStrList(f.sendBody))
	u.pf("-- the mutex object (go/types field path: Owner.field) of the leading `X.Lock(); defer X.Unlock()` pair of each (\"\" = the\n-- body does not start with such a pair) and what is called after it, i.e. while it is held (\"\" = not the expected call)\n")
	u.pf("def ccCloseLock : String := %s\n", leanStr(f.closeLock))
	u.pf("def ccCloseHeldCall : String := %s\n", leanStr(f.closeHeld))
	u.pf("def ccSendLock : String := %s\n", leanStr(f.sendLock))
	u.pf("def ccSendHeldCall : String := %s\n", leanStr(f.sendHeld))
	u.pf("-- source: packet.go sendPacket: every method call on the writer, in source order (conditions it stands under, call)\n")
	u.pf("def ccSendWrites : List (String × String) := %s\n", r4Pairs(f.writes))
	u.pf("-- every function of the package that calls Close on the WriteCloser field of conn\n")
	u.pf("def ccPipeClosers : List String := %s\n", leanStrList(f.closers))
	u.pf("\nend Sftp.G\n")
}

// ---------------------------------------------------------------------------------------------------------------
// 7. FstatMethod
//
// Shapes recognised:
//	request.go requestMethod:   switch p.(type) { case T…: [method = "M"] … }; return method    → (T, M) rows, "" = left unset
//	request.go requestFromPacket: its Request literal has `Method: requestMethod(<packet parameter>)`
//	request-server.go packetWorker, per case of `switch pkt := pkt.requestPacket.(type)`: where the Method of the Request
//	that serves the packet (`<request>.call(…)`, `.open(…)`, `.opendir(…)`) comes from:
//	    literal (+ M)    a `&Request{Method: "M", …}` literal in the case
//	    requestMethod    a `&Request{Method: requestMethod(pkt), …}` literal, or `requestFromPacket(ctx, pkt, …)`
//	    handle           the request is the one `rs.getRequest(handle)` found (its method was set when the handle was opened)
//	    none             no Request serves the packet in this case
//	for every packet type of the package (named sshFx…, pointer implements requestPacket): the first case it matches.

type r6FmFacts struct {
	src, wsrc  string
	table      [][2]string
	hasDefault bool
	fromPacket string
	cases      [][3]string
	servedBy   [][4]string
}

// r6FmSplit: "literal:M" -> ("literal", "M"); anything else -> (origin, "").
func r6FmSplit(src string) (string, string) {
	if strings.HasPrefix(src, "literal:") {
		return "literal", strings.TrimPrefix(src, "literal:")
	}
	return src, ""
}

func r6Quads(rows [][4]string) string {
	parts := make([]string, len(rows))
	for i, r := range rows {
		parts[i] = "(" + leanStr(r[0]) + ", " + leanStr(r[1]) + ", " + leanStr(r[2]) + ", " + leanStr(r[3]) + ")"
	}
	return "[" + strings.Join(parts, ",\n   ") + "]"
}

func r6FmAnalyse(pi *pkgInfo, u *unit) (f r6FmFacts) {
	f.src, f.wsrc, f.fromPacket = "request.go", "request-server.go", "?"
	// requestMethod
	rm := pi.funcDecl("requestMethod")
	if rm == nil || rm.Body == nil {
		u.fail("requestMethod not found")
	} else {
		f.src = pi.pos(rm)
		var res types.Object
		if rm.Type.Results != nil && len(rm.Type.Results.List) == 1 && len(rm.Type.Results.List[0].Names) == 1 {
			res = pi.info.Defs[rm.Type.Results.List[0].Names[0]]
		}
		var ts *ast.TypeSwitchStmt
		okShape := res != nil && len(rm.Body.List) == 2
		if okShape {
			ts, _ = rm.Body.List[0].(*ast.TypeSwitchStmt)
			rs, ok := rm.Body.List[1].(*ast.ReturnStmt)
			okShape = ts != nil && ok && len(rs.Results) == 1 && r5IsIdentOf(pi, rs.Results[0], res)
		}
		if !okShape {
			u.fail("requestMethod (%s): body is not `switch p.(type) { … }; return <named result>`", f.src)
		} else {
			for _, c := range ts.Body.List {
				cc := c.(*ast.CaseClause)
				m := ""
				for _, s := range cc.Body {
					as, ok := s.(*ast.AssignStmt)
					if ok && as.Tok == token.ASSIGN && len(as.Lhs) == 1 && len(as.Rhs) == 1 && r5IsIdentOf(pi, as.Lhs[0], res) {
						if v, ok := pi.exprStr(as.Rhs[0]); ok {
							m = v
							continue
						}
					}
					u.fail("requestMethod: unrecognised statement %s (%s)", pi.nodeText(s), pi.pos(s))
					m = "?"
				}
				if cc.List == nil {
					f.hasDefault = true
					f.table = append(f.table, [2]string{"default", m})
					continue
				}
				for _, e := range cc.List {
					f.table = append(f.table, [2]string{strings.TrimPrefix(pi.nodeText(e), "*"), m})
				}
			}
			sort.SliceStable(f.table, func(i, j int) bool { return f.table[i][0] < f.table[j][0] })
		}
	}
	// a Request literal's Method
	methodOfLit := func(cl *ast.CompositeLit) string {
		for _, el := range cl.Elts {
			kv, ok := el.(*ast.KeyValueExpr)
			if !ok {
				return "?positional"
			}
			if k, ok := kv.Key.(*ast.Ident); ok && k.Name == "Method" {
				if v, ok := pi.exprStr(kv.Value); ok {
					return "literal:" + v
				}
				if c, ok := ast.Unparen(kv.Value).(*ast.CallExpr); ok && len(c.Args) == 1 {
					if fn := r4Callee(pi, c); fn != nil && fn.Pkg() == pi.pkg && fn.Name() == "requestMethod" {
						return "requestMethod"
					}
				}
				return "?" + pi.nodeText(kv.Value)
			}
		}
		return "unset"
	}
	isRequestLit := func(n ast.Node) (*ast.CompositeLit, bool) {
		cl, ok := n.(*ast.CompositeLit)
		if !ok {
			return nil, false
		}
		tv, ok := pi.info.Types[cl]
		if !ok {
			return nil, false
		}
		nn := r4NamedOf(tv.Type)
		return cl, nn != nil && nn.Obj().Pkg() == pi.pkg && nn.Obj().Name() == "Request"
	}
	// requestFromPacket
	if rfp := pi.funcDecl("requestFromPacket"); rfp == nil || rfp.Body == nil {
		u.fail("requestFromPacket not found")
	} else {
		var lits []string
		ast.Inspect(rfp.Body, func(m ast.Node) bool {
			if cl, ok := isRequestLit(m); ok {
				lits = append(lits, methodOfLit(cl))
			}
			return true
		})
		// and no later assignment to .Method
		ast.Inspect(rfp.Body, func(m ast.Node) bool {
			if as, ok := m.(*ast.AssignStmt); ok {
				for _, l := range as.Lhs {
					if _, ok := r6FieldOf(pi, l, "Request", "Method"); ok {
						lits = append(lits, "?assigned:"+pi.nodeText(as))
					}
				}
			}
			return true
		})
		if len(lits) == 1 {
			f.fromPacket = lits[0]
		} else {
			f.fromPacket = "?" + strings.Join(lits, ";")
		}
		if f.fromPacket != "requestMethod" {
			u.fail("requestFromPacket (%s): the Method of its Request is not requestMethod(<packet>): %s", pi.pos(rfp), f.fromPacket)
		}
	}
	// packetWorker
	pw := pi.funcDecl("RequestServer.packetWorker")
	if pw == nil || pw.Body == nil {
		u.fail("(*RequestServer).packetWorker not found")
		return
	}
	f.wsrc = pi.pos(pw)
	var sw *ast.TypeSwitchStmt
	n := 0
	ast.Inspect(pw.Body, func(m ast.Node) bool {
		ts, ok := m.(*ast.TypeSwitchStmt)
		if !ok {
			return true
		}
		as, ok := ts.Assign.(*ast.AssignStmt)
		if !ok || len(as.Rhs) != 1 {
			return true
		}
		if ta, ok := ast.Unparen(as.Rhs[0]).(*ast.TypeAssertExpr); ok && ta.Type == nil {
			if sel, ok := ast.Unparen(ta.X).(*ast.SelectorExpr); ok && sel.Sel.Name == "requestPacket" {
				sw = ts
				n++
			}
		}
		return true
	})
	if n != 1 {
		u.fail("packetWorker (%s): expected exactly one `switch pkt := X.requestPacket.(type)`, found %d", f.wsrc, n)
		return
	}
	f.wsrc = pi.pos(sw)
	type caseInfo struct {
		label string
		types []types.Type
		src   string
	}
	var infos []caseInfo
	for _, c := range sw.Body.List {
		cc := c.(*ast.CaseClause)
		ci := caseInfo{label: "default"}
		if cc.List != nil {
			parts := make([]string, len(cc.List))
			for i, e := range cc.List {
				parts[i] = strings.TrimPrefix(pi.nodeText(e), "*")
				if tv, ok := pi.info.Types[e]; ok {
					ci.types = append(ci.types, tv.Type)
				}
			}
			ci.label = strings.Join(parts, "|")
		}
		// the Request that serves the packet
		var srcs []string
		serves := false
		for _, s := range cc.Body {
			ast.Inspect(s, func(m ast.Node) bool {
				switch t := m.(type) {
				case *ast.CompositeLit:
					if cl, ok := isRequestLit(t); ok {
						srcs = append(srcs, methodOfLit(cl))
					}
				case *ast.CallExpr:
					fn := r4Callee(pi, t)
					if fn == nil || fn.Pkg() != pi.pkg {
						return true
					}
					switch r4CalleeName(pi, fn) {
					case "requestFromPacket":
						srcs = append(srcs, f.fromPacket)
					case "RequestServer.getRequest":
						srcs = append(srcs, "handle")
					case "Request.call", "Request.open", "Request.opendir":
						serves = true
					}
				case *ast.AssignStmt:
					for _, l := range t.Lhs {
						if _, ok := r6FieldOf(pi, l, "Request", "Method"); ok {
							srcs = append(srcs, "?assigned:"+pi.nodeText(t))
						}
					}
				}
				return true
			})
		}
		switch {
		case !serves && len(srcs) == 0:
			ci.src = "none"
		case !serves:
			ci.src = "?unserved:" + strings.Join(srcs, ";")
		case len(srcs) == 1:
			ci.src = srcs[0]
		case len(srcs) == 2 && srcs[0] == "handle" && srcs[1] != "handle":
			// `request, ok := rs.getRequest(handle)` only supplies the path; a fresh literal serves
			ci.src = srcs[1]
		default:
			ci.src = "?" + strings.Join(srcs, ";")
		}
		if strings.HasPrefix(ci.src, "?") {
			u.fail("packetWorker case %s (%s): unrecognised origin of the serving Request's method: %s", ci.label, pi.pos(cc), ci.src)
		}
		infos = append(infos, ci)
		o, m := r6FmSplit(ci.src)
		f.cases = append(f.cases, [3]string{ci.label, o, m})
	}
	// every packet type → the first case it matches
	iface, _ := pi.pkg.Scope().Lookup("requestPacket").(*types.TypeName)
	if iface == nil {
		u.fail("interface requestPacket not found")
		return
	}
	it, ok := iface.Type().Underlying().(*types.Interface)
	if !ok {
		u.fail("requestPacket is not an interface")
		return
	}
	names := pi.pkg.Scope().Names()
	sort.Strings(names)
	for _, nm := range names {
		tn, ok := pi.pkg.Scope().Lookup(nm).(*types.TypeName)
		if !ok || !strings.HasPrefix(nm, "sshFx") {
			continue
		}
		if _, isStruct := tn.Type().Underlying().(*types.Struct); !isStruct {
			continue
		}
		pt := types.NewPointer(tn.Type())
		if !types.Implements(pt, it) {
			continue
		}
		hit, src := "default", ""
		found := false
		for _, ci := range infos {
			if ci.types == nil {
				src = ci.src // default, used if nothing matches
				continue
			}
			for _, ct := range ci.types {
				if cit, isIface := ct.Underlying().(*types.Interface); isIface {
					if types.Implements(pt, cit) {
						found = true
					}
				} else if types.Identical(pt, ct) {
					found = true
				}
			}
			if found {
				hit, src = ci.label, ci.src
				break
			}
		}
		o, m := r6FmSplit(src)
		f.servedBy = append(f.servedBy, [4]string{nm, hit, o, m})
	}
	return
}

func extractFstatMethod(x *extractor) {
	u := x.newUnit("FstatMethod")
	var f r6FmFacts
	r5Guard(u, func() { f = r6FmAnalyse(x.root, u) })
	u.pf("namespace Sftp.G\n\n")
	u.pf("-- source: %s (requestMethod): packet type ↦ method, sorted by type (\"\" = left to open / opendir)\n", f.src)
	u.pf("def fmRequestMethod : List (String × String) :=\n  %s\n", r4Pairs(f.table))
	u.pf("def fmRequestMethodHasDefault : Bool := %s\n", leanBool(f.hasDefault))
	u.pf("-- source: request.go requestFromPacket: where the Method of its Request literal comes from\n")
	u.pf("def fmRequestFromPacketMethod : String := %s\n\n", leanStr(f.fromPacket))
	u.pf("-- source: %s (packetWorker): per case of the type switch, where the Method of the Request that serves the packet comes\n-- from (case, literal | requestMethod | handle | none, the literal method or \"\")\n", f.wsrc)
	u.pf("def fmWorkerCases : List (String × String × String) :=\n  %s\n", r4Triples(f.cases))
	u.pf("-- every request packet type of the package (sshFx…, pointer implements requestPacket), sorted: (type, the first case of\n-- that switch it matches, that case's method origin, the literal method or \"\")\n")
	u.pf("def fmServedBy : List (String × String × String × String) :=\n  %s\n", r6Quads(f.servedBy))
	u.pf("\nend Sftp.G\n")
}
