package main

// Units ClientWorkers / RecvErrPath / ReadChunkLoop: three source shapes of the client that no decoder table covers.
//
//  A. worker-count arithmetic (client.go readAt, WriteTo, writeAtConcurrent, ReadFrom, readFromWithConcurrency, …):
//     found from the SINKS backwards.  A sink is an argument of `make(chan T, n)`, `x.Add(n)`, the bound of
//     `for i := 0; i < n; i++`, or an argument passed to a parameter that itself reaches a sink.  The sink
//     argument must be a constant, `f.c.maxConcurrentRequests`, or a variable W with
//        W := A/B + 1                      or   V := A/B + 1 ; W := T(V)         or W a parameter
//        A = conversions around len(x) | local variable | x.Size     B = [T](f.c.maxPacket)
//        if V cmp R || … { V = [T](f.c.maxConcurrentRequests) }       (any number, between definition and use)
//     Every other use of V / W is a broken tie.
//  B. recvPacket (packet.go): the `if err != nil { … }` block after `n, err := io.ReadFull(r, b[:length]); b = b[:n]`.
//  C. (*File).readChunkAt (client.go): the refill loop.

import (
	"fmt"
	"go/ast"
	"go/token"
	"go/types"
	"regexp"
	"sort"
	"strings"
)

func init() { extractors = append(extractors, extractClientArith) }

// Three units, so that a broken tie is attributed to the part it belongs to:
// ClientWorkers (A), RecvErrPath (B), ReadChunkLoop (C).
func extractClientArith(x *extractor) {
	for _, part := range []struct {
		name string
		f    func(*extractor, *unit)
	}{{"ClientWorkers", caWorkers}, {"RecvErrPath", caRecvErr}, {"ReadChunkLoop", caReadChunk}} {
		u := x.newUnit(part.name)
		u.pf("import Sftp.Model.ClientArith\nnamespace Sftp.G\nopen Sftp.Arith\n\n")
		part.f(x, u)
		u.pf("\nend Sftp.G\n")
	}
}

// ---------------------------------------------------------------------------------------------------------------
// A. worker counts
// ---------------------------------------------------------------------------------------------------------------

type caSite struct {
	fn, src, srcTy, divTy, resultTy string
	convs, guards, pre, sinks, fwd  []string
	divides                         bool
	pos                             string
	at                              token.Pos
}

type caCtx struct {
	x      *extractor
	pi     *pkgInfo
	u      *unit
	byName map[token.Pos]*ast.FuncDecl // position of the declared name -> declaration
	funcs  []*ast.FuncDecl
	// per (function, variable): analysis result
	memo map[types.Object]*caVar
}

// caVar: what is known about one count variable (the variable that reaches the sinks) in one function.
type caVar struct {
	fd       *ast.FuncDecl
	obj      types.Object
	isParam  bool
	paramIdx int
	site     caSite
	clamped  bool // has at least one clamp
	ok       bool
	busy     bool
}

func caFnName(fd *ast.FuncDecl) string {
	if fd.Recv != nil && len(fd.Recv.List) == 1 {
		return recvName(fd.Recv.List[0].Type) + "." + fd.Name.Name
	}
	return fd.Name.Name
}

func caIntTy(t types.Type) (string, bool) {
	if t == nil {
		return "", false
	}
	b, ok := t.Underlying().(*types.Basic)
	if !ok {
		return "", false
	}
	switch b.Kind() {
	case types.Uint64:
		return ".u64", true
	case types.Int64:
		return ".i64", true
	case types.Int, types.UntypedInt:
		return ".int", true
	}
	return "", false
}

// caPeel removes parentheses; if e is a conversion T(x) it returns x and T's Lean name.
func (c *caCtx) caPeel(e ast.Expr) (inner ast.Expr, ty string, isConv bool, ok bool) {
	for {
		p, isP := e.(*ast.ParenExpr)
		if !isP {
			break
		}
		e = p.X
	}
	call, isCall := e.(*ast.CallExpr)
	if !isCall || len(call.Args) != 1 {
		return e, "", false, true
	}
	tv, has := c.pi.info.Types[call.Fun]
	if !has || !tv.IsType() {
		return e, "", false, true
	}
	ty, okT := caIntTy(tv.Type)
	if !okT {
		return e, "", true, false // a conversion to a type outside {uint64,int64,int}
	}
	return call.Args[0], ty, true, true
}

// caStrip removes all conversions; ok=false if one of them is to a type outside the three 64-bit integer types.
func (c *caCtx) caStrip(e ast.Expr) (ast.Expr, []string, bool) {
	var tys []string // outermost first
	for {
		in, ty, isConv, ok := c.caPeel(e)
		if !ok {
			return in, tys, false
		}
		if !isConv {
			return in, tys, true
		}
		tys = append(tys, ty)
		e = in
	}
}

func (c *caCtx) isMaxReq(e ast.Expr) bool {
	in, _, ok := c.caStrip(e)
	if !ok {
		return false
	}
	s, isSel := in.(*ast.SelectorExpr)
	return isSel && s.Sel.Name == "maxConcurrentRequests"
}

func (c *caCtx) isMaxPacket(e ast.Expr) bool {
	in, _, ok := c.caStrip(e)
	if !ok {
		return false
	}
	s, isSel := in.(*ast.SelectorExpr)
	return isSel && s.Sel.Name == "maxPacket"
}

func (c *caCtx) objOf(id *ast.Ident) types.Object {
	if o := c.pi.info.Uses[id]; o != nil {
		return o
	}
	return c.pi.info.Defs[id]
}

// caUse: one sink use found in a function body.
type caUse struct {
	kind string // text of the sink with the count written n
	arg  ast.Expr
	pos  token.Pos
	// for calls to in-package functions:
	callee    *ast.FuncDecl
	calleeIdx int
}

func (c *caCtx) paramObj(fd *ast.FuncDecl, idx int) types.Object {
	i := 0
	for _, f := range fd.Type.Params.List {
		for _, n := range f.Names {
			if i == idx {
				return c.pi.info.Defs[n]
			}
			i++
		}
	}
	return nil
}

func (c *caCtx) paramIndex(fd *ast.FuncDecl, obj types.Object) int {
	i := 0
	for _, f := range fd.Type.Params.List {
		for _, n := range f.Names {
			if c.pi.info.Defs[n] == obj {
				return i
			}
			i++
		}
	}
	return -1
}

func (c *caCtx) calleeOf(call *ast.CallExpr) *ast.FuncDecl {
	var id *ast.Ident
	switch f := call.Fun.(type) {
	case *ast.Ident:
		id = f
	case *ast.SelectorExpr:
		id = f.Sel
	default:
		return nil
	}
	if o := c.pi.info.Uses[id]; o != nil {
		if fd, ok := c.byName[o.Pos()]; ok {
			return fd
		}
		return nil
	}
	// no type information for this call (unresolved receiver): unique name match
	var found *ast.FuncDecl
	for _, fd := range c.funcs {
		if fd.Name.Name == id.Name {
			if found != nil {
				return nil
			}
			found = fd
		}
	}
	return found
}

// primitiveUses lists make(chan T, n), x.Add(n) and counted for loops in fd (closures included).
func (c *caCtx) primitiveUses(fd *ast.FuncDecl) []caUse {
	var out []caUse
	pi := c.pi
	ast.Inspect(fd.Body, func(n ast.Node) bool {
		switch t := n.(type) {
		case *ast.CallExpr:
			if id, ok := t.Fun.(*ast.Ident); ok && id.Name == "make" && len(t.Args) == 2 {
				if ch, ok := t.Args[0].(*ast.ChanType); ok {
					out = append(out, caUse{kind: "make(chan " + pi.nodeText(ch.Value) + ", n)", arg: t.Args[1], pos: t.Pos()})
				}
			}
			if s, ok := t.Fun.(*ast.SelectorExpr); ok && s.Sel.Name == "Add" && len(t.Args) == 1 {
				// WaitGroup.Add(int); Time.Add(Duration), atomic adders (int32/int64/uint64) are not counts
				if bt, isBasic := pi.info.Types[t.Args[0]].Type.(*types.Basic); isBasic && (bt.Kind() == types.Int || bt.Kind() == types.UntypedInt) {
					out = append(out, caUse{kind: pi.nodeText(s) + "(n)", arg: t.Args[0], pos: t.Pos()})
				}
			}
		case *ast.ForStmt:
			if be, ok := t.Cond.(*ast.BinaryExpr); ok && t.Init != nil && t.Post != nil {
				if iv, ok := be.X.(*ast.Ident); ok {
					init := pi.nodeText(t.Init)
					post := pi.nodeText(t.Post)
					if init == iv.Name+" := 0" && post == iv.Name+"++" {
						if _, isLen := stripParens(be.Y).(*ast.CallExpr); !isLen { // i < len(x): not a count
							if _, isSel := stripParens(be.Y).(*ast.SelectorExpr); !isSel {
								out = append(out, caUse{kind: "for i := 0; i " + be.Op.String() + " n; i++", arg: be.Y, pos: t.Pos()})
							}
						}
					}
				}
			}
		}
		return true
	})
	return out
}

func stripParens(e ast.Expr) ast.Expr {
	for {
		p, ok := e.(*ast.ParenExpr)
		if !ok {
			return e
		}
		e = p.X
	}
}

// rootIdent: the identifier behind conversions, with the conversion types (outermost first).
func (c *caCtx) rootIdent(e ast.Expr) (*ast.Ident, []string, bool) {
	in, tys, ok := c.caStrip(e)
	if !ok {
		return nil, nil, false
	}
	id, isId := in.(*ast.Ident)
	if !isId {
		return nil, nil, false
	}
	return id, tys, true
}

func caWorkers(x *extractor, u *unit) {
	pi := x.root
	c := &caCtx{x: x, pi: pi, u: u, byName: map[token.Pos]*ast.FuncDecl{}, memo: map[types.Object]*caVar{}}
	for _, f := range pi.files {
		for _, d := range f.Decls {
			if fd, ok := d.(*ast.FuncDecl); ok && fd.Body != nil {
				c.funcs = append(c.funcs, fd)
				c.byName[fd.Name.Pos()] = fd
			}
		}
	}

	// 1. count parameters: fixpoint over "parameter reaches a sink"
	//    sinkParams[fd][idx] = true when parameter idx of fd is used as a count.
	sinkParams := map[*ast.FuncDecl]map[int]bool{}
	usesOf := func(fd *ast.FuncDecl) []caUse {
		uses := c.primitiveUses(fd)
		ast.Inspect(fd.Body, func(n ast.Node) bool {
			call, ok := n.(*ast.CallExpr)
			if !ok {
				return true
			}
			callee := c.calleeOf(call)
			if callee == nil {
				return true
			}
			for idx := range sinkParams[callee] {
				if idx < len(call.Args) {
					uses = append(uses, caUse{kind: "call:" + caFnName(callee), arg: call.Args[idx], pos: call.Pos(), callee: callee, calleeIdx: idx})
				}
			}
			return true
		})
		// a counted loop is a sink only for a variable that is a count by one of the other sinks of this function
		counts := map[types.Object]bool{}
		for _, us := range uses {
			if !strings.HasPrefix(us.kind, "for ") {
				if id, _, ok := c.rootIdent(us.arg); ok && c.objOf(id) != nil {
					counts[c.objOf(id)] = true
				}
			}
		}
		kept := uses[:0]
		for _, us := range uses {
			if strings.HasPrefix(us.kind, "for ") {
				in, _, _ := c.caStrip(us.arg)
				ok := false
				ast.Inspect(in, func(n ast.Node) bool {
					if id, isId := n.(*ast.Ident); isId && counts[c.objOf(id)] {
						ok = true
					}
					return true
				})
				if !ok {
					continue
				}
			}
			kept = append(kept, us)
		}
		uses = kept
		sort.SliceStable(uses, func(i, j int) bool { return uses[i].pos < uses[j].pos })
		return uses
	}
	for changed := true; changed; {
		changed = false
		for _, fd := range c.funcs {
			for _, us := range usesOf(fd) {
				id, _, ok := c.rootIdent(us.arg)
				if !ok {
					continue
				}
				if idx := c.paramIndex(fd, c.objOf(id)); idx >= 0 {
					if sinkParams[fd] == nil {
						sinkParams[fd] = map[int]bool{}
					}
					if !sinkParams[fd][idx] {
						sinkParams[fd][idx] = true
						changed = true
					}
				}
			}
		}
	}

	// 2. analyse every count variable
	var analyse func(fd *ast.FuncDecl, obj types.Object) *caVar
	analyse = func(fd *ast.FuncDecl, obj types.Object) *caVar {
		if v, ok := c.memo[obj]; ok {
			return v
		}
		v := &caVar{fd: fd, obj: obj, busy: true}
		c.memo[obj] = v
		c.analyseVar(v, usesOf(fd), analyse)
		v.busy = false
		return v
	}
	var sites []caSite
	for _, fd := range c.funcs {
		seen := map[types.Object]bool{}
		for _, us := range usesOf(fd) {
			if _, isConst := pi.exprInt(us.arg); isConst {
				continue
			}
			if c.isMaxReq(us.arg) {
				continue
			}
			id, _, ok := c.rootIdent(us.arg)
			if !ok {
				u.fail("%s: count expression `%s` of %s is neither a constant, maxConcurrentRequests nor a variable (%s)",
					caFnName(fd), pi.nodeText(us.arg), us.kind, pi.pos(us.arg))
				continue
			}
			obj := c.objOf(id)
			if obj == nil || seen[obj] {
				continue
			}
			seen[obj] = true
			v := analyse(fd, obj)
			if v.isParam && !v.clamped && !ast.IsExported(fd.Name.Name) {
				continue // pass-through helper (newBufPool, newResChanPool): inlined into its callers' sinks
			}
			sites = append(sites, v.site)
		}
	}
	sort.SliceStable(sites, func(i, j int) bool { return sites[i].at < sites[j].at })

	u.pf("-- source: client.go / pool.go, every make(chan T, n) / x.Add(n) / `for i := 0; i < n; i++` whose n is not a constant\n")
	u.pf("def workerSites : List WorkerSite := [")
	for i, s := range sites {
		if i > 0 {
			u.pf(",")
		}
		u.pf("\n  -- source: %s\n", s.pos)
		u.pf("  { fn := %s, src := %s, srcTy := %s, convs := [%s], divides := %s, divTy := %s,\n", leanStr(s.fn), leanStr(s.src), s.srcTy,
			strings.Join(s.convs, ", "), leanBool(s.divides), s.divTy)
		u.pf("    guards := [%s], resultTy := %s,\n", strings.Join(s.guards, ", "), s.resultTy)
		u.pf("    pre := %s,\n    sinks := %s,\n    forwards := %s }", leanStrList(s.pre), leanStrList(s.sinks), leanStrList(s.fwd))
	}
	u.pf("]\n\n")
}

// analyseVar fills v.site for the count variable v.obj of v.fd.
func (c *caCtx) analyseVar(v *caVar, uses []caUse, analyse func(*ast.FuncDecl, types.Object) *caVar) {
	pi, u, fd := c.pi, c.u, v.fd
	fn := caFnName(fd)
	s := &v.site
	s.fn = fn
	s.srcTy, s.divTy, s.resultTy = ".int", ".int", ".int" // neutral values so that the table stays well-typed
	s.at = fd.Pos()
	s.pos = pi.pos(fd)
	W := v.obj
	if t, ok := caIntTy(W.Type()); ok {
		s.resultTy = t
	} else {
		u.fail("%s: count variable %s has type %s (%s)", fn, W.Name(), W.Type(), pi.pos(fd))
	}

	consumed := map[*ast.Ident]bool{}
	var V types.Object = W // the clamped variable (W itself, or the variable W is converted from)
	var defStmt ast.Stmt   // definition of V
	var convStmt ast.Stmt  // W := T(V), if any

	findDef := func(obj types.Object) (*ast.AssignStmt, *ast.Ident) {
		var as *ast.AssignStmt
		var lhs *ast.Ident
		ast.Inspect(fd.Body, func(n ast.Node) bool {
			a, ok := n.(*ast.AssignStmt)
			if ok && a.Tok == token.DEFINE {
				for _, l := range a.Lhs {
					if id, ok := l.(*ast.Ident); ok && pi.info.Defs[id] == obj {
						as, lhs = a, id
					}
				}
			}
			return true
		})
		return as, lhs
	}

	if idx := c.paramIndex(fd, W); idx >= 0 {
		v.isParam, v.paramIdx = true, idx
		s.src = "param"
		s.srcTy, s.divTy = s.resultTy, s.resultTy
	} else {
		as, lhs := findDef(W)
		if as == nil || len(as.Lhs) != 1 || len(as.Rhs) != 1 {
			u.fail("%s: count variable %s is not defined by a single `:=` (%s)", fn, W.Name(), pi.pos(fd))
			return
		}
		consumed[lhs] = true
		s.at, s.pos = as.Pos(), pi.pos(as)
		rhs := as.Rhs[0]
		if in, ty, isConv, ok := c.caPeel(rhs); isConv {
			// W := T(V)
			if !ok {
				u.fail("%s: %s is converted to a type outside uint64/int64/int (%s)", fn, W.Name(), pi.pos(as))
				return
			}
			vid, isId := stripParens(in).(*ast.Ident)
			if !isId {
				u.fail("%s: `%s`: conversion of something other than a variable (%s)", fn, pi.nodeText(as), pi.pos(as))
				return
			}
			s.resultTy = ty
			convStmt = as
			consumed[vid] = true
			V = c.objOf(vid)
			vas, vlhs := findDef(V)
			if vas == nil || len(vas.Lhs) != 1 || len(vas.Rhs) != 1 {
				if c.paramIndex(fd, V) >= 0 {
					u.fail("%s: count %s is a converted parameter: shape not recognised (%s)", fn, W.Name(), pi.pos(as))
				} else {
					u.fail("%s: variable %s is not defined by a single `:=` (%s)", fn, V.Name(), pi.pos(as))
				}
				return
			}
			consumed[vlhs] = true
			defStmt = vas
			rhs = vas.Rhs[0]
			s.at, s.pos = vas.Pos(), pi.pos(vas)
		} else {
			defStmt = as
		}
		// rhs = A/B + 1
		add, ok := stripParens(rhs).(*ast.BinaryExpr)
		one, isOne := int64(0), false
		if ok {
			one, isOne = pi.exprInt(add.Y)
		}
		var quo *ast.BinaryExpr
		if ok && add.Op == token.ADD && isOne && one == 1 {
			quo, _ = stripParens(add.X).(*ast.BinaryExpr)
		}
		if quo == nil || quo.Op != token.QUO {
			u.fail("%s: `%s` is not of the form size/maxPacket + 1 (%s)", fn, pi.nodeText(defStmt), pi.pos(defStmt))
			return
		}
		if !c.isMaxPacket(quo.Y) {
			u.fail("%s: divisor `%s` is not [T](….maxPacket) (%s)", fn, pi.nodeText(quo.Y), pi.pos(quo))
			return
		}
		s.divides = true
		if t, ok := caIntTy(pi.info.Types[quo].Type); ok {
			s.divTy = t
		} else {
			u.fail("%s: type of the division `%s` is not uint64/int64/int (%s)", fn, pi.nodeText(quo), pi.pos(quo))
			return
		}
		base, tys, okc := c.caStrip(quo.X)
		if !okc {
			u.fail("%s: `%s` converts the size to a type outside uint64/int64/int (%s)", fn, pi.nodeText(quo.X), pi.pos(quo))
			return
		}
		for i := len(tys) - 1; i >= 0; i-- { // innermost first
			s.convs = append(s.convs, tys[i])
		}
		sizeText := pi.nodeText(base)
		switch b := base.(type) {
		case *ast.CallExpr:
			if id, ok := b.Fun.(*ast.Ident); ok && id.Name == "len" && len(b.Args) == 1 {
				s.src, s.srcTy = "len", ".int"
			} else {
				u.fail("%s: size expression `%s` not recognised (%s)", fn, sizeText, pi.pos(b))
				return
			}
		case *ast.Ident, *ast.SelectorExpr:
			t, okT := caIntTy(pi.info.Types[base].Type)
			if !okT {
				u.fail("%s: size `%s` has a type outside uint64/int64/int (%s)", fn, sizeText, pi.pos(b))
				return
			}
			s.srcTy = t
			s.src = "local"
			origin := base
			if id, ok := b.(*ast.Ident); ok {
				if c.paramIndex(fd, c.objOf(id)) >= 0 {
					s.src = "param-size"
				} else if das, _ := findDef(c.objOf(id)); das != nil && len(das.Lhs) == 1 && len(das.Rhs) == 1 {
					origin = das.Rhs[0]
				}
			}
			if sel, ok := stripParens(origin).(*ast.SelectorExpr); ok && sel.Sel.Name == "Size" {
				if tv, ok := pi.info.Types[sel.X]; ok && strings.HasSuffix(tv.Type.String(), "FileStat") {
					s.src = "wire" // FileStat.Size: decoded from an ATTRS reply
				}
			}
		default:
			u.fail("%s: size expression `%s` not recognised (%s)", fn, sizeText, pi.pos(base))
			return
		}
		s.pre = c.preconditions(fd, defStmt, sizeText)
	}

	// clamps: if V cmp R || … { V = max }
	cmpName := map[token.Token]string{token.LSS: ".lt", token.LEQ: ".le", token.GTR: ".gt", token.GEQ: ".ge"}
	var firstUse token.Pos = token.NoPos
	if convStmt != nil {
		firstUse = convStmt.Pos()
	}
	for _, us := range uses {
		if id, _, ok := c.rootIdent(us.arg); ok && c.objOf(id) == W {
			if firstUse == token.NoPos || us.pos < firstUse {
				firstUse = us.pos
			}
		}
	}
	var defBlock []ast.Stmt // the statement list that contains the definition (function body for a parameter)
	if defStmt == nil {
		defBlock = fd.Body.List
	} else {
		defBlock = caBlockOf(fd.Body, defStmt)
	}
	inDefBlock := func(st ast.Stmt) bool {
		for _, b := range defBlock {
			if b == st {
				return true
			}
		}
		return false
	}
	ast.Inspect(fd.Body, func(n ast.Node) bool {
		switch t := n.(type) {
		case *ast.IncDecStmt:
			if id, ok := t.X.(*ast.Ident); ok && (c.objOf(id) == V || c.objOf(id) == W) {
				u.fail("%s: `%s` modifies the worker count (%s)", fn, pi.nodeText(t), pi.pos(t))
				consumed[id] = true
			}
		case *ast.AssignStmt:
			if t.Tok == token.DEFINE {
				return true
			}
			for _, l := range t.Lhs {
				if id, ok := l.(*ast.Ident); ok && (c.objOf(id) == V || c.objOf(id) == W) {
					if !consumed[id] {
						u.fail("%s: assignment `%s` to the worker count outside a recognised clamp (%s)", fn, pi.nodeText(t), pi.pos(t))
						consumed[id] = true
					}
				}
			}
		case *ast.IfStmt:
			if len(t.Body.List) != 1 {
				return true
			}
			as, ok := t.Body.List[0].(*ast.AssignStmt)
			if !ok || as.Tok != token.ASSIGN || len(as.Lhs) != 1 || len(as.Rhs) != 1 {
				return true
			}
			lid, ok := as.Lhs[0].(*ast.Ident)
			if !ok || c.objOf(lid) != V {
				return true
			}
			// this is a clamp candidate for V
			consumed[lid] = true
			bad := func(why string) {
				u.fail("%s: clamp `%s` not recognised: %s (%s)", fn, pi.nodeText(t), why, pi.pos(t))
			}
			if t.Init != nil || t.Else != nil {
				bad("init or else")
				return true
			}
			if !c.isMaxReq(as.Rhs[0]) {
				bad("the value assigned is not [T](….maxConcurrentRequests)")
				return true
			}
			if !inDefBlock(t) {
				bad("not in the same block as the definition")
				return true
			}
			if defStmt != nil && t.Pos() < defStmt.Pos() {
				bad("before the definition")
				return true
			}
			if firstUse != token.NoPos && t.Pos() > firstUse {
				bad("after the first use of the count")
				return true
			}
			var disj []ast.Expr
			var flat func(e ast.Expr)
			flat = func(e ast.Expr) {
				e = stripParens(e)
				if be, ok := e.(*ast.BinaryExpr); ok && be.Op == token.LOR {
					flat(be.X)
					flat(be.Y)
					return
				}
				disj = append(disj, e)
			}
			flat(t.Cond)
			var gs []string
			for _, d := range disj {
				be, ok := d.(*ast.BinaryExpr)
				if !ok {
					bad("disjunct `" + pi.nodeText(d) + "`")
					return true
				}
				cid, isId := be.X.(*ast.Ident)
				cn, isCmp := cmpName[be.Op]
				if !isId || c.objOf(cid) != V || !isCmp {
					bad("disjunct `" + pi.nodeText(d) + "`")
					return true
				}
				consumed[cid] = true
				if c.isMaxReq(be.Y) {
					gs = append(gs, "⟨"+cn+", .max⟩")
				} else if k, ok := pi.exprInt(be.Y); ok {
					gs = append(gs, fmt.Sprintf("⟨%s, .lit %s⟩", cn, leanInt(k)))
				} else {
					bad("right-hand side `" + pi.nodeText(be.Y) + "`")
					return true
				}
			}
			s.guards = append(s.guards, gs...)
			v.clamped = true
		}
		return true
	})

	// sinks
	for _, us := range uses {
		id, tys, ok := c.rootIdent(us.arg)
		if !ok || c.objOf(id) != W {
			if ok && V != W && c.objOf(id) == V {
				// the unconverted variable used as a count
				if us.callee == nil || len(tys) == 0 {
					u.fail("%s: %s uses %s before its conversion (%s)", fn, us.kind, V.Name(), pi.pos(us.arg))
					consumed[id] = true
					continue
				}
			} else {
				continue
			}
		}
		consumed[id] = true
		if len(tys) > 0 {
			// a conversion at the use: only the parameter-forwarding form int(V) is accepted, and it is the result type
			if c.objOf(id) == V && V != W {
				// handled above
			} else if convStmt == nil && len(tys) == 1 && len(s.sinks)+len(s.fwd) == 0 {
				s.resultTy = tys[0]
			} else if !(len(tys) == 1 && tys[0] == s.resultTy) {
				u.fail("%s: %s converts the count again (%s)", fn, us.kind, pi.pos(us.arg))
			}
		}
		if us.callee != nil {
			pobj := c.paramObj(us.callee, us.calleeIdx)
			if pobj == nil {
				u.fail("%s: parameter %d of %s not found", fn, us.calleeIdx, caFnName(us.callee))
				continue
			}
			if cv, busy := c.memo[pobj]; busy && cv.busy {
				u.fail("%s: recursive count forwarding through %s", fn, caFnName(us.callee))
				continue
			}
			cv := analyse(us.callee, pobj)
			if cv.isParam && !cv.clamped && !ast.IsExported(us.callee.Name.Name) {
				for _, k := range cv.site.sinks {
					s.sinks = append(s.sinks, caFnName(us.callee)+":"+k)
				}
				for _, k := range cv.site.fwd {
					u.fail("%s: helper %s forwards the count to %s: not modelled", fn, caFnName(us.callee), k)
				}
				if len(cv.site.sinks) == 0 {
					u.fail("%s: helper %s has no recognised sink", fn, caFnName(us.callee))
				}
				continue
			}
		}
		if us.callee != nil {
			s.fwd = append(s.fwd, caFnName(us.callee))
		} else {
			s.sinks = append(s.sinks, us.kind)
		}
	}

	// every other mention of V / W is a broken tie
	ast.Inspect(fd.Body, func(n ast.Node) bool {
		id, ok := n.(*ast.Ident)
		if !ok || consumed[id] {
			return true
		}
		if o := c.objOf(id); o != nil && (o == V || o == W) {
			u.fail("%s: use of the worker count `%s` outside definition, clamp and sinks (%s)", fn, id.Name, pi.pos(id))
		}
		return true
	})
	v.ok = true
}

func leanInt(k int64) string {
	if k < 0 {
		return fmt.Sprintf("(%d)", k)
	}
	return fmt.Sprintf("%d", k)
}

// caPath returns the chain of nodes from root down to target (inclusive), or nil.
func caPath(root ast.Node, target ast.Node) []ast.Node {
	var stack, found []ast.Node
	ast.Inspect(root, func(n ast.Node) bool {
		if found != nil {
			return false
		}
		if n == nil {
			stack = stack[:len(stack)-1]
			return true
		}
		stack = append(stack, n)
		if n == target {
			found = append([]ast.Node(nil), stack...)
			return false
		}
		return true
	})
	return found
}

func caStmtList(n ast.Node) []ast.Stmt {
	switch t := n.(type) {
	case *ast.BlockStmt:
		return t.List
	case *ast.CaseClause:
		return t.Body
	case *ast.CommClause:
		return t.Body
	}
	return nil
}

// caBlockOf: the statement list that directly contains st.
func caBlockOf(root *ast.BlockStmt, st ast.Stmt) []ast.Stmt {
	p := caPath(root, st)
	if len(p) < 2 {
		return nil
	}
	return caStmtList(p[len(p)-2])
}

// preconditions: conditions on the size expression that hold at def: enclosing `if` conditions and negated
// conditions of earlier sibling `if … { …; return }` statements that mention the size.
func (c *caCtx) preconditions(fd *ast.FuncDecl, def ast.Stmt, sizeText string) []string {
	pi := c.pi
	re := regexp.MustCompile(`(^|[^A-Za-z0-9_.])` + regexp.QuoteMeta(sizeText) + `($|[^A-Za-z0-9_])`)
	reMP := regexp.MustCompile(`[A-Za-z0-9_.]*\.maxPacket\b`)
	canon := func(s string) string {
		for re.MatchString(s) {
			s = re.ReplaceAllString(s, "${1}size${2}")
		}
		return reMP.ReplaceAllString(s, "mp")
	}
	var out []string
	p := caPath(fd.Body, def)
	for i := 0; i+1 < len(p); i++ {
		child := p[i+1]
		if is, ok := p[i].(*ast.IfStmt); ok {
			ct := pi.nodeText(is.Cond)
			if re.MatchString(ct) {
				if child == ast.Node(is.Body) {
					out = append(out, canon(ct))
				} else if is.Else != nil && child == ast.Node(is.Else) {
					out = append(out, "!("+canon(ct)+")")
				}
			}
		}
		for _, st := range caStmtList(p[i]) {
			if ast.Node(st) == child {
				break
			}
			is, ok := st.(*ast.IfStmt)
			if !ok || is.Else != nil || len(is.Body.List) == 0 {
				continue
			}
			if _, isRet := is.Body.List[len(is.Body.List)-1].(*ast.ReturnStmt); !isRet {
				continue
			}
			if ct := pi.nodeText(is.Cond); re.MatchString(ct) {
				out = append(out, "!("+canon(ct)+")")
			}
		}
	}
	return out
}

// ---------------------------------------------------------------------------------------------------------------
// B. recvPacket's error path
// ---------------------------------------------------------------------------------------------------------------

func caRecvErr(x *extractor, u *unit) {
	pi := x.root
	var stmts []string // EStmt terms
	var texts []string
	guarded := false
	pos := "packet.go"
	emit := func() {
		u.pf("-- source: %s recvPacket, the `if err != nil` block after `n, err := io.ReadFull(r, b[:length]); b = b[:n]`\n", pos)
		u.pf("def recvErrPathStmts : List String := %s\n", leanStrList(texts))
		u.pf("def recvErrPath : List EStmt := [%s]\n", strings.Join(stmts, ", "))
		u.pf("def recvErrPathIndexGuarded : Bool := %s\n\n", leanBool(guarded))
	}
	fd := pi.funcDecl("recvPacket")
	if fd == nil {
		u.fail("recvPacket not found")
		emit()
		return
	}
	pos = pi.pos(fd)
	body := fd.Body.List
	iRead := -1
	for i, s := range body {
		if pi.nodeText(s) == "n, err := io.ReadFull(r, b[:length])" {
			iRead = i
		}
	}
	if iRead < 0 || iRead+2 >= len(body) {
		u.fail("recvPacket: `n, err := io.ReadFull(r, b[:length])` not found at the top level (%s)", pos)
		emit()
		return
	}
	if pi.nodeText(body[iRead+1]) != "b = b[:n]" {
		u.fail("recvPacket: the body read is not followed by `b = b[:n]` (%s): the index analysis assumes len(b) == n", pi.pos(body[iRead+1]))
		emit()
		return
	}
	blk, ok := body[iRead+2].(*ast.IfStmt)
	if !ok || blk.Init != nil || blk.Else != nil || pi.nodeText(blk.Cond) != "err != nil" {
		u.fail("recvPacket: `if err != nil { … }` does not follow `b = b[:n]` (%s)", pi.pos(body[iRead+2]))
		emit()
		return
	}
	pos = pi.pos(blk)

	const unknownIdx = 4294967295
	// indexes of b evaluated anywhere inside n
	idxOf := func(n ast.Node) []int64 {
		var out []int64
		ast.Inspect(n, func(m ast.Node) bool {
			switch t := m.(type) {
			case *ast.IndexExpr:
				if isIdent(t.X, "b") {
					if k, ok := pi.exprInt(t.Index); ok && k >= 0 {
						out = append(out, k)
					} else {
						u.fail("recvPacket: non-constant index `%s` in the error path (%s)", pi.nodeText(t), pi.pos(t))
						out = append(out, unknownIdx)
					}
				}
			case *ast.SliceExpr:
				if isIdent(t.X, "b") {
					for _, bound := range []ast.Expr{t.Low, t.High, t.Max} {
						if bound == nil || isIdent(bound, "n") {
							continue
						}
						if k, ok := pi.exprInt(bound); ok && k >= 0 {
							if k > 0 {
								out = append(out, k-1) // b[k:] / b[:k] need len(b) ≥ k
							}
						} else {
							u.fail("recvPacket: slice bound `%s` in the error path not recognised (%s)", pi.nodeText(bound), pi.pos(t))
							out = append(out, unknownIdx)
						}
					}
				}
			case *ast.AssignStmt:
				for _, l := range t.Lhs {
					if isIdent(l, "b") || isIdent(l, "n") {
						u.fail("recvPacket: `%s` reassigns b or n inside the error path (%s)", pi.nodeText(t), pi.pos(t))
						out = append(out, unknownIdx)
					}
				}
			case *ast.IncDecStmt:
				if isIdent(t.X, "n") {
					u.fail("recvPacket: `%s` modifies n inside the error path (%s)", pi.nodeText(t), pi.pos(t))
					out = append(out, unknownIdx)
				}
			}
			return true
		})
		return out
	}
	natList := func(xs []int64) string {
		ss := make([]string, len(xs))
		for i, k := range xs {
			ss[i] = fmt.Sprintf("%d", k)
		}
		return "[" + strings.Join(ss, ", ") + "]"
	}
	// shortGuard: cond is `n == 0`, `n < K`, `n <= K`, `len(b) == 0`, `len(b) < K`, `len(b) <= K` → bound k (n < k)
	shortGuard := func(e ast.Expr) (int64, bool) {
		be, ok := stripParens(e).(*ast.BinaryExpr)
		if !ok {
			return 0, false
		}
		lt := pi.nodeText(be.X)
		if lt != "n" && lt != "len(b)" {
			return 0, false
		}
		k, ok := pi.exprInt(be.Y)
		if !ok || k < 0 {
			return 0, false
		}
		switch be.Op {
		case token.EQL:
			if k == 0 {
				return 1, true
			}
		case token.LSS:
			return k, true
		case token.LEQ:
			return k + 1, true
		}
		return 0, false
	}
	type est struct {
		kind string
		k    int64
		idx  []int64
	}
	var list []est
	for _, s := range blk.Body.List {
		txt := pi.nodeText(s)
		// error texts are not part of the shape
		texts = append(texts, txt)
		switch t := s.(type) {
		case *ast.ReturnStmt:
			list = append(list, est{"ret", 0, idxOf(t)})
		case *ast.IfStmt:
			if k, ok := shortGuard(t.Cond); ok && t.Init == nil && t.Else == nil && len(t.Body.List) > 0 {
				if _, isRet := t.Body.List[len(t.Body.List)-1].(*ast.ReturnStmt); isRet {
					list = append(list, est{"short", k, idxOf(t.Body)})
					continue
				}
			}
			list = append(list, est{"other", 0, idxOf(t)})
		default:
			list = append(list, est{"other", 0, idxOf(s)})
		}
	}
	// the same static check as Sftp.Arith.guardedFrom
	lo := int64(0)
	guarded = true
	ends := false
	for i, e := range list {
		switch e.kind {
		case "other":
			for _, k := range e.idx {
				if k >= lo {
					guarded = false
				}
			}
			stmts = append(stmts, fmt.Sprintf(".other %s", natList(e.idx)))
		case "short":
			if len(e.idx) > 0 {
				guarded = false
			}
			if e.k > lo {
				lo = e.k
			}
			stmts = append(stmts, fmt.Sprintf(".retIfShort %d %s", e.k, natList(e.idx)))
		case "ret":
			for _, k := range e.idx {
				if k >= lo {
					guarded = false
				}
			}
			stmts = append(stmts, fmt.Sprintf(".ret %s", natList(e.idx)))
			if i == len(list)-1 {
				ends = true
			} else {
				u.fail("recvPacket: statements after an unconditional return in the error path (%s)", pos)
			}
		}
	}
	if !ends {
		u.fail("recvPacket: the error path does not end in a return (%s)", pos)
		guarded = false
	}
	emit()
}

// ---------------------------------------------------------------------------------------------------------------
// C. readChunkAt's refill loop
// ---------------------------------------------------------------------------------------------------------------

func caReadChunk(x *extractor, u *unit) {
	pi := x.root
	var shape []string
	offsetAddsN, lenSubN, accumulates := false, false, false
	offAssign := ".none"
	exact := false
	pos := "client.go"
	emit := func() {
		u.pf("-- source: %s (*File).readChunkAt, the refill loop (parameters renamed to b, off; result n; reply locals data, l)\n", pos)
		u.pf("def readChunkLoopShape : List String := %s\n", leanStrList(shape))
		u.pf("def readChunkCfg : RefillCfg := { offsetAddsN := %s, lenSubN := %s, accumulates := %s, offAssign := %s }\n",
			leanBool(offsetAddsN), leanBool(lenSubN), leanBool(accumulates), offAssign)
		u.pf("def readChunkLoopExact : Bool := %s\n", leanBool(exact))
	}
	fd := pi.funcDecl("File.readChunkAt")
	if fd == nil {
		u.fail("File.readChunkAt not found")
		emit()
		return
	}
	pos = pi.pos(fd)
	// signature: (ch chan result, b []byte, off int64) (n int, err error)
	var params, results []string
	for _, f := range fd.Type.Params.List {
		for _, n := range f.Names {
			params = append(params, n.Name)
		}
	}
	if fd.Type.Results != nil {
		for _, f := range fd.Type.Results.List {
			for _, n := range f.Names {
				results = append(results, n.Name)
			}
		}
	}
	if len(params) != 3 || len(results) != 2 {
		u.fail("File.readChunkAt: signature is not (ch, b, off) (n, err) with named results (%s)", pos)
		emit()
		return
	}
	ren := map[string]string{params[1]: "b", params[2]: "off", results[0]: "n", results[1]: "err"}
	nB, nOff, nN := params[1], params[2], results[0]
	canon := func(n ast.Node) string {
		s := pi.nodeText(n)
		return caRename(s, ren)
	}
	if len(fd.Body.List) != 2 {
		u.fail("File.readChunkAt: body is not `for … { … }; return` (%s)", pos)
		emit()
		return
	}
	loop, ok := fd.Body.List[0].(*ast.ForStmt)
	if !ok || loop.Init != nil || loop.Post != nil || loop.Cond == nil {
		u.fail("File.readChunkAt: first statement is not a `for cond { … }` loop (%s)", pos)
		emit()
		return
	}
	if r, ok := fd.Body.List[1].(*ast.ReturnStmt); !ok || !(len(r.Results) == 0 || (len(r.Results) == 2 && canon(r.Results[0]) == "n")) {
		u.fail("File.readChunkAt: the statement after the loop is not `return` / `return n, …` (%s)", pi.pos(fd.Body.List[1]))
		emit()
		return
	}
	bad := false
	cond := canon(loop.Cond)
	shape = append(shape, "for "+cond)
	condOK := cond == "err == nil && n < len(b)" || cond == "n < len(b) && err == nil" || cond == "n < len(b)"
	if !condOK {
		u.fail("File.readChunkAt: loop condition `%s` not recognised (%s)", cond, pi.pos(loop))
		bad = true
	}

	// the request
	var req *ast.CompositeLit
	nReq := 0
	ast.Inspect(loop.Body, func(n ast.Node) bool {
		if cl, ok := n.(*ast.CompositeLit); ok && typeName(cl.Type) == "sshFxpReadPacket" {
			req = cl
			nReq++
		}
		return true
	})
	if nReq != 1 {
		u.fail("File.readChunkAt: expected exactly one sshFxpReadPacket literal in the loop, found %d (%s)", nReq, pi.pos(loop))
		emit()
		return
	}
	offKind, lenKind := "?", "?"
	for _, el := range req.Elts {
		kv, ok := el.(*ast.KeyValueExpr)
		if !ok {
			u.fail("File.readChunkAt: positional field in the READ literal (%s)", pi.pos(el))
			bad = true
			continue
		}
		switch exprString(kv.Key) {
		case "Offset":
			shape = append(shape, "Offset: "+canon(kv.Value))
			offKind = caSumKind(pi, kv.Value, nOff, nN)
		case "Len":
			shape = append(shape, "Len: "+canon(kv.Value))
			t := canon(kv.Value)
			switch t {
			case "uint32(len(b) - n)", "uint32(len(b[n:]))":
				lenKind = "len-n"
			case "uint32(len(b))":
				lenKind = "len"
			}
		}
	}
	switch offKind {
	case "off+n":
		offsetAddsN = true
	case "off":
	default:
		u.fail("File.readChunkAt: request Offset not recognised as off+n or off (%s)", pi.pos(req))
		bad = true
	}
	switch lenKind {
	case "len-n":
		lenSubN = true
	case "len":
	default:
		u.fail("File.readChunkAt: request Len not recognised as uint32(len(b) - n) or uint32(len(b)) (%s)", pi.pos(req))
		bad = true
	}

	// assignments to b, off, n inside the loop; the copy
	nAccum := 0
	dataName, lName := "", ""
	ast.Inspect(loop.Body, func(n ast.Node) bool {
		switch t := n.(type) {
		case *ast.IncDecStmt:
			if id, ok := t.X.(*ast.Ident); ok && (id.Name == nB || id.Name == nOff || id.Name == nN) {
				shape = append(shape, canon(t))
				u.fail("File.readChunkAt: `%s` in the refill loop not recognised (%s)", canon(t), pi.pos(t))
				bad = true
			}
		case *ast.AssignStmt:
			for _, l := range t.Lhs {
				id, ok := l.(*ast.Ident)
				if !ok {
					// b[i] = …
					if ix, ok := l.(*ast.IndexExpr); ok && isIdent(ix.X, nB) {
						shape = append(shape, canon(t))
						u.fail("File.readChunkAt: `%s` writes into the buffer outside copy (%s)", canon(t), pi.pos(t))
						bad = true
					}
					continue
				}
				switch id.Name {
				case nN:
					if t.Tok == token.DEFINE || len(t.Lhs) != 1 || len(t.Rhs) != 1 {
						shape = append(shape, canon(t))
						u.fail("File.readChunkAt: `%s` (re)defines n (%s)", canon(t), pi.pos(t))
						bad = true
						continue
					}
					// n += copy(b[n:], X[:Y])   |   n = n + copy(…)   |   n = copy(…)
					rhs := t.Rhs[0]
					plus := t.Tok == token.ADD_ASSIGN
					if t.Tok == token.ASSIGN {
						if be, ok := stripParens(rhs).(*ast.BinaryExpr); ok && be.Op == token.ADD && isIdent(be.X, nN) {
							plus, rhs = true, be.Y
						}
					} else if t.Tok != token.ADD_ASSIGN {
						shape = append(shape, canon(t))
						u.fail("File.readChunkAt: `%s` not recognised (%s)", canon(t), pi.pos(t))
						bad = true
						continue
					}
					call, ok := stripParens(rhs).(*ast.CallExpr)
					okCopy := ok && isIdent(call.Fun, "copy") && len(call.Args) == 2
					if okCopy {
						src, isSl := call.Args[1].(*ast.SliceExpr)
						okCopy = isSl && src.Low == nil && src.Max == nil
						if okCopy {
							d, ok1 := src.X.(*ast.Ident)
							h, ok2 := src.High.(*ast.Ident)
							okCopy = ok1 && ok2
							if okCopy {
								dataName, lName = d.Name, h.Name
							}
						}
					}
					if !okCopy {
						shape = append(shape, canon(t))
						u.fail("File.readChunkAt: `%s` is not n (+)= copy(b[n:], data[:l]) (%s)", canon(t), pi.pos(t))
						bad = true
						continue
					}
					ren2 := map[string]string{dataName: "data", lName: "l"}
					for k, v := range ren {
						ren2[k] = v
					}
					dst := caRename(pi.nodeText(call.Args[0]), ren2)
					txt := "n = copy(" + dst + ", data[:l])"
					if plus {
						txt = "n += copy(" + dst + ", data[:l])"
					}
					shape = append(shape, txt)
					if dst != "b[n:]" {
						u.fail("File.readChunkAt: copy destination `%s` is not b[n:] (%s)", dst, pi.pos(t))
						bad = true
					}
					nAccum++
					accumulates = plus
				case nOff:
					shape = append(shape, canon(t))
					ren2 := map[string]string{}
					for k, v := range ren {
						ren2[k] = v
					}
					if lName != "" {
						ren2[lName] = "l"
					}
					txt := caRename(pi.nodeText(t), ren2)
					switch txt {
					case "off += int64(n)":
						offAssign = ".addTotal"
					case "off += int64(l)":
						offAssign = ".addReply"
					default:
						u.fail("File.readChunkAt: assignment `%s` to the offset not recognised (%s)", txt, pi.pos(t))
						bad = true
					}
					if nAccum == 0 {
						u.fail("File.readChunkAt: the offset is assigned before the accumulation (%s): order not modelled", pi.pos(t))
						bad = true
					}
				case nB:
					shape = append(shape, canon(t))
					u.fail("File.readChunkAt: `%s` reassigns the buffer inside the refill loop (%s)", canon(t), pi.pos(t))
					bad = true
				}
			}
		case *ast.ReturnStmt:
			if len(t.Results) == 0 {
				return true
			}
			if len(t.Results) != 2 || canon(t.Results[0]) != "n" {
				shape = append(shape, canon(t))
				u.fail("File.readChunkAt: `%s` does not return the running count n (%s)", canon(t), pi.pos(t))
				bad = true
			}
		}
		return true
	})
	if nAccum != 1 {
		u.fail("File.readChunkAt: expected exactly one accumulation n (+)= copy(b[n:], data[:l]), found %d (%s)", nAccum, pi.pos(loop))
		bad = true
	}
	// the request must be sent before the accumulation in the iteration (the literal precedes the copy)
	exact = !bad && offsetAddsN && lenSubN && accumulates && offAssign == ".none"
	emit()
}

func caRename(s string, ren map[string]string) string {
	re := regexp.MustCompile(`[A-Za-z_][A-Za-z0-9_]*`)
	// do not rename selector fields (x.name) or keys followed by ':'
	idx := re.FindAllStringIndex(s, -1)
	var b strings.Builder
	last := 0
	for _, m := range idx {
		w := s[m[0]:m[1]]
		r, ok := ren[w]
		if !ok || (m[0] > 0 && s[m[0]-1] == '.') {
			continue
		}
		b.WriteString(s[last:m[0]])
		b.WriteString(r)
		last = m[1]
	}
	b.WriteString(s[last:])
	return b.String()
}

// caSumKind classifies a request offset: conversions to 64-bit integer types stripped, `+` flattened.
func caSumKind(pi *pkgInfo, e ast.Expr, off, n string) string {
	var terms []string
	okAll := true
	var walk func(e ast.Expr)
	walk = func(e ast.Expr) {
		e = stripParens(e)
		if call, ok := e.(*ast.CallExpr); ok && len(call.Args) == 1 {
			if tv, has := pi.info.Types[call.Fun]; has && tv.IsType() {
				if _, is64 := caIntTy(tv.Type); is64 {
					walk(call.Args[0])
					return
				}
			}
		}
		if be, ok := e.(*ast.BinaryExpr); ok && be.Op == token.ADD {
			walk(be.X)
			walk(be.Y)
			return
		}
		if id, ok := e.(*ast.Ident); ok {
			switch id.Name {
			case off:
				terms = append(terms, "off")
				return
			case n:
				terms = append(terms, "n")
				return
			}
		}
		okAll = false
	}
	walk(e)
	sort.Strings(terms)
	if !okAll {
		return "?"
	}
	switch strings.Join(terms, "+") {
	case "n+off":
		return "off+n"
	case "off":
		return "off"
	}
	return "?"
}
