package main

// Unit CodecTables: the packet layout tables of both wire codecs of pkg/sftp
// (packet.go / server.go and internal/encoding/ssh/filexfer[/openssh]) in the
// format of the Lean codec model (Sftp/Model/Codec.lean: FieldD, FKind, DecCfg),
// plus the framing facts of recvPacket.
//
// Closed list of recognised shapes; everything else is a recorded failure.
// This file: shared helpers, the main codec, recvPacket, emission.
// codec_fx.go: the filexfer codec.

import (
	"fmt"
	"go/ast"
	"go/token"
	"go/types"
	"sort"
	"strings"
)

func init() { extractors = append(extractors, extractCodecTables) }

type cfield struct {
	kind string // Lean FKind term: ".u32", ".cstr (strBytes \"…\")"
	name string
	safe bool
}

type crow struct {
	name   string
	typ    int64
	fields []cfield
	pos    string
}

type codecX struct {
	x *extractor
	u *unit
	// main codec
	mainMarshal           []crow
	mainUnmarshal         []crow
	mainSafe              map[string]bool // primitive name -> verified bounds-checked
	dataIrregular         bool
	extDispatchOnOriginal bool
	// filexfer
	fxMarshal   []crow
	fxUnmarshal []crow
	fxSafe      map[string]bool
	fxDropsErr  []string
	fxRegistry  [][2]string
	// sendPacket (memoised)
	send *sendFacts
}

// ---- small AST helpers ----

// selOn: e is `recv.F` -> F.
func selOn(e ast.Expr, recv string) (string, bool) {
	s, ok := e.(*ast.SelectorExpr)
	if !ok {
		return "", false
	}
	id, ok := s.X.(*ast.Ident)
	if !ok || id.Name != recv {
		return "", false
	}
	return s.Sel.Name, true
}

func isIdent(e ast.Expr, name string) bool {
	id, ok := e.(*ast.Ident)
	return ok && id.Name == name
}

// stripConv removes parentheses and type conversions T(x).
func stripConv(pi *pkgInfo, e ast.Expr) ast.Expr {
	for {
		switch t := e.(type) {
		case *ast.ParenExpr:
			e = t.X
			continue
		case *ast.CallExpr:
			if len(t.Args) == 1 {
				if tv, ok := pi.info.Types[t.Fun]; ok && tv.IsType() {
					e = t.Args[0]
					continue
				}
			}
		}
		return e
	}
}

func recvVar(fd *ast.FuncDecl) string {
	if fd.Recv != nil && len(fd.Recv.List) == 1 && len(fd.Recv.List[0].Names) == 1 {
		return fd.Recv.List[0].Names[0].Name
	}
	return ""
}

func callName(e ast.Expr) (string, *ast.CallExpr) {
	c, ok := e.(*ast.CallExpr)
	if !ok {
		return "", nil
	}
	return exprString(c.Fun), c
}

func cstrKind(s string) string { return ".cstr (strBytes " + leanStr(s) + ")" }

// ---- main codec: marshal ----

const canonMarshalBinaryViaPacket = "{ header, payload, err := p.marshalPacket() return append(header, payload...), err }"

const canonAttrsSwitch = "switch attrs := p.Attrs.(type) { case []byte: return b, attrs, nil case os.FileInfo: _, fs := fileStatFromInfo(attrs) return b, marshalFileStat(nil, p.Flags, fs), nil case *FileStat: return b, marshalFileStat(nil, p.Flags, attrs), nil }"

const canonNameLoop = "for _, na := range p.NameAttrs { ab, err := na.MarshalBinary() if err != nil { return nil, nil, err } payload = append(payload, ab...) }"

const canonNameAttrMarshal = "{ var b []byte b = marshalString(b, p.Name) b = marshalString(b, p.LongName) for _, attr := range p.Attrs { b = marshal(b, attr) } return b, nil }"

const canonMarshalFileInfo = "{ flags, fileStat := fileStatFromInfo(fi) b = marshalUint32(b, flags) return marshalFileStat(b, flags, fileStat) }"

const canonStatVFSPacketPrefix = "{ header := []byte{0, 0, 0, 0, "
const canonStatVFSPacketSuffix = "} var buf bytes.Buffer err := binary.Write(&buf, binary.BigEndian, p) return header, buf.Bytes(), err }"

var mainPutFuncs = map[string]string{"marshalUint32": ".u32", "marshalUint64": ".u64", "marshalString": ".str"}

// parseMainAppends parses a body of `b = marshalX(b, recv.F)` statements.
// mode "binary": MarshalBinary (make, type byte, fields, `return b, nil`);
// mode "packet": marshalPacket (…, `return b, <payload>, nil`);
// mode "frag": a helper such as marshalStatus (fields, `return b`);
// params: identifiers that are parameters of a template (marshalIDStringPacket), rendered "$name".
func (c *codecX) parseMainAppends(who string, fd *ast.FuncDecl, recv, mode string, params map[string]bool) (row crow, typParam string, ok bool) {
	pi, u := c.x.root, c.u
	bad := func(n ast.Node, why string) (crow, string, bool) {
		u.fail("%s: %s at %s: %s", who, why, pi.pos(n), pi.nodeText(n))
		return crow{}, "", false
	}
	row.name = who
	row.pos = pi.pos(fd)
	row.typ = -1
	started := mode == "frag"
	done := false
	pendingCount := "" // uint32(len(recv.F)) written, waiting for the loop
	payloadFrom := ""  // what `payload` holds ("names", "attrs")
	payloadDeclared := false
	restPending := false // the attrs type switch was seen
	stmts := fd.Body.List
	for i := 0; i < len(stmts); i++ {
		s := stmts[i]
		if done {
			return bad(s, "statement after the final return")
		}
		switch st := s.(type) {
		case *ast.DeclStmt:
			gd, _ := st.Decl.(*ast.GenDecl)
			if gd != nil && gd.Tok == token.CONST {
				continue // local constant; its value comes from the type checker where used
			}
			if pi.nodeText(st) == "var payload []byte" && mode == "packet" {
				payloadDeclared = true
				continue
			}
			return bad(s, "unrecognised declaration")
		case *ast.AssignStmt:
			if len(st.Lhs) != 1 || len(st.Rhs) != 1 {
				return bad(s, "unrecognised assignment")
			}
			lhs, isId := st.Lhs[0].(*ast.Ident)
			if !isId {
				return bad(s, "unrecognised assignment target")
			}
			if lhs.Name == "l" && !started { // capacity hint only
				continue
			}
			fn, call := callName(st.Rhs[0])
			switch {
			case lhs.Name == "b" && st.Tok == token.DEFINE && fn == "make":
				if started || len(call.Args) != 3 || pi.nodeText(call.Args[0]) != "[]byte" {
					return bad(s, "unrecognised make")
				}
				if v, okv := pi.exprInt(call.Args[1]); !okv || v != 4 {
					return bad(s, "the header does not start with 4 length bytes")
				}
				started = true
			case lhs.Name == "b" && st.Tok == token.ASSIGN && fn == "append":
				if !started || len(call.Args) != 2 || !isIdent(call.Args[0], "b") || call.Ellipsis != token.NoPos {
					return bad(s, "unrecognised append")
				}
				if row.typ >= 0 || typParam != "" || len(row.fields) > 0 {
					return bad(s, "second raw append (only the type byte is expected)")
				}
				if id, isid := call.Args[1].(*ast.Ident); isid && params[id.Name] {
					typParam = "$" + id.Name
				} else if v, okv := pi.exprInt(call.Args[1]); okv {
					row.typ = v
				} else {
					return bad(s, "type byte is not a constant")
				}
			case lhs.Name == "b" && st.Tok == token.ASSIGN && mainPutFuncs[fn] != "":
				if !started || len(call.Args) != 2 || !isIdent(call.Args[0], "b") {
					return bad(s, "unrecognised marshal call")
				}
				if mode != "frag" && row.typ < 0 && typParam == "" {
					return bad(s, "field written before the type byte")
				}
				if pendingCount != "" {
					return bad(s, "field written between a count and its loop")
				}
				kind := mainPutFuncs[fn]
				arg := call.Args[1]
				if f, okf := selOn(arg, recv); okf {
					row.fields = append(row.fields, cfield{kind, f, true})
				} else if id, isid := arg.(*ast.Ident); isid && params[id.Name] {
					row.fields = append(row.fields, cfield{kind, "$" + id.Name, true})
				} else if sv, oks := pi.exprStr(arg); oks && kind == ".str" {
					row.fields = append(row.fields, cfield{cstrKind(sv), "ext", true})
				} else if kind == ".u32" {
					inner := stripConv(pi, arg)
					if ln, cl := callName(inner); ln == "len" && len(cl.Args) == 1 {
						if f, okf := selOn(cl.Args[0], recv); okf {
							pendingCount = f
							continue
						}
					}
					return bad(s, "unrecognised uint32 operand")
				} else {
					return bad(s, "unrecognised operand")
				}
			case lhs.Name == "b" && st.Tok == token.ASSIGN && fn == "marshalStatus":
				if len(call.Args) != 2 || !isIdent(call.Args[0], "b") {
					return bad(s, "unrecognised marshalStatus call")
				}
				if f, okf := selOn(call.Args[1], recv); !okf || f != "StatusError" {
					return bad(s, "marshalStatus operand is not p.StatusError")
				}
				hfd := pi.funcDecl("marshalStatus")
				if hfd == nil || len(hfd.Type.Params.List) != 2 || len(hfd.Type.Params.List[1].Names) != 1 {
					return bad(s, "marshalStatus not found / unexpected signature")
				}
				frag, _, okf := c.parseMainAppends("marshalStatus", hfd, hfd.Type.Params.List[1].Names[0].Name, "frag", nil)
				if !okf {
					return crow{}, "", false
				}
				row.fields = append(row.fields, frag.fields...)
			case lhs.Name == "payload" && st.Tok == token.ASSIGN && fn == "marshalFileInfo":
				if !payloadDeclared || payloadFrom != "" || len(call.Args) != 2 || !isIdent(call.Args[0], "payload") {
					return bad(s, "unrecognised marshalFileInfo call")
				}
				f, okf := selOn(call.Args[1], recv)
				if !okf {
					return bad(s, "marshalFileInfo operand")
				}
				if got := pi.bodyText(pi.funcDecl("marshalFileInfo")); got != canonMarshalFileInfo {
					return bad(s, "marshalFileInfo is not flags word + marshalFileStat: "+got)
				}
				row.fields = append(row.fields, cfield{".attrs", f, true})
				payloadFrom = "attrs"
			default:
				return bad(s, "unrecognised assignment")
			}
		case *ast.RangeStmt:
			txt := pi.nodeText(st)
			over, okr := selOn(st.X, recv)
			if !okr {
				return bad(s, "unrecognised range")
			}
			if !started { // size computation: every statement is `l += …`
				for _, bs := range st.Body.List {
					as, oka := bs.(*ast.AssignStmt)
					if !oka || as.Tok != token.ADD_ASSIGN || !isIdent(as.Lhs[0], "l") {
						return bad(s, "unrecognised loop before make")
					}
				}
				continue
			}
			val, _ := st.Value.(*ast.Ident)
			if val != nil && txt == fmt.Sprintf("for _, %s := range p.%s { b = marshalString(b, %s.Name) b = marshalString(b, %s.Data) }", val.Name, over, val.Name, val.Name) && pendingCount == "" {
				row.fields = append(row.fields, cfield{".pairs", over, true})
				continue
			}
			if txt == canonNameLoop && pendingCount == over && payloadDeclared && payloadFrom == "" {
				if got := pi.bodyText(pi.funcDecl("sshFxpNameAttr.MarshalBinary")); got != canonNameAttrMarshal {
					return bad(s, "sshFxpNameAttr.MarshalBinary is not name, longname, attrs: "+got)
				}
				row.fields = append(row.fields, cfield{".names", over, true})
				pendingCount = ""
				payloadFrom = "names"
				continue
			}
			return bad(s, "unrecognised loop")
		case *ast.TypeSwitchStmt:
			if mode != "packet" || pi.nodeText(st) != canonAttrsSwitch || pendingCount != "" {
				return bad(s, "unrecognised type switch")
			}
			restPending = true
		case *ast.ReturnStmt:
			txt := pi.nodeText(st)
			if pendingCount != "" {
				return bad(s, "count of "+pendingCount+" written without its elements")
			}
			switch {
			case mode == "frag" && txt == "return b":
			case mode == "binary" && txt == "return b, nil":
			case mode == "packet" && restPending && txt == "return b, marshal(nil, p.Attrs), nil":
				n := len(row.fields)
				if n == 0 || row.fields[n-1].kind != ".u32" || row.fields[n-1].name != "Flags" {
					return bad(s, "attribute bytes not preceded by the Flags word")
				}
				row.fields = append(row.fields, cfield{".rest", "Attrs", true})
			case mode == "packet" && !restPending && txt == "return b, payload, nil" && payloadFrom != "":
			case mode == "packet" && !restPending && len(st.Results) == 3 && isIdent(st.Results[0], "b") && isIdent(st.Results[2], "nil"):
				f, okf := selOn(st.Results[1], recv)
				n := len(row.fields)
				if !okf || n == 0 || row.fields[n-1].kind != ".u32" || row.fields[n-1].name != "Length" {
					return bad(s, "payload not preceded by its uint32 Length")
				}
				if t, okt := pi.info.Types[st.Results[1]]; !okt || t.Type.String() != "[]byte" {
					return bad(s, "payload is not a []byte field")
				}
				row.fields[n-1] = cfield{".lenData", f, true}
			default:
				return bad(s, "unrecognised return")
			}
			done = true
		default:
			return bad(s, "unrecognised statement")
		}
	}
	if !done {
		u.fail("%s: no final return recognised (%s)", who, row.pos)
		return crow{}, "", false
	}
	if mode != "frag" && row.typ < 0 && typParam == "" {
		u.fail("%s: no type byte (%s)", who, row.pos)
		return crow{}, "", false
	}
	return row, typParam, true
}

func (c *codecX) statVFSRow(fd *ast.FuncDecl) (crow, bool) {
	pi, u := c.x.root, c.u
	body := pi.bodyText(fd)
	if !strings.HasPrefix(body, canonStatVFSPacketPrefix) || !strings.HasSuffix(body, canonStatVFSPacketSuffix) {
		u.fail("StatVFS.marshalPacket: not header literal + binary.Write(p) at %s: %s", pi.pos(fd), body)
		return crow{}, false
	}
	row := crow{name: "StatVFS", typ: -1, pos: pi.pos(fd)}
	ast.Inspect(fd.Body, func(n ast.Node) bool {
		if cl, ok := n.(*ast.CompositeLit); ok && len(cl.Elts) == 5 && row.typ < 0 {
			if v, okv := pi.exprInt(cl.Elts[4]); okv {
				row.typ = v
			}
		}
		return true
	})
	if row.typ < 0 {
		u.fail("StatVFS.marshalPacket: type byte of the header literal is not a constant (%s)", pi.pos(fd))
		return crow{}, false
	}
	obj := pi.pkg.Scope().Lookup("StatVFS")
	if obj == nil {
		u.fail("type StatVFS not found")
		return crow{}, false
	}
	st, ok := obj.Type().Underlying().(*types.Struct)
	if !ok {
		u.fail("StatVFS is not a struct")
		return crow{}, false
	}
	for i := 0; i < st.NumFields(); i++ { // binary.Write writes the fields in declaration order
		f := st.Field(i)
		b, _ := f.Type().Underlying().(*types.Basic)
		switch {
		case b != nil && b.Kind() == types.Uint32:
			row.fields = append(row.fields, cfield{".u32", f.Name(), true})
		case b != nil && b.Kind() == types.Uint64:
			row.fields = append(row.fields, cfield{".u64", f.Name(), true})
		case b != nil && b.Kind() == types.Uint8:
			row.fields = append(row.fields, cfield{".u8", f.Name(), true})
		default:
			u.fail("StatVFS: field %s of type %s is not written as a fixed-size integer", f.Name(), f.Type())
			return crow{}, false
		}
	}
	return row, true
}

func (c *codecX) extractMainMarshal() {
	pi, u := c.x.root, c.u
	// template: marshalIDStringPacket(packetType, id, str)
	idStrOK := false
	if fd := pi.funcDecl("marshalIDStringPacket"); fd == nil {
		u.fail("marshalIDStringPacket not found")
	} else {
		t, tp, ok := c.parseMainAppends("marshalIDStringPacket", fd, "", "binary", map[string]bool{"packetType": true, "id": true, "str": true})
		if ok {
			if tp == "$packetType" && len(t.fields) == 2 && t.fields[0] == (cfield{".u32", "$id", true}) && t.fields[1] == (cfield{".str", "$str", true}) {
				idStrOK = true
			} else {
				u.fail("marshalIDStringPacket: body is not type, uint32 id, string str (%s)", pi.pos(fd))
			}
		}
	}
	names := map[string]bool{}
	for _, t := range pi.methodsNamed("MarshalBinary") {
		names[t] = true
	}
	withPacket := map[string]bool{}
	for _, t := range pi.methodsNamed("marshalPacket") {
		names[t] = true
		withPacket[t] = true
	}
	delete(names, "sshFxpNameAttr") // the NAME entry, verified where the NAME packet uses it
	var sorted []string
	for t := range names {
		sorted = append(sorted, t)
	}
	sort.Strings(sorted)
	for _, t := range sorted {
		mb := pi.funcDecl(t + ".MarshalBinary")
		if withPacket[t] {
			if mb == nil {
				u.fail("%s: marshalPacket without MarshalBinary", t)
			} else if got := pi.bodyText(mb); got != canonMarshalBinaryViaPacket {
				if t == "sshFxpDataPacket" {
					c.dataIrregular = true // in-place header trick; covered by differential testing
				} else {
					u.fail("%s.MarshalBinary is not append(header, payload...) of marshalPacket (%s): %s", t, pi.pos(mb), got)
					continue
				}
			}
			fd := pi.funcDecl(t + ".marshalPacket")
			if t == "StatVFS" {
				if row, ok := c.statVFSRow(fd); ok {
					c.mainMarshal = append(c.mainMarshal, row)
				}
				continue
			}
			if row, _, ok := c.parseMainAppends(t, fd, recvVar(fd), "packet", nil); ok {
				c.mainMarshal = append(c.mainMarshal, row)
			}
			continue
		}
		recv := recvVar(mb)
		// `return marshalIDStringPacket(CONST, p.ID, p.F)`
		if e, ok := singleReturn2(mb); ok {
			if fn, call := callName(e); fn == "marshalIDStringPacket" && len(call.Args) == 3 {
				v, okv := pi.exprInt(call.Args[0])
				idf, ok1 := selOn(call.Args[1], recv)
				sf, ok2 := selOn(call.Args[2], recv)
				if !idStrOK || !okv || !ok1 || !ok2 {
					u.fail("%s.MarshalBinary: unrecognised marshalIDStringPacket call at %s", t, pi.pos(mb))
					continue
				}
				c.mainMarshal = append(c.mainMarshal, crow{name: t, typ: v, pos: pi.pos(mb),
					fields: []cfield{{".u32", idf, true}, {".str", sf, true}}})
				continue
			}
		}
		if row, _, ok := c.parseMainAppends(t, mb, recv, "binary", nil); ok {
			c.mainMarshal = append(c.mainMarshal, row)
		}
	}
}

// singleReturn2: body is one `return e, nil` or `return e`.
func singleReturn2(fd *ast.FuncDecl) (ast.Expr, bool) {
	if fd == nil || fd.Body == nil || len(fd.Body.List) != 1 {
		return nil, false
	}
	rs, ok := fd.Body.List[0].(*ast.ReturnStmt)
	if !ok || len(rs.Results) == 0 || len(rs.Results) > 2 {
		return nil, false
	}
	return rs.Results[0], true
}

// ---- main codec: unmarshal ----

var mainGetFuncs = map[string]string{
	"unmarshalUint32": ".u32", "unmarshalUint32Safe": ".u32",
	"unmarshalUint64": ".u64", "unmarshalUint64Safe": ".u64",
	"unmarshalString": ".str", "unmarshalStringSafe": ".str",
}

func (c *codecX) verifyMainPrims() {
	pi, u := c.x.root, c.u
	c.mainSafe = map[string]bool{}
	want := map[string][]string{
		"unmarshalUint32Safe": {"if len(b) < 4 { return 0, nil, errShortPacket }"},
		"unmarshalUint64Safe": {"if len(b) < 8 { return 0, nil, errShortPacket }"},
		"unmarshalStringSafe": {"n, b, err := unmarshalUint32Safe(b) if err != nil { return \"\", nil, err }", "if int64(n) > int64(len(b)) { return \"\", nil, errShortPacket }"},
	}
	for name, pats := range want {
		fd := pi.funcDecl(name)
		if fd == nil {
			u.fail("%s not found", name)
			continue
		}
		body := pi.bodyText(fd)
		ok := true
		for _, p := range pats {
			if !strings.Contains(body, p) {
				ok = false
			}
		}
		c.mainSafe[name] = ok // a Safe primitive without its check makes its users unsafe
	}
}

type readItem struct {
	target  string // field name, or "*param"
	fn      string
	discard bool // the rest is assigned to `_`
	node    ast.Node
}

func errIsLast(rs *ast.ReturnStmt) bool {
	return len(rs.Results) > 0 && isIdent(rs.Results[len(rs.Results)-1], "err")
}

// isErrCheck: `if err != nil { return …, err }` without init/else.
func isErrCheck(pi *pkgInfo, s ast.Stmt) bool {
	is, ok := s.(*ast.IfStmt)
	if !ok || is.Init != nil || is.Else != nil || pi.nodeText(is.Cond) != "err != nil" || len(is.Body.List) != 1 {
		return false
	}
	rs, ok := is.Body.List[0].(*ast.ReturnStmt)
	return ok && errIsLast(rs)
}

// readAssign recognises `T, b|_, err = F(b)` (checked primitives) and `T, b|_ = F(b)` (unchecked).
func (c *codecX) readAssign(as *ast.AssignStmt, recv string) (readItem, bool) {
	if as.Tok != token.ASSIGN || len(as.Rhs) != 1 {
		return readItem{}, false
	}
	fn, call := callName(as.Rhs[0])
	if mainGetFuncs[fn] == "" || len(call.Args) != 1 || !isIdent(call.Args[0], "b") {
		return readItem{}, false
	}
	safeName := strings.HasSuffix(fn, "Safe")
	if (safeName && len(as.Lhs) != 3) || (!safeName && len(as.Lhs) != 2) {
		return readItem{}, false
	}
	if safeName && !isIdent(as.Lhs[2], "err") {
		return readItem{}, false // error discarded: not a recognised shape
	}
	it := readItem{fn: fn, node: as}
	if f, ok := selOn(as.Lhs[0], recv); ok {
		it.target = f
	} else if st, ok := as.Lhs[0].(*ast.StarExpr); ok {
		if id, ok := st.X.(*ast.Ident); ok {
			it.target = "*" + id.Name
		}
	}
	if it.target == "" {
		return readItem{}, false
	}
	switch {
	case isIdent(as.Lhs[1], "b"):
	case isIdent(as.Lhs[1], "_"):
		it.discard = true
	default:
		return readItem{}, false
	}
	return it, true
}

func (c *codecX) fieldOf(it readItem) cfield {
	safe := strings.HasSuffix(it.fn, "Safe") && c.mainSafe[it.fn]
	return cfield{mainGetFuncs[it.fn], it.target, safe}
}

const canonLenGuard = "uint32(len(b)) < p.Length"

// parseMainReads parses a decoder body. tmpl: a free function (unmarshalIDString, unmarshalExtensionPair).
func (c *codecX) parseMainReads(who string, fd *ast.FuncDecl, recv string, tmpl bool) (fields []cfield, ok bool) {
	pi, u := c.x.root, c.u
	bad := func(n ast.Node, why string) ([]cfield, bool) {
		u.fail("%s: %s at %s: %s", who, why, pi.pos(n), pi.nodeText(n))
		return nil, false
	}
	stmts := fd.Body.List
	done := false
	discarded := false // a field assigned the rest to `_`: nothing may be read after it
	lenGuard := false
	sawOrig := false
	sawSwitch := false
	add := func(it readItem) bool {
		if discarded {
			bad(it.node, "read after the remaining bytes were discarded")
			return false
		}
		fields = append(fields, c.fieldOf(it))
		discarded = it.discard
		return true
	}
	for i := 0; i < len(stmts); i++ {
		s := stmts[i]
		if done {
			return bad(s, "statement after the final return")
		}
		switch st := s.(type) {
		case *ast.DeclStmt:
			txt := pi.nodeText(st)
			if txt == "var err error" || (tmpl && strings.HasPrefix(txt, "var "+recv+" ")) {
				continue
			}
			return bad(s, "unrecognised declaration")
		case *ast.IfStmt:
			// chain: if T, b, err = F(b); err != nil { return err } else if …
			for cur := st; cur != nil; {
				if cur.Init == nil {
					if pi.nodeText(cur.Cond) == canonLenGuard && pi.nodeText(cur.Body) == "{ return errShortPacket }" && cur.Else == nil {
						n := len(fields)
						if n == 0 || fields[n-1].name != "Length" || fields[n-1].kind != ".u32" || discarded {
							return bad(cur, "length guard not after the uint32 Length")
						}
						lenGuard = true
						break
					}
					return bad(cur, "unrecognised if")
				}
				as, okA := cur.Init.(*ast.AssignStmt)
				if !okA {
					return bad(cur, "unrecognised if-init")
				}
				it, okR := c.readAssign(as, recv)
				if !okR {
					return bad(cur, "unrecognised read")
				}
				if pi.nodeText(cur.Cond) != "err != nil" || pi.nodeText(cur.Body) != "{ return err }" {
					return bad(cur, "error of the read is not returned")
				}
				if !add(it) {
					return nil, false
				}
				switch e := cur.Else.(type) {
				case nil:
					cur = nil
				case *ast.IfStmt:
					cur = e
				default:
					return bad(cur, "unrecognised else")
				}
			}
		case *ast.AssignStmt:
			txt := pi.nodeText(st)
			if it, okR := c.readAssign(st, recv); okR {
				if strings.HasSuffix(it.fn, "Safe") {
					// the error must be checked by the next statement or returned by it
					if i+1 >= len(stmts) {
						return bad(s, "error of the read is dropped")
					}
					nx := stmts[i+1]
					if isErrCheck(pi, nx) {
						i++
					} else if rs, okRet := nx.(*ast.ReturnStmt); okRet && errIsLast(rs) && i+2 == len(stmts) {
						i++
						done = true
					} else {
						return bad(s, "error of the read is not checked")
					}
				}
				if !add(it) {
					return nil, false
				}
				continue
			}
			switch {
			case txt == "bOrig := b" && len(fields) == 0:
				sawOrig = true
			case txt == "p.Attrs = b" && !discarded:
				fields = append(fields, cfield{".rest", "Attrs", true})
				discarded = true
			case txt == "p.Data = b[:p.Length]" && !discarded:
				n := len(fields)
				if n == 0 || fields[n-1].name != "Length" || fields[n-1].kind != ".u32" {
					return bad(s, "data slice not after the uint32 Length")
				}
				// without the guard `b[:p.Length]` can panic
				fields[n-1] = cfield{".lenData", "Data", lenGuard && fields[n-1].safe}
				discarded = true
			default:
				return bad(s, "unrecognised assignment")
			}
		case *ast.ForStmt:
			canon := "for len(b) > 0 { var ep extensionPair ep, b, err = unmarshalExtensionPair(b) if err != nil { return err } p.Extensions = append(p.Extensions, ep) }"
			if pi.nodeText(st) != canon || discarded {
				return bad(s, "unrecognised loop")
			}
			hfd := pi.funcDecl("unmarshalExtensionPair")
			if hfd == nil {
				return bad(s, "unmarshalExtensionPair not found")
			}
			pf, okp := c.parseMainReads("unmarshalExtensionPair", hfd, "ep", true)
			if !okp {
				return nil, false
			}
			if len(pf) != 2 || pf[0].kind != ".str" || pf[0].name != "Name" || pf[1].kind != ".str" || pf[1].name != "Data" {
				return bad(hfd, "unmarshalExtensionPair is not string Name, string Data")
			}
			if got := pi.nodeText(hfd.Body.List[len(hfd.Body.List)-1]); got != "return ep, b, err" {
				return bad(hfd, "unmarshalExtensionPair does not return the remaining bytes")
			}
			fields = append(fields, cfield{".pairs", "Extensions", pf[0].safe && pf[1].safe})
			discarded = true
		case *ast.SwitchStmt:
			if !sawOrig || sawSwitch || st.Tag == nil || pi.nodeText(st.Tag) != "p.ExtendedRequest" {
				return bad(s, "unrecognised switch")
			}
			sawSwitch = true // the cases themselves are extracted by unit Gate (extSwitch)
		case *ast.ReturnStmt:
			txt := pi.nodeText(st)
			switch {
			case txt == "return nil":
			case tmpl && errIsLast(st):
			case sawSwitch && txt == "return p.SpecificPacket.UnmarshalBinary(bOrig)":
				c.extDispatchOnOriginal = true
			default:
				return bad(s, "unrecognised return")
			}
			done = true
		default:
			return bad(s, "unrecognised statement")
		}
	}
	if !done {
		u.fail("%s: no final return recognised (%s)", who, pi.pos(fd))
		return nil, false
	}
	if sawOrig && !sawSwitch {
		u.fail("%s: bOrig without the extension switch (%s)", who, pi.pos(fd))
		return nil, false
	}
	return fields, true
}

func (c *codecX) extractMainUnmarshal() {
	pi, u := c.x.root, c.u
	c.verifyMainPrims()
	var idStr []cfield
	if fd := pi.funcDecl("unmarshalIDString"); fd == nil {
		u.fail("unmarshalIDString not found")
	} else if f, ok := c.parseMainReads("unmarshalIDString", fd, "", true); ok {
		if len(f) == 2 && f[0].kind == ".u32" && f[0].name == "*id" && f[1].kind == ".str" && f[1].name == "*str" {
			idStr = f
		} else {
			u.fail("unmarshalIDString: body is not uint32 *id, string *str (%s)", pi.pos(fd))
		}
	}
	for _, t := range pi.methodsNamed("UnmarshalBinary") {
		fd := pi.funcDecl(t + ".UnmarshalBinary")
		recv := recvVar(fd)
		if e, ok := singleReturn2(fd); ok {
			if fn, call := callName(e); fn == "unmarshalIDString" {
				okShape := len(call.Args) == 3 && isIdent(call.Args[0], "b") && idStr != nil
				var names [2]string
				if okShape {
					for k := 0; k < 2; k++ {
						ue, isU := call.Args[k+1].(*ast.UnaryExpr)
						if !isU || ue.Op != token.AND {
							okShape = false
							break
						}
						f, okf := selOn(ue.X, recv)
						if !okf {
							okShape = false
							break
						}
						names[k] = f
					}
				}
				if !okShape {
					u.fail("%s.UnmarshalBinary: unrecognised unmarshalIDString call at %s", t, pi.pos(fd))
					continue
				}
				c.mainUnmarshal = append(c.mainUnmarshal, crow{name: t, pos: pi.pos(fd), fields: []cfield{
					{idStr[0].kind, names[0], idStr[0].safe}, {idStr[1].kind, names[1], idStr[1].safe}}})
				continue
			}
		}
		if f, ok := c.parseMainReads(t, fd, recv, false); ok {
			c.mainUnmarshal = append(c.mainUnmarshal, crow{name: t, pos: pi.pos(fd), fields: f})
		}
	}
}

// ---- count guards ----

// countGuard looks, in fd, for `make(T, …count…)` and an `if` between the definition of the count
// variable and the make that compares it with <len>/K and leaves with an error.
// Returns (present, K). A guard-like `if` of another form is a failure.
func (c *codecX) countGuard(pi *pkgInfo, who string, fd *ast.FuncDecl, elemType string) (bool, int64) {
	u := c.u
	if fd == nil {
		u.fail("%s not found", who)
		return false, 0
	}
	var mk *ast.CallExpr
	countVar := ""
	ast.Inspect(fd.Body, func(n ast.Node) bool {
		call, ok := n.(*ast.CallExpr)
		if !ok || !isIdent(call.Fun, "make") || len(call.Args) < 2 || pi.nodeText(call.Args[0]) != elemType {
			return true
		}
		if id, ok := call.Args[len(call.Args)-1].(*ast.Ident); ok && mk == nil {
			mk, countVar = call, id.Name
		}
		return true
	})
	if mk == nil {
		u.fail("%s: make(%s, count) not found (%s)", who, elemType, pi.pos(fd))
		return false, 0
	}
	present, div := false, int64(0)
	ast.Inspect(fd.Body, func(n ast.Node) bool {
		is, ok := n.(*ast.IfStmt)
		if !ok || is.Pos() > mk.Pos() {
			return true
		}
		// is the make inside this if? then it is not a guard before it
		if is.End() > mk.Pos() {
			return true
		}
		be, ok := is.Cond.(*ast.BinaryExpr)
		if !ok {
			return true
		}
		ctext := pi.nodeText(is.Cond)
		mentions := func(e ast.Expr) bool { return isIdent(stripConv(pi, e), countVar) }
		// `count < 0 || count > LEN/K`: the sign test (int(uint32) on 32-bit platforms) is not the guard itself
		if be.Op == token.LOR {
			if l, ok := be.X.(*ast.BinaryExpr); ok && l.Op == token.LSS && mentions(l.X) && pi.nodeText(l.Y) == "0" {
				if r, ok := be.Y.(*ast.BinaryExpr); ok {
					be = r
				}
			}
		}
		if !mentions(be.X) && !mentions(be.Y) {
			return true
		}
		if !strings.Contains(ctext, "len(") && !strings.Contains(ctext, ".Len()") {
			return true
		}
		// candidate guard: must be `count > LEN/K` and leave with an error
		var other ast.Expr
		switch {
		case be.Op == token.GTR && mentions(be.X):
			other = be.Y
		case be.Op == token.LSS && mentions(be.Y):
			other = be.X
		default:
			u.fail("%s: count guard of an unrecognised form at %s: %s", who, pi.pos(is), ctext)
			return true
		}
		q, ok := stripConv(pi, other).(*ast.BinaryExpr)
		var k int64
		okK := false
		if ok && q.Op == token.QUO {
			lt := pi.nodeText(stripConv(pi, q.X))
			if lt == "len(b)" || strings.HasSuffix(lt, ".Len()") {
				k, okK = pi.exprInt(q.Y)
			}
		}
		body := pi.nodeText(is.Body)
		leaves := false
		if n := len(is.Body.List); n > 0 {
			if _, isRet := is.Body.List[n-1].(*ast.ReturnStmt); isRet && (strings.Contains(body, "ShortPacket") || strings.Contains(body, "LongPacket")) {
				leaves = true
			}
		}
		if !okK || !leaves {
			u.fail("%s: count guard of an unrecognised form at %s: if %s %s", who, pi.pos(is), ctext, body)
			return true
		}
		present, div = true, k
		return true
	})
	return present, div
}

// ---- recvPacket ----

type recvFacts struct {
	longCheck, zeroCheck, readsFull bool
	maxLen                          int64
	sendLenOK                       bool
	pos                             string
}

func (c *codecX) extractRecv() recvFacts {
	pi, u := c.x.root, c.u
	var r recvFacts
	fd := pi.funcDecl("recvPacket")
	if fd == nil {
		u.fail("recvPacket not found")
		return r
	}
	r.pos = pi.pos(fd)
	stmts := fd.Body.List
	idx := func(pred func(ast.Stmt) bool) int {
		for i, s := range stmts {
			if pred(s) {
				return i
			}
		}
		return -1
	}
	iHdr := idx(func(s ast.Stmt) bool {
		is, ok := s.(*ast.IfStmt)
		return ok && is.Init != nil && strings.Contains(pi.nodeText(is.Init), "io.ReadFull(r, b[:4])")
	})
	iLen := idx(func(s ast.Stmt) bool { return pi.nodeText(s) == "length, _ := unmarshalUint32(b)" })
	iAlloc := idx(func(s ast.Stmt) bool {
		return strings.Contains(pi.nodeText(s), "make([]byte, length)")
	})
	iBody := idx(func(s ast.Stmt) bool { return pi.nodeText(s) == "n, err := io.ReadFull(r, b[:length])" })
	if iHdr < 0 || iLen < iHdr || iBody < iLen {
		u.fail("recvPacket: header read / length / body read not found in this order (%s)", r.pos)
		return r
	}
	firstUse := iBody
	if iAlloc >= 0 && iAlloc < firstUse {
		firstUse = iAlloc
	}
	// any other use of `length` between iLen and firstUse must be one of the two checks
	for i := iLen + 1; i < firstUse; i++ {
		is, ok := stmts[i].(*ast.IfStmt)
		if !ok || is.Init != nil || is.Else != nil {
			u.fail("recvPacket: unrecognised statement between length and body at %s", pi.pos(stmts[i]))
			continue
		}
		be, ok := is.Cond.(*ast.BinaryExpr)
		if !ok || !isIdent(be.X, "length") {
			u.fail("recvPacket: unrecognised condition at %s: %s", pi.pos(is), pi.nodeText(is.Cond))
			continue
		}
		last := ""
		if n := len(is.Body.List); n > 0 {
			last = pi.nodeText(is.Body.List[n-1])
		}
		v, okv := pi.exprInt(be.Y)
		switch {
		case okv && (be.Op == token.GTR || be.Op == token.GEQ) && last == "return 0, nil, errLongPacket":
			if r.longCheck {
				u.fail("recvPacket: second long-packet check at %s", pi.pos(is))
			}
			r.longCheck = true
			r.maxLen = v
			if be.Op == token.GEQ { // length >= C  ==  length > C-1
				r.maxLen = v - 1
			}
		case okv && v == 0 && be.Op == token.EQL && last == "return 0, nil, errShortPacket":
			r.zeroCheck = true
		default:
			u.fail("recvPacket: unrecognised length check at %s: %s", pi.pos(is), pi.nodeText(is))
		}
	}
	if !r.longCheck {
		if v, ok := pi.constInt("maxMsgLength"); ok {
			r.maxLen = v
		}
	}
	// body read: error returned, payload only on success
	okErr, okPayload, okRet := false, false, false
	for i := iBody + 1; i < len(stmts); i++ {
		txt := pi.nodeText(stmts[i])
		if is, ok := stmts[i].(*ast.IfStmt); ok && pi.nodeText(is.Cond) == "err != nil" && is.Init == nil && !okPayload {
			all := true
			nret := 0
			ast.Inspect(is.Body, func(n ast.Node) bool {
				if rs, ok := n.(*ast.ReturnStmt); ok {
					nret++
					if len(rs.Results) != 3 || pi.nodeText(rs.Results[0]) != "0" || pi.nodeText(rs.Results[1]) != "nil" || isIdent(rs.Results[2], "nil") {
						all = false
					}
				}
				return true
			})
			_, lastIsRet := is.Body.List[len(is.Body.List)-1].(*ast.ReturnStmt)
			okErr = all && nret > 0 && lastIsRet
		}
		if txt == "typ, payload := fxp(b[0]), b[1:n]" && okErr {
			okPayload = true
		}
		if txt == "return typ, payload, nil" && okPayload && i == len(stmts)-1 {
			okRet = true
		}
	}
	r.readsFull = okErr && okPayload && okRet
	// sendPacket: the prefix counts everything after itself (closed statement matcher, see extractSend)
	r.sendLenOK = c.extractSend().lenOK
	return r
}

// ---- sendPacket ----

// sendFacts: what the closed statement-sequence matcher read off sendPacket (packet.go), marshalPacket and the
// conn.sendPacket wrapper (conn.go).
type sendFacts struct {
	pos, connPos, marshalPos string
	total                    bool     // every successfully marshalled packet is handed to w.Write, whole, header first
	lenOK                    bool     // length := len(header)+len(payload)-4 and PutUint32(header[:4], uint32(length)) recognised
	marshalOK                bool     // marshalPacket = m.marshalPacket() / m.MarshalBinary(), nothing else
	connDelegates            bool     // conn.sendPacket = [lock;] return sendPacket(c, m), and it is the servers' sender
	shape                    []string // normalised statements of sendPacket, locals renamed to w, m, header, payload, err, length
}

// canonical statements of the one accepted shape (debug statements may stand anywhere after the marshal error check)
const (
	sendStMarshal    = "header, payload, err := marshalPacket(m)"
	sendStMarshalErr = "if err != nil { return <error> }"
	sendStLength     = "length := len(header) + len(payload) - 4"
	sendStPrefix     = "binary.BigEndian.PutUint32(header[:4], uint32(length))"
	sendStWriteHdr   = "if _, err := w.Write(header); err != nil { return <error> }"
	sendStWritePl    = "if len(payload) > 0 { if _, err := w.Write(payload); err != nil { return <error> } }"
	sendStWritePlU   = "if _, err := w.Write(payload); err != nil { return <error> }"
	sendStReturnNil  = "return nil"
	sendStDebug      = "debug"
)

// sendDebugOnly: s is `debug(args)` with call-free arguments (conversions and len allowed), or an if/else-if chain
// over package-level boolean constants whose branches are such statements. It cannot leave the function.
func (c *codecX) sendDebugOnly(s ast.Stmt) bool {
	pi := c.x.root
	pureArgs := func(call *ast.CallExpr) bool {
		ok := true
		for _, a := range call.Args {
			ast.Inspect(a, func(n ast.Node) bool {
				switch t := n.(type) {
				case *ast.CallExpr:
					if tv, found := pi.info.Types[t.Fun]; found && tv.IsType() {
						return true
					}
					if isIdent(t.Fun, "len") {
						return true
					}
					ok = false
				case *ast.FuncLit:
					ok = false
				case *ast.UnaryExpr:
					if t.Op == token.ARROW {
						ok = false
					}
				}
				return ok
			})
		}
		return ok
	}
	var block func(list []ast.Stmt) bool
	var one func(s ast.Stmt) bool
	block = func(list []ast.Stmt) bool {
		for _, s := range list {
			if !one(s) {
				return false
			}
		}
		return true
	}
	one = func(s ast.Stmt) bool {
		switch t := s.(type) {
		case *ast.EmptyStmt:
			return true
		case *ast.ExprStmt:
			call, ok := t.X.(*ast.CallExpr)
			return ok && isIdent(call.Fun, "debug") && pureArgs(call)
		case *ast.IfStmt:
			id, ok := t.Cond.(*ast.Ident)
			if !ok || t.Init != nil {
				return false
			}
			if _, isConst := pi.info.Uses[id].(*types.Const); !isConst || pi.info.Uses[id].Parent() != pi.pkg.Scope() {
				return false
			}
			if !block(t.Body.List) {
				return false
			}
			switch e := t.Else.(type) {
			case nil:
				return true
			case *ast.BlockStmt:
				return block(e.List)
			case *ast.IfStmt:
				return one(e)
			}
		}
		return false
	}
	if _, empty := s.(*ast.EmptyStmt); empty {
		return false
	}
	return one(s)
}

// sendErrReturn: body is the single statement `return X` with X not nil and mentioning the error variable e.
func sendErrReturn(body *ast.BlockStmt, e string) bool {
	if body == nil || len(body.List) != 1 {
		return false
	}
	rs, ok := body.List[0].(*ast.ReturnStmt)
	if !ok || len(rs.Results) != 1 || isIdent(rs.Results[0], "nil") {
		return false
	}
	mentions := false
	ast.Inspect(rs.Results[0], func(n ast.Node) bool {
		if id, ok := n.(*ast.Ident); ok && id.Name == e {
			mentions = true
		}
		return true
	})
	return mentions
}

// sendWriteOf: s is `if _, E := W.Write(X); E != nil { return <error mentioning E> }` -> X.
func (c *codecX) sendWriteOf(s ast.Stmt, w string) (string, bool) {
	pi := c.x.root
	is, ok := s.(*ast.IfStmt)
	if !ok || is.Init == nil || is.Else != nil {
		return "", false
	}
	as, ok := is.Init.(*ast.AssignStmt)
	if !ok || as.Tok != token.DEFINE || len(as.Lhs) != 2 || len(as.Rhs) != 1 || !isIdent(as.Lhs[0], "_") {
		return "", false
	}
	eid, ok := as.Lhs[1].(*ast.Ident)
	if !ok || eid.Name == "_" {
		return "", false
	}
	call, ok := as.Rhs[0].(*ast.CallExpr)
	if !ok || len(call.Args) != 1 || pi.nodeText(call.Fun) != w+".Write" {
		return "", false
	}
	arg, ok := call.Args[0].(*ast.Ident)
	if !ok {
		return "", false
	}
	if pi.nodeText(is.Cond) != eid.Name+" != nil" || !sendErrReturn(is.Body, eid.Name) {
		return "", false
	}
	return arg.Name, true
}

// sendLeaves: can s leave the function or the enclosing statement list (return, branch, panic, os.Exit, goto)?
func sendLeaves(pi *pkgInfo, s ast.Stmt) bool {
	leaves := false
	ast.Inspect(s, func(n ast.Node) bool {
		switch t := n.(type) {
		case *ast.ReturnStmt, *ast.BranchStmt:
			leaves = true
		case *ast.CallExpr:
			if f := pi.nodeText(t.Fun); f == "panic" || f == "os.Exit" || f == "runtime.Goexit" {
				leaves = true
			}
		}
		return true
	})
	return leaves
}

func (c *codecX) extractSend() *sendFacts {
	if c.send != nil {
		return c.send
	}
	pi, u := c.x.root, c.u
	r := &sendFacts{}
	c.send = r
	c.extractMarshalPacket(r)
	c.extractConnSend(r)
	fd := pi.funcDecl("sendPacket")
	if fd == nil || fd.Body == nil {
		u.fail("sendPacket not found")
		return r
	}
	r.pos = pi.pos(fd)
	// signature: (W io.Writer, M encoding.BinaryMarshaler) error
	var pnames, ptypes []string
	for _, f := range fd.Type.Params.List {
		for _, n := range f.Names {
			pnames = append(pnames, n.Name)
			ptypes = append(ptypes, pi.nodeText(f.Type))
		}
	}
	if len(pnames) != 2 || ptypes[0] != "io.Writer" || ptypes[1] != "encoding.BinaryMarshaler" ||
		fd.Type.Results == nil || len(fd.Type.Results.List) != 1 || len(fd.Type.Results.List[0].Names) != 0 ||
		pi.nodeText(fd.Type.Results.List[0].Type) != "error" {
		u.fail("sendPacket: signature is not (w io.Writer, m encoding.BinaryMarshaler) error (%s)", r.pos)
		return r
	}
	W, M := pnames[0], pnames[1]
	var H, P, E, L string // header, payload, err, length as named in the source
	var toks []string     // the non-debug statements, classified
	var nodes []ast.Stmt
	sawLen, sawPrefix := false, false
	for _, s := range fd.Body.List {
		if _, empty := s.(*ast.EmptyStmt); empty {
			continue
		}
		tok := ""
		txt := pi.nodeText(s)
		switch t := s.(type) {
		case *ast.AssignStmt:
			if t.Tok == token.DEFINE && len(t.Lhs) == 3 && len(t.Rhs) == 1 && H == "" {
				a, ok1 := t.Lhs[0].(*ast.Ident)
				b, ok2 := t.Lhs[1].(*ast.Ident)
				e, ok3 := t.Lhs[2].(*ast.Ident)
				if ok1 && ok2 && ok3 && a.Name != "_" && b.Name != "_" && e.Name != "_" && a.Name != b.Name &&
					pi.nodeText(t.Rhs[0]) == "marshalPacket("+M+")" {
					H, P, E = a.Name, b.Name, e.Name
					tok = sendStMarshal
				}
			}
			if tok == "" && t.Tok == token.DEFINE && len(t.Lhs) == 1 && len(t.Rhs) == 1 && H != "" && L == "" {
				if l, ok := t.Lhs[0].(*ast.Ident); ok && l.Name != "_" {
					rhs := pi.nodeText(t.Rhs[0])
					if rhs == "len("+H+") + len("+P+") - 4" || rhs == "len("+P+") + len("+H+") - 4" {
						L = l.Name
						tok = sendStLength
						sawLen = true
					}
				}
			}
		case *ast.ExprStmt:
			if H != "" && L != "" && txt == "binary.BigEndian.PutUint32("+H+"[:4], uint32("+L+"))" {
				tok = sendStPrefix
				sawPrefix = true
			}
		case *ast.ReturnStmt:
			if txt == "return nil" {
				tok = sendStReturnNil
			}
		case *ast.IfStmt:
			switch {
			case E != "" && t.Init == nil && t.Else == nil && pi.nodeText(t.Cond) == E+" != nil" && sendErrReturn(t.Body, E):
				tok = sendStMarshalErr
			case H != "":
				if x, ok := c.sendWriteOf(t, W); ok && x == H {
					tok = sendStWriteHdr
				} else if ok && x == P {
					tok = sendStWritePlU
				} else if t.Init == nil && t.Else == nil && len(t.Body.List) == 1 &&
					(pi.nodeText(t.Cond) == "len("+P+") > 0" || pi.nodeText(t.Cond) == "len("+P+") != 0") {
					if x, ok := c.sendWriteOf(t.Body.List[0], W); ok && x == P {
						tok = sendStWritePl
					}
				}
			}
		}
		if tok == "" && c.sendDebugOnly(s) {
			r.shape = append(r.shape, sendStDebug)
			continue
		}
		if tok == "" {
			tok = "other: " + txt
		}
		toks = append(toks, tok)
		nodes = append(nodes, s)
		r.shape = append(r.shape, tok)
	}
	r.lenOK = sawLen && sawPrefix
	want := []string{sendStMarshal, sendStMarshalErr, sendStLength, sendStPrefix, sendStWriteHdr, sendStWritePl, sendStReturnNil}
	match := len(toks) == len(want)
	for i := 0; match && i < len(want); i++ {
		if toks[i] != want[i] && !(want[i] == sendStWritePl && toks[i] == sendStWritePlU) {
			match = false
		}
	}
	// the debug statements must stand after the marshal error check (they read header/payload)
	if match {
		seen := 0
		for _, t := range r.shape {
			if t == sendStDebug && seen < 2 {
				match = false
				u.fail("sendPacket: debug statement before the marshal error check (%s)", r.pos)
			}
			if t != sendStDebug {
				seen++
			}
		}
	}
	if !match {
		reported := false
		for i, t := range toks {
			if strings.HasPrefix(t, "other: ") {
				reported = true
				if strings.Contains(t, W+".Write(") {
					u.fail("sendPacket: a write that is not `if _, err := w.Write(header|payload); err != nil { return <error> }` at %s: %s", pi.pos(nodes[i]), strings.TrimPrefix(t, "other: "))
				} else if sendLeaves(pi, nodes[i]) {
					u.fail("sendPacket: a statement other than the marshal/write error checks can leave the function, so a marshalled packet may never be written, at %s: %s", pi.pos(nodes[i]), strings.TrimPrefix(t, "other: "))
				} else {
					u.fail("sendPacket: unrecognised statement at %s: %s", pi.pos(nodes[i]), strings.TrimPrefix(t, "other: "))
				}
			}
		}
		if !reported {
			u.fail("sendPacket: statements are not, in this order, marshal; error check; length; PutUint32 prefix; write header; write payload; return nil (%s): %q", r.pos, toks)
		}
	}
	if !r.lenOK && match {
		match = false
	}
	r.total = match && r.marshalOK
	return r
}

// extractMarshalPacket: marshalPacket(M) is
//
//	if X, OK := M.(packetMarshaler); OK { return X.marshalPacket() }
//	RH, RE = M.MarshalBinary()
//	return
//
// with named results (RH, RP, RE): every error it reports is the marshaller's.
func (c *codecX) extractMarshalPacket(r *sendFacts) {
	pi, u := c.x.root, c.u
	fd := pi.funcDecl("marshalPacket")
	if fd == nil || fd.Body == nil {
		u.fail("marshalPacket not found")
		return
	}
	r.marshalPos = pi.pos(fd)
	bad := func() {
		u.fail("marshalPacket: body is not `if x, ok := m.(packetMarshaler); ok { return x.marshalPacket() }; header, err = m.MarshalBinary(); return` (%s)", r.marshalPos)
	}
	var pn, rn []string
	for _, f := range fd.Type.Params.List {
		for _, n := range f.Names {
			pn = append(pn, n.Name)
		}
	}
	if fd.Type.Results != nil {
		for _, f := range fd.Type.Results.List {
			for _, n := range f.Names {
				rn = append(rn, n.Name)
			}
		}
	}
	var stmts []ast.Stmt
	for _, s := range fd.Body.List {
		if _, empty := s.(*ast.EmptyStmt); !empty {
			stmts = append(stmts, s)
		}
	}
	if len(pn) != 1 || len(rn) != 3 || len(stmts) != 3 {
		bad()
		return
	}
	M := pn[0]
	is, ok := stmts[0].(*ast.IfStmt)
	if !ok || is.Init == nil || is.Else != nil {
		bad()
		return
	}
	as, ok := is.Init.(*ast.AssignStmt)
	if !ok || len(as.Lhs) != 2 {
		bad()
		return
	}
	X, OK := pi.nodeText(as.Lhs[0]), pi.nodeText(as.Lhs[1])
	if pi.nodeText(is) != fmt.Sprintf("if %s, %s := %s.(packetMarshaler); %s { return %s.marshalPacket() }", X, OK, M, OK, X) ||
		pi.nodeText(stmts[1]) != fmt.Sprintf("%s, %s = %s.MarshalBinary()", rn[0], rn[2], M) ||
		pi.nodeText(stmts[2]) != "return" {
		bad()
		return
	}
	r.marshalOK = true
}

// extractConnSend: conn.sendPacket is `[R.Lock(); defer R.Unlock();] return sendPacket(R, M)`, conn declares no Write of
// its own (the writer is the embedded io.WriteCloser), and the sender handed to every newPktMgr call resolves its
// sendPacket method to conn.sendPacket.
func (c *codecX) extractConnSend(r *sendFacts) {
	pi, u := c.x.root, c.u
	fd := pi.funcDecl("conn.sendPacket")
	if fd == nil || fd.Body == nil {
		u.fail("conn.sendPacket not found")
		return
	}
	r.connPos = pi.pos(fd)
	R := recvVar(fd)
	var pn []string
	for _, f := range fd.Type.Params.List {
		for _, n := range f.Names {
			pn = append(pn, n.Name)
		}
	}
	var texts []string
	for _, s := range fd.Body.List {
		if _, empty := s.(*ast.EmptyStmt); !empty {
			texts = append(texts, pi.nodeText(s))
		}
	}
	ok := false
	if R != "" && len(pn) == 1 {
		ret := "return sendPacket(" + R + ", " + pn[0] + ")"
		switch {
		case len(texts) == 1 && texts[0] == ret:
			ok = true
		case len(texts) == 3 && texts[0] == R+".Lock()" && texts[1] == "defer "+R+".Unlock()" && texts[2] == ret:
			ok = true
		}
	}
	if !ok {
		u.fail("conn.sendPacket: body is not `[c.Lock(); defer c.Unlock();] return sendPacket(c, m)` (%s): %q", r.connPos, texts)
	}
	for _, t := range pi.methodsNamed("Write") {
		if t == "conn" {
			ok = false
			u.fail("conn declares its own Write method: sendPacket(c, m) no longer writes to the embedded io.WriteCloser (%s)", r.connPos)
		}
	}
	// the pipeline's sender
	ncalls := 0
	for _, f := range pi.files {
		ast.Inspect(f, func(n ast.Node) bool {
			call, isCall := n.(*ast.CallExpr)
			if !isCall || !isIdent(call.Fun, "newPktMgr") || len(call.Args) < 1 {
				return true
			}
			ncalls++
			tv, found := pi.info.Types[call.Args[0]]
			if !found || tv.Type == nil {
				ok = false
				u.fail("newPktMgr: sender of unknown type at %s", pi.pos(call))
				return true
			}
			obj, _, _ := types.LookupFieldOrMethod(tv.Type, true, pi.pkg, "sendPacket")
			fn, isFn := obj.(*types.Func)
			recvT := ""
			if isFn {
				if sig, isSig := fn.Type().(*types.Signature); isSig && sig.Recv() != nil {
					recvT = types.TypeString(sig.Recv().Type(), func(*types.Package) string { return "" })
				}
			}
			if recvT != "*conn" && recvT != "conn" {
				ok = false
				u.fail("newPktMgr: the sender's sendPacket is %q, not conn.sendPacket, at %s", recvT, pi.pos(call))
			}
			return true
		})
	}
	if ncalls == 0 {
		ok = false
		u.fail("no newPktMgr(sender) call found: cannot tie packetManager.sender to conn.sendPacket")
	}
	r.connDelegates = ok
}

// ---- kinds ----

var kindOfMainMap = map[string]string{
	"sshFxInitPacket": "Init", "sshFxVersionPacket": "Version", "sshFxpOpenPacket": "Open", "sshFxpClosePacket": "Close",
	"sshFxpReadPacket": "Read", "sshFxpWritePacket": "Write", "sshFxpLstatPacket": "Lstat", "sshFxpFstatPacket": "Fstat",
	"sshFxpSetstatPacket": "Setstat", "sshFxpFsetstatPacket": "Fsetstat", "sshFxpOpendirPacket": "Opendir",
	"sshFxpReaddirPacket": "Readdir", "sshFxpRemovePacket": "Remove", "sshFxpMkdirPacket": "Mkdir", "sshFxpRmdirPacket": "Rmdir",
	"sshFxpRealpathPacket": "Realpath", "sshFxpStatPacket": "Stat", "sshFxpRenamePacket": "Rename",
	"sshFxpReadlinkPacket": "Readlink", "sshFxpSymlinkPacket": "Symlink", "sshFxpStatusPacket": "Status",
	"sshFxpHandlePacket": "Handle", "sshFxpDataPacket": "Data", "sshFxpNamePacket": "Name", "sshFxpStatResponse": "Attrs",
	"StatVFS": "VFS", "sshFxpStatvfsPacket": "ExtStatVFS", "sshFxpPosixRenamePacket": "ExtPosixRename",
	"sshFxpHardlinkPacket": "ExtHardlink", "sshFxpFsyncPacket": "ExtFsync",
	"sshFxpExtendedPacketStatVFS": "ExtStatVFS", "sshFxpExtendedPacketPosixRename": "ExtPosixRename",
	"sshFxpExtendedPacketHardlink": "ExtHardlink", "sshFxpExtendedPacket": "Extended",
}

var kindOfFxMap = map[string]string{
	"InitPacket": "Init", "VersionPacket": "Version", "OpenPacket": "Open", "ClosePacket": "Close", "ReadPacket": "Read",
	"WritePacket": "Write", "LStatPacket": "Lstat", "FStatPacket": "Fstat", "SetstatPacket": "Setstat",
	"FSetstatPacket": "Fsetstat", "OpenDirPacket": "Opendir", "ReadDirPacket": "Readdir", "RemovePacket": "Remove",
	"MkdirPacket": "Mkdir", "RmdirPacket": "Rmdir", "RealPathPacket": "Realpath", "StatPacket": "Stat",
	"RenamePacket": "Rename", "ReadLinkPacket": "Readlink", "SymlinkPacket": "Symlink", "StatusPacket": "Status",
	"HandlePacket": "Handle", "DataPacket": "Data", "NamePacket": "Name", "AttrsPacket": "Attrs",
	"StatVFSExtendedPacket": "ExtStatVFS", "FStatVFSExtendedPacket": "ExtFstatVFS",
	"POSIXRenameExtendedPacket": "ExtPosixRename", "HardlinkExtendedPacket": "ExtHardlink",
	"FSyncExtendedPacket": "ExtFsync", "StatVFSExtendedReplyPacket": "VFS",
}

// ---- emission ----

func fmtFields(fs []cfield) string {
	var parts []string
	for _, f := range fs {
		parts = append(parts, fmt.Sprintf("⟨%s, %s, %s⟩", f.kind, leanStr(f.name), leanBool(f.safe)))
	}
	return "[" + strings.Join(parts, ", ") + "]"
}

func sortRows(rows []crow, byTyp bool) {
	sort.SliceStable(rows, func(i, j int) bool {
		if byTyp && rows[i].typ != rows[j].typ {
			return rows[i].typ < rows[j].typ
		}
		return rows[i].name < rows[j].name
	})
}

func (c *codecX) emitMarshal(name string, rows []crow, src string) {
	sortRows(rows, true)
	c.u.pf("-- source: %s\n", src)
	c.u.pf("def %s : List (String × Nat × List FieldD) := [", name)
	for i, r := range rows {
		if i > 0 {
			c.u.pf(",")
		}
		c.u.pf("\n  -- %s\n  (%s, %d, %s)", r.pos, leanStr(r.name), r.typ, fmtFields(r.fields))
	}
	c.u.pf("]\n\n")
}

func (c *codecX) emitUnmarshal(name string, rows []crow, src string) {
	sortRows(rows, false)
	c.u.pf("-- source: %s\n", src)
	c.u.pf("def %s : List (String × List FieldD) := [", name)
	for i, r := range rows {
		if i > 0 {
			c.u.pf(",")
		}
		c.u.pf("\n  -- %s\n  (%s, %s)", r.pos, leanStr(r.name), fmtFields(r.fields))
	}
	c.u.pf("]\n\n")
}

func (c *codecX) emitKinds(name string, m map[string]string, tables ...[]crow) {
	seen := map[string]bool{}
	var names []string
	for _, t := range tables {
		for _, r := range t {
			if !seen[r.name] {
				seen[r.name] = true
				names = append(names, r.name)
			}
		}
	}
	sort.Strings(names)
	var parts []string
	for _, n := range names {
		k, ok := m[n]
		if !ok {
			c.u.fail("%s: packet struct %s has no logical kind (new packet type?)", name, n)
			continue
		}
		parts = append(parts, fmt.Sprintf("(%s, %s)", leanStr(n), leanStr(k)))
	}
	c.u.pf("def %s : List (String × String) := [%s]\n", name, strings.Join(parts, ", "))
}

func extractCodecTables(x *extractor) {
	u := x.newUnit("CodecTables")
	c := &codecX{x: x, u: u}
	u.pf("import Sftp.Model.Codec\nnamespace Sftp.G\nopen Sftp.Codec\n\n")

	c.extractMainMarshal()
	c.extractMainUnmarshal()
	c.extractFx()

	c.emitMarshal("mainMarshal", c.mainMarshal, "packet.go, server.go: MarshalBinary / marshalPacket; fields after the type byte")
	c.emitUnmarshal("mainUnmarshal", c.mainUnmarshal, "packet.go: UnmarshalBinary (server-side request decoders and DATA); fields after the type byte")
	c.emitMarshal("fxMarshal", c.fxMarshal, "internal/encoding/ssh/filexfer[/openssh]: MarshalPacket / MarshalBinary")
	c.emitUnmarshal("fxUnmarshal", c.fxUnmarshal, "internal/encoding/ssh/filexfer[/openssh]: UnmarshalPacketBody / UnmarshalBinary (request id first where RequestPacket consumes it)")

	c.emitKinds("kindOfMain", kindOfMainMap, c.mainMarshal, c.mainUnmarshal)
	c.emitKinds("kindOfFx", kindOfFxMap, c.fxMarshal, c.fxUnmarshal)
	u.pf("\n")

	u.pf("-- sshFxpDataPacket.MarshalBinary is the in-place variant (not append(header, payload...)); its marshalPacket is tabulated\n")
	u.pf("def dataMarshalBinaryIrregular : Bool := %s\n", leanBool(c.dataIrregular))
	u.pf("-- sshFxpExtendedPacket.UnmarshalBinary re-decodes the ORIGINAL bytes with the specific packet\n")
	u.pf("def extDispatchOnOriginal : Bool := %s\n", leanBool(c.extDispatchOnOriginal))
	var prims []string
	for n := range c.mainSafe {
		prims = append(prims, n)
	}
	sort.Strings(prims)
	var pp []string
	for _, n := range prims {
		pp = append(pp, fmt.Sprintf("(%s, %s)", leanStr(n), leanBool(c.mainSafe[n])))
	}
	u.pf("-- packet.go: the *Safe primitives check the length before slicing\n")
	u.pf("def mainSafePrims : List (String × Bool) := [%s]\n", strings.Join(pp, ", "))
	prims, pp = nil, nil
	for n := range c.fxSafe {
		prims = append(prims, n)
	}
	sort.Strings(prims)
	for _, n := range prims {
		pp = append(pp, fmt.Sprintf("(%s, %s)", leanStr(n), leanBool(c.fxSafe[n])))
	}
	u.pf("-- buffer.go: every ConsumeX checks b.Len() and sets ErrShortPacket\n")
	u.pf("def fxSafePrims : List (String × Bool) := [%s]\n", strings.Join(pp, ", "))
	sort.Strings(c.fxDropsErr)
	u.pf("-- filexfer decoders whose final return is not buf.Err (a short read is reported as success)\n")
	u.pf("def fxDropsStickyErr : List String := %s\n", leanStrList(c.fxDropsErr))
	sort.Slice(c.fxRegistry, func(i, j int) bool { return c.fxRegistry[i][0] < c.fxRegistry[j][0] })
	pp = nil
	for _, e := range c.fxRegistry {
		pp = append(pp, fmt.Sprintf("(%s, %s)", leanStr(e[0]), leanStr(e[1])))
	}
	u.pf("-- openssh: RegisterExtendedPacketType(name, new(T))\n")
	u.pf("def fxExtRegistry : List (String × String) := [%s]\n\n", strings.Join(pp, ", "))

	// count guards
	ufs := x.root.funcDecl("unmarshalFileStat")
	extG, extK := c.countGuard(x.root, "unmarshalFileStat", ufs, "[]StatExtended")
	if extG && extK != 8 {
		u.fail("unmarshalFileStat: count guard divides by %d, the model by 8", extK)
		extG = false
	}
	fxa := x.fx.funcDecl("Attributes.XXX_UnmarshalByFlags")
	fxE, fxEK := c.countGuard(x.fx, "Attributes.XXX_UnmarshalByFlags", fxa, "[]ExtendedAttribute")
	fxn := x.fx.funcDecl("NamePacket.UnmarshalPacketBody")
	fxN, fxNK := c.countGuard(x.fx, "NamePacket.UnmarshalPacketBody", fxn, "[]*NameEntry")
	if fxE && fxEK != 8 {
		u.fail("Attributes.XXX_UnmarshalByFlags: count guard divides by %d, the model by 8", fxEK)
		fxE = false
	}
	if fxN && fxNK != 12 {
		u.fail("NamePacket.UnmarshalPacketBody: count guard divides by %d, the model by 12", fxNK)
		fxN = false
	}
	if fxE != fxN {
		u.fail("filexfer count guards differ (attributes=%v, names=%v): DecCfg.fxCountGuard cannot express that", fxE, fxN)
	}
	if ufs != nil {
		u.pf("-- source: %s unmarshalFileStat: `if count > uint32(len(b)/8) {… errShortPacket}` before make([]StatExtended, count)\n", x.root.pos(ufs))
	}
	if fxa != nil && fxn != nil {
		u.pf("-- source: %s Attributes.XXX_UnmarshalByFlags, %s NamePacket.UnmarshalPacketBody: count guard before make\n", x.fx.pos(fxa), x.fx.pos(fxn))
	}
	u.pf("def fxExtCountGuard : Bool := %s\n", leanBool(fxE))
	u.pf("def fxNameCountGuard : Bool := %s\n", leanBool(fxN))
	u.pf("def decCfgMain : DecCfg := ⟨%s, %s, false⟩\n", leanBool(extG), leanBool(fxE && fxN))
	u.pf("def decCfgFx : DecCfg := ⟨%s, %s, true⟩\n\n", leanBool(extG), leanBool(fxE && fxN))

	// framing
	r := c.extractRecv()
	u.pf("-- source: %s recvPacket\n", r.pos)
	u.pf("def recvLongCheck : Bool := %s\n", leanBool(r.longCheck))
	u.pf("def recvZeroCheck : Bool := %s\n", leanBool(r.zeroCheck))
	u.pf("def recvMaxLen : Nat := %d\n", r.maxLen)
	u.pf("def recvReadsFull : Bool := %s\n", leanBool(r.readsFull))
	u.pf("-- sendPacket: prefix = len(header) + len(payload) - 4\n")
	u.pf("def sendLenExcludesPrefix : Bool := %s\n", leanBool(r.sendLenOK))
	sf := c.extractSend()
	u.pf("-- source: %s sendPacket, %s marshalPacket: closed statement sequence\n", sf.pos, sf.marshalPos)
	u.pf("--   marshal; if err != nil {return}; length; [debug]; PutUint32 prefix; write header; write payload; return nil\n")
	u.pf("-- with no other statement: every successfully marshalled packet is handed to w.Write, header first, whole;\n")
	u.pf("-- sendPacket reports an error only if the marshaller or the writer did\n")
	u.pf("def sendPacketTotal : Bool := %s\n", leanBool(sf.total))
	u.pf("def marshalPacketDelegates : Bool := %s\n", leanBool(sf.marshalOK))
	u.pf("-- the statements of sendPacket, locals renamed to w, m, header, payload, err, length; error values as <error>\n")
	u.pf("def sendPacketShape : List String := %s\n", leanStrList(sf.shape))
	u.pf("-- source: %s conn.sendPacket = [Lock; defer Unlock;] return sendPacket(c, m); conn has no Write of its own;\n", sf.connPos)
	u.pf("-- every newPktMgr(sender) call passes a sender whose sendPacket is conn.sendPacket\n")
	u.pf("def connSendPacketDelegates : Bool := %s\n", leanBool(sf.connDelegates))
	c.emitFxRecv()
	u.pf("\nend Sftp.G\n")
}
