package main

// Unit DispatchCfg: the nine source facts of Sftp/Model/Dispatch.lean (`DispatchCfg`) for the four concurrent File
// transfer paths of client.go, read off the AST of
//
//	(*File).readAt, (*File).writeAtConcurrent, (*File).readFromWithConcurrency, (*File).WriteTo.
//
// The unit recognises ONE skeleton (from the `cancel := make(chan struct{})` statement on; what precedes it
// is the sequential branch and is not looked at, except that it must not start goroutines):
//
//	channel declarations `X := make(chan T)`, `var wg sync.WaitGroup`, local type declarations, inert statements
//	producer   `go func() { [defer close(W)]; <defines>; for [cond] { <prepare>; f.c.dispatchRequest(res, &P{…Offset…Len…});
//	              select { case W <- work: [case <-cancel: return|break|{}] }; <advance> } }()`
//	           (or, for the io.Reader source, `for { n, err := io.ReadFull(r, b); if n > 0 { …core… }; if err != nil { …; return } }`)
//	workers    `wg.Add(N); for i := 0; i < N; i++ { go func() { [defer wg.Done()]; for x := range W { s := <-x.res; …; <report> } }() }`
//	fold       <report> = `if err != nil { E <- T{…} }`;  `go func() { [wg.Wait();] close(E) }()`;
//	           reducer `for e := range E { …; select { case <-cancel: default: close(cancel) } }`
//	chain      <report> = `select { case x.cur <- ww: case <-cancel: }`;  `defer func() { close(cancel); [wg.Wait()] }()`;
//	           reducer `cur := Q; for { p, ok := <-cur; …; if p.err != nil { …return }; …; cur = p.next }`
//
// Bracketed parts and the position of dispatchRequest / of the advance statements are the recognised VARIANTS: they
// decide the bits.  Everything else that does not fit is a failure (`u.fail`) and the neutral all-false
// configuration is emitted for that function, so that the Lean instantiation theorem fails.
// Every use of cancel / W / E / wg / Q inside the function must be one of the recognised sites (closed world).

import (
	"bytes"
	"fmt"
	"go/ast"
	"go/printer"
	"go/token"
	"go/types"
	"sort"
	"strings"
)

func init() { extractors = append(extractors, extractDispatchCfg) }

type dcBits struct {
	chain, bounded, sendFirst, inOrder, cancelArm, cancelArmReturns, noOtherExit, cancelByReducerOnly, awaitWorkers bool
}

func (b dcBits) lean() string {
	return fmt.Sprintf("{ chain := %s, bounded := %s, sendFirst := %s, inOrder := %s, cancelArm := %s,\n    cancelArmReturns := %s, noOtherExit := %s, cancelByReducerOnly := %s, awaitWorkers := %s }",
		leanBool(b.chain), leanBool(b.bounded), leanBool(b.sendFirst), leanBool(b.inOrder), leanBool(b.cancelArm),
		leanBool(b.cancelArmReturns), leanBool(b.noOtherExit), leanBool(b.cancelByReducerOnly), leanBool(b.awaitWorkers))
}

var dcTargets = []struct{ fn, lean string }{
	{"File.readAt", "dispReadAt"},
	{"File.writeAtConcurrent", "dispWriteAt"},
	{"File.readFromWithConcurrency", "dispReadFrom"},
	{"File.WriteTo", "dispWriteTo"},
}

func extractDispatchCfg(x *extractor) {
	u := x.newUnit("DispatchCfg")
	pi := x.root
	u.pf("import Sftp.Model.Dispatch\nnamespace Sftp.G\n\n")
	known := map[string]bool{}
	for _, t := range dcTargets {
		known[t.fn] = true
		fd := pi.funcDecl(t.fn)
		var bits dcBits
		if fd == nil || fd.Body == nil {
			u.fail("DispatchCfg: %s: function not found (client.go)", t.fn)
			u.pf("-- source: client.go (%s NOT FOUND)\n", t.fn)
		} else {
			a := &dcAn{pi: pi, fn: t.fn, fd: fd, chans: map[types.Object]*dcChan{}, marked: map[*ast.Ident]bool{}}
			var note string
			bits, note = a.run(u)
			u.pf("-- source: %s (%s%s)\n", pi.pos(fd), t.fn, note)
		}
		u.pf("def %s : Sftp.Dispatch.DispatchCfg :=\n  %s\n\n", t.lean, bits.lean())
	}
	// no fifth concurrent path: a File method that starts goroutines and is not one of the four is not modelled
	for i, f := range pi.files {
		for _, d := range f.Decls {
			fd, ok := d.(*ast.FuncDecl)
			if !ok || fd.Body == nil || fd.Recv == nil || len(fd.Recv.List) != 1 || recvName(fd.Recv.List[0].Type) != "File" {
				continue
			}
			if known["File."+fd.Name.Name] {
				continue
			}
			ast.Inspect(fd.Body, func(n ast.Node) bool {
				if g, ok := n.(*ast.GoStmt); ok {
					u.fail("DispatchCfg: File.%s: goroutine started in a File method that is not one of the four modelled paths (%s:%d)",
						fd.Name.Name, pi.names[i], pi.fset.Position(g.Pos()).Line)
				}
				return true
			})
		}
	}
	u.pf("end Sftp.G\n")
}

// ---- helpers ----

// dcText prints a node without position information (layout- and comment-independent).
func dcText(n ast.Node) string {
	var buf bytes.Buffer
	printer.Fprint(&buf, token.NewFileSet(), n)
	return strings.Join(strings.Fields(buf.String()), " ")
}

type dcAbort struct{ msg string }

type dcChan struct {
	decl     ast.Stmt
	buffered bool
	elem     string
}

type dcAn struct {
	pi *pkgInfo
	fn string
	fd *ast.FuncDecl

	chans  map[types.Object]*dcChan // top-level `X := make(chan T[, n])`
	marked map[*ast.Ident]bool      // recognised uses of plumbing objects

	cancel, work, errc, wg, queue types.Object
	cancelCloses                  []*ast.CallExpr // every close(cancel) in the function

	// producer
	prodClosesWork bool
	prodCloseArg   *ast.Ident
	prodTailSend   *ast.Ident // ReadFrom: `errCh <- rwErr{off, err}` in the `if err != nil` tail
	prodInitQ      map[types.Object]types.Object
	resObj         types.Object
	workLit        *ast.CompositeLit
	chainCur       types.Object // producer variable advanced by `cur = next`
	chainNext      types.Object
	bits           dcBits
}

func (a *dcAn) bad(n ast.Node, format string, args ...any) {
	where := "client.go"
	if n != nil {
		where = a.pi.pos(n)
	}
	panic(dcAbort{fmt.Sprintf("DispatchCfg: %s: %s (%s)", a.fn, fmt.Sprintf(format, args...), where)})
}

func (a *dcAn) obj(e ast.Expr) types.Object {
	id, ok := e.(*ast.Ident)
	if !ok {
		return nil
	}
	if o := a.pi.info.Uses[id]; o != nil {
		return o
	}
	return a.pi.info.Defs[id]
}

func (a *dcAn) is(e ast.Expr, o types.Object) bool { return o != nil && a.obj(e) == o }

func (a *dcAn) mark(e ast.Expr) {
	if id, ok := e.(*ast.Ident); ok {
		a.marked[id] = true
	}
}

// closeArg: `close(X)` → X
func (a *dcAn) closeArg(e ast.Expr) ast.Expr {
	c, ok := e.(*ast.CallExpr)
	if !ok || len(c.Args) != 1 {
		return nil
	}
	id, ok := c.Fun.(*ast.Ident)
	if !ok || id.Name != "close" {
		return nil
	}
	if o := a.pi.info.Uses[id]; o != nil {
		if _, isB := o.(*types.Builtin); !isB {
			return nil
		}
	}
	return c.Args[0]
}

func (a *dcAn) closeStmtArg(s ast.Stmt) ast.Expr {
	if es, ok := s.(*ast.ExprStmt); ok {
		return a.closeArg(es.X)
	}
	return nil
}

// methodOn: `<recv>.<name>(args)` with recv an identifier for object o
func (a *dcAn) methodOn(e ast.Expr, o types.Object, name string) *ast.CallExpr {
	c, ok := e.(*ast.CallExpr)
	if !ok {
		return nil
	}
	sel, ok := c.Fun.(*ast.SelectorExpr)
	if !ok || sel.Sel.Name != name || !a.is(sel.X, o) {
		return nil
	}
	return c
}

func (a *dcAn) stmtMethodOn(s ast.Stmt, o types.Object, name string) *ast.CallExpr {
	if es, ok := s.(*ast.ExprStmt); ok {
		return a.methodOn(es.X, o, name)
	}
	return nil
}

// chanDecl: `X := make(chan T[, n])`
func (a *dcAn) chanDecl(s ast.Stmt) (*ast.Ident, *ast.CallExpr) {
	as, ok := s.(*ast.AssignStmt)
	if !ok || as.Tok != token.DEFINE || len(as.Lhs) != 1 || len(as.Rhs) != 1 {
		return nil, nil
	}
	id, ok := as.Lhs[0].(*ast.Ident)
	if !ok {
		return nil, nil
	}
	c, ok := as.Rhs[0].(*ast.CallExpr)
	if !ok || len(c.Args) < 1 {
		return nil, nil
	}
	if f, ok := c.Fun.(*ast.Ident); !ok || f.Name != "make" {
		return nil, nil
	}
	if _, ok := c.Args[0].(*ast.ChanType); !ok {
		return nil, nil
	}
	return id, c
}

// recvFrom: `<-X` → X
func recvFrom(e ast.Expr) ast.Expr {
	if u, ok := e.(*ast.UnaryExpr); ok && u.Op == token.ARROW {
		return u.X
	}
	return nil
}

// goLit: `go func() {…}()` / `defer func() {…}()` → the literal
func callLit(c *ast.CallExpr) *ast.FuncLit {
	lit, ok := c.Fun.(*ast.FuncLit)
	if !ok || len(c.Args) != 0 || (lit.Type.Params != nil && len(lit.Type.Params.List) != 0) {
		return nil
	}
	return lit
}

// noControl: the node contains none of the listed control / concurrency constructs.
func (a *dcAn) noControl(n ast.Node, what string, allowReturn bool) {
	ast.Inspect(n, func(m ast.Node) bool {
		switch t := m.(type) {
		case *ast.GoStmt, *ast.DeferStmt, *ast.SelectStmt, *ast.SendStmt, *ast.FuncLit, *ast.BranchStmt, *ast.LabeledStmt:
			a.bad(m, "%s: unexpected %s", what, dcKind(m))
		case *ast.ReturnStmt:
			if !allowReturn {
				a.bad(m, "%s: unexpected return", what)
			}
		case *ast.UnaryExpr:
			if t.Op == token.ARROW {
				a.bad(m, "%s: unexpected channel receive", what)
			}
		case *ast.RangeStmt:
			if tv, ok := a.pi.info.Types[t.X]; ok && tv.Type != nil {
				if _, isChan := tv.Type.Underlying().(*types.Chan); isChan {
					a.bad(m, "%s: unexpected range over a channel", what)
				}
			}
		case *ast.CallExpr:
			// an extra close(cancel) is a recognised variant (it is counted in cancelCloses: cancelByReducerOnly = false)
			if id, ok := t.Fun.(*ast.Ident); ok && (id.Name == "close" || id.Name == "panic") && !a.isCancelClose(t) {
				a.bad(m, "%s: unexpected %s(…)", what, id.Name)
			}
		}
		return true
	})
}

func (a *dcAn) isCancelClose(c *ast.CallExpr) bool {
	arg := a.closeArg(c)
	return arg != nil && a.is(arg, a.cancel)
}

func dcKind(n ast.Node) string {
	switch t := n.(type) {
	case *ast.GoStmt:
		return "go statement"
	case *ast.DeferStmt:
		return "defer"
	case *ast.SelectStmt:
		return "select"
	case *ast.SendStmt:
		return "channel send"
	case *ast.FuncLit:
		return "function literal"
	case *ast.BranchStmt:
		return t.Tok.String()
	case *ast.LabeledStmt:
		return "label"
	}
	return fmt.Sprintf("%T", n)
}

// ---- the function skeleton ----

func (a *dcAn) run(u *unit) (bits dcBits, note string) {
	defer func() {
		if r := recover(); r != nil {
			if ab, ok := r.(dcAbort); ok {
				u.fail("%s", ab.msg)
			} else {
				u.fail("DispatchCfg: %s: internal error while matching shapes: %v (%s)", a.fn, r, a.pi.pos(a.fd))
			}
			bits, note = dcBits{}, "; NOT RECOGNISED, neutral value"
		}
	}()
	return a.analyse()
}

func (a *dcAn) analyse() (dcBits, string) {
	body := a.fd.Body.List
	info := a.pi.info

	// the concurrent branch starts at the unique top-level `cancel := make(chan struct{})`
	cancelIdx := -1
	for i, s := range body {
		if id, mk := a.chanDecl(s); id != nil {
			o := info.Defs[id]
			ch := &dcChan{decl: s, buffered: len(mk.Args) > 1, elem: dcText(mk.Args[0].(*ast.ChanType).Value)}
			a.chans[o] = ch
			if ch.elem == "struct{}" {
				if cancelIdx >= 0 {
					a.bad(s, "second `make(chan struct{})`: cannot tell which one is cancel")
				}
				cancelIdx, a.cancel = i, o
				if ch.buffered {
					a.bad(s, "cancel channel is buffered")
				}
			} else if cancelIdx < 0 {
				a.bad(s, "channel declared before the cancel channel")
			}
		}
	}
	if cancelIdx < 0 {
		a.bad(nil, "no top-level `cancel := make(chan struct{})`")
	}
	for _, s := range body[:cancelIdx] {
		ast.Inspect(s, func(n ast.Node) bool {
			if _, ok := n.(*ast.GoStmt); ok {
				a.bad(n, "goroutine started before the cancel channel exists")
			}
			return true
		})
	}

	// every close(cancel) of the function
	ast.Inspect(a.fd.Body, func(n ast.Node) bool {
		if c, ok := n.(*ast.CallExpr); ok {
			if arg := a.closeArg(c); arg != nil && a.is(arg, a.cancel) {
				a.cancelCloses = append(a.cancelCloses, c)
				a.mark(arg)
			}
		}
		return true
	})

	// classify the top-level statements
	var (
		prodIdx, addIdx, workersIdx, closerIdx, deferIdx, redIdx = -1, -1, -1, -1, -1, -1
		prodLit, workerLit, closerLit, deferLit                  *ast.FuncLit
		addArg, loopBound                                        string
		rest                                                     []int
	)
	for i := cancelIdx + 1; i < len(body); i++ {
		s := body[i]
		switch t := s.(type) {
		case *ast.DeclStmt:
			gd := t.Decl.(*ast.GenDecl)
			if gd.Tok == token.TYPE {
				continue
			}
			if gd.Tok == token.VAR && len(gd.Specs) == 1 {
				vs := gd.Specs[0].(*ast.ValueSpec)
				if len(vs.Names) == 1 && vs.Type != nil && dcText(vs.Type) == "sync.WaitGroup" && len(vs.Values) == 0 {
					if a.wg != nil {
						a.bad(s, "second WaitGroup")
					}
					a.wg = info.Defs[vs.Names[0]]
					continue
				}
			}
			rest = append(rest, i)
		case *ast.AssignStmt:
			if id, _ := a.chanDecl(s); id != nil {
				continue
			}
			rest = append(rest, i)
		case *ast.GoStmt:
			lit := callLit(t.Call)
			if lit == nil {
				a.bad(s, "go statement is not `go func() {…}()`")
			}
			if a.hasDispatch(lit) {
				if prodIdx >= 0 {
					a.bad(s, "second goroutine calling dispatchRequest")
				}
				prodIdx, prodLit = i, lit
			} else {
				if closerIdx >= 0 {
					a.bad(s, "unrecognised goroutine (neither the producer nor the single `wg.Wait(); close(errCh)` closer)")
				}
				closerIdx, closerLit = i, lit
			}
		case *ast.DeferStmt:
			lit := callLit(t.Call)
			if lit == nil || deferIdx >= 0 {
				a.bad(s, "unrecognised defer in the concurrent branch")
			}
			deferIdx, deferLit = i, lit
		case *ast.ExprStmt:
			if a.wg != nil {
				if c := a.methodOn(t.X, a.wg, "Add"); c != nil {
					if addIdx >= 0 || len(c.Args) != 1 {
						a.bad(s, "unrecognised wg.Add")
					}
					addIdx, addArg = i, dcText(c.Args[0])
					a.mark(c.Fun.(*ast.SelectorExpr).X)
					continue
				}
			}
			rest = append(rest, i)
		case *ast.ForStmt:
			if lit, bound := a.workerLoop(t); lit != nil {
				if workersIdx >= 0 {
					a.bad(s, "second worker loop")
				}
				workersIdx, workerLit, loopBound = i, lit, bound
				continue
			}
			if t.Init == nil && t.Cond == nil && t.Post == nil && redIdx < 0 {
				redIdx = i
				continue
			}
			a.bad(s, "unrecognised for statement in the concurrent branch")
		case *ast.RangeStmt:
			if o := a.obj(t.X); o != nil && a.chans[o] != nil && redIdx < 0 {
				redIdx = i
				continue
			}
			a.bad(s, "unrecognised range statement in the concurrent branch")
		default:
			rest = append(rest, i)
		}
	}
	if prodIdx < 0 {
		a.bad(nil, "no producer goroutine (`go func() {… f.c.dispatchRequest(…) …}()`)")
	}
	if workersIdx < 0 || a.wg == nil || addIdx < 0 {
		a.bad(nil, "worker start `var wg sync.WaitGroup; wg.Add(N); for i := 0; i < N; i++ { go func() {…}() }` not found")
	}
	if addIdx+1 != workersIdx || addArg != loopBound {
		a.bad(body[addIdx], "wg.Add(%s) does not immediately precede the worker loop over %s", addArg, loopBound)
	}
	if redIdx < 0 {
		a.bad(nil, "no reduce loop")
	}
	if redIdx < prodIdx || redIdx < workersIdx {
		a.bad(body[redIdx], "reduce loop precedes the start of the producer / workers")
	}

	// ---- producer ----
	a.producer(prodLit)

	// ---- workers ----
	workerChain, workerDone, workerCurField, workerNextKey := a.worker(workerLit)

	// ---- reducer, cancel, await ----
	var closeSite *ast.CallExpr
	awaitTail := false
	switch red := body[redIdx].(type) {
	case *ast.RangeStmt:
		if workerChain {
			a.bad(red, "errCh-fold reducer with chain workers")
		}
		a.bits.chain = false
		closeSite = a.foldReducer(red)
		if deferIdx >= 0 {
			a.bad(body[deferIdx], "unexpected deferred function in an errCh-fold path")
		}
		if closerIdx < 0 {
			a.bad(red, "the reduce loop ranges over %s but no goroutine closes it", a.errc.Name())
		}
		if closerIdx < addIdx || closerIdx > redIdx {
			a.bad(body[closerIdx], "the `wg.Wait(); close(errCh)` goroutine is not between wg.Add and the reduce loop")
		}
		awaitTail = a.closer(closerLit)
	case *ast.ForStmt:
		if !workerChain {
			a.bad(red, "chain reducer with errCh workers")
		}
		a.bits.chain = true
		if closerIdx >= 0 {
			a.bad(body[closerIdx], "unrecognised goroutine in a chain path")
		}
		if redIdx != len(body)-1 {
			a.bad(body[redIdx+1], "statements after the chain reduce loop")
		}
		if redIdx == 0 {
			a.bad(red, "chain reduce loop without cursor")
		}
		a.chainReducer(body[redIdx-1], red, workerCurField, workerNextKey)
		rest = dcRemove(rest, redIdx-1)
		if deferIdx < 0 {
			a.bad(red, "chain path without `defer func() { close(cancel); wg.Wait() }()`")
		}
		if deferIdx > prodIdx || deferIdx > addIdx {
			a.bad(body[deferIdx], "the deferred close(cancel)/wg.Wait() is registered after goroutines were started")
		}
		closeSite, awaitTail = a.chainDefer(deferLit)
	}
	if len(a.cancelCloses) == 0 || closeSite == nil {
		a.bad(nil, "cancel is never closed by the reducer")
	}
	a.bits.cancelByReducerOnly = len(a.cancelCloses) == 1 && a.cancelCloses[0] == closeSite
	a.bits.awaitWorkers = a.prodClosesWork && workerDone && awaitTail

	// ---- remaining top-level statements are inert; returns only after a fold reduce loop ----
	for _, i := range rest {
		a.noControl(body[i], "concurrent branch", !a.bits.chain && i > redIdx)
	}

	// ---- channel sanity ----
	for _, o := range []types.Object{a.work, a.errc, a.queue} {
		if o != nil && a.chans[o].buffered {
			a.bad(a.chans[o].decl, "channel %s is buffered (the model's hand-out / report steps are rendezvous)", o.Name())
		}
	}

	// ---- closed world: every use of a plumbing object is one of the recognised sites ----
	plumb := map[types.Object]string{}
	for o := range a.chans {
		plumb[o] = "channel"
	}
	plumb[a.wg] = "WaitGroup"
	var stray []*ast.Ident
	for id, o := range info.Uses {
		if _, ok := plumb[o]; ok && !a.marked[id] && id.Pos() >= a.fd.Body.Pos() && id.End() <= a.fd.Body.End() {
			stray = append(stray, id)
		}
	}
	if len(stray) > 0 {
		sort.Slice(stray, func(i, j int) bool { return stray[i].Pos() < stray[j].Pos() })
		a.bad(stray[0], "unrecognised use of %s %s", plumb[info.Uses[stray[0]]], stray[0].Name)
	}
	return a.bits, fmt.Sprintf("; producer %s, reducer %s", a.pi.pos(prodLit), a.pi.pos(body[redIdx]))
}

func dcRemove(l []int, x int) []int {
	var out []int
	for _, v := range l {
		if v != x {
			out = append(out, v)
		}
	}
	return out
}

func (a *dcAn) isDispatch(e ast.Expr) *ast.CallExpr {
	c, ok := e.(*ast.CallExpr)
	if !ok {
		return nil
	}
	sel, ok := c.Fun.(*ast.SelectorExpr)
	if !ok || sel.Sel.Name != "dispatchRequest" {
		return nil
	}
	return c
}

func (a *dcAn) hasDispatch(n ast.Node) bool {
	found := false
	ast.Inspect(n, func(m ast.Node) bool {
		if e, ok := m.(ast.Expr); ok && a.isDispatch(e) != nil {
			found = true
		}
		return !found
	})
	return found
}

// workerLoop: `for i := 0; i < N; i++ { go func() {…}() }` → the literal and the text of N
func (a *dcAn) workerLoop(f *ast.ForStmt) (*ast.FuncLit, string) {
	if f.Init == nil || f.Cond == nil || f.Post == nil || len(f.Body.List) != 1 {
		return nil, ""
	}
	g, ok := f.Body.List[0].(*ast.GoStmt)
	if !ok {
		return nil, ""
	}
	lit := callLit(g.Call)
	init, ok1 := f.Init.(*ast.AssignStmt)
	cond, ok2 := f.Cond.(*ast.BinaryExpr)
	post, ok3 := f.Post.(*ast.IncDecStmt)
	if lit == nil || !ok1 || !ok2 || !ok3 || init.Tok != token.DEFINE || len(init.Lhs) != 1 || dcText(init.Rhs[0]) != "0" ||
		cond.Op != token.LSS || post.Tok != token.INC {
		a.bad(f, "worker loop is not `for i := 0; i < N; i++ { go func() {…}() }`")
	}
	iv := a.obj(init.Lhs[0])
	if !a.is(cond.X, iv) || !a.is(post.X, iv) {
		a.bad(f, "worker loop is not `for i := 0; i < N; i++ { go func() {…}() }`")
	}
	return lit, dcText(cond.Y)
}

// ---- producer ----

func (a *dcAn) producer(lit *ast.FuncLit) {
	st := lit.Body.List
	if len(st) == 0 {
		a.bad(lit, "empty producer")
	}
	// nested literals / go / defer (other than a leading `defer close(W)`)
	ast.Inspect(lit.Body, func(n ast.Node) bool {
		switch n.(type) {
		case *ast.FuncLit, *ast.GoStmt, *ast.LabeledStmt:
			a.bad(n, "producer: unexpected %s", dcKind(n))
		case *ast.DeferStmt:
			if n != st[0] {
				a.bad(n, "producer: defer that is not the first statement")
			}
		}
		return true
	})
	i := 0
	if d, ok := st[0].(*ast.DeferStmt); ok {
		arg := a.closeArg(d.Call)
		id, isId := arg.(*ast.Ident)
		if arg == nil || !isId {
			a.bad(d, "producer: the deferred call is not `close(<work channel>)`")
		}
		a.prodClosesWork, a.prodCloseArg = true, id
		i = 1
	}
	loop, ok := st[len(st)-1].(*ast.ForStmt)
	if !ok || loop.Init != nil || loop.Post != nil {
		a.bad(st[len(st)-1], "producer does not end with its `for [cond] {…}` loop")
	}
	a.prodInitQ = map[types.Object]types.Object{}
	for _, s := range st[i : len(st)-1] {
		switch t := s.(type) {
		case *ast.AssignStmt:
			if t.Tok != token.DEFINE {
				a.bad(s, "producer prologue: assignment to an outer variable")
			}
			if len(t.Lhs) == 1 && len(t.Rhs) == 1 {
				if q := a.obj(t.Rhs[0]); q != nil && a.chans[q] != nil {
					a.prodInitQ[a.obj(t.Lhs[0])] = q
					a.mark(t.Rhs[0])
				}
			}
		case *ast.DeclStmt:
		default:
			a.bad(s, "producer prologue: unrecognised statement")
		}
		a.noControl(s, "producer prologue", false)
	}

	// the block holding dispatch + select: the loop body, or the `if n > 0` block of the io.ReadFull shape
	core := loop.Body
	var tailRet *ast.ReturnStmt
	readFull := false
	if loop.Cond == nil {
		if c, r := a.readFullShape(loop.Body); c != nil {
			core, tailRet, readFull = c, r, true
		}
	}

	// dispatch and hand-out positions
	dispIdx, handIdx := -1, -1
	var sel *ast.SelectStmt
	var plainSend *ast.SendStmt
	for k, s := range core.List {
		switch t := s.(type) {
		case *ast.ExprStmt:
			if a.isDispatch(t.X) != nil {
				if dispIdx >= 0 {
					a.bad(s, "producer: second dispatchRequest")
				}
				dispIdx = k
			}
		case *ast.SelectStmt:
			if handIdx >= 0 {
				a.bad(s, "producer: second hand-out")
			}
			handIdx, sel = k, t
		case *ast.SendStmt:
			if handIdx >= 0 {
				a.bad(s, "producer: second hand-out")
			}
			handIdx, plainSend = k, t
		}
	}
	nDisp, nSel, nSend := 0, 0, 0
	ast.Inspect(lit.Body, func(n ast.Node) bool {
		switch t := n.(type) {
		case *ast.CallExpr:
			if a.isDispatch(t) != nil {
				nDisp++
			}
		case *ast.SelectStmt:
			nSel++
		case *ast.SendStmt:
			nSend++
		}
		return true
	})
	wantSend := 1
	if a.prodTailSend != nil {
		wantSend = 2
	}
	if dispIdx < 0 || nDisp != 1 {
		a.bad(loop, "producer: dispatchRequest is not a single statement of the loop block")
	}
	if handIdx < 0 || nSend != wantSend || (sel != nil && nSel != 1) || (sel == nil && nSel != 0) {
		a.bad(loop, "producer: the hand-out (`select { case W <- work: … }` or `W <- work`) is not a single statement of the loop block")
	}
	disp := a.isDispatch(core.List[dispIdx].(*ast.ExprStmt).X)
	recv := a.fd.Recv.List[0].Names
	if len(recv) != 1 || dcText(disp.Fun) != recv[0].Name+".c.dispatchRequest" || len(disp.Args) != 2 {
		a.bad(disp, "producer: the dispatch is not `%s.c.dispatchRequest(res, &packet{…})`", "<recv>")
	}
	a.resObj = a.obj(disp.Args[0])
	if a.resObj == nil || a.resObj.Pos() < core.Pos() || a.resObj.Pos() > core.End() {
		a.bad(disp, "producer: the result channel passed to dispatchRequest is not a variable of this iteration")
	}
	a.bits.sendFirst = dispIdx < handIdx

	// the request's Offset and Len/Length
	var offExpr, lenExpr ast.Expr
	if ue, ok := disp.Args[1].(*ast.UnaryExpr); ok && ue.Op == token.AND {
		if cl, ok := ue.X.(*ast.CompositeLit); ok {
			for _, el := range cl.Elts {
				if kv, ok := el.(*ast.KeyValueExpr); ok {
					switch dcText(kv.Key) {
					case "Offset":
						offExpr = kv.Value
					case "Len", "Length":
						lenExpr = kv.Value
					}
				}
			}
		}
	}
	if offExpr == nil || lenExpr == nil {
		a.bad(disp, "producer: the request literal has no Offset / Len(gth) field")
	}
	chunkLen := ""
	if c, ok := lenExpr.(*ast.CallExpr); ok && len(c.Args) == 1 && dcText(c.Fun) == "uint32" {
		chunkLen = dcText(c.Args[0])
	} else {
		a.bad(lenExpr, "producer: the request length is not `uint32(<chunk length>)`")
	}

	// the hand-out
	var sendStmt *ast.SendStmt
	var cancelRet ast.Stmt // the recognised `return` / `break` of the cancel arm
	if sel != nil {
		for _, cs := range sel.Body.List {
			cc := cs.(*ast.CommClause)
			switch c := cc.Comm.(type) {
			case *ast.SendStmt:
				if sendStmt != nil || len(cc.Body) != 0 {
					a.bad(cc, "producer select: unrecognised send arm")
				}
				sendStmt = c
			case *ast.ExprStmt:
				x := recvFrom(c.X)
				if x == nil || !a.is(x, a.cancel) || a.bits.cancelArm {
					a.bad(cc, "producer select: unrecognised receive arm")
				}
				a.mark(x)
				a.bits.cancelArm = true
				switch {
				case len(cc.Body) == 0:
					a.bits.cancelArmReturns = false
				case len(cc.Body) == 1:
					if r, ok := cc.Body[0].(*ast.ReturnStmt); ok && len(r.Results) == 0 {
						a.bits.cancelArmReturns, cancelRet = true, r
					} else if b, ok := cc.Body[0].(*ast.BranchStmt); ok && b.Tok == token.BREAK && b.Label == nil {
						a.bits.cancelArmReturns, cancelRet = false, b // leaves the select, falls through to the advance
					} else {
						a.bad(cc.Body[0], "producer select: the cancel arm is neither `return` nor empty/`break`")
					}
				default:
					a.bad(cc, "producer select: the cancel arm is neither `return` nor empty/`break`")
				}
			default:
				a.bad(cc, "producer select: unrecognised arm (default / assignment receive)")
			}
		}
		if sendStmt == nil {
			a.bad(sel, "producer select: no `W <- work` arm")
		}
	} else {
		sendStmt = plainSend
	}
	a.work = a.obj(sendStmt.Chan)
	if a.work == nil || a.chans[a.work] == nil || a.work == a.cancel {
		a.bad(sendStmt, "producer: the hand-out does not send on a channel made in this function")
	}
	a.mark(sendStmt.Chan)
	if a.prodCloseArg != nil {
		if !a.is(a.prodCloseArg, a.work) {
			a.bad(a.prodCloseArg, "producer: `defer close(%s)` does not close the work channel %s", a.prodCloseArg.Name, a.work.Name())
		}
		a.mark(a.prodCloseArg)
	}
	// the work value carries the result channel
	switch v := sendStmt.Value.(type) {
	case *ast.CompositeLit:
		a.workLit = v
	case *ast.Ident:
		vo := a.obj(v)
		for _, s := range core.List[:handIdx] {
			if as, ok := s.(*ast.AssignStmt); ok && as.Tok == token.DEFINE && len(as.Lhs) == 1 && len(as.Rhs) == 1 && a.is(as.Lhs[0], vo) {
				if cl, ok := as.Rhs[0].(*ast.CompositeLit); ok {
					a.workLit = cl
				}
			}
		}
	}
	if a.workLit == nil {
		a.bad(sendStmt, "producer: the value handed out is not a struct literal of this iteration")
	}
	if a.litField(a.workLit, func(e ast.Expr) bool { return a.is(e, a.resObj) }) == "" {
		a.bad(a.workLit, "producer: the work item does not carry the result channel given to dispatchRequest")
	}

	// exits
	a.bits.noOtherExit = true
	ast.Inspect(loop.Body, func(n ast.Node) bool {
		switch t := n.(type) {
		case *ast.ReturnStmt:
			if ast.Stmt(t) != cancelRet && t != tailRet {
				a.bits.noOtherExit = false
			}
		case *ast.BranchStmt:
			if ast.Stmt(t) == cancelRet {
				return true
			}
			if t.Tok == token.BREAK && t.Label == nil {
				a.bits.noOtherExit = false
			} else {
				a.bad(t, "producer: unexpected %s", t.Tok)
			}
		case *ast.CallExpr:
			if id, ok := t.Fun.(*ast.Ident); ok && id.Name == "panic" {
				a.bits.noOtherExit = false
			}
		}
		return true
	})

	// loop-carried assignments
	type adv struct {
		stmt ast.Stmt
		kind string // "add", "slice", "link", "other"
	}
	carried := map[types.Object][]adv{}
	results := map[types.Object]bool{}
	if a.fd.Type.Results != nil {
		for _, f := range a.fd.Type.Results.List {
			for _, n := range f.Names {
				results[a.pi.info.Defs[n]] = true
			}
		}
	}
	topIdx := func(s ast.Stmt) int {
		for k, c := range core.List {
			if c == s {
				return k
			}
		}
		return -1
	}
	outer := func(o types.Object) bool { return o != nil && (o.Pos() < loop.Body.Pos() || o.Pos() > loop.Body.End()) }
	inOrder := true
	var counters []ast.Stmt
	ast.Inspect(loop.Body, func(n ast.Node) bool {
		var lhs []ast.Expr
		var stmt ast.Stmt
		switch t := n.(type) {
		case *ast.AssignStmt:
			if t.Tok == token.DEFINE {
				return true
			}
			lhs, stmt = t.Lhs, t
		case *ast.IncDecStmt:
			lhs, stmt = []ast.Expr{t.X}, t
		default:
			return true
		}
		for _, l := range lhs {
			id, ok := l.(*ast.Ident)
			if !ok {
				a.bad(stmt, "producer: assignment to something that is not a plain variable")
			}
			o := a.obj(id)
			if id.Name == "_" || !outer(o) {
				continue
			}
			as, isAssign := stmt.(*ast.AssignStmt)
			kind := "other"
			if isAssign && len(as.Lhs) == 1 && len(as.Rhs) == 1 {
				rhs := dcText(as.Rhs[0])
				switch {
				case as.Tok == token.ADD_ASSIGN && (rhs == chunkLen || rhs == "int64("+chunkLen+")"):
					kind = "add"
				case as.Tok == token.ASSIGN && rhs == id.Name+"["+chunkLen+":]":
					kind = "slice"
				case as.Tok == token.ASSIGN:
					if ro := a.obj(as.Rhs[0]); ro != nil && !outer(ro) && a.isFreshChan(core, ro) {
						kind = "link"
						a.chainCur, a.chainNext = o, ro
					}
				}
			}
			// the byte counter returned by ReadFrom: `read += int64(n)` on a named result, before the dispatch
			if kind == "add" && results[o] && !a.mentions(disp, o) && !a.mentions(a.workLit, o) {
				if k := topIdx(stmt); k < 0 || k > dispIdx || k > handIdx {
					a.bad(stmt, "producer: the result counter %s is not advanced before the dispatch", id.Name)
				}
				counters = append(counters, stmt)
				continue
			}
			carried[o] = append(carried[o], adv{stmt, kind})
		}
		return true
	})
	advanced := map[types.Object]string{}
	for o, l := range carried {
		if len(l) != 1 || l[0].kind == "other" || topIdx(l[0].stmt) <= handIdx {
			inOrder = false // advanced twice, by something else than one chunk, conditionally, or before the hand-out
			advanced[o] = "other"
			continue
		}
		advanced[o] = l[0].kind
	}
	// the request offset is derived from a variable advanced by `+= <chunk length>`
	offVars := a.closure(offExpr, loop.Body)
	offAdvances := false
	for o := range offVars {
		if k, ok := advanced[o]; ok {
			offAdvances = true
			if k != "add" {
				inOrder = false
			}
		}
	}
	if !offAdvances {
		a.bad(offExpr, "producer: the request offset does not depend on any variable the loop advances")
	}
	// statements of the core block: prepare …, dispatch, hand-out, advance … and nothing else
	for k, s := range core.List {
		if k == dispIdx || k == handIdx {
			continue
		}
		isAdv := false
		for _, l := range carried {
			for _, e := range l {
				if e.stmt == s {
					isAdv = true
				}
			}
		}
		for _, c := range counters {
			if c == s {
				isAdv = true
			}
		}
		if isAdv {
			continue
		}
		if k > handIdx {
			a.bad(s, "producer: unrecognised statement after the hand-out")
		}
		// prepare: defines / adjusts locals of this iteration; no channel operation (returns are `noOtherExit`'s business)
		ast.Inspect(s, func(n ast.Node) bool {
			switch t := n.(type) {
			case *ast.SendStmt, *ast.SelectStmt, *ast.RangeStmt, *ast.ForStmt:
				a.bad(n, "producer: unexpected %T before the hand-out", n)
			case *ast.UnaryExpr:
				if t.Op == token.ARROW {
					a.bad(n, "producer: channel receive before the hand-out")
				}
			case *ast.CallExpr:
				if a.closeArg(t) != nil && !a.isCancelClose(t) {
					a.bad(n, "producer: close(…) in the loop")
				}
			}
			return true
		})
	}

	// the loop condition
	switch {
	case readFull:
		a.bits.bounded = true
	case loop.Cond == nil:
		a.bits.bounded = false
	default:
		be, ok := loop.Cond.(*ast.BinaryExpr)
		okShape := false
		if ok {
			x, y := be.X, be.Y
			// len(S) > 0 with S advanced
			if c, isCall := x.(*ast.CallExpr); isCall && be.Op == token.GTR && dcText(c.Fun) == "len" && len(c.Args) == 1 && dcText(y) == "0" {
				if _, adv := advanced[a.obj(c.Args[0])]; adv {
					okShape = true
				}
			}
			// V < len(B) with V advanced and B not assigned in the loop
			if c, isCall := y.(*ast.CallExpr); isCall && be.Op == token.LSS && dcText(c.Fun) == "len" && len(c.Args) == 1 {
				_, advV := advanced[a.obj(x)]
				_, advB := advanced[a.obj(c.Args[0])]
				if advV && !advB && a.obj(c.Args[0]) != nil {
					okShape = true
				}
			}
		}
		if !okShape {
			a.bad(loop.Cond, "producer: loop condition `%s` is neither `len(S) > 0` nor `V < len(B)` over a variable the loop advances", dcText(loop.Cond))
		}
		a.bits.bounded = true
	}
	a.bits.inOrder = inOrder
	if !a.bits.cancelArm {
		a.bits.cancelArmReturns = false
	}
}

// isFreshChan: o is defined in the block as `o := make(chan T)` (unbuffered)
func (a *dcAn) isFreshChan(block *ast.BlockStmt, o types.Object) bool {
	for _, s := range block.List {
		if id, mk := a.chanDecl(s); id != nil && a.pi.info.Defs[id] == o && len(mk.Args) == 1 {
			return true
		}
	}
	return false
}

func (a *dcAn) mentions(n ast.Node, o types.Object) bool {
	found := false
	ast.Inspect(n, func(m ast.Node) bool {
		if id, ok := m.(*ast.Ident); ok && a.obj(id) == o {
			found = true
		}
		return !found
	})
	return found
}

// closure: the variables an expression depends on, through `v := e` definitions inside the block
func (a *dcAn) closure(e ast.Expr, block *ast.BlockStmt) map[types.Object]bool {
	defs := map[types.Object]ast.Expr{}
	ast.Inspect(block, func(n ast.Node) bool {
		if as, ok := n.(*ast.AssignStmt); ok && len(as.Lhs) == len(as.Rhs) {
			for i, l := range as.Lhs {
				if o := a.obj(l); o != nil && o.Pos() >= block.Pos() && o.Pos() <= block.End() {
					defs[o] = as.Rhs[i]
				}
			}
		}
		return true
	})
	out := map[types.Object]bool{}
	var visit func(ast.Expr)
	visit = func(x ast.Expr) {
		ast.Inspect(x, func(n ast.Node) bool {
			if id, ok := n.(*ast.Ident); ok {
				if o := a.obj(id); o != nil && !out[o] {
					if _, isVar := o.(*types.Var); isVar {
						out[o] = true
						if d, ok := defs[o]; ok {
							visit(d)
						}
					}
				}
			}
			return true
		})
	}
	visit(e)
	return out
}

// litField: the name of the struct field of a composite literal whose value satisfies pred ("" if none)
func (a *dcAn) litField(cl *ast.CompositeLit, pred func(ast.Expr) bool) string {
	for i, el := range cl.Elts {
		if kv, ok := el.(*ast.KeyValueExpr); ok {
			if pred(kv.Value) {
				return dcText(kv.Key)
			}
			continue
		}
		if pred(el) {
			if tv, ok := a.pi.info.Types[cl]; ok && tv.Type != nil {
				if st, ok := tv.Type.Underlying().(*types.Struct); ok && i < st.NumFields() {
					return st.Field(i).Name()
				}
			}
			return fmt.Sprintf("#%d", i)
		}
	}
	return ""
}

// readFullShape: `n, err := io.ReadFull(r, b); if n > 0 { core }; if err != nil { [if c { E <- T{…} }]; return }`
func (a *dcAn) readFullShape(body *ast.BlockStmt) (*ast.BlockStmt, *ast.ReturnStmt) {
	if len(body.List) == 0 {
		return nil, nil
	}
	as, ok := body.List[0].(*ast.AssignStmt)
	if !ok || as.Tok != token.DEFINE || len(as.Lhs) != 2 || len(as.Rhs) != 1 {
		return nil, nil
	}
	c, ok := as.Rhs[0].(*ast.CallExpr)
	if !ok || dcText(c.Fun) != "io.ReadFull" {
		return nil, nil
	}
	nv, ev := a.obj(as.Lhs[0]), a.obj(as.Lhs[1])
	if len(body.List) != 3 {
		a.bad(body, "producer: io.ReadFull loop is not `n, err := io.ReadFull(…); if n > 0 {…}; if err != nil {…; return}`")
	}
	i1, ok1 := body.List[1].(*ast.IfStmt)
	i2, ok2 := body.List[2].(*ast.IfStmt)
	if !ok1 || !ok2 || i1.Init != nil || i1.Else != nil || i2.Init != nil || i2.Else != nil {
		a.bad(body, "producer: io.ReadFull loop is not `n, err := io.ReadFull(…); if n > 0 {…}; if err != nil {…; return}`")
	}
	c1, ok1 := i1.Cond.(*ast.BinaryExpr)
	c2, ok2 := i2.Cond.(*ast.BinaryExpr)
	if !ok1 || !ok2 || c1.Op != token.GTR || !a.is(c1.X, nv) || dcText(c1.Y) != "0" ||
		c2.Op != token.NEQ || !a.is(c2.X, ev) || dcText(c2.Y) != "nil" {
		a.bad(body, "producer: io.ReadFull loop is not `n, err := io.ReadFull(…); if n > 0 {…}; if err != nil {…; return}`")
	}
	tail := i2.Body.List
	if len(tail) == 0 {
		a.bad(i2, "producer: the `if err != nil` block after io.ReadFull does not end with `return`")
	}
	ret, ok := tail[len(tail)-1].(*ast.ReturnStmt)
	if !ok || len(ret.Results) != 0 {
		a.bad(i2, "producer: the `if err != nil` block after io.ReadFull does not end with `return`")
	}
	switch len(tail) {
	case 1:
	case 2:
		// `if <not EOF> { errCh <- rwErr{off, err} }`: the io.Reader's own error, posted by the producer (outside the model)
		inner, ok := tail[0].(*ast.IfStmt)
		if !ok || inner.Init != nil || inner.Else != nil || len(inner.Body.List) != 1 {
			a.bad(tail[0], "producer: unrecognised statement in the `if err != nil` block after io.ReadFull")
		}
		snd, ok := inner.Body.List[0].(*ast.SendStmt)
		if !ok {
			a.bad(tail[0], "producer: unrecognised statement in the `if err != nil` block after io.ReadFull")
		}
		id, ok := snd.Chan.(*ast.Ident)
		if !ok {
			a.bad(snd, "producer: unrecognised send in the `if err != nil` block after io.ReadFull")
		}
		a.prodTailSend = id
	default:
		a.bad(i2, "producer: unrecognised statements in the `if err != nil` block after io.ReadFull")
	}
	return i1.Body, ret
}

// ---- workers ----

// worker: returns (chain?, has `defer wg.Done()`, chain: the work field sent on, the work field forwarded as `next`)
func (a *dcAn) worker(lit *ast.FuncLit) (chain, done bool, curField, nextField string) {
	st := lit.Body.List
	i := 0
	if len(st) > 0 {
		if d, ok := st[0].(*ast.DeferStmt); ok {
			c := a.methodOn(d.Call, a.wg, "Done")
			if c == nil || len(c.Args) != 0 {
				a.bad(d, "worker: the deferred call is not `wg.Done()`")
			}
			a.mark(c.Fun.(*ast.SelectorExpr).X)
			done, i = true, 1
		}
	}
	if len(st) != i+1 {
		a.bad(lit, "worker is not `[defer wg.Done()]; for x := range W {…}`")
	}
	rng, ok := st[i].(*ast.RangeStmt)
	if !ok || rng.Value != nil || rng.Key == nil || rng.Tok != token.DEFINE || !a.is(rng.X, a.work) {
		a.bad(st[i], "worker is not `[defer wg.Done()]; for x := range %s {…}`", a.work.Name())
	}
	a.mark(rng.X)
	xv := a.obj(rng.Key)
	// no way out of the range loop, nothing nested
	ast.Inspect(rng.Body, func(n ast.Node) bool {
		switch t := n.(type) {
		case *ast.ReturnStmt, *ast.BranchStmt, *ast.GoStmt, *ast.DeferStmt, *ast.FuncLit, *ast.LabeledStmt:
			a.bad(n, "worker: unexpected %s (a worker must drain the work channel)", dcKindR(n))
		case *ast.CallExpr:
			if id, ok := t.Fun.(*ast.Ident); ok && (id.Name == "panic" || id.Name == "close") && !a.isCancelClose(t) {
				a.bad(n, "worker: unexpected %s(…)", id.Name)
			}
		}
		return true
	})
	// exactly one receive: `s := <-x.res` as a statement of the range body, from the field carrying the result channel
	resField := a.litField(a.workLit, func(e ast.Expr) bool { return a.is(e, a.resObj) })
	nRecv, recvTop := 0, false
	for _, s := range rng.Body.List {
		if as, ok := s.(*ast.AssignStmt); ok && as.Tok == token.DEFINE && len(as.Lhs) == 1 && len(as.Rhs) == 1 {
			if x := recvFrom(as.Rhs[0]); x != nil {
				if se, ok := x.(*ast.SelectorExpr); ok && a.is(se.X, xv) && se.Sel.Name == resField {
					recvTop = true
				}
			}
		}
	}
	var sel *ast.SelectStmt
	var sends []*ast.SendStmt
	inSelect := map[ast.Node]bool{}
	ast.Inspect(rng.Body, func(n ast.Node) bool {
		switch t := n.(type) {
		case *ast.UnaryExpr:
			if t.Op == token.ARROW && !inSelect[t] {
				nRecv++
			}
		case *ast.SelectStmt:
			if sel != nil {
				a.bad(n, "worker: second select")
			}
			sel = t
			for _, cs := range t.Body.List {
				if es, ok := cs.(*ast.CommClause).Comm.(*ast.ExprStmt); ok {
					inSelect[es.X] = true
				}
			}
		case *ast.SendStmt:
			sends = append(sends, t)
		}
		return true
	})
	if nRecv != 1 || !recvTop {
		a.bad(rng, "worker: the result is not awaited by exactly one `s := <-%s.%s` statement", rng.Key.(*ast.Ident).Name, resField)
	}
	if len(sends) != 1 {
		a.bad(rng, "worker: %d channel sends (one report expected)", len(sends))
	}
	snd := sends[0]
	if sel == nil {
		// fold: `if err != nil { E <- T{…}; … }` as a statement of the range body
		var holder *ast.IfStmt
		for _, s := range rng.Body.List {
			if is, ok := s.(*ast.IfStmt); ok && is.Init == nil && is.Else == nil {
				for _, b := range is.Body.List {
					if b == ast.Stmt(snd) {
						holder = is
					}
				}
			}
		}
		if holder == nil {
			a.bad(snd, "worker: the report is not `if err != nil { errCh <- … }` in the range body")
		}
		c, ok := holder.Cond.(*ast.BinaryExpr)
		if !ok || c.Op != token.NEQ || dcText(c.Y) != "nil" || a.obj(c.X) == nil {
			a.bad(holder, "worker: the report is not guarded by `err != nil`")
		}
		a.errc = a.obj(snd.Chan)
		if a.errc == nil || a.chans[a.errc] == nil || a.errc == a.work || a.errc == a.cancel {
			a.bad(snd, "worker: the report is not sent on a channel made in this function")
		}
		a.mark(snd.Chan)
		if a.prodTailSend != nil {
			if !a.is(a.prodTailSend, a.errc) {
				a.bad(a.prodTailSend, "producer: the io.Reader error is not sent on the workers' error channel")
			}
			a.mark(a.prodTailSend)
		}
		return false, done, "", ""
	}
	// chain: the LAST statement of the range body is `select { case x.cur <- ww: case <-cancel: }`
	if a.prodTailSend != nil {
		a.bad(a.prodTailSend, "producer: error send in a chain path")
	}
	if len(rng.Body.List) == 0 || rng.Body.List[len(rng.Body.List)-1] != ast.Stmt(sel) || len(sel.Body.List) != 2 {
		a.bad(sel, "worker: the report select is not the last statement of the range body with exactly two arms")
	}
	sawSend, sawCancel := false, false
	for _, cs := range sel.Body.List {
		cc := cs.(*ast.CommClause)
		if len(cc.Body) != 0 {
			a.bad(cc, "worker: report select arm with a body")
		}
		switch c := cc.Comm.(type) {
		case *ast.SendStmt:
			se, ok := c.Chan.(*ast.SelectorExpr)
			if !ok || !a.is(se.X, xv) {
				a.bad(c, "worker: the report is not sent on a channel of the work item")
			}
			curField = se.Sel.Name
			var ww *ast.CompositeLit
			switch v := c.Value.(type) {
			case *ast.CompositeLit:
				ww = v
			case *ast.Ident:
				for _, s := range rng.Body.List {
					if as, ok := s.(*ast.AssignStmt); ok && as.Tok == token.DEFINE && len(as.Lhs) == 1 && len(as.Rhs) == 1 && a.is(as.Lhs[0], a.obj(v)) {
						if cl, ok := as.Rhs[0].(*ast.CompositeLit); ok {
							ww = cl
						}
					}
				}
			}
			if ww == nil {
				a.bad(c, "worker: the reported value is not a struct literal of this iteration")
			}
			// the field of the reported value that forwards the work item's `next` channel
			wn := a.litField(a.workLit, func(e ast.Expr) bool { return a.chainNext != nil && a.is(e, a.chainNext) })
			nextField = a.litField(ww, func(e ast.Expr) bool {
				se, ok := e.(*ast.SelectorExpr)
				return ok && a.is(se.X, xv) && se.Sel.Name == wn && wn != ""
			})
			if nextField == "" {
				a.bad(ww, "worker: the reported value does not forward the work item's next channel")
			}
			sawSend = true
		case *ast.ExprStmt:
			x := recvFrom(c.X)
			if x == nil || !a.is(x, a.cancel) {
				a.bad(cc, "worker: unrecognised receive arm in the report select")
			}
			a.mark(x)
			sawCancel = true
		default:
			a.bad(cc, "worker: unrecognised arm in the report select")
		}
	}
	if !sawSend || !sawCancel {
		a.bad(sel, "worker: the report select is not `select { case x.cur <- ww: case <-cancel: }`")
	}
	// the producer put its own cursor into that field and links cur = next
	wc := a.litField(a.workLit, func(e ast.Expr) bool { return a.chainCur != nil && a.is(e, a.chainCur) })
	if wc == "" || wc != curField {
		a.bad(sel, "worker: reports on work field %q, but the producer's chain cursor is in field %q", curField, wc)
	}
	return true, done, curField, nextField
}

func dcKindR(n ast.Node) string {
	if _, ok := n.(*ast.ReturnStmt); ok {
		return "return"
	}
	return dcKind(n)
}

// ---- fold: reducer and closer ----

// foldReducer: `for e := range E { …; select { case <-cancel: default: close(cancel) } }` → the close(cancel) call
func (a *dcAn) foldReducer(r *ast.RangeStmt) *ast.CallExpr {
	if a.errc == nil || !a.is(r.X, a.errc) {
		a.bad(r, "the reduce loop does not range over the workers' error channel")
	}
	if r.Value != nil || r.Key == nil {
		a.bad(r, "the reduce loop is not `for e := range errCh`")
	}
	a.mark(r.X)
	var site *ast.CallExpr
	for _, s := range r.Body.List {
		sel, ok := s.(*ast.SelectStmt)
		if !ok {
			a.noControl(s, "reduce loop", false)
			continue
		}
		if site != nil || len(sel.Body.List) != 2 {
			a.bad(sel, "reduce loop: unrecognised select")
		}
		okRecv, okDef := false, false
		for _, cs := range sel.Body.List {
			cc := cs.(*ast.CommClause)
			if cc.Comm == nil {
				if len(cc.Body) == 1 {
					if arg := a.closeStmtArg(cc.Body[0]); arg != nil && a.is(arg, a.cancel) {
						site = cc.Body[0].(*ast.ExprStmt).X.(*ast.CallExpr)
						okDef = true
					}
				}
				continue
			}
			if es, ok := cc.Comm.(*ast.ExprStmt); ok && len(cc.Body) == 0 {
				if x := recvFrom(es.X); x != nil && a.is(x, a.cancel) {
					a.mark(x)
					okRecv = true
				}
			}
		}
		if !okRecv || !okDef {
			a.bad(sel, "reduce loop: the select is not `select { case <-cancel: default: close(cancel) }`")
		}
	}
	if site == nil {
		a.bad(r, "reduce loop: no `select { case <-cancel: default: close(cancel) }`")
	}
	return site
}

// closer: `go func() { [wg.Wait();] close(E) }()` → does it wait?
func (a *dcAn) closer(lit *ast.FuncLit) bool {
	st := lit.Body.List
	waits := false
	if len(st) == 2 {
		c := a.stmtMethodOn(st[0], a.wg, "Wait")
		if c == nil || len(c.Args) != 0 {
			a.bad(st[0], "closer goroutine is not `wg.Wait(); close(errCh)`")
		}
		a.mark(c.Fun.(*ast.SelectorExpr).X)
		waits = true
		st = st[1:]
	}
	if len(st) != 1 {
		a.bad(lit, "closer goroutine is not `[wg.Wait();] close(errCh)`")
	}
	arg := a.closeStmtArg(st[0])
	if arg == nil || !a.is(arg, a.errc) {
		a.bad(st[0], "closer goroutine is not `[wg.Wait();] close(errCh)`")
	}
	a.mark(arg)
	return waits
}

// ---- chain: reducer and deferred function ----

// chainReducer: `cur := Q` then `for { p, ok := <-cur; …; if p.err != nil { … return }; …; cur = p.<next> }`
func (a *dcAn) chainReducer(init ast.Stmt, f *ast.ForStmt, curField, nextKey string) {
	as, ok := init.(*ast.AssignStmt)
	if !ok || as.Tok != token.DEFINE || len(as.Lhs) != 1 || len(as.Rhs) != 1 {
		a.bad(init, "chain reducer: the statement before the loop is not `cur := <first channel>`")
	}
	cur := a.obj(as.Lhs[0])
	q := a.obj(as.Rhs[0])
	if q == nil || a.chans[q] == nil || q == a.cancel || q == a.work {
		a.bad(init, "chain reducer: the cursor does not start at a channel made in this function")
	}
	a.queue = q
	a.mark(as.Rhs[0])
	if a.chainCur == nil || a.prodInitQ[a.chainCur] != q {
		a.bad(init, "chain: producer and reducer do not start from the same channel %s", q.Name())
	}
	st := f.Body.List
	if len(st) < 3 {
		a.bad(f, "chain reducer: loop too short")
	}
	// first: p[, ok] := <-cur
	first, ok := st[0].(*ast.AssignStmt)
	if !ok || first.Tok != token.DEFINE || len(first.Rhs) != 1 || recvFrom(first.Rhs[0]) == nil || !a.is(recvFrom(first.Rhs[0]), cur) {
		a.bad(st[0], "chain reducer: the loop does not start with `packet, ok := <-cur`")
	}
	pv := a.obj(first.Lhs[0])
	// last: cur = p.<nextKey>
	last, ok := st[len(st)-1].(*ast.AssignStmt)
	okLast := ok && last.Tok == token.ASSIGN && len(last.Lhs) == 1 && len(last.Rhs) == 1 && a.is(last.Lhs[0], cur)
	if okLast {
		se, isSel := last.Rhs[0].(*ast.SelectorExpr)
		okLast = isSel && a.is(se.X, pv) && se.Sel.Name == nextKey
	}
	if !okLast {
		a.bad(st[len(st)-1], "chain reducer: the loop does not end with `cur = packet.%s`", nextKey)
	}
	// in between: an `if p.err != nil { … return … }`; no break/continue/goto, no channel operations, cur untouched
	sawErr := false
	for _, s := range st[1 : len(st)-1] {
		a.noControl(s, "chain reducer", true)
		ast.Inspect(s, func(n ast.Node) bool {
			switch t := n.(type) {
			case *ast.AssignStmt:
				for _, l := range t.Lhs {
					if a.is(l, cur) {
						a.bad(t, "chain reducer: the cursor is assigned in the middle of the loop")
					}
				}
			}
			return true
		})
		if is, ok := s.(*ast.IfStmt); ok && is.Init == nil && is.Else == nil && len(is.Body.List) > 0 {
			if c, ok := is.Cond.(*ast.BinaryExpr); ok && c.Op == token.NEQ && dcText(c.Y) == "nil" {
				if se, ok := c.X.(*ast.SelectorExpr); ok && a.is(se.X, pv) && se.Sel.Name == "err" {
					if _, ok := is.Body.List[len(is.Body.List)-1].(*ast.ReturnStmt); ok {
						sawErr = true
					}
				}
			}
		}
	}
	if !sawErr {
		a.bad(f, "chain reducer: no `if packet.err != nil { …; return … }`")
	}
}

// chainDefer: `defer func() { close(cancel); [wg.Wait()] }()` → the close call, does it wait?
func (a *dcAn) chainDefer(lit *ast.FuncLit) (*ast.CallExpr, bool) {
	st := lit.Body.List
	if len(st) < 1 || len(st) > 2 {
		a.bad(lit, "deferred function is not `close(cancel); [wg.Wait()]`")
	}
	arg := a.closeStmtArg(st[0])
	if arg == nil || !a.is(arg, a.cancel) {
		a.bad(st[0], "deferred function does not start with close(cancel)")
	}
	site := st[0].(*ast.ExprStmt).X.(*ast.CallExpr)
	waits := false
	if len(st) == 2 {
		c := a.stmtMethodOn(st[1], a.wg, "Wait")
		if c == nil || len(c.Args) != 0 {
			a.bad(st[1], "deferred function is not `close(cancel); [wg.Wait()]`")
		}
		a.mark(c.Fun.(*ast.SelectorExpr).X)
		waits = true
	}
	return site, waits
}
