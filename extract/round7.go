package main

// Round-7 source shapes that a seventh round of seeded defects changed and that no extracted fact was tied to (or only by
// accident, through a neighbouring closed shape).  Three independent units (one Lean consumer each, each consumer imports
// only its own generated file):
//
//	AllocFreeSites        (Props/C18FreeSites)         allocator.go / server.go / request-server.go / conn.go: every call of
//	                                                   (*allocator).Free (only the deferred epilogue of the two Serve
//	                                                   functions, which return after wg.Wait()), every write to the fields
//	                                                   `used` / `available` with the class of its right-hand side, GetPage's
//	                                                   unconditional index-assignment into `used`.
//	ExtUnmarshalPurity    (Props/C19ExtPurity)         packet.go / packet-typing.go: makePacket and the methods of the
//	                                                   sshFxpExtendedPacket* types: package-level variables read / written
//	                                                   (go/types objects), callees; the static call closure of the decode
//	                                                   path writes no package-level variable.
//	FileHandleAtDispatch  (Props/C12HandleAtDispatch)  client.go: every mention of the field File.handle; the expression each
//	                                                   request packet's `Handle:` is given (the field itself, or a local
//	                                                   captured from it), in which kind of function literal, under which lock.
//
// Helpers are prefixed r7 (r4 / r5 / r6 helpers of round4.go … round6.go are reused); each unit is its own extractor (own
// panic isolation) and emits its file from values computed beforehand, so the generated Lean is well-typed also when the
// analysis fails.  All names emitted into namespace Sftp.G carry a unit-specific prefix (af, ep, hd).

import (
	"fmt"
	"go/ast"
	"go/token"
	"go/types"
	"sort"
	"strings"
)

func init() {
	extractors = append(extractors, extractAllocFreeSites, extractExtUnmarshalPurity, extractFileHandleAtDispatch)
}

// ---------------------------------------------------------------------------------------------------------------
// shared helpers

// r7Where: in which kind of function literal of the enclosing declaration n stands: "body" (none), "go-literal" (the
// innermost literal is the operand of a go statement), "defer-literal", "literal" (anything else: stored, passed on);
// lit is that innermost literal (nil for "body").
func r7Where(par map[ast.Node]ast.Node, n ast.Node) (string, *ast.FuncLit) {
	for p := par[n]; p != nil; p = par[p] {
		lit, ok := p.(*ast.FuncLit)
		if !ok {
			continue
		}
		if c, ok := par[lit].(*ast.CallExpr); ok && ast.Unparen(c.Fun) == ast.Expr(lit) {
			switch par[c].(type) {
			case *ast.GoStmt:
				return "go-literal", lit
			case *ast.DeferStmt:
				return "defer-literal", lit
			}
		}
		return "literal", lit
	}
	return "body", nil
}

// r7TopIndex: the index of the top-level statement of fd's body that contains n (-1 if none).
func r7TopIndex(fd *ast.FuncDecl, n ast.Node) int {
	for i, s := range fd.Body.List {
		if r4Within(s, n) {
			return i
		}
	}
	return -1
}

// r7Up climbs from n over parentheses and returns the first parent that is not a ParenExpr, and the child below it.
func r7Up(par map[ast.Node]ast.Node, n ast.Node) (parent, child ast.Node) {
	child = n
	for {
		p := par[child]
		if _, ok := p.(*ast.ParenExpr); ok {
			child = p
			continue
		}
		return p, child
	}
}

func r7IsNil(pi *pkgInfo, e ast.Expr) bool {
	id, ok := ast.Unparen(e).(*ast.Ident)
	if !ok {
		return false
	}
	_, isNil := pi.info.Uses[id].(*types.Nil)
	return isNil
}

func r7Quints(rows [][5]string) string {
	parts := make([]string, len(rows))
	for i, r := range rows {
		q := make([]string, len(r))
		for j, s := range r {
			q[j] = leanStr(s)
		}
		parts[i] = "(" + strings.Join(q, ", ") + ")"
	}
	return "[" + strings.Join(parts, ",\n   ") + "]"
}

// r7DeclOf: the declarations (with a body) of this package by their go/types function object.
func r7DeclOf(pi *pkgInfo) map[types.Object]*ast.FuncDecl {
	m := map[types.Object]*ast.FuncDecl{}
	for _, fd := range r4Funcs(pi) {
		if o := pi.info.Defs[fd.Name]; o != nil {
			m[o] = fd
		}
	}
	return m
}

// ---------------------------------------------------------------------------------------------------------------
// 1. AllocFreeSites
//
// Shapes recognised:
//	(a) every mention of the method object (*allocator).Free in the package must be the callee of a call `X.Free()`; per call:
//	    the function, where it stands — "body@N" / "defer@N" (a plain / deferred call in top-level statement N of the function),
//	    "defer-literal@N" / "go-literal@N" / "literal@N" (inside a function literal that is deferred / started / other) — the
//	    conditions it stands under inside that literal or body, and X (servers printed as `s`, conn as `c`).
//	(b) for (*Server).Serve and (*RequestServer).Serve: the top-level statements `wg.Wait()` (wg a local sync.WaitGroup) and
//	    `X.pktMgr.wait()` in order; the number of `return`s (function literals not entered) that stand before the end of the
//	    wg.Wait() statement; every go statement of the function: (statement right before it in its block, first statement of
//	    the started literal) — expected (`wg.Add(1)`, `defer wg.Done()`).
//	(c) the callers of (*allocator).GetPage and (*allocator).ReleasePages.
//	(d) every write to the fields `used` / `available` of allocator anywhere in the package, classified:
//	    X.f = make(…) "make" | X.f = nil "nil" | X.f = append(X.f, …) "append" | X.f = X.f[…:…] "reslice" | X.f[k] = … "index-assign"
//	    | delete(X.f, k) "delete" | clear(X.f) "clear" | a key of an allocator composite literal "make" / "nil";
//	    anything else (other right-hand side, &X.f, op-assignment, range variable) is a broken tie ("other:<text>").
//	(e) allocator.GetPage: its index-assignments into `used` with the conditions they stand under and the number of returns
//	    before them ("" and 0 = unconditional).

type r7ServeEp struct {
	fn        string
	waits     []string
	retBefore int
	gos       [][2]string
}

type r7AfFacts struct {
	src, allocSrc string
	sites         [][4]string
	serve         []r7ServeEp
	getPage       []string
	release       []string
	writes        [][3]string
	gpAssign      [][2]string
	gpUncond      bool
}

func r7AfAnalyse(pi *pkgInfo, u *unit) (f r7AfFacts) {
	f.src, f.allocSrc = "server.go request-server.go", "allocator.go"
	freeObj := r5MethodObj(pi, "allocator.Free")
	getObj := r5MethodObj(pi, "allocator.GetPage")
	relObj := r5MethodObj(pi, "allocator.ReleasePages")
	if freeObj == nil {
		u.fail("(*allocator).Free not found")
	}
	if getObj == nil {
		u.fail("(*allocator).GetPage not found")
	}
	if relObj == nil {
		u.fail("(*allocator).ReleasePages not found")
	}
	if fd := pi.funcDecl("allocator.Free"); fd != nil {
		f.allocSrc = pi.pos(fd)
	}
	isField := func(e ast.Expr) (string, bool) {
		for _, n := range []string{"used", "available"} {
			if _, ok := r6FieldOf(pi, e, "allocator", n); ok {
				return n, true
			}
		}
		return "", false
	}
	sameField := func(e ast.Expr, name string) bool {
		n, ok := isField(e)
		return ok && n == name
	}
	allocTN := pi.pkg.Scope().Lookup("allocator")

	for _, fd := range r4Funcs(pi) {
		name := r4FuncName(fd)
		par := r4Parents(fd)
		ren := map[types.Object]string{}
		if o := r6ParamOfType(pi, fd, "*Server", "*RequestServer"); o != nil {
			ren[o] = "s"
		}
		if o := r6ParamOfType(pi, fd, "*conn"); o != nil {
			ren[o] = "c"
		}
		if o := r6ParamOfType(pi, fd, "*allocator"); o != nil {
			ren[o] = "a"
		}
		// (a), (c): mentions of the three methods
		ast.Inspect(fd.Body, func(m ast.Node) bool {
			id, ok := m.(*ast.Ident)
			if !ok {
				return true
			}
			obj := pi.info.Uses[id]
			if obj == nil || (obj != freeObj && obj != getObj && obj != relObj) {
				return true
			}
			var call *ast.CallExpr
			sel, ok := par[id].(*ast.SelectorExpr)
			if ok && sel.Sel == id {
				p, child := r7Up(par, sel)
				if c, ok := p.(*ast.CallExpr); ok && c.Fun == child {
					call = c
				}
			}
			if call == nil {
				u.fail("%s: allocator.%s is mentioned other than as the callee of a call (%s)", name, id.Name, pi.pos(id))
				if obj == freeObj {
					f.sites = append(f.sites, [4]string{name, "other:method value", "", ""})
				}
				return true
			}
			switch obj {
			case getObj:
				f.getPage = append(f.getPage, name)
			case relObj:
				f.release = append(f.release, name)
			case freeObj:
				where, lit := r7Where(par, call)
				var root ast.Node = fd.Body
				if lit != nil {
					root = lit.Body
				} else if _, isDefer := par[call].(*ast.DeferStmt); isDefer {
					where = "defer"
				}
				f.sites = append(f.sites, [4]string{name, fmt.Sprintf("%s@%d", where, r7TopIndex(fd, call)),
					r6Guards(pi, par, root, call, ren), r4Text(pi, sel.X, ren)})
			}
			return true
		})
		// (d): writes to the two fields
		add := func(field, class string, n ast.Node) {
			f.writes = append(f.writes, [3]string{name, field, class})
			if strings.HasPrefix(class, "other:") {
				u.fail("%s: unrecognised write to allocator.%s: %s (%s)", name, field, class, pi.pos(n))
			}
		}
		classify := func(field string, rhs ast.Expr) string {
			rhs = ast.Unparen(rhs)
			if r7IsNil(pi, rhs) {
				return "nil"
			}
			switch e := rhs.(type) {
			case *ast.CallExpr:
				if r6IsBuiltin(pi, e, "make") {
					return "make"
				}
				if r6IsBuiltin(pi, e, "append") && len(e.Args) >= 1 && sameField(e.Args[0], field) {
					return "append"
				}
			case *ast.SliceExpr:
				if sameField(e.X, field) && !e.Slice3 {
					return "reslice"
				}
			}
			return "other:" + r4Text(pi, rhs, ren)
		}
		ast.Inspect(fd.Body, func(m ast.Node) bool {
			switch t := m.(type) {
			case *ast.AssignStmt:
				for i, l := range t.Lhs {
					l = ast.Unparen(l)
					if fld, ok := isField(l); ok {
						if t.Tok == token.ASSIGN && len(t.Lhs) == len(t.Rhs) {
							add(fld, classify(fld, t.Rhs[i]), t)
						} else {
							add(fld, "other:"+r4Text(pi, t, ren), t)
						}
						continue
					}
					if ix, ok := l.(*ast.IndexExpr); ok {
						if fld, ok := isField(ix.X); ok {
							if t.Tok == token.ASSIGN {
								add(fld, "index-assign", t)
							} else {
								add(fld, "other:"+r4Text(pi, t, ren), t)
							}
						}
					}
				}
			case *ast.IncDecStmt:
				if ix, ok := ast.Unparen(t.X).(*ast.IndexExpr); ok {
					if fld, ok := isField(ix.X); ok {
						add(fld, "other:"+r4Text(pi, t, ren), t)
					}
				}
			case *ast.CallExpr:
				for _, b := range []string{"delete", "clear"} {
					if r6IsBuiltin(pi, t, b) && len(t.Args) >= 1 {
						if fld, ok := isField(t.Args[0]); ok {
							add(fld, b, t)
						}
					}
				}
			case *ast.UnaryExpr:
				if t.Op == token.AND {
					x := ast.Unparen(t.X)
					if ix, ok := x.(*ast.IndexExpr); ok {
						x = ix.X
					}
					if fld, ok := isField(x); ok {
						add(fld, "other:"+r4Text(pi, t, ren), t)
					}
				}
			case *ast.RangeStmt:
				for _, e := range []ast.Expr{t.Key, t.Value} {
					if e == nil {
						continue
					}
					x := ast.Unparen(e)
					if ix, ok := x.(*ast.IndexExpr); ok {
						x = ix.X
					}
					if fld, ok := isField(x); ok {
						add(fld, "other:range variable "+r4Text(pi, e, ren), t)
					}
				}
			case *ast.CompositeLit:
				tv, ok := pi.info.Types[t]
				if !ok || allocTN == nil {
					return true
				}
				if nn := r4NamedOf(tv.Type); nn == nil || nn.Obj() != allocTN {
					return true
				}
				for _, el := range t.Elts {
					kv, ok := el.(*ast.KeyValueExpr)
					if !ok {
						add("used", "other:positional allocator literal", t)
						break
					}
					if k, ok := kv.Key.(*ast.Ident); ok && (k.Name == "used" || k.Name == "available") {
						add(k.Name, classify(k.Name, kv.Value), kv)
					}
				}
			}
			return true
		})
	}
	f.getPage = r6SortedUnique(f.getPage)
	f.release = r6SortedUnique(f.release)

	// (e) GetPage's index-assignment into used
	if gp := pi.funcDecl("allocator.GetPage"); gp != nil && gp.Body != nil {
		par := r4Parents(gp)
		ren := map[types.Object]string{}
		if r := r5RecvObj(pi, gp); r != nil {
			ren[r] = "a"
		}
		ast.Inspect(gp.Body, func(m ast.Node) bool {
			as, ok := m.(*ast.AssignStmt)
			if !ok {
				return true
			}
			for _, l := range as.Lhs {
				ix, ok := ast.Unparen(l).(*ast.IndexExpr)
				if !ok {
					continue
				}
				if _, ok := r6FieldOf(pi, ix.X, "allocator", "used"); !ok {
					continue
				}
				where, lit := r7Where(par, as)
				var root ast.Node = gp.Body
				g := ""
				if lit != nil {
					root = lit.Body
					g = where + ": "
				}
				g += r6Guards(pi, par, root, as, ren)
				before := 0
				r6Inspect(gp.Body, func(k ast.Node) bool {
					if rs, ok := k.(*ast.ReturnStmt); ok && rs.Pos() < as.Pos() {
						before++
					}
					return true
				})
				f.gpAssign = append(f.gpAssign, [2]string{g, fmt.Sprint(before)})
			}
			return true
		})
		f.gpUncond = len(f.gpAssign) == 1 && f.gpAssign[0] == [2]string{"", "0"}
	}

	// (b) the epilogue of the two Serve functions
	var srcs []string
	for _, fn := range []string{"RequestServer.Serve", "Server.Serve"} {
		ep := r7ServeEp{fn: fn}
		fd := pi.funcDecl(fn)
		if fd == nil || fd.Body == nil {
			u.fail("%s not found", fn)
			f.serve = append(f.serve, ep)
			continue
		}
		srcs = append(srcs, pi.pos(fd))
		ren := map[types.Object]string{}
		if o := r5RecvObj(pi, fd); o != nil {
			ren[o] = "s"
		}
		isWG := func(e ast.Expr) bool {
			tv, ok := pi.info.Types[e]
			if !ok {
				return false
			}
			t := tv.Type
			if p, ok := types.Unalias(t).(*types.Pointer); ok {
				t = p.Elem()
			}
			return types.TypeString(t, nil) == "sync.WaitGroup"
		}
		// every local WaitGroup prints as wg
		ast.Inspect(fd, func(m ast.Node) bool {
			if id, ok := m.(*ast.Ident); ok {
				if v, isVar := pi.info.Defs[id].(*types.Var); isVar && !v.IsField() && types.TypeString(v.Type(), nil) == "sync.WaitGroup" {
					ren[v] = "wg"
				}
			}
			return true
		})
		var waitStmt ast.Stmt
		for _, s := range fd.Body.List {
			es, ok := s.(*ast.ExprStmt)
			if !ok {
				continue
			}
			c, ok := ast.Unparen(es.X).(*ast.CallExpr)
			if !ok || len(c.Args) != 0 {
				continue
			}
			sel, ok := ast.Unparen(c.Fun).(*ast.SelectorExpr)
			if !ok {
				continue
			}
			if sel.Sel.Name == "Wait" && isWG(sel.X) {
				if _, isIdent := ast.Unparen(sel.X).(*ast.Ident); isIdent {
					ep.waits = append(ep.waits, "wg.Wait()")
					if waitStmt == nil {
						waitStmt = s
					}
				}
				continue
			}
			if fnc := r4Callee(pi, c); fnc != nil && fnc.Pkg() == pi.pkg && r4CalleeName(pi, fnc) == "packetManager.wait" {
				ep.waits = append(ep.waits, "pktMgr.wait()")
			}
		}
		if waitStmt == nil {
			u.fail("%s (%s): no top-level statement `wg.Wait()` on a local sync.WaitGroup", fn, pi.pos(fd))
		}
		r6Inspect(fd.Body, func(m ast.Node) bool {
			if rs, ok := m.(*ast.ReturnStmt); ok && (waitStmt == nil || rs.Pos() < waitStmt.End()) {
				ep.retBefore++
			}
			return true
		})
		// go statements
		for _, list := range r4StmtLists(fd.Body) {
			for i, s := range list {
				gs, ok := s.(*ast.GoStmt)
				if !ok {
					continue
				}
				before, first := "", "call:"+r4Text(pi, gs.Call, ren)
				if i > 0 {
					before = r4Text(pi, list[i-1], ren)
				}
				if lit, ok := ast.Unparen(gs.Call.Fun).(*ast.FuncLit); ok {
					first = ""
					if len(lit.Body.List) > 0 {
						first = r4Text(pi, lit.Body.List[0], ren)
					}
				}
				ep.gos = append(ep.gos, [2]string{before, first})
			}
		}
		f.serve = append(f.serve, ep)
	}
	if len(srcs) > 0 {
		f.src = strings.Join(srcs, " ")
	}
	return
}

func extractAllocFreeSites(x *extractor) {
	u := x.newUnit("AllocFreeSites")
	f := r7AfFacts{src: "server.go request-server.go", allocSrc: "allocator.go"}
	r5Guard(u, func() { f = r7AfAnalyse(x.root, u) })
	u.pf("namespace Sftp.G\n\n")
	u.pf("-- source: %s: every call of (*allocator).Free in the package: (function, where@N: body | defer | defer-literal |\n", f.allocSrc)
	u.pf("-- go-literal | literal, N = the top-level statement of the function it stands in; the conditions it stands under there;\n-- the allocator expression — servers printed as `s`, conn as `c`)\n")
	u.pf("def afFreeSites : List (String × String × String × String) :=\n  %s\n", r6Quads(f.sites))
	u.pf("-- source: %s ((*RequestServer).Serve, (*Server).Serve): the top-level statements `wg.Wait()` (a local sync.WaitGroup)\n", f.src)
	u.pf("-- and `<server>.pktMgr.wait()` in source order; the number of `return`s (function literals not entered) before the end of\n-- the first wg.Wait() statement (all of them if there is none)\n")
	var waits, rets, gos []string
	for _, ep := range f.serve {
		waits = append(waits, "("+leanStr(ep.fn)+", "+leanStrList(ep.waits)+")")
		rets = append(rets, fmt.Sprintf("(%s, %d)", leanStr(ep.fn), ep.retBefore))
		for _, g := range ep.gos {
			gos = append(gos, "("+leanStr(ep.fn)+", "+leanStr(g[0])+", "+leanStr(g[1])+")")
		}
	}
	u.pf("def afServeWaits : List (String × List String) := [%s]\n", strings.Join(waits, ",\n   "))
	u.pf("def afServeReturnsBeforeWait : List (String × Nat) := [%s]\n", strings.Join(rets, ", "))
	u.pf("-- every go statement of those two functions: (function, the statement right before it in its block, the first statement\n-- of the literal it starts; WaitGroup printed as `wg`)\n")
	u.pf("def afServeGoStmts : List (String × String × String) := [%s]\n", strings.Join(gos, ",\n   "))
	u.pf("-- the functions that call (*allocator).GetPage / (*allocator).ReleasePages\n")
	u.pf("def afGetPageCallers : List String := %s\n", leanStrList(f.getPage))
	u.pf("def afReleasePagesCallers : List String := %s\n\n", leanStrList(f.release))
	u.pf("-- source: allocator.go and every other function of the package: every write to the fields `used` / `available` of\n")
	u.pf("-- allocator (function, field, make | nil | append | reslice | index-assign | delete | clear | other:<text>), functions by name\n")
	u.pf("def afFieldWrites : List (String × String × String) :=\n  %s\n", r4Triples(f.writes))
	u.pf("-- allocator.GetPage: its index-assignments into `used`: (conditions it stands under, number of returns before it), and:\n-- there is exactly one, under no condition, after no return\n")
	u.pf("def afGetPageUsedAssigns : List (String × String) := %s\n", r4Pairs(f.gpAssign))
	u.pf("def afGetPageAssignsUsedUnconditionally : Bool := %s\n", leanBool(f.gpUncond))
	u.pf("\nend Sftp.G\n")
}

// ---------------------------------------------------------------------------------------------------------------
// 2. ExtUnmarshalPurity
//
// Functions analysed ("roots"): makePacket and the methods UnmarshalBinary / respond / readonly / id of every struct type
// of the package whose name starts with sshFxpExtendedPacket.  Per root:
//	every identifier that resolves (go/types) to a package-scope *types.Var of package sftp, classified
//	  write: the root of the left-hand side of an assignment / op-assignment / ++ / -- (through index, field, deref),
//	         the first argument of delete / clear, the operand of &, a range variable, the receiver of a method with a
//	         pointer receiver ("method:<M>": sync.Mutex.Lock, sync.Map.Store, …)
//	  read:  anything else
//	every callee (r5CallName: "pkg/path.Name", "Recv.name", "builtin:name", "conv:T", "?text" for a call of a function value).
// For every variable read: its type, its initialiser, and the number of writes (same classification) anywhere in the package.
// Decode closure: from makePacket and (*sshFxpExtendedPacket).UnmarshalBinary, every function of the package statically
// reached (a call of an interface method M reaches every method named M declared in the package); its writes of
// package-level variables; its calls of function VALUES (not resolved: listed).

type r7Mention struct {
	v     *types.Var
	write bool
	how   string
	node  ast.Node
}

// r7PkgVarMentions: the mentions of package-level variables of this package below n.
func r7PkgVarMentions(pi *pkgInfo, n ast.Node, par map[ast.Node]ast.Node) []r7Mention {
	var out []r7Mention
	ast.Inspect(n, func(m ast.Node) bool {
		id, ok := m.(*ast.Ident)
		if !ok {
			return true
		}
		v, isVar := pi.info.Uses[id].(*types.Var)
		if !isVar || v.IsField() || v.Pkg() != pi.pkg || v.Parent() != pi.pkg.Scope() {
			return true
		}
		mt := r7Mention{v: v, node: id}
		// climb: v, v[k], v.f, *v, (v), v[a:b]
		var cur ast.Node = id
		for {
			p := par[cur]
			stop := true
			switch t := p.(type) {
			case *ast.ParenExpr:
				stop = false
			case *ast.IndexExpr:
				stop = t.X != cur
			case *ast.SliceExpr:
				stop = t.X != cur
			case *ast.StarExpr:
				stop = false
			case *ast.SelectorExpr:
				// a field of the variable; a method is handled below
				if t.X == cur {
					if sv, ok := pi.info.Uses[t.Sel].(*types.Var); ok && sv.IsField() {
						stop = false
					}
				}
			}
			if stop {
				break
			}
			cur = p
		}
		switch t := par[cur].(type) {
		case *ast.AssignStmt:
			for _, l := range t.Lhs {
				if l == cur && t.Tok != token.DEFINE {
					mt.write, mt.how = true, "assign"
					if cur != ast.Node(id) {
						mt.how = "assign-into"
					}
				}
			}
		case *ast.IncDecStmt:
			mt.write, mt.how = true, "incdec"
		case *ast.UnaryExpr:
			if t.Op == token.AND {
				mt.write, mt.how = true, "address-taken"
			}
		case *ast.RangeStmt:
			if t.Key == cur || t.Value == cur {
				mt.write, mt.how = true, "range-variable"
			}
		case *ast.CallExpr:
			if len(t.Args) >= 1 && t.Args[0] == cur && (r6IsBuiltin(pi, t, "delete") || r6IsBuiltin(pi, t, "clear")) {
				mt.write, mt.how = true, "delete"
			}
		case *ast.SelectorExpr:
			if t.X == cur {
				if fn, ok := pi.info.Uses[t.Sel].(*types.Func); ok {
					if sig, ok := fn.Type().(*types.Signature); ok && sig.Recv() != nil {
						if _, isPtr := types.Unalias(sig.Recv().Type()).(*types.Pointer); isPtr {
							mt.write, mt.how = true, "method:"+fn.Name()
						}
					}
				}
			}
		}
		out = append(out, mt)
		return true
	})
	return out
}

type r7EpFacts struct {
	src         string
	roots       []string
	reads       [][2]string
	writes      [][3]string
	calls       []r4PairList
	varInfo     [][4]string
	closWrites  [][3]string
	closDynamic [][2]string
	closCovers  bool
}

func r7EpAnalyse(pi *pkgInfo, u *unit) (f r7EpFacts) {
	f.src = "packet.go"
	// the roots
	var roots []string
	if pi.funcDecl("makePacket") == nil {
		u.fail("makePacket not found")
	} else {
		roots = append(roots, "makePacket")
	}
	var extTypes []string
	names := pi.pkg.Scope().Names()
	sort.Strings(names)
	for _, nm := range names {
		tn, ok := pi.pkg.Scope().Lookup(nm).(*types.TypeName)
		if !ok || !strings.HasPrefix(nm, "sshFxpExtendedPacket") {
			continue
		}
		if _, isStruct := tn.Type().Underlying().(*types.Struct); !isStruct {
			continue
		}
		extTypes = append(extTypes, nm)
		for _, m := range []string{"UnmarshalBinary", "id", "readonly", "respond"} {
			if fd := pi.funcDecl(nm + "." + m); fd != nil && fd.Body != nil {
				roots = append(roots, nm+"."+m)
			}
		}
	}
	if fd := pi.funcDecl("sshFxpExtendedPacket.UnmarshalBinary"); fd == nil || fd.Body == nil {
		u.fail("(*sshFxpExtendedPacket).UnmarshalBinary not found")
	} else {
		f.src = pi.pos(fd)
	}
	sort.Strings(roots)
	f.roots = roots

	readVars := map[*types.Var]bool{}
	for _, r := range roots {
		fd := pi.funcDecl(r)
		par := r4Parents(fd)
		seenR, seenW := map[string]bool{}, map[string]bool{}
		for _, mt := range r7PkgVarMentions(pi, fd.Body, par) {
			if mt.write {
				k := mt.v.Name() + "|" + mt.how
				if !seenW[k] {
					seenW[k] = true
					f.writes = append(f.writes, [3]string{r, mt.v.Name(), mt.how})
				}
				continue
			}
			readVars[mt.v] = true
			if !seenR[mt.v.Name()] {
				seenR[mt.v.Name()] = true
				f.reads = append(f.reads, [2]string{r, mt.v.Name()})
			}
		}
		var calls []string
		ast.Inspect(fd.Body, func(m ast.Node) bool {
			if c, ok := m.(*ast.CallExpr); ok {
				calls = append(calls, r5CallName(pi, c))
			}
			return true
		})
		f.calls = append(f.calls, r4PairList{r, r6SortedUnique(calls)})
	}
	sort.SliceStable(f.reads, func(i, j int) bool {
		if f.reads[i][0] != f.reads[j][0] {
			return f.reads[i][0] < f.reads[j][0]
		}
		return f.reads[i][1] < f.reads[j][1]
	})

	// the variables read: type, initialiser, number of writes anywhere in the package
	if len(readVars) > 0 {
		writesOf := map[*types.Var]int{}
		for _, fd := range r4Funcs(pi) {
			for _, mt := range r7PkgVarMentions(pi, fd.Body, r4Parents(fd)) {
				if mt.write {
					writesOf[mt.v]++
				}
			}
		}
		inits := map[types.Object]string{}
		for _, file := range pi.files {
			for _, d := range file.Decls {
				gd, ok := d.(*ast.GenDecl)
				if !ok || gd.Tok != token.VAR {
					continue
				}
				for _, sp := range gd.Specs {
					vs := sp.(*ast.ValueSpec)
					for i, id := range vs.Names {
						o := pi.info.Defs[id]
						switch {
						case len(vs.Values) == len(vs.Names):
							inits[o] = r4Text(pi, vs.Values[i], nil)
						case len(vs.Values) == 0:
							inits[o] = ""
						default:
							inits[o] = "?" + r4Text(pi, vs, nil)
						}
					}
				}
			}
		}
		var vs []*types.Var
		for v := range readVars {
			vs = append(vs, v)
		}
		sort.Slice(vs, func(i, j int) bool { return vs[i].Name() < vs[j].Name() })
		qual := func(p *types.Package) string {
			if p == pi.pkg {
				return ""
			}
			return p.Name()
		}
		for _, v := range vs {
			f.varInfo = append(f.varInfo, [4]string{v.Name(), types.TypeString(v.Type(), qual), inits[v], fmt.Sprint(writesOf[v])})
		}
	}

	// the decode closure
	declOf := r7DeclOf(pi)
	byName := map[string][]*ast.FuncDecl{}
	for _, fd := range r4Funcs(pi) {
		if fd.Recv != nil {
			byName[fd.Name.Name] = append(byName[fd.Name.Name], fd)
		}
	}
	seen := map[*ast.FuncDecl]bool{}
	var work []*ast.FuncDecl
	push := func(fd *ast.FuncDecl) {
		if fd != nil && fd.Body != nil && !seen[fd] {
			seen[fd] = true
			work = append(work, fd)
		}
	}
	push(pi.funcDecl("makePacket"))
	push(pi.funcDecl("sshFxpExtendedPacket.UnmarshalBinary"))
	for len(work) > 0 {
		fd := work[len(work)-1]
		work = work[:len(work)-1]
		name := r4FuncName(fd)
		ast.Inspect(fd.Body, func(m ast.Node) bool {
			c, ok := m.(*ast.CallExpr)
			if !ok {
				return true
			}
			if tv, ok := pi.info.Types[c.Fun]; ok && (tv.IsType() || tv.IsBuiltin()) {
				return true
			}
			if _, isLit := ast.Unparen(c.Fun).(*ast.FuncLit); isLit {
				return true // its body is part of this function's body
			}
			fn := r4Callee(pi, c)
			if fn == nil {
				// a call through a package name of a package the importer could not load is not a function value
				if sel, ok := ast.Unparen(c.Fun).(*ast.SelectorExpr); ok {
					if x, ok := sel.X.(*ast.Ident); ok {
						if _, isPkg := pi.info.Uses[x].(*types.PkgName); isPkg {
							return true
						}
					}
				}
				f.closDynamic = append(f.closDynamic, [2]string{name, pi.nodeText(c.Fun)})
				return true
			}
			if fn.Pkg() != pi.pkg {
				// an interface of another package (encoding.BinaryUnmarshaler) implemented in this one
				if sig, ok := fn.Type().(*types.Signature); ok && sig.Recv() != nil && types.IsInterface(sig.Recv().Type()) {
					for _, d := range byName[fn.Name()] {
						push(d)
					}
				}
				return true
			}
			if sig, ok := fn.Type().(*types.Signature); ok && sig.Recv() != nil && types.IsInterface(sig.Recv().Type()) {
				for _, d := range byName[fn.Name()] {
					push(d)
				}
				return true
			}
			if d := declOf[fn]; d != nil {
				push(d)
			}
			return true
		})
	}
	var clos []*ast.FuncDecl
	for fd := range seen {
		clos = append(clos, fd)
	}
	sort.Slice(clos, func(i, j int) bool { return r4FuncName(clos[i]) < r4FuncName(clos[j]) })
	inClos := map[string]bool{}
	for _, fd := range clos {
		name := r4FuncName(fd)
		inClos[name] = true
		dup := map[string]bool{}
		for _, mt := range r7PkgVarMentions(pi, fd.Body, r4Parents(fd)) {
			if mt.write && !dup[mt.v.Name()+"|"+mt.how] {
				dup[mt.v.Name()+"|"+mt.how] = true
				f.closWrites = append(f.closWrites, [3]string{name, mt.v.Name(), mt.how})
			}
		}
	}
	sort.SliceStable(f.closDynamic, func(i, j int) bool {
		if f.closDynamic[i][0] != f.closDynamic[j][0] {
			return f.closDynamic[i][0] < f.closDynamic[j][0]
		}
		return f.closDynamic[i][1] < f.closDynamic[j][1]
	})
	f.closCovers = inClos["makePacket"] && inClos["unmarshalStringSafe"] && len(extTypes) > 0
	for _, t := range extTypes {
		if !inClos[t+".UnmarshalBinary"] {
			f.closCovers = false
		}
	}
	if !f.closCovers {
		u.fail("the decode closure does not contain makePacket, unmarshalStringSafe and the UnmarshalBinary of every sshFxpExtendedPacket* type")
	}
	return
}

func extractExtUnmarshalPurity(x *extractor) {
	u := x.newUnit("ExtUnmarshalPurity")
	f := r7EpFacts{src: "packet.go"}
	r5Guard(u, func() { f = r7EpAnalyse(x.root, u) })
	u.pf("namespace Sftp.G\n\n")
	u.pf("-- source: %s, packet-typing.go: the functions analysed: makePacket and the methods UnmarshalBinary / id / readonly /\n-- respond of every struct type named sshFxpExtendedPacket…\n", f.src)
	u.pf("def epFunctions : List String :=\n  %s\n", leanStrList(f.roots))
	u.pf("-- the package-level VARIABLES (go/types: package-scope *types.Var of package sftp) each of them reads: (function, variable)\n")
	u.pf("def epVarReads : List (String × String) := %s\n", r4Pairs(f.reads))
	u.pf("-- … and writes: (function, variable, assign | assign-into | incdec | delete | address-taken | range-variable | method:<M>)\n")
	u.pf("def epVarWrites : List (String × String × String) := %s\n", r4Triples(f.writes))
	u.pf("-- every variable read: (name, type, initialiser, number of writes to it anywhere in the package)\n")
	u.pf("def epReadVarInfo : List (String × String × String × String) := %s\n", r6Quads(f.varInfo))
	u.pf("-- the callees of each (sorted; \"?…\" = a call of a function value)\n")
	u.pf("def epCalls : List (String × List String) :=\n  %s\n\n", r4PairLists(f.calls))
	u.pf("-- the decode path: every function of the package statically reached from makePacket and\n-- (*sshFxpExtendedPacket).UnmarshalBinary (an interface method call reaches every method of that name in the package):\n")
	u.pf("-- its writes of package-level variables (function, variable, how); its calls of function values (function, callee text);\n-- and: it contains makePacket, unmarshalStringSafe and the UnmarshalBinary of every sshFxpExtendedPacket… type\n")
	u.pf("def epDecodeClosureWrites : List (String × String × String) := %s\n", r4Triples(f.closWrites))
	u.pf("def epDecodeClosureDynamicCalls : List (String × String) := %s\n", r4Pairs(f.closDynamic))
	u.pf("def epDecodeClosureCovers : Bool := %s\n", leanBool(f.closCovers))
	u.pf("\nend Sftp.G\n")
}

// ---------------------------------------------------------------------------------------------------------------
// 3. FileHandleAtDispatch
//
// Shapes recognised (every function of the package; in practice client.go):
//	forwarders: a function one of whose parameters is the value of the key `Handle:` of a composite literal
//	            (Client.close, Client.fstat, Client.fsetstat): (function, packet type, arg<i>).
//	every selector `X.handle` that selects the field `handle` of File (go/types) is one of
//	  site     the value of `Handle:` in a composite literal            → (function, where, packet type, text, "direct")
//	  site     the forwarded argument of a call of a forwarder          → (function, where, "<forwarder>:<packet type>", text, "direct")
//	  check    an operand of == / != against the constant ""            (not emitted)
//	  write    the left-hand side of an assignment                      → hdHandleWrites (function, where, statement)
//	  capture  the right-hand side of `v := X.handle` / `v = X.handle` / `var v = X.handle`, v a local variable
//	  anything else is a broken tie (site row with class "other").
//	every use of a captured local v (printed as `handle`, so a rename is cosmetic) is a site with class "captured-local" (same
//	two shapes); anything else — including a second assignment to v — is a broken tie.  Per capture: (function, the capturing
//	statement, is v used inside a function literal, the lock of the function).
//	where: body | go-literal | defer-literal | literal (r7Where).  For every function with a site, a capture or a write: the
//	leading `X.mu.Lock(); defer X.mu.Unlock()` / RLock-RUnlock pair on the field File.mu ("" if the body does not start with one).

type r7HdFacts struct {
	src        string
	forwarders [][3]string
	sites      [][5]string
	captures   [][4]string
	writes     [][3]string
	locks      [][2]string
}

// r7FileLock: fd starts with `X.mu.Lock(); defer X.mu.Unlock()` (or RLock / RUnlock) on the field mu of File.
func r7FileLock(pi *pkgInfo, fd *ast.FuncDecl) string {
	if fd == nil || fd.Body == nil || len(fd.Body.List) < 2 {
		return ""
	}
	method := func(c *ast.CallExpr) string {
		if c == nil || len(c.Args) != 0 {
			return ""
		}
		sel, ok := ast.Unparen(c.Fun).(*ast.SelectorExpr)
		if !ok {
			return ""
		}
		if _, ok := r6FieldOf(pi, sel.X, "File", "mu"); !ok {
			return ""
		}
		return sel.Sel.Name
	}
	es, ok := fd.Body.List[0].(*ast.ExprStmt)
	if !ok {
		return ""
	}
	c0, _ := ast.Unparen(es.X).(*ast.CallExpr)
	ds, ok := fd.Body.List[1].(*ast.DeferStmt)
	if !ok {
		return ""
	}
	switch l, ul := method(c0), method(ds.Call); {
	case l == "Lock" && ul == "Unlock":
		return "Lock"
	case l == "RLock" && ul == "RUnlock":
		return "RLock"
	}
	return ""
}

func r7HdAnalyse(pi *pkgInfo, u *unit) (f r7HdFacts) {
	f.src = "client.go"
	fileTN, _ := pi.pkg.Scope().Lookup("File").(*types.TypeName)
	if fileTN == nil {
		u.fail("type File not found")
		return
	}
	hasHandle := false
	if st, ok := fileTN.Type().Underlying().(*types.Struct); ok {
		for i := 0; i < st.NumFields(); i++ {
			if st.Field(i).Name() == "handle" {
				hasHandle = true
			}
		}
	}
	if !hasHandle {
		u.fail("File has no field handle")
		return
	}
	if fd := pi.funcDecl("File.Close"); fd != nil {
		f.src = pi.pos(fd)
	}
	// the packet type of a composite literal (package-unqualified name), "" if it is not a named struct of this package
	litType := func(cl *ast.CompositeLit) string {
		tv, ok := pi.info.Types[cl]
		if !ok {
			return ""
		}
		nn := r4NamedOf(tv.Type)
		if nn == nil || nn.Obj().Pkg() != pi.pkg {
			return ""
		}
		return nn.Obj().Name()
	}
	// is e the value of `Handle:` in a composite literal? (par climbs over parentheses)
	handleKey := func(par map[ast.Node]ast.Node, e ast.Node) (string, bool) {
		p, child := r7Up(par, e)
		kv, ok := p.(*ast.KeyValueExpr)
		if !ok || kv.Value != child {
			return "", false
		}
		k, ok := kv.Key.(*ast.Ident)
		if !ok || k.Name != "Handle" {
			return "", false
		}
		cl, ok := par[kv].(*ast.CompositeLit)
		if !ok {
			return "", false
		}
		t := litType(cl)
		return t, t != ""
	}
	// forwarders
	type fwd struct {
		name, pkt string
		index     int
	}
	fwds := map[types.Object][]fwd{}
	funcs := r4Funcs(pi)
	for _, fd := range funcs {
		params := map[types.Object]int{}
		i := 0
		for _, p := range fd.Type.Params.List {
			if len(p.Names) == 0 {
				i++
			}
			for _, id := range p.Names {
				if o := pi.info.Defs[id]; o != nil {
					params[o] = i
				}
				i++
			}
		}
		par := r4Parents(fd)
		fobj := pi.info.Defs[fd.Name]
		ast.Inspect(fd.Body, func(m ast.Node) bool {
			id, ok := m.(*ast.Ident)
			if !ok {
				return true
			}
			ix, isParam := params[pi.info.Uses[id]]
			if !isParam {
				return true
			}
			if pkt, ok := handleKey(par, id); ok {
				fwds[fobj] = append(fwds[fobj], fwd{r4FuncName(fd), pkt, ix})
				f.forwarders = append(f.forwarders, [3]string{r4FuncName(fd), pkt, fmt.Sprintf("arg%d", ix)})
			}
			return true
		})
	}
	// is e the forwarded argument of a call of a forwarder?
	forwarded := func(par map[ast.Node]ast.Node, e ast.Node) (string, bool) {
		p, child := r7Up(par, e)
		c, ok := p.(*ast.CallExpr)
		if !ok {
			return "", false
		}
		fn := r4Callee(pi, c)
		if fn == nil {
			return "", false
		}
		for _, fw := range fwds[fn] {
			if fw.index < len(c.Args) && c.Args[fw.index] == child {
				return fw.name + ":" + fw.pkt, true
			}
		}
		return "", false
	}

	for _, fd := range funcs {
		name := r4FuncName(fd)
		par := r4Parents(fd)
		ren := map[types.Object]string{}
		if o := r6ParamOfType(pi, fd, "*File"); o != nil {
			ren[o] = "f"
		}
		touched := false
		type capture struct {
			obj  types.Object
			stmt ast.Node
		}
		var caps []capture
		var order []struct {
			pos token.Pos
			row [5]string
		}
		addSite := func(n ast.Node, pkt, text, class string) {
			where, _ := r7Where(par, n)
			order = append(order, struct {
				pos token.Pos
				row [5]string
			}{n.Pos(), [5]string{name, where, pkt, text, class}})
			touched = true
		}
		ast.Inspect(fd.Body, func(m ast.Node) bool {
			sel, ok := m.(*ast.SelectorExpr)
			if !ok {
				return true
			}
			if _, ok := r6FieldOf(pi, sel, "File", "handle"); !ok {
				return true
			}
			text := r4Text(pi, sel, ren)
			if pkt, ok := handleKey(par, sel); ok {
				addSite(sel, pkt, text, "direct")
				return true
			}
			if via, ok := forwarded(par, sel); ok {
				addSite(sel, via, text, "direct")
				return true
			}
			p, child := r7Up(par, sel)
			switch t := p.(type) {
			case *ast.BinaryExpr:
				if t.Op == token.EQL || t.Op == token.NEQ {
					other := t.X
					if t.X == child {
						other = t.Y
					}
					if s, ok := pi.exprStr(other); ok && s == "" {
						return true // the closed check
					}
				}
			case *ast.AssignStmt:
				for i, l := range t.Lhs {
					if l == child {
						where, _ := r7Where(par, t)
						f.writes = append(f.writes, [3]string{name, where, r4Text(pi, t, ren)})
						touched = true
						return true
					}
					if len(t.Lhs) == len(t.Rhs) && t.Rhs[i] == child && (t.Tok == token.DEFINE || t.Tok == token.ASSIGN) {
						if id, ok := ast.Unparen(l).(*ast.Ident); ok {
							if v, isVar := r4Obj(pi, id).(*types.Var); isVar && !v.IsField() && v.Parent() != pi.pkg.Scope() {
								caps = append(caps, capture{v, t})
								touched = true
								return true
							}
						}
					}
				}
			case *ast.ValueSpec:
				for i, val := range t.Values {
					if val == child && len(t.Names) == len(t.Values) {
						if v, isVar := pi.info.Defs[t.Names[i]].(*types.Var); isVar && v.Parent() != pi.pkg.Scope() {
							caps = append(caps, capture{v, t})
							touched = true
							return true
						}
					}
				}
			}
			var s ast.Node = sel
			for s != nil {
				if _, ok := s.(ast.Stmt); ok {
					break
				}
				s = par[s]
			}
			if s == nil {
				s = sel
			}
			addSite(sel, "?", r4Text(pi, s, ren), "other")
			u.fail("%s: unrecognised use of File.handle: %s (%s)", name, r4Text(pi, s, ren), pi.pos(sel))
			return true
		})
		// the uses of the captured locals (printed as `handle`: a local rename is cosmetic)
		for _, cp := range caps {
			ren[cp.obj] = "handle"
		}
		for _, cp := range caps {
			inLit := false
			ast.Inspect(fd.Body, func(m ast.Node) bool {
				id, ok := m.(*ast.Ident)
				if !ok || r4Obj(pi, id) != cp.obj || r4Within(cp.stmt, id) {
					return true
				}
				if w, _ := r7Where(par, id); w != "body" {
					inLit = true
				}
				if pkt, ok := handleKey(par, id); ok {
					addSite(id, pkt, r4Text(pi, id, ren), "captured-local")
					return true
				}
				if via, ok := forwarded(par, id); ok {
					addSite(id, via, r4Text(pi, id, ren), "captured-local")
					return true
				}
				var s ast.Node = id
				for s != nil {
					if _, ok := s.(ast.Stmt); ok {
						break
					}
					s = par[s]
				}
				if s == nil {
					s = id
				}
				addSite(id, "?", r4Text(pi, s, ren), "other")
				u.fail("%s: the local %s captured from File.handle is used in an unrecognised way: %s (%s)", name, id.Name, r4Text(pi, s, ren), pi.pos(id))
				return true
			})
			yn := "no"
			if inLit {
				yn = "yes"
			}
			f.captures = append(f.captures, [4]string{name, r4Text(pi, cp.stmt, ren), yn, r7FileLock(pi, fd)})
		}
		sort.SliceStable(order, func(i, j int) bool { return order[i].pos < order[j].pos })
		for _, o := range order {
			f.sites = append(f.sites, o.row)
		}
		if touched {
			f.locks = append(f.locks, [2]string{name, r7FileLock(pi, fd)})
		}
	}
	if len(f.sites) == 0 {
		u.fail("no request packet is built from File.handle anywhere in the package")
	}
	return
}

func extractFileHandleAtDispatch(x *extractor) {
	u := x.newUnit("FileHandleAtDispatch")
	f := r7HdFacts{src: "client.go"}
	r5Guard(u, func() { f = r7HdAnalyse(x.root, u) })
	u.pf("namespace Sftp.G\n\n")
	u.pf("-- source: client.go: the functions that put one of their PARAMETERS into the `Handle:` field of a request packet:\n-- (function, packet type, which argument)\n")
	u.pf("def hdForwarders : List (String × String × String) := %s\n", r4Triples(f.forwarders))
	u.pf("-- source: %s ff.: every place where a request packet gets its handle from the field File.handle: (function, body |\n", f.src)
	u.pf("-- go-literal | defer-literal | literal = the kind of function literal it stands in, the packet type — or forwarder:packet\n")
	u.pf("-- type for a call of a forwarder —, the expression given (a *File parameter printed as `f`), direct = the field itself |\n-- captured-local = a local variable assigned from the field earlier | other), functions by name, then source order\n")
	u.pf("def hdSites : List (String × String × String × String × String) :=\n  %s\n", r7Quints(f.sites))
	u.pf("-- the captures: (function, the statement that assigns a local from the field — the local printed as `handle` —, is the local\n-- used inside a function literal, the lock the function's body starts with and holds to its end)\n")
	u.pf("def hdCaptures : List (String × String × String × String) := %s\n", r6Quads(f.captures))
	u.pf("-- every assignment to File.handle: (function, where, statement)\n")
	u.pf("def hdHandleWrites : List (String × String × String) := %s\n", r4Triples(f.writes))
	u.pf("-- for every function above: the lock its body starts with and holds to its end (`X.mu.Lock(); defer X.mu.Unlock()` on\n-- File.mu: \"Lock\", RLock / RUnlock: \"RLock\", neither: \"\" — the callers hold it, see unit FileMethods)\n")
	u.pf("def hdFunctionLocks : List (String × String) := %s\n", r4Pairs(f.locks))
	u.pf("\nend Sftp.G\n")
}
