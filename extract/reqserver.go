package main

// Unit ReqServer: the tables of the request server adapter (property C10):
// requestMethod, Request.call, RequestServer.packetWorker, requestFromPacket, WithStartDirectory,
// and the handler-reaching calls of Request.open/opendir and the file* wrappers.

import (
	"fmt"
	"go/ast"
	"go/token"
	"strings"
)

func init() { extractors = append(extractors, extractReqServer) }

// ---- call descriptors ----

// x10Arg: V:<ident>, S:<selector>, M:<method called without arguments>, C:"<string constant>", nested calls as
// name(args), T:<x>.(<type>) for a type assertion, ? otherwise.
func x10Arg(pi *pkgInfo, a ast.Expr) string {
	switch t := a.(type) {
	case *ast.ParenExpr:
		return x10Arg(pi, t.X)
	case *ast.BasicLit:
		if s, ok := pi.exprStr(t); ok {
			return "C:" + fmt.Sprintf("%q", s)
		}
		return "C:" + t.Value
	case *ast.Ident:
		return "V:" + t.Name
	case *ast.SelectorExpr:
		return "S:" + exprString(t)
	case *ast.CallExpr:
		if len(t.Args) == 0 {
			return "M:" + exprString(t.Fun)
		}
		return x10Call(pi, t)
	case *ast.TypeAssertExpr:
		if t.Type != nil {
			return "T:" + exprString(t.X) + ".(" + exprString(t.Type) + ")"
		}
	case *ast.UnaryExpr:
		if t.Op == token.AND {
			if cl, ok := t.X.(*ast.CompositeLit); ok {
				return "&" + x10Lit(pi, cl)
			}
		}
	}
	return "?"
}

func x10Args(pi *pkgInfo, c *ast.CallExpr) string {
	var args []string
	for _, a := range c.Args {
		args = append(args, x10Arg(pi, a))
	}
	return strings.Join(args, ",")
}

func x10Call(pi *pkgInfo, c *ast.CallExpr) string {
	return exprString(c.Fun) + "(" + x10Args(pi, c) + ")"
}

func x10Lit(pi *pkgInfo, cl *ast.CompositeLit) string {
	var fs []string
	for _, e := range cl.Elts {
		if kv, ok := e.(*ast.KeyValueExpr); ok {
			fs = append(fs, exprString(kv.Key)+":"+x10Arg(pi, kv.Value))
		} else {
			fs = append(fs, x10Arg(pi, e))
		}
	}
	return typeName(cl.Type) + "{" + strings.Join(fs, ",") + "}"
}

// selector root: a.b.c.d -> a
func x10Root(e ast.Expr) string {
	for {
		switch t := e.(type) {
		case *ast.SelectorExpr:
			e = t.X
		case *ast.Ident:
			return t.Name
		case *ast.CallExpr:
			e = t.Fun
		case *ast.ParenExpr:
			e = t.X
		default:
			return ""
		}
	}
}

type x10CallRow struct{ fn, args string }

// x10Walker enumerates the control-flow paths of a statement list and records, per path, the relevant calls in
// evaluation order (arguments before the call).  Branch decisions are recorded as ("?", condition).
type x10Walker struct {
	pi       *pkgInfo
	u        *unit
	where    string
	relevant func(c *ast.CallExpr) bool
	litType  string // composite literals of this type are recorded as ("&T{…}", fields)
	flat     []string
	sawJump  bool
}

func (w *x10Walker) fail(n ast.Node, what string) {
	w.u.fail("%s: %s at %s", w.where, what, w.pi.pos(n))
}

// calls returns the relevant calls inside an expression / simple statement, post-order.
func (w *x10Walker) calls(n ast.Node) []x10CallRow {
	var out []x10CallRow
	if n == nil {
		return nil
	}
	var stack []ast.Node
	ast.Inspect(n, func(m ast.Node) bool {
		if m == nil {
			top := stack[len(stack)-1]
			stack = stack[:len(stack)-1]
			switch t := top.(type) {
			case *ast.CallExpr:
				if w.relevant(t) {
					out = append(out, x10CallRow{exprString(t.Fun), x10Args(w.pi, t)})
					w.flat = append(w.flat, x10Call(w.pi, t))
				}
			case *ast.CompositeLit:
				if w.litType != "" && typeName(t.Type) == w.litType {
					d := x10Lit(w.pi, t)
					out = append(out, x10CallRow{"&" + w.litType, d[len(w.litType):]})
					w.flat = append(w.flat, "&"+d)
				}
			}
			return true
		}
		if fl, ok := m.(*ast.FuncLit); ok {
			hit := false
			ast.Inspect(fl, func(k ast.Node) bool {
				if c, ok := k.(*ast.CallExpr); ok && w.relevant(c) {
					hit = true
				}
				return true
			})
			if hit {
				w.fail(fl, "relevant call inside a function literal")
			}
			return false
		}
		stack = append(stack, m)
		return true
	})
	return out
}

type x10PathT struct {
	rows []x10CallRow
	done bool // ended by return
}

func (p x10PathT) with(rows ...x10CallRow) x10PathT {
	n := make([]x10CallRow, 0, len(p.rows)+len(rows))
	n = append(n, p.rows...)
	n = append(n, rows...)
	return x10PathT{rows: n, done: p.done}
}

func (w *x10Walker) block(list []ast.Stmt, in []x10PathT) []x10PathT {
	cur := in
	for _, s := range list {
		var next []x10PathT
		for _, p := range cur {
			if p.done {
				next = append(next, p)
			}
		}
		var live []x10PathT
		for _, p := range cur {
			if !p.done {
				live = append(live, p)
			}
		}
		if len(live) > 0 {
			next = append(next, w.stmt(s, live)...)
		}
		cur = next
		if len(cur) > 512 {
			w.fail(s, "too many control-flow paths")
			return cur[:1]
		}
	}
	return cur
}

func x10Extend(ps []x10PathT, rows []x10CallRow) []x10PathT {
	out := make([]x10PathT, len(ps))
	for i, p := range ps {
		out[i] = p.with(rows...)
	}
	return out
}

func (w *x10Walker) stmt(s ast.Stmt, in []x10PathT) []x10PathT {
	switch t := s.(type) {
	case *ast.BlockStmt:
		return w.block(t.List, in)
	case *ast.ReturnStmt:
		out := x10Extend(in, w.calls(t))
		for i := range out {
			out[i].done = true
		}
		return out
	case *ast.IfStmt:
		pre := w.calls(t.Init)
		pre = append(pre, w.calls(t.Cond)...)
		cond := x10Text(t.Cond)
		base := x10Extend(in, pre)
		out := w.block(t.Body.List, x10Extend(base, []x10CallRow{{"?", cond}}))
		els := x10Extend(base, []x10CallRow{{"?", "!(" + cond + ")"}})
		if t.Else != nil {
			out = append(out, w.stmt(t.Else, els)...)
		} else {
			out = append(out, els...)
		}
		return out
	case *ast.SwitchStmt, *ast.TypeSwitchStmt:
		var init ast.Stmt
		var tag ast.Node
		var body *ast.BlockStmt
		if sw, ok := t.(*ast.SwitchStmt); ok {
			init, body = sw.Init, sw.Body
			if sw.Tag != nil {
				tag = sw.Tag
			}
		} else {
			ts := t.(*ast.TypeSwitchStmt)
			init, tag, body = ts.Init, ts.Assign, ts.Body
		}
		pre := w.calls(init)
		pre = append(pre, w.calls(tag)...)
		base := x10Extend(in, pre)
		var out []x10PathT
		hasDefault := false
		for _, c := range body.List {
			cc := c.(*ast.CaseClause)
			label := "default"
			if cc.List == nil {
				hasDefault = true
			} else {
				var ls []string
				for _, e := range cc.List {
					ls = append(ls, x10Text(e))
					if len(w.calls(e)) > 0 {
						w.fail(e, "relevant call in a case expression")
					}
				}
				label = strings.Join(ls, ", ")
			}
			for _, st := range cc.Body {
				if b, ok := st.(*ast.BranchStmt); ok && b.Tok == token.FALLTHROUGH {
					w.fail(b, "fallthrough")
				}
			}
			out = append(out, w.block(cc.Body, x10Extend(base, []x10CallRow{{"?", "case " + label}}))...)
		}
		if !hasDefault {
			out = append(out, x10Extend(base, []x10CallRow{{"?", "case none"}})...)
		}
		return out
	case *ast.ForStmt, *ast.RangeStmt, *ast.SelectStmt, *ast.GoStmt, *ast.DeferStmt, *ast.LabeledStmt:
		if len(w.calls(t)) > 0 {
			w.fail(t, "relevant call inside a loop / select / go / defer / labelled statement")
		}
		return in
	case *ast.BranchStmt:
		w.sawJump = true
		w.fail(t, "break/continue/goto")
		return in
	default: // assignments, expression statements, declarations, inc/dec, send
		return x10Extend(in, w.calls(t))
	}
}

func x10LeanRows(rows []x10CallRow) string {
	var parts []string
	for _, r := range rows {
		parts = append(parts, fmt.Sprintf("(%s, %s)", leanStr(r.fn), leanStr(r.args)))
	}
	return "[" + strings.Join(parts, ", ") + "]"
}

func x10LeanPaths(ps []x10PathT) string {
	var parts []string
	for _, p := range ps {
		parts = append(parts, "      "+x10LeanRows(p.rows))
	}
	return "[\n" + strings.Join(parts, ",\n") + "]"
}

// x10FieldHow classifies the right-hand side of `request.F = e` / `F: e` in a Request literal.
// base is the expression text that counts as "the start directory" in this context.
func x10FieldHow(pi *pkgInfo, e ast.Expr, base string) string {
	switch t := e.(type) {
	case *ast.CallExpr:
		fn := exprString(t.Fun)
		if fn == "cleanPathWithBase" && len(t.Args) == 2 {
			src := x10FieldSrc(t.Args[1])
			if b := x10Text(t.Args[0]); b != base {
				return "cleanPathWithBase[" + b + "]:" + src
			}
			return "cleanPathWithBase:" + src
		}
		if fn == "cleanPath" && len(t.Args) == 1 {
			return "cleanPath:" + x10FieldSrc(t.Args[0])
		}
		if fn == "requestMethod" && len(t.Args) == 1 {
			return "requestMethod:" + x10FieldSrc(t.Args[0])
		}
		return "?" + x10Text(e)
	case *ast.SelectorExpr:
		return "verbatim:" + t.Sel.Name
	case *ast.TypeAssertExpr:
		if sel, ok := t.X.(*ast.SelectorExpr); ok && t.Type != nil && x10Text(t.Type) == "[]byte" {
			return "bytes:" + sel.Sel.Name
		}
	case *ast.BasicLit:
		if s, ok := pi.exprStr(t); ok {
			return "const:" + s
		}
	}
	return "?" + x10Text(e)
}

func x10FieldSrc(e ast.Expr) string {
	switch t := e.(type) {
	case *ast.SelectorExpr:
		return exprString(t.X) + "." + t.Sel.Name
	case *ast.CallExpr:
		if len(t.Args) == 0 {
			return exprString(t.Fun) + "()"
		}
	case *ast.Ident:
		return t.Name
	}
	return "?" + x10Text(e)
}

type x10Field struct{ scope, field, how string }

func x10LeanFields(fs []x10Field) string {
	var parts []string
	for _, f := range fs {
		parts = append(parts, fmt.Sprintf("  (%s, %s, %s)", leanStr(f.scope), leanStr(f.field), leanStr(f.how)))
	}
	return "[\n" + strings.Join(parts, ",\n") + "]"
}

func extractReqServer(x *extractor) {
	u := x.newUnit("ReqServer")
	pi := x.root
	u.pf("namespace Sftp.G\n\n")

	// ---------- requestMethod ----------
	type kv struct{ k, v string }
	var methods []kv
	methodDefault := false
	if fd := pi.funcDecl("requestMethod"); fd == nil {
		u.fail("requestMethod not found")
	} else {
		u.pf("-- source: %s (requestMethod)\n", pi.pos(fd))
		body := x10Stmts(pi, fd.Body.List)
		var ts *ast.TypeSwitchStmt
		if len(body) == 2 {
			ts, _ = body[0].(*ast.TypeSwitchStmt)
		}
		if ts == nil || x10Text(ts.Assign) != "p.(type)" || ts.Init != nil || x10Text(body[1]) != "return method" ||
			fd.Type.Results == nil || len(fd.Type.Results.List) != 1 || len(fd.Type.Results.List[0].Names) != 1 || fd.Type.Results.List[0].Names[0].Name != "method" {
			u.fail("requestMethod: body is not `switch p.(type) {…}; return method` with a named result `method` (%s)", pi.pos(fd))
		} else {
			for _, c := range ts.Body.List {
				cc := c.(*ast.CaseClause)
				val, ok := "", true
				switch cb := x10Stmts(pi, cc.Body); len(cb) {
				case 0:
				case 1:
					as, isAs := cb[0].(*ast.AssignStmt)
					if isAs && as.Tok == token.ASSIGN && len(as.Lhs) == 1 && len(as.Rhs) == 1 && x10Text(as.Lhs[0]) == "method" {
						val, ok = pi.exprStr(as.Rhs[0])
					} else {
						ok = false
					}
				default:
					ok = false
				}
				if !ok {
					u.fail("requestMethod: case body is not empty or `method = \"…\"` at %s", pi.pos(cc))
					val = "?"
				}
				if cc.List == nil {
					methodDefault = true
					methods = append(methods, kv{"default", val})
				}
				for _, e := range cc.List {
					methods = append(methods, kv{typeName(e), val})
				}
			}
		}
	}
	var parts []string
	for _, m := range methods {
		parts = append(parts, fmt.Sprintf("(%s, %s)", leanStr(m.k), leanStr(m.v)))
	}
	u.pf("def requestMethodTable : List (String × String) := [\n  %s]\n", strings.Join(parts, ",\n  "))
	u.pf("def requestMethodHasDefault : Bool := %s\n\n", leanBool(methodDefault))

	// ---------- Request.call ----------
	var calls, callArgs []kv
	if fd := pi.funcDecl("Request.call"); fd == nil {
		u.fail("Request.call not found")
	} else {
		u.pf("-- source: %s (Request.call)\n", pi.pos(fd))
		body := x10Stmts(pi, fd.Body.List)
		var sw *ast.SwitchStmt
		if len(body) == 1 {
			sw, _ = body[0].(*ast.SwitchStmt)
		}
		if sw == nil || sw.Tag == nil || x10Text(sw.Tag) != "r.Method" || sw.Init != nil {
			u.fail("Request.call: body is not a single `switch r.Method` (%s)", pi.pos(fd))
		} else {
			retCall := func(s ast.Stmt) (fn, arg string, ok bool) {
				rs, isR := s.(*ast.ReturnStmt)
				if !isR || len(rs.Results) != 1 {
					return "", "", false
				}
				c, isC := rs.Results[0].(*ast.CallExpr)
				if !isC || len(c.Args) < 2 {
					return "", "", false
				}
				id, isId := c.Fun.(*ast.Ident)
				if !isId {
					return "", "", false
				}
				return id.Name, x10Arg(pi, c.Args[0]), true
			}
			for _, c := range sw.Body.List {
				cc := c.(*ast.CaseClause)
				cb := x10Stmts(pi, cc.Body)
				fn, arg := "?", "?"
				switch {
				case len(cb) == 1:
					if f, a, ok := retCall(cb[0]); ok {
						fn, arg = f, a
					}
				case len(cb) == 2:
					// if X, ok := handlers.H.(IFACE); ok { return A(X, …) }; return B(handlers.H, …)
					if ifs, ok := cb[0].(*ast.IfStmt); ok && ifs.Else == nil && ifs.Init != nil && x10Text(ifs.Cond) == "ok" && len(ifs.Body.List) == 1 {
						if as, ok := ifs.Init.(*ast.AssignStmt); ok && len(as.Rhs) == 1 && len(as.Lhs) == 2 {
							if ta, ok := as.Rhs[0].(*ast.TypeAssertExpr); ok && ta.Type != nil {
								f1, a1, ok1 := retCall(ifs.Body.List[0])
								f2, a2, ok2 := retCall(cb[1])
								if ok1 && ok2 && a1 == "V:"+x10Text(as.Lhs[0]) && "S:"+x10Text(ta.X) == a2 {
									fn, arg = f1+"-or-"+f2, a2+".("+x10Text(ta.Type)+")"
								}
							}
						}
					}
				}
				if fn == "?" {
					u.fail("Request.call: case body is not `return wrapper(handlers.H, …)` (or the optional-interface form) at %s", pi.pos(cc))
				}
				if cc.List == nil {
					if fn != "statusFromError" {
						u.fail("Request.call: default does not return statusFromError at %s", pi.pos(cc))
					}
					calls = append(calls, kv{"default", fn})
					continue
				}
				for _, e := range cc.List {
					s, ok := pi.exprStr(e)
					if !ok {
						u.fail("Request.call: non-constant case at %s", pi.pos(e))
						continue
					}
					calls = append(calls, kv{s, fn})
					callArgs = append(callArgs, kv{s, arg})
				}
			}
		}
	}
	parts = nil
	for _, m := range calls {
		parts = append(parts, fmt.Sprintf("(%s, %s)", leanStr(m.k), leanStr(m.v)))
	}
	u.pf("def requestCallTable : List (String × String) := [\n  %s]\n", strings.Join(parts, ",\n  "))
	parts = nil
	for _, m := range callArgs {
		parts = append(parts, fmt.Sprintf("(%s, %s)", leanStr(m.k), leanStr(m.v)))
	}
	u.pf("def requestCallHandlerArg : List (String × String) := [\n  %s]\n\n", strings.Join(parts, ",\n  "))

	// ---------- packetWorker ----------
	type pwCase struct {
		typ   string
		flat  []string
		paths []x10PathT
	}
	var pwCases []pwCase
	var synth []x10Field
	readyOnce, unwraps, baseOK, validates, kindChecked := false, false, true, false, false
	if fd := pi.funcDecl("RequestServer.packetWorker"); fd == nil {
		u.fail("RequestServer.packetWorker not found")
	} else {
		u.pf("-- source: %s (RequestServer.packetWorker)\n", pi.pos(fd))
		top := x10Stmts(pi, fd.Body.List)
		var loop *ast.RangeStmt
		if len(top) == 2 {
			loop, _ = top[0].(*ast.RangeStmt)
		}
		if loop == nil || x10Text(loop.X) != "pktChan" || loop.Key == nil || x10Text(loop.Key) != "pkt" || x10Text(top[1]) != "return nil" {
			u.fail("packetWorker: body is not `for pkt := range pktChan {…}; return nil` (%s)", pi.pos(fd))
		} else {
			lb := x10Stmts(pi, loop.Body.List)
			// optional pre-check between the unwrapping and `var rpkt`: a request whose attribute block does not match its
			// flags is answered at once (one readyPacket, then continue) and never reaches the switch
			const precheck = "if err := attrsError(pkt.requestPacket); err != nil { rs.pktMgr.readyPacket(rs.pktMgr.newOrderedResponse(statusFromError(pkt.id(), err), orderID)) continue }"
			if len(lb) == 6 && x10Text(lb[2]) == precheck {
				validates = true
				lb = append(append([]ast.Stmt{}, lb[:2]...), lb[3:]...)
			}
			var ts *ast.TypeSwitchStmt
			if len(lb) == 5 {
				ts, _ = lb[3].(*ast.TypeSwitchStmt)
			}
			const unwrap = "if epkt, ok := pkt.requestPacket.(*sshFxpExtendedPacket); ok { if epkt.SpecificPacket != nil { pkt.requestPacket = epkt.SpecificPacket } }"
			const ready = "rs.pktMgr.readyPacket(rs.pktMgr.newOrderedResponse(rpkt, orderID))"
			if ts == nil || x10Text(lb[0]) != "orderID := pkt.orderID()" || x10Text(lb[2]) != "var rpkt responsePacket" ||
				x10Text(ts.Assign) != "pkt := pkt.requestPacket.(type)" || ts.Init != nil {
				u.fail("packetWorker: loop body is not {orderID := pkt.orderID(); unwrap; [attrsError pre-check;] var rpkt; switch pkt := pkt.requestPacket.(type) {…}; readyPacket} (%s)", pi.pos(loop))
				validates = false
			} else {
				unwraps = x10Text(lb[1]) == unwrap
				if !unwraps {
					u.fail("packetWorker: the extended-packet unwrapping is not the expected statement (%s)", pi.pos(lb[1]))
				}
				readyOnce = x10Text(lb[4]) == ready
				if !readyOnce {
					u.fail("packetWorker: the statement after the switch is not the single readyPacket call (%s)", pi.pos(lb[4]))
				}
				// every path through the loop body calls readyPacket exactly once: the one after the switch (plus the one of the
				// pre-check path, which ends in `continue`), no other readyPacket in the function, no jump out of a case
				n := 0
				ast.Inspect(fd.Body, func(m ast.Node) bool {
					if c, ok := m.(*ast.CallExpr); ok && strings.HasSuffix(exprString(c.Fun), ".readyPacket") {
						n++
					}
					return true
				})
				want := 1
				if validates {
					want = 2
				}
				if n != want {
					readyOnce = false
				}
				ast.Inspect(ts, func(m ast.Node) bool {
					switch m.(type) {
					case *ast.FuncLit:
						return false
					case *ast.ReturnStmt, *ast.BranchStmt:
						readyOnce = false
					}
					return true
				})
				relevant := func(c *ast.CallExpr) bool {
					fn := exprString(c.Fun)
					switch fn {
					case "cleanPathWithBase", "cleanPath", "requestFromPacket", "statusFromError", "cleanPacketPath":
						return true
					}
					if strings.HasPrefix(fn, "rs.pktMgr.") {
						return false
					}
					switch x10Root(c.Fun) {
					case "rs", "request", "pather":
						_, isSel := c.Fun.(*ast.SelectorExpr)
						return isSel
					}
					return false
				}
				for _, c := range ts.Body.List {
					cc := c.(*ast.CaseClause)
					w := &x10Walker{pi: pi, u: u, where: "packetWorker", relevant: relevant, litType: "Request"}
					paths := w.block(cc.Body, []x10PathT{{}})
					names := []string{"default"}
					if cc.List != nil {
						names = nil
						for _, e := range cc.List {
							names = append(names, typeName(e))
						}
					}
					// Request literals: field provenance
					ast.Inspect(cc, func(m ast.Node) bool {
						cl, ok := m.(*ast.CompositeLit)
						if !ok || typeName(cl.Type) != "Request" {
							return true
						}
						for _, e := range cl.Elts {
							kvx, ok := e.(*ast.KeyValueExpr)
							if !ok {
								u.fail("packetWorker: positional Request literal at %s", pi.pos(cl))
								continue
							}
							for _, nm := range names {
								synth = append(synth, x10Field{nm, exprString(kvx.Key), x10FieldHow(pi, kvx.Value, "rs.startDirectory")})
							}
						}
						return true
					})
					ast.Inspect(cc, func(m ast.Node) bool {
						if call, ok := m.(*ast.CallExpr); ok && exprString(call.Fun) == "requestFromPacket" {
							if len(call.Args) != 3 || x10Text(call.Args[1]) != "pkt" || x10Text(call.Args[2]) != "rs.startDirectory" {
								baseOK = false
							}
						}
						return true
					})
					if len(names) == 1 && names[0] == "hasHandle" {
						// handle := pkt.getHandle(); request, ok := rs.getRequest(handle);
						// if !ok {EBADF} else if !request.servesPacket(pkt) {status} else {rpkt = request.call(…)}
						cb := x10Stmts(pi, cc.Body)
						if len(cb) == 3 && x10Text(cb[0]) == "handle := pkt.getHandle()" && x10Text(cb[1]) == "request, ok := rs.getRequest(handle)" {
							if i1, ok := cb[2].(*ast.IfStmt); ok && i1.Init == nil && x10Text(i1.Cond) == "!ok" && !strings.Contains(x10Text(i1.Body), "request.") {
								if i2, ok := i1.Else.(*ast.IfStmt); ok && i2.Init == nil && x10Text(i2.Cond) == "!request.servesPacket(pkt)" {
									b2 := x10Texts(pi, i2.Body.List)
									eb, isBlock := i2.Else.(*ast.BlockStmt)
									if isBlock && len(b2) == 1 && strings.HasPrefix(b2[0], "rpkt = statusFromError(pkt.id(), ") && !strings.Contains(b2[0], "request.") &&
										x10Eq(x10Texts(pi, eb.List), "rpkt = request.call(rs.Handlers, pkt, rs.pktMgr.alloc, orderID, rs.maxTxPacket)") {
										kindChecked = true
									}
								}
							}
						}
					}
					for _, nm := range names {
						pwCases = append(pwCases, pwCase{nm, w.flat, paths})
					}
				}
			}
		}
	}
	parts = nil
	for _, c := range pwCases {
		parts = append(parts, fmt.Sprintf("  (%s, %s)", leanStr(c.typ), leanStrList(c.flat)))
	}
	u.pf("/-- case type ↦ the relevant calls of the case body, in evaluation order (all branches flattened). -/\n")
	u.pf("def packetWorkerCases : List (String × List String) := [\n%s]\n", strings.Join(parts, ",\n"))
	parts = nil
	for _, c := range pwCases {
		parts = append(parts, fmt.Sprintf("  (%s, %s)", leanStr(c.typ), x10LeanPaths(c.paths)))
	}
	u.pf("/-- case type ↦ one list per control-flow path: (function, arguments); (\"?\", condition) marks a branch decision. -/\n")
	u.pf("def packetWorkerPaths : List (String × List (List (String × String))) := [\n%s]\n", strings.Join(parts, ",\n"))
	u.pf("def packetWorkerReadyOnce : Bool := %s\n", leanBool(readyOnce))
	u.pf("def packetWorkerUnwrapsExtended : Bool := %s\n", leanBool(unwraps))
	// attrsError: OPEN / SETSTAT / FSETSTAT attribute blocks are decoded against their flags
	var attrTypes []string
	if validates {
		fd := pi.funcDecl("attrsError")
		good := fd != nil
		if good {
			body := x10Stmts(pi, fd.Body.List)
			var ts *ast.TypeSwitchStmt
			if len(body) == 7 {
				ts, _ = body[2].(*ast.TypeSwitchStmt)
			}
			good = ts != nil && x10Text(body[0]) == "var flags uint32" && x10Text(body[1]) == "var attrs any" &&
				x10Text(ts.Assign) == "p := pkt.(type)" && x10Text(body[3]) == "b, ok := attrs.([]byte)" &&
				x10Text(body[4]) == "if !ok { return nil }" && x10Text(body[5]) == "_, _, err := unmarshalFileStat(flags, b)" &&
				x10Text(body[6]) == "return err"
			if good {
				sawDefault := false
				for _, c := range ts.Body.List {
					cc := c.(*ast.CaseClause)
					texts := x10Texts(pi, cc.Body)
					if cc.List == nil {
						sawDefault = x10Eq(texts, "return nil")
						continue
					}
					if !x10Eq(texts, "flags, attrs = p.Flags, p.Attrs") {
						good = false
					}
					for _, e := range cc.List {
						attrTypes = append(attrTypes, typeName(e))
					}
				}
				good = good && sawDefault
			}
		}
		if !good {
			u.fail("attrsError: body is not {switch p := pkt.(type) { case …: flags, attrs = p.Flags, p.Attrs; default: return nil }; b, ok := attrs.([]byte); …; _, _, err := unmarshalFileStat(flags, b); return err} (%s)", x10Pos(pi, fd))
			validates = false
			attrTypes = nil
		}
	}
	u.pf("/-- `if err := attrsError(pkt.requestPacket); err != nil { readyPacket(status); continue }` precedes the type switch. -/\n")
	u.pf("def packetWorkerValidatesAttrs : Bool := %s\n", leanBool(validates))
	u.pf("def attrsErrorTypes : List String := %s\n", leanStrList(attrTypes))
	// Request.servesPacket: packet type ↦ the handle methods that may serve it
	type spRow struct {
		typ  string
		meth []string
	}
	var sp []spRow
	spDefault := false
	if fd := pi.funcDecl("Request.servesPacket"); fd != nil {
		body := x10Stmts(pi, fd.Body.List)
		var ts *ast.TypeSwitchStmt
		if len(body) == 2 {
			ts, _ = body[0].(*ast.TypeSwitchStmt)
		}
		good := ts != nil && x10Text(ts.Assign) == "pkt.(type)" && x10Text(body[1]) == "return true"
		if good {
			spDefault = true
			for _, c := range ts.Body.List {
				cc := c.(*ast.CaseClause)
				cb := x10Stmts(pi, cc.Body)
				var rs *ast.ReturnStmt
				if len(cb) == 1 {
					rs, _ = cb[0].(*ast.ReturnStmt)
				}
				if cc.List == nil || rs == nil || len(rs.Results) != 1 {
					good = false
					continue
				}
				// r.Method == "A" || r.Method == "B" || …
				var meth []string
				var walk func(e ast.Expr) bool
				walk = func(e ast.Expr) bool {
					be, ok := e.(*ast.BinaryExpr)
					if !ok {
						return false
					}
					if be.Op == token.LOR {
						return walk(be.X) && walk(be.Y)
					}
					if be.Op == token.EQL && x10Text(be.X) == "r.Method" {
						if m, ok := pi.exprStr(be.Y); ok {
							meth = append(meth, m)
							return true
						}
					}
					return false
				}
				if !walk(rs.Results[0]) {
					good = false
					continue
				}
				for _, e := range cc.List {
					sp = append(sp, spRow{typeName(e), meth})
				}
			}
		}
		if !good {
			u.fail("Request.servesPacket: body is not `switch pkt.(type) { case *T: return r.Method == \"…\" || … }; return true` (%s)", pi.pos(fd))
			sp, spDefault = nil, false
		}
	} else if kindChecked {
		u.fail("packetWorker calls request.servesPacket but Request.servesPacket was not found")
	}
	parts = nil
	for _, r := range sp {
		parts = append(parts, fmt.Sprintf("(%s, %s)", leanStr(r.typ), leanStrList(r.meth)))
	}
	u.pf("/-- Request.servesPacket: packet type ↦ the methods of a handle that may serve it (other types: any). -/\n")
	u.pf("def servesPacketTable : List (String × List String) := [%s]\n", strings.Join(parts, ", "))
	u.pf("def servesPacketOtherTypesPass : Bool := %s\n", leanBool(spDefault))
	spOK := spDefault && len(sp) == 3
	if spOK {
		want := map[string]string{"sshFxpReadPacket": "Get,Open", "sshFxpWritePacket": "Put,Open", "sshFxpReaddirPacket": "List"}
		for _, r := range sp {
			m := append([]string{}, r.meth...)
			if want[r.typ] == "" || strings.Join(m, ",") != want[r.typ] {
				spOK = false
			}
			delete(want, r.typ)
		}
	}
	u.pf("/-- in `case hasHandle:` the guard `else if !request.servesPacket(pkt) { status }` stands between the EBADF branch and\n")
	u.pf("`request.call`, and servesPacket is READ ↦ {Get, Open}, WRITE ↦ {Put, Open}, READDIR ↦ {List}. -/\n")
	u.pf("def handleKindChecked : Bool := %s\n", leanBool(kindChecked && spOK))
	u.pf("def requestFromPacketBaseIsStartDirectory : Bool := %s\n", leanBool(baseOK && len(pwCases) > 0))
	u.pf("/-- Request literals built inside packetWorker: (case, field, provenance). -/\n")
	u.pf("def packetWorkerRequestFields : List (String × String × String) := %s\n\n", x10LeanFields(synth))

	// ---------- requestFromPacket ----------
	var fields []x10Field
	if fd := pi.funcDecl("requestFromPacket"); fd == nil {
		u.fail("requestFromPacket not found")
	} else {
		u.pf("-- source: %s (requestFromPacket)\n", pi.pos(fd))
		// parameters (ctx, pkt, baseDir)
		var params []string
		for _, f := range fd.Type.Params.List {
			for _, n := range f.Names {
				params = append(params, n.Name)
			}
		}
		body := x10Stmts(pi, fd.Body.List)
		var ts *ast.TypeSwitchStmt
		if len(body) == 4 {
			ts, _ = body[2].(*ast.TypeSwitchStmt)
		}
		var lit *ast.CompositeLit
		if len(body) == 4 {
			if as, ok := body[0].(*ast.AssignStmt); ok && len(as.Lhs) == 1 && len(as.Rhs) == 1 && x10Text(as.Lhs[0]) == "request" {
				if ue, ok := as.Rhs[0].(*ast.UnaryExpr); ok && ue.Op == token.AND {
					lit, _ = ue.X.(*ast.CompositeLit)
				}
			}
		}
		if ts == nil || lit == nil || typeName(lit.Type) != "Request" || len(params) != 3 || params[1] != "pkt" ||
			x10Text(body[1]) != "request.ctx, request.cancelCtx = context.WithCancel(ctx)" ||
			x10Text(ts.Assign) != "p := pkt.(type)" || x10Text(body[3]) != "return request" {
			u.fail("requestFromPacket: body is not {request := &Request{…}; ctx; switch p := pkt.(type) {…}; return request} (%s)", pi.pos(fd))
		} else {
			base := params[2]
			for _, e := range lit.Elts {
				kvx, ok := e.(*ast.KeyValueExpr)
				if !ok {
					u.fail("requestFromPacket: positional Request literal at %s", pi.pos(lit))
					continue
				}
				fields = append(fields, x10Field{"*", exprString(kvx.Key), x10FieldHow(pi, kvx.Value, base)})
			}
			for _, c := range ts.Body.List {
				cc := c.(*ast.CaseClause)
				names := []string{"default"}
				if cc.List != nil {
					names = nil
					for _, e := range cc.List {
						names = append(names, typeName(e))
					}
				}
				for _, s := range x10Stmts(pi, cc.Body) {
					as, ok := s.(*ast.AssignStmt)
					if !ok || as.Tok != token.ASSIGN || len(as.Lhs) != 1 || len(as.Rhs) != 1 {
						u.fail("requestFromPacket: case statement is not `request.F = e` at %s", pi.pos(s))
						continue
					}
					sel, ok := as.Lhs[0].(*ast.SelectorExpr)
					if !ok || x10Text(sel.X) != "request" {
						u.fail("requestFromPacket: case statement is not `request.F = e` at %s", pi.pos(s))
						continue
					}
					for _, nm := range names {
						fields = append(fields, x10Field{nm, sel.Sel.Name, x10FieldHow(pi, as.Rhs[0], base)})
					}
				}
			}
		}
	}
	for _, f := range append(append([]x10Field{}, fields...), synth...) {
		if strings.HasPrefix(f.how, "?") {
			u.fail("request field %s.%s: unrecognised provenance %q", f.scope, f.field, f.how)
		}
	}
	u.pf("/-- (case or \"*\" for the literal, Request field, provenance). -/\n")
	u.pf("def requestFromPacketFields : List (String × String × String) := %s\n\n", x10LeanFields(fields))

	// ---------- filecmd's late fields (FSETSTAT) ----------
	var late []x10Field
	if fd := pi.funcDecl("filecmd"); fd == nil {
		u.fail("filecmd not found")
	} else if body := x10Stmts(pi, fd.Body.List); len(body) > 0 {
		if ts, ok := body[0].(*ast.TypeSwitchStmt); ok && x10Text(ts.Assign) == "p := pkt.(type)" {
			u.pf("-- source: %s (filecmd)\n", pi.pos(ts))
			for _, c := range ts.Body.List {
				cc := c.(*ast.CaseClause)
				for _, s := range x10Stmts(pi, cc.Body) {
					as, ok := s.(*ast.AssignStmt)
					var sel *ast.SelectorExpr
					if ok && len(as.Lhs) == 1 && len(as.Rhs) == 1 {
						sel, _ = as.Lhs[0].(*ast.SelectorExpr)
					}
					if sel == nil || x10Text(sel.X) != "r" || cc.List == nil {
						u.fail("filecmd: unrecognised statement in the packet switch at %s", pi.pos(s))
						continue
					}
					for _, e := range cc.List {
						late = append(late, x10Field{typeName(e), sel.Sel.Name, x10FieldHow(pi, as.Rhs[0], "")})
					}
				}
			}
		}
	}
	u.pf("def filecmdFields : List (String × String × String) := %s\n\n", x10LeanFields(late))

	// ---------- start directory ----------
	cleaned, deflt := false, ""
	if fd := pi.funcDecl("WithStartDirectory"); fd == nil {
		u.fail("WithStartDirectory not found")
	} else {
		u.pf("-- source: %s (WithStartDirectory)\n", pi.pos(fd))
		cleaned = x10Text(fd.Body) == "{ return func(rs *RequestServer) { rs.startDirectory = cleanPath(startDirectory) } }"
		if !cleaned && x10Text(fd.Body) != "{ return func(rs *RequestServer) { rs.startDirectory = startDirectory } }" {
			u.fail("WithStartDirectory: body is not `rs.startDirectory = [cleanPath](startDirectory)` (%s)", pi.pos(fd))
		}
	}
	if fd := pi.funcDecl("NewRequestServer"); fd == nil {
		u.fail("NewRequestServer not found")
	} else {
		found := false
		ast.Inspect(fd.Body, func(m ast.Node) bool {
			if kvx, ok := m.(*ast.KeyValueExpr); ok && x10Text(kvx.Key) == "startDirectory" {
				if s, ok := pi.exprStr(kvx.Value); ok {
					deflt, found = s, true
				}
			}
			return true
		})
		if !found {
			u.fail("NewRequestServer: constant default for startDirectory not found (%s)", pi.pos(fd))
		}
		// nothing else assigns startDirectory
	}
	nAssign := 0
	for _, f := range pi.files {
		ast.Inspect(f, func(m ast.Node) bool {
			if as, ok := m.(*ast.AssignStmt); ok {
				for _, l := range as.Lhs {
					if sel, ok := l.(*ast.SelectorExpr); ok && sel.Sel.Name == "startDirectory" {
						nAssign++
					}
				}
			}
			return true
		})
	}
	if nAssign != 1 {
		u.fail("startDirectory is assigned %d times in the package (expected once, in WithStartDirectory)", nAssign)
		cleaned = false
	}
	u.pf("def startDirectoryCleaned : Bool := %s\n", leanBool(cleaned))
	u.pf("def startDirectoryDefault : String := %s\n", leanStr(deflt))
	ok, _ := x10BodyIs(pi, "cleanPath", `return cleanPathWithBase("/", p)`)
	u.pf("def cleanPathIsWithBaseRoot : Bool := %s\n\n", leanBool(ok))
	if !ok {
		u.fail("cleanPath: body is not `return cleanPathWithBase(\"/\", p)`")
	}

	// ---------- every other place that stores a method name ----------
	// `r.Method = "…"` in Request.open / opendir (the method of an open handle) and the documented fallbacks of
	// filecmd (PosixRename -> Rename) and filestat (Lstat -> Stat).  Any assignment to a field named Method anywhere
	// else in the package (outside Request literals, which are covered above) is reported.
	var massign []kv
	for fi, f := range pi.files {
		_ = fi
		for _, d := range f.Decls {
			fd, ok := d.(*ast.FuncDecl)
			if !ok || fd.Body == nil {
				continue
			}
			name := fd.Name.Name
			if fd.Recv != nil && len(fd.Recv.List) == 1 {
				name = recvName(fd.Recv.List[0].Type) + "." + name
			}
			ast.Inspect(fd.Body, func(m ast.Node) bool {
				as, ok := m.(*ast.AssignStmt)
				if !ok {
					return true
				}
				for i, l := range as.Lhs {
					sel, ok := l.(*ast.SelectorExpr)
					if !ok || sel.Sel.Name != "Method" {
						continue
					}
					v := "?"
					if len(as.Lhs) == len(as.Rhs) {
						if s, ok := pi.exprStr(as.Rhs[i]); ok {
							v = s
						}
					}
					if v == "?" {
						u.fail("%s: assignment to .Method that is not a string constant at %s", name, pi.pos(as))
					}
					massign = append(massign, kv{name, v})
				}
				return true
			})
		}
	}
	parts = nil
	for _, m := range massign {
		parts = append(parts, fmt.Sprintf("(%s, %s)", leanStr(m.k), leanStr(m.v)))
	}
	u.pf("-- source: request.go, request-server.go (every `x.Method = …` assignment in the package)\n")
	u.pf("def methodAssignments : List (String × String) := [%s]\n\n", strings.Join(parts, ", "))

	// ---------- handler-reaching calls of open/opendir and the wrappers ----------
	handlerMethod := map[string]bool{"Fileread": true, "Filewrite": true, "OpenFile": true, "Filecmd": true, "PosixRename": true,
		"StatVFS": true, "Filelist": true, "Lstat": true, "Readlink": true, "RealPath": true,
		"ReadAt": true, "WriteAt": true, "ListAt": true}
	relevantH := func(c *ast.CallExpr) bool {
		if sel, ok := c.Fun.(*ast.SelectorExpr); ok {
			return handlerMethod[sel.Sel.Name]
		}
		if id, ok := c.Fun.(*ast.Ident); ok {
			switch id.Name {
			case "fileget", "fileput", "fileputget", "filecmd", "filelist", "filestat", "readlink":
				return true
			}
		}
		return false
	}
	parts = nil
	u.pf("-- source: request.go (Request.open, Request.opendir, fileget, fileput, fileputget, filecmd, filelist, filestat, readlink)\n")
	for _, fn := range []string{"Request.open", "Request.opendir", "fileget", "fileput", "fileputget", "filecmd", "filelist", "filestat", "readlink"} {
		fd := pi.funcDecl(fn)
		if fd == nil {
			u.fail("%s not found", fn)
			continue
		}
		w := &x10Walker{pi: pi, u: u, where: fn, relevant: relevantH}
		paths := w.block(fd.Body.List, []x10PathT{{}})
		// keep only the method name of the callee: receivers are local variable names
		for i := range paths {
			var rows []x10CallRow
			for _, r := range paths[i].rows {
				if r.fn == "?" {
					continue // the branch conditions of the wrappers are not needed; drop them to keep the table small
				}
				if j := strings.LastIndex(r.fn, "."); j >= 0 {
					r.fn = r.fn[j+1:]
				}
				rows = append(rows, r)
			}
			paths[i].rows = rows
		}
		// de-duplicate identical paths
		seen := map[string]bool{}
		var uniq []x10PathT
		for _, p := range paths {
			k := x10LeanRows(p.rows)
			if !seen[k] {
				seen[k] = true
				uniq = append(uniq, p)
			}
		}
		parts = append(parts, fmt.Sprintf("  (%s, %s)", leanStr(fn), x10LeanPaths(uniq)))
	}
	u.pf("/-- function ↦ the distinct sequences of handler / handler-object method calls over all control-flow paths. -/\n")
	u.pf("def handlerCallPaths : List (String × List (List (String × String))) := [\n%s]\n", strings.Join(parts, ",\n"))
	u.pf("\nend Sftp.G\n")
}
