package main

import "strings"

func init() { extractors = append(extractors, extractClientConn) }

// extractClientConn: the facts of conn.go / client.go that the M-ClientConn model is parameterised by (C03, C04).
func extractClientConn(x *extractor) {
	u := x.newUnit("ClientConnCfg")
	pi := x.root
	u.pf("import Sftp.Model.ClientConn\nnamespace Sftp.G\n\n")
	body := func(name string) string {
		fd := pi.funcDecl(name)
		if fd == nil {
			u.fail("%s not found", name)
			return ""
		}
		return pi.bodyText(fd)
	}
	get := body("clientConn.getChannel")
	getDeletes := get == "{ c.Lock() defer c.Unlock() ch, ok := c.inflight[sid] delete(c.inflight, sid) return ch, ok }"
	if !getDeletes && !strings.Contains(get, "c.Lock() defer c.Unlock()") {
		u.fail("clientConn.getChannel: unexpected body %q", get)
	}
	put := body("clientConn.putChannel")
	putChecks := put == "{ c.Lock() defer c.Unlock() select { case <-c.closed: ch <- result{err: ErrSSHFxConnectionLost} return false default: } c.inflight[sid] = ch return true }"
	if !putChecks && !strings.HasPrefix(put, "{ c.Lock() defer c.Unlock()") {
		u.fail("clientConn.putChannel: unexpected body %q", put)
	}
	bc := body("clientConn.broadcastErr")
	replaces := bc == "{ c.Lock() defer c.Unlock() bcastRes := result{err: ErrSSHFxConnectionLost} for sid, ch := range c.inflight { ch <- bcastRes c.inflight[sid] = make(chan<- result, 1) } c.err = err close(c.closed) }"
	if !replaces && !(strings.HasPrefix(bc, "{ c.Lock() defer c.Unlock()") && strings.Contains(bc, "close(c.closed)")) {
		u.fail("clientConn.broadcastErr: unexpected body %q", bc)
	}
	sp := body("conn.sendPacket")
	underLock := sp == "{ c.Lock() defer c.Unlock() return sendPacket(c, m) }"
	dr := body("clientConn.dispatchRequest")
	failNotifies := dr == "{ sid := p.id() if !c.putChannel(ch, sid) { return } if err := c.conn.sendPacket(p); err != nil { if ch, ok := c.getChannel(sid); ok { ch <- result{err: err} } } }"
	if !failNotifies && !strings.Contains(dr, "c.putChannel(ch, sid)") {
		u.fail("clientConn.dispatchRequest: unexpected body %q", dr)
	}
	rv := body("clientConn.recv")
	closes := strings.HasPrefix(rv, "{ defer c.conn.Close() for {")
	recvShape := rv == `{ defer c.conn.Close() for { typ, data, err := c.recvPacket(0) if err != nil { return err } sid, _, err := unmarshalUint32Safe(data) if err != nil { return err } ch, ok := c.getChannel(sid) if !ok { return fmt.Errorf("sid not found: %d", sid) } ch <- result{typ: typ, data: data} } }`
	nid := body("Client.nextID")
	atomicID := nid == "{ return atomic.AddUint32(&c.nextid, 1) }"
	// shapes the model hard-codes
	ncp := body("newClientPipe")
	recvGoroutine := strings.Contains(ncp, "if err := c.clientConn.recv(); err != nil { c.clientConn.broadcastErr(err) }")
	csp := body("clientConn.sendPacket")
	ownChan := strings.Contains(csp, "if cap(ch) < 1 { ch = make(chan result, 1) }")
	cl := body("clientConn.Close")
	closeWaits := cl == "{ defer c.wg.Wait() return c.conn.Close() }"
	u.pf("-- source: conn.go, client.go nextID / newClientPipe\n")
	u.pf("def clientConnCfg : Sftp.ClientConn.Cfg := ⟨%s, %s, %s, %s, %s, %s, %s⟩\n",
		leanBool(getDeletes), leanBool(putChecks), leanBool(replaces), leanBool(underLock), leanBool(failNotifies), leanBool(closes), leanBool(atomicID))
	u.pf("/-- shapes the model hard-codes: the receiver loop (reads a frame, parses the id with the bounds-checked decoder,\nfails on an unknown id, delivers), the receiver goroutine (recv then broadcastErr), one private buffered channel per call,\nClose = conn.Close then wait for the receiver -/\n")
	u.pf("def clientConnShapes : Bool := %s\n", leanBool(recvShape && recvGoroutine && ownChan && closeWaits))
	u.pf("\nend Sftp.G\n")
}
