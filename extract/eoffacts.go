package main

// Unit EofFacts (C04): how the client recognises the PROTOCOL's end marker.
//
// normaliseError turns an SSH_FX_EOF status into the bare io.EOF value.  The multi-request loops of
// client.go (ReadDirContext, writeToSequential, the reduce loop of WriteTo) end -- with a nil error and
// whatever was collected so far -- when they see that value, and they test it by IDENTITY (`err == io.EOF`).
// A transport write failure travels the same variables, but packet.go's sendPacket wraps the writer's error
// with %w, so a writer that fails with io.EOF arrives as a WRAPPED io.EOF: `==` rejects it (the call returns
// the error), errors.Is would accept it (the call would return a silently truncated success).
//
// Closed list of shapes.  Every mention of io.EOF in client.go / conn.go / packet.go / sftp.go must be
//   a test:      X == io.EOF, X != io.EOF, io.EOF == X        (how "identity")
//                switch X { case io.EOF: }                    (how "identity")
//                errors.Is(X, io.EOF)                         (how "errorsIs")
//                any other call argument / operand            (how "other", recorded as a broken tie)
//   a producer:  return …, io.EOF / X = io.EOF / fmt.Errorf(…, io.EOF) / T{…io.EOF…}
// The role of a test is read off the statements executed when the comparison is TRUE (the then-block, the
// case body, or -- for a negated test joined by && only -- the else-block / the statements after the if):
//   X = nil, break, continue, bare return, return …, nil   => "loop-end"
//   return …, <non-nil>  or  X = <non-nil>                  => "passthrough"
//   anything else                                           => "other" (broken tie, counted like loop-end)
// The origin of the tested value X is a flow-insensitive data-flow over the enclosing function declaration
// (by types.Object identity, so shadowed `err`s are kept apart):
//   "reader"    every assignment to X is io.ReadFull/io.ReadAtLeast/io.Copy* or a Read/Write/ReadAt/WriteAt/
//               ReadFrom/WriteTo call on a value whose static type is an interface of package io
//   "roundtrip" some assignment is a method call on a type of package sftp (c.sendPacket, f.readChunkAt,
//               c.ReadDir, c.recvPacket …), sendPacket/recvPacket/normaliseError, a channel receive, a field
//               (s.err, res.err, packet.err), io.EOF itself, or another variable with such an origin
//   "unknown"   anything else (parameter, only local constructors, no type information): broken tie,
//               counted like roundtrip.

import (
	"fmt"
	"go/ast"
	"go/token"
	"go/types"
	"sort"
	"strings"
)

func init() { extractors = append(extractors, extractEofFacts) }

type eofRow struct {
	fn, how, role, origin, expr, pos string
}

type eofScan struct {
	pi *pkgInfo
	u  *unit
	ok bool // no broken tie in the eofTests part
}

func (s *eofScan) fail(format string, a ...any) {
	s.ok = false
	s.u.fail(format, a...)
}

func eofUnparen(e ast.Expr) ast.Expr {
	for {
		p, ok := e.(*ast.ParenExpr)
		if !ok {
			return e
		}
		e = p.X
	}
}

// isPkgSel: e is `pkg.name` where pkg is an imported package with the given path.
func (s *eofScan) isPkgSel(e ast.Expr, path, name string) bool {
	sel, ok := eofUnparen(e).(*ast.SelectorExpr)
	if !ok || sel.Sel.Name != name {
		return false
	}
	id, ok := sel.X.(*ast.Ident)
	if !ok {
		return false
	}
	if obj, ok := s.pi.info.Uses[id]; ok {
		pn, ok := obj.(*types.PkgName)
		return ok && pn.Imported().Path() == path
	}
	return false
}

func (s *eofScan) isIoEOF(e ast.Expr) bool { return s.isPkgSel(e, "io", "EOF") }

func eofIsNil(e ast.Expr) bool {
	id, ok := eofUnparen(e).(*ast.Ident)
	return ok && id.Name == "nil"
}

// roleOf classifies the statements executed after a true comparison.
func (s *eofScan) roleOf(stmts []ast.Stmt, x string) string {
	mapped := false
	for _, st := range stmts {
		switch t := st.(type) {
		case *ast.AssignStmt:
			if len(t.Lhs) == 1 && len(t.Rhs) == 1 && t.Tok == token.ASSIGN && s.pi.nodeText(t.Lhs[0]) == x {
				if eofIsNil(t.Rhs[0]) {
					return "loop-end"
				}
				mapped = true
			}
		case *ast.BranchStmt:
			if t.Tok == token.BREAK || t.Tok == token.CONTINUE {
				return "loop-end"
			}
			return "other"
		case *ast.ReturnStmt:
			if len(t.Results) == 0 || eofIsNil(t.Results[len(t.Results)-1]) {
				return "loop-end"
			}
			return "passthrough"
		case *ast.ExprStmt, *ast.SendStmt, *ast.IncDecStmt:
			// debug(…), a send, a counter: no decision
		default:
			return "other"
		}
	}
	if mapped {
		return "passthrough"
	}
	return "other"
}

// following returns the statements after st in its enclosing statement list.
func eofFollowing(parent ast.Node, st ast.Stmt) ([]ast.Stmt, bool) {
	var list []ast.Stmt
	switch p := parent.(type) {
	case *ast.BlockStmt:
		list = p.List
	case *ast.CaseClause:
		list = p.Body
	case *ast.CommClause:
		list = p.Body
	default:
		return nil, false
	}
	for i, q := range list {
		if q == st {
			return list[i+1:], true
		}
	}
	return nil, false
}

// srcClass classifies one right-hand side that flows into a tested error variable.
func (s *eofScan) srcClass(e ast.Expr, fd *ast.FuncDecl, seen map[types.Object]bool) string {
	e = eofUnparen(e)
	if s.isIoEOF(e) {
		return "roundtrip" // the code itself decides "this is the end" (short DATA reply)
	}
	switch t := e.(type) {
	case *ast.Ident:
		if t.Name == "nil" {
			return "local"
		}
		return s.originIdent(t, fd, seen)
	case *ast.SelectorExpr:
		if id, ok := t.X.(*ast.Ident); ok {
			if _, isPkg := s.pi.info.Uses[id].(*types.PkgName); isPkg {
				return "local" // a sentinel of another package: io.ErrUnexpectedEOF, os.ErrNotExist
			}
		}
		return "roundtrip" // a field of a result / work item: s.err, res.err, packet.err
	case *ast.UnaryExpr:
		if t.Op == token.ARROW {
			return "roundtrip"
		}
		return "local"
	case *ast.TypeAssertExpr:
		return s.srcClass(t.X, fd, seen)
	case *ast.CallExpr:
		switch f := eofUnparen(t.Fun).(type) {
		case *ast.Ident:
			switch f.Name {
			case "sendPacket", "recvPacket", "normaliseError":
				if obj := s.pi.info.Uses[f]; obj != nil && obj.Pkg() == s.pi.pkg {
					return "roundtrip"
				}
				return "unknown"
			}
			return "local"
		case *ast.SelectorExpr:
			for _, n := range []string{"ReadFull", "ReadAtLeast", "Copy", "CopyN", "CopyBuffer", "ReadAll"} {
				if s.isPkgSel(f, "io", n) {
					return "reader"
				}
			}
			if id, ok := f.X.(*ast.Ident); ok {
				if _, isPkg := s.pi.info.Uses[id].(*types.PkgName); isPkg {
					return "local" // fmt.Errorf, errors.New, …
				}
			}
			tv, ok := s.pi.info.Types[f.X]
			if !ok || tv.Type == nil {
				return "unknown"
			}
			ty := tv.Type
			if p, ok := ty.Underlying().(*types.Pointer); ok {
				ty = p.Elem()
			}
			var pkg *types.Package
			switch n := ty.(type) {
			case *types.Named:
				pkg = n.Obj().Pkg()
			case *types.Alias:
				pkg = n.Obj().Pkg()
			default:
				return "unknown"
			}
			if pkg == s.pi.pkg {
				return "roundtrip" // method of Client / File / clientConn / conn …
			}
			if pkg != nil && pkg.Path() == "io" {
				switch f.Sel.Name {
				case "Read", "Write", "ReadAt", "WriteAt", "ReadFrom", "WriteTo":
					return "reader"
				}
			}
			if pkg != nil && pkg.Path() == "context" {
				return "local"
			}
			return "unknown"
		}
		return "unknown"
	case *ast.CompositeLit:
		return "local"
	}
	if u, ok := e.(*ast.UnaryExpr); ok && u.Op == token.AND {
		return "local"
	}
	return "unknown"
}

// originIdent: where can the value of this variable come from (within its function declaration)?
func (s *eofScan) originIdent(id *ast.Ident, fd *ast.FuncDecl, seen map[types.Object]bool) string {
	obj := s.pi.info.Uses[id]
	if obj == nil {
		obj = s.pi.info.Defs[id]
	}
	if obj == nil {
		return "unknown"
	}
	if _, ok := obj.(*types.Var); !ok {
		return "local" // a package-level sentinel: errShortPacket, ErrSSHFxConnectionLost
	}
	if obj.Parent() == s.pi.pkg.Scope() {
		return "local"
	}
	if seen[obj] {
		return "none"
	}
	seen[obj] = true
	same := func(e ast.Expr) bool {
		i, ok := e.(*ast.Ident)
		if !ok {
			return false
		}
		return s.pi.info.Uses[i] == obj || s.pi.info.Defs[i] == obj
	}
	classes := map[string]bool{}
	// parameter (of the declaration or of a function literal inside it)?
	isParam := false
	checkParams := func(ft *ast.FuncType) {
		if ft.Params == nil {
			return
		}
		for _, f := range ft.Params.List {
			for _, n := range f.Names {
				if s.pi.info.Defs[n] == obj {
					isParam = true
				}
			}
		}
	}
	checkParams(fd.Type)
	ast.Inspect(fd.Body, func(n ast.Node) bool {
		switch t := n.(type) {
		case *ast.FuncLit:
			checkParams(t.Type)
		case *ast.AssignStmt:
			for i, l := range t.Lhs {
				if !same(l) {
					continue
				}
				switch {
				case len(t.Rhs) == len(t.Lhs):
					classes[s.srcClass(t.Rhs[i], fd, seen)] = true
				case len(t.Rhs) == 1:
					classes[s.srcClass(t.Rhs[0], fd, seen)] = true
				default:
					classes["unknown"] = true
				}
			}
		case *ast.ValueSpec:
			for i, l := range t.Names {
				if s.pi.info.Defs[l] != obj {
					continue
				}
				switch {
				case len(t.Values) == 0: // zero value
				case len(t.Values) == len(t.Names):
					classes[s.srcClass(t.Values[i], fd, seen)] = true
				case len(t.Values) == 1:
					classes[s.srcClass(t.Values[0], fd, seen)] = true
				}
			}
		case *ast.RangeStmt:
			if (t.Key != nil && same(t.Key)) || (t.Value != nil && same(t.Value)) {
				classes["roundtrip"] = true // an element of a channel / collection of results
			}
		case *ast.UnaryExpr:
			if t.Op == token.AND && same(t.X) {
				classes["unknown"] = true // address taken: anything may write it
			}
		}
		return true
	})
	if isParam {
		classes["unknown"] = true
	}
	switch {
	case classes["unknown"]:
		return "unknown"
	case classes["roundtrip"]:
		return "roundtrip"
	case classes["reader"]:
		return "reader"
	case classes["local"]:
		return "local"
	}
	return "none"
}

func (s *eofScan) originOf(x ast.Expr, fd *ast.FuncDecl) string {
	x = eofUnparen(x)
	var o string
	switch t := x.(type) {
	case *ast.Ident:
		o = s.originIdent(t, fd, map[types.Object]bool{})
	case *ast.SelectorExpr:
		o = "roundtrip"
	default:
		o = "unknown"
	}
	if o == "local" || o == "none" {
		o = "unknown"
	}
	return o
}

func eofFuncName(fd *ast.FuncDecl) string {
	if fd.Recv != nil && len(fd.Recv.List) == 1 {
		return recvName(fd.Recv.List[0].Type) + "." + fd.Name.Name
	}
	return fd.Name.Name
}

// scanFunc finds every mention of io.EOF in one function declaration.
func (s *eofScan) scanFunc(fd *ast.FuncDecl, rows *[]eofRow, prods *[][3]string) {
	pi := s.pi
	fn := eofFuncName(fd)
	var stack []ast.Node
	// parent(i): the i-th ancestor of the node on top of the stack, skipping parentheses
	ast.Inspect(fd.Body, func(n ast.Node) bool {
		if n == nil {
			stack = stack[:len(stack)-1]
			return true
		}
		stack = append(stack, n)
		e, ok := n.(ast.Expr)
		if !ok || !s.isIoEOF(e) {
			return true
		}
		if _, isSel := n.(*ast.SelectorExpr); !isSel {
			return true // the enclosing ParenExpr; the selector itself is visited next
		}
		// ancestors, innermost first, without parentheses
		var anc []ast.Node
		for i := len(stack) - 2; i >= 0; i-- {
			if _, p := stack[i].(*ast.ParenExpr); p {
				continue
			}
			anc = append(anc, stack[i])
		}
		if len(anc) == 0 {
			s.fail("%s: io.EOF at %s has no context", fn, pi.pos(n))
			return false
		}
		var test ast.Node // the comparison expression
		var x ast.Expr    // the tested value
		how := ""
		neg := false
		ti := 0 // index of test in anc
		switch p := anc[0].(type) {
		case *ast.BinaryExpr:
			if p.Op == token.EQL || p.Op == token.NEQ {
				how, neg, test = "identity", p.Op == token.NEQ, p
				if s.isIoEOF(p.X) {
					x = p.Y
				} else {
					x = p.X
				}
			} else {
				how, test, x = "other", p, nil
			}
		case *ast.CallExpr:
			switch {
			case s.isPkgSel(p.Fun, "errors", "Is") && len(p.Args) == 2 && s.isIoEOF(p.Args[1]):
				how, test, x = "errorsIs", p, p.Args[0]
			case s.isPkgSel(p.Fun, "fmt", "Errorf"):
				*prods = append(*prods, [3]string{fn, "wrapped", pi.pos(n)})
				return false
			default:
				how, test, x = "other", p, nil
			}
		case *ast.CaseClause:
			sw, _ := anc[1].(*ast.BlockStmt)
			var tag ast.Expr
			if sw != nil && len(anc) > 2 {
				if st, ok := anc[2].(*ast.SwitchStmt); ok {
					tag = st.Tag
				}
			}
			if tag == nil {
				s.fail("%s: `case io.EOF` at %s is not in a switch on a value", fn, pi.pos(n))
				*rows = append(*rows, eofRow{fn, "other", "other", "unknown", "?", pi.pos(n)})
				return false
			}
			role := s.roleOf(p.Body, pi.nodeText(tag))
			origin := s.originOf(tag, fd)
			if role == "other" {
				s.fail("%s: statements after `case io.EOF` at %s fit no shape", fn, pi.pos(n))
			}
			if origin == "unknown" {
				s.fail("%s: origin of %s tested at %s not recognised", fn, pi.nodeText(tag), pi.pos(n))
			}
			*rows = append(*rows, eofRow{fn, "identity", role, origin, pi.nodeText(tag), pi.pos(n)})
			return false
		case *ast.ReturnStmt:
			*prods = append(*prods, [3]string{fn, "return", pi.pos(n)})
			return false
		case *ast.AssignStmt:
			for _, l := range p.Lhs {
				if l == n {
					s.fail("%s: io.EOF assigned to at %s", fn, pi.pos(n))
				}
			}
			*prods = append(*prods, [3]string{fn, "assign", pi.pos(n)})
			return false
		case *ast.ValueSpec:
			*prods = append(*prods, [3]string{fn, "assign", pi.pos(n)})
			return false
		case *ast.CompositeLit:
			*prods = append(*prods, [3]string{fn, "literal", pi.pos(n)})
			return false
		case *ast.KeyValueExpr:
			if _, ok := anc[1].(*ast.CompositeLit); ok && p.Value == n {
				*prods = append(*prods, [3]string{fn, "literal", pi.pos(n)})
				return false
			}
			how, test = "other", p
		default:
			how, test = "other", p
		}
		if how == "other" {
			s.fail("%s: io.EOF used in an unrecognised way at %s: %s", fn, pi.pos(n), pi.nodeText(test))
			*rows = append(*rows, eofRow{fn, "other", "other", "unknown", "?", pi.pos(n)})
			return false
		}
		xs := pi.nodeText(x)
		origin := s.originOf(x, fd)
		if origin == "unknown" {
			s.fail("%s: origin of %s tested at %s not recognised", fn, xs, pi.pos(n))
		}
		// climb through !, &&, || to the statement that uses the test
		sawAnd, sawOr := false, false
		i := ti + 1
	climb:
		for ; i < len(anc); i++ {
			switch p := anc[i].(type) {
			case *ast.UnaryExpr:
				if p.Op != token.NOT {
					break climb
				}
				neg = !neg
			case *ast.BinaryExpr:
				switch p.Op {
				case token.LAND:
					sawAnd = true
				case token.LOR:
					sawOr = true
				default:
					break climb
				}
			default:
				break climb
			}
		}
		role := "other"
		why := "the comparison is not the condition of an if / case"
		if i < len(anc) {
			top := ast.Node(test)
			if i > ti+1 {
				top = anc[i-1]
			}
			switch p := anc[i].(type) {
			case *ast.IfStmt:
				if eofUnparen(p.Cond) != top {
					break
				}
				switch {
				case !neg:
					_ = sawAnd
					role = s.roleOf(p.Body.List, xs)
					why = "the then-block fits no shape"
				case sawOr:
					why = "a negated comparison under ||"
				case p.Else != nil:
					if b, ok := p.Else.(*ast.BlockStmt); ok {
						role = s.roleOf(b.List, xs)
						why = "the else-block fits no shape"
					} else {
						why = "a negated comparison with else-if"
					}
				default:
					if i+1 < len(anc) {
						if rest, ok := eofFollowing(anc[i+1], p); ok {
							role = s.roleOf(rest, xs)
							why = "the statements after the if fit no shape"
						}
					}
				}
			case *ast.CaseClause:
				isCond := false
				for _, c := range p.List {
					if eofUnparen(c) == top {
						isCond = true
					}
				}
				if isCond && !neg {
					role = s.roleOf(p.Body, xs)
					why = "the case body fits no shape"
				}
			}
		}
		if role == "other" {
			s.fail("%s: role of the io.EOF test at %s not recognised (%s)", fn, pi.pos(n), why)
		}
		*rows = append(*rows, eofRow{fn, how, role, origin, xs, pi.pos(n)})
		return false
	})
}

func extractEofFacts(x *extractor) {
	u := x.newUnit("EofFacts")
	pi := x.root
	u.pf("namespace Sftp.G\n\n")
	s := &eofScan{pi: pi, u: u, ok: true}

	// ---- 1. every mention of io.EOF in the client-side files
	want := map[string]bool{"client.go": true, "conn.go": true, "packet.go": true, "sftp.go": true}
	seenFile := map[string]bool{}
	var rows []eofRow
	var prods [][3]string
	for i, f := range pi.files {
		if !want[pi.names[i]] {
			continue
		}
		seenFile[pi.names[i]] = true
		for _, d := range f.Decls {
			switch t := d.(type) {
			case *ast.FuncDecl:
				if t.Body != nil {
					s.scanFunc(t, &rows, &prods)
				}
			case *ast.GenDecl:
				// a package-level alias of io.EOF would defeat the scan
				ast.Inspect(t, func(n ast.Node) bool {
					if e, ok := n.(ast.Expr); ok && s.isIoEOF(e) {
						if _, isSel := n.(*ast.SelectorExpr); isSel {
							s.fail("%s: io.EOF mentioned in a package-level declaration at %s", pi.names[i], pi.pos(n))
						}
					}
					return true
				})
			}
		}
	}
	var files []string
	for n := range want {
		if !seenFile[n] {
			s.fail("%s not found", n)
		}
		files = append(files, n)
	}
	sort.Strings(files)
	loopEndsById := s.ok
	nLoop := 0
	for _, r := range rows {
		if r.origin != "reader" && r.role != "passthrough" {
			nLoop++
			if r.how != "identity" {
				loopEndsById = false
			}
		}
	}
	if nLoop == 0 {
		u.fail("no loop-ending io.EOF test on a round-trip value found in %s", strings.Join(files, ", "))
		loopEndsById = false
	}
	triple := func(a, b, c string) string {
		return fmt.Sprintf("(%s, %s, %s)", leanStr(a), leanStr(b), leanStr(c))
	}
	u.pf("-- source: %s — every comparison of an error value with io.EOF\n", strings.Join(files, ", "))
	u.pf("/-- (function, how the value is compared with io.EOF, what a true comparison does) -/\n")
	u.pf("def eofTests : List (String × String × String) := [")
	for i, r := range rows {
		sep := ","
		if i == len(rows)-1 {
			sep = ""
		}
		u.pf("\n  -- source: %s  `%s`\n  %s%s", r.pos, r.expr, triple(r.fn, r.how, r.role), sep)
	}
	u.pf("]\n\n")
	u.pf("/-- parallel to `eofTests`: (function, tested expression, origin of its value: \"roundtrip\" | \"reader\" | \"unknown\") -/\n")
	u.pf("def eofTestSites : List (String × String × String) := [")
	for i, r := range rows {
		sep := ","
		if i == len(rows)-1 {
			sep = ""
		}
		u.pf("\n  %s%s", triple(r.fn, r.expr, r.origin), sep)
	}
	u.pf("]\n\n")
	u.pf("/-- the rows of `eofTests` whose tested value can originate from a request round trip (origin ≠ \"reader\") -/\n")
	u.pf("def eofRoundTripTests : List (String × String × String) := [")
	first := true
	for _, r := range rows {
		if r.origin == "reader" {
			continue
		}
		if !first {
			u.pf(",")
		}
		first = false
		u.pf("\n  -- source: %s  `%s`\n  %s", r.pos, r.expr, triple(r.fn, r.how, r.role))
	}
	u.pf("]\n\n")
	u.pf("/-- every round-trip test that ends a loop / returns (partial) success compares by identity -/\n")
	u.pf("def eofLoopEndsByIdentity : Bool := %s\n\n", leanBool(loopEndsById))
	u.pf("/-- where the code itself produces io.EOF: (function, \"return\" | \"assign\" | \"wrapped\" | \"literal\") -/\n")
	u.pf("def eofProducers : List (String × String) := [")
	for i, p := range prods {
		sep := ","
		if i == len(prods)-1 {
			sep = ""
		}
		u.pf("\n  -- source: %s\n  (%s, %s)%s", p[2], leanStr(p[0]), leanStr(p[1]), sep)
	}
	u.pf("]\n\n")

	// ---- 2. the path of a transport write error to the caller
	type hop struct{ fn, stmt, kind, pos string }
	var hops []hop
	wrapped := true
	if fd := pi.funcDecl("sendPacket"); fd == nil || fd.Body == nil {
		u.fail("sendPacket not found")
		wrapped = false
	} else {
		// every w.Write must be `if _, err := w.Write(X); err != nil { return R }`
		good := map[*ast.CallExpr]bool{}
		isWrite := func(c *ast.CallExpr) bool {
			sel, ok := c.Fun.(*ast.SelectorExpr)
			if !ok || sel.Sel.Name != "Write" {
				return false
			}
			id, ok := sel.X.(*ast.Ident)
			return ok && id.Name == "w"
		}
		n := 0
		ast.Inspect(fd.Body, func(m ast.Node) bool {
			is, ok := m.(*ast.IfStmt)
			if !ok || is.Init == nil {
				return true
			}
			as, ok := is.Init.(*ast.AssignStmt)
			if !ok || len(as.Rhs) != 1 || len(as.Lhs) != 2 {
				return true
			}
			c, ok := as.Rhs[0].(*ast.CallExpr)
			if !ok || !isWrite(c) {
				return true
			}
			errName := pi.nodeText(as.Lhs[1])
			if pi.nodeText(is.Cond) != errName+" != nil" || len(is.Body.List) != 1 || is.Else != nil {
				return true
			}
			ret, ok := is.Body.List[0].(*ast.ReturnStmt)
			if !ok || len(ret.Results) != 1 {
				return true
			}
			good[c] = true
			n++
			kind := "opaque"
			r := eofUnparen(ret.Results[0])
			if pi.nodeText(r) == errName {
				kind = "pass"
			} else if rc, ok := r.(*ast.CallExpr); ok && s.isPkgSel(rc.Fun, "fmt", "Errorf") && len(rc.Args) >= 2 {
				if f, ok := pi.exprStr(rc.Args[0]); ok && strings.Count(f, "%w") == 1 && strings.HasSuffix(f, "%w") &&
					pi.nodeText(rc.Args[len(rc.Args)-1]) == errName {
					kind = "wrap"
				}
			}
			if kind == "opaque" {
				wrapped = false
			}
			hops = append(hops, hop{"sendPacket", pi.nodeText(ret), kind, pi.pos(ret)})
			return true
		})
		ast.Inspect(fd.Body, func(m ast.Node) bool {
			if c, ok := m.(*ast.CallExpr); ok && isWrite(c) && !good[c] {
				u.fail("sendPacket: w.Write at %s is not `if _, err := w.Write(…); err != nil { return … }`", pi.pos(c))
				wrapped = false
			}
			return true
		})
		if n == 0 {
			u.fail("sendPacket: no checked w.Write found")
			wrapped = false
		}
	}
	for _, h := range []struct{ fn, frag string }{
		{"conn.sendPacket", "return sendPacket(c, m)"},
		{"clientConn.dispatchRequest", "if err := c.conn.sendPacket(p); err != nil { if ch, ok := c.getChannel(sid); ok { ch <- result{err: err} } }"},
		{"clientConn.sendPacket", "case s := <-ch: return s.typ, s.data, s.err"},
	} {
		fd := pi.funcDecl(h.fn)
		if fd == nil {
			u.fail("%s not found", h.fn)
			wrapped = false
			continue
		}
		if strings.Contains(pi.bodyText(fd), h.frag) {
			hops = append(hops, hop{h.fn, h.frag, "pass", pi.pos(fd)})
		} else {
			u.fail("%s: `%s` not found: how the transport write error travels is not recognised", h.fn, h.frag)
			hops = append(hops, hop{h.fn, "?", "opaque", pi.pos(fd)})
			wrapped = false
		}
	}
	u.pf("-- source: packet.go sendPacket, conn.go conn.sendPacket / clientConn.dispatchRequest / clientConn.sendPacket\n")
	u.pf("/-- how the writer's error reaches the caller: (function, statement, \"wrap\" (fmt.Errorf … %%w) | \"pass\" | \"opaque\") -/\n")
	u.pf("def transportErrPath : List (String × String × String) := [")
	for i, h := range hops {
		sep := ","
		if i == len(hops)-1 {
			sep = ""
		}
		u.pf("\n  -- source: %s\n  %s%s", h.pos, triple(h.fn, h.stmt, h.kind), sep)
	}
	u.pf("]\n")
	u.pf("/-- a transport write error reaches the calling operation wrapped with %%w or unchanged at every hop, so it may\nsatisfy errors.Is(…, io.EOF) without being the io.EOF value -/\n")
	u.pf("def transportErrorsWrapped : Bool := %s\n\n", leanBool(wrapped))

	// ---- 3. normaliseError: SSH_FX_EOF ↦ the bare io.EOF value
	bare := false
	retText := ""
	where := "client.go"
	if fd := pi.funcDecl("normaliseError"); fd == nil || fd.Body == nil {
		u.fail("normaliseError not found")
	} else {
		where = pi.pos(fd)
		var clause *ast.CaseClause
		n := 0
		ast.Inspect(fd.Body, func(m ast.Node) bool {
			cc, ok := m.(*ast.CaseClause)
			if !ok {
				return true
			}
			for _, e := range cc.List {
				if id, ok := e.(*ast.Ident); ok && id.Name == "sshFxEOF" {
					clause = cc
					n++
				}
			}
			return true
		})
		okShape := false
		if n == 1 && len(clause.List) == 1 {
			// must be: switch err := err.(type) { case *StatusError: switch err.Code { case sshFxEOF: return E
			txt := pi.bodyText(fd)
			okShape = strings.HasPrefix(txt, "{ switch err := err.(type) { case *StatusError: switch err.Code { ") &&
				len(clause.Body) == 1
			if okShape {
				if ret, ok := clause.Body[0].(*ast.ReturnStmt); ok && len(ret.Results) == 1 {
					where = pi.pos(ret)
					retText = pi.nodeText(ret.Results[0])
					bare = s.isIoEOF(ret.Results[0])
				} else {
					okShape = false
				}
			}
		}
		if !okShape {
			u.fail("normaliseError: `switch err := err.(type) { case *StatusError: switch err.Code { case sshFxEOF: return …` not recognised")
		}
	}
	u.pf("-- source: %s\n", where)
	u.pf("/-- what normaliseError returns for a status with code SSH_FX_EOF -/\n")
	u.pf("def normaliseEofReturn : String := %s\n", leanStr(retText))
	u.pf("def normaliseEofIsBare : Bool := %s\n", leanBool(bare))
	u.pf("\nend Sftp.G\n")
}
