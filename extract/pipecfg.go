package main

// Unit PipeCfg: the facts of packet-manager.go (and of the two receive loops in server.go /
// request-server.go) on which the pipeline model Sftp/Model/Pipe.lean depends (C02, C14).
//
// Every function below recognises ONE source shape statement by statement (debug(...) calls are
// ignored, everything else must match) and reports anything else through u.fail.

import (
	"bytes"
	"go/ast"
	"go/printer"
	"go/token"
	"strings"
)

func init() { extractors = append(extractors, extractPipeCfg) }

// x10Text prints a node WITHOUT position information (an empty FileSet), so the text does not depend on how the
// source is laid out (line breaks inside composite literals, trailing commas) and carries no comments.
func x10Text(n ast.Node) string {
	var buf bytes.Buffer
	printer.Fprint(&buf, token.NewFileSet(), n)
	return strings.Join(strings.Fields(buf.String()), " ")
}

// x10Stmts drops `debug(...)` expression statements and empty statements.
func x10Stmts(pi *pkgInfo, list []ast.Stmt) []ast.Stmt {
	var out []ast.Stmt
	for _, s := range list {
		switch t := s.(type) {
		case *ast.EmptyStmt:
			continue
		case *ast.ExprStmt:
			if c, ok := t.X.(*ast.CallExpr); ok {
				if id, ok := c.Fun.(*ast.Ident); ok && id.Name == "debug" {
					continue
				}
			}
		}
		out = append(out, s)
	}
	return out
}

// x10Texts renders the non-debug statements of a list.
func x10Texts(pi *pkgInfo, list []ast.Stmt) []string {
	var out []string
	for _, s := range x10Stmts(pi, list) {
		out = append(out, x10Text(s))
	}
	return out
}

func x10Eq(a []string, b ...string) bool {
	if len(a) != len(b) {
		return false
	}
	for i := range a {
		if a[i] != b[i] {
			return false
		}
	}
	return true
}

// x10BodyIs: the function exists and its non-debug statements are exactly `want`.
func x10BodyIs(pi *pkgInfo, name string, want ...string) (bool, *ast.FuncDecl) {
	fd := pi.funcDecl(name)
	if fd == nil || fd.Body == nil {
		return false, fd
	}
	return x10Eq(x10Texts(pi, fd.Body.List), want...), fd
}

type x10Pipe struct {
	poolKinds              []string // Lean constructor names
	closeWaits             bool
	regPool, regCmd        bool
	incomingOK, readyOK    bool
	headMatch              bool
	sortIncoming, sortOut  bool
	comparator             string
	workers                int64
	cmdWorkers             int64
	closeIsWaitThenFini    bool
	shutdownShape          bool
	controllerSelectFini   bool
	newOrderIDPreIncr      bool
	getNextIsPlusOne       bool
	releaseAfterSend       bool
	popsBothHeads          bool
	sendErrDiscarded       bool
	sendsAfterEveryReceive bool
	drainsOnFini           bool
	deferCloseDone         bool
	waitIsRecvDone         bool
}

func extractPipeCfg(x *extractor) {
	u := x.newUnit("PipeCfg")
	pi := x.root
	u.pf("import Sftp.Model.Pipe\nnamespace Sftp.G\nopen Sftp.Pipe\n\n")
	var p x10Pipe
	p.comparator = "?"

	x10WorkerChan(pi, u, &p)
	x10Registry(pi, u, &p)
	x10Controller(pi, u, &p)
	x10MaybeSend(pi, u, &p)
	x10OrderIDs(pi, u, &p)

	kinds := make([]string, len(p.poolKinds))
	for i, k := range p.poolKinds {
		kinds[i] = "ReqKind." + k
	}
	reg := p.regPool && p.regCmd && p.incomingOK && p.readyOK
	asc := p.comparator == "<"
	emitCfg := func(drain bool) {
		u.pf("/-- packet-manager.go (and the two Serve functions' wait for the controller) as they are in the working tree. -/\n")
		u.pf("def pipeCfg : PipeCfg :=\n  { poolKinds := [%s], closeWaits := %s, registerBeforeHandoff := %s, headMatch := %s,\n    sortIncoming := %s, sortOutgoing := %s, workers := %d, drainOnFini := %s }\n\n",
			strings.Join(kinds, ", "), leanBool(p.closeWaits), leanBool(reg), leanBool(p.headMatch && p.popsBothHeads),
			leanBool(p.sortIncoming && asc), leanBool(p.sortOut && asc), p.workers, leanBool(drain))
	}
	u.pf("-- the conjuncts of registerBeforeHandoff\n")
	u.pf("def registerBeforePoolHandoff : Bool := %s\n", leanBool(p.regPool))
	u.pf("def registerBeforeCmdHandoff : Bool := %s\n", leanBool(p.regCmd))
	u.pf("def incomingPacketIsAddThenSend : Bool := %s\n", leanBool(p.incomingOK))
	u.pf("def readyPacketIsSendThenDone : Bool := %s\n", leanBool(p.readyOK))
	u.pf("-- shape facts\n")
	u.pf("def pipeSortComparator : String := %s\n", leanStr(p.comparator))
	u.pf("def controllerSortsIncoming : Bool := %s\n", leanBool(p.sortIncoming))
	u.pf("def controllerSortsOutgoing : Bool := %s\n", leanBool(p.sortOut))
	u.pf("def controllerSendsAfterEveryReceive : Bool := %s\n", leanBool(p.sendsAfterEveryReceive))
	u.pf("def pipeCmdWorkers : Nat := %d\n", p.cmdWorkers)
	u.pf("def closeIsWaitThenFini : Bool := %s\n", leanBool(p.closeIsWaitThenFini))
	u.pf("def dispatcherShutdownIsCloseCloseClose : Bool := %s\n", leanBool(p.shutdownShape))
	u.pf("def controllerSelectHasFini : Bool := %s\n", leanBool(p.controllerSelectFini))
	u.pf("def controllerDrainsOnFini : Bool := %s\n", leanBool(p.drainsOnFini))
	waitOK := false
	if fd := pi.funcDecl("packetManager.wait"); fd != nil {
		waitOK, _ = x10BodyIs(pi, "packetManager.wait", "<-s.done")
		if !waitOK {
			u.fail("packetManager.wait: body is not `<-s.done` (%s)", pi.pos(fd))
		}
	}
	w1 := x10ServeWaits(pi, u, "Server.Serve", "svr")
	w2 := x10ServeWaits(pi, u, "RequestServer.Serve", "rs")
	if (w1 || w2) && !(waitOK && p.deferCloseDone) {
		u.fail("Serve calls pktMgr.wait() but wait() is not `<-s.done` with `defer close(s.done)` first in controller")
	}
	if p.deferCloseDone && !waitOK {
		u.fail("controller defers close(s.done) but packetManager.wait is missing or not `<-s.done`")
	}
	u.pf("def serveWaitsForController : Bool := %s\n", leanBool(w1 && w2 && waitOK && p.deferCloseDone))
	// the model's drainOnFini: the controller drains on fini AND Serve waits for it (otherwise the
	// connection may be closed under the controller's feet)
	drainModel := p.drainsOnFini && w1 && w2 && waitOK && p.deferCloseDone
	u.pf("def newOrderIDPreIncrements : Bool := %s\n", leanBool(p.newOrderIDPreIncr))
	u.pf("def getNextOrderIDIsCountPlusOne : Bool := %s\n", leanBool(p.getNextIsPlusOne))
	u.pf("def maybeSendPopsBothHeads : Bool := %s\n", leanBool(p.popsBothHeads))
	u.pf("def releaseAfterSend : Bool := %s\n", leanBool(p.releaseAfterSend))
	u.pf("-- maybeSendPackets calls s.sender.sendPacket(…) as a statement: its error result is not looked at, the heads are\n")
	u.pf("-- popped regardless (so the model's send step is faithful only if sendPacket itself never drops a packet)\n")
	u.pf("def sendErrorDiscarded : Bool := %s\n\n", leanBool(p.sendErrDiscarded))

	x10ServeLoop(pi, u, "Server.Serve", "svr", "OS")
	x10ServeLoop(pi, u, "RequestServer.serveLoop", "rs", "RS")
	u.pf("\n")
	emitCfg(drainModel)
	u.pf("end Sftp.G\n")
}

// ---- workerChan ----

func x10WorkerChan(pi *pkgInfo, u *unit, p *x10Pipe) {
	fd := pi.funcDecl("packetManager.workerChan")
	if fd == nil {
		u.fail("packetManager.workerChan not found")
		return
	}
	u.pf("-- source: %s (workerChan)\n", pi.pos(fd))
	var dispatcher *ast.FuncLit
	sawReturn := false
	for _, s := range x10Stmts(pi, fd.Body.List) {
		txt := x10Text(s)
		switch st := s.(type) {
		case *ast.AssignStmt:
			switch {
			case strings.HasPrefix(txt, "rwChan := make(chan orderedRequest"),
				strings.HasPrefix(txt, "cmdChan := make(chan orderedRequest"),
				strings.HasPrefix(txt, "pktChan := make(chan orderedRequest"):
				// capacities are abstracted by the model (unbounded channels)
			default:
				u.fail("workerChan: unrecognised statement %q at %s", txt, pi.pos(s))
			}
		case *ast.ForStmt:
			// for i := 0; i < BOUND; i++ { runWorker(rwChan) }
			ok := st.Init != nil && x10Text(st.Init) == "i := 0" && st.Post != nil && x10Text(st.Post) == "i++" &&
				x10Eq(x10Texts(pi, st.Body.List), "runWorker(rwChan)")
			var bound int64
			if be, isBin := st.Cond.(*ast.BinaryExpr); ok && isBin && be.Op == token.LSS && x10Text(be.X) == "i" {
				bound, ok = pi.exprInt(be.Y)
			} else {
				ok = false
			}
			if !ok {
				u.fail("workerChan: pool start loop is not `for i := 0; i < CONST; i++ { runWorker(rwChan) }` at %s", pi.pos(s))
			} else {
				p.workers += bound
			}
		case *ast.ExprStmt:
			switch txt {
			case "runWorker(cmdChan)":
				p.cmdWorkers++
			case "runWorker(rwChan)":
				p.workers++
			default:
				u.fail("workerChan: unrecognised statement %q at %s", txt, pi.pos(s))
			}
		case *ast.GoStmt:
			fl, ok := st.Call.Fun.(*ast.FuncLit)
			if !ok || dispatcher != nil || len(st.Call.Args) != 0 {
				u.fail("workerChan: unrecognised go statement at %s", pi.pos(s))
			} else {
				dispatcher = fl
			}
		case *ast.ReturnStmt:
			if txt != "return pktChan" {
				u.fail("workerChan: does not return pktChan at %s", pi.pos(s))
			}
			sawReturn = true
		default:
			u.fail("workerChan: unrecognised statement %q at %s", txt, pi.pos(s))
		}
	}
	if !sawReturn {
		u.fail("workerChan: `return pktChan` not found")
	}
	if p.cmdWorkers != 1 {
		u.fail("workerChan: %d command workers (the model has exactly one sequential command worker)", p.cmdWorkers)
	}
	if c, ok := pi.constInt("SftpServerWorkerCount"); !ok || c != p.workers {
		u.fail("workerChan: %d pool workers started but SftpServerWorkerCount = %d", p.workers, c)
	}
	if dispatcher == nil {
		u.fail("workerChan: dispatcher goroutine not found")
		return
	}
	ds := x10Stmts(pi, dispatcher.Body.List)
	if len(ds) == 0 {
		u.fail("workerChan: empty dispatcher")
		return
	}
	loop, ok := ds[0].(*ast.RangeStmt)
	if !ok || x10Text(loop.X) != "pktChan" || loop.Key == nil || x10Text(loop.Key) != "pkt" || loop.Value != nil {
		u.fail("workerChan: dispatcher does not start with `for pkt := range pktChan` at %s", pi.pos(ds[0]))
		return
	}
	p.shutdownShape = x10Eq(x10Texts(pi, ds[1:]), "close(rwChan)", "close(cmdChan)", "s.close()")
	if !p.shutdownShape {
		u.fail("workerChan: code after the dispatcher loop is not close(rwChan); close(cmdChan); s.close() (%s)", pi.pos(loop))
	}
	body := x10Stmts(pi, loop.Body.List)
	if len(body) == 0 {
		u.fail("workerChan: empty dispatcher loop")
		return
	}
	ts, ok := body[0].(*ast.TypeSwitchStmt)
	if !ok || x10Text(ts.Assign) != "pkt.requestPacket.(type)" || ts.Init != nil {
		u.fail("workerChan: dispatcher loop does not start with `switch pkt.requestPacket.(type)` at %s", pi.pos(body[0]))
		return
	}
	// trailing statements: the command path
	switch tail := x10Texts(pi, body[1:]); {
	case x10Eq(tail, "s.incomingPacket(pkt)", "cmdChan <- pkt"):
		p.regCmd = true
	case x10Eq(tail, "cmdChan <- pkt", "s.incomingPacket(pkt)"):
		p.regCmd = false
	default:
		u.fail("workerChan: command path after the switch is not {s.incomingPacket(pkt); cmdChan <- pkt} in either order: %q (%s)", tail, pi.pos(ts))
	}
	sawPool, sawClose := false, false
	for _, c := range ts.Body.List {
		cc := c.(*ast.CaseClause)
		if cc.List == nil {
			if len(x10Stmts(pi, cc.Body)) != 0 {
				u.fail("workerChan: default clause with a body at %s", pi.pos(cc))
			}
			continue
		}
		var types []string
		for _, e := range cc.List {
			if _, isPtr := e.(*ast.StarExpr); !isPtr {
				u.fail("workerChan: case type %s is not a concrete pointer type (case order would matter) at %s", exprString(e), pi.pos(e))
			}
			types = append(types, typeName(e))
		}
		texts := x10Texts(pi, cc.Body)
		isPoolOrdered := x10Eq(texts, "s.incomingPacket(pkt)", "rwChan <- pkt", "continue")
		isPoolReversed := x10Eq(texts, "rwChan <- pkt", "s.incomingPacket(pkt)", "continue")
		switch {
		case isPoolOrdered || isPoolReversed:
			if sawPool {
				u.fail("workerChan: second pool case at %s", pi.pos(cc))
			}
			sawPool = true
			p.regPool = isPoolOrdered
			has := map[string]bool{}
			for _, t := range types {
				has[t] = true
			}
			if has["sshFxpReadPacket"] && has["sshFxpWritePacket"] {
				p.poolKinds = append(p.poolKinds, "rw")
			} else if has["sshFxpReadPacket"] || has["sshFxpWritePacket"] {
				u.fail("workerChan: only one of READ/WRITE goes to the pool; the model's kind `rw` covers both (%s)", pi.pos(cc))
			}
			for _, t := range types {
				switch t {
				case "sshFxpReadPacket", "sshFxpWritePacket":
				case "sshFxpClosePacket":
					p.poolKinds = append(p.poolKinds, "close")
				default:
					// sound over-approximation for safety properties (more concurrency), but not exact: report it
					p.poolKinds = append(p.poolKinds, "cmd")
					u.fail("workerChan: %s goes to the worker pool; the model has no separate kind for it (%s)", t, pi.pos(cc))
				}
			}
		case len(types) == 1 && types[0] == "sshFxpClosePacket":
			if sawClose {
				u.fail("workerChan: second CLOSE case at %s", pi.pos(cc))
			}
			sawClose = true
			switch {
			case x10Eq(texts, "s.working.Wait()"):
				p.closeWaits = true
			case len(texts) == 0:
				p.closeWaits = false
			default:
				u.fail("workerChan: CLOSE case body is not exactly `s.working.Wait()`: %q (%s)", texts, pi.pos(cc))
			}
		default:
			u.fail("workerChan: unrecognised case %v with body %q at %s", types, texts, pi.pos(cc))
		}
	}
	if !sawPool {
		// no pool case: everything is sequential; registerBeforeHandoff then only depends on the command path
		p.regPool = true
	}
}

// ---- incomingPacket / readyPacket / close ----

func x10Registry(pi *pkgInfo, u *unit, p *x10Pipe) {
	ok, fd := x10BodyIs(pi, "packetManager.incomingPacket", "s.working.Add(1)", "s.requests <- pkt")
	p.incomingOK = ok
	if !ok {
		if rev, _ := x10BodyIs(pi, "packetManager.incomingPacket", "s.requests <- pkt", "s.working.Add(1)"); !rev {
			u.fail("incomingPacket: body is not {s.working.Add(1); s.requests <- pkt} in either order (%s)", x10Pos(pi, fd))
		}
	}
	ok, fd = x10BodyIs(pi, "packetManager.readyPacket", "s.responses <- pkt", "s.working.Done()")
	p.readyOK = ok
	if !ok {
		if rev, _ := x10BodyIs(pi, "packetManager.readyPacket", "s.working.Done()", "s.responses <- pkt"); !rev {
			u.fail("readyPacket: body is not {s.responses <- pkt; s.working.Done()} in either order (%s)", x10Pos(pi, fd))
		}
	}
	ok, fd = x10BodyIs(pi, "packetManager.close", "s.working.Wait()", "close(s.fini)")
	p.closeIsWaitThenFini = ok
	if !ok {
		if alt, _ := x10BodyIs(pi, "packetManager.close", "close(s.fini)"); !alt {
			u.fail("packetManager.close: body is neither {s.working.Wait(); close(s.fini)} nor {close(s.fini)} (%s)", x10Pos(pi, fd))
		}
	}
}

func x10Pos(pi *pkgInfo, fd *ast.FuncDecl) string {
	if fd == nil {
		return "function not found"
	}
	return pi.pos(fd)
}

// ---- controller and Sort ----

func x10Controller(pi *pkgInfo, u *unit, p *x10Pipe) {
	// Sort: sort.Slice(o, func(i, j int) bool { return o[i].orderID() OP o[j].orderID() })
	if fd := pi.funcDecl("orderedPackets.Sort"); fd == nil {
		u.fail("orderedPackets.Sort not found")
	} else {
		txt := x10Text(fd.Body)
		const pre, post = "{ sort.Slice(o, func(i, j int) bool { return o[i].orderID() ", " o[j].orderID() }) }"
		if strings.HasPrefix(txt, pre) && strings.HasSuffix(txt, post) {
			op := txt[len(pre) : len(txt)-len(post)]
			switch op {
			case "<", ">":
				p.comparator = op
			default:
				u.fail("orderedPackets.Sort: comparator %q is neither < nor > (%s)", op, pi.pos(fd))
			}
		} else {
			u.fail("orderedPackets.Sort: body is not sort.Slice(o, less on orderID()) (%s)", pi.pos(fd))
		}
	}

	fd := pi.funcDecl("packetManager.controller")
	if fd == nil {
		u.fail("packetManager.controller not found")
		return
	}
	u.pf("-- source: %s (controller)\n", pi.pos(fd))
	top := x10Stmts(pi, fd.Body.List)
	if len(top) == 2 && x10Text(top[0]) == "defer close(s.done)" {
		p.deferCloseDone = true
		top = top[1:]
	}
	var loop *ast.ForStmt
	if len(top) == 1 {
		loop, _ = top[0].(*ast.ForStmt)
	}
	if loop == nil || loop.Init != nil || loop.Cond != nil || loop.Post != nil {
		u.fail("controller: body is not [defer close(s.done);] `for { … }` (%s)", pi.pos(fd))
		return
	}
	body := x10Stmts(pi, loop.Body.List)
	var sel *ast.SelectStmt
	if len(body) == 2 {
		sel, _ = body[0].(*ast.SelectStmt)
	}
	if sel == nil || x10Text(body[1]) != "s.maybeSendPackets()" {
		u.fail("controller: loop body is not `select {…}; s.maybeSendPackets()` (%s)", pi.pos(loop))
		return
	}
	p.sendsAfterEveryReceive = true
	sawReq, sawResp := false, false
	for _, c := range sel.Body.List {
		cc := c.(*ast.CommClause)
		comm := ""
		if cc.Comm != nil {
			comm = x10Text(cc.Comm)
		}
		texts := x10Texts(pi, cc.Body)
		switch comm {
		case "pkt := <-s.requests":
			sawReq = true
			switch {
			case x10Eq(texts, "s.incoming = append(s.incoming, pkt)", "s.incoming.Sort()"):
				p.sortIncoming = true
			case x10Eq(texts, "s.incoming = append(s.incoming, pkt)"):
				p.sortIncoming = false
			default:
				u.fail("controller: requests branch is not append [+ Sort]: %q (%s)", texts, pi.pos(cc))
			}
		case "pkt := <-s.responses":
			sawResp = true
			switch {
			case x10Eq(texts, "s.outgoing = append(s.outgoing, pkt)", "s.outgoing.Sort()"):
				p.sortOut = true
			case x10Eq(texts, "s.outgoing = append(s.outgoing, pkt)"):
				p.sortOut = false
			default:
				u.fail("controller: responses branch is not append [+ Sort]: %q (%s)", texts, pi.pos(cc))
			}
		case "<-s.fini":
			switch {
			case x10Eq(texts, "return"):
				p.controllerSelectFini = true
			case x10IsDrain(pi, x10Stmts(pi, cc.Body)):
				p.controllerSelectFini = true
				p.drainsOnFini = true
			default:
				u.fail("controller: fini branch is neither `return` nor the drain loop followed by s.maybeSendPackets(); return: %q (%s)", texts, pi.pos(cc))
			}
		default:
			u.fail("controller: unrecognised select branch %q at %s", comm, pi.pos(cc))
		}
	}
	if !sawReq || !sawResp {
		u.fail("controller: select lacks the requests or the responses branch (%s)", pi.pos(sel))
	}
}

// x10IsDrain recognises the fini branch that empties both channels before the controller stops:
//
//	for { select { case pkt := <-s.requests: append [Sort]; continue
//	               case pkt := <-s.responses: append [Sort]; continue
//	               default: }; break }
//	s.maybeSendPackets(); return
//
// (the Sort calls must be there: the drained packets go through the same ordered queues).
func x10IsDrain(pi *pkgInfo, body []ast.Stmt) bool {
	if len(body) != 3 || x10Text(body[1]) != "s.maybeSendPackets()" || x10Text(body[2]) != "return" {
		return false
	}
	loop, ok := body[0].(*ast.ForStmt)
	if !ok || loop.Init != nil || loop.Cond != nil || loop.Post != nil {
		return false
	}
	lb := x10Stmts(pi, loop.Body.List)
	if len(lb) != 2 || x10Text(lb[1]) != "break" {
		return false
	}
	sel, ok := lb[0].(*ast.SelectStmt)
	if !ok || len(sel.Body.List) != 3 {
		return false
	}
	req, resp, dflt := false, false, false
	for _, c := range sel.Body.List {
		cc := c.(*ast.CommClause)
		texts := x10Texts(pi, cc.Body)
		switch {
		case cc.Comm == nil:
			dflt = len(texts) == 0
		case x10Text(cc.Comm) == "pkt := <-s.requests":
			req = x10Eq(texts, "s.incoming = append(s.incoming, pkt)", "s.incoming.Sort()", "continue")
		case x10Text(cc.Comm) == "pkt := <-s.responses":
			resp = x10Eq(texts, "s.outgoing = append(s.outgoing, pkt)", "s.outgoing.Sort()", "continue")
		}
	}
	return req && resp && dflt
}

// x10ServeWaits: does Serve call `R.pktMgr.wait()` right after `wg.Wait()` (and nowhere else)?
func x10ServeWaits(pi *pkgInfo, u *unit, fn, recv string) bool {
	fd := pi.funcDecl(fn)
	if fd == nil {
		u.fail("%s not found", fn)
		return false
	}
	call := recv + ".pktMgr.wait()"
	n := 0
	ast.Inspect(fd.Body, func(m ast.Node) bool {
		if c, ok := m.(*ast.CallExpr); ok && x10Text(c) == call {
			n++
		}
		return true
	})
	top := x10Stmts(pi, fd.Body.List)
	after := false
	sawWg := false
	for i, s := range top {
		if x10Text(s) == "wg.Wait()" {
			sawWg = true
			after = i+1 < len(top) && x10Text(top[i+1]) == call
		}
	}
	if !sawWg {
		u.fail("%s: top-level `wg.Wait()` not found (%s)", fn, pi.pos(fd))
		return false
	}
	if n > 0 && !(n == 1 && after) {
		u.fail("%s: %s is called, but not exactly once directly after wg.Wait() (%s)", fn, call, pi.pos(fd))
		return false
	}
	return after
}

// ---- maybeSendPackets ----

func x10MaybeSend(pi *pkgInfo, u *unit, p *x10Pipe) {
	fd := pi.funcDecl("packetManager.maybeSendPackets")
	if fd == nil {
		u.fail("packetManager.maybeSendPackets not found")
		return
	}
	u.pf("-- source: %s (maybeSendPackets)\n", pi.pos(fd))
	top := x10Stmts(pi, fd.Body.List)
	var loop *ast.ForStmt
	if len(top) == 1 {
		loop, _ = top[0].(*ast.ForStmt)
	}
	if loop == nil || loop.Init != nil || loop.Cond != nil || loop.Post != nil {
		u.fail("maybeSendPackets: body is not a single `for { … }` (%s)", pi.pos(fd))
		return
	}
	body := x10Stmts(pi, loop.Body.List)
	bad := func(what string, n ast.Node) { u.fail("maybeSendPackets: %s (%s)", what, pi.pos(n)) }
	if len(body) < 4 {
		bad("loop body too short", loop)
		return
	}
	// 1. empty-queue guard
	if g, ok := body[0].(*ast.IfStmt); !ok || g.Else != nil || g.Init != nil ||
		(x10Text(g.Cond) != "len(s.outgoing) == 0 || len(s.incoming) == 0" && x10Text(g.Cond) != "len(s.incoming) == 0 || len(s.outgoing) == 0") ||
		!x10Eq(x10Texts(pi, g.Body.List), "break") {
		bad("first statement is not the empty-queue guard with break", body[0])
		return
	}
	// 2./3. heads
	h1, h2 := x10Text(body[1]), x10Text(body[2])
	if !((h1 == "out := s.outgoing[0]" && h2 == "in := s.incoming[0]") || (h2 == "out := s.outgoing[0]" && h1 == "in := s.incoming[0]")) {
		bad("heads are not out := s.outgoing[0]; in := s.incoming[0]", body[1])
		return
	}
	// 4. the send, guarded or not
	var sendBody []ast.Stmt
	switch st := body[3].(type) {
	case *ast.IfStmt:
		if len(body) != 4 || st.Init != nil {
			bad("statements after the head-match if", st)
			return
		}
		cond := x10Text(st.Cond)
		elseBreak := false
		if eb, ok := st.Else.(*ast.BlockStmt); ok {
			elseBreak = x10Eq(x10Texts(pi, eb.List), "break")
		}
		switch {
		case (cond == "in.orderID() == out.orderID()" || cond == "out.orderID() == in.orderID()") && elseBreak:
			p.headMatch = true
		case cond == "true" && (st.Else == nil || elseBreak):
			p.headMatch = false
		default:
			bad("head-match test is not `if in.orderID() == out.orderID() {…} else { break }`", st)
			return
		}
		sendBody = st.Body.List
	default:
		// unguarded: the send statements follow directly
		p.headMatch = false
		sendBody = body[3:]
	}
	texts := x10Texts(pi, sendBody)
	pops := []string{
		"copy(s.incoming, s.incoming[1:])", "s.incoming[len(s.incoming)-1] = nil", "s.incoming = s.incoming[:len(s.incoming)-1]",
		"copy(s.outgoing, s.outgoing[1:])", "s.outgoing[len(s.outgoing)-1] = nil", "s.outgoing = s.outgoing[:len(s.outgoing)-1]",
	}
	const send = "s.sender.sendPacket(out.(encoding.BinaryMarshaler))"
	const release = "if s.alloc != nil { s.alloc.ReleasePages(in.orderID()) }"
	sendIdx, relIdx := -1, -1
	var rest []string
	for i, t := range texts {
		switch t {
		case send, "_ = " + send:
			// an expression statement (or an assignment to blank): the error result of sendPacket is discarded, the
			// heads are popped whether or not the response reached the wire
			if sendIdx >= 0 {
				bad("two sendPacket calls", sendBody[0])
			}
			sendIdx = i
			p.sendErrDiscarded = true
		case release:
			relIdx = i
		default:
			rest = append(rest, t)
		}
	}
	if sendIdx < 0 {
		for i, t := range texts {
			if strings.Contains(t, send) {
				// the call is there but its result is used (if err := …; err != nil {…}, err := …): the pipeline model
				// (Model/Pipe.lean) has no failed-send transition, so this shape is not accepted
				bad("the result of s.sender.sendPacket is used, the model's send step is unconditional: "+t, sendBody[i])
				return
			}
		}
		bad("s.sender.sendPacket(out.(encoding.BinaryMarshaler)) not found in the send block", body[3])
		return
	}
	p.releaseAfterSend = relIdx > sendIdx
	if relIdx < 0 {
		bad("`if s.alloc != nil { s.alloc.ReleasePages(in.orderID()) }` not found in the send block", body[3])
	}
	p.popsBothHeads = x10Eq(rest, pops...)
	if !p.popsBothHeads {
		u.fail("maybeSendPackets: the send block does not pop exactly the two heads: %q (%s)", rest, pi.pos(body[3]))
	}
	if len(rest) > 0 && sendIdx > 0 && texts[0] != send && texts[0] != release {
		bad("a head is popped before the send", body[3])
	}
}

// ---- order ids ----

func x10OrderIDs(pi *pkgInfo, u *unit, p *x10Pipe) {
	ok1, fd := x10BodyIs(pi, "packetManager.newOrderID", "s.packetCount++", "return s.packetCount")
	ok2, _ := x10BodyIs(pi, "packetManager.newOrderedRequest", "return orderedRequest{requestPacket: p, orderid: s.newOrderID()}")
	ok3, _ := x10BodyIs(pi, "orderedRequest.orderID", "return p.orderid")
	ok4, _ := x10BodyIs(pi, "orderedResponse.orderID", "return p.orderid")
	ok5, _ := x10BodyIs(pi, "packetManager.newOrderedResponse", "return orderedResponse{responsePacket: p, orderid: id}")
	p.newOrderIDPreIncr = ok1 && ok2 && ok3 && ok4 && ok5
	if !p.newOrderIDPreIncr {
		u.fail("order ids: newOrderID / newOrderedRequest / newOrderedResponse / orderID() are not the expected one-liners (%v %v %v %v %v) (%s)", ok1, ok2, ok3, ok4, ok5, x10Pos(pi, fd))
	}
	p.getNextIsPlusOne, fd = x10BodyIs(pi, "packetManager.getNextOrderID", "return s.packetCount + 1")
	if !p.getNextIsPlusOne {
		u.fail("getNextOrderID: body is not `return s.packetCount + 1` (%s)", x10Pos(pi, fd))
	}
}

// ---- the receive loops ----

// x10ServeLoop recognises, inside the `for { … }` of the receive loop,
//
//	pkt, err = makePacket(rxPacket{pktType, pktBytes})
//	if err != nil { switch { case errors.Is(err, errUnknownExtendedPacket): A  default: B } }
//	pktChan <- R.pktMgr.newOrderedRequest(pkt)
//
// and classifies how A and B end.
func x10ServeLoop(pi *pkgInfo, u *unit, fn, recv, tag string) {
	stops, dispatchesAfterErr, unkDispatched := false, true, false
	how := "?"
	defer func() {
		u.pf("def serveLoop%s_stopsOnMakePacketError : Bool := %s\n", tag, leanBool(stops))
		u.pf("def serveLoop%s_dispatchesAfterMakePacketError : Bool := %s\n", tag, leanBool(dispatchesAfterErr))
		u.pf("def serveLoop%s_makePacketErrorEnds : String := %s\n", tag, leanStr(how))
		u.pf("def serveLoop%s_unknownExtendedIsDispatched : Bool := %s\n", tag, leanBool(unkDispatched))
	}()
	fd := pi.funcDecl(fn)
	if fd == nil {
		u.fail("%s not found", fn)
		return
	}
	u.pf("-- source: %s (%s)\n", pi.pos(fd), fn)
	var loop *ast.ForStmt
	loopLabel := ""
	for _, s := range fd.Body.List {
		st := s
		label := ""
		if ls, ok := st.(*ast.LabeledStmt); ok {
			label = ls.Label.Name
			st = ls.Stmt
		}
		if f, ok := st.(*ast.ForStmt); ok && f.Cond == nil && f.Init == nil && f.Post == nil {
			if loop != nil {
				u.fail("%s: two `for { }` loops", fn)
			}
			loop, loopLabel = f, label
		}
	}
	if loop == nil {
		u.fail("%s: receive loop `for { … }` not found", fn)
		return
	}
	body := x10Stmts(pi, loop.Body.List)
	// expected sequence: recvPacket assign, if err != nil {…}, makePacket assign, if err != nil {…}, send
	idx := -1
	for i, s := range body {
		if x10Text(s) == "pkt, err = makePacket(rxPacket{pktType, pktBytes})" {
			idx = i
		}
	}
	send := "pktChan <- " + recv + ".pktMgr.newOrderedRequest(pkt)"
	if idx < 0 || idx+2 >= len(body) || idx+3 != len(body) || x10Text(body[idx+2]) != send {
		u.fail("%s: loop does not end with `pkt, err = makePacket(…); if err != nil {…}; %s` (%s)", fn, send, pi.pos(loop))
		return
	}
	if idx != 2 || !strings.HasPrefix(x10Text(body[0]), "pktType, pktBytes, err = "+recv+".serverConn.recvPacket(") {
		u.fail("%s: loop does not start with recvPacket + error check (%s)", fn, pi.pos(loop))
	}
	const isUnk = "errors.Is(err, errUnknownExtendedPacket)"
	ifs, ok := body[idx+1].(*ast.IfStmt)
	direct := ok && ifs.Init == nil && ifs.Else == nil &&
		(x10Text(ifs.Cond) == "err != nil && !"+isUnk || x10Text(ifs.Cond) == "!"+isUnk+" && err != nil")
	if !ok || ifs.Init != nil || ifs.Else != nil || (x10Text(ifs.Cond) != "err != nil" && !direct) {
		u.fail("%s: makePacket is not followed by `if err != nil {…}` or `if err != nil && !errors.Is(err, errUnknownExtendedPacket) {…}` (%s)", fn, pi.pos(body[idx+1]))
		return
	}
	inner := x10Stmts(pi, ifs.Body.List)
	// classify the end of a statement list: how control leaves it
	classify := func(list []ast.Stmt, inSwitch bool) string {
		list = x10Stmts(pi, list)
		// no branch/return anywhere except as the last statement
		for i, s := range list {
			last := i == len(list)-1
			found := false
			ast.Inspect(s, func(n ast.Node) bool {
				switch n.(type) {
				case *ast.FuncLit:
					return false
				case *ast.ReturnStmt, *ast.BranchStmt:
					if !(last && n == ast.Node(s)) {
						found = true
					}
				}
				return true
			})
			if found {
				u.fail("%s: conditional or early exit inside the makePacket error handling at %s", fn, pi.pos(s))
				return "?"
			}
		}
		if len(list) == 0 {
			return "falls-through"
		}
		switch t := list[len(list)-1].(type) {
		case *ast.ReturnStmt:
			return "return"
		case *ast.BranchStmt:
			switch {
			case t.Tok == token.BREAK && t.Label == nil && inSwitch:
				return "break-switch"
			case t.Tok == token.BREAK && t.Label == nil:
				return "break-loop"
			case t.Tok == token.BREAK && t.Label.Name == loopLabel:
				return "break-loop"
			case t.Tok == token.CONTINUE && (t.Label == nil || t.Label.Name == loopLabel):
				return "continue"
			default:
				u.fail("%s: unrecognised branch statement at %s", fn, pi.pos(t))
				return "?"
			}
		}
		return "falls-through"
	}
	unkEnd, otherEnd := "?", "?"
	recognised := false
	if direct {
		// if err != nil && !errors.Is(err, errUnknownExtendedPacket) { B }: the body is directly inside the for loop
		recognised = true
		unkEnd = "falls-through"
		otherEnd = classify(ifs.Body.List, false)
	} else if len(inner) == 1 {
		switch st := inner[0].(type) {
		case *ast.SwitchStmt:
			if st.Tag == nil && st.Init == nil {
				sawUnk, sawDef := false, false
				recognised = true
				for _, c := range st.Body.List {
					cc := c.(*ast.CaseClause)
					switch {
					case cc.List == nil:
						sawDef = true
						otherEnd = classify(cc.Body, true)
					case len(cc.List) == 1 && x10Text(cc.List[0]) == isUnk:
						sawUnk = true
						unkEnd = classify(cc.Body, true)
					default:
						recognised = false
					}
				}
				recognised = recognised && sawUnk && sawDef
			}
		case *ast.IfStmt:
			// if !errors.Is(err, errUnknownExtendedPacket) { B }   or   if errors.Is(…) { A } else { B }
			if st.Init == nil {
				switch x10Text(st.Cond) {
				case "!" + isUnk:
					if st.Else == nil {
						recognised = true
						unkEnd = "falls-through"
						otherEnd = classify(st.Body.List, false)
					}
				case isUnk:
					if eb, ok := st.Else.(*ast.BlockStmt); ok {
						recognised = true
						unkEnd = classify(st.Body.List, false)
						otherEnd = classify(eb.List, false)
					}
				}
			}
		}
	}
	if !recognised {
		u.fail("%s: the makePacket error handling is not `switch { case errors.Is(err, errUnknownExtendedPacket): … default: … }` (or the equivalent if) (%s)", fn, pi.pos(ifs))
		return
	}
	how = otherEnd
	stops = otherEnd == "return" || otherEnd == "break-loop"
	dispatchesAfterErr = !(stops || otherEnd == "continue")
	unkDispatched = unkEnd == "falls-through" || unkEnd == "break-switch"
	if otherEnd == "?" || unkEnd == "?" {
		stops, dispatchesAfterErr, unkDispatched = false, true, false
	}
}
