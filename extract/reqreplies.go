package main

// Unit ReqReplies (property C10, second half: "whatever the handler returns reaches the client unchanged in
// kind"): how each request-server wrapper of request.go builds its REPLY from what the handler returned.
//
// ReqServer (reqserver.go) says which handler method each wrapper calls with which arguments; this unit says what is
// done with the RESULTS.  Every wrapper body is walked symbolically, statement by statement, over a closed list of
// statement and expression shapes (anything else -> u.fail and the wrapper's rows are dropped).  Local names are
// replaced by what they are bound to, so a local rename changes nothing and `Length: length` with
// `length` = packetData's third result is rendered differently from `Length: uint32(n)` with n = ReadAt's first.
//
// Vocabulary of the normalised expressions
//   H, R, PKT, ALLOC, ORDERID, MAXTX   the wrapper's parameters: handler (first parameter), *Request, requestPacket
//                                      (also its type-switch alias `p`), *allocator, and the two uint32 in order
//   REQID            PKT.id()
//   BUF              PKT.getDataSlice(ALLOC,ORDERID,MAXTX)   the READ buffer (clamped to max-tx-packet)
//   REQOFF           int64(PKT.Offset)
//   REQLEN           PKT.Len        the REQUESTED length of a READ
//   REQDATA          PKT.Data       the payload of a WRITE
//   REQWLEN          PKT.Length     the length word of a WRITE
//   M#i              the i-th result of the call of method / function M bound in this wrapper (ReadAt#0 = the count
//                    returned by the handler's ReadAt, ReadAt#1 its error, packetData#0 …); one call of M per path
//   X.(T), is(X,T)   the two results of `v, ok := X.(T)`
//   zero             a declared, never assigned variable (or named result)
//   {a|b}            the value differs between the branches of an earlier if/switch that all fall through
//   map(S, EL => E)  the slice built by `for _, x := range S { acc = append(acc, E) }` from an empty acc
//   everything else  Go syntax without spaces around commas and colons; package-level names verbatim
// A `packetData(PKT,ALLOC,ORDERID,MAXTX)` call inside a type-switch clause that fixes PKT's type is inlined from
// packetData's own rows (packetDataReturns), so `data, offset, length := packetData(p, …)` in a READ clause binds
// BUF, REQOFF, REQLEN.
//
// Guards are the conjunction of the branch decisions on the path to the statement, in order; `T in [a,b]` is a
// switch clause, `T not in […]` the default / no clause, `type(X) in […]` a type-switch clause.  When every path
// that enters an if/switch statement leaves it without returning, its decisions are forgotten afterwards (the
// paths are merged; differing values become {a|b}).
//
// Labels are syntactic: wrapper name + "/" + the enclosing case clauses of the statement
// (packet types shortened: *sshFxpReadPacket -> read).

import (
	"fmt"
	"go/ast"
	"go/token"
	"go/types"
	"sort"
	"strings"
)

func init() { extractors = append(extractors, extractReqReplies) }

var rrHandlerMethods = map[string]bool{"Fileread": true, "Filewrite": true, "OpenFile": true, "Filecmd": true,
	"PosixRename": true, "StatVFS": true, "Filelist": true, "Lstat": true, "Readlink": true, "RealPath": true,
	"ReadAt": true, "WriteAt": true, "ListAt": true}

var rrAliases = map[string]string{
	"PKT.id()":                              "REQID",
	"PKT.getDataSlice(ALLOC,ORDERID,MAXTX)": "BUF",
	"int64(PKT.Offset)":                     "REQOFF",
	"PKT.Len":                               "REQLEN",
	"PKT.Data":                              "REQDATA",
	"PKT.Length":                            "REQWLEN",
}

// calls whose repeated evaluation yields the same value and has no effect (not tracked for identity)
var rrPure = map[string]bool{"len": true, "cap": true, "statusFromError": true, "errors.New": true,
	"fmt.Errorf": true, "strings.ToLower": true}

type rrPath struct {
	env    []map[string]string // innermost scope last
	conds  []string
	evals  map[string]bool
	called map[string]bool
	narrow string
}

func (p *rrPath) clone() *rrPath {
	q := &rrPath{narrow: p.narrow, evals: map[string]bool{}, called: map[string]bool{}}
	for _, s := range p.env {
		m := map[string]string{}
		for k, v := range s {
			m[k] = v
		}
		q.env = append(q.env, m)
	}
	q.conds = append([]string{}, p.conds...)
	for k := range p.evals {
		q.evals[k] = true
	}
	for k := range p.called {
		q.called[k] = true
	}
	return q
}

func (p *rrPath) push() { p.env = append(p.env, map[string]string{}) }
func (p *rrPath) pop()  { p.env = p.env[:len(p.env)-1] }

func (p *rrPath) lookup(name string) (string, bool) {
	for i := len(p.env) - 1; i >= 0; i-- {
		if v, ok := p.env[i][name]; ok {
			return v, true
		}
	}
	return "", false
}

func (p *rrPath) define(name, v string) {
	if name != "_" {
		p.env[len(p.env)-1][name] = v
	}
}

func (p *rrPath) assign(name, v string) bool {
	for i := len(p.env) - 1; i >= 0; i-- {
		if _, ok := p.env[i][name]; ok {
			p.env[i][name] = v
			return true
		}
	}
	return false
}

func (p *rrPath) guard() string { return strings.Join(p.conds, " && ") }

type rrBinding struct{ label, names, call string }
type rrEffect struct{ label, guard, text string }
type rrLeaf struct {
	label   string
	guard   string
	results []string
	lit     *ast.CompositeLit // the single result is &T{…}
	fields  [][2]string
	typ     string
	status  bool
	statID  string
	statErr string
	pos     string
}

type rrWalker struct {
	pi       *pkgInfo
	u        *unit
	fn       string
	labels   []string
	bindings []rrBinding
	effects  []rrEffect
	leaves   []rrLeaf
	named    []string            // named results
	pdRows   map[string][]string // packetData rows by short packet type (nil while walking packetData itself)
	nfail    int
}

func (w *rrWalker) fail(n ast.Node, format string, a ...any) {
	w.nfail++
	w.u.fail("%s: %s at %s", w.fn, fmt.Sprintf(format, a...), w.pi.pos(n))
}

func (w *rrWalker) label() string {
	if len(w.labels) == 0 {
		return w.fn
	}
	return w.fn + "/" + strings.Join(w.labels, "/")
}

func rrShortType(e ast.Expr) string {
	s := typeName(e)
	if strings.HasPrefix(s, "sshFxp") && strings.HasSuffix(s, "Packet") && len(s) > len("sshFxpPacket") {
		return strings.ToLower(s[len("sshFxp") : len(s)-len("Packet")])
	}
	return s
}

func rrAlias(s string) string {
	if a, ok := rrAliases[s]; ok {
		return a
	}
	return s
}

// isPkgLevel: the identifier denotes a package-level or universe object (type, const, var, func, nil, builtin).
func (w *rrWalker) isGlobal(id *ast.Ident) bool {
	obj := w.pi.info.Uses[id]
	if obj == nil {
		return false
	}
	if _, ok := obj.(*types.PkgName); ok {
		return true
	}
	return obj.Parent() == types.Universe || obj.Parent() == w.pi.pkg.Scope()
}

func (w *rrWalker) isPkgName(e ast.Expr) bool {
	id, ok := e.(*ast.Ident)
	if !ok {
		return false
	}
	_, isPkg := w.pi.info.Uses[id].(*types.PkgName)
	return isPkg
}

func rrIsTypeExpr(e ast.Expr) bool {
	switch e.(type) {
	case *ast.ArrayType, *ast.MapType, *ast.ChanType, *ast.FuncType, *ast.InterfaceType, *ast.StructType:
		return true
	}
	return false
}

// norm renders an expression in the vocabulary; rec: the expression is being evaluated here (calls are tracked).
func (w *rrWalker) norm(e ast.Expr, p *rrPath, rec bool) string {
	switch t := e.(type) {
	case *ast.ParenExpr:
		return "(" + w.norm(t.X, p, rec) + ")"
	case *ast.BasicLit:
		return t.Value
	case *ast.Ident:
		if t.Name == "_" {
			return "_"
		}
		if v, ok := p.lookup(t.Name); ok {
			return v
		}
		if w.isGlobal(t) {
			return t.Name
		}
		w.fail(t, "identifier %q is neither a tracked local nor a package-level name", t.Name)
		return "?" + t.Name
	case *ast.SelectorExpr:
		if w.isPkgName(t.X) {
			return exprString(t)
		}
		return rrAlias(w.norm(t.X, p, rec) + "." + t.Sel.Name)
	case *ast.StarExpr:
		return "*" + w.norm(t.X, p, rec)
	case *ast.UnaryExpr:
		return t.Op.String() + w.norm(t.X, p, rec)
	case *ast.BinaryExpr:
		return w.norm(t.X, p, rec) + " " + t.Op.String() + " " + w.norm(t.Y, p, rec)
	case *ast.IndexExpr:
		return w.norm(t.X, p, rec) + "[" + w.norm(t.Index, p, rec) + "]"
	case *ast.SliceExpr:
		s := w.norm(t.X, p, rec) + "["
		if t.Low != nil {
			s += w.norm(t.Low, p, rec)
		}
		s += ":"
		if t.High != nil {
			s += w.norm(t.High, p, rec)
		}
		if t.Slice3 {
			s += ":"
			if t.Max != nil {
				s += w.norm(t.Max, p, rec)
			}
		}
		return s + "]"
	case *ast.TypeAssertExpr:
		if t.Type == nil {
			break
		}
		return w.norm(t.X, p, rec) + ".(" + x10Text(t.Type) + ")"
	case *ast.CompositeLit:
		return w.normLit(t, p, rec)
	case *ast.CallExpr:
		return w.normCall(t, p, rec)
	case *ast.ArrayType, *ast.MapType, *ast.ChanType, *ast.FuncType, *ast.InterfaceType, *ast.StructType:
		return strings.ReplaceAll(x10Text(t), " ", "")
	}
	w.fail(e, "unrecognised expression `%s`", x10Text(e))
	return "?"
}

func (w *rrWalker) normLit(cl *ast.CompositeLit, p *rrPath, rec bool) string {
	ty := ""
	if cl.Type != nil {
		ty = strings.ReplaceAll(x10Text(cl.Type), " ", "")
	}
	var fs []string
	for _, el := range cl.Elts {
		if kv, ok := el.(*ast.KeyValueExpr); ok {
			k := x10Text(kv.Key)
			if _, isId := kv.Key.(*ast.Ident); !isId {
				k = w.norm(kv.Key, p, rec)
			}
			fs = append(fs, k+":"+w.norm(kv.Value, p, rec))
		} else {
			fs = append(fs, w.norm(el, p, rec))
		}
	}
	return ty + "{" + strings.Join(fs, ",") + "}"
}

func (w *rrWalker) normCall(c *ast.CallExpr, p *rrPath, rec bool) string {
	if c.Ellipsis != token.NoPos {
		w.fail(c, "variadic spread in a call")
	}
	fun, pure := "", false
	switch f := c.Fun.(type) {
	case *ast.Ident:
		if _, local := p.lookup(f.Name); local {
			w.fail(c, "call of a local function value %q", f.Name)
			return "?"
		}
		if !w.isGlobal(f) {
			w.fail(c, "call of unknown function %q", f.Name)
			return "?"
		}
		fun = f.Name
		if _, isType := w.pi.info.Uses[f].(*types.TypeName); isType {
			pure = true
		}
	case *ast.SelectorExpr:
		if w.isPkgName(f.X) {
			fun = exprString(f)
		} else {
			fun = w.norm(f.X, p, rec) + "." + f.Sel.Name
		}
	case *ast.ParenExpr, *ast.ArrayType, *ast.StarExpr, *ast.InterfaceType, *ast.MapType:
		fun, pure = strings.ReplaceAll(x10Text(f), " ", ""), true // conversion
	default:
		w.fail(c, "unrecognised callee `%s`", x10Text(c.Fun))
		return "?"
	}
	var args []string
	for _, a := range c.Args {
		if rrIsTypeExpr(a) {
			args = append(args, strings.ReplaceAll(x10Text(a), " ", ""))
		} else {
			args = append(args, w.norm(a, p, rec))
		}
	}
	text := rrAlias(fun + "(" + strings.Join(args, ",") + ")")
	if text == "REQID" || rrPure[fun] || pure {
		return text
	}
	if rec {
		w.evaluated(c, p, text)
	}
	return text
}

// evaluated: the same effectful / allocating call text twice on one path would make two values look like one.
func (w *rrWalker) evaluated(n ast.Node, p *rrPath, text string) {
	if p.evals[text] {
		w.fail(n, "`%s` is evaluated twice on one path (the two values would be indistinguishable)", text)
	}
	p.evals[text] = true
}

func rrCallee(c *ast.CallExpr) string {
	switch f := c.Fun.(type) {
	case *ast.Ident:
		return f.Name
	case *ast.SelectorExpr:
		return f.Sel.Name
	}
	return ""
}

// ---- statements ----

func (w *rrWalker) block(list []ast.Stmt, in []*rrPath) []*rrPath {
	for _, p := range in {
		p.push()
	}
	cur := in
	for _, s := range x10Stmts(w.pi, list) {
		if len(cur) == 0 {
			w.fail(s, "statement after every path has returned")
			break
		}
		cur = w.stmt(s, cur)
		if len(cur) > 64 {
			w.fail(s, "too many control-flow paths")
			cur = cur[:1]
		}
	}
	for _, p := range cur {
		p.pop()
	}
	return cur
}

// rrAlternatives splits a value of the form {a|b|…} (one brace pair around the whole text) into its alternatives.
func rrAlternatives(v string) []string {
	if len(v) < 2 || v[0] != '{' || v[len(v)-1] != '}' {
		return []string{v}
	}
	depth := 0
	var out []string
	start := 1
	for i := 0; i < len(v); i++ {
		switch v[i] {
		case '{':
			depth++
		case '}':
			depth--
			if depth == 0 && i != len(v)-1 {
				return []string{v} // the first brace closes before the end: not one group
			}
		case '|':
			// Go's own | and || are rendered with spaces around them
			if depth == 1 && v[i-1] != ' ' && v[i-1] != '|' && v[i+1] != ' ' && v[i+1] != '|' {
				out = append(out, v[start:i])
				start = i + 1
			}
		}
	}
	return append(out, v[start:len(v)-1])
}

// merge: the survivors of ONE incoming path through a branching statement in which nothing returned.
func rrMerge(base *rrPath, outs []*rrPath) *rrPath {
	if len(outs) == 1 {
		m := outs[0]
		m.conds = append([]string{}, base.conds...)
		m.narrow = base.narrow
		return m
	}
	m := base.clone()
	for i := range m.env {
		for k := range m.env[i] {
			var vals []string
			seen := map[string]bool{}
			for _, o := range outs {
				for _, v := range rrAlternatives(o.env[i][k]) {
					if !seen[v] {
						seen[v] = true
						vals = append(vals, v)
					}
				}
			}
			if len(vals) == 1 {
				m.env[i][k] = vals[0]
			} else {
				m.env[i][k] = "{" + strings.Join(vals, "|") + "}"
			}
		}
	}
	for _, o := range outs {
		for k := range o.evals {
			m.evals[k] = true
		}
		for k := range o.called {
			m.called[k] = true
		}
	}
	return m
}

// branching runs f on a private copy of every incoming path and merges the survivors when nothing returned.
func (w *rrWalker) branching(in []*rrPath, f func(p *rrPath) []*rrPath) []*rrPath {
	var out []*rrPath
	for _, p := range in {
		base := p.clone()
		depth := len(p.env)
		before := len(w.leaves)
		outs := f(p)
		for _, o := range outs {
			if len(o.env) != depth {
				w.u.fail("%s: internal: scope depth mismatch", w.fn)
				w.nfail++
				return nil
			}
		}
		if len(w.leaves) == before && len(outs) > 0 {
			out = append(out, rrMerge(base, outs))
		} else {
			for _, o := range outs {
				o.narrow = base.narrow
			}
			out = append(out, outs...)
		}
	}
	return out
}

func (w *rrWalker) stmt(s ast.Stmt, in []*rrPath) []*rrPath {
	switch t := s.(type) {
	case *ast.BlockStmt:
		return w.block(t.List, in)
	case *ast.ReturnStmt:
		for _, p := range in {
			w.leaf(t, p)
		}
		return nil
	case *ast.AssignStmt:
		for _, p := range in {
			w.assign(t, p)
		}
		return in
	case *ast.DeclStmt:
		gd, ok := t.Decl.(*ast.GenDecl)
		if !ok || gd.Tok != token.VAR {
			w.fail(t, "declaration other than var")
			return in
		}
		for _, p := range in {
			for _, sp := range gd.Specs {
				vs := sp.(*ast.ValueSpec)
				switch {
				case len(vs.Values) == 0:
					for _, n := range vs.Names {
						p.define(n.Name, "zero")
					}
				case len(vs.Values) == len(vs.Names):
					var vals []string
					for _, v := range vs.Values {
						vals = append(vals, w.norm(v, p, true))
					}
					for i, n := range vs.Names {
						p.define(n.Name, vals[i])
					}
				default:
					w.fail(t, "var declaration with a multi-value initialiser")
				}
			}
		}
		return in
	case *ast.ExprStmt:
		c, ok := t.X.(*ast.CallExpr)
		if !ok {
			w.fail(t, "expression statement that is not a call")
			return in
		}
		for _, p := range in {
			text := w.norm(c, p, true)
			if fn := rrCallee(c); rrHandlerMethods[fn] {
				w.noteCall(c, p, fn)
				w.bindings = append(w.bindings, rrBinding{w.label(), "discarded", text})
			} else {
				w.effects = append(w.effects, rrEffect{w.label(), p.guard(), text})
			}
		}
		return in
	case *ast.IfStmt:
		return w.branching(in, func(p *rrPath) []*rrPath {
			p.push()
			if t.Init != nil {
				if len(w.stmt(t.Init, []*rrPath{p})) != 1 {
					return nil
				}
			}
			c := w.norm(t.Cond, p, true)
			neg := "!(" + c + ")"
			if _, simple := t.Cond.(*ast.Ident); simple || strings.HasPrefix(c, "is(") {
				neg = "!" + c
			}
			q := p.clone()
			p.conds = append(p.conds, c)
			outs := w.block(t.Body.List, []*rrPath{p})
			q.conds = append(q.conds, neg)
			if t.Else != nil {
				outs = append(outs, w.stmt(t.Else, []*rrPath{q})...)
			} else {
				outs = append(outs, q)
			}
			for _, o := range outs {
				o.pop()
			}
			return outs
		})
	case *ast.SwitchStmt:
		if t.Tag == nil {
			w.fail(t, "switch without a tag")
			return in
		}
		return w.branching(in, func(p *rrPath) []*rrPath {
			p.push()
			if t.Init != nil {
				w.stmt(t.Init, []*rrPath{p})
			}
			tag := w.norm(t.Tag, p, true)
			var all []string
			hasDefault := false
			for _, c := range t.Body.List {
				cc := c.(*ast.CaseClause)
				if cc.List == nil {
					hasDefault = true
				}
				for _, e := range cc.List {
					all = append(all, w.norm(e, p, true))
				}
			}
			var outs []*rrPath
			for _, c := range t.Body.List {
				cc := c.(*ast.CaseClause)
				q := p.clone()
				lab := "default"
				if cc.List == nil {
					q.conds = append(q.conds, tag+" not in ["+strings.Join(all, ",")+"]")
				} else {
					var vs, ls []string
					for _, e := range cc.List {
						v := w.norm(e, q, false)
						vs = append(vs, v)
						ls = append(ls, strings.Trim(v, `"`))
					}
					q.conds = append(q.conds, tag+" in ["+strings.Join(vs, ",")+"]")
					lab = strings.Join(ls, ",")
				}
				w.clauseBody(cc, lab, q, &outs)
			}
			if !hasDefault {
				q := p.clone()
				q.conds = append(q.conds, tag+" not in ["+strings.Join(all, ",")+"]")
				outs = append(outs, q)
			}
			for _, o := range outs {
				o.pop()
			}
			return outs
		})
	case *ast.TypeSwitchStmt:
		return w.branching(in, func(p *rrPath) []*rrPath {
			p.push()
			if t.Init != nil {
				w.stmt(t.Init, []*rrPath{p})
			}
			var ta *ast.TypeAssertExpr
			alias := ""
			switch a := t.Assign.(type) {
			case *ast.ExprStmt:
				ta, _ = a.X.(*ast.TypeAssertExpr)
			case *ast.AssignStmt:
				if len(a.Lhs) == 1 && len(a.Rhs) == 1 {
					ta, _ = a.Rhs[0].(*ast.TypeAssertExpr)
					alias = x10Text(a.Lhs[0])
				}
			}
			if ta == nil {
				w.fail(t, "unrecognised type switch header")
				p.pop()
				return []*rrPath{p}
			}
			subj := w.norm(ta.X, p, true)
			var all []string
			hasDefault := false
			for _, c := range t.Body.List {
				cc := c.(*ast.CaseClause)
				if cc.List == nil {
					hasDefault = true
				}
				for _, e := range cc.List {
					all = append(all, rrShortType(e))
				}
			}
			var outs []*rrPath
			for _, c := range t.Body.List {
				cc := c.(*ast.CaseClause)
				q := p.clone()
				lab := "default"
				if cc.List == nil {
					q.conds = append(q.conds, "type("+subj+") not in ["+strings.Join(all, ",")+"]")
				} else {
					var ls []string
					for _, e := range cc.List {
						ls = append(ls, rrShortType(e))
					}
					lab = strings.Join(ls, ",")
					q.conds = append(q.conds, "type("+subj+") in ["+lab+"]")
					if subj == "PKT" && len(ls) == 1 {
						q.narrow = ls[0]
					}
				}
				if alias != "" {
					q.define(alias, subj)
				}
				w.clauseBody(cc, lab, q, &outs)
			}
			if !hasDefault {
				q := p.clone()
				q.conds = append(q.conds, "type("+subj+") not in ["+strings.Join(all, ",")+"]")
				outs = append(outs, q)
			}
			for _, o := range outs {
				o.pop()
			}
			return outs
		})
	case *ast.RangeStmt:
		for _, p := range in {
			w.mapLoop(t, p)
		}
		return in
	}
	w.fail(s, "unrecognised statement `%s`", rrClip(x10Text(s)))
	return in
}

func rrClip(s string) string {
	if len(s) > 80 {
		return s[:80] + "…"
	}
	return s
}

func (w *rrWalker) clauseBody(cc *ast.CaseClause, lab string, q *rrPath, outs *[]*rrPath) {
	for _, st := range cc.Body {
		if b, ok := st.(*ast.BranchStmt); ok {
			w.fail(b, "break/fallthrough/goto in a case clause")
		}
	}
	w.labels = append(w.labels, lab)
	*outs = append(*outs, w.block(cc.Body, []*rrPath{q})...)
	w.labels = w.labels[:len(w.labels)-1]
}

func (w *rrWalker) noteCall(n ast.Node, p *rrPath, fn string) {
	if p.called[fn] {
		w.fail(n, "%s is called twice on one path (its results M#i would be ambiguous)", fn)
	}
	p.called[fn] = true
}

// store: `lhs = v` / `lhs := v` for one target.
func (w *rrWalker) store(as *ast.AssignStmt, lhs ast.Expr, v string, p *rrPath) {
	switch l := lhs.(type) {
	case *ast.Ident:
		if l.Name == "_" {
			return
		}
		if as.Tok == token.DEFINE {
			p.define(l.Name, v) // defines, or assigns when the name already lives in this scope
			return
		}
		if !p.assign(l.Name, v) {
			if w.isGlobal(l) {
				w.effects = append(w.effects, rrEffect{w.label(), p.guard(), l.Name + " = " + v})
			} else {
				w.fail(l, "assignment to untracked name %q", l.Name)
			}
		}
	case *ast.SelectorExpr, *ast.IndexExpr, *ast.StarExpr:
		w.effects = append(w.effects, rrEffect{w.label(), p.guard(), w.norm(l, p, false) + " = " + v})
	default:
		w.fail(lhs, "unrecognised assignment target `%s`", x10Text(lhs))
	}
}

func (w *rrWalker) assign(as *ast.AssignStmt, p *rrPath) {
	if as.Tok != token.DEFINE && as.Tok != token.ASSIGN {
		w.fail(as, "compound assignment `%s`", x10Text(as))
		return
	}
	pattern := func(n int) string {
		var ps []string
		for i := 0; i < n; i++ {
			if id, ok := as.Lhs[i].(*ast.Ident); ok && id.Name == "_" {
				ps = append(ps, "_")
			} else {
				ps = append(ps, fmt.Sprintf("#%d", i))
			}
		}
		return strings.Join(ps, ",")
	}
	if len(as.Rhs) == 1 && len(as.Lhs) >= 2 {
		switch r := as.Rhs[0].(type) {
		case *ast.CallExpr:
			fn := rrCallee(r)
			if fn == "" {
				w.fail(r, "unrecognised callee `%s`", x10Text(r.Fun))
				return
			}
			text := w.norm(r, p, true)
			if fn == "packetData" && w.pdRows != nil && p.narrow != "" && text == "packetData(PKT,ALLOC,ORDERID,MAXTX)" {
				if row, ok := w.pdRows[p.narrow]; ok && len(row) == len(as.Lhs) {
					// inline: the call's own evaluation was tracked above; the values it stands for are tracked too
					for _, v := range row {
						if strings.Contains(v, "(") || v == "BUF" {
							w.evaluated(r, p, v)
						}
					}
					for i, l := range as.Lhs {
						w.store(as, l, row[i], p)
					}
					return
				}
			}
			w.noteCall(r, p, fn)
			w.bindings = append(w.bindings, rrBinding{w.label(), pattern(len(as.Lhs)), text})
			for i, l := range as.Lhs {
				w.store(as, l, fmt.Sprintf("%s#%d", fn, i), p)
			}
		case *ast.TypeAssertExpr:
			if len(as.Lhs) != 2 || r.Type == nil {
				w.fail(as, "unrecognised assignment `%s`", x10Text(as))
				return
			}
			x, ty := w.norm(r.X, p, true), x10Text(r.Type)
			w.store(as, as.Lhs[0], x+".("+ty+")", p)
			w.store(as, as.Lhs[1], "is("+x+","+ty+")", p)
		default:
			w.fail(as, "multi-value assignment from something other than a call or type assertion")
		}
		return
	}
	if len(as.Lhs) != len(as.Rhs) {
		w.fail(as, "unrecognised assignment `%s`", x10Text(as))
		return
	}
	vals := make([]string, len(as.Rhs))
	for i, r := range as.Rhs {
		vals[i] = w.norm(r, p, true)
		if c, ok := r.(*ast.CallExpr); ok {
			if fn := rrCallee(c); rrHandlerMethods[fn] {
				w.noteCall(c, p, fn)
				pat := "#0"
				if id, ok := as.Lhs[i].(*ast.Ident); ok && id.Name == "_" {
					pat = "_"
				}
				w.bindings = append(w.bindings, rrBinding{w.label(), pat, vals[i]})
				vals[i] = fn + "#0"
			}
		}
	}
	for i, l := range as.Lhs {
		w.store(as, l, vals[i], p)
	}
}

// mapLoop: `for _, x := range S { acc = append(acc, E) }` with acc an empty slice so far.
func (w *rrWalker) mapLoop(rs *ast.RangeStmt, p *rrPath) {
	body := x10Stmts(w.pi, rs.Body.List)
	bad := func() { w.fail(rs, "loop is not `for _, x := range S { acc = append(acc, E) }` over an empty acc") }
	if rs.Tok != token.DEFINE || rs.Key == nil || x10Text(rs.Key) != "_" || rs.Value == nil || len(body) != 1 {
		bad()
		return
	}
	el, ok := rs.Value.(*ast.Ident)
	as, ok2 := body[0].(*ast.AssignStmt)
	if !ok || !ok2 || as.Tok != token.ASSIGN || len(as.Lhs) != 1 || len(as.Rhs) != 1 {
		bad()
		return
	}
	acc, ok := as.Lhs[0].(*ast.Ident)
	call, ok2 := as.Rhs[0].(*ast.CallExpr)
	if !ok || !ok2 || x10Text(call.Fun) != "append" || len(call.Args) != 2 || x10Text(call.Args[0]) != acc.Name || call.Ellipsis != token.NoPos {
		bad()
		return
	}
	if id, isId := call.Fun.(*ast.Ident); !isId || w.pi.info.Uses[id] == nil || w.pi.info.Uses[id].Parent() != types.Universe {
		bad()
		return
	}
	cur, known := p.lookup(acc.Name)
	empty := cur == "zero" || cur == "nil" || strings.HasSuffix(cur, "{}")
	if strings.HasPrefix(cur, "make(") {
		parts := strings.Split(cur, ",")
		empty = len(parts) >= 2 && strings.TrimSuffix(parts[1], ")") == "0"
	}
	if !known || !empty {
		bad()
		return
	}
	src := w.norm(rs.X, p, true)
	p.push()
	p.define(el.Name, "EL")
	body0 := w.norm(call.Args[1], p, false)
	p.pop()
	p.assign(acc.Name, "map("+src+", EL => "+body0+")")
}

func (w *rrWalker) leaf(rs *ast.ReturnStmt, p *rrPath) {
	lf := rrLeaf{label: w.label(), guard: p.guard(), pos: w.pi.pos(rs)}
	if len(rs.Results) == 0 {
		for _, n := range w.named {
			v, _ := p.lookup(n)
			lf.results = append(lf.results, v)
		}
		w.leaves = append(w.leaves, lf)
		return
	}
	for _, r := range rs.Results {
		lf.results = append(lf.results, w.norm(r, p, true))
	}
	if len(rs.Results) == 1 {
		switch r := rs.Results[0].(type) {
		case *ast.CallExpr:
			if x10Text(r.Fun) == "statusFromError" && len(r.Args) == 2 {
				lf.status = true
				lf.statID = w.norm(r.Args[0], p, false)
				lf.statErr = w.norm(r.Args[1], p, false)
				if lf.statID != "REQID" {
					w.fail(r, "status reply whose id is `%s`, not the request's", lf.statID)
				}
			}
		case *ast.UnaryExpr:
			if cl, ok := r.X.(*ast.CompositeLit); ok && r.Op == token.AND && cl.Type != nil {
				lf.lit = cl
				lf.typ = typeName(cl.Type)
				for _, el := range cl.Elts {
					kv, ok := el.(*ast.KeyValueExpr)
					if !ok {
						w.fail(cl, "positional reply literal")
						continue
					}
					lf.fields = append(lf.fields, [2]string{x10Text(kv.Key), w.norm(kv.Value, p, false)})
				}
			}
		}
	}
	w.leaves = append(w.leaves, lf)
}

// ---- driver ----

func (w *rrWalker) run(fd *ast.FuncDecl) {
	p := &rrPath{evals: map[string]bool{}, called: map[string]bool{}}
	p.push()
	idx, nUint := 0, 0
	for _, f := range fd.Type.Params.List {
		ty := x10Text(f.Type)
		for _, n := range f.Names {
			v := ""
			switch {
			case ty == "requestPacket":
				v = "PKT"
			case ty == "*Request":
				v = "R"
			case ty == "*allocator":
				v = "ALLOC"
			case ty == "uint32" && nUint == 0:
				v, nUint = "ORDERID", 1
			case ty == "uint32" && nUint == 1:
				v, nUint = "MAXTX", 2
			case idx == 0:
				v = "H"
			default:
				w.fail(f, "unexpected parameter %s %s", n.Name, ty)
				v = "?" + n.Name
			}
			if _, dup := p.lookup(n.Name); dup {
				w.fail(f, "duplicate parameter name")
			}
			for _, sc := range p.env {
				for _, old := range sc {
					if old == v {
						w.fail(f, "two parameters play the role %s", v)
					}
				}
			}
			p.define(n.Name, v)
			idx++
		}
	}
	if fd.Type.Results != nil {
		for _, f := range fd.Type.Results.List {
			for _, n := range f.Names {
				w.named = append(w.named, n.Name)
				p.define(n.Name, "zero")
			}
		}
	}
	outs := w.block(fd.Body.List, []*rrPath{p})
	if len(outs) > 0 {
		w.fail(fd, "a path reaches the end of the function without a return")
	}
}

func rrTuple(ss ...string) string {
	q := make([]string, len(ss))
	for i, s := range ss {
		q[i] = leanStr(s)
	}
	return "(" + strings.Join(q, ", ") + ")"
}

func extractReqReplies(x *extractor) {
	u := x.newUnit("ReqReplies")
	pi := x.root
	u.pf("namespace Sftp.G\n\n")

	var srcs []string
	walk := func(name string, pd map[string][]string) *rrWalker {
		fd := pi.funcDecl(name)
		if fd == nil || fd.Body == nil {
			u.fail("%s not found", name)
			return nil
		}
		srcs = append(srcs, fmt.Sprintf("%s (%s)", pi.pos(fd), name))
		w := &rrWalker{pi: pi, u: u, fn: name, pdRows: pd}
		w.run(fd)
		if w.nfail > 0 {
			return nil
		}
		return w
	}

	// packetData first: its rows are inlined where the packet type is known
	pdRows := map[string][]string{}
	var pdOrder []string
	if w := walk("packetData", nil); w != nil {
		good := len(w.bindings) == 0 && len(w.effects) == 0
		for _, lf := range w.leaves {
			key := strings.TrimPrefix(lf.label, "packetData")
			key = strings.TrimPrefix(key, "/")
			if key == "" {
				key = "default"
			}
			if _, dup := pdRows[key]; dup || len(lf.results) != 3 || strings.Contains(key, ",") || strings.Contains(key, "/") {
				good = false
			}
			pdRows[key] = lf.results
			pdOrder = append(pdOrder, key)
		}
		if !good {
			u.fail("packetData: body is not one type switch over the packet with one 3-value return per clause and a final return")
			pdRows, pdOrder = map[string][]string{}, nil
		}
	}

	var binds []rrBinding
	var effs []rrEffect
	var leaves []rrLeaf
	for _, name := range []string{"fileget", "fileput", "fileputget", "filelist", "filestat", "readlink", "filecmd"} {
		w := walk(name, pdRows)
		if w == nil {
			continue
		}
		for _, lf := range w.leaves {
			if len(lf.results) != 1 {
				u.fail("%s: return with %d values at %s", name, len(lf.results), lf.pos)
			}
		}
		binds = append(binds, w.bindings...)
		effs = append(effs, w.effects...)
		leaves = append(leaves, w.leaves...)
	}

	sort.Strings(srcs)
	u.pf("-- source: request.go — %s\n", strings.Join(srcs, ", "))
	u.pf("/-- packetData: packet type of the clause ↦ the three values returned (data, offset, length). -/\n")
	var parts []string
	for _, k := range pdOrder {
		parts = append(parts, fmt.Sprintf("  (%s, %s)", leanStr(k), leanStrList(pdRows[k])))
	}
	u.pf("def packetDataReturns : List (String × List String) := [\n%s]\n\n", strings.Join(parts, ",\n"))

	dedup := func(rows []string) string {
		seen := map[string]bool{}
		var out []string
		for _, r := range rows {
			if !seen[r] {
				seen[r] = true
				out = append(out, "  "+r)
			}
		}
		return "[\n" + strings.Join(out, ",\n") + "]"
	}

	u.pf("-- source: request.go (fileget, fileput, fileputget, filelist, filestat, readlink, filecmd)\n")
	u.pf("/-- (wrapper/clause, which results are bound: #i bound, _ discarded, call with receiver and arguments normalised).\n")
	u.pf("The i-th result is written M#i below.  packetData calls in a clause of known packet type are inlined, not listed. -/\n")
	var rows []string
	for _, b := range binds {
		rows = append(rows, rrTuple(b.label, b.names, b.call))
	}
	u.pf("def wrapperResultBindings : List (String × String × String) := %s\n\n", dedup(rows))

	u.pf("-- source: request.go (every `return` of the wrappers that is not statusFromError(pkt.id(), …))\n")
	u.pf("/-- (wrapper/clause, reply type, [(field, normalised value)]); a returned value that is not a literal has type \"=\"\n")
	u.pf("and the single field (\"\", value). -/\n")
	rows = nil
	var guards []string
	for _, lf := range leaves {
		if lf.status || len(lf.results) != 1 {
			continue
		}
		typ, fields := "=", [][2]string{{"", lf.results[0]}}
		if lf.lit != nil {
			typ, fields = lf.typ, lf.fields
		}
		var fs []string
		for _, f := range fields {
			fs = append(fs, rrTuple(f[0], f[1]))
		}
		rows = append(rows, fmt.Sprintf("(%s, %s, [%s])", leanStr(lf.label), leanStr(typ), strings.Join(fs, ", ")))
		guards = append(guards, rrTuple(lf.label, lf.guard))
	}
	u.pf("def wrapperReplies : List (String × String × List (String × String)) := %s\n\n", dedup(rows))
	u.pf("/-- (wrapper/clause, the branch decisions under which that reply is returned), same order as wrapperReplies. -/\n")
	u.pf("def wrapperReplyGuards : List (String × String) := %s\n\n", dedup(guards))

	u.pf("-- source: request.go (every `return statusFromError(pkt.id(), e)` of the wrappers)\n")
	u.pf("/-- (wrapper/clause, the branch decisions under which a STATUS is returned, the error it is built from). -/\n")
	rows = nil
	for _, lf := range leaves {
		if lf.status {
			rows = append(rows, rrTuple(lf.label, lf.guard, lf.statErr))
		}
	}
	u.pf("def wrapperStatusGuards : List (String × String × String) := %s\n\n", dedup(rows))

	u.pf("-- source: request.go (every other statement of the wrappers with an effect: field stores, calls whose result is unused)\n")
	u.pf("/-- (wrapper/clause, branch decisions, effect). -/\n")
	rows = nil
	for _, e := range effs {
		rows = append(rows, rrTuple(e.label, e.guard, e.text))
	}
	u.pf("def wrapperEffects : List (String × String × String) := %s\n", dedup(rows))
	u.pf("\nend Sftp.G\n")
}
