package main

// Unit ListingCfg: the facts of request.go `filelist`, server.go `sshFxpReaddirPacket.respond` and
// client.go `ReadDirContext` on which Sftp/Model/Listing.lean depends (C16).

import (
	"go/ast"
	"go/token"
	"strings"
)

func init() { extractors = append(extractors, extractListingCfg) }

func extractListingCfg(x *extractor) {
	u := x.newUnit("ListingCfg")
	pi := x.root
	u.pf("import Sftp.Model.Listing\nnamespace Sftp.G\nopen Sftp.C16\n\n")

	// ---------- request.go filelist ----------
	var batch int64
	incByN, eofOnlyWhenEmpty := false, false
	// MaxFilelist: a package VARIABLE with a constant initialiser
	foundMax := false
	for _, f := range pi.files {
		for _, d := range f.Decls {
			gd, ok := d.(*ast.GenDecl)
			if !ok || gd.Tok != token.VAR {
				continue
			}
			for _, sp := range gd.Specs {
				vs := sp.(*ast.ValueSpec)
				for i, n := range vs.Names {
					if n.Name == "MaxFilelist" && i < len(vs.Values) {
						if v, ok := pi.exprInt(vs.Values[i]); ok {
							batch, foundMax = v, true
							u.pf("-- source: %s (MaxFilelist)\n", pi.pos(vs))
						}
					}
				}
			}
		}
	}
	if !foundMax {
		u.fail("var MaxFilelist with a constant initialiser not found")
	}
	if ok, fd := x10BodyIs(pi, "state.lsNext", "s.mu.RLock()", "defer s.mu.RUnlock()", "return s.lsoffset"); !ok {
		u.fail("state.lsNext: body is not lock; return s.lsoffset (%s)", x10Pos(pi, fd))
	}
	lsIncOK, lsIncFd := x10BodyIs(pi, "state.lsInc", "s.mu.Lock()", "defer s.mu.Unlock()", "s.lsoffset += offset")
	if !lsIncOK {
		u.fail("state.lsInc: body is not lock; s.lsoffset += offset (%s)", x10Pos(pi, lsIncFd))
	}
	if fd := pi.funcDecl("filelist"); fd == nil {
		u.fail("filelist not found")
	} else {
		u.pf("-- source: %s (filelist)\n", pi.pos(fd))
		body := x10Stmts(pi, fd.Body.List)
		texts := x10Texts(pi, fd.Body.List)
		// lister := r.getListerAt(); if lister == nil {…}; offset := r.lsNext(); finfo := make([]os.FileInfo, MaxFilelist);
		// n, err := lister.ListAt(finfo, offset); [r.lsInc(int64(n))]; finfo = finfo[:n]; switch r.Method {…}
		want := []string{"lister := r.getListerAt()", "", "offset := r.lsNext()", "finfo := make([]os.FileInfo, MaxFilelist)",
			"n, err := lister.ListAt(finfo, offset)", "r.lsInc(int64(n))", "finfo = finfo[:n]", ""}
		shape := ""
		switch {
		case len(texts) == len(want):
			shape = "inc"
		case len(texts) == len(want)-1:
			shape = "noinc"
			want = append(want[:5:5], want[6:]...)
		}
		ok := shape != ""
		for i := 0; ok && i < len(want); i++ {
			if want[i] != "" && texts[i] != want[i] {
				ok = false
			}
		}
		if ok {
			g, isIf := body[1].(*ast.IfStmt)
			ok = isIf && x10Text(g.Cond) == "lister == nil" && strings.Contains(x10Text(g.Body), "return statusFromError(")
		}
		if !ok {
			u.fail("filelist: statements before the method switch are not the expected sequence: %q (%s)", texts, pi.pos(fd))
		} else {
			incByN = shape == "inc" && lsIncOK
			sw, isSw := body[len(body)-1].(*ast.SwitchStmt)
			if !isSw || sw.Tag == nil || x10Text(sw.Tag) != "r.Method" {
				u.fail("filelist: last statement is not `switch r.Method` (%s)", pi.pos(body[len(body)-1]))
			} else {
				sawList := false
				for _, c := range sw.Body.List {
					cc := c.(*ast.CaseClause)
					if cc.List == nil {
						if !strings.Contains(x10Text(cc), "return statusFromError(") {
							u.fail("filelist: default case does not answer with a status (%s)", pi.pos(cc))
						}
						continue
					}
					if len(cc.List) != 1 {
						u.fail("filelist: unrecognised case at %s", pi.pos(cc))
						continue
					}
					if s, _ := pi.exprStr(cc.List[0]); s != "List" {
						u.fail("filelist: unrecognised case %s at %s", exprString(cc.List[0]), pi.pos(cc))
						continue
					}
					sawList = true
					cb := x10Stmts(pi, cc.Body)
					// if COND { return statusFromError(pkt.id(), err) }; nameAttrs := make(…, 0, len(finfo)); idLookup, _ := …;
					// for _, fi := range finfo { nameAttrs = append(nameAttrs, &sshFxpNameAttr{Name: fi.Name(), …, Attrs: []any{fi}}) };
					// return &sshFxpNamePacket{ID: pkt.id(), NameAttrs: nameAttrs}
					good := len(cb) == 5
					if good {
						g, isIf := cb[0].(*ast.IfStmt)
						good = isIf && g.Else == nil && g.Init == nil && x10Eq(x10Texts(pi, g.Body.List), "return statusFromError(pkt.id(), err)")
						if good {
							switch x10Text(g.Cond) {
							case "err != nil && (err != io.EOF || n == 0)":
								eofOnlyWhenEmpty = true
							case "err != nil":
								eofOnlyWhenEmpty = false
							default:
								good = false
							}
						}
					}
					if good {
						rng, isR := cb[3].(*ast.RangeStmt)
						good = isR && x10Text(rng.X) == "finfo" && rng.Value != nil && x10Text(rng.Value) == "fi" &&
							x10Eq(x10Texts(pi, rng.Body.List), "nameAttrs = append(nameAttrs, &sshFxpNameAttr{Name: fi.Name(), LongName: runLs(idLookup, fi), Attrs: []any{fi}})") &&
							x10Text(cb[1]) == "nameAttrs := make([]*sshFxpNameAttr, 0, len(finfo))" &&
							x10Text(cb[4]) == "return &sshFxpNamePacket{ID: pkt.id(), NameAttrs: nameAttrs}"
					}
					if !good {
						u.fail("filelist: case \"List\" is not {if err…{status}; one NAME entry per element of finfo, in order} (%s)", pi.pos(cc))
						eofOnlyWhenEmpty = false
					}
				}
				if !sawList {
					u.fail("filelist: no case \"List\"")
				}
			}
		}
	}
	u.pf("def srvCfg : SrvCfg := { batch := %d, incByN := %s, eofOnlyWhenEmpty := %s }\n\n", batch, leanBool(incByN), leanBool(eofOnlyWhenEmpty))

	// ---------- server.go READDIR ----------
	var osBatch int64
	errToStatus := false
	if fd := pi.funcDecl("sshFxpReaddirPacket.respond"); fd == nil {
		u.fail("sshFxpReaddirPacket.respond not found")
	} else {
		u.pf("-- source: %s (sshFxpReaddirPacket.respond)\n", pi.pos(fd))
		body := x10Stmts(pi, fd.Body.List)
		// f, ok := svr.getHandle(p.Handle); if !ok {EBADF}; dirents, err := f.Readdir(K); [if err != nil {status}]; idLookup := …;
		// ret := &sshFxpNamePacket{ID: p.ID}; for _, dirent := range dirents {append}; return ret
		i := 0
		next := func() ast.Stmt {
			if i < len(body) {
				i++
				return body[i-1]
			}
			return nil
		}
		good := true
		if s := next(); s == nil || x10Text(s) != "f, ok := svr.getHandle(p.Handle)" {
			good = false
		}
		if s := next(); s == nil || x10Text(s) != "if !ok { return statusFromError(p.ID, EBADF) }" {
			good = false
		}
		if as, ok := next().(*ast.AssignStmt); good && ok && len(as.Rhs) == 1 && len(as.Lhs) == 2 && x10Text(as.Lhs[0]) == "dirents" && x10Text(as.Lhs[1]) == "err" {
			if c, ok := as.Rhs[0].(*ast.CallExpr); ok && x10Text(c.Fun) == "f.Readdir" && len(c.Args) == 1 {
				if v, ok := pi.exprInt(c.Args[0]); ok {
					osBatch = v
				} else {
					good = false
				}
			} else {
				good = false
			}
		} else {
			good = false
		}
		if good && i < len(body) && x10Text(body[i]) == "if err != nil { return statusFromError(p.ID, err) }" {
			errToStatus = true
			i++
		}
		rest := []string{}
		for ; i < len(body); i++ {
			rest = append(rest, x10Text(body[i]))
		}
		if !good || !x10Eq(rest, "idLookup := osIDLookup{}", "ret := &sshFxpNamePacket{ID: p.ID}",
			"for _, dirent := range dirents { ret.NameAttrs = append(ret.NameAttrs, &sshFxpNameAttr{Name: dirent.Name(), LongName: runLs(idLookup, dirent), Attrs: []any{dirent}}) }",
			"return ret") {
			u.fail("sshFxpReaddirPacket.respond: not {getHandle; EBADF; dirents, err := f.Readdir(CONST); [if err != nil {status}]; one NAME entry per dirent, in order} (%s)", pi.pos(fd))
			errToStatus = false
		}
	}
	u.pf("def osCfg : OsCfg := { batch := %d, errToStatus := %s }\n\n", osBatch, leanBool(errToStatus))

	// ---------- client.go ReadDirContext ----------
	filterDots, stopOnStatus, eofIsNil, baseName := false, false, false, false
	if fd := pi.funcDecl("Client.ReadDirContext"); fd == nil {
		u.fail("Client.ReadDirContext not found")
	} else {
		u.pf("-- source: %s (Client.ReadDirContext)\n", pi.pos(fd))
		body := x10Stmts(pi, fd.Body.List)
		texts := x10Texts(pi, fd.Body.List)
		// handle, err := c.opendir(ctx, p); if err != nil {…}; defer c.close(handle); var entries …; var done = false; for !done {…};
		// [if err == io.EOF { err = nil }]; return entries, err
		var loop *ast.ForStmt
		li := -1
		for i, s := range body {
			if f, ok := s.(*ast.ForStmt); ok {
				if loop != nil {
					u.fail("ReadDirContext: two loops at top level")
				}
				loop, li = f, i
			}
		}
		good := loop != nil && li == 5 && loop.Init == nil && loop.Post == nil && loop.Cond != nil && x10Text(loop.Cond) == "!done" &&
			texts[0] == "handle, err := c.opendir(ctx, p)" && texts[2] == "defer c.close(handle)" &&
			texts[3] == "var entries []os.FileInfo" && texts[4] == "var done = false"
		if good {
			tail := texts[li+1:]
			switch {
			case x10Eq(tail, "if err == io.EOF { err = nil }", "return entries, err"):
				eofIsNil = true
			case x10Eq(tail, "return entries, err"):
				eofIsNil = false
			default:
				good = false
			}
		}
		if !good {
			u.fail("ReadDirContext: top-level shape not recognised: %q (%s)", texts, pi.pos(fd))
		} else {
			lb := x10Stmts(pi, loop.Body.List)
			// id := c.nextID(); typ, data, err1 := c.sendPacket(…READDIR…); if err1 != nil {…}; switch typ {…}
			var sw *ast.SwitchStmt
			if len(lb) == 4 {
				sw, _ = lb[3].(*ast.SwitchStmt)
			}
			if sw == nil || sw.Tag == nil || x10Text(sw.Tag) != "typ" ||
				!strings.Contains(x10Text(lb[1]), "c.sendPacket(ctx, nil, &sshFxpReaddirPacket{ID: id, Handle: handle})") ||
				x10Text(lb[2]) != "if err1 != nil { err = err1 done = true break }" {
				u.fail("ReadDirContext: loop body is not {nextID; sendPacket(READDIR); if err1 != nil {…}; switch typ} (%s)", pi.pos(loop))
			} else {
				sawName, sawStatus := false, false
				for _, c := range sw.Body.List {
					cc := c.(*ast.CaseClause)
					if cc.List == nil {
						if !x10Eq(x10Texts(pi, cc.Body), "return nil, unimplementedPacketErr(typ)") {
							u.fail("ReadDirContext: default case is not `return nil, unimplementedPacketErr(typ)` (%s)", pi.pos(cc))
						}
						continue
					}
					if len(cc.List) != 1 {
						u.fail("ReadDirContext: unrecognised case at %s", pi.pos(cc))
						continue
					}
					switch x10Text(cc.List[0]) {
					case "sshFxpStatus":
						sawStatus = true
						switch t := x10Texts(pi, cc.Body); {
						case x10Eq(t, "err = normaliseError(unmarshalStatus(id, data))", "done = true"):
							stopOnStatus = true
						case x10Eq(t, "err = normaliseError(unmarshalStatus(id, data))"):
							stopOnStatus = false
						default:
							u.fail("ReadDirContext: STATUS case is not {err = normaliseError(unmarshalStatus(id, data)); [done = true]}: %q (%s)", t, pi.pos(cc))
						}
					case "sshFxpName":
						sawName = true
						// `if err != nil { return nil, err }` after a decoder call is not a listing fact: dropped before matching, so
						// both the unchecked decoders (unmarshalUint32 / unmarshalString) and the bounds-checked ones
						// (unmarshalUint32Safe / unmarshalStringSafe, which also assign err) are accepted.
						const errRet = "if err != nil { return nil, err }"
						dropErrRet := func(list []ast.Stmt) []ast.Stmt {
							var out []ast.Stmt
							for _, s := range x10Stmts(pi, list) {
								if x10Text(s) != errRet {
									out = append(out, s)
								}
							}
							return out
						}
						oneOf := func(t string, alts ...string) bool {
							for _, a := range alts {
								if t == a {
									return true
								}
							}
							return false
						}
						cb := dropErrRet(cc.Body)
						// sid, data := unmarshalUint32(data); if sid != id {…}; count, data[, err] := unmarshalUint32[Safe](data); for i := uint32(0); i < count; i++ {…}
						var inner *ast.ForStmt
						if len(cb) == 4 {
							inner, _ = cb[3].(*ast.ForStmt)
						}
						if inner == nil || x10Text(cb[0]) != "sid, data := unmarshalUint32(data)" ||
							x10Text(cb[1]) != "if sid != id { return nil, &unexpectedIDErr{id, sid} }" ||
							!oneOf(x10Text(cb[2]), "count, data := unmarshalUint32(data)", "count, data, err := unmarshalUint32Safe(data)") ||
							x10Text(inner.Cond) != "i < count" || x10Text(inner.Init) != "i := uint32(0)" || x10Text(inner.Post) != "i++" {
							u.fail("ReadDirContext: NAME case shape not recognised (%s)", pi.pos(cc))
							continue
						}
						var it []string
						for _, s := range dropErrRet(inner.Body.List) {
							it = append(it, x10Text(s))
						}
						// var filename string; filename := string; _ := longname; var attr *FileStat; attr := attrs
						const npre = 5
						if len(it) < npre+1 || it[0] != "var filename string" ||
							!oneOf(it[1], "filename, data = unmarshalString(data)", "filename, data, err = unmarshalStringSafe(data)") ||
							!oneOf(it[2], "_, data = unmarshalString(data)", "_, data, err = unmarshalStringSafe(data)") ||
							it[3] != "var attr *FileStat" || it[4] != "attr, data, err = unmarshalAttrs(data)" {
							u.fail("ReadDirContext: entry decoding is not name, longname, attrs: %q (%s)", it, pi.pos(inner))
							continue
						}
						it = it[npre:]
						const dots = `if filename == "." || filename == ".." { continue }`
						if len(it) == 2 && it[0] == dots {
							filterDots = true
							it = it[1:]
						}
						if len(it) != 1 {
							u.fail("ReadDirContext: unrecognised statements after the entry decoding: %q (%s)", it, pi.pos(inner))
							continue
						}
						switch it[0] {
						case "entries = append(entries, fileInfoFromStat(attr, path.Base(filename)))":
							baseName = true
						case "entries = append(entries, fileInfoFromStat(attr, filename))":
							baseName = false
						default:
							u.fail("ReadDirContext: the entry is not appended as fileInfoFromStat(attr, [path.Base](filename)): %q (%s)", it[0], pi.pos(inner))
							filterDots = false
						}
					default:
						u.fail("ReadDirContext: unrecognised case %s at %s", x10Text(cc.List[0]), pi.pos(cc))
					}
				}
				if !sawName || !sawStatus {
					u.fail("ReadDirContext: NAME or STATUS case missing (%s)", pi.pos(sw))
					stopOnStatus = false
				}
			}
		}
	}
	u.pf("def cliCfg : CliCfg := { filterDots := %s, stopOnStatus := %s, eofIsNil := %s, baseName := %s }\n",
		leanBool(filterDots), leanBool(stopOnStatus), leanBool(eofIsNil), leanBool(baseName))
	u.pf("\nend Sftp.G\n")
}
