package main

import (
	"fmt"
	"go/ast"
	"go/token"
	"strconv"
	"strings"
)

func init() { extractors = append(extractors, extractExtDispatch) }

// extractExtDispatch: the facts of the extended-request dispatch path (C19, Model/ExtDispatch.lean) that no other
// unit regenerates:
//   - packet.go  (*sshFxpExtendedPacket).readonly  nil value / delegation, separately
//   - packet.go  (*sshFxpExtendedPacket).respond   nil reply / delegation
//   - request.go filecmd                           method ↦ (optional interface, fallback), and the final clause
//   - the error identifiers of the unknown-name decode error and of the two "no SpecificPacket" replies
//
// Every shape below is closed: anything else is a recorded failure and a neutral value ("?", none, false, []).
func extractExtDispatch(x *extractor) {
	u := x.newUnit("ExtDispatch")
	pi := x.root
	u.pf("namespace Sftp.G\n\n")

	// ---------- (*sshFxpExtendedPacket).readonly ----------
	roNil, roDel := "none", false
	if fd := pi.funcDecl("sshFxpExtendedPacket.readonly"); fd == nil || fd.Body == nil {
		u.fail("sshFxpExtendedPacket.readonly not found")
		u.pf("-- source: (*sshFxpExtendedPacket).readonly NOT FOUND\n")
	} else {
		u.pf("-- source: %s (*sshFxpExtendedPacket).readonly\n", pi.pos(fd))
		recv := xdRecvVar(fd)
		sp := recv + ".SpecificPacket"
		nilBr, otherBr, ok := xdNilSplit(pi, fd.Body.List, sp)
		switch {
		case !ok:
			u.fail("sshFxpExtendedPacket.readonly: body is not `if %s == nil { return C } return E` (or the != form, or one return) at %s: %q",
				sp, pi.pos(fd), pi.bodyText(fd))
		default:
			// value for SpecificPacket == nil
			if nilBr == nil {
				u.fail("sshFxpExtendedPacket.readonly: no return for %s == nil at %s", sp, pi.pos(fd))
			} else if b, isConst := xdBoolLit(nilBr); isConst {
				roNil = "some " + leanBool(b)
			} else if pi.nodeText(nilBr) == sp+".readonly()" {
				u.fail("sshFxpExtendedPacket.readonly: %s is dereferenced without a nil test at %s", sp, pi.pos(nilBr))
			} else {
				u.fail("sshFxpExtendedPacket.readonly: the value for %s == nil is not a constant at %s: %q", sp, pi.pos(nilBr), pi.nodeText(nilBr))
			}
			// value otherwise
			if otherBr == nil {
				u.fail("sshFxpExtendedPacket.readonly: no return for %s != nil at %s", sp, pi.pos(fd))
			} else if pi.nodeText(otherBr) == sp+".readonly()" {
				roDel = true
			} else if _, isConst := xdBoolLit(otherBr); isConst {
				roDel = false // recognised: a constant, the specific packet is not asked
			} else {
				u.fail("sshFxpExtendedPacket.readonly: the value for %s != nil is neither %s.readonly() nor a constant at %s: %q",
					sp, sp, pi.pos(otherBr), pi.nodeText(otherBr))
			}
		}
	}
	u.pf("/-- the constant `readonly()` of the generic extended packet returns when SpecificPacket == nil (none: not a constant) -/\n")
	u.pf("def extendedReadonlyNil : Option Bool := %s\n", roNil)
	u.pf("/-- … and otherwise it returns `p.SpecificPacket.readonly()` -/\n")
	u.pf("def extendedReadonlyDelegatesSpecific : Bool := %s\n\n", leanBool(roDel))

	// ---------- (*sshFxpExtendedPacket).respond ----------
	rsNil, rsDel := "?", false
	if fd := pi.funcDecl("sshFxpExtendedPacket.respond"); fd == nil || fd.Body == nil {
		u.fail("sshFxpExtendedPacket.respond not found")
		u.pf("-- source: (*sshFxpExtendedPacket).respond NOT FOUND\n")
	} else {
		u.pf("-- source: %s (*sshFxpExtendedPacket).respond\n", pi.pos(fd))
		recv := xdRecvVar(fd)
		sp := recv + ".SpecificPacket"
		svr := ""
		if fd.Type.Params != nil && len(fd.Type.Params.List) == 1 && len(fd.Type.Params.List[0].Names) == 1 {
			svr = fd.Type.Params.List[0].Names[0].Name
		}
		nilBr, otherBr, ok := xdNilSplit(pi, fd.Body.List, sp)
		if !ok || svr == "" {
			u.fail("sshFxpExtendedPacket.respond: body is not `if %s == nil { return R } return E` at %s: %q", sp, pi.pos(fd), pi.bodyText(fd))
		} else {
			if nilBr == nil {
				u.fail("sshFxpExtendedPacket.respond: no return for %s == nil at %s", sp, pi.pos(fd))
			} else if e, ok := xdStatusErr(pi, nilBr, recv+".ID"); ok {
				rsNil = e
			} else {
				u.fail("sshFxpExtendedPacket.respond: the reply for %s == nil is not statusFromError(%s.ID, <identifier>) at %s: %q",
					sp, recv, pi.pos(nilBr), pi.nodeText(nilBr))
			}
			if otherBr == nil {
				u.fail("sshFxpExtendedPacket.respond: no return for %s != nil at %s", sp, pi.pos(fd))
			} else if pi.nodeText(otherBr) == sp+".respond("+svr+")" {
				rsDel = true
			} else if _, ok := xdStatusErr(pi, otherBr, recv+".ID"); ok {
				rsDel = false // recognised: a status, the specific packet is not asked
			} else {
				u.fail("sshFxpExtendedPacket.respond: the reply for %s != nil is neither %s.respond(%s) nor a status at %s: %q",
					sp, sp, svr, pi.pos(otherBr), pi.nodeText(otherBr))
			}
		}
	}
	u.pf("/-- the error identifier `respond` of the generic extended packet answers with when SpecificPacket == nil\n")
	u.pf("(`statusFromError(p.ID, <this>)`; \"nil\" is SSH_FX_OK; \"?\": not recognised) -/\n")
	u.pf("def extendedRespondNil : String := %s\n", leanStr(rsNil))
	u.pf("/-- … and otherwise it returns `p.SpecificPacket.respond(svr)` -/\n")
	u.pf("def extendedRespondDelegates : Bool := %s\n\n", leanBool(rsDel))

	// ---------- request.go filecmd ----------
	type frow struct{ method, iface, fallback string }
	var rows []frow
	defaultIsFilecmd := false
	if fd := pi.funcDecl("filecmd"); fd == nil || fd.Body == nil {
		u.fail("filecmd not found")
		u.pf("-- source: filecmd NOT FOUND\n")
	} else {
		u.pf("-- source: %s filecmd\n", pi.pos(fd))
		h, r, pkt := "", "", ""
		if ps := xdParamNames(fd); len(ps) == 3 {
			h, r, pkt = ps[0], ps[1], ps[2]
		} else {
			u.fail("filecmd: not three parameters (handler, request, packet) at %s", pi.pos(fd))
		}
		swIdx := -1
		var sw *ast.SwitchStmt
		for i, s := range fd.Body.List {
			if st, ok := s.(*ast.SwitchStmt); ok && st.Tag != nil && pi.nodeText(st.Tag) == r+".Method" && st.Init == nil {
				if sw != nil {
					u.fail("filecmd: second switch over %s.Method at %s", r, pi.pos(st))
				}
				sw, swIdx = st, i
			}
		}
		if sw == nil && h != "" {
			u.fail("filecmd: `switch %s.Method` not found at %s", r, pi.pos(fd))
		}
		if sw != nil && h != "" {
			// nothing in front of the switch may answer or redirect the request
			for _, s := range fd.Body.List[:swIdx] {
				if xdReturnsOrSetsMethod(pi, s, r) || xdUsesIdent(s, h) {
					u.fail("filecmd: statement in front of the method switch returns, assigns %s.Method or calls the handler at %s", r, pi.pos(s))
				}
			}
			// the final clause: `err := h.Filecmd(r); return statusFromError(pkt.id(), err)`
			rest := fd.Body.List[swIdx+1:]
			if m, ok := xdFilecmdTail(pi, rest, h, r, pkt); ok && m == "" {
				defaultIsFilecmd = true
			} else {
				u.fail("filecmd: the statements after the method switch are not `err := %s.Filecmd(%s); return statusFromError(%s.id(), err)` at %s",
					h, r, pkt, pi.pos(sw))
			}
			for _, c := range sw.Body.List {
				cc := c.(*ast.CaseClause)
				if cc.List == nil {
					defaultIsFilecmd = false
					u.fail("filecmd: the method switch has a default clause at %s", pi.pos(cc))
					continue
				}
				var methods []string
				for _, e := range cc.List {
					if s, ok := pi.exprStr(e); ok {
						methods = append(methods, s)
					} else {
						u.fail("filecmd: non-constant case at %s", pi.pos(e))
					}
				}
				body := cc.Body
				iface, ivar, called := "", "", ""
				if len(body) > 0 {
					if is, ok := body[0].(*ast.IfStmt); ok {
						iface, ivar, called = xdIfaceBranch(pi, is, h, r)
						if iface == "" {
							u.fail("filecmd: the first statement of the clause is not `if v, ok := %s.(I); ok { … v.M(%s) … return … }` at %s", h, r, pi.pos(is))
							continue
						}
						_ = ivar
						body = body[1:]
					}
				}
				if iface == "" {
					u.fail("filecmd: clause without an optional-interface test at %s", pi.pos(cc))
					continue
				}
				// fallback
				fb := ""
				if len(body) == 1 {
					if rt, ok := body[0].(*ast.ReturnStmt); ok && len(rt.Results) == 1 {
						if e, ok := xdStatusErr(pi, rt.Results[0], pkt+".id()"); ok && e != "nil" && e != "err" {
							fb = e
						}
					}
				}
				if fb == "" {
					if m, ok := xdFilecmdTail(pi, body, h, r, pkt); ok {
						fb = "Filecmd:" + m // m == "": Method unchanged, filled in per method below
					}
				}
				if fb == "" {
					u.fail("filecmd: the fallback of the clause is neither `return statusFromError(%s.id(), E)` nor `[%s.Method = \"M\";] err := %s.Filecmd(%s); return statusFromError(%s.id(), err)` at %s",
						pkt, r, h, r, pkt, pi.pos(cc))
					continue
				}
				for _, m := range methods {
					if called != m {
						u.fail("filecmd: clause %q serves the request with %s.%s, not .%s at %s", m, ivar, called, m, pi.pos(cc))
						continue
					}
					f := fb
					if f == "Filecmd:" {
						f = "Filecmd:" + m
					}
					rows = append(rows, frow{m, iface, f})
				}
			}
		}
	}
	var parts []string
	for _, rw := range rows {
		parts = append(parts, fmt.Sprintf("(%s, %s, %s)", leanStr(rw.method), leanStr(rw.iface), leanStr(rw.fallback)))
	}
	u.pf("/-- filecmd's `switch r.Method`: method ↦ (optional interface of the FileCmd handler that serves it by its method of the\n")
	u.pf("same name, what happens when the handler does not implement it: an error identifier answered as a status, or\n")
	u.pf("\"Filecmd:<M>\" = `r.Method = \"<M>\"; h.Filecmd(r)`) -/\n")
	u.pf("def filecmdIface : List (String × String × String) := [%s]\n", strings.Join(parts, ", "))
	u.pf("/-- every other method: `err := h.Filecmd(r); return statusFromError(pkt.id(), err)`, r.Method untouched -/\n")
	u.pf("def filecmdDefaultIsFilecmd : Bool := %s\n\n", leanBool(defaultIsFilecmd))

	// ---------- error identifiers ----------
	// 1. the default clause of the name switch
	unk := "?"
	if fd := pi.funcDecl("sshFxpExtendedPacket.UnmarshalBinary"); fd == nil || fd.Body == nil {
		u.fail("sshFxpExtendedPacket.UnmarshalBinary not found")
	} else {
		recv := xdRecvVar(fd)
		found := false
		ast.Inspect(fd.Body, func(n ast.Node) bool {
			sw, ok := n.(*ast.SwitchStmt)
			if !ok || sw.Tag == nil || pi.nodeText(sw.Tag) != recv+".ExtendedRequest" {
				return true
			}
			found = true
			for _, c := range sw.Body.List {
				cc := c.(*ast.CaseClause)
				if cc.List != nil {
					continue
				}
				u.pf("-- source: %s default clause of `switch %s.ExtendedRequest`\n", pi.pos(cc), recv)
				if len(cc.Body) == 1 {
					if rt, ok := cc.Body[0].(*ast.ReturnStmt); ok && len(rt.Results) == 1 {
						if e, ok := xdErrIdent(pi, rt.Results[0]); ok {
							unk = e
						}
					}
				}
				if unk == "?" {
					u.fail("sshFxpExtendedPacket.UnmarshalBinary: the default clause is not `return E` / `return fmt.Errorf(\"…%%w…\", …, E)` at %s", pi.pos(cc))
				}
			}
			return false
		})
		if !found || unk == "?" {
			if !found {
				u.fail("sshFxpExtendedPacket.UnmarshalBinary: `switch %s.ExtendedRequest` not found", recv)
			} else if unk == "?" {
				u.fail("sshFxpExtendedPacket.UnmarshalBinary: no default clause returning an error in the name switch")
			}
		}
	}
	u.pf("/-- the error the name switch returns for a name without a case (SpecificPacket stays nil) -/\n")
	u.pf("def extUnknownErr : String := %s\n", leanStr(unk))

	// 2. handlePacket `case *sshFxpExtendedPacket: if p.SpecificPacket == nil { rpkt = statusFromError(p.ID, E) } else …`
	osNil := "?"
	if fd := pi.funcDecl("handlePacket"); fd == nil || fd.Body == nil {
		u.fail("handlePacket not found")
	} else if cc, v := xdTypeCase(pi, fd, "sshFxpExtendedPacket"); cc == nil {
		u.fail("handlePacket: no `case *sshFxpExtendedPacket` at %s", pi.pos(fd))
	} else {
		u.pf("-- source: %s handlePacket case *sshFxpExtendedPacket\n", pi.pos(cc))
		if len(cc.Body) == 1 {
			if is, ok := cc.Body[0].(*ast.IfStmt); ok && is.Init == nil && pi.nodeText(is.Cond) == v+".SpecificPacket == nil" && len(is.Body.List) == 1 {
				if e, ok := xdAssignedStatus(pi, is.Body.List[0], "rpkt", v+".ID"); ok {
					osNil = e
				}
			}
		}
		if osNil == "?" {
			u.fail("handlePacket: the *sshFxpExtendedPacket case does not start with `if %s.SpecificPacket == nil { rpkt = statusFromError(%s.ID, E) }` at %s", v, v, pi.pos(cc))
		}
	}
	u.pf("/-- the error the os-backed handlePacket answers a generic extended packet without SpecificPacket with -/\n")
	u.pf("def osExtNilReply : String := %s\n", leanStr(osNil))

	// 3. packetWorker `default: rpkt = statusFromError(pkt.id(), E)`
	rsDef := "?"
	if fd := pi.funcDecl("RequestServer.packetWorker"); fd == nil || fd.Body == nil {
		u.fail("RequestServer.packetWorker not found")
	} else if cc, v := xdTypeCase(pi, fd, "default"); cc == nil {
		u.fail("RequestServer.packetWorker: the type switch has no default clause at %s", pi.pos(fd))
	} else {
		u.pf("-- source: %s packetWorker default clause\n", pi.pos(cc))
		if len(cc.Body) == 1 {
			if e, ok := xdAssignedStatus(pi, cc.Body[0], "rpkt", v+".id()"); ok {
				rsDef = e
			}
		}
		if rsDef == "?" {
			u.fail("RequestServer.packetWorker: the default clause is not `rpkt = statusFromError(%s.id(), E)` at %s", v, pi.pos(cc))
		}
	}
	u.pf("/-- the error the request server's worker answers a packet type without a clause with -/\n")
	u.pf("def rsExtDefaultReply : String := %s\n", leanStr(rsDef))
	u.pf("\nend Sftp.G\n")
}

// xdRecvVar: the receiver variable of a method ("" for `_` or none).
func xdRecvVar(fd *ast.FuncDecl) string {
	if fd.Recv != nil && len(fd.Recv.List) == 1 && len(fd.Recv.List[0].Names) == 1 {
		return fd.Recv.List[0].Names[0].Name
	}
	return ""
}

func xdParamNames(fd *ast.FuncDecl) []string {
	var out []string
	if fd.Type.Params == nil {
		return nil
	}
	for _, f := range fd.Type.Params.List {
		for _, n := range f.Names {
			out = append(out, n.Name)
		}
	}
	return out
}

// xdNilSplit recognises the bodies
//
//	if X == nil { return A } ; return B      → (A, B)
//	if X != nil { return B } ; return A      → (A, B)
//	if X == nil { return A } else { return B } (and the != form)
//	return C                                 → (C, C)
//
// and returns the expression returned when X is nil and the one returned otherwise.
func xdNilSplit(pi *pkgInfo, list []ast.Stmt, x string) (nilBr, otherBr ast.Expr, ok bool) {
	single := func(s ast.Stmt) ast.Expr {
		if b, isB := s.(*ast.BlockStmt); isB {
			if len(b.List) != 1 {
				return nil
			}
			s = b.List[0]
		}
		if rt, isR := s.(*ast.ReturnStmt); isR && len(rt.Results) == 1 {
			return rt.Results[0]
		}
		return nil
	}
	if len(list) == 1 {
		if e := single(list[0]); e != nil {
			return e, e, true
		}
	}
	if len(list) < 1 || len(list) > 2 {
		return nil, nil, false
	}
	is, isIf := list[0].(*ast.IfStmt)
	if !isIf || is.Init != nil {
		return nil, nil, false
	}
	cond := pi.nodeText(is.Cond)
	var thenE, elseE ast.Expr
	thenE = single(is.Body)
	switch {
	case len(list) == 2 && is.Else == nil:
		elseE = single(list[1])
	case len(list) == 1 && is.Else != nil:
		elseE = single(is.Else)
	default:
		return nil, nil, false
	}
	if thenE == nil || elseE == nil {
		return nil, nil, false
	}
	switch cond {
	case x + " == nil", "nil == " + x:
		return thenE, elseE, true
	case x + " != nil", "nil != " + x:
		return elseE, thenE, true
	}
	return nil, nil, false
}

func xdBoolLit(e ast.Expr) (bool, bool) {
	if id, ok := e.(*ast.Ident); ok {
		switch id.Name {
		case "true":
			return true, true
		case "false":
			return false, true
		}
	}
	return false, false
}

// xdIdentText: `nil`, `ErrX`, `pkg.ErrX` (an identifier or a package-qualified one).
func xdIdentText(e ast.Expr) (string, bool) {
	switch t := e.(type) {
	case *ast.Ident:
		return t.Name, true
	case *ast.SelectorExpr:
		if id, ok := t.X.(*ast.Ident); ok {
			return id.Name + "." + t.Sel.Name, true
		}
	}
	return "", false
}

// xdStatusErr: e is `statusFromError(<idText>, E)` with E an identifier → E.
func xdStatusErr(pi *pkgInfo, e ast.Expr, idText string) (string, bool) {
	c, ok := e.(*ast.CallExpr)
	if !ok || exprString(c.Fun) != "statusFromError" || len(c.Args) != 2 || pi.nodeText(c.Args[0]) != idText {
		return "", false
	}
	return xdIdentText(c.Args[1])
}

// xdAssignedStatus: s is `<lhs> = statusFromError(<idText>, E)` → E.
func xdAssignedStatus(pi *pkgInfo, s ast.Stmt, lhs, idText string) (string, bool) {
	as, ok := s.(*ast.AssignStmt)
	if !ok || as.Tok != token.ASSIGN || len(as.Lhs) != 1 || len(as.Rhs) != 1 || pi.nodeText(as.Lhs[0]) != lhs {
		return "", false
	}
	return xdStatusErr(pi, as.Rhs[0], idText)
}

// xdErrIdent: `E` or `fmt.Errorf("… %w …", …, E, …)` (the argument of the one %w verb) with E an identifier.
func xdErrIdent(pi *pkgInfo, e ast.Expr) (string, bool) {
	if s, ok := xdIdentText(e); ok && s != "nil" {
		return s, true
	}
	c, ok := e.(*ast.CallExpr)
	if !ok || exprString(c.Fun) != "fmt.Errorf" || len(c.Args) < 2 {
		return "", false
	}
	lit, ok := c.Args[0].(*ast.BasicLit)
	if !ok || lit.Kind != token.STRING {
		return "", false
	}
	format, err := strconv.Unquote(lit.Value)
	if err != nil {
		return "", false
	}
	// index of the argument consumed by %w; only plain verbs (no *, no [n]) are understood
	arg, wAt, nW := 0, -1, 0
	for i := 0; i < len(format); i++ {
		if format[i] != '%' {
			continue
		}
		i++
		for i < len(format) && strings.IndexByte("+-# 0123456789.", format[i]) >= 0 {
			i++
		}
		if i >= len(format) {
			return "", false
		}
		switch format[i] {
		case '%':
		case '*', '[':
			return "", false
		case 'w':
			wAt = arg
			nW++
			arg++
		default:
			arg++
		}
	}
	if nW != 1 || 1+wAt >= len(c.Args) {
		return "", false
	}
	s, ok := xdIdentText(c.Args[1+wAt])
	return s, ok && s != "nil"
}

// xdTypeCase finds, in the first type switch of fd that has one, the clause for type name `want`
// ("default" for the default clause) and the switch's bound variable.
func xdTypeCase(pi *pkgInfo, fd *ast.FuncDecl, want string) (*ast.CaseClause, string) {
	var res *ast.CaseClause
	v := ""
	ast.Inspect(fd.Body, func(n ast.Node) bool {
		ts, ok := n.(*ast.TypeSwitchStmt)
		if !ok || res != nil {
			return res == nil
		}
		bound := ""
		if as, ok := ts.Assign.(*ast.AssignStmt); ok && len(as.Lhs) == 1 {
			bound = pi.nodeText(as.Lhs[0])
		}
		for _, c := range ts.Body.List {
			cc := c.(*ast.CaseClause)
			if cc.List == nil && want == "default" {
				res, v = cc, bound
				return false
			}
			for _, e := range cc.List {
				if typeName(e) == want {
					res, v = cc, bound
					return false
				}
			}
		}
		return true
	})
	return res, v
}

// xdReturnsOrSetsMethod: does the statement contain a return or an assignment to r.Method?
func xdReturnsOrSetsMethod(pi *pkgInfo, s ast.Stmt, r string) bool {
	hit := false
	ast.Inspect(s, func(n ast.Node) bool {
		switch t := n.(type) {
		case *ast.ReturnStmt:
			hit = true
		case *ast.AssignStmt:
			for _, l := range t.Lhs {
				if pi.nodeText(l) == r+".Method" {
					hit = true
				}
			}
		case *ast.FuncLit:
			return false
		}
		return true
	})
	return hit
}

// xdUsesIdent: does the identifier occur in the node?
func xdUsesIdent(n ast.Node, name string) bool {
	hit := false
	ast.Inspect(n, func(m ast.Node) bool {
		if id, ok := m.(*ast.Ident); ok && id.Name == name {
			hit = true
		}
		return true
	})
	return hit
}

// xdFilecmdTail recognises `[r.Method = "M";] err := h.Filecmd(r); return statusFromError(pkt.id(), err)` and returns M
// ("" when r.Method is left alone).
func xdFilecmdTail(pi *pkgInfo, list []ast.Stmt, h, r, pkt string) (string, bool) {
	m := ""
	if len(list) == 3 {
		as, ok := list[0].(*ast.AssignStmt)
		if !ok || as.Tok != token.ASSIGN || len(as.Lhs) != 1 || len(as.Rhs) != 1 || pi.nodeText(as.Lhs[0]) != r+".Method" {
			return "", false
		}
		s, ok := pi.exprStr(as.Rhs[0])
		if !ok || s == "" {
			return "", false
		}
		m = s
		list = list[1:]
	}
	if len(list) != 2 {
		return "", false
	}
	if pi.nodeText(list[0]) != "err := "+h+".Filecmd("+r+")" || pi.nodeText(list[1]) != "return statusFromError("+pkt+".id(), err)" {
		return "", false
	}
	return m, true
}

// xdIfaceBranch recognises `if v, ok := h.(I); ok { … v.M(r) … return … }` (no else): the handler's method M of the
// optional interface I is called exactly once with the request, h itself is not called, and the block ends in a return.
func xdIfaceBranch(pi *pkgInfo, is *ast.IfStmt, h, r string) (iface, ivar, called string) {
	if is.Else != nil || is.Init == nil {
		return
	}
	as, ok := is.Init.(*ast.AssignStmt)
	if !ok || as.Tok != token.DEFINE || len(as.Lhs) != 2 || len(as.Rhs) != 1 {
		return
	}
	ta, ok := as.Rhs[0].(*ast.TypeAssertExpr)
	if !ok || ta.Type == nil || pi.nodeText(ta.X) != h {
		return
	}
	okVar := pi.nodeText(as.Lhs[1])
	if pi.nodeText(is.Cond) != okVar {
		return
	}
	v := pi.nodeText(as.Lhs[0])
	if len(is.Body.List) == 0 {
		return
	}
	if _, isRet := is.Body.List[len(is.Body.List)-1].(*ast.ReturnStmt); !isRet {
		return
	}
	n, bad := 0, false
	m := ""
	ast.Inspect(is.Body, func(nd ast.Node) bool {
		c, ok := nd.(*ast.CallExpr)
		if !ok {
			return true
		}
		fn := exprString(c.Fun)
		if strings.HasPrefix(fn, h+".") {
			bad = true
		}
		if strings.HasPrefix(fn, v+".") {
			n++
			m = strings.TrimPrefix(fn, v+".")
			if len(c.Args) != 1 || pi.nodeText(c.Args[0]) != r {
				bad = true
			}
		}
		return true
	})
	if n != 1 || bad {
		return
	}
	return typeName(ta.Type), v, m
}
