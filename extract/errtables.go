package main

// Unit ErrTables: the error algebra of property C10 — server.go statusFromError (ordered tests),
// errno_posix.go translateErrno / translateSyscallError / wrapPathError, client.go normaliseError,
// request-errors.go fxerr constants.

import (
	"fmt"
	"go/ast"
	"go/token"
	"go/types"
	"sort"
	"strings"
)

func init() { extractors = append(extractors, extractErrTables) }

func extractErrTables(x *extractor) {
	u := x.newUnit("ErrTables")
	pi := x.root
	u.pf("namespace Sftp.G\n\n")

	type test struct {
		name string
		code int64
	}
	var tests []test

	// ---------- statusFromError ----------
	// Recognised statements, in order:
	//   ret := &sshFxpStatusPacket{ID: id, StatusError: StatusError{Code: C0}}      -> ("init", C0)
	//   if err == nil { return ret }                                                -> ("nil", current code)
	//   ret.StatusError.Code = C                                                    -> ("default", C)
	//   ret.StatusError.msg = err.Error()                                           -> ("msg", 0)
	//   if PRED(err) { ret.StatusError.Code = C; return ret }                       -> (PRED, C)   PRED ∈ os.IsNotExist, os.IsPermission, os.IsExist
	//   if errors.Is(err, X) { ret.StatusError.Code = C; return ret }               -> ("errors.Is(X)", C)
	//   if code, ok := translateSyscallError(err); ok { …Code = code; return ret }  -> ("translateSyscallError", 0)
	//   var e fxerr ; if errors.As(err, &e) { …Code = uint32(e); return ret }       -> ("errors.As(fxerr)", 0)
	//   return ret                                                                  -> ("return", current code)
	if fd := pi.funcDecl("statusFromError"); fd == nil {
		u.fail("statusFromError not found")
	} else {
		u.pf("-- source: %s (statusFromError)\n", pi.pos(fd))
		cur := int64(-1)
		declared := map[string]string{}
		body := x10Stmts(pi, fd.Body.List)
		setsCode := func(s ast.Stmt) (ast.Expr, bool) {
			as, ok := s.(*ast.AssignStmt)
			if !ok || as.Tok != token.ASSIGN || len(as.Lhs) != 1 || len(as.Rhs) != 1 || x10Text(as.Lhs[0]) != "ret.StatusError.Code" {
				return nil, false
			}
			return as.Rhs[0], true
		}
		for i, s := range body {
			txt := x10Text(s)
			bad := func() { u.fail("statusFromError: unrecognised statement %q at %s", txt, pi.pos(s)) }
			switch st := s.(type) {
			case *ast.AssignStmt:
				if i == 0 && st.Tok == token.DEFINE && x10Text(st.Lhs[0]) == "ret" {
					// the initial code
					found := false
					ast.Inspect(st.Rhs[0], func(m ast.Node) bool {
						if kv, ok := m.(*ast.KeyValueExpr); ok && x10Text(kv.Key) == "Code" {
							if v, ok := pi.exprInt(kv.Value); ok {
								cur, found = v, true
							}
						}
						return true
					})
					if !found || !strings.HasPrefix(txt, "ret := &sshFxpStatusPacket{ID: id, StatusError: StatusError{Code: ") {
						bad()
					} else {
						tests = append(tests, test{"init", cur})
					}
					continue
				}
				if e, ok := setsCode(s); ok {
					if v, ok := pi.exprInt(e); ok {
						cur = v
						tests = append(tests, test{"default", v})
						continue
					}
				}
				if txt == "ret.StatusError.msg = err.Error()" {
					tests = append(tests, test{"msg", 0})
					continue
				}
				bad()
			case *ast.DeclStmt:
				// var e fxerr
				gd := st.Decl.(*ast.GenDecl)
				if gd.Tok == token.VAR && len(gd.Specs) == 1 {
					vs := gd.Specs[0].(*ast.ValueSpec)
					if len(vs.Names) == 1 && vs.Type != nil && len(vs.Values) == 0 {
						declared[vs.Names[0].Name] = x10Text(vs.Type)
						continue
					}
				}
				bad()
			case *ast.ReturnStmt:
				if txt != "return ret" || i != len(body)-1 {
					bad()
				} else {
					tests = append(tests, test{"return", cur})
				}
			case *ast.IfStmt:
				if st.Else != nil {
					bad()
					continue
				}
				ib := x10Stmts(pi, st.Body.List)
				cond := x10Text(st.Cond)
				if st.Init == nil && cond == "err == nil" && x10Eq(x10Texts(pi, st.Body.List), "return ret") {
					tests = append(tests, test{"nil", cur})
					continue
				}
				if len(ib) != 2 || x10Text(ib[1]) != "return ret" {
					bad()
					continue
				}
				ce, ok := setsCode(ib[0])
				if !ok {
					bad()
					continue
				}
				switch {
				case st.Init != nil && x10Text(st.Init) == "code, ok := translateSyscallError(err)" && cond == "ok" && x10Text(ce) == "code":
					tests = append(tests, test{"translateSyscallError", 0})
				case st.Init == nil && strings.HasPrefix(cond, "errors.As(err, &") && strings.HasSuffix(cond, ")"):
					v := cond[len("errors.As(err, &") : len(cond)-1]
					if declared[v] == "fxerr" && x10Text(ce) == "uint32("+v+")" {
						tests = append(tests, test{"errors.As(fxerr)", 0})
					} else {
						bad()
					}
				case st.Init == nil && (cond == "os.IsNotExist(err)" || cond == "os.IsPermission(err)" || cond == "os.IsExist(err)"):
					if v, ok := pi.exprInt(ce); ok {
						tests = append(tests, test{strings.TrimSuffix(cond, "(err)"), v})
					} else {
						bad()
					}
				case st.Init == nil && strings.HasPrefix(cond, "errors.Is(err, ") && strings.HasSuffix(cond, ")"):
					if v, ok := pi.exprInt(ce); ok {
						tests = append(tests, test{"errors.Is(" + cond[len("errors.Is(err, "):], v})
					} else {
						bad()
					}
				default:
					bad()
				}
			default:
				bad()
			}
		}
		if fd.Type.Params == nil || len(fd.Type.Params.List) != 2 || x10Text(fd.Type.Params.List[1]) != "err error" {
			// printing a Field prints "err error"? be lenient: check the names
			names := []string{}
			for _, f := range fd.Type.Params.List {
				for _, n := range f.Names {
					names = append(names, n.Name)
				}
			}
			if !x10Eq(names, "id", "err") {
				u.fail("statusFromError: parameters are not (id, err) (%s)", pi.pos(fd))
			}
		}
	}
	var parts []string
	for _, t := range tests {
		parts = append(parts, fmt.Sprintf("(%s, %d)", leanStr(t.name), t.code))
	}
	u.pf("/-- the statements of statusFromError in source order: (what, status code).\n")
	u.pf("\"init\"/\"default\": the code is set unconditionally; \"msg\": the message is set to err.Error();\n")
	u.pf("\"nil\"/\"return\": return with the code set so far; every other row is a test that, when it succeeds, sets the code and returns\n")
	u.pf("(for translateSyscallError and errors.As(fxerr) the code comes from the error, the number is unused). -/\n")
	u.pf("def statusFromErrorTests : List (String × Nat) := [%s]\n\n", strings.Join(parts, ", "))

	// ---------- translateErrno ----------
	type ecase struct {
		names []string
		code  int64
	}
	var ecases []ecase
	errnoVals := map[string]int64{}
	edefault := int64(-1)
	if fd := pi.funcDecl("translateErrno"); fd == nil {
		u.fail("translateErrno not found")
	} else {
		u.pf("-- source: %s (translateErrno)\n", pi.pos(fd))
		body := x10Stmts(pi, fd.Body.List)
		var sw *ast.SwitchStmt
		if len(body) == 2 {
			sw, _ = body[0].(*ast.SwitchStmt)
		}
		retConst := func(list []ast.Stmt) (int64, bool) {
			l := x10Stmts(pi, list)
			if len(l) != 1 {
				return 0, false
			}
			r, ok := l[0].(*ast.ReturnStmt)
			if !ok || len(r.Results) != 1 {
				return 0, false
			}
			return pi.exprInt(r.Results[0])
		}
		if sw == nil || sw.Tag == nil || x10Text(sw.Tag) != "errno" || sw.Init != nil {
			u.fail("translateErrno: body is not `switch errno {…}; return CONST` (%s)", pi.pos(fd))
		} else {
			if v, ok := retConst(body[1:]); ok {
				edefault = v
			} else {
				u.fail("translateErrno: final statement is not `return CONST` (%s)", pi.pos(body[1]))
			}
			for _, c := range sw.Body.List {
				cc := c.(*ast.CaseClause)
				v, ok := retConst(cc.Body)
				if !ok {
					u.fail("translateErrno: case body is not `return CONST` at %s", pi.pos(cc))
					continue
				}
				if cc.List == nil {
					edefault = v
					continue
				}
				var names []string
				for _, e := range cc.List {
					n := x10Text(e)
					names = append(names, n)
					if val, ok := pi.exprInt(e); ok {
						errnoVals[n] = val
					} else {
						u.fail("translateErrno: the value of case %s is not known to the type checker (%s)", n, pi.pos(e))
					}
				}
				ecases = append(ecases, ecase{names, v})
			}
		}
	}
	parts = nil
	for _, c := range ecases {
		parts = append(parts, fmt.Sprintf("(%s, %d)", leanStrList(c.names), c.code))
	}
	u.pf("def translateErrnoCases : List (List String × Nat) := [%s]\n", strings.Join(parts, ", "))
	if edefault < 0 {
		edefault = 0
	}
	u.pf("def translateErrnoDefault : Nat := %d\n", edefault)
	var en []string
	for n := range errnoVals {
		en = append(en, n)
	}
	sort.Strings(en)
	parts = nil
	for _, n := range en {
		parts = append(parts, fmt.Sprintf("(%s, %d)", leanStr(n), errnoVals[n]))
	}
	u.pf("/-- numeric values (GOOS=linux) of the errno names used above. -/\n")
	u.pf("def errnoValues : List (String × Nat) := [%s]\n\n", strings.Join(parts, ", "))

	// ---------- translateSyscallError ----------
	// switch e := err.(type) { case syscall.Errno: return translateErrno(e), true
	//                          case *os.PathError: if errno, ok := e.Err.(syscall.Errno); ok { return translateErrno(errno), true } }
	// return 0, false
	var shapes []string
	if fd := pi.funcDecl("translateSyscallError"); fd == nil {
		u.fail("translateSyscallError not found")
	} else {
		u.pf("-- source: %s (translateSyscallError)\n", pi.pos(fd))
		body := x10Stmts(pi, fd.Body.List)
		var ts *ast.TypeSwitchStmt
		if len(body) == 2 {
			ts, _ = body[0].(*ast.TypeSwitchStmt)
		}
		if ts == nil || x10Text(ts.Assign) != "e := err.(type)" || x10Text(body[1]) != "return 0, false" {
			u.fail("translateSyscallError: body is not `switch e := err.(type) {…}; return 0, false` (%s)", pi.pos(fd))
		} else {
			for _, c := range ts.Body.List {
				cc := c.(*ast.CaseClause)
				if cc.List == nil {
					u.fail("translateSyscallError: default clause at %s", pi.pos(cc))
					continue
				}
				texts := x10Texts(pi, cc.Body)
				for _, e := range cc.List {
					tn := x10Text(e)
					switch {
					case tn == "syscall.Errno" && x10Eq(texts, "return translateErrno(e), true"):
						shapes = append(shapes, "syscall.Errno")
					case strings.HasPrefix(tn, "*os.") && x10Eq(texts, "if errno, ok := e.Err.(syscall.Errno); ok { return translateErrno(errno), true }"):
						shapes = append(shapes, tn+"/syscall.Errno")
					default:
						u.fail("translateSyscallError: unrecognised case %s with body %q at %s", tn, texts, pi.pos(cc))
					}
				}
			}
		}
	}
	u.pf("/-- the error shapes translateSyscallError recognises (everything else: not ok). -/\n")
	u.pf("def translateSyscallErrorShapes : List String := %s\n", leanStrList(shapes))
	wrapOK, wfd := x10BodyIs(pi, "wrapPathError", "if errno, ok := err.(syscall.Errno); ok { return &os.PathError{Path: filepath, Err: errno} }", "return err")
	if !wrapOK {
		u.fail("wrapPathError: body is not {bare Errno -> &os.PathError{…, Err: errno}; else unchanged} (%s)", x10Pos(pi, wfd))
	}
	u.pf("def wrapPathErrorWrapsBareErrnoOnly : Bool := %s\n\n", leanBool(wrapOK))

	// ---------- normaliseError ----------
	type ncase struct {
		code int64
		res  string
	}
	var ncases []ncase
	ndefault, nother := "?", "?"
	if fd := pi.funcDecl("normaliseError"); fd == nil {
		u.fail("normaliseError not found")
	} else {
		u.pf("-- source: %s (normaliseError)\n", pi.pos(fd))
		body := x10Stmts(pi, fd.Body.List)
		var ts *ast.TypeSwitchStmt
		if len(body) == 1 {
			ts, _ = body[0].(*ast.TypeSwitchStmt)
		}
		res := func(list []ast.Stmt) string {
			l := x10Stmts(pi, list)
			if len(l) != 1 {
				return "?"
			}
			r, ok := l[0].(*ast.ReturnStmt)
			if !ok || len(r.Results) != 1 {
				return "?"
			}
			switch t := x10Text(r.Results[0]); t {
			case "err":
				return "same"
			case "nil", "io.EOF", "os.ErrNotExist", "os.ErrPermission":
				return t
			}
			return "?"
		}
		if ts == nil || x10Text(ts.Assign) != "err := err.(type)" {
			u.fail("normaliseError: body is not a single `switch err := err.(type)` (%s)", pi.pos(fd))
		} else {
			for _, c := range ts.Body.List {
				cc := c.(*ast.CaseClause)
				if cc.List == nil {
					nother = res(cc.Body)
					if nother != "same" {
						u.fail("normaliseError: a non-status error is not returned unchanged (%s)", pi.pos(cc))
					}
					continue
				}
				if len(cc.List) != 1 || x10Text(cc.List[0]) != "*StatusError" {
					u.fail("normaliseError: unrecognised case at %s", pi.pos(cc))
					continue
				}
				cb := x10Stmts(pi, cc.Body)
				var sw *ast.SwitchStmt
				if len(cb) == 1 {
					sw, _ = cb[0].(*ast.SwitchStmt)
				}
				if sw == nil || sw.Tag == nil || x10Text(sw.Tag) != "err.Code" {
					u.fail("normaliseError: *StatusError case is not `switch err.Code` (%s)", pi.pos(cc))
					continue
				}
				for _, c2 := range sw.Body.List {
					c2c := c2.(*ast.CaseClause)
					r := res(c2c.Body)
					if r == "?" {
						u.fail("normaliseError: unrecognised result at %s", pi.pos(c2c))
					}
					if c2c.List == nil {
						ndefault = r
						continue
					}
					for _, e := range c2c.List {
						if v, ok := pi.exprInt(e); ok {
							ncases = append(ncases, ncase{v, r})
						} else {
							u.fail("normaliseError: non-constant case at %s", pi.pos(e))
						}
					}
				}
			}
		}
	}
	parts = nil
	for _, c := range ncases {
		parts = append(parts, fmt.Sprintf("(%d, %s)", c.code, leanStr(c.res)))
	}
	u.pf("def normaliseErrorCases : List (Nat × String) := [%s]\n", strings.Join(parts, ", "))
	u.pf("def normaliseErrorDefault : String := %s\n", leanStr(ndefault))
	u.pf("def normaliseErrorNonStatus : String := %s\n\n", leanStr(nother))

	// ---------- fxerr constants ----------
	u.pf("-- source: request-errors.go (constants of type fxerr)\n")
	scope := pi.pkg.Scope()
	names := scope.Names()
	sort.Strings(names)
	parts = nil
	for _, n := range names {
		c, ok := scope.Lookup(n).(*types.Const)
		if !ok {
			continue
		}
		named, ok := c.Type().(*types.Named)
		if !ok || named.Obj().Name() != "fxerr" {
			continue
		}
		if v, ok := pi.constInt(n); ok {
			parts = append(parts, fmt.Sprintf("(%s, %d)", leanStr(n), v))
		}
	}
	if len(parts) == 0 {
		u.fail("no constants of type fxerr found")
	}
	u.pf("def fxerrConsts : List (String × Nat) := [%s]\n", strings.Join(parts, ", "))
	u.pf("\nend Sftp.G\n")
}
