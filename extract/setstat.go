package main

import (
	"fmt"
	"go/ast"
	"go/token"
	"strings"
)

func init() { extractors = append(extractors, extractSetstat) }

// extractSetstat: the ordered, flag-guarded attribute applications of SETSTAT / FSETSTAT
// (`if err == nil && (p.Flags&X) != 0 { err = call }`) and the flag->field lists of
// marshalFileStat / unmarshalFileStat (C17).
func extractSetstat(x *extractor) {
	u := x.newUnit("Setstat")
	pi := x.root
	u.pf("namespace Sftp.G\n\n")
	steps := func(fn string) string {
		fd := pi.funcDecl(fn)
		if fd == nil {
			u.fail("%s not found", fn)
			return "[]"
		}
		u.pf("-- source: %s\n", pi.pos(fd))
		var parts []string
		sawDecode := false
		for _, st := range fd.Body.List {
			txt := pi.nodeText(st)
			if strings.HasPrefix(txt, "fs, err := p.unmarshalFileStat(p.Flags)") {
				sawDecode = true
			}
			is, ok := st.(*ast.IfStmt)
			if !ok {
				continue
			}
			cond := pi.nodeText(is.Cond)
			if !strings.HasPrefix(cond, "err == nil && ") {
				if strings.HasPrefix(cond, "!ok") {
					continue // bad handle
				}
				u.fail("%s: unrecognised if %q at %s", fn, cond, pi.pos(is))
				continue
			}
			// flag mask
			var mask int64 = -1
			ast.Inspect(is.Cond, func(n ast.Node) bool {
				if be, ok := n.(*ast.BinaryExpr); ok && be.Op == token.AND {
					if v, ok := pi.exprInt(be.Y); ok {
						mask = v
					}
				}
				return true
			})
			if !strings.HasSuffix(cond, "!= 0") || mask < 0 {
				u.fail("%s: condition is not `err == nil && p.Flags&X != 0` at %s", fn, pi.pos(is))
				continue
			}
			// the calls assigned to err in the body
			var calls []string
			ast.Inspect(is.Body, func(n ast.Node) bool {
				if as, ok := n.(*ast.AssignStmt); ok && len(as.Lhs) == 1 && pi.nodeText(as.Lhs[0]) == "err" {
					if ce, ok := as.Rhs[0].(*ast.CallExpr); ok {
						calls = append(calls, exprString(ce.Fun))
					}
				}
				return true
			})
			if len(calls) == 0 {
				u.fail("%s: no `err = call` in the body at %s", fn, pi.pos(is))
			}
			parts = append(parts, fmt.Sprintf("(%d, %s)", mask, leanStrList(calls)))
		}
		if !sawDecode {
			u.fail("%s: attributes are not decoded by p.unmarshalFileStat(p.Flags)", fn)
		}
		return "[" + strings.Join(parts, ", ") + "]"
	}
	u.pf("def setstatSteps : List (Nat × List String) := %s\n", steps("sshFxpSetstatPacket.respond"))
	u.pf("def fsetstatSteps : List (Nat × List String) := %s\n\n", steps("sshFxpFsetstatPacket.respond"))

	// marshalFileStat / unmarshalFileStat: flag -> fields, in order
	fields := func(fn string, unmarshal bool) string {
		fd := pi.funcDecl(fn)
		if fd == nil {
			u.fail("%s not found", fn)
			return "[]"
		}
		u.pf("-- source: %s\n", pi.pos(fd))
		var parts []string
		for _, st := range fd.Body.List {
			is, ok := st.(*ast.IfStmt)
			if !ok {
				continue
			}
			var mask int64 = -1
			ast.Inspect(is.Cond, func(n ast.Node) bool {
				if be, ok := n.(*ast.BinaryExpr); ok && be.Op == token.AND {
					if v, ok := pi.exprInt(be.Y); ok {
						mask = v
					}
				}
				return true
			})
			if mask < 0 {
				u.fail("%s: unrecognised condition at %s", fn, pi.pos(is))
				continue
			}
			var fs []string
			ast.Inspect(is.Body, func(n ast.Node) bool {
				switch t := n.(type) {
				case *ast.SelectorExpr:
					s := exprString(t)
					if strings.HasPrefix(s, "fileStat.") || strings.HasPrefix(s, "fs.") {
						f := s[strings.Index(s, ".")+1:]
						if len(fs) == 0 || fs[len(fs)-1] != f {
							fs = append(fs, f)
						}
					}
				}
				return true
			})
			// de-duplicate while keeping first occurrences
			seen := map[string]bool{}
			var uniq []string
			for _, f := range fs {
				if !seen[f] {
					seen[f] = true
					uniq = append(uniq, f)
				}
			}
			parts = append(parts, fmt.Sprintf("(%d, %s)", mask, leanStrList(uniq)))
		}
		return "[" + strings.Join(parts, ", ") + "]"
	}
	u.pf("def marshalFileStatFields : List (Nat × List String) := %s\n", fields("marshalFileStat", false))
	u.pf("def unmarshalFileStatFields : List (Nat × List String) := %s\n", fields("unmarshalFileStat", true))
	u.pf("\nend Sftp.G\n")
}
