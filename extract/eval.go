package main

import (
	"fmt"
	"go/ast"
	"go/token"
)

// A tiny evaluator for side-effect-free Go expressions over integers and booleans.
// env binds selector expressions such as "p.Pflags" (and plain identifiers) to values;
// package constants are resolved through the type checker.  Method calls are resolved
// through `calls` (name -> implementation over evaluated arguments).
type val struct {
	isBool bool
	b      bool
	i      int64
}

type evalCtx struct {
	pi    *pkgInfo
	env   map[string]int64
	calls map[string]func(args []int64) (val, error)
}

func (c *evalCtx) eval(e ast.Expr) (val, error) {
	if v, ok := c.pi.exprInt(e); ok {
		return val{i: v}, nil
	}
	switch t := e.(type) {
	case *ast.ParenExpr:
		return c.eval(t.X)
	case *ast.Ident:
		if t.Name == "true" {
			return val{isBool: true, b: true}, nil
		}
		if t.Name == "false" {
			return val{isBool: true, b: false}, nil
		}
		if v, ok := c.env[t.Name]; ok {
			return val{i: v}, nil
		}
	case *ast.SelectorExpr:
		if v, ok := c.env[exprString(t)]; ok {
			return val{i: v}, nil
		}
	case *ast.UnaryExpr:
		x, err := c.eval(t.X)
		if err != nil {
			return val{}, err
		}
		switch t.Op {
		case token.NOT:
			if x.isBool {
				return val{isBool: true, b: !x.b}, nil
			}
		case token.XOR:
			if !x.isBool {
				return val{i: int64(^uint32(x.i))}, nil
			}
		}
	case *ast.BinaryExpr:
		x, err := c.eval(t.X)
		if err != nil {
			return val{}, err
		}
		if t.Op == token.LAND || t.Op == token.LOR {
			if !x.isBool {
				return val{}, fmt.Errorf("non-boolean operand at %s", c.pi.pos(t))
			}
			if t.Op == token.LAND && !x.b {
				return x, nil
			}
			if t.Op == token.LOR && x.b {
				return x, nil
			}
			return c.eval(t.Y)
		}
		y, err := c.eval(t.Y)
		if err != nil {
			return val{}, err
		}
		if x.isBool != y.isBool {
			return val{}, fmt.Errorf("mixed operands at %s", c.pi.pos(t))
		}
		if x.isBool {
			switch t.Op {
			case token.EQL:
				return val{isBool: true, b: x.b == y.b}, nil
			case token.NEQ:
				return val{isBool: true, b: x.b != y.b}, nil
			}
			break
		}
		switch t.Op {
		case token.AND:
			return val{i: x.i & y.i}, nil
		case token.OR:
			return val{i: x.i | y.i}, nil
		case token.XOR:
			return val{i: x.i ^ y.i}, nil
		case token.AND_NOT:
			return val{i: x.i &^ y.i}, nil
		case token.ADD:
			return val{i: x.i + y.i}, nil
		case token.SUB:
			return val{i: x.i - y.i}, nil
		case token.SHL:
			return val{i: x.i << uint(y.i)}, nil
		case token.SHR:
			return val{i: x.i >> uint(y.i)}, nil
		case token.EQL:
			return val{isBool: true, b: x.i == y.i}, nil
		case token.NEQ:
			return val{isBool: true, b: x.i != y.i}, nil
		case token.LSS:
			return val{isBool: true, b: x.i < y.i}, nil
		case token.LEQ:
			return val{isBool: true, b: x.i <= y.i}, nil
		case token.GTR:
			return val{isBool: true, b: x.i > y.i}, nil
		case token.GEQ:
			return val{isBool: true, b: x.i >= y.i}, nil
		}
	case *ast.CallExpr:
		// conversion T(x)
		if len(t.Args) == 1 {
			if id, ok := t.Fun.(*ast.Ident); ok {
				switch id.Name {
				case "uint32", "uint64", "int", "int64", "uint", "fxp", "fxerr":
					return c.eval(t.Args[0])
				}
			}
		}
		name := ""
		switch f := t.Fun.(type) {
		case *ast.Ident:
			name = f.Name
		case *ast.SelectorExpr:
			name = f.Sel.Name
		}
		if impl, ok := c.calls[name]; ok {
			var args []int64
			for _, a := range t.Args {
				v, err := c.eval(a)
				if err != nil {
					return val{}, err
				}
				if v.isBool {
					return val{}, fmt.Errorf("boolean argument at %s", c.pi.pos(a))
				}
				args = append(args, v.i)
			}
			return impl(args)
		}
	}
	return val{}, fmt.Errorf("cannot evaluate %s at %s", exprString(e), c.pi.pos(e))
}

// singleReturn returns the expression of a function whose body is one `return e`.
func singleReturn(fd *ast.FuncDecl) (ast.Expr, bool) {
	if fd == nil || fd.Body == nil || len(fd.Body.List) != 1 {
		return nil, false
	}
	rs, ok := fd.Body.List[0].(*ast.ReturnStmt)
	if !ok || len(rs.Results) != 1 {
		return nil, false
	}
	return rs.Results[0], true
}
