package main

// Unit WireAlloc (C08, C20: "allocates memory at most in proportion to the number of input bytes"):
// every allocation whose size is a value decoded from received bytes, in package sftp and in
// internal/encoding/ssh/filexfer[/openssh], together with the guard that bounds the value before the
// allocation. An allocation of that kind without a recognised dominating guard is a recorded failure.
//
// Values decoded from the wire (per function, by name):
//   v, … := unmarshalUint32|unmarshalUint32Safe|unmarshalUint64|unmarshalUint64Safe(…)        (first result)
//   v := buf.ConsumeUint32() | ConsumeUint64() | ConsumeInt64() | ConsumeCount() | binary.BigEndian.Uint32/64(…)
//   recv.F … = one of the above            → every selector `.F` in the package counts as decoded
//   w := <conversions / arithmetic over decoded values only>                                  (propagated)
// Allocations: make(T, n[, m]) with n or m mentioning a decoded value; x.Grow(n), bytes/strings.Repeat(_, n) likewise.
// Guards (closed list) — an `if` without init/else that is an earlier statement of a block enclosing the
// allocation (so that it dominates it):
//   if [v < 0 ||] v > E {…; return …}      (also >=, and E < v), conversions around v ignored,
//                                           E free of decoded values: a constant, a parameter / field, len(x)/K, x.Len()/K
//   if v > E { v = E }                      clamp
// A condition that mentions the value in another form is not a guard (and is listed as such in the failure).

import (
	"go/ast"
	"go/token"
	"sort"
	"strings"
)

func init() { extractors = append(extractors, extractWireAlloc) }

var waSources = map[string]bool{
	"unmarshalUint32": true, "unmarshalUint32Safe": true, "unmarshalUint64": true, "unmarshalUint64Safe": true,
	"ConsumeUint32": true, "ConsumeUint64": true, "ConsumeInt64": true, "ConsumeCount": true,
	"Uint32": true, "Uint64": true,
}

func waCallee(e ast.Expr) string {
	c, ok := e.(*ast.CallExpr)
	if !ok {
		return ""
	}
	switch f := c.Fun.(type) {
	case *ast.Ident:
		return f.Name
	case *ast.SelectorExpr:
		return f.Sel.Name
	}
	return ""
}

type waRow struct {
	pos, fn, alloc, val, guard string
}

type waPkg struct {
	pi     *pkgInfo
	label  string
	fields map[string]bool // field names assigned from a decoder anywhere in the package
}

func (p *waPkg) isSource(e ast.Expr) bool {
	e = stripConv(p.pi, e)
	n := waCallee(e)
	if !waSources[n] {
		return false
	}
	if n == "Uint32" || n == "Uint64" {
		return strings.HasPrefix(exprString(e.(*ast.CallExpr).Fun), "binary.")
	}
	return true
}

// mentions: e mentions a decoded local of the set, or a decoded field; len(…)/cap(…) arguments do not count.
func (p *waPkg) mentions(e ast.Node, locals map[string]bool) (string, bool) {
	found := ""
	ast.Inspect(e, func(n ast.Node) bool {
		if found != "" || n == nil {
			return false
		}
		switch t := n.(type) {
		case *ast.CallExpr:
			if id, ok := t.Fun.(*ast.Ident); ok && (id.Name == "len" || id.Name == "cap") {
				return false
			}
			if s, ok := t.Fun.(*ast.SelectorExpr); ok && s.Sel.Name == "Len" {
				return false
			}
		case *ast.SelectorExpr:
			if p.fields[t.Sel.Name] {
				found = exprString(t)
				return false
			}
			// do not descend into the selector's field name
			if v, ok := p.mentions(t.X, locals); ok {
				found = v
			}
			return false
		case *ast.Ident:
			if locals[t.Name] {
				found = t.Name
			}
		}
		return true
	})
	return found, found != ""
}

// pureArith: e consists of identifiers, selectors, literals, conversions, parentheses and arithmetic only.
func (p *waPkg) pureArith(e ast.Expr) bool {
	ok := true
	ast.Inspect(e, func(n ast.Node) bool {
		if c, isCall := n.(*ast.CallExpr); isCall {
			if tv, has := p.pi.info.Types[c.Fun]; !(has && tv.IsType()) {
				ok = false
			}
		}
		switch n.(type) {
		case *ast.IndexExpr, *ast.SliceExpr, *ast.FuncLit, *ast.CompositeLit, *ast.TypeAssertExpr:
			ok = false
		}
		return ok
	})
	return ok
}

func (p *waPkg) collectFields() {
	p.fields = map[string]bool{}
	for _, f := range p.pi.files {
		ast.Inspect(f, func(n ast.Node) bool {
			as, ok := n.(*ast.AssignStmt)
			if !ok || len(as.Rhs) != 1 || !p.isSource(as.Rhs[0]) {
				return true
			}
			if s, ok := as.Lhs[0].(*ast.SelectorExpr); ok {
				p.fields[s.Sel.Name] = true
			}
			return true
		})
		// composite literals `T{F: buf.ConsumeUint32()}`
		ast.Inspect(f, func(n ast.Node) bool {
			kv, ok := n.(*ast.KeyValueExpr)
			if !ok || !p.isSource(kv.Value) {
				return true
			}
			if id, ok := kv.Key.(*ast.Ident); ok {
				p.fields[id.Name] = true
			}
			return true
		})
	}
}

func (p *waPkg) locals(fd *ast.FuncDecl) map[string]bool {
	loc := map[string]bool{}
	for pass := 0; pass < 3; pass++ {
		ast.Inspect(fd.Body, func(n ast.Node) bool {
			switch t := n.(type) {
			case *ast.AssignStmt:
				if len(t.Rhs) == 1 && p.isSource(t.Rhs[0]) {
					if id, ok := t.Lhs[0].(*ast.Ident); ok && id.Name != "_" {
						loc[id.Name] = true
					}
					return true
				}
				if len(t.Lhs) == len(t.Rhs) {
					for i, r := range t.Rhs {
						id, ok := t.Lhs[i].(*ast.Ident)
						if !ok || id.Name == "_" || !p.pureArith(r) {
							continue
						}
						if _, m := p.mentions(r, loc); m {
							loc[id.Name] = true
						}
					}
				}
			case *ast.ValueSpec:
				if len(t.Names) == len(t.Values) {
					for i, r := range t.Values {
						if p.isSource(r) {
							loc[t.Names[i].Name] = true
						} else if _, m := p.mentions(r, loc); m && p.pureArith(r) {
							loc[t.Names[i].Name] = true
						}
					}
				}
			}
			return true
		})
	}
	return loc
}

func waTerminates(b *ast.BlockStmt) bool {
	if len(b.List) == 0 {
		return false
	}
	switch t := b.List[len(b.List)-1].(type) {
	case *ast.ReturnStmt:
		return true
	case *ast.ExprStmt:
		return waCallee(t.X) == "panic"
	case *ast.BranchStmt:
		return t.Tok == token.BREAK || t.Tok == token.CONTINUE || t.Tok == token.GOTO
	}
	return false
}

// guardOf: is `is` a guard bounding the decoded value val from above? other: it mentions val in another form.
func (p *waPkg) guardOf(is *ast.IfStmt, val string, locals map[string]bool) (guard, other bool) {
	if is.Init != nil || is.Else != nil {
		_, m := p.mentionsVal(is.Cond, val)
		return false, m
	}
	isVal := func(e ast.Expr) bool { return exprString(stripConv(p.pi, e)) == val }
	var bound ast.Expr
	var disj func(e ast.Expr)
	disj = func(e ast.Expr) {
		if pe, ok := e.(*ast.ParenExpr); ok {
			disj(pe.X)
			return
		}
		be, ok := e.(*ast.BinaryExpr)
		if !ok {
			return
		}
		switch {
		case be.Op == token.LOR:
			disj(be.X)
			disj(be.Y)
		case (be.Op == token.GTR || be.Op == token.GEQ) && isVal(be.X):
			bound = be.Y
		case (be.Op == token.LSS || be.Op == token.LEQ) && isVal(be.Y):
			bound = be.X
		}
	}
	disj(is.Cond)
	if bound != nil {
		if _, tainted := p.mentions(bound, locals); !tainted {
			if waTerminates(is.Body) {
				return true, false
			}
			if len(is.Body.List) == 1 {
				if as, ok := is.Body.List[0].(*ast.AssignStmt); ok && as.Tok == token.ASSIGN && len(as.Lhs) == 1 && len(as.Rhs) == 1 &&
					exprString(as.Lhs[0]) == val && exprString(stripConv(p.pi, as.Rhs[0])) == exprString(stripConv(p.pi, bound)) {
					return true, false
				}
			}
		}
	}
	_, m := p.mentionsVal(is.Cond, val)
	return false, m
}

func (p *waPkg) mentionsVal(e ast.Node, val string) (string, bool) {
	found := false
	ast.Inspect(e, func(n ast.Node) bool {
		if ex, ok := n.(ast.Expr); ok && exprString(ex) == val {
			found = true
		}
		return !found
	})
	return val, found
}

func (p *waPkg) scan(u *unit) []waRow {
	pi := p.pi
	var rows []waRow
	for _, f := range pi.files {
		for _, d := range f.Decls {
			fd, ok := d.(*ast.FuncDecl)
			if !ok || fd.Body == nil {
				continue
			}
			fn := fd.Name.Name
			if fd.Recv != nil && len(fd.Recv.List) == 1 {
				fn = recvName(fd.Recv.List[0].Type) + "." + fn
			}
			loc := p.locals(fd)
			// walk with the stack of (block, index) ancestors
			type frame struct {
				list []ast.Stmt
				idx  int
			}
			var stack []frame
			var visit func(n ast.Node)
			visitStmts := func(list []ast.Stmt) {
				for i, s := range list {
					stack = append(stack, frame{list, i})
					visit(s)
					stack = stack[:len(stack)-1]
				}
			}
			visit = func(n ast.Node) {
				ast.Inspect(n, func(m ast.Node) bool {
					switch t := m.(type) {
					case *ast.BlockStmt:
						visitStmts(t.List)
						return false
					case *ast.CaseClause:
						for _, e := range t.List {
							visit(e)
						}
						visitStmts(t.Body)
						return false
					case *ast.CommClause:
						if t.Comm != nil {
							visit(t.Comm)
						}
						visitStmts(t.Body)
						return false
					case *ast.FuncLit:
						// a closure: its own body, the enclosing guards still dominate its creation only — treat as opaque block
						visitStmts(t.Body.List)
						return false
					case *ast.CallExpr:
						name := waCallee(t)
						var sized []ast.Expr
						switch {
						case isIdent(t.Fun, "make") && len(t.Args) >= 2:
							sized = t.Args[1:]
						case name == "Grow" && len(t.Args) == 1:
							sized = t.Args
						case name == "Repeat" && len(t.Args) == 2:
							sized = t.Args[1:]
						}
						for _, a := range sized {
							val, m := p.mentions(a, loc)
							if !m {
								continue
							}
							guard, others := "", []string{}
							for _, fr := range stack {
								for k := 0; k < fr.idx; k++ {
									is, ok := fr.list[k].(*ast.IfStmt)
									if !ok {
										continue
									}
									g, o := p.guardOf(is, val, loc)
									if g {
										guard = pi.nodeText(is.Cond)
									} else if o {
										others = append(others, pi.nodeText(is.Cond)+" ("+pi.pos(is)+")")
									}
								}
							}
							rows = append(rows, waRow{pos: pi.pos(t), fn: fn, alloc: pi.nodeText(t), val: val, guard: guard})
							if guard == "" {
								extra := ""
								if len(others) > 0 {
									extra = "; conditions on the value that are not a recognised guard: " + strings.Join(others, ", ")
								}
								u.fail("%s%s: %s at %s is sized by %q, a value decoded from received bytes, without a dominating bound%s", p.label, fn, pi.nodeText(t), pi.pos(t), val, extra)
							}
							break
						}
					}
					return true
				})
			}
			visitStmts(fd.Body.List)
		}
	}
	sort.SliceStable(rows, func(i, j int) bool {
		if rows[i].fn != rows[j].fn {
			return rows[i].fn < rows[j].fn
		}
		return rows[i].alloc < rows[j].alloc
	})
	return rows
}

func extractWireAlloc(x *extractor) {
	u := x.newUnit("WireAlloc")
	u.pf("namespace Sftp.G\n\n")
	u.pf("-- every allocation sized by a value decoded from received bytes: (function, allocation, value, dominating guard — \"\" if none)\n")
	var unguarded []string
	for _, p := range []*waPkg{{pi: x.root, label: ""}, {pi: x.fx, label: "filexfer."}, {pi: x.ossh, label: "openssh."}} {
		name := map[string]string{"": "wireSizedAllocsMain", "filexfer.": "wireSizedAllocsFx", "openssh.": "wireSizedAllocsOpenssh"}[p.label]
		if p.pi == nil {
			u.fail("package %q not loaded", p.label)
			u.pf("def %s : List (String × String × String × String) := []\n", name)
			continue
		}
		p.collectFields()
		var fs []string
		for f := range p.fields {
			fs = append(fs, f)
		}
		sort.Strings(fs)
		rows := p.scan(u)
		u.pf("-- fields assigned from a decoder: %s\n", strings.Join(fs, " "))
		u.pf("def %s : List (String × String × String × String) := [", name)
		for i, r := range rows {
			if i > 0 {
				u.pf(",")
			}
			u.pf("\n  -- %s\n  (%s, %s, %s, %s)", r.pos, leanStr(r.fn), leanStr(r.alloc), leanStr(r.val), leanStr(r.guard))
			if r.guard == "" {
				unguarded = append(unguarded, p.label+r.fn)
			}
		}
		u.pf("]\n\n")
	}
	sort.Strings(unguarded)
	u.pf("def wireSizedAllocsUnguarded : List String := %s\n", leanStrList(unguarded))
	u.pf("\nend Sftp.G\n")
}
