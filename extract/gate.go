package main

import (
	"bytes"
	"fmt"
	"go/ast"
	"go/printer"
	"go/token"
	"sort"
	"strings"
)

func init() { extractors = append(extractors, extractGate, extractServerCalls) }

func (pi *pkgInfo) bodyText(fd *ast.FuncDecl) string {
	if fd == nil || fd.Body == nil {
		return ""
	}
	var buf bytes.Buffer
	printer.Fprint(&buf, pi.fset, fd.Body)
	// normalise whitespace
	return strings.Join(strings.Fields(buf.String()), " ")
}

func (pi *pkgInfo) nodeText(n ast.Node) string {
	var buf bytes.Buffer
	printer.Fprint(&buf, pi.fset, n)
	return strings.Join(strings.Fields(buf.String()), " ")
}

func typeName(e ast.Expr) string {
	switch t := e.(type) {
	case *ast.StarExpr:
		return typeName(t.X)
	case *ast.Ident:
		return t.Name
	case *ast.SelectorExpr:
		return exprString(t)
	}
	return exprString(e)
}

func leanBool(b bool) string {
	if b {
		return "true"
	}
	return "false"
}

// extractGate: the read-only gate of the os-backed server (C09).
func extractGate(x *extractor) {
	u := x.newUnit("Gate")
	pi := x.root
	u.pf("namespace Sftp.G\n\n")

	// 1. marker sets
	for _, m := range []string{"notReadOnly", "getPath", "getHandle"} {
		u.pf("def %sTypes : List String := %s\n", m, leanStrList(pi.methodsNamed(m)))
	}

	// 2. the worker's gate: `readonly := true; switch pkt.(type) {...}; if !readonly && svr.readOnly {...EPERM...; continue}`
	type gcase struct{ typ, act string }
	var gcases []gcase
	gateShapeOK := false
	denyErr := ""
	if fd := pi.funcDecl("Server.sftpServerWorker"); fd == nil {
		u.fail("Server.sftpServerWorker not found")
	} else {
		u.pf("-- source: %s\n", pi.pos(fd))
		var loop *ast.RangeStmt
		for _, s := range fd.Body.List {
			if r, ok := s.(*ast.RangeStmt); ok {
				loop = r
			}
		}
		if loop == nil {
			u.fail("sftpServerWorker: range loop not found")
		} else {
			sawInit, sawSwitch, sawIf := false, false, false
			for _, s := range loop.Body.List {
				switch st := s.(type) {
				case *ast.AssignStmt:
					if pi.nodeText(st) == "readonly := true" {
						sawInit = true
					}
				case *ast.TypeSwitchStmt:
					if sawSwitch {
						u.fail("sftpServerWorker: second type switch at %s", pi.pos(st))
					}
					sawSwitch = true
					for _, c := range st.Body.List {
						cc := c.(*ast.CaseClause)
						act := "?"
						if len(cc.Body) == 1 {
							switch pi.nodeText(cc.Body[0]) {
							case "readonly = false":
								act = "false"
							case "readonly = true":
								act = "true"
							case "readonly = pkt.readonly()":
								act = "readonly()"
							}
						}
						if act == "?" {
							u.fail("sftpServerWorker: unrecognised gate case body at %s", pi.pos(cc))
						}
						if cc.List == nil {
							gcases = append(gcases, gcase{"default", act})
						}
						for _, e := range cc.List {
							gcases = append(gcases, gcase{typeName(e), act})
						}
					}
				case *ast.IfStmt:
					txt := pi.nodeText(st.Cond)
					if txt == "!readonly && svr.readOnly" {
						sawIf = true
						body := pi.nodeText(st.Body)
						if strings.Contains(body, "continue") && strings.Contains(body, "readyPacket(") {
							if i := strings.Index(body, "statusFromError(pkt.id(), "); i >= 0 {
								rest := body[i+len("statusFromError(pkt.id(), "):]
								denyErr = rest[:strings.Index(rest, ")")]
							}
						}
						if denyErr == "" {
							u.fail("sftpServerWorker: the read-only branch does not answer with statusFromError(pkt.id(), …) and continue (%s)", pi.pos(st))
						}
					} else if st.Init != nil && strings.Contains(pi.nodeText(st.Init), "handlePacket(svr, pkt)") {
						// `if err := handlePacket(svr, pkt); err != nil` : the normal path
					} else {
						u.fail("sftpServerWorker: unrecognised if %q at %s", txt, pi.pos(st))
					}
				}
			}
			gateShapeOK = sawInit && sawSwitch && sawIf
			if !gateShapeOK {
				u.fail("sftpServerWorker: gate shape not recognised (init=%v switch=%v if=%v)", sawInit, sawSwitch, sawIf)
			}
		}
	}
	var parts []string
	for _, c := range gcases {
		parts = append(parts, fmt.Sprintf("(%s, %s)", leanStr(c.typ), leanStr(c.act)))
	}
	u.pf("def workerGate : List (String × String) := [%s]\n", strings.Join(parts, ", "))
	u.pf("def gateShapeOK : Bool := %s\n", leanBool(gateShapeOK))
	u.pf("def gateDenyError : String := %s\n\n", leanStr(denyErr))

	// 3. open's readonly() as a complete truth table over the 64 pflag sets
	hasPflagsCanon := "{ for _, f := range flags { if p.Pflags&f == 0 { return false } } return true }"
	if got := pi.bodyText(pi.funcDecl("sshFxpOpenPacket.hasPflags")); got != hasPflagsCanon {
		u.fail("sshFxpOpenPacket.hasPflags: body is not the expected all-flags-set loop: %q", got)
	}
	var table []string
	if e, ok := singleReturn(pi.funcDecl("sshFxpOpenPacket.readonly")); !ok {
		u.fail("sshFxpOpenPacket.readonly: not a single return expression")
	} else {
		u.pf("-- source: %s  %s\n", pi.pos(e), pi.nodeText(e))
		for pf := int64(0); pf < 64; pf++ {
			pfv := pf
			c := &evalCtx{pi: pi, env: map[string]int64{"p.Pflags": pf}, calls: map[string]func([]int64) (val, error){
				"hasPflags": func(args []int64) (val, error) {
					for _, a := range args {
						if pfv&a == 0 {
							return val{isBool: true, b: false}, nil
						}
					}
					return val{isBool: true, b: true}, nil
				}}}
			v, err := c.eval(e)
			if err != nil || !v.isBool {
				u.fail("sshFxpOpenPacket.readonly: %v", err)
				table = nil
				break
			}
			table = append(table, leanBool(v.b))
		}
	}
	u.pf("def openReadonlyTable : List Bool := [%s]\n\n", strings.Join(table, ", "))

	// 4. extended requests: name switch and per-type readonly() constants
	type ent struct{ name, typ string }
	var exts []ent
	defaultErrs := false
	if fd := pi.funcDecl("sshFxpExtendedPacket.UnmarshalBinary"); fd == nil {
		u.fail("sshFxpExtendedPacket.UnmarshalBinary not found")
	} else {
		ast.Inspect(fd.Body, func(n ast.Node) bool {
			sw, ok := n.(*ast.SwitchStmt)
			if !ok || sw.Tag == nil || pi.nodeText(sw.Tag) != "p.ExtendedRequest" {
				return true
			}
			for _, c := range sw.Body.List {
				cc := c.(*ast.CaseClause)
				if cc.List == nil {
					if strings.Contains(pi.nodeText(cc), "errUnknownExtendedPacket") && strings.Contains(pi.nodeText(cc), "return") {
						defaultErrs = true
					}
					continue
				}
				typ := ""
				if len(cc.Body) == 1 {
					if as, ok := cc.Body[0].(*ast.AssignStmt); ok && pi.nodeText(as.Lhs[0]) == "p.SpecificPacket" {
						if ue, ok := as.Rhs[0].(*ast.UnaryExpr); ok && ue.Op == token.AND {
							if cl, ok := ue.X.(*ast.CompositeLit); ok {
								typ = typeName(cl.Type)
							}
						}
					}
				}
				if typ == "" {
					u.fail("sshFxpExtendedPacket.UnmarshalBinary: unrecognised case body at %s", pi.pos(cc))
				}
				for _, e := range cc.List {
					if s, ok := pi.exprStr(e); ok {
						exts = append(exts, ent{s, typ})
					} else {
						u.fail("sshFxpExtendedPacket.UnmarshalBinary: non-constant case at %s", pi.pos(e))
					}
				}
			}
			return false
		})
		if !defaultErrs {
			u.fail("sshFxpExtendedPacket.UnmarshalBinary: default case does not return errUnknownExtendedPacket")
		}
	}
	parts = nil
	for _, e := range exts {
		parts = append(parts, fmt.Sprintf("(%s, %s)", leanStr(e.name), leanStr(e.typ)))
	}
	u.pf("def extSwitch : List (String × String) := [%s]\n", strings.Join(parts, ", "))
	u.pf("def extUnknownIsError : Bool := %s\n", leanBool(defaultErrs))

	parts = nil
	for _, t := range pi.methodsNamed("readonly") {
		fd := pi.funcDecl(t + ".readonly")
		if e, ok := singleReturn(fd); ok {
			if id, ok := e.(*ast.Ident); ok && (id.Name == "true" || id.Name == "false") {
				parts = append(parts, fmt.Sprintf("(%s, %s)", leanStr(t), id.Name))
			}
		}
	}
	sort.Strings(parts)
	u.pf("def readonlyConst : List (String × Bool) := [%s]\n", strings.Join(parts, ", "))
	extRO := "{ if p.SpecificPacket == nil { return true } return p.SpecificPacket.readonly() }"
	got := pi.bodyText(pi.funcDecl("sshFxpExtendedPacket.readonly"))
	u.pf("def extendedReadonlyDelegates : Bool := %s\n", leanBool(got == extRO))
	if got != extRO {
		u.fail("sshFxpExtendedPacket.readonly: unexpected body %q", got)
	}

	// 5. makePacket: type byte -> packet struct
	parts = nil
	mkDefaultErr := false
	if fd := pi.funcDecl("makePacket"); fd == nil {
		u.fail("makePacket not found")
	} else {
		ast.Inspect(fd.Body, func(n ast.Node) bool {
			sw, ok := n.(*ast.SwitchStmt)
			if !ok || sw.Tag == nil || pi.nodeText(sw.Tag) != "p.pktType" {
				return true
			}
			for _, c := range sw.Body.List {
				cc := c.(*ast.CaseClause)
				if cc.List == nil {
					mkDefaultErr = strings.HasPrefix(pi.nodeText(cc), "default: return nil,")
					continue
				}
				typ := ""
				if len(cc.Body) == 1 {
					if as, ok := cc.Body[0].(*ast.AssignStmt); ok && pi.nodeText(as.Lhs[0]) == "pkt" {
						if ue, ok := as.Rhs[0].(*ast.UnaryExpr); ok && ue.Op == token.AND {
							if cl, ok := ue.X.(*ast.CompositeLit); ok {
								typ = typeName(cl.Type)
							}
						}
					}
				}
				for _, e := range cc.List {
					if v, ok := pi.exprInt(e); ok && typ != "" {
						parts = append(parts, fmt.Sprintf("(%d, %s)", v, leanStr(typ)))
					} else {
						u.fail("makePacket: unrecognised case at %s", pi.pos(cc))
					}
				}
			}
			return false
		})
	}
	u.pf("def makePacketSwitch : List (Nat × String) := [%s]\n", strings.Join(parts, ", "))
	u.pf("def makePacketDefaultIsError : Bool := %s\n", leanBool(mkDefaultErr))
	u.pf("\nend Sftp.G\n")
}

// callDesc renders one call expression as name(arg,arg…) with arguments classified:
// L:<field> = s.toLocalPath(p.<field>), F:<field> = p.<field>, V:<ident>, C:<const>, ? otherwise.
func callDesc(pi *pkgInfo, c *ast.CallExpr) string {
	var args []string
	for _, a := range c.Args {
		args = append(args, argDesc(pi, a))
	}
	return exprString(c.Fun) + "(" + strings.Join(args, ",") + ")"
}

// localAliases maps a local variable to the single expression it was defined from (`x := expr`),
// for the node currently being described by collectCalls.
var localAliases map[string]ast.Expr

func argDesc(pi *pkgInfo, a ast.Expr) string {
	if v, ok := pi.exprInt(a); ok {
		return fmt.Sprintf("C:%d", v)
	}
	switch t := a.(type) {
	case *ast.CallExpr:
		fn := exprString(t.Fun)
		if strings.HasSuffix(fn, ".toLocalPath") && len(t.Args) == 1 {
			return "L:" + strings.TrimPrefix(argDesc(pi, t.Args[0]), "F:")
		}
		if len(t.Args) == 1 { // conversion or accessor
			return argDesc(pi, t.Args[0])
		}
		if len(t.Args) == 0 {
			return "M:" + fn
		}
	case *ast.SelectorExpr:
		if id, ok := t.X.(*ast.Ident); ok && id.Name == "p" {
			return "F:" + t.Sel.Name
		}
		return "S:" + exprString(t)
	case *ast.Ident:
		if e, ok := localAliases[t.Name]; ok {
			delete(localAliases, t.Name) // no self-reference loops
			d := argDesc(pi, e)
			localAliases[t.Name] = e
			if strings.HasPrefix(d, "L:") || strings.HasPrefix(d, "F:") || strings.HasPrefix(d, "M:") {
				return d
			}
		}
		return "V:" + t.Name
	}
	return "?"
}

var interestingCall = func(fn string) bool {
	for _, p := range []string{"os.", "syscall.", "filepath.", "f.", "s.", "svr.", "io."} {
		if strings.HasPrefix(fn, p) {
			return true
		}
	}
	switch fn {
	case "getStatVFSForPath", "cleanPath", "runLs", "statusFromError":
		return true
	}
	return false
}

func collectCalls(pi *pkgInfo, n ast.Node) []string {
	var out []string
	localAliases = map[string]ast.Expr{}
	defer func() { localAliases = nil }()
	counts := map[string]int{}
	ast.Inspect(n, func(m ast.Node) bool {
		if as, ok := m.(*ast.AssignStmt); ok && len(as.Lhs) == 1 && len(as.Rhs) == 1 {
			if id, ok := as.Lhs[0].(*ast.Ident); ok {
				counts[id.Name]++
				localAliases[id.Name] = as.Rhs[0]
			}
		}
		return true
	})
	for k, c := range counts {
		if c != 1 {
			delete(localAliases, k) // assigned more than once: not an alias
		}
	}
	ast.Inspect(n, func(m ast.Node) bool {
		c, ok := m.(*ast.CallExpr)
		if !ok {
			return true
		}
		fn := exprString(c.Fun)
		if interestingCall(fn) && fn != "s.toLocalPath" && fn != "svr.toLocalPath" && fn != "statusFromError" &&
			!strings.HasPrefix(fn, "s.pktMgr") && !strings.HasPrefix(fn, "svr.pktMgr") {
			out = append(out, callDesc(pi, c))
		}
		return true
	})
	return out
}

// extractServerCalls: request type -> calls made by the os-backed server (handlePacket cases and respond methods).
func extractServerCalls(x *extractor) {
	u := x.newUnit("ServerCalls")
	pi := x.root
	u.pf("namespace Sftp.G\n\n")
	type row struct {
		typ   string
		calls []string
		ready int
	}
	var rows []row
	viaRespond := map[string]bool{}
	fd := pi.funcDecl("handlePacket")
	readyAfter := false
	if fd == nil {
		u.fail("handlePacket not found")
	} else {
		u.pf("-- source: %s\n", pi.pos(fd))
		for _, s := range fd.Body.List {
			ts, ok := s.(*ast.TypeSwitchStmt)
			if !ok {
				if strings.Contains(pi.nodeText(s), "s.pktMgr.readyPacket(s.pktMgr.newOrderedResponse(rpkt, orderID))") {
					readyAfter = true
				}
				continue
			}
			for _, c := range ts.Body.List {
				cc := c.(*ast.CaseClause)
				txt := pi.nodeText(cc)
				if cc.List == nil {
					if !strings.Contains(txt, "return fmt.Errorf") {
						u.fail("handlePacket: default case does not return an error")
					}
					continue
				}
				for _, e := range cc.List {
					tn := typeName(e)
					calls := collectCalls(pi, cc)
					if strings.Contains(txt, "p.respond(s)") || strings.Contains(txt, ").respond(s)") {
						viaRespond[tn] = true
						calls = append(calls, "respond()")
					}
					rows = append(rows, row{typ: tn, calls: calls})
				}
			}
		}
		if !readyAfter {
			u.fail("handlePacket: the single readyPacket after the switch was not found")
		}
	}
	// respond methods
	for _, t := range pi.methodsNamed("respond") {
		fd := pi.funcDecl(t + ".respond")
		rows = append(rows, row{typ: t + ".respond", calls: collectCalls(pi, fd.Body)})
	}
	var parts []string
	for _, r := range rows {
		parts = append(parts, fmt.Sprintf("  (%s, %s)", leanStr(r.typ), leanStrList(r.calls)))
	}
	u.pf("def serverCalls : List (String × List String) := [\n%s]\n", strings.Join(parts, ",\n"))
	u.pf("def handlePacketReadyAfterSwitch : Bool := %s\n", leanBool(readyAfter))
	u.pf("\nend Sftp.G\n")
}

func init() { extractors = append(extractors, extractServerPaths) }

// extractServerPaths: how the os-backed server turns request paths into local paths (C05).
func extractServerPaths(x *extractor) {
	u := x.newUnit("ServerPaths")
	pi := x.root
	u.pf("namespace Sftp.G\n\n")
	canon := `{ if s.workDir != "" && !path.IsAbs(p) { p = path.Join(s.workDir, p) } return p }`
	got := pi.bodyText(pi.funcDecl("Server.toLocalPath"))
	if got != canon {
		u.fail("Server.toLocalPath: unexpected body %q", got)
	}
	u.pf("-- source: server_unix.go Server.toLocalPath\n")
	u.pf("def toLocalPathJoinsWorkDirForRelative : Bool := %s\n", leanBool(got == canon))
	wd := pi.bodyText(pi.funcDecl("WithServerWorkingDirectory"))
	ok := strings.Contains(wd, "s.workDir = cleanPath(workDir)")
	if !ok {
		u.fail("WithServerWorkingDirectory: does not store cleanPath(workDir): %q", wd)
	}
	u.pf("def workDirStoredClean : Bool := %s\n", leanBool(ok))
	u.pf("\nend Sftp.G\n")
}
