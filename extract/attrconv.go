package main

import (
	"fmt"
	"go/ast"
	"go/token"
	"go/types"
	"strings"
)

func init() { extractors = append(extractors, extractAttrConv) }

// extractAttrConv (C17): the VALUE conversions of the numeric attributes, as integer-conversion chains.
//
//	modTime, accessTime   func (fs *FileStat) ModTime() time.Time { return time.Unix(<chain over fs.Mtime>, <const>) }
//	clientSize            func (fi *fileInfo) Size() int64 { return <chain over fi.stat.Size> }
//	clientModTimeVia      func (fi *fileInfo) ModTime() time.Time { return fi.stat.ModTime() }
//	statFields            fileStatFromInfo: the Size / Mtime / Atime elements of its &FileStat{…} literal, local
//	                      variables resolved through their single `:=` definition
//	setstatArgs/fsetstatArgs  the arguments of every `err = call(...)` of the flag-guarded steps of
//	                      sshFxpSetstatPacket.respond / sshFxpFsetstatPacket.respond (the leading `path` dropped)
//	clientSetters         Client.Chtimes / Chown / Truncate, File.Chown / Truncate: the flag and the attribute
//	                      value(s) handed to c.setstat / f.c.fsetstat
//
// A chain is `T1(T2(… base …))` with integer types T; a package-level helper `func h(p T) R { return <chain over p> }`
// is inlined.  Everything else is reported as a failure and emitted with ok := false.

var attrIntTys = map[string]string{
	"uint8": ".u8", "byte": ".u8", "uint16": ".u16", "uint32": ".u32", "uint64": ".u64", "uint": ".uint",
	"int8": ".i8", "int16": ".i16", "int32": ".i32", "int64": ".i64", "int": ".int",
}

type attrConvX struct {
	pi *pkgInfo
	u  *unit
}

type attrConvFact struct {
	src   string
	chain []string // Lean IntTy constructors, innermost conversion first
	ok    bool
}

func (f attrConvFact) lean() string {
	return fmt.Sprintf("⟨%s, [%s], %s⟩", leanStr(f.src), strings.Join(f.chain, ", "), leanBool(f.ok))
}

func attrUnparen(e ast.Expr) ast.Expr {
	for {
		p, ok := e.(*ast.ParenExpr)
		if !ok {
			return e
		}
		e = p.X
	}
}

func (a *attrConvX) isType(e ast.Expr) (string, bool) {
	e = attrUnparen(e)
	if tv, ok := a.pi.info.Types[e]; ok && tv.IsType() {
		return types.TypeString(tv.Type, func(*types.Package) string { return "" }), true
	}
	if id, ok := e.(*ast.Ident); ok {
		if obj, ok := a.pi.info.Uses[id]; ok {
			if tn, ok := obj.(*types.TypeName); ok {
				return tn.Name(), true
			}
			return "", false
		}
		if _, known := attrIntTys[id.Name]; known {
			return id.Name, true
		}
	}
	return "", false
}

// chainOf peels conversions (and inlinable helpers) off e.  ok is false when a conversion to a type that is not an
// integer type, or a call of a helper that is not a plain chain over its parameter, is met.
func (a *attrConvX) chainOf(e ast.Expr, depth int) (base ast.Expr, chain []string, ok bool, why string) {
	e = attrUnparen(e)
	ce, isCall := e.(*ast.CallExpr)
	if !isCall || len(ce.Args) != 1 || ce.Ellipsis != token.NoPos {
		return e, nil, true, ""
	}
	if tn, isT := a.isType(ce.Fun); isT {
		lean, known := attrIntTys[tn]
		if !known {
			return e, nil, false, fmt.Sprintf("conversion to %s is not an integer conversion", tn)
		}
		b, inner, ok, why := a.chainOf(ce.Args[0], depth)
		return b, append(inner, lean), ok, why
	}
	if id, isId := ce.Fun.(*ast.Ident); isId {
		fd := a.pi.funcDecl(id.Name)
		if fd == nil || fd.Recv != nil {
			return e, nil, false, fmt.Sprintf("%s is not a package-level function", id.Name)
		}
		if depth >= 3 {
			return e, nil, false, "helper nesting too deep"
		}
		ret, single := singleReturn(fd)
		if !single || fd.Type.Params == nil || len(fd.Type.Params.List) != 1 || len(fd.Type.Params.List[0].Names) != 1 {
			return e, nil, false, fmt.Sprintf("helper %s (%s) is not `func(p T) R { return <conversions of p> }`", id.Name, a.pi.pos(fd))
		}
		param := fd.Type.Params.List[0].Names[0].Name
		hb, hchain, hok, hwhy := a.chainOf(ret, depth+1)
		if !hok {
			return e, nil, false, hwhy
		}
		if hid, isId := attrUnparen(hb).(*ast.Ident); !isId || hid.Name != param {
			return e, nil, false, fmt.Sprintf("helper %s (%s) does not return conversions of its parameter only: %s", id.Name, a.pi.pos(fd), a.pi.nodeText(ret))
		}
		b, inner, ok, why := a.chainOf(ce.Args[0], depth)
		return b, append(inner, hchain...), ok, why
	}
	return e, nil, true, "" // a method call with one argument etc.: the caller decides whether it is a base it knows
}

// fact builds the fact of e; the base must satisfy baseOK (which returns the src text), else the fact is not ok.
func (a *attrConvX) fact(where string, e ast.Expr, baseOK func(ast.Expr) (string, bool)) attrConvFact {
	b, chain, ok, why := a.chainOf(e, 0)
	if !ok {
		a.u.fail("%s: %s at %s", where, why, a.pi.pos(e))
		return attrConvFact{src: a.pi.nodeText(e), ok: false}
	}
	src, good := baseOK(b)
	if !good {
		a.u.fail("%s: unrecognised operand %q at %s", where, a.pi.nodeText(b), a.pi.pos(e))
		return attrConvFact{src: a.pi.nodeText(b), ok: false}
	}
	return attrConvFact{src: src, chain: chain, ok: true}
}

func attrRecvName(fd *ast.FuncDecl) string {
	if fd.Recv == nil || len(fd.Recv.List) != 1 || len(fd.Recv.List[0].Names) != 1 {
		return ""
	}
	return fd.Recv.List[0].Names[0].Name
}

// selOf: base is `<recv>.<path...>.<Field>` -> Field
func attrSelOf(prefix string) func(ast.Expr) (string, bool) {
	return func(e ast.Expr) (string, bool) {
		s := exprString(attrUnparen(e))
		if strings.HasPrefix(s, prefix) && !strings.ContainsAny(s[len(prefix):], ".()[] ") {
			return s[len(prefix):], true
		}
		return s, false
	}
}

func (a *attrConvX) timeDecode(method, field string) string {
	pi := a.pi
	fd := pi.funcDecl("FileStat." + method)
	bad := func(format string, args ...any) string {
		a.u.fail("FileStat."+method+": "+format, args...)
		return fmt.Sprintf("{ sec := ⟨%s, [], false⟩, nsec := 0, single := false }", leanStr(field))
	}
	if fd == nil {
		return bad("not found")
	}
	a.u.pf("-- source: %s\n", pi.pos(fd))
	ret, single := singleReturn(fd)
	if !single {
		return bad("body is not a single return at %s", pi.pos(fd))
	}
	ce, ok := attrUnparen(ret).(*ast.CallExpr)
	if !ok || exprString(ce.Fun) != "time.Unix" || len(ce.Args) != 2 {
		return bad("does not return time.Unix(sec, nsec) at %s: %s", pi.pos(ret), pi.nodeText(ret))
	}
	nsec, isConst := pi.exprInt(ce.Args[1])
	if !isConst {
		return bad("nanoseconds argument is not a constant at %s", pi.pos(ce.Args[1]))
	}
	recv := attrRecvName(fd)
	f := a.fact("FileStat."+method, ce.Args[0], attrSelOf(recv+"."))
	return fmt.Sprintf("{ sec := %s, nsec := %d, single := true }", f.lean(), nsec)
}

func (a *attrConvX) clientInfo() {
	pi := a.pi
	// fileInfo.Size
	fact := attrConvFact{src: "Size", ok: false}
	if fd := pi.funcDecl("fileInfo.Size"); fd == nil {
		a.u.fail("fileInfo.Size not found")
	} else {
		a.u.pf("-- source: %s\n", pi.pos(fd))
		if ret, single := singleReturn(fd); !single {
			a.u.fail("fileInfo.Size: body is not a single return at %s", pi.pos(fd))
		} else {
			fact = a.fact("fileInfo.Size", ret, attrSelOf(attrRecvName(fd)+".stat."))
		}
	}
	a.u.pf("def clientSize : ConvFact := %s\n", fact.lean())
	// fileInfo.ModTime delegates to FileStat.ModTime
	via := ""
	if fd := pi.funcDecl("fileInfo.ModTime"); fd == nil {
		a.u.fail("fileInfo.ModTime not found")
	} else {
		a.u.pf("-- source: %s\n", pi.pos(fd))
		ret, single := singleReturn(fd)
		if single && exprString(attrUnparen(ret)) == attrRecvName(fd)+".stat.ModTime()" {
			via = "FileStat.ModTime"
		} else {
			a.u.fail("fileInfo.ModTime: body is not `return fi.stat.ModTime()` at %s", pi.pos(fd))
		}
	}
	a.u.pf("def clientModTimeVia : String := %s\n\n", leanStr(via))
}

// statFields: fileStatFromInfo's &FileStat{Size: …, Mtime: …, Atime: …}
func (a *attrConvX) statFields() {
	pi := a.pi
	fd := pi.funcDecl("fileStatFromInfo")
	if fd == nil {
		a.u.fail("fileStatFromInfo not found")
		a.u.pf("def statFields : List (String × ConvFact) := []\n\n")
		return
	}
	a.u.pf("-- source: %s\n", pi.pos(fd))
	// single definitions of local variables
	defs := map[string]ast.Expr{}
	ndefs := map[string]int{}
	var lit *ast.CompositeLit
	litVar := ""
	ast.Inspect(fd.Body, func(n ast.Node) bool {
		switch s := n.(type) {
		case *ast.AssignStmt:
			for i, l := range s.Lhs {
				if id, ok := l.(*ast.Ident); ok && i < len(s.Rhs) && len(s.Lhs) == len(s.Rhs) {
					ndefs[id.Name]++
					defs[id.Name] = s.Rhs[i]
					r := attrUnparen(s.Rhs[i])
					if ue, ok := r.(*ast.UnaryExpr); ok && ue.Op == token.AND {
						r = ue.X
					}
					if cl, ok := r.(*ast.CompositeLit); ok && typeName(cl.Type) == "FileStat" {
						if lit != nil {
							a.u.fail("fileStatFromInfo: more than one FileStat literal at %s", pi.pos(cl))
						}
						lit, litVar = cl, id.Name
					}
				}
			}
		case *ast.IncDecStmt:
			if id, ok := s.X.(*ast.Ident); ok {
				ndefs[id.Name] += 2
			}
		case *ast.UnaryExpr:
			if id, ok := s.X.(*ast.Ident); ok && s.Op == token.AND {
				ndefs[id.Name] += 0 // address taken of flags only; values of interest are not addressable ints here
				_ = id
			}
		}
		return true
	})
	if lit == nil {
		a.u.fail("fileStatFromInfo: no `x := &FileStat{…}` literal")
		a.u.pf("def statFields : List (String × ConvFact) := []\n\n")
		return
	}
	var resolve func(e ast.Expr, depth int) (string, bool)
	resolve = func(e ast.Expr, depth int) (string, bool) {
		e = attrUnparen(e)
		if id, ok := e.(*ast.Ident); ok {
			d, has := defs[id.Name]
			if !has || ndefs[id.Name] != 1 || depth > 4 {
				return id.Name, false
			}
			// the definition may itself be a chain-free expression or another variable
			b, chain, ok, _ := a.chainOf(d, 0)
			if !ok || len(chain) != 0 {
				return id.Name, false
			}
			return resolve(b, depth+1)
		}
		s := exprString(e)
		switch s {
		case "fi.Size()", "fi.ModTime().Unix()":
			return s, true
		}
		return s, false
	}
	var rows []string
	seen := map[string]bool{}
	for _, el := range lit.Elts {
		kv, ok := el.(*ast.KeyValueExpr)
		if !ok {
			a.u.fail("fileStatFromInfo: FileStat literal is not keyed at %s", pi.pos(el))
			continue
		}
		key := exprString(kv.Key)
		if key != "Size" && key != "Mtime" && key != "Atime" {
			continue
		}
		seen[key] = true
		f := a.fact("fileStatFromInfo."+key, kv.Value, func(b ast.Expr) (string, bool) { return resolve(b, 0) })
		rows = append(rows, fmt.Sprintf("(%s, %s)", leanStr(key), f.lean()))
	}
	for _, k := range []string{"Size", "Mtime", "Atime"} {
		if !seen[k] {
			a.u.fail("fileStatFromInfo: FileStat literal does not set %s", k)
		}
	}
	// nothing else may write these fields afterwards (here or in the os-specific part)
	check := func(fn *ast.FuncDecl, v string) {
		if fn == nil || fn.Body == nil {
			return
		}
		ast.Inspect(fn.Body, func(n ast.Node) bool {
			var lhs []ast.Expr
			switch s := n.(type) {
			case *ast.AssignStmt:
				lhs = s.Lhs
			case *ast.IncDecStmt:
				lhs = []ast.Expr{s.X}
			}
			for _, l := range lhs {
				s := exprString(attrUnparen(l))
				for _, k := range []string{"Size", "Mtime", "Atime"} {
					if s == v+"."+k || s == "(*"+v+")."+k {
						a.u.fail("%s: %s is written outside the FileStat literal at %s", fn.Name.Name, s, pi.pos(l))
					}
				}
				if s == "*"+v {
					a.u.fail("%s: *%s is overwritten at %s", fn.Name.Name, v, pi.pos(l))
				}
			}
			return true
		})
	}
	check(fd, litVar)
	if osfd := pi.funcDecl("fileStatFromInfoOs"); osfd != nil && osfd.Type.Params != nil {
		// its FileStat parameter
		for _, p := range osfd.Type.Params.List {
			if typeName(p.Type) == "FileStat" {
				for _, n := range p.Names {
					check(osfd, n.Name)
				}
			}
		}
	}
	a.u.pf("def statFields : List (String × ConvFact) := [%s]\n\n", strings.Join(rows, ", "))
}

// applyArgs: the arguments of the attribute-applying calls of SETSTAT / FSETSTAT
func (a *attrConvX) applyArgs(fn, leanName string) {
	pi := a.pi
	fd := pi.funcDecl(fn)
	if fd == nil {
		a.u.fail("%s not found", fn)
		a.u.pf("def %s : List (Nat × String × List ConvFact) := []\n", leanName)
		return
	}
	a.u.pf("-- source: %s\n", pi.pos(fd))
	var rows []string
	for _, st := range fd.Body.List {
		is, ok := st.(*ast.IfStmt)
		if !ok || !strings.HasPrefix(pi.nodeText(is.Cond), "err == nil && ") {
			continue
		}
		var mask int64 = -1
		ast.Inspect(is.Cond, func(n ast.Node) bool {
			if be, ok := n.(*ast.BinaryExpr); ok && be.Op == token.AND {
				if v, ok := pi.exprInt(be.Y); ok {
					mask = v
				}
			}
			return true
		})
		if mask < 0 {
			a.u.fail("%s: no flag mask in %q at %s", fn, pi.nodeText(is.Cond), pi.pos(is))
			continue
		}
		ast.Inspect(is.Body, func(n ast.Node) bool {
			as, ok := n.(*ast.AssignStmt)
			if !ok || len(as.Lhs) != 1 || len(as.Rhs) != 1 || pi.nodeText(as.Lhs[0]) != "err" {
				return true
			}
			ce, ok := as.Rhs[0].(*ast.CallExpr)
			if !ok {
				a.u.fail("%s: err is assigned something that is not a call at %s", fn, pi.pos(as))
				return true
			}
			name := exprString(ce.Fun)
			args := ce.Args
			if strings.HasPrefix(name, "os.") {
				if len(args) == 0 || exprString(args[0]) != "path" {
					a.u.fail("%s: first argument of %s is not path at %s", fn, name, pi.pos(ce))
				} else {
					args = args[1:]
				}
			}
			var facts []string
			for _, arg := range args {
				f := a.fact(fn+"/"+name, arg, func(b ast.Expr) (string, bool) {
					s := exprString(attrUnparen(b))
					if !strings.HasPrefix(s, "fs.") {
						return s, false
					}
					s = s[3:]
					switch s {
					case "Size", "UID", "GID", "Atime", "Mtime", "Mode", "AccessTime()", "ModTime()", "FileMode()":
						return s, true
					}
					return s, false
				})
				facts = append(facts, f.lean())
			}
			rows = append(rows, fmt.Sprintf("(%d, %s, [%s])", mask, leanStr(name), strings.Join(facts, ", ")))
			return true
		})
	}
	// fs must be the decoded attribute block of the packet
	if !strings.Contains(pi.bodyText(fd), "fs, err := p.unmarshalFileStat(p.Flags)") {
		a.u.fail("%s: fs is not `p.unmarshalFileStat(p.Flags)`", fn)
	}
	a.u.pf("def %s : List (Nat × String × List ConvFact) := [%s]\n", leanName, strings.Join(rows, ", "))
}

// clientSetters: what the client's attribute setters put on the wire
func (a *attrConvX) clientSetters() {
	pi := a.pi
	var rows []string
	params := func(fd *ast.FuncDecl) map[string]bool {
		m := map[string]bool{}
		if fd.Type.Params != nil {
			for _, p := range fd.Type.Params.List {
				for _, n := range p.Names {
					m[n.Name] = true
				}
			}
		}
		return m
	}
	for _, api := range []struct{ lean, fn, send string }{
		{"Client.Chtimes", "Client.Chtimes", "c.setstat"}, {"Client.Chown", "Client.Chown", "c.setstat"}, {"Client.Truncate", "Client.Truncate", "c.setstat"},
		{"File.Chown", "File.Chown", "f.c.fsetstat"}, {"File.Truncate", "File.Truncate", "f.c.fsetstat"},
	} {
		fd := pi.funcDecl(api.fn)
		if fd == nil {
			a.u.fail("%s not found", api.fn)
			continue
		}
		ps := params(fd)
		baseOK := func(b ast.Expr) (string, bool) {
			b = attrUnparen(b)
			if id, ok := b.(*ast.Ident); ok {
				return id.Name, ps[id.Name]
			}
			if ce, ok := b.(*ast.CallExpr); ok && len(ce.Args) == 0 {
				if se, ok := ce.Fun.(*ast.SelectorExpr); ok && se.Sel.Name == "Unix" {
					if id, ok := se.X.(*ast.Ident); ok && ps[id.Name] {
						return exprString(b), true
					}
				}
			}
			return exprString(b), false
		}
		// local struct types and the single definition of local variables
		localTypes := map[string][]string{}
		defs := map[string]ast.Expr{}
		var send *ast.CallExpr
		nsend := 0
		ast.Inspect(fd.Body, func(n ast.Node) bool {
			switch s := n.(type) {
			case *ast.TypeSpec:
				if st, ok := s.Type.(*ast.StructType); ok {
					var names []string
					for _, f := range st.Fields.List {
						for _, n := range f.Names {
							names = append(names, n.Name)
						}
					}
					localTypes[s.Name.Name] = names
				}
			case *ast.AssignStmt:
				if len(s.Lhs) == 1 && len(s.Rhs) == 1 {
					if id, ok := s.Lhs[0].(*ast.Ident); ok {
						if _, dup := defs[id.Name]; dup {
							defs[id.Name] = nil
						} else {
							defs[id.Name] = s.Rhs[0]
						}
					}
				}
			case *ast.CallExpr:
				if exprString(s.Fun) == api.send {
					send = s
					nsend++
				}
			}
			return true
		})
		if send == nil || nsend != 1 || len(send.Args) != 3 {
			a.u.fail("%s: not exactly one %s(target, flags, attrs) call", api.fn, api.send)
			continue
		}
		flag, ok := pi.exprInt(send.Args[1])
		if !ok {
			a.u.fail("%s: flags argument is not a constant at %s", api.fn, pi.pos(send))
			continue
		}
		val := attrUnparen(send.Args[2])
		if id, ok := val.(*ast.Ident); ok && defs[id.Name] != nil {
			val = attrUnparen(defs[id.Name])
		}
		if ue, ok := val.(*ast.UnaryExpr); ok && ue.Op == token.AND {
			val = attrUnparen(ue.X)
		}
		var fields []string
		if cl, ok := val.(*ast.CompositeLit); ok {
			tn := typeName(cl.Type)
			names, local := localTypes[tn]
			for i, el := range cl.Elts {
				key := ""
				v := el
				if kv, ok := el.(*ast.KeyValueExpr); ok {
					key, v = exprString(kv.Key), kv.Value
				} else if local && i < len(names) {
					key = names[i]
				} else {
					a.u.fail("%s: positional element of a non-local type %s at %s", api.fn, tn, pi.pos(el))
				}
				f := a.fact(api.fn+"."+key, v, baseOK)
				fields = append(fields, fmt.Sprintf("(%s, %s)", leanStr(key), f.lean()))
			}
			if local && len(cl.Elts) != len(names) {
				a.u.fail("%s: literal of %s has %d of %d fields at %s", api.fn, tn, len(cl.Elts), len(names), pi.pos(cl))
			}
			if !local && tn != "FileStat" {
				a.u.fail("%s: attrs literal of unknown type %s at %s", api.fn, tn, pi.pos(cl))
			}
		} else {
			f := a.fact(api.fn, val, baseOK)
			fields = append(fields, fmt.Sprintf("(\"\", %s)", f.lean()))
		}
		a.u.pf("-- source: %s\n", pi.pos(fd))
		rows = append(rows, fmt.Sprintf("  (%s, %d, [%s])", leanStr(api.lean), flag, strings.Join(fields, ", ")))
	}
	a.u.pf("def clientSetters : List (String × Nat × List (String × ConvFact)) := [\n%s]\n", strings.Join(rows, ",\n"))
}

func extractAttrConv(x *extractor) {
	u := x.newUnit("AttrConv")
	a := &attrConvX{pi: x.root, u: u}
	u.pf("import Sftp.Model.AttrConv\nnamespace Sftp.G\nopen Sftp\n\n")
	m := a.timeDecode("ModTime", "Mtime")
	u.pf("def modTime : TimeDecode := %s\n", m)
	m = a.timeDecode("AccessTime", "Atime")
	u.pf("def accessTime : TimeDecode := %s\n\n", m)
	a.clientInfo()
	a.statFields()
	a.applyArgs("sshFxpSetstatPacket.respond", "setstatArgs")
	a.applyArgs("sshFxpFsetstatPacket.respond", "fsetstatArgs")
	u.pf("\n")
	a.clientSetters()
	u.pf("\nend Sftp.G\n")
}
