package main

import (
	"go/ast"
	"strings"
)

func init() { extractors = append(extractors, extractAllocHandles) }

// extractAllocHandles: facts of allocator.go / packet-manager.go (C18) and of the handle tables
// of both servers (C11), in the shape of Sftp.Alloc.Cfg and Sftp.Handles.Cfg.
func extractAllocHandles(x *extractor) {
	u := x.newUnit("AllocHandles")
	pi := x.root
	u.pf("import Sftp.Model.Alloc\nimport Sftp.Model.Handles\nnamespace Sftp.G\n\n")

	body := func(name string) string {
		fd := pi.funcDecl(name)
		if fd == nil {
			u.fail("%s not found", name)
			return ""
		}
		return pi.bodyText(fd)
	}
	before := func(s, a, b string) bool { // a occurs, b occurs, and the first a precedes the first b
		i, j := strings.Index(s, a), strings.Index(s, b)
		return i >= 0 && j >= 0 && i < j
	}

	// ---- allocator ----
	getPage := body("allocator.GetPage")
	release := body("allocator.ReleasePages")
	free := body("allocator.Free")
	maybeSend := body("packetManager.maybeSendPackets")
	marksUsed := strings.Contains(getPage, "a.used[requestOrderID] = append(a.used[requestOrderID], result)")
	pops := strings.Contains(getPage, "result = a.available[truncLength]") && strings.Contains(getPage, "a.available = a.available[:truncLength]") &&
		strings.Contains(getPage, "truncLength := len(a.available) - 1")
	freshWhenEmpty := strings.Contains(getPage, "if result == nil { result = make([]byte, maxMsgLength) }")
	deletesKey := strings.Contains(release, "delete(a.used, requestOrderID)") &&
		strings.Contains(release, "a.available = append(a.available, used...)")
	freeResets := strings.Contains(free, "a.available = nil") && strings.Contains(free, "a.used = make(map[uint32][][]byte)")
	relAfterSend := before(maybeSend, "s.sender.sendPacket(out.(encoding.BinaryMarshaler))", "s.alloc.ReleasePages(in.orderID())")
	locked := true
	for _, b := range []string{getPage, release, free} {
		if !strings.HasPrefix(b, "{ a.Lock() defer a.Unlock()") {
			locked = false
		}
	}
	if !freshWhenEmpty {
		u.fail("allocator.GetPage: the fresh-page fallback `if result == nil { result = make([]byte, maxMsgLength) }` was not found")
	}
	if !freeResets {
		u.fail("allocator.Free: does not reset both tables")
	}
	if !locked {
		u.fail("allocator: GetPage/ReleasePages/Free do not all start with a.Lock(); defer a.Unlock()")
	}
	pageSize, _ := pi.constInt("maxMsgLength")
	maxTx, _ := pi.constInt("defaultMaxTxPacket")
	// getDataSlice: clamp and page use
	gds := body("sshFxpReadPacket.getDataSlice")
	clamp := strings.Contains(gds, "dataLen := p.Len if dataLen > maxTxPacket { dataLen = maxTxPacket }")
	if !clamp {
		u.fail("getDataSlice: the clamp `if dataLen > maxTxPacket { dataLen = maxTxPacket }` was not found")
	}
	// a READ longer than a page must not slice a page beyond its size
	pageGuard := strings.Contains(gds, "if alloc != nil && dataLen+dataHeaderLen <= maxMsgLength {") ||
		strings.Contains(gds, "if alloc != nil && dataLen <= maxMsgLength")
	u.pf("-- source: allocator.go, packet-manager.go maybeSendPackets, packet.go getDataSlice\n")
	u.pf("def allocCfg : Sftp.Alloc.Cfg := { releaseAfterSend := %s, getPageMarksUsed := %s, popRemovesFromAvailable := %s, releaseDeletesKey := %s, reuse := true, pageSize := %d, maxTx := %d }\n",
		leanBool(relAfterSend), leanBool(marksUsed), leanBool(pops), leanBool(deletesKey), pageSize, maxTx)
	u.pf("/-- getDataSlice takes a page only when the clamped READ length fits one (otherwise a plain allocation) -/\n")
	u.pf("def allocPageGuard : Bool := %s\n", leanBool(pageGuard))
	// both receive loops lend the page for the NEXT order id; handlers use the request's own order id
	recvOS := strings.Contains(body("Server.Serve"), "svr.serverConn.recvPacket(svr.pktMgr.getNextOrderID())")
	recvRS := strings.Contains(body("RequestServer.serveLoop"), "rs.serverConn.recvPacket(rs.pktMgr.getNextOrderID())")
	nextID := strings.Contains(body("packetManager.getNextOrderID"), "return s.packetCount + 1") &&
		strings.Contains(body("packetManager.newOrderID"), "s.packetCount++ return s.packetCount")
	u.pf("def allocRecvUsesNextOrderID : Bool := %s\n", leanBool(recvOS && recvRS && nextID))
	freeOS := strings.Contains(body("Server.Serve"), "defer func() { if svr.pktMgr.alloc != nil { svr.pktMgr.alloc.Free() } }()")
	freeRS := strings.Contains(body("RequestServer.Serve"), "defer func() { if rs.pktMgr.alloc != nil { rs.pktMgr.alloc.Free() } }()")
	u.pf("def allocFreedWhenServeReturns : Bool := %s\n\n", leanBool(freeOS && freeRS))

	// ---- handle tables ----
	closeHandle := body("Server.closeHandle")
	closeRequest := body("RequestServer.closeRequest")
	delOS := before(closeHandle, "delete(svr.openFiles, handle)", "return f.Close()") && strings.Contains(closeHandle, "return EBADF")
	delRS := before(closeRequest, "delete(rs.openRequests, handle)", "return r.close()") && strings.Contains(closeRequest, "return EBADF")
	pw := body("RequestServer.packetWorker")
	failedOpen := strings.Count(pw, "if _, ok := rpkt.(*sshFxpHandlePacket); !ok { rs.closeRequest(handle) }") == 2
	allocBefore := before(pw, "handle := rs.nextRequest(request) rpkt = request.opendir(rs.Handlers, pkt)", "zzzz-never") ||
		(strings.Contains(pw, "handle := rs.nextRequest(request) rpkt = request.opendir(rs.Handlers, pkt)") &&
			strings.Contains(pw, "handle := rs.nextRequest(request) rpkt = request.open(rs.Handlers, pkt)"))
	serveOS := body("Server.Serve")
	sweepOS := strings.Contains(serveOS, "for handle, file := range svr.openFiles {") && strings.Contains(serveOS, "file.Close() }") &&
		before(serveOS, "wg.Wait()", "for handle, file := range svr.openFiles {")
	serveRS := body("RequestServer.Serve")
	sweepRS := strings.Contains(serveRS, "for handle, req := range rs.openRequests {") && strings.Contains(serveRS, "delete(rs.openRequests, handle) req.close() }") &&
		before(serveRS, "wg.Wait()", "for handle, req := range rs.openRequests {")
	terrRS := before(serveRS, "req.transferError(err)", "delete(rs.openRequests, handle) req.close()")
	// the counters are only ever incremented
	mono := func(field string) bool {
		n, incs := 0, 0
		for _, f := range pi.files {
			ast.Inspect(f, func(m ast.Node) bool {
				switch s := m.(type) {
				case *ast.IncDecStmt:
					if strings.HasSuffix(pi.nodeText(s.X), "."+field) {
						n++
						if s.Tok.String() == "++" {
							incs++
						}
					}
				case *ast.AssignStmt:
					for _, l := range s.Lhs {
						if strings.HasSuffix(pi.nodeText(l), "."+field) {
							n += 100
						}
					}
				}
				return true
			})
		}
		return n == incs && incs >= 1
	}
	monoOK := mono("handleCount")
	nextH := body("Server.nextHandle")
	nextR := body("RequestServer.nextRequest")
	itoa := strings.Contains(nextH, "svr.handleCount++ handle := strconv.Itoa(svr.handleCount) svr.openFiles[handle] = f") &&
		strings.Contains(nextR, "rs.handleCount++ r.handle = strconv.Itoa(rs.handleCount) rs.openRequests[r.handle] = r")
	if !itoa {
		u.fail("nextHandle/nextRequest: handle is not strconv.Itoa of the pre-incremented counter")
	}
	// os-backed open: nextHandle only after a successful openfile
	openResp := body("sshFxpOpenPacket.respond")
	osAllocAfter := before(openResp, "f, err := svr.openfile(", "handle := svr.nextHandle(f)") && before(openResp, "if err != nil { return statusFromError(p.ID, err) } handle := svr.nextHandle(f)", "zzzz") ||
		strings.Contains(openResp, "if err != nil { return statusFromError(p.ID, err) } handle := svr.nextHandle(f)")
	reqClose := body("Request.close")
	cancels := strings.Contains(reqClose, "if r.cancelCtx != nil { r.cancelCtx() }") && strings.Contains(body("requestFromPacket"), "request.ctx, request.cancelCtx = context.WithCancel(ctx)")
	u.pf("-- source: server.go closeHandle/nextHandle/Serve, request-server.go closeRequest/nextRequest/packetWorker/Serve, request.go close\n")
	u.pf("def handlesCfgRS : Sftp.Handles.Cfg := { deleteOnClose := %s, closeOnFailedOpen := %s, sweepClosesAll := %s, sweepNotifiesTransferError := %s, counterMonotone := %s, allocBeforeOpen := %s }\n",
		leanBool(delRS), leanBool(failedOpen), leanBool(sweepRS), leanBool(terrRS), leanBool(monoOK && itoa), leanBool(allocBefore))
	u.pf("def handlesCfgOS : Sftp.Handles.Cfg := { deleteOnClose := %s, closeOnFailedOpen := true, sweepClosesAll := %s, sweepNotifiesTransferError := false, counterMonotone := %s, allocBeforeOpen := %s }\n",
		leanBool(delOS), leanBool(sweepOS), leanBool(monoOK && itoa), leanBool(!osAllocAfter))
	u.pf("def requestCloseCancelsContext : Bool := %s\n", leanBool(cancels))
	u.pf("\nend Sftp.G\n")
}
