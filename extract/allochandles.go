package main

import (
	"go/ast"
	"go/token"
	"strings"
)

func init() { extractors = append(extractors, extractAllocHandles) }

// extractAllocHandles: facts of allocator.go / packet-manager.go (C18) and of the handle tables
// of both servers (C11), in the shape of Sftp.Alloc.Cfg and Sftp.Handles.Cfg.
func extractAllocHandles(x *extractor) {
	u := x.newUnit("AllocHandles")
	pi := x.root
	u.pf("import Sftp.Model.Alloc\nimport Sftp.Model.Handles\nnamespace Sftp.G\n\n")

	body := func(name string) string {
		fd := pi.funcDecl(name)
		if fd == nil {
			u.fail("%s not found", name)
			return ""
		}
		return pi.bodyText(fd)
	}
	before := func(s, a, b string) bool { // a occurs, b occurs, and the first a precedes the first b
		i, j := strings.Index(s, a), strings.Index(s, b)
		return i >= 0 && j >= 0 && i < j
	}

	// ---- allocator ----
	getPage := body("allocator.GetPage")
	release := body("allocator.ReleasePages")
	free := body("allocator.Free")
	maybeSend := body("packetManager.maybeSendPackets")
	marksUsed := strings.Contains(getPage, "a.used[requestOrderID] = append(a.used[requestOrderID], result)")
	pops := strings.Contains(getPage, "result = a.available[truncLength]") && strings.Contains(getPage, "a.available = a.available[:truncLength]") &&
		strings.Contains(getPage, "truncLength := len(a.available) - 1")
	freshWhenEmpty := strings.Contains(getPage, "if result == nil { result = make([]byte, maxMsgLength) }")
	deletesKey := strings.Contains(release, "delete(a.used, requestOrderID)") &&
		strings.Contains(release, "a.available = append(a.available, used...)")
	freeResets := strings.Contains(free, "a.available = nil") && strings.Contains(free, "a.used = make(map[uint32][][]byte)")
	relAfterSend := before(maybeSend, "s.sender.sendPacket(out.(encoding.BinaryMarshaler))", "s.alloc.ReleasePages(in.orderID())")
	locked := true
	for _, b := range []string{getPage, release, free} {
		if !strings.HasPrefix(b, "{ a.Lock() defer a.Unlock()") {
			locked = false
		}
	}
	if !freshWhenEmpty {
		u.fail("allocator.GetPage: the fresh-page fallback `if result == nil { result = make([]byte, maxMsgLength) }` was not found")
	}
	if !freeResets {
		u.fail("allocator.Free: does not reset both tables")
	}
	if !locked {
		u.fail("allocator: GetPage/ReleasePages/Free do not all start with a.Lock(); defer a.Unlock()")
	}
	pageSize, _ := pi.constInt("maxMsgLength")
	maxTx, _ := pi.constInt("defaultMaxTxPacket")
	// getDataSlice: clamp and page use
	gds := body("sshFxpReadPacket.getDataSlice")
	clamp := strings.Contains(gds, "dataLen := p.Len if dataLen > maxTxPacket { dataLen = maxTxPacket }")
	if !clamp {
		u.fail("getDataSlice: the clamp `if dataLen > maxTxPacket { dataLen = maxTxPacket }` was not found")
	}
	// a READ longer than a page must not slice a page beyond its size
	pageGuard := strings.Contains(gds, "if alloc != nil && dataLen+dataHeaderLen <= maxMsgLength {") ||
		strings.Contains(gds, "if alloc != nil && dataLen <= maxMsgLength")
	u.pf("-- source: allocator.go, packet-manager.go maybeSendPackets, packet.go getDataSlice\n")
	u.pf("def allocCfg : Sftp.Alloc.Cfg := { releaseAfterSend := %s, getPageMarksUsed := %s, popRemovesFromAvailable := %s, releaseDeletesKey := %s, reuse := true, pageSize := %d, maxTx := %d }\n",
		leanBool(relAfterSend), leanBool(marksUsed), leanBool(pops), leanBool(deletesKey), pageSize, maxTx)
	u.pf("/-- getDataSlice takes a page only when the clamped READ length fits one (otherwise a plain allocation) -/\n")
	u.pf("def allocPageGuard : Bool := %s\n", leanBool(pageGuard))
	// both receive loops lend the page for the NEXT order id; handlers use the request's own order id
	recvOS := strings.Contains(body("Server.Serve"), "svr.serverConn.recvPacket(svr.pktMgr.getNextOrderID())")
	recvRS := strings.Contains(body("RequestServer.serveLoop"), "rs.serverConn.recvPacket(rs.pktMgr.getNextOrderID())")
	nextID := strings.Contains(body("packetManager.getNextOrderID"), "return s.packetCount + 1") &&
		strings.Contains(body("packetManager.newOrderID"), "s.packetCount++ return s.packetCount")
	u.pf("def allocRecvUsesNextOrderID : Bool := %s\n", leanBool(recvOS && recvRS && nextID))
	freeOS := strings.Contains(body("Server.Serve"), "defer func() { if svr.pktMgr.alloc != nil { svr.pktMgr.alloc.Free() } }()")
	freeRS := strings.Contains(body("RequestServer.Serve"), "defer func() { if rs.pktMgr.alloc != nil { rs.pktMgr.alloc.Free() } }()")
	u.pf("def allocFreedWhenServeReturns : Bool := %s\n\n", leanBool(freeOS && freeRS))

	// ---- handle tables ----
	closeHandle := body("Server.closeHandle")
	closeRequest := body("RequestServer.closeRequest")
	delOS := before(closeHandle, "delete(svr.openFiles, handle)", "return f.Close()") && strings.Contains(closeHandle, "return EBADF")
	delRS := before(closeRequest, "delete(rs.openRequests, handle)", "return r.close()") && strings.Contains(closeRequest, "return EBADF")
	pw := body("RequestServer.packetWorker")
	failedOpen := strings.Count(pw, "if _, ok := rpkt.(*sshFxpHandlePacket); !ok { rs.closeRequest(handle) }") == 2
	allocBefore := before(pw, "handle := rs.nextRequest(request) rpkt = request.opendir(rs.Handlers, pkt)", "zzzz-never") ||
		(strings.Contains(pw, "handle := rs.nextRequest(request) rpkt = request.opendir(rs.Handlers, pkt)") &&
			strings.Contains(pw, "handle := rs.nextRequest(request) rpkt = request.open(rs.Handlers, pkt)"))
	// The final sweep of Serve, read off the AST of `for k, v := range <table>` (after wg.Wait()):
	//   closes   the loop body has the statement `v.close()` / `v.Close()` at its top level
	//   deletes  … and the statement `delete(<table>, k)`
	//   notifies … and the statement `v.transferError(err)` in front of the close
	serveOS := body("Server.Serve")
	swOS := ahSweep(pi, u, "Server.Serve", "svr.openFiles", "Close")
	sweepOS := swOS.closes && before(serveOS, "wg.Wait()", "range svr.openFiles {")
	serveRS := body("RequestServer.Serve")
	swRS := ahSweep(pi, u, "RequestServer.Serve", "rs.openRequests", "close")
	sweepRS := swRS.closes && before(serveRS, "wg.Wait()", "range rs.openRequests {")
	terrRS := swRS.notifiesBeforeClose
	if swOS.notifies || strings.Contains(serveOS, "ransferError") {
		u.fail("Server.Serve: mentions a transfer error notification (the os-backed server has none)")
	}
	// Request.transferError: which objects are told
	notifyRS := ahNotifyKinds(pi, u)
	// packetWorker `case hasHandle`: is every request.call behind `!request.servesPacket(pkt)`?
	useKindRS := ahUseKindChecked(pi, u)
	useKindOS := false
	if strings.Contains(body("handlePacket"), "servesPacket(") {
		u.fail("handlePacket: mentions servesPacket (the os-backed server has no kind check in front of the file call)")
		useKindOS = true
	}
	// the counters are only ever incremented
	mono := func(field string) bool {
		n, incs := 0, 0
		for _, f := range pi.files {
			ast.Inspect(f, func(m ast.Node) bool {
				switch s := m.(type) {
				case *ast.IncDecStmt:
					if strings.HasSuffix(pi.nodeText(s.X), "."+field) {
						n++
						if s.Tok.String() == "++" {
							incs++
						}
					}
				case *ast.AssignStmt:
					for _, l := range s.Lhs {
						if strings.HasSuffix(pi.nodeText(l), "."+field) {
							n += 100
						}
					}
				}
				return true
			})
		}
		return n == incs && incs >= 1
	}
	monoOK := mono("handleCount")
	nextH := body("Server.nextHandle")
	nextR := body("RequestServer.nextRequest")
	itoa := strings.Contains(nextH, "svr.handleCount++ handle := strconv.Itoa(svr.handleCount) svr.openFiles[handle] = f") &&
		strings.Contains(nextR, "rs.handleCount++ r.handle = strconv.Itoa(rs.handleCount) rs.openRequests[r.handle] = r")
	if !itoa {
		u.fail("nextHandle/nextRequest: handle is not strconv.Itoa of the pre-incremented counter")
	}
	// os-backed open: nextHandle only after a successful openfile
	openResp := body("sshFxpOpenPacket.respond")
	osAllocAfter := before(openResp, "f, err := svr.openfile(", "handle := svr.nextHandle(f)") && before(openResp, "if err != nil { return statusFromError(p.ID, err) } handle := svr.nextHandle(f)", "zzzz") ||
		strings.Contains(openResp, "if err != nil { return statusFromError(p.ID, err) } handle := svr.nextHandle(f)")
	reqClose := body("Request.close")
	cancels := strings.Contains(reqClose, "if r.cancelCtx != nil { r.cancelCtx() }") && strings.Contains(body("requestFromPacket"), "request.ctx, request.cancelCtx = context.WithCancel(ctx)")
	u.pf("-- source: server.go closeHandle/nextHandle/Serve, request-server.go closeRequest/nextRequest/packetWorker/Serve, request.go close\n")
	u.pf("def handlesCfgRS : Sftp.Handles.Cfg := { deleteOnClose := %s, closeOnFailedOpen := %s, sweepClosesAll := %s, sweepNotifiesTransferError := %s, counterMonotone := %s, allocBeforeOpen := %s, sweepEmptiesTable := %s, notifyKinds := %s, useKindChecked := %s }\n",
		leanBool(delRS), leanBool(failedOpen), leanBool(sweepRS), leanBool(terrRS), leanBool(monoOK && itoa), leanBool(allocBefore),
		leanBool(swRS.deletes), notifyRS, leanBool(useKindRS))
	u.pf("def handlesCfgOS : Sftp.Handles.Cfg := { deleteOnClose := %s, closeOnFailedOpen := true, sweepClosesAll := %s, sweepNotifiesTransferError := false, counterMonotone := %s, allocBeforeOpen := %s, sweepEmptiesTable := %s, notifyKinds := [], useKindChecked := %s }\n",
		leanBool(delOS), leanBool(sweepOS), leanBool(monoOK && itoa), leanBool(!osAllocAfter), leanBool(swOS.deletes), leanBool(useKindOS))
	u.pf("def requestCloseCancelsContext : Bool := %s\n", leanBool(cancels))
	u.pf("\nend Sftp.G\n")
}

// ---- handle tables: AST matchers of the three facts the text matchers above cannot separate ----

type ahSweepFacts struct {
	found, closes, deletes, notifies, notifiesBeforeClose bool
}

// ahSweep reads the loop `for k, v := range <table> { … }` at the top level of fn's body.
func ahSweep(pi *pkgInfo, u *unit, fn, table, closeName string) ahSweepFacts {
	var f ahSweepFacts
	fd := pi.funcDecl(fn)
	if fd == nil || fd.Body == nil {
		return f // already reported by body()
	}
	var loop *ast.RangeStmt
	for _, s := range fd.Body.List {
		if r, ok := s.(*ast.RangeStmt); ok && pi.nodeText(r.X) == table {
			if loop != nil {
				u.fail("%s: more than one loop over %s at %s", fn, table, pi.pos(r))
			}
			loop = r
		}
	}
	if loop == nil {
		return f
	}
	f.found = true
	k, v := "", ""
	if loop.Key != nil {
		k = pi.nodeText(loop.Key)
	}
	if loop.Value != nil {
		v = pi.nodeText(loop.Value)
	}
	closeAt, notifyAt := -1, -1
	for i, s := range loop.Body.List {
		switch pi.nodeText(s) {
		case v + "." + closeName + "()":
			if v != "" && closeAt < 0 {
				closeAt = i
			}
		case "delete(" + table + ", " + k + ")":
			if k != "" && k != "_" {
				f.deletes = true
			}
		case v + ".transferError(err)":
			if v != "" && notifyAt < 0 {
				notifyAt = i
			}
		}
	}
	f.closes = closeAt >= 0
	f.notifies = notifyAt >= 0
	f.notifiesBeforeClose = notifyAt >= 0 && (closeAt < 0 || notifyAt < closeAt)
	// anything else in the function that empties or replaces the table, or a delete that is not the plain
	// top-level statement of the loop, is not a recognised shape
	ast.Inspect(fd.Body, func(n ast.Node) bool {
		switch t := n.(type) {
		case *ast.AssignStmt:
			for _, l := range t.Lhs {
				if pi.nodeText(l) == table {
					u.fail("%s: assigns %s at %s", fn, table, pi.pos(t))
				}
			}
		case *ast.CallExpr:
			name := exprString(t.Fun)
			if (name == "delete" || name == "clear") && len(t.Args) >= 1 && pi.nodeText(t.Args[0]) == table {
				if !(name == "delete" && f.deletes && pi.nodeText(t) == "delete("+table+", "+k+")" && ahIsTopLevelOf(loop, t)) {
					u.fail("%s: %s on %s outside the recognised sweep statement at %s", fn, name, table, pi.pos(t))
				}
			}
			if strings.HasSuffix(name, ".transferError") && !(f.notifies && ahIsTopLevelOf(loop, t)) {
				u.fail("%s: transferError call outside the recognised sweep statement at %s", fn, pi.pos(t))
			}
		}
		return true
	})
	return f
}

// ahIsTopLevelOf: is the call the expression of one of the loop body's own statements?
func ahIsTopLevelOf(loop *ast.RangeStmt, c *ast.CallExpr) bool {
	for _, s := range loop.Body.List {
		if es, ok := s.(*ast.ExprStmt); ok && es.X == c {
			return true
		}
	}
	return false
}

// ahNotifyKinds: Request.transferError as
//
//	if err == nil { return }
//	a, b, c := r.getAllReaderWriters()          (state.getAllReaderWriters: `return s.f1, s.f2, s.f3`)
//	if t, ok := X.(TransferError); ok { t.TransferError(err) }   …
//
// with X one of the tuple's variables, `r.<field>` / `r.state.<field>`, or `r.getListerAt()` (`return s.listerAt`).
// Result: the Lean list of the kinds told, in the order reader, writer, readerWriter, lister.
func ahNotifyKinds(pi *pkgInfo, u *unit) string {
	kindOf := map[string]string{"readerAt": ".reader", "writerAt": ".writer", "writerAtReaderAt": ".readerWriter", "listerAt": ".lister"}
	fd := pi.funcDecl("Request.transferError")
	if fd == nil || fd.Body == nil {
		u.fail("Request.transferError not found")
		return "[]"
	}
	r := ""
	if fd.Recv != nil && len(fd.Recv.List) == 1 && len(fd.Recv.List[0].Names) == 1 {
		r = fd.Recv.List[0].Names[0].Name
	}
	errName := ""
	if fd.Type.Params != nil && len(fd.Type.Params.List) == 1 && len(fd.Type.Params.List[0].Names) == 1 {
		errName = fd.Type.Params.List[0].Names[0].Name
	}
	if r == "" || errName == "" {
		u.fail("Request.transferError: receiver / parameter not named at %s", pi.pos(fd))
		return "[]"
	}
	// accessor → the state fields it returns, in order
	accessor := func(name string) []string {
		g := pi.funcDecl("state." + name)
		if g == nil || g.Body == nil || len(g.Body.List) == 0 {
			return nil
		}
		s := ""
		if g.Recv != nil && len(g.Recv.List) == 1 && len(g.Recv.List[0].Names) == 1 {
			s = g.Recv.List[0].Names[0].Name
		}
		rt, ok := g.Body.List[len(g.Body.List)-1].(*ast.ReturnStmt)
		if !ok || s == "" {
			return nil
		}
		// the statements in front may only take the lock
		for _, st := range g.Body.List[:len(g.Body.List)-1] {
			switch pi.nodeText(st) {
			case s + ".mu.RLock()", "defer " + s + ".mu.RUnlock()", s + ".mu.Lock()", "defer " + s + ".mu.Unlock()":
			default:
				return nil
			}
		}
		var out []string
		for _, e := range rt.Results {
			t := pi.nodeText(e)
			if !strings.HasPrefix(t, s+".") || kindOf[strings.TrimPrefix(t, s+".")] == "" {
				return nil
			}
			out = append(out, strings.TrimPrefix(t, s+"."))
		}
		return out
	}
	vars := map[string]string{} // local variable → state field
	told := map[string]bool{}
	guard := false
	for i, st := range fd.Body.List {
		txt := pi.nodeText(st)
		if i == 0 && txt == "if "+errName+" == nil { return }" {
			guard = true
			continue
		}
		if as, ok := st.(*ast.AssignStmt); ok && as.Tok == token.DEFINE && len(as.Rhs) == 1 {
			if c, ok := as.Rhs[0].(*ast.CallExpr); ok && len(c.Args) == 0 && strings.HasPrefix(exprString(c.Fun), r+".") {
				fields := accessor(strings.TrimPrefix(exprString(c.Fun), r+"."))
				if fields != nil && len(fields) == len(as.Lhs) {
					for j, l := range as.Lhs {
						vars[pi.nodeText(l)] = fields[j]
					}
					continue
				}
			}
			u.fail("Request.transferError: unrecognised definition at %s: %q", pi.pos(st), txt)
			continue
		}
		is, ok := st.(*ast.IfStmt)
		field := ""
		if ok && is.Else == nil && is.Init != nil {
			if as, ok := is.Init.(*ast.AssignStmt); ok && as.Tok == token.DEFINE && len(as.Lhs) == 2 && len(as.Rhs) == 1 {
				if ta, ok := as.Rhs[0].(*ast.TypeAssertExpr); ok && ta.Type != nil && pi.nodeText(ta.Type) == "TransferError" &&
					pi.nodeText(is.Cond) == pi.nodeText(as.Lhs[1]) && len(is.Body.List) == 1 &&
					pi.nodeText(is.Body.List[0]) == pi.nodeText(as.Lhs[0])+".TransferError("+errName+")" {
					x := pi.nodeText(ta.X)
					switch {
					case vars[x] != "":
						field = vars[x]
					case strings.HasPrefix(x, r+".state.") && kindOf[strings.TrimPrefix(x, r+".state.")] != "":
						field = strings.TrimPrefix(x, r+".state.")
					case strings.HasPrefix(x, r+".") && kindOf[strings.TrimPrefix(x, r+".")] != "":
						field = strings.TrimPrefix(x, r+".")
					case strings.HasPrefix(x, r+".") && strings.HasSuffix(x, "()"):
						if fs := accessor(strings.TrimSuffix(strings.TrimPrefix(x, r+"."), "()")); len(fs) == 1 {
							field = fs[0]
						}
					}
				}
			}
		}
		if field == "" {
			u.fail("Request.transferError: statement is not `if t, ok := X.(TransferError); ok { t.TransferError(%s) }` over a known object at %s: %q",
				errName, pi.pos(st), txt)
			continue
		}
		told[field] = true
	}
	if !guard {
		u.fail("Request.transferError: does not start with `if %s == nil { return }` (a session that ends without an error must tell nobody) at %s", errName, pi.pos(fd))
	}
	var parts []string
	for _, f := range []string{"readerAt", "writerAt", "writerAtReaderAt", "listerAt"} {
		if told[f] {
			parts = append(parts, kindOf[f])
		}
	}
	return "[" + strings.Join(parts, ", ") + "]"
}

// ahUseKindChecked: in packetWorker's `case hasHandle`, every `<request>.call(…)` sits in the else of an if-chain one
// of whose earlier conditions is `!<request>.servesPacket(pkt)` (true), or none does and servesPacket is not
// mentioned (false).  Anything in between is a failure (and false).
func ahUseKindChecked(pi *pkgInfo, u *unit) bool {
	fd := pi.funcDecl("RequestServer.packetWorker")
	if fd == nil || fd.Body == nil {
		return false // already reported by body()
	}
	var clause *ast.CaseClause
	bound := ""
	ast.Inspect(fd.Body, func(n ast.Node) bool {
		ts, ok := n.(*ast.TypeSwitchStmt)
		if !ok || clause != nil {
			return clause == nil
		}
		for _, c := range ts.Body.List {
			cc := c.(*ast.CaseClause)
			for _, e := range cc.List {
				if typeName(e) == "hasHandle" {
					if len(cc.List) != 1 {
						u.fail("packetWorker: `case hasHandle` shares its clause with other types at %s", pi.pos(cc))
					}
					clause = cc
					if as, ok := ts.Assign.(*ast.AssignStmt); ok && len(as.Lhs) == 1 {
						bound = pi.nodeText(as.Lhs[0])
					}
					return false
				}
			}
		}
		return true
	})
	if clause == nil {
		u.fail("packetWorker: no `case hasHandle` clause")
		return false
	}
	calls, guarded := 0, 0
	var walk func(list []ast.Stmt, negs []string)
	var walkStmt func(s ast.Stmt, negs []string)
	countCalls := func(n ast.Node, negs []string) {
		ast.Inspect(n, func(m ast.Node) bool {
			if _, isLit := m.(*ast.FuncLit); isLit {
				return false
			}
			c, ok := m.(*ast.CallExpr)
			if !ok {
				return true
			}
			fn := exprString(c.Fun)
			if strings.HasSuffix(fn, ".call") {
				calls++
				req := strings.TrimSuffix(fn, ".call")
				for _, g := range negs {
					if g == "!"+req+".servesPacket("+bound+")" {
						guarded++
						break
					}
				}
			}
			return true
		})
	}
	walkStmt = func(s ast.Stmt, negs []string) {
		switch t := s.(type) {
		case *ast.BlockStmt:
			walk(t.List, negs)
		case *ast.IfStmt:
			if t.Init != nil {
				countCalls(t.Init, negs)
			}
			countCalls(t.Cond, negs)
			walk(t.Body.List, negs) // inside the then-branch the condition holds: no new refusal
			if t.Else != nil {
				walkStmt(t.Else, append(append([]string{}, negs...), pi.nodeText(t.Cond)))
			}
		default:
			countCalls(s, negs)
		}
	}
	walk = func(list []ast.Stmt, negs []string) {
		for _, s := range list {
			walkStmt(s, negs)
		}
	}
	walk(clause.Body, nil)
	mentions := strings.Contains(pi.nodeText(clause), ".servesPacket(")
	switch {
	case calls == 0:
		u.fail("packetWorker: `case hasHandle` has no request.call at %s", pi.pos(clause))
		return false
	case guarded == calls:
		return true
	case guarded == 0 && !mentions:
		return false
	default:
		u.fail("packetWorker: `case hasHandle`: servesPacket is tested but %d of %d request.call sites are not in the else of `!request.servesPacket(%s)` at %s",
			calls-guarded, calls, bound, pi.pos(clause))
		return false
	}
}
