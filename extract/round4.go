package main

// Round-4 source shapes that no other unit covers.  Four independent units (one Lean consumer each):
//
//	DecoderBounds  (Props/C18Decoders)  packet.go: the decoders bound every inner length by len() of what is left of the
//	                                    frame, never by cap(), and never widen a slice with a 3-index expression.
//	AllocCtor      (Props/C18AllocCtor) server.go / request-server.go / client.go: option constructors evaluate nothing
//	                                    outside the closure they return; every newAllocator() is per server.
//	RecvLifecycle  (Props/C04Close)     client.go / conn.go: the receiver goroutine signs off (wg.Done) after broadcastErr.
//	ConnLocks      (Props/C03Locks)     conn.go: which mutex object each c.Lock() selects (go/types field path), what is
//	                                    called while it is held.
//
// Helpers are prefixed r4 and shared by the four units; each unit is its own extractor (its own panic isolation).

import (
	"bytes"
	"fmt"
	"go/ast"
	"go/printer"
	"go/token"
	"go/types"
	"sort"
	"strings"
)

func init() {
	extractors = append(extractors, extractDecoderBounds, extractAllocCtor, extractRecvLifecycle, extractConnLocks)
}

// ---------------------------------------------------------------------------------------------------------------
// shared helpers

func r4FuncName(fd *ast.FuncDecl) string {
	if fd.Recv != nil && len(fd.Recv.List) == 1 {
		return recvName(fd.Recv.List[0].Type) + "." + fd.Name.Name
	}
	return fd.Name.Name
}

// r4Funcs: all function declarations with a body, sorted by name (source order must not matter).
func r4Funcs(pi *pkgInfo) []*ast.FuncDecl {
	var out []*ast.FuncDecl
	for _, f := range pi.files {
		for _, d := range f.Decls {
			if fd, ok := d.(*ast.FuncDecl); ok && fd.Body != nil {
				out = append(out, fd)
			}
		}
	}
	sort.SliceStable(out, func(i, j int) bool { return r4FuncName(out[i]) < r4FuncName(out[j]) })
	return out
}

func r4Pairs(rows [][2]string) string {
	parts := make([]string, len(rows))
	for i, r := range rows {
		parts[i] = "(" + leanStr(r[0]) + ", " + leanStr(r[1]) + ")"
	}
	return "[" + strings.Join(parts, ",\n   ") + "]"
}

func r4Triples(rows [][3]string) string {
	parts := make([]string, len(rows))
	for i, r := range rows {
		parts[i] = "(" + leanStr(r[0]) + ", " + leanStr(r[1]) + ", " + leanStr(r[2]) + ")"
	}
	return "[" + strings.Join(parts, ",\n   ") + "]"
}

func r4PairLists(rows []r4PairList) string {
	parts := make([]string, len(rows))
	for i, r := range rows {
		parts[i] = "(" + leanStr(r.name) + ", " + leanStrList(r.list) + ")"
	}
	return "[" + strings.Join(parts, ",\n   ") + "]"
}

type r4PairList struct {
	name string
	list []string
}

// r4Text prints a node with the identifiers of `ren` (by object) replaced by canonical names, whitespace normalised.
// Local renames of the renamed objects therefore do not change the text.
func r4Text(pi *pkgInfo, n ast.Node, ren map[types.Object]string) string {
	type saved struct {
		id  *ast.Ident
		old string
	}
	var undo []saved
	if len(ren) > 0 {
		ast.Inspect(n, func(m ast.Node) bool {
			id, ok := m.(*ast.Ident)
			if !ok {
				return true
			}
			obj := pi.info.Uses[id]
			if obj == nil {
				obj = pi.info.Defs[id]
			}
			if obj == nil {
				return true
			}
			if nn, ok := ren[obj]; ok && nn != id.Name {
				undo = append(undo, saved{id, id.Name})
				id.Name = nn
			}
			return true
		})
	}
	var buf bytes.Buffer
	printer.Fprint(&buf, pi.fset, n)
	for _, s := range undo {
		s.id.Name = s.old
	}
	return strings.Join(strings.Fields(buf.String()), " ")
}

func r4Obj(pi *pkgInfo, id *ast.Ident) types.Object {
	if o := pi.info.Uses[id]; o != nil {
		return o
	}
	return pi.info.Defs[id]
}

// r4Parents: child -> parent for every node below root.
func r4Parents(root ast.Node) map[ast.Node]ast.Node {
	par := map[ast.Node]ast.Node{}
	var stack []ast.Node
	ast.Inspect(root, func(n ast.Node) bool {
		if n == nil {
			stack = stack[:len(stack)-1]
			return true
		}
		if len(stack) > 0 {
			par[n] = stack[len(stack)-1]
		}
		stack = append(stack, n)
		return true
	})
	return par
}

func r4Within(outer, inner ast.Node) bool {
	return outer != nil && inner != nil && outer.Pos() <= inner.Pos() && inner.End() <= outer.End()
}

// r4Callee: the declared function / method a call refers to (nil for builtins, conversions, closures).
func r4Callee(pi *pkgInfo, c *ast.CallExpr) *types.Func {
	var id *ast.Ident
	switch f := ast.Unparen(c.Fun).(type) {
	case *ast.Ident:
		id = f
	case *ast.SelectorExpr:
		id = f.Sel
	default:
		return nil
	}
	fn, _ := pi.info.Uses[id].(*types.Func)
	return fn
}

func r4NamedOf(t types.Type) *types.Named {
	for {
		t = types.Unalias(t)
		if p, ok := t.(*types.Pointer); ok {
			t = p.Elem()
			continue
		}
		break
	}
	n, _ := t.(*types.Named)
	return n
}

// r4CalleeName: "Recv.name" for methods of this package, "pkg.Recv.name" / "pkg.name" for others, "" if unresolved.
func r4CalleeName(pi *pkgInfo, fn *types.Func) string {
	if fn == nil {
		return ""
	}
	q := ""
	if fn.Pkg() != nil && fn.Pkg() != pi.pkg {
		q = fn.Pkg().Name() + "."
	}
	if sig, ok := fn.Type().(*types.Signature); ok && sig.Recv() != nil {
		if n := r4NamedOf(sig.Recv().Type()); n != nil {
			return q + n.Obj().Name() + "." + fn.Name()
		}
		return q + "?." + fn.Name()
	}
	return q + fn.Name()
}

// r4FieldPath resolves the selection `T.name` the way the type checker does and returns the field steps on the way:
// (owner struct type name, field name) for each embedded / explicit field that is walked through, then the object found.
func r4FieldPath(pi *pkgInfo, t types.Type, name string) (steps [][2]string, obj types.Object) {
	obj, index, _ := types.LookupFieldOrMethod(t, true, pi.pkg, name)
	if obj == nil {
		return nil, nil
	}
	cur := t
	for i, ix := range index {
		if _, isFunc := obj.(*types.Func); isFunc && i == len(index)-1 {
			break
		}
		owner := "?"
		if n := r4NamedOf(cur); n != nil {
			owner = n.Obj().Name()
		}
		ct := types.Unalias(cur)
		if p, ok := ct.Underlying().(*types.Pointer); ok {
			ct = p.Elem()
		}
		st, ok := ct.Underlying().(*types.Struct)
		if !ok || ix >= st.NumFields() {
			return steps, obj
		}
		f := st.Field(ix)
		steps = append(steps, [2]string{owner, f.Name()})
		cur = f.Type()
	}
	return steps, obj
}

func r4IsByteSlice(t types.Type) bool {
	if t == nil {
		return false
	}
	s, ok := types.Unalias(t).Underlying().(*types.Slice)
	if !ok {
		return false
	}
	b, ok := types.Unalias(s.Elem()).Underlying().(*types.Basic)
	return ok && (b.Kind() == types.Byte || b.Kind() == types.Uint8)
}

func r4IsSlice(t types.Type) bool {
	if t == nil {
		return false
	}
	_, ok := types.Unalias(t).Underlying().(*types.Slice)
	return ok
}

// r4EndsInReturn: the statement list cannot fall through (last statement is a return).
func r4EndsInReturn(list []ast.Stmt) bool {
	if len(list) == 0 {
		return false
	}
	_, ok := list[len(list)-1].(*ast.ReturnStmt)
	return ok
}

// r4StmtLists: every statement list (block, case / comm clause body) below n, function literals included.
func r4StmtLists(n ast.Node) [][]ast.Stmt {
	var out [][]ast.Stmt
	ast.Inspect(n, func(m ast.Node) bool {
		switch b := m.(type) {
		case *ast.BlockStmt:
			out = append(out, b.List)
		case *ast.CaseClause:
			out = append(out, b.Body)
		case *ast.CommClause:
			out = append(out, b.Body)
		}
		return true
	})
	return out
}

// ---------------------------------------------------------------------------------------------------------------
// 1. DecoderBounds

// r4StripConv removes value conversions to the integer types that cannot truncate a frame-sized length.
func r4StripConv(pi *pkgInfo, e ast.Expr) ast.Expr {
	for {
		e = ast.Unparen(e)
		c, ok := e.(*ast.CallExpr)
		if !ok || len(c.Args) != 1 {
			return e
		}
		tv, ok := pi.info.Types[c.Fun]
		if !ok || !tv.IsType() {
			return e
		}
		b, ok := types.Unalias(tv.Type).Underlying().(*types.Basic)
		if !ok {
			return e
		}
		switch b.Kind() {
		case types.Uint32, types.Int64, types.Uint64, types.Int, types.Uint:
			e = c.Args[0]
		default:
			return e
		}
	}
}

// r4IsLenOf: e is (a conversion of) len(<the variable obj>).
func r4IsLenOf(pi *pkgInfo, e ast.Expr, obj types.Object) bool {
	c, ok := r4StripConv(pi, e).(*ast.CallExpr)
	if !ok || len(c.Args) != 1 {
		return false
	}
	f, ok := c.Fun.(*ast.Ident)
	if !ok || f.Name != "len" {
		return false
	}
	if _, isBuiltin := pi.info.Uses[f].(*types.Builtin); !isBuiltin {
		return false
	}
	id, ok := ast.Unparen(c.Args[0]).(*ast.Ident)
	return ok && r4Obj(pi, id) == obj
}

type r4SliceSite struct {
	fn, expr, guard string
}

func extractDecoderBounds(x *extractor) {
	u := x.newUnit("DecoderBounds")
	pi := x.root
	u.pf("namespace Sftp.G\n\n")

	var capUses [][2]string
	var sites []r4SliceSite
	var fnNames []string
	writeSlice, dataSlice := "", ""
	writeGuard, dataGuard := "", ""
	unguardedFns := map[string]*ast.FuncDecl{}
	firstPos := ""

	for _, fd := range r4Funcs(pi) {
		if fd.Name.Name != "UnmarshalBinary" && !strings.HasPrefix(fd.Name.Name, "unmarshal") {
			continue
		}
		name := r4FuncName(fd)
		fnNames = append(fnNames, name)
		if firstPos == "" {
			firstPos = pi.pos(fd)
		}
		// canonical names: the frame-bytes parameter is `b`, the receiver `p`
		ren := map[types.Object]string{}
		var bparam types.Object
		for _, f := range fd.Type.Params.List {
			for _, id := range f.Names {
				if o := pi.info.Defs[id]; o != nil && r4IsByteSlice(o.Type()) && bparam == nil {
					bparam = o
				}
			}
		}
		var recv types.Object
		if fd.Recv != nil && len(fd.Recv.List) == 1 && len(fd.Recv.List[0].Names) == 1 {
			recv = pi.info.Defs[fd.Recv.List[0].Names[0]]
		}
		clash := false
		ast.Inspect(fd, func(n ast.Node) bool {
			if id, ok := n.(*ast.Ident); ok {
				o := r4Obj(pi, id)
				if _, isVar := o.(*types.Var); isVar {
					if (id.Name == "b" && bparam != nil && o != bparam) || (id.Name == "p" && recv != nil && o != recv) {
						clash = true
					}
				}
			}
			return true
		})
		if !clash {
			if bparam != nil {
				ren[bparam] = "b"
			}
			if recv != nil {
				ren[recv] = "p"
			}
		}
		txt := func(n ast.Node) string { return r4Text(pi, n, ren) }
		par := r4Parents(fd)

		// (a) cap( … ) and 3-index slices
		ast.Inspect(fd.Body, func(n ast.Node) bool {
			switch e := n.(type) {
			case *ast.CallExpr:
				if id, ok := e.Fun.(*ast.Ident); ok && id.Name == "cap" {
					if _, isBuiltin := pi.info.Uses[id].(*types.Builtin); isBuiltin {
						capUses = append(capUses, [2]string{name, txt(e)})
					}
				}
			case *ast.SliceExpr:
				if e.Slice3 {
					capUses = append(capUses, [2]string{name, txt(e)})
				}
			}
			return true
		})

		// (b) slices with an upper bound on a slice operand: the bound must have been compared with len() of the operand
		ast.Inspect(fd.Body, func(n ast.Node) bool {
			se, ok := n.(*ast.SliceExpr)
			if !ok || se.High == nil {
				return true
			}
			if tv, ok := pi.info.Types[se.X]; !ok || !r4IsSlice(tv.Type) {
				return true // strings and arrays have no capacity beyond their length
			}
			g := r4FindGuard(pi, fd, par, se)
			gtxt := "UNGUARDED"
			if g != nil {
				gtxt = txt(g.Cond)
			} else {
				unguardedFns[name] = fd
			}
			sites = append(sites, r4SliceSite{name, txt(se), gtxt})
			return true
		})

		// (c) the data field of WRITE / DATA
		if name == "sshFxpWritePacket.UnmarshalBinary" || name == "sshFxpDataPacket.UnmarshalBinary" {
			var rhs []string
			ast.Inspect(fd.Body, func(n ast.Node) bool {
				as, ok := n.(*ast.AssignStmt)
				if !ok {
					return true
				}
				for i, l := range as.Lhs {
					sel, ok := l.(*ast.SelectorExpr)
					if !ok || sel.Sel.Name != "Data" {
						continue
					}
					id, ok := sel.X.(*ast.Ident)
					if !ok || recv == nil || r4Obj(pi, id) != recv {
						continue
					}
					if len(as.Lhs) == len(as.Rhs) {
						rhs = append(rhs, txt(as.Rhs[i]))
					} else {
						rhs = append(rhs, "?"+txt(as))
					}
				}
				return true
			})
			got := ""
			if len(rhs) == 1 && !strings.HasPrefix(rhs[0], "?") {
				got = rhs[0]
			} else {
				u.fail("%s (%s): expected exactly one plain assignment to the Data field, found %d: %v", name, pi.pos(fd), len(rhs), rhs)
			}
			// the comparison whose arm returns errShortPacket
			var guards []string
			ast.Inspect(fd.Body, func(n ast.Node) bool {
				is, ok := n.(*ast.IfStmt)
				if !ok || !r4EndsInReturn(is.Body.List) {
					return true
				}
				ret := is.Body.List[len(is.Body.List)-1].(*ast.ReturnStmt)
				for _, r := range ret.Results {
					if id, ok := r.(*ast.Ident); ok && id.Name == "errShortPacket" {
						guards = append(guards, txt(is.Cond))
					}
				}
				return true
			})
			guard := "UNGUARDED"
			if len(guards) == 1 {
				guard = guards[0]
			} else if len(guards) > 1 {
				guard = ""
				u.fail("%s (%s): more than one comparison returns errShortPacket: %v", name, pi.pos(fd), guards)
			}
			if name == "sshFxpWritePacket.UnmarshalBinary" {
				writeSlice, writeGuard = got, guard
			} else {
				dataSlice, dataGuard = got, guard
			}
		}
	}
	for _, want := range []string{"sshFxpWritePacket.UnmarshalBinary", "sshFxpDataPacket.UnmarshalBinary", "unmarshalStringSafe", "unmarshalUint32Safe"} {
		found := false
		for _, n := range fnNames {
			found = found || n == want
		}
		if !found {
			u.fail("decoder %s not found in package sftp", want)
		}
	}

	// callers of the functions that slice without a recognised guard (the unchecked primitives)
	var callers []r4PairList
	reachable := false
	var ung []string
	for n := range unguardedFns {
		ung = append(ung, n)
	}
	sort.Strings(ung)
	for _, n := range ung {
		target := pi.info.Defs[unguardedFns[n].Name]
		var who []string
		if unguardedFns[n].Recv != nil {
			who = append(who, "<method: reachable through interfaces>")
		}
		for _, fd := range r4Funcs(pi) {
			if fd == unguardedFns[n] {
				continue
			}
			uses := false
			ast.Inspect(fd.Body, func(m ast.Node) bool {
				if id, ok := m.(*ast.Ident); ok && target != nil && pi.info.Uses[id] == target {
					uses = true
				}
				return true
			})
			if uses {
				who = append(who, r4FuncName(fd))
			}
		}
		// package-level references (var f = unmarshalString)
		for _, f := range pi.files {
			for _, d := range f.Decls {
				if gd, ok := d.(*ast.GenDecl); ok {
					ast.Inspect(gd, func(m ast.Node) bool {
						if id, ok := m.(*ast.Ident); ok && target != nil && pi.info.Uses[id] == target {
							who = append(who, "<package>")
						}
						return true
					})
				}
			}
		}
		if len(who) > 0 {
			reachable = true
		}
		callers = append(callers, r4PairList{n, who})
	}

	boundByLen := len(capUses) == 0 && !reachable && len(u.errs) == 0 && len(sites) > 0

	u.pf("-- source: packet.go (first decoder at %s): every UnmarshalBinary / unmarshal* function of package sftp\n", firstPos)
	u.pf("def decoderFns : List String := %s\n\n", leanStrList(fnNames))
	u.pf("-- source: the same functions; every `cap(…)` call and every 3-index slice expression (function, expression);\n-- the frame-bytes parameter is printed as `b`, the receiver as `p`\n")
	u.pf("def decoderCapUses : List (String × String) := %s\n\n", r4Pairs(capUses))
	var rows [][3]string
	for _, s := range sites {
		rows = append(rows, [3]string{s.fn, s.expr, s.guard})
	}
	u.pf("-- source: the same functions; every slice expression with an upper bound on a slice operand\n-- (function, expression, the dominating `len` comparison that returns errShortPacket, or UNGUARDED)\n")
	u.pf("def decoderSliceSites : List (String × String × String) := %s\n\n", r4Triples(rows))
	u.pf("-- functions with an UNGUARDED site and the functions of the package (tests excluded) that refer to them\n")
	u.pf("def uncheckedDecoderCallers : List (String × List String) := %s\n\n", r4PairLists(callers))
	u.pf("-- no cap(), no 3-index slice, every bounded slice guarded by len() (or in a function nothing refers to), all shapes recognised\n")
	u.pf("def decodersBoundByLenOnly : Bool := %s\n\n", leanBool(boundByLen))
	u.pf("-- source: packet.go sshFxpWritePacket.UnmarshalBinary / sshFxpDataPacket.UnmarshalBinary, right-hand side of `p.Data = …`\n")
	u.pf("def writeDataSlice : String := %s\n", leanStr(writeSlice))
	u.pf("def dataDataSlice : String := %s\n", leanStr(dataSlice))
	u.pf("-- the comparison in the same two functions whose arm returns errShortPacket (UNGUARDED if there is none)\n")
	u.pf("def writeLengthGuard : String := %s\n", leanStr(writeGuard))
	u.pf("def dataLengthGuard : String := %s\n", leanStr(dataGuard))
	u.pf("\nend Sftp.G\n")
}

// r4FindGuard: an `if`/`else if` whose condition compares the slice's upper bound with len(operand), whose body returns
// errShortPacket, which dominates the slice expression (same statement list, earlier statement, every earlier arm of the
// chain returns), with no assignment to the operand or to the bound in between.
func r4FindGuard(pi *pkgInfo, fd *ast.FuncDecl, par map[ast.Node]ast.Node, se *ast.SliceExpr) *ast.IfStmt {
	xid, ok := ast.Unparen(se.X).(*ast.Ident)
	if !ok {
		return nil
	}
	xobj := r4Obj(pi, xid)
	if xobj == nil {
		return nil
	}
	hi := r4StripConv(pi, se.High)
	hiTxt := pi.nodeText(hi)
	if _, isConst := pi.exprInt(hi); isConst {
		hiTxt = "const:" + hiTxt
	}
	// objects the bound mentions
	hiObjs := map[types.Object]bool{}
	ast.Inspect(hi, func(n ast.Node) bool {
		if id, ok := n.(*ast.Ident); ok {
			if o, isVar := r4Obj(pi, id).(*types.Var); isVar {
				hiObjs[o] = true
			}
		}
		return true
	})
	sameBound := func(e ast.Expr) bool {
		c := r4StripConv(pi, e)
		t := pi.nodeText(c)
		if _, isConst := pi.exprInt(c); isConst {
			t = "const:" + t
		}
		return t == hiTxt
	}
	var found *ast.IfStmt
	ast.Inspect(fd.Body, func(n ast.Node) bool {
		is, ok := n.(*ast.IfStmt)
		if !ok || found != nil || is.Pos() >= se.Pos() {
			return true
		}
		be, ok := ast.Unparen(is.Cond).(*ast.BinaryExpr)
		if !ok {
			return true
		}
		shape := (be.Op == token.LSS && r4IsLenOf(pi, be.X, xobj) && sameBound(be.Y)) ||
			(be.Op == token.GTR && r4IsLenOf(pi, be.Y, xobj) && sameBound(be.X))
		if !shape || !r4EndsInReturn(is.Body.List) {
			return true
		}
		ret := is.Body.List[len(is.Body.List)-1].(*ast.ReturnStmt)
		short := false
		for _, r := range ret.Results {
			if id, ok := r.(*ast.Ident); ok && id.Name == "errShortPacket" {
				short = true
			}
		}
		if !short {
			return true
		}
		// chain top: follow `else if` links upwards; every arm above must return
		top := is
		for {
			p, ok := par[top].(*ast.IfStmt)
			if !ok || p.Else != top {
				break
			}
			if !r4EndsInReturn(p.Body.List) {
				return true
			}
			top = p
		}
		// the slice must sit in a later statement of the list that holds the chain
		var list []ast.Stmt
		switch b := par[top].(type) {
		case *ast.BlockStmt:
			list = b.List
		case *ast.CaseClause:
			list = b.Body
		case *ast.CommClause:
			list = b.Body
		default:
			return true
		}
		idx, at := -1, -1
		for i, s := range list {
			if s == ast.Stmt(top) {
				idx = i
			}
			if r4Within(s, se) {
				at = i
			}
		}
		if idx < 0 || at <= idx {
			return true
		}
		// no assignment to the operand or to the bound between the comparison and the slice; inside a loop that does
		// not contain the guard, nowhere in that loop
		var loop ast.Node
		for p := par[ast.Node(se)]; p != nil; p = par[p] {
			switch p.(type) {
			case *ast.ForStmt, *ast.RangeStmt:
				if !r4Within(p, is) {
					loop = p
				}
			}
		}
		dirty := false
		ast.Inspect(fd.Body, func(m ast.Node) bool {
			inWindow := func(n ast.Node) bool {
				if loop != nil && r4Within(loop, n) {
					return true
				}
				return n.Pos() > is.Cond.End() && n.Pos() < se.Pos()
			}
			touches := func(e ast.Expr) bool {
				e = ast.Unparen(e)
				if id, ok := e.(*ast.Ident); ok {
					o := r4Obj(pi, id)
					return o != nil && (o == xobj || hiObjs[o])
				}
				return pi.nodeText(e) == pi.nodeText(hi)
			}
			switch s := m.(type) {
			case *ast.AssignStmt:
				if !inWindow(s) {
					return true
				}
				for i, l := range s.Lhs {
					if touches(l) {
						// `b = b[:n]` (the guarded slice itself feeding the assignment) is fine
						if len(s.Lhs) == len(s.Rhs) && r4Within(s.Rhs[i], se) && loop == nil {
							continue
						}
						dirty = true
					}
				}
			case *ast.IncDecStmt:
				if inWindow(s) && touches(s.X) {
					dirty = true
				}
			case *ast.UnaryExpr:
				if s.Op == token.AND && inWindow(s) && touches(s.X) {
					dirty = true
				}
			case *ast.RangeStmt:
				if inWindow(s) && ((s.Key != nil && touches(s.Key)) || (s.Value != nil && touches(s.Value))) {
					dirty = true
				}
			}
			return true
		})
		if dirty {
			return true
		}
		found = is
		return true
	})
	return found
}

// ---------------------------------------------------------------------------------------------------------------
// 2. AllocCtor

// r4OptionCtor: a package-level function whose single result is a named func type called …Option.
func r4OptionCtor(pi *pkgInfo, fd *ast.FuncDecl) (optType string, ok bool) {
	if fd.Recv != nil || fd.Type.Results == nil || len(fd.Type.Results.List) != 1 || len(fd.Type.Results.List[0].Names) > 1 {
		return "", false
	}
	tv, found := pi.info.Types[fd.Type.Results.List[0].Type]
	if !found {
		return "", false
	}
	n, isNamed := types.Unalias(tv.Type).(*types.Named)
	if !isNamed || n.Obj().Pkg() != pi.pkg || !strings.HasSuffix(n.Obj().Name(), "Option") {
		return "", false
	}
	if _, isFunc := n.Underlying().(*types.Signature); !isFunc {
		return "", false
	}
	return n.Obj().Name(), true
}

func extractAllocCtor(x *extractor) {
	u := x.newUnit("AllocCtor")
	pi := x.root
	u.pf("namespace Sftp.G\n\n")

	serverCtors := map[string]bool{"NewServer": true, "NewRequestServer": true}
	ctors := map[string]*ast.FuncDecl{}
	for _, fd := range r4Funcs(pi) {
		if _, ok := r4OptionCtor(pi, fd); ok {
			ctors[fd.Name.Name] = fd
		}
	}
	// the closure an option constructor returns (nil if its body is not `…; return func(…) {…}`)
	returned := func(fd *ast.FuncDecl) *ast.FuncLit {
		if len(fd.Body.List) == 0 {
			return nil
		}
		rs, ok := fd.Body.List[len(fd.Body.List)-1].(*ast.ReturnStmt)
		if !ok || len(rs.Results) != 1 {
			return nil
		}
		fl, _ := ast.Unparen(rs.Results[0]).(*ast.FuncLit)
		return fl
	}

	// (a) option constructors: statements outside the returned closure
	var outer []r4PairList
	var globals []r4PairList
	var delegates [][2]string
	var names []string
	for n := range ctors {
		names = append(names, n)
	}
	sort.Strings(names)
	for _, n := range names {
		fd := ctors[n]
		var out []string
		fl := returned(fd)
		body := fd.Body.List
		if fl != nil {
			body = body[:len(body)-1]
		} else if len(body) > 0 {
			// `return OtherCtor(params…)`
			if rs, ok := body[len(body)-1].(*ast.ReturnStmt); ok && len(rs.Results) == 1 {
				if c, ok := ast.Unparen(rs.Results[0]).(*ast.CallExpr); ok {
					if fn := r4Callee(pi, c); fn != nil && fn.Pkg() == pi.pkg && ctors[fn.Name()] != nil && fn.Name() != n {
						plain := true
						for _, a := range c.Args {
							id, isId := ast.Unparen(a).(*ast.Ident)
							_, isConst := pi.exprInt(a)
							if isId {
								if v, isVar := r4Obj(pi, id).(*types.Var); !isVar || v.Parent() == pi.pkg.Scope() {
									plain = false
								}
							} else if !isConst {
								plain = false
							}
						}
						if plain {
							delegates = append(delegates, [2]string{n, fn.Name()})
							body = body[:len(body)-1]
						}
					}
				}
			}
		}
		for _, s := range body {
			out = append(out, pi.nodeText(s))
		}
		outer = append(outer, r4PairList{n, out})
		// package-level VARIABLES the closure reads or writes
		var gl []string
		if fl != nil {
			seen := map[string]bool{}
			ast.Inspect(fl, func(m ast.Node) bool {
				if id, ok := m.(*ast.Ident); ok {
					if v, isVar := pi.info.Uses[id].(*types.Var); isVar && !v.IsField() && v.Pkg() == pi.pkg && v.Parent() == pi.pkg.Scope() && !seen[v.Name()] {
						seen[v.Name()] = true
						gl = append(gl, v.Name())
					}
				}
				return true
			})
		}
		sort.Strings(gl)
		globals = append(globals, r4PairList{n, gl})
	}

	// (b) where allocators are created
	isAllocType := func(t types.Type) bool {
		n := r4NamedOf(t)
		return n != nil && n.Obj().Pkg() == pi.pkg && n.Obj().Name() == "allocator"
	}
	isCreation := func(n ast.Node) bool {
		switch e := n.(type) {
		case *ast.CallExpr:
			if fn := r4Callee(pi, e); fn != nil && fn.Pkg() == pi.pkg && fn.Name() == "newAllocator" {
				return true
			}
			if id, ok := e.Fun.(*ast.Ident); ok && id.Name == "new" && len(e.Args) == 1 {
				if tv, ok := pi.info.Types[e.Args[0]]; ok && tv.IsType() && isAllocType(tv.Type) {
					return true
				}
			}
		case *ast.CompositeLit:
			if tv, ok := pi.info.Types[e]; ok && isAllocType(tv.Type) {
				if _, isPtr := types.Unalias(tv.Type).(*types.Pointer); !isPtr {
					return true
				}
			}
		}
		return false
	}
	var sites [][2]string
	firstSite := ""
	for _, f := range pi.files {
		for _, d := range f.Decls {
			switch dd := d.(type) {
			case *ast.GenDecl:
				ast.Inspect(dd, func(m ast.Node) bool {
					if m != nil && isCreation(m) {
						sites = append(sites, [2]string{"<package>", "packageLevel"})
						if firstSite == "" {
							firstSite = pi.pos(m)
						}
					}
					return true
				})
			case *ast.FuncDecl:
				if dd.Body == nil || (dd.Recv == nil && dd.Name.Name == "newAllocator") {
					continue
				}
				par := r4Parents(dd)
				fl := (*ast.FuncLit)(nil)
				_, isCtor := ctors[dd.Name.Name]
				isCtor = isCtor && dd.Recv == nil
				if isCtor {
					fl = returned(dd)
				}
				ast.Inspect(dd.Body, func(m ast.Node) bool {
					if m == nil || !isCreation(m) {
						return true
					}
					if firstSite == "" {
						firstSite = pi.pos(m)
					}
					// outermost enclosing function literal
					var outerLit *ast.FuncLit
					for p := par[m]; p != nil; p = par[p] {
						if l, ok := p.(*ast.FuncLit); ok {
							outerLit = l
						}
					}
					class := ""
					switch {
					case isCtor && fl != nil && outerLit == fl:
						class = "inClosure"
					case isCtor:
						class = "outsideClosure"
					case dd.Recv == nil && serverCtors[dd.Name.Name] && outerLit == nil:
						class = "inConstructor"
					default:
						class = "other"
						u.fail("%s (%s): an allocator is created in a function that is neither an option constructor nor NewServer / NewRequestServer", r4FuncName(dd), pi.pos(m))
					}
					sites = append(sites, [2]string{r4FuncName(dd), class})
					return true
				})
			}
		}
	}
	sort.SliceStable(sites, func(i, j int) bool { return sites[i][0] < sites[j][0] })

	// (c) what is stored into the `alloc` fields
	var assigns [][3]string
	fresh := func(scope ast.Node, e ast.Expr) string {
		e = ast.Unparen(e)
		if c, ok := e.(*ast.CallExpr); ok && isCreation(c) {
			return "freshCall"
		}
		if id, ok := e.(*ast.Ident); ok {
			obj := r4Obj(pi, id)
			origin := ""
			n := 0
			ast.Inspect(scope, func(m ast.Node) bool {
				as, ok := m.(*ast.AssignStmt)
				if !ok || len(as.Lhs) != len(as.Rhs) {
					return true
				}
				for i, l := range as.Lhs {
					if lid, ok := l.(*ast.Ident); ok && r4Obj(pi, lid) == obj {
						n++
						if as.Tok == token.DEFINE && isCreation(ast.Unparen(as.Rhs[i])) {
							origin = "freshLocal"
						}
					}
				}
				return true
			})
			if n == 1 && origin != "" {
				return origin
			}
		}
		return "other:" + pi.nodeText(e)
	}
	for _, fd := range r4Funcs(pi) {
		par := r4Parents(fd)
		ast.Inspect(fd.Body, func(m ast.Node) bool {
			innermost := func(n ast.Node) ast.Node {
				for p := par[n]; p != nil; p = par[p] {
					if l, ok := p.(*ast.FuncLit); ok {
						return l.Body
					}
				}
				return fd.Body
			}
			switch s := m.(type) {
			case *ast.AssignStmt:
				for i, l := range s.Lhs {
					sel, ok := l.(*ast.SelectorExpr)
					if !ok || sel.Sel.Name != "alloc" {
						continue
					}
					if v, isVar := pi.info.Uses[sel.Sel].(*types.Var); !isVar || !v.IsField() {
						continue
					}
					org := "other:" + pi.nodeText(s)
					if len(s.Lhs) == len(s.Rhs) {
						org = fresh(innermost(s), s.Rhs[i])
					}
					assigns = append(assigns, [3]string{r4FuncName(fd), r4FieldOwners(pi, sel), org})
				}
			case *ast.KeyValueExpr:
				if id, ok := s.Key.(*ast.Ident); ok && id.Name == "alloc" {
					if v, isVar := pi.info.Uses[id].(*types.Var); isVar && v.IsField() {
						assigns = append(assigns, [3]string{r4FuncName(fd), "literal.alloc", fresh(innermost(s), s.Value)})
					}
				}
			}
			return true
		})
	}

	perServer := len(sites) > 0 && len(u.errs) == 0
	for _, s := range sites {
		if s[1] != "inClosure" && s[1] != "inConstructor" {
			perServer = false
		}
	}
	for _, a := range assigns {
		if a[2] != "freshLocal" && a[2] != "freshCall" {
			perServer = false
		}
	}
	for _, n := range []string{"WithAllocator", "WithRSAllocator"} {
		if ctors[n] == nil {
			u.fail("option constructor %s not found", n)
			perServer = false
		}
	}

	u.pf("-- source: every creation of an allocator (newAllocator(), &allocator{…}, new(allocator)) outside newAllocator itself; first at %s\n", firstSite)
	u.pf("-- (function, inClosure = inside the func literal the option constructor returns | inConstructor = body of NewServer /\n-- NewRequestServer | outsideClosure = option constructor's own body | packageLevel)\n")
	u.pf("def allocCtorSites : List (String × String) := %s\n\n", r4Pairs(sites))
	u.pf("-- source: every assignment to a field named `alloc` (function, field path, origin of the value: freshLocal = a local\n-- defined once, in the same function literal, as `x := newAllocator()`; freshCall; other:<text>)\n")
	u.pf("def allocAssignSites : List (String × String × String) := %s\n\n", r4Triples(assigns))
	u.pf("def allocatorPerServer : Bool := %s\n\n", leanBool(perServer))
	u.pf("-- source: server.go, request-server.go, client.go: every function returning a …Option func type, with the statements\n-- of its body that are outside the returned closure (a final `return F(own parameters / constants)` with F another\n-- option constructor is listed in optionCtorDelegates instead)\n")
	u.pf("def optionCtorOuterStmts : List (String × List String) := %s\n", r4PairLists(outer))
	u.pf("def optionCtorDelegates : List (String × String) := %s\n\n", r4Pairs(delegates))
	u.pf("-- package-level variables the returned closure mentions\n")
	u.pf("def optionCtorGlobals : List (String × List String) := %s\n", r4PairLists(globals))
	u.pf("\nend Sftp.G\n")
}

// r4FieldOwners renders a field selection as Owner.field/Owner.field… following embedded fields (types, not spelling).
func r4FieldOwners(pi *pkgInfo, sel *ast.SelectorExpr) string {
	var chain []string
	var e ast.Expr = sel
	for {
		s, ok := ast.Unparen(e).(*ast.SelectorExpr)
		if !ok {
			break
		}
		tv, ok := pi.info.Types[s.X]
		if !ok {
			chain = append([]string{"?." + s.Sel.Name}, chain...)
		} else {
			steps, _ := r4FieldPath(pi, tv.Type, s.Sel.Name)
			var part []string
			for _, st := range steps {
				part = append(part, st[0]+"."+st[1])
			}
			if len(part) == 0 {
				part = []string{"?." + s.Sel.Name}
			}
			chain = append(part, chain...)
		}
		e = s.X
	}
	return strings.Join(chain, "/")
}

// ---------------------------------------------------------------------------------------------------------------
// 3. RecvLifecycle

type r4Life struct {
	pi     *pkgInfo
	u      *unit
	wg     types.Object // the sync.WaitGroup field of clientConn
	recvFn *ast.FuncDecl
}

// canonCall: canonical text of the calls the lifecycle is made of, by callee object (not by spelling).
func (l *r4Life) canonCall(c *ast.CallExpr) (text, event string) {
	pi := l.pi
	fn := r4Callee(pi, c)
	name := r4CalleeName(pi, fn)
	if sel, ok := ast.Unparen(c.Fun).(*ast.SelectorExpr); ok && fn != nil {
		if xs, ok := ast.Unparen(sel.X).(*ast.SelectorExpr); ok && l.wg != nil && pi.info.Uses[xs.Sel] == l.wg {
			switch fn.Name() {
			case "Done":
				return "wg.Done()", "done"
			case "Wait":
				return "wg.Wait()", "wait"
			case "Add":
				arg := "?"
				if len(c.Args) == 1 {
					if v, ok := pi.exprInt(c.Args[0]); ok {
						arg = fmt.Sprint(v)
					} else {
						arg = pi.nodeText(c.Args[0])
					}
				}
				return "wg.Add(" + arg + ")", "add"
			}
		}
	}
	switch name {
	case "clientConn.recv":
		return "recv()", "recv"
	case "clientConn.broadcastErr":
		return "broadcastErr(err)", "broadcast"
	case "conn.Close":
		return "conn.Close()", "connClose"
	}
	return pi.nodeText(c), "other:" + pi.nodeText(c)
}

// stmt: canonical text and the events of one statement of the receiver goroutine / of recv / of Close.
// deferred events are returned separately (they run, in reverse order, when the function returns).
func (l *r4Life) stmt(s ast.Stmt) (text string, now, deferred []string) {
	pi := l.pi
	switch st := s.(type) {
	case *ast.DeferStmt:
		t, ev := l.canonCall(st.Call)
		return "defer " + t, nil, []string{ev}
	case *ast.ExprStmt:
		if c, ok := ast.Unparen(st.X).(*ast.CallExpr); ok {
			t, ev := l.canonCall(c)
			return t, []string{ev}, nil
		}
	case *ast.ReturnStmt:
		if len(st.Results) == 1 {
			if c, ok := ast.Unparen(st.Results[0]).(*ast.CallExpr); ok {
				t, ev := l.canonCall(c)
				return "return " + t, []string{ev}, nil
			}
		}
	case *ast.ForStmt:
		if st.Init == nil && st.Cond == nil && st.Post == nil {
			return "for { ... }", []string{"recvLoop"}, nil
		}
	case *ast.IfStmt:
		// if err := X.recv(); err != nil { X.broadcastErr(err) }
		as, ok := st.Init.(*ast.AssignStmt)
		if ok && as.Tok == token.DEFINE && len(as.Lhs) == 1 && len(as.Rhs) == 1 && st.Else == nil && len(st.Body.List) == 1 {
			eid, ok1 := as.Lhs[0].(*ast.Ident)
			rc, ok2 := ast.Unparen(as.Rhs[0]).(*ast.CallExpr)
			be, ok3 := ast.Unparen(st.Cond).(*ast.BinaryExpr)
			es, ok4 := st.Body.List[0].(*ast.ExprStmt)
			if ok1 && ok2 && ok3 && ok4 && be.Op == token.NEQ {
				cx, okx := ast.Unparen(be.X).(*ast.Ident)
				cy, oky := ast.Unparen(be.Y).(*ast.Ident)
				bc, okb := ast.Unparen(es.X).(*ast.CallExpr)
				if okx && oky && okb && cy.Name == "nil" && r4Obj(pi, cx) == pi.info.Defs[eid] && len(bc.Args) == 1 {
					arg, oka := ast.Unparen(bc.Args[0]).(*ast.Ident)
					t1, e1 := l.canonCall(rc)
					t2, e2 := l.canonCall(bc)
					if oka && r4Obj(pi, arg) == pi.info.Defs[eid] && e1 == "recv" && e2 == "broadcast" {
						return "if err := " + t1 + "; err != nil { " + t2 + " }", []string{e1, e2}, nil
					}
				}
			}
		}
	}
	t := pi.nodeText(s)
	return "other: " + t, []string{"other:" + t}, nil
}

// events of a statement list executed to its end: body events in order, then the deferred ones in reverse order;
// a `recv` event is replaced by the events of clientConn.recv's own body.
func (l *r4Life) events(list []ast.Stmt, inlineRecv bool) (texts, evs []string) {
	var defs []string
	for _, s := range list {
		t, now, d := l.stmt(s)
		texts = append(texts, t)
		for _, e := range now {
			if e == "recv" && inlineRecv && l.recvFn != nil {
				_, inner := l.events(l.recvFn.Body.List, false)
				evs = append(evs, inner...)
				continue
			}
			evs = append(evs, e)
		}
		defs = append(defs, d...)
	}
	for i := len(defs) - 1; i >= 0; i-- {
		evs = append(evs, defs[i])
	}
	return
}

func extractRecvLifecycle(x *extractor) {
	u := x.newUnit("RecvLifecycle")
	pi := x.root
	u.pf("namespace Sftp.G\n\n")
	l := &r4Life{pi: pi, u: u, recvFn: pi.funcDecl("clientConn.recv")}

	// the WaitGroup field of clientConn
	if obj := pi.pkg.Scope().Lookup("clientConn"); obj != nil {
		if st, ok := obj.Type().Underlying().(*types.Struct); ok {
			n := 0
			for i := 0; i < st.NumFields(); i++ {
				f := st.Field(i)
				if nn := r4NamedOf(f.Type()); nn != nil && nn.Obj().Name() == "WaitGroup" && nn.Obj().Pkg() != nil && nn.Obj().Pkg().Path() == "sync" {
					l.wg = f
					n++
				}
			}
			if n != 1 {
				u.fail("clientConn: expected exactly one sync.WaitGroup field, found %d", n)
				l.wg = nil
			}
		}
	}
	if l.wg == nil {
		u.fail("clientConn's WaitGroup field not found")
	}
	if l.recvFn == nil {
		u.fail("clientConn.recv not found")
	}

	// every use of the WaitGroup field and every call of recv / broadcastErr, by function
	var wgSites [][2]string
	var recvCalls [][2]string
	type goSite struct {
		fd   *ast.FuncDecl
		gs   *ast.GoStmt
		list []ast.Stmt
		idx  int
	}
	var starts []goSite
	for _, fd := range r4Funcs(pi) {
		par := r4Parents(fd)
		ast.Inspect(fd.Body, func(m ast.Node) bool {
			c, ok := m.(*ast.CallExpr)
			if !ok {
				return true
			}
			_, ev := l.canonCall(c)
			t, _ := l.canonCall(c)
			switch ev {
			case "done", "wait", "add":
				how := t
				if _, isDefer := par[c].(*ast.DeferStmt); isDefer {
					how = "defer " + t
				}
				wgSites = append(wgSites, [2]string{r4FuncName(fd), how})
			case "recv":
				how := "call"
				var g *ast.GoStmt
				for p := par[ast.Node(c)]; p != nil; p = par[p] {
					if gg, ok := p.(*ast.GoStmt); ok {
						g = gg
					}
				}
				if g != nil {
					how = "go"
					for _, lst := range r4StmtLists(fd.Body) {
						for i, s := range lst {
							if s == ast.Stmt(g) {
								starts = append(starts, goSite{fd, g, lst, i})
							}
						}
					}
				}
				recvCalls = append(recvCalls, [2]string{r4FuncName(fd), how})
			}
			return true
		})
	}

	var shape, evs []string
	src := ""
	if len(starts) != 1 {
		u.fail("expected exactly one `go` statement that runs clientConn.recv, found %d (calls: %v)", len(starts), recvCalls)
	} else {
		s := starts[0]
		src = pi.pos(s.gs)
		// the statement before the go statement
		if s.idx > 0 {
			if t, now, _ := l.stmt(s.list[s.idx-1]); len(now) == 1 && now[0] == "add" {
				shape = append(shape, t)
			}
		}
		if fl, ok := ast.Unparen(s.gs.Call.Fun).(*ast.FuncLit); ok && len(s.gs.Call.Args) == 0 && len(fl.Type.Params.List) == 0 {
			shape = append(shape, "go func() {")
			texts, e := l.events(fl.Body.List, true)
			shape = append(shape, texts...)
			shape = append(shape, "}()")
			evs = e
		} else {
			t, ev := l.canonCall(s.gs.Call)
			shape = append(shape, "go "+t)
			if ev == "recv" && l.recvFn != nil {
				_, evs = l.events(l.recvFn.Body.List, false)
			} else {
				evs = []string{ev}
			}
		}
		for _, e := range evs {
			if strings.HasPrefix(e, "other:") {
				u.fail("%s (%s): unrecognised statement in the receiver goroutine / clientConn.recv: %s", r4FuncName(s.fd), src, strings.TrimPrefix(e, "other:"))
			}
		}
	}

	// recv itself
	var recvDeferred, recvReturns []string
	recvHasDone, recvNonNil := false, l.recvFn != nil
	if l.recvFn != nil {
		par := r4Parents(l.recvFn)
		for _, s := range l.recvFn.Body.List {
			if t, _, d := l.stmt(s); len(d) > 0 {
				recvDeferred = append(recvDeferred, strings.TrimPrefix(t, "defer "))
			}
		}
		ast.Inspect(l.recvFn.Body, func(m ast.Node) bool {
			switch n := m.(type) {
			case *ast.FuncLit:
				return false
			case *ast.CallExpr:
				if _, ev := l.canonCall(n); ev == "done" {
					recvHasDone = true
				}
			case *ast.ReturnStmt:
				kind := "other:" + pi.nodeText(n)
				if len(n.Results) == 1 {
					switch r := ast.Unparen(n.Results[0]).(type) {
					case *ast.Ident:
						// `return err` directly inside `if err != nil { … }`
						if blk, ok := par[n].(*ast.BlockStmt); ok {
							if is, ok := par[blk].(*ast.IfStmt); ok && is.Body == blk {
								if be, ok := ast.Unparen(is.Cond).(*ast.BinaryExpr); ok && be.Op == token.NEQ {
									a, oka := ast.Unparen(be.X).(*ast.Ident)
									b, okb := ast.Unparen(be.Y).(*ast.Ident)
									if oka && okb && b.Name == "nil" && r4Obj(pi, a) == r4Obj(pi, r) {
										kind = "checkedNonNil"
									}
								}
							}
						}
					case *ast.CallExpr:
						if fn := r4Callee(pi, r); fn != nil && fn.Pkg() != nil &&
							((fn.Pkg().Path() == "fmt" && fn.Name() == "Errorf") || (fn.Pkg().Path() == "errors" && fn.Name() == "New")) {
							kind = "newError"
						} else if id, ok := r.Fun.(*ast.SelectorExpr); ok && (pi.nodeText(id) == "fmt.Errorf" || pi.nodeText(id) == "errors.New") {
							kind = "newError"
						}
					}
				}
				if strings.HasPrefix(kind, "other:") {
					recvNonNil = false
				}
				recvReturns = append(recvReturns, kind)
			}
			return true
		})
		if len(recvReturns) == 0 {
			recvNonNil = false
		}
	}

	// Close
	var closeShape []string
	if fd := pi.funcDecl("clientConn.Close"); fd == nil {
		u.fail("clientConn.Close not found")
	} else {
		closeShape, _ = l.events(fd.Body.List, false)
	}
	closeWaits := len(closeShape) == 2 && closeShape[0] == "defer wg.Wait()" && closeShape[1] == "return conn.Close()"

	// broadcastErr: statement texts with the receiver printed as `c`
	var bcast []string
	if fd := pi.funcDecl("clientConn.broadcastErr"); fd == nil {
		u.fail("clientConn.broadcastErr not found")
	} else {
		ren := map[types.Object]string{}
		if fd.Recv != nil && len(fd.Recv.List) == 1 && len(fd.Recv.List[0].Names) == 1 {
			ren[pi.info.Defs[fd.Recv.List[0].Names[0]]] = "c"
		}
		for _, s := range fd.Body.List {
			t := r4Text(pi, s, ren)
			if _, isRange := s.(*ast.RangeStmt); isRange {
				t = "for ... range c.inflight { ... }"
				if rs := s.(*ast.RangeStmt); r4Text(pi, rs.X, ren) != "c.inflight" {
					t = "for ... range " + r4Text(pi, rs.X, ren) + " { ... }"
				}
			}
			bcast = append(bcast, t)
		}
	}

	idx := func(e string) int {
		at, n := -1, 0
		for i, v := range evs {
			if v == e {
				at = i
				n++
			}
		}
		if n != 1 {
			return -1
		}
		return at
	}
	nDone, nAdd := 0, 0
	for _, s := range wgSites {
		if strings.HasSuffix(s[1], "wg.Done()") {
			nDone++
		}
		if strings.HasSuffix(s[1], "wg.Add(1)") {
			nAdd++
		}
	}
	doneAfter := len(u.errs) == 0 && idx("broadcast") >= 0 && idx("done") > idx("broadcast") && !recvHasDone && nDone == 1 && nAdd == 1 &&
		len(shape) > 0 && shape[0] == "wg.Add(1)"

	u.pf("-- source: %s (newClientPipe): the statement before the `go` statement that runs clientConn.recv, and the goroutine's body\n", src)
	u.pf("def recvGoroutineShape : List String := %s\n\n", leanStrList(shape))
	u.pf("-- the receiver goroutine's events in execution order (clientConn.recv inlined; deferred calls run last, in reverse)\n")
	u.pf("def receiverEvents : List String := %s\n\n", leanStrList(evs))
	u.pf("-- source: conn.go clientConn.recv: deferred calls (source order), the kind of every return value, wg.Done inside?\n")
	u.pf("def recvDeferred : List String := %s\n", leanStrList(recvDeferred))
	u.pf("def recvReturns : List String := %s\n", leanStrList(recvReturns))
	u.pf("def recvReturnsNonNil : Bool := %s\n", leanBool(recvNonNil))
	u.pf("def recvContainsDone : Bool := %s\n\n", leanBool(recvHasDone))
	u.pf("-- source: every use of clientConn's WaitGroup in the package (function, call)\n")
	u.pf("def wgSites : List (String × String) := %s\n\n", r4Pairs(wgSites))
	u.pf("-- source: every call of clientConn.recv (function, go | call)\n")
	u.pf("def recvCallSites : List (String × String) := %s\n\n", r4Pairs(recvCalls))
	u.pf("-- source: conn.go clientConn.Close\n")
	u.pf("def closeShape : List String := %s\n\n", leanStrList(closeShape))
	u.pf("-- source: conn.go clientConn.broadcastErr, statement list (the notification loop abbreviated)\n")
	u.pf("def broadcastErrStmts : List String := %s\n\n", leanStrList(bcast))
	u.pf("-- wg.Add(1) before the go statement; exactly one wg.Done in the package, none inside recv, and it runs after broadcastErr\n")
	u.pf("def doneAfterBroadcast : Bool := %s\n", leanBool(doneAfter))
	u.pf("def closeWaitsForReceiver : Bool := %s\n", leanBool(closeWaits))
	u.pf("\nend Sftp.G\n")
}

// ---------------------------------------------------------------------------------------------------------------
// 4. ConnLocks

type r4LockSite struct {
	fn, obj string
	calls   []string
	io      bool
	touches bool // the region reads or writes clientConn.inflight
}

func extractConnLocks(x *extractor) {
	u := x.newUnit("ConnLocks")
	pi := x.root
	u.pf("namespace Sftp.G\n\n")

	// which functions of the package reach transport I/O (a function or interface method of package io, os or net),
	// transitively through static calls
	funcs := r4Funcs(pi)
	declOf := map[*types.Func]*ast.FuncDecl{}
	for _, fd := range funcs {
		if fn, ok := pi.info.Defs[fd.Name].(*types.Func); ok {
			declOf[fn] = fd
		}
	}
	baseIO := func(fn *types.Func) bool {
		if fn == nil || fn.Pkg() == nil {
			return false
		}
		switch fn.Pkg().Path() {
		case "io", "os", "net", "bufio":
			return true
		}
		return false
	}
	ioReach := map[*types.Func]bool{}
	for changed := true; changed; {
		changed = false
		for fn, fd := range declOf {
			if ioReach[fn] {
				continue
			}
			ast.Inspect(fd.Body, func(m ast.Node) bool {
				if c, ok := m.(*ast.CallExpr); ok {
					if cal := r4Callee(pi, c); cal != nil && (baseIO(cal) || ioReach[cal]) {
						if !ioReach[fn] {
							ioReach[fn] = true
							changed = true
						}
					}
				}
				return true
			})
		}
	}

	// the mutex object a `X.Lock()` selects: Owner.field of the last field step
	lockObj := func(sel *ast.SelectorExpr) (string, bool) {
		tv, ok := pi.info.Types[sel.X]
		if !ok {
			return "", false
		}
		steps, obj := r4FieldPath(pi, tv.Type, sel.Sel.Name)
		fn, isFunc := obj.(*types.Func)
		if !isFunc || fn.Pkg() == nil || fn.Pkg().Path() != "sync" {
			return "", false
		}
		if len(steps) > 0 {
			last := steps[len(steps)-1]
			return last[0] + "." + last[1], true
		}
		// a method of X's own type: X must itself be a field selection
		if xs, ok := ast.Unparen(sel.X).(*ast.SelectorExpr); ok {
			if xtv, ok := pi.info.Types[xs.X]; ok {
				st, fobj := r4FieldPath(pi, xtv.Type, xs.Sel.Name)
				if _, isVar := fobj.(*types.Var); isVar && len(st) > 0 {
					last := st[len(st)-1]
					return last[0] + "." + last[1], true
				}
			}
		}
		return "local:" + pi.nodeText(sel.X), true
	}
	interesting := func(obj string) bool {
		return strings.HasPrefix(obj, "conn.") || strings.HasPrefix(obj, "clientConn.") || strings.HasPrefix(obj, "Client.") || strings.HasPrefix(obj, "serverConn.")
	}
	isLockCall := func(s ast.Stmt, method string, deferred bool) (*ast.SelectorExpr, string) {
		var c *ast.CallExpr
		switch st := s.(type) {
		case *ast.ExprStmt:
			if !deferred {
				c, _ = ast.Unparen(st.X).(*ast.CallExpr)
			}
		case *ast.DeferStmt:
			if deferred {
				c = st.Call
			}
		}
		if c == nil || len(c.Args) != 0 {
			return nil, ""
		}
		sel, ok := ast.Unparen(c.Fun).(*ast.SelectorExpr)
		if !ok || sel.Sel.Name != method {
			return nil, ""
		}
		obj, ok := lockObj(sel)
		if !ok {
			return nil, ""
		}
		return sel, obj
	}

	describe := func(region []ast.Stmt) (calls []string, io, touches bool) {
		for _, s := range region {
			ast.Inspect(s, func(m ast.Node) bool {
				switch n := m.(type) {
				case *ast.FuncLit:
					calls = append(calls, "func literal")
					return false
				case *ast.SendStmt:
					calls = append(calls, "chan send")
				case *ast.SelectorExpr:
					if v, ok := pi.info.Uses[n.Sel].(*types.Var); ok && v.IsField() && v.Name() == "inflight" {
						touches = true
					}
				case *ast.CallExpr:
					fn := r4Callee(pi, n)
					name := r4CalleeName(pi, fn)
					if fn == nil {
						if tv, ok := pi.info.Types[n.Fun]; ok && tv.IsType() {
							return true // conversion
						}
						name = pi.nodeText(n.Fun)
					}
					if baseIO(fn) || ioReach[fn] {
						name += "[io]"
						io = true
					}
					calls = append(calls, name)
				}
				return true
			})
		}
		return
	}

	var sites []r4LockSite
	matched := map[*ast.SelectorExpr]bool{}
	for _, fd := range funcs {
		for _, list := range r4StmtLists(fd.Body) {
			for i, s := range list {
				sel, obj := isLockCall(s, "Lock", false)
				if sel == nil {
					sel, obj = isLockCall(s, "RLock", false)
				}
				if sel == nil || !interesting(obj) {
					continue
				}
				matched[sel] = true
				unlock := "Unlock"
				if sel.Sel.Name == "RLock" {
					unlock = "RUnlock"
				}
				var region []ast.Stmt
				ok := false
				if i+1 < len(list) {
					if s2, o2 := isLockCall(list[i+1], unlock, true); s2 != nil && o2 == obj {
						region, ok = list[i+2:], true // held until the function returns
						matched[s2] = true
					}
				}
				if !ok {
					for j := i + 1; j < len(list); j++ {
						if s2, o2 := isLockCall(list[j], unlock, false); s2 != nil && o2 == obj {
							region, ok = list[i+1:j], true
							matched[s2] = true
							break
						}
					}
				}
				if !ok {
					u.fail("%s (%s): %s is locked but neither `defer ….%s()` follows nor a plain ….%s() in the same block", r4FuncName(fd), pi.pos(s), obj, unlock, unlock)
					region = list[i+1:]
				}
				calls, io, touches := describe(region)
				sites = append(sites, r4LockSite{r4FuncName(fd), obj, calls, io, touches})
			}
		}
		// any other Lock/Unlock of these mutexes (inside an expression, deferred Lock, …) is an unrecognised shape
		ast.Inspect(fd.Body, func(m ast.Node) bool {
			c, ok := m.(*ast.CallExpr)
			if !ok {
				return true
			}
			sel, ok := ast.Unparen(c.Fun).(*ast.SelectorExpr)
			if !ok || matched[sel] {
				return true
			}
			switch sel.Sel.Name {
			case "Lock", "Unlock", "RLock", "RUnlock", "TryLock":
				if obj, ok := lockObj(sel); ok && interesting(obj) {
					u.fail("%s (%s): %s.%s() outside the recognised lock shapes", r4FuncName(fd), pi.pos(c), obj, sel.Sel.Name)
				}
			}
			return true
		})
	}

	// every access of clientConn.inflight and the lock held there
	var access [][2]string
	for _, fd := range funcs {
		par := r4Parents(fd)
		seen := map[string]bool{}
		ast.Inspect(fd.Body, func(m ast.Node) bool {
			sel, ok := m.(*ast.SelectorExpr)
			if !ok {
				return true
			}
			v, ok := pi.info.Uses[sel.Sel].(*types.Var)
			if !ok || !v.IsField() || v.Name() != "inflight" {
				return true
			}
			held := "none"
			// the lock regions of this function that contain the access
			for _, list := range r4StmtLists(fd.Body) {
				for i, s := range list {
					lsel, obj := isLockCall(s, "Lock", false)
					if lsel == nil || !interesting(obj) {
						continue
					}
					for _, later := range list[i+1:] {
						if r4Within(later, sel) {
							// not past a plain Unlock
							released := false
							for _, mid := range list[i+1:] {
								if mid.Pos() >= later.Pos() {
									break
								}
								if s2, o2 := isLockCall(mid, "Unlock", false); s2 != nil && o2 == obj {
									released = true
								}
							}
							if !released {
								held = obj
							}
						}
					}
				}
			}
			_ = par
			if !seen[held] {
				seen[held] = true
				access = append(access, [2]string{r4FuncName(fd), held})
			}
			return true
		})
	}

	var rows [][3]string
	inflightLocks, writeLocks := map[string]bool{}, map[string]bool{}
	for _, s := range sites {
		rows = append(rows, [3]string{s.fn, s.obj, strings.Join(s.calls, ", ")})
		if s.touches {
			inflightLocks[s.obj] = true
		}
		if s.io {
			writeLocks[s.obj] = true
		}
	}
	keys := func(m map[string]bool) []string {
		var out []string
		for k := range m {
			out = append(out, k)
		}
		sort.Strings(out)
		return out
	}
	own := len(inflightLocks) > 0 && len(u.errs) == 0
	for k := range inflightLocks {
		if !strings.HasPrefix(k, "clientConn.") {
			own = false
		}
	}
	for _, want := range []string{"clientConn.getChannel", "clientConn.putChannel", "clientConn.broadcastErr"} {
		ok := false
		for _, s := range sites {
			if s.fn == want && s.touches && strings.HasPrefix(s.obj, "clientConn.") {
				ok = true
			}
		}
		if !ok {
			own = false
		}
	}
	for _, a := range access {
		if a[1] == "none" {
			own = false
		}
	}
	sendLock := ""
	for _, s := range sites {
		if s.fn == "conn.sendPacket" {
			sendLock = s.obj
		}
	}
	if sendLock == "" {
		u.fail("conn.sendPacket: no lock region found")
	}
	noIO := len(inflightLocks) > 0 && len(u.errs) == 0
	for _, s := range sites {
		if inflightLocks[s.obj] && s.io {
			noIO = false
		}
	}

	src := ""
	if fd := pi.funcDecl("conn.sendPacket"); fd != nil {
		src = pi.pos(fd)
	}
	u.pf("-- source: conn.go (conn.sendPacket at %s) and every other function of the package that locks a mutex of conn / clientConn:\n", src)
	u.pf("-- (function, the mutex `X.Lock()` selects by go/types field path: Owner.field, calls made while it is held;\n-- [io] = reaches a function or interface method of package io / os / net)\n")
	u.pf("def lockSites : List (String × String × String) := %s\n\n", r4Triples(rows))
	u.pf("-- every access of clientConn.inflight (function, lock held there | none)\n")
	u.pf("def inflightAccessSites : List (String × String) := %s\n\n", r4Pairs(access))
	u.pf("-- the mutexes held where inflight is accessed / where transport I/O is performed; the one conn.sendPacket holds\n")
	u.pf("def inflightLockObjects : List String := %s\n", leanStrList(keys(inflightLocks)))
	u.pf("def ioLockObjects : List String := %s\n", leanStrList(keys(writeLocks)))
	u.pf("def sendPacketLock : String := %s\n\n", leanStr(sendLock))
	u.pf("def inflightLockIsOwn : Bool := %s\n", leanBool(own))
	u.pf("def noIoUnderInflightLock : Bool := %s\n", leanBool(noIO))
	u.pf("\nend Sftp.G\n")
}
