package main

// Unit OpenFlags: the translation of open flags
//
//	os flags --toPflags (client.go)--> SSH_FXF_* pflags --respond (server.go)--> os flags of os.OpenFile
//	                                        |--newFileOpenFlags (request-attrs.go)--> FileOpenFlags seen by handlers
//	                                        |--Request.open (request.go)--> method Put / Get / Open
//
// Every function is matched against ONE closed shape (described at each matcher); anything else
// is reported with u.fail and the tables of that function are emitted empty.
//
// The evaluation tables are numeric "guarded OR" rules
//
//	(conds, bits)   conds : List (isEq, mask, want)   meaning  ∀ (isEq,mask,want) ∈ conds, (x & mask) ==/!= want
//
// (isEq = true for ==, false for !=); masks and bits are the go/types constant values (os.O_* for linux/amd64,
// sshFxf* of package sftp).  The String × String tables carry the same rows by NAME, for readers
// and for name-level theorems; they are produced from the same matched rules.

import (
	"fmt"
	"go/ast"
	"go/token"
	"sort"
	"strings"
)

func init() { extractors = append(extractors, extractOpenFlags) }

type ofAtom struct {
	op         string // "eq" | "ne"
	mask, want int64
}

type ofRule struct {
	conds []ofAtom
	bits  int64
	key   string // display: condition by name
	val   string // display: bits by name
}

type ofX struct {
	pi *pkgInfo
	u  *unit
	// constants seen, by display name
	osVals map[string]int64
	pfVals map[string]int64
}

func (o *ofX) t(n ast.Node) string { return o.pi.nodeText(n) }

func ofUnparen(e ast.Expr) ast.Expr {
	for {
		p, ok := e.(*ast.ParenExpr)
		if !ok {
			return e
		}
		e = p.X
	}
}

// constName renders a constant expression built from named constants and `|` by name
// ("os.O_RDWR | os.O_CREATE" -> "O_RDWR|O_CREATE"), recording every leaf's value.  ok=false if a
// leaf is not a named constant (a literal, a call, a variable …).
func (o *ofX) constName(e ast.Expr) (string, bool) {
	e = ofUnparen(e)
	switch t := e.(type) {
	case *ast.BinaryExpr:
		if t.Op != token.OR {
			return "", false
		}
		a, ok1 := o.constName(t.X)
		b, ok2 := o.constName(t.Y)
		return a + "|" + b, ok1 && ok2
	case *ast.SelectorExpr:
		id, ok := t.X.(*ast.Ident)
		v, okv := o.pi.exprInt(t)
		if !ok || !okv || id.Name != "os" {
			return "", false
		}
		o.osVals[t.Sel.Name] = v
		return t.Sel.Name, true
	case *ast.Ident:
		v, okv := o.pi.exprInt(t)
		if !okv || !strings.HasPrefix(t.Name, "sshFxf") {
			return "", false
		}
		o.pfVals[t.Name] = v
		return t.Name, true
	}
	return "", false
}

// constVal: value and name of a named-constant expression.
func (o *ofX) constVal(e ast.Expr) (int64, string, bool) {
	n, ok := o.constName(e)
	v, okv := o.pi.exprInt(ofUnparen(e))
	if !okv {
		// exprInt is keyed by the exact node; try the original too
		v, okv = o.pi.exprInt(e)
	}
	return v, n, ok && okv
}

// orAssign matches `<acc> |= <named constants>`.
func (o *ofX) orAssign(s ast.Stmt, acc string) (int64, string, bool) {
	as, ok := s.(*ast.AssignStmt)
	if !ok || as.Tok != token.OR_ASSIGN || len(as.Lhs) != 1 || len(as.Rhs) != 1 || !isIdentNamed(as.Lhs[0], acc) {
		return 0, "", false
	}
	return o.constVal(as.Rhs[0])
}

func isIdentNamed(e ast.Expr, name string) bool {
	id, ok := e.(*ast.Ident)
	return ok && id.Name == name
}

// bitTest matches `<subject> & C == D` / `<subject> & C != D` (C, D named constants or, for D, the
// literal 0), where subject is an identifier or a selector whose text is `subj`.
func (o *ofX) bitTest(e ast.Expr, subj string) (ofAtom, string, bool) {
	be, ok := ofUnparen(e).(*ast.BinaryExpr)
	if !ok || (be.Op != token.EQL && be.Op != token.NEQ) {
		return ofAtom{}, "", false
	}
	and, ok := ofUnparen(be.X).(*ast.BinaryExpr)
	if !ok || and.Op != token.AND || o.t(and.X) != subj {
		return ofAtom{}, "", false
	}
	mask, mname, ok := o.constVal(and.Y)
	if !ok {
		return ofAtom{}, "", false
	}
	var want int64
	wname := "0"
	if lit, isLit := ofUnparen(be.Y).(*ast.BasicLit); isLit && lit.Value == "0" {
		want = 0
	} else if w, wn, ok := o.constVal(be.Y); ok {
		want, wname = w, wn
	} else {
		return ofAtom{}, "", false
	}
	op := "eq"
	if be.Op == token.NEQ {
		op = "ne"
	}
	disp := mname
	if !(op == "eq" && wname == mname) && !(op == "ne" && wname == "0") {
		disp = fmt.Sprintf("%s%s%s", mname, map[string]string{"eq": "==", "ne": "!="}[op], wname)
	}
	return ofAtom{op, mask, want}, disp, true
}

// cond matches a `&&`-conjunction of atoms; atom is bitTest on subj, or (server side) a call
// recv.hasPflags(C, …) (= every listed flag has a bit in common with Pflags; hasPflags' body is
// checked against its canonical text separately).
func (o *ofX) cond(e ast.Expr, subj, recv string) ([]ofAtom, string, bool) {
	e = ofUnparen(e)
	if be, ok := e.(*ast.BinaryExpr); ok && be.Op == token.LAND {
		a, an, ok1 := o.cond(be.X, subj, recv)
		b, bn, ok2 := o.cond(be.Y, subj, recv)
		return append(a, b...), an + "&" + bn, ok1 && ok2
	}
	if c, ok := e.(*ast.CallExpr); ok && recv != "" && o.t(c.Fun) == recv+".hasPflags" && len(c.Args) > 0 && c.Ellipsis == token.NoPos {
		var atoms []ofAtom
		var names []string
		for _, a := range c.Args {
			v, n, ok := o.constVal(a)
			if !ok {
				return nil, "", false
			}
			atoms = append(atoms, ofAtom{"ne", v, 0})
			names = append(names, n)
		}
		return atoms, strings.Join(names, "&"), true
	}
	a, n, ok := o.bitTest(e, subj)
	return []ofAtom{a}, n, ok
}

func ofLeanAtoms(as []ofAtom) string {
	var p []string
	for _, a := range as {
		p = append(p, fmt.Sprintf("(%s, %d, %d)", leanBool(a.op == "eq"), a.mask, a.want))
	}
	return "[" + strings.Join(p, ", ") + "]"
}

func ofLeanRules(rs []ofRule) string {
	var p []string
	for _, r := range rs {
		p = append(p, fmt.Sprintf("(%s, %d)", ofLeanAtoms(r.conds), r.bits))
	}
	return "[" + strings.Join(p, ", ") + "]"
}

func ofLeanPairs(ps [][2]string) string {
	var p []string
	for _, r := range ps {
		p = append(p, fmt.Sprintf("(%s, %s)", leanStr(r[0]), leanStr(r[1])))
	}
	return "[" + strings.Join(p, ", ") + "]"
}

func ofRulePairs(rs []ofRule) [][2]string {
	var p [][2]string
	for _, r := range rs {
		p = append(p, [2]string{r.key, r.val})
	}
	return p
}

// ---- client: toPflags ----
//
//	func toPflags(f int) uint32 {
//		var out uint32
//		switch f & (C|…) { case C: out |= P … }        -- no default, no fallthrough, one statement per case
//		if f&C == C [&& …] { out |= P }                 -- no else, no init
//		…
//		return out
//	}
func (o *ofX) clientToPflags() (rules []ofRule, src string, ok bool) {
	pi, u := o.pi, o.u
	fd := pi.funcDecl("toPflags")
	if fd == nil || fd.Body == nil {
		u.fail("toPflags not found")
		return nil, "", false
	}
	src = pi.pos(fd)
	bad := func(n ast.Node, why string) ([]ofRule, string, bool) {
		u.fail("toPflags: %s at %s: %q", why, pi.pos(n), o.t(n))
		return nil, src, false
	}
	if fd.Type.Params == nil || len(fd.Type.Params.List) != 1 || len(fd.Type.Params.List[0].Names) != 1 ||
		fd.Type.Results == nil || len(fd.Type.Results.List) != 1 || len(fd.Type.Results.List[0].Names) != 0 {
		return bad(fd.Type, "signature is not func(<name> int) uint32")
	}
	if o.t(fd.Type.Params.List[0].Type) != "int" || o.t(fd.Type.Results.List[0].Type) != "uint32" {
		return bad(fd.Type, "signature is not func(<name> int) uint32")
	}
	f := fd.Type.Params.List[0].Names[0].Name
	body := fd.Body.List
	if len(body) < 2 {
		return bad(fd.Body, "body too short")
	}
	out := ""
	if ds, isDecl := body[0].(*ast.DeclStmt); isDecl {
		if gd, isGen := ds.Decl.(*ast.GenDecl); isGen && gd.Tok == token.VAR && len(gd.Specs) == 1 {
			vs := gd.Specs[0].(*ast.ValueSpec)
			if len(vs.Names) == 1 && len(vs.Values) == 0 && vs.Type != nil && o.t(vs.Type) == "uint32" {
				out = vs.Names[0].Name
			}
		}
	}
	if out == "" {
		return bad(body[0], "first statement is not `var <out> uint32`")
	}
	last, isRet := body[len(body)-1].(*ast.ReturnStmt)
	if !isRet || len(last.Results) != 1 || !isIdentNamed(last.Results[0], out) {
		return bad(body[len(body)-1], "last statement is not `return "+out+"`")
	}
	for _, s := range body[1 : len(body)-1] {
		switch st := s.(type) {
		case *ast.SwitchStmt:
			if st.Init != nil || st.Tag == nil {
				return bad(st, "switch with init or without tag")
			}
			tag, isBin := ofUnparen(st.Tag).(*ast.BinaryExpr)
			if !isBin || tag.Op != token.AND || !isIdentNamed(tag.X, f) {
				return bad(st.Tag, "switch tag is not `"+f+" & <constants>`")
			}
			mask, _, okm := o.constVal(tag.Y)
			if !okm {
				return bad(tag.Y, "switch mask is not made of named constants")
			}
			seen := map[int64]bool{}
			for _, c := range st.Body.List {
				cc := c.(*ast.CaseClause)
				if cc.List == nil {
					return bad(cc, "default clause in the access-mode switch")
				}
				if len(cc.Body) != 1 {
					return bad(cc, "case body is not a single `"+out+" |= …`")
				}
				bits, bname, okb := o.orAssign(cc.Body[0], out)
				if !okb {
					return bad(cc.Body[0], "case body is not `"+out+" |= <named constants>`")
				}
				for _, e := range cc.List {
					v, vn, okv := o.constVal(e)
					if !okv {
						return bad(e, "case label is not a named constant")
					}
					if seen[v] {
						return bad(e, "duplicate case value") // (the compiler rejects it too)
					}
					seen[v] = true
					rules = append(rules, ofRule{[]ofAtom{{"eq", mask, v}}, bits, vn, bname})
				}
			}
		case *ast.IfStmt:
			if st.Init != nil || st.Else != nil {
				return bad(st, "if with init or else")
			}
			atoms, name, okc := o.cond(st.Cond, f, "")
			if !okc {
				return bad(st.Cond, "condition is not a conjunction of `"+f+"&C == C` / `"+f+"&C != 0` over named constants")
			}
			if len(st.Body.List) != 1 {
				return bad(st.Body, "if body is not a single `"+out+" |= …`")
			}
			bits, bname, okb := o.orAssign(st.Body.List[0], out)
			if !okb {
				return bad(st.Body.List[0], "if body is not `"+out+" |= <named constants>`")
			}
			rules = append(rules, ofRule{atoms, bits, name, bname})
		default:
			return bad(s, "statement outside the closed shape (switch / if / return)")
		}
	}
	return rules, src, true
}

// ---- client: callers of toPflags ----
//
// Every call of toPflags in the package (non-test files) must be the second argument of
// `return <recv>.open(<path>, toPflags(ARG))`, the single statement of a method of *Client, with
// ARG a named-constant expression or the method's own int parameter (passed through).
type ofCall struct {
	name, disp string
	val        int64
	passThru   bool
}

func (o *ofX) clientCalls() (calls []ofCall, src string, ok bool) {
	pi, u := o.pi, o.u
	ok = true
	var srcs []string
	for _, file := range pi.files {
		for _, d := range file.Decls {
			fd, isFn := d.(*ast.FuncDecl)
			if !isFn || fd.Body == nil {
				continue
			}
			n := 0
			ast.Inspect(fd.Body, func(nd ast.Node) bool {
				if c, isCall := nd.(*ast.CallExpr); isCall && isIdentNamed(c.Fun, "toPflags") {
					n++
				}
				return true
			})
			if n == 0 {
				continue
			}
			who := fd.Name.Name
			fail := func(why string) {
				u.fail("%s (%s): toPflags is used outside the closed shape `return c.open(path, toPflags(ARG))`: %s", who, pi.pos(fd), why)
				ok = false
			}
			if fd.Recv == nil || recvName(fd.Recv.List[0].Type) != "Client" || len(fd.Recv.List[0].Names) != 1 {
				fail("not a method of *Client")
				continue
			}
			recv := fd.Recv.List[0].Names[0].Name
			if n != 1 || len(fd.Body.List) != 1 {
				fail("body is not a single statement")
				continue
			}
			rs, isRet := fd.Body.List[0].(*ast.ReturnStmt)
			if !isRet || len(rs.Results) != 1 {
				fail("not a single return")
				continue
			}
			call, isCall := rs.Results[0].(*ast.CallExpr)
			if !isCall || o.t(call.Fun) != recv+".open" || len(call.Args) != 2 {
				fail("does not return " + recv + ".open(…, …)")
				continue
			}
			inner, isCall := call.Args[1].(*ast.CallExpr)
			if !isCall || !isIdentNamed(inner.Fun, "toPflags") || len(inner.Args) != 1 {
				fail("second argument of open is not toPflags(ARG)")
				continue
			}
			arg := inner.Args[0]
			if v, name, okc := o.constVal(arg); okc {
				calls = append(calls, ofCall{who, name, v, false})
			} else if id, isId := arg.(*ast.Ident); isId && ofIsIntParam(fd, id.Name) {
				calls = append(calls, ofCall{who, "<" + id.Name + ">", 0, true})
			} else {
				fail(fmt.Sprintf("ARG %q is neither named constants nor the method's int parameter", o.t(arg)))
				continue
			}
			srcs = append(srcs, pi.pos(fd))
		}
	}
	sort.Slice(calls, func(i, j int) bool { return calls[i].name < calls[j].name })
	sort.Strings(srcs)
	return calls, strings.Join(srcs, " "), ok
}

func ofIsIntParam(fd *ast.FuncDecl, name string) bool {
	for _, p := range fd.Type.Params.List {
		for _, n := range p.Names {
			if n.Name == name {
				id, ok := p.Type.(*ast.Ident)
				return ok && id.Name == "int"
			}
		}
	}
	return false
}

// Client.open must put its pflags parameter unchanged into sshFxpOpenPacket.Pflags, and every
// use of that parameter must be that one.
func (o *ofX) clientSendsVerbatim() bool {
	pi, u := o.pi, o.u
	fd := pi.funcDecl("Client.open")
	if fd == nil || fd.Body == nil || fd.Type.Params == nil || len(fd.Type.Params.List) != 2 || len(fd.Type.Params.List[1].Names) != 1 {
		u.fail("Client.open(path string, pflags uint32) not found")
		return false
	}
	par := fd.Type.Params.List[1].Names[0].Name
	uses, good := 0, 0
	ast.Inspect(fd.Body, func(n ast.Node) bool {
		switch t := n.(type) {
		case *ast.Ident:
			if t.Name == par {
				uses++
			}
		case *ast.CompositeLit:
			if typeName(t.Type) == "sshFxpOpenPacket" {
				for _, el := range t.Elts {
					if kv, ok := el.(*ast.KeyValueExpr); ok && isIdentNamed(kv.Key, "Pflags") && isIdentNamed(kv.Value, par) {
						good++
					}
				}
			}
		}
		return true
	})
	if uses != 1 || good != 1 {
		u.fail("Client.open (%s): the pflags parameter is not used exactly once, as sshFxpOpenPacket{… Pflags: %s}", pi.pos(fd), par)
		return false
	}
	return true
}

// ---- server: (*sshFxpOpenPacket).respond ----
//
//	var osFlags int
//	if p.hasPflags(P, …) { osFlags |= C } else if … { … } else { …; return statusFromError(p.ID, E) }
//	if p.hasPflags(P) [&& …] { osFlags |= C }   -- no else
//	…                                            -- statements not mentioning osFlags are skipped
//	… svr.openfile(<path>, osFlags, <mode>)      -- the only other use of osFlags
type ofServer struct {
	access     []ofRule
	accessElse string
	bits       []ofRule
	ignored    []string // pflag constants of the package never tested
	verbatim   bool     // osFlags handed unchanged to openfile, which hands it unchanged to os.OpenFile
	src        string
}

func (o *ofX) mentions(n ast.Node, name string) bool {
	found := false
	ast.Inspect(n, func(x ast.Node) bool {
		if id, ok := x.(*ast.Ident); ok && id.Name == name {
			found = true
		}
		return !found
	})
	return found
}

func (o *ofX) server() (r ofServer, ok bool) {
	pi, u := o.pi, o.u
	fd := pi.funcDecl("sshFxpOpenPacket.respond")
	if fd == nil || fd.Body == nil || len(fd.Recv.List[0].Names) != 1 {
		u.fail("sshFxpOpenPacket.respond not found")
		return r, false
	}
	r.src = pi.pos(fd)
	bad := func(n ast.Node, why string) (ofServer, bool) {
		u.fail("sshFxpOpenPacket.respond: %s at %s: %q", why, pi.pos(n), o.t(n))
		return ofServer{src: r.src}, false
	}
	recv := fd.Recv.List[0].Names[0].Name
	hasPflagsCanon := "{ for _, f := range flags { if p.Pflags&f == 0 { return false } } return true }"
	if got := pi.bodyText(pi.funcDecl("sshFxpOpenPacket.hasPflags")); got != hasPflagsCanon {
		u.fail("sshFxpOpenPacket.hasPflags: body is not the expected all-flags-set loop: %q", got)
		return ofServer{src: r.src}, false
	}
	subj := recv + ".Pflags"
	acc := ""
	tested := map[string]bool{}
	noteTested := func(e ast.Expr) {
		ast.Inspect(e, func(n ast.Node) bool {
			if id, ok := n.(*ast.Ident); ok && strings.HasPrefix(id.Name, "sshFxf") {
				tested[id.Name] = true
			}
			return true
		})
	}
	sawChain, sawOpen := false, false
	for i, s := range fd.Body.List {
		if i == 0 {
			if ds, isDecl := s.(*ast.DeclStmt); isDecl {
				if gd, isGen := ds.Decl.(*ast.GenDecl); isGen && gd.Tok == token.VAR && len(gd.Specs) == 1 {
					vs := gd.Specs[0].(*ast.ValueSpec)
					if len(vs.Names) == 1 && len(vs.Values) == 0 && vs.Type != nil && o.t(vs.Type) == "int" {
						acc = vs.Names[0].Name
					}
				}
			}
			if acc == "" {
				return bad(s, "first statement is not `var <osFlags> int`")
			}
			continue
		}
		if !o.mentions(s, acc) {
			// statements that do not touch the flag word; they may not test Pflags either
			if o.mentions(s, "Pflags") || o.mentions(s, "hasPflags") {
				return bad(s, "Pflags tested by a statement that does not set "+acc)
			}
			continue
		}
		switch st := s.(type) {
		case *ast.IfStmt:
			if st.Init != nil {
				return bad(st, "if with init")
			}
			if st.Else == nil {
				atoms, name, okc := o.cond(st.Cond, subj, recv)
				if !okc {
					return bad(st.Cond, "condition is not a conjunction of "+recv+".hasPflags(C…) / "+subj+"&C != 0")
				}
				noteTested(st.Cond)
				if len(st.Body.List) != 1 {
					return bad(st.Body, "if body is not a single `"+acc+" |= …`")
				}
				bits, bname, okb := o.orAssign(st.Body.List[0], acc)
				if !okb {
					return bad(st.Body.List[0], "if body is not `"+acc+" |= <named constants>`")
				}
				r.bits = append(r.bits, ofRule{atoms, bits, name, bname})
				continue
			}
			// the access-mode chain
			if sawChain || len(r.bits) > 0 {
				return bad(st, "second if/else chain, or chain after the single-bit clauses")
			}
			sawChain = true
			cur := st
			for {
				atoms, name, okc := o.cond(cur.Cond, subj, recv)
				if !okc || cur.Init != nil {
					return bad(cur.Cond, "condition is not a conjunction of "+recv+".hasPflags(C…) / "+subj+"&C != 0")
				}
				noteTested(cur.Cond)
				if len(cur.Body.List) != 1 {
					return bad(cur.Body, "branch body is not a single `"+acc+" |= …`")
				}
				bits, bname, okb := o.orAssign(cur.Body.List[0], acc)
				if !okb {
					return bad(cur.Body.List[0], "branch body is not `"+acc+" |= <named constants>`")
				}
				r.access = append(r.access, ofRule{atoms, bits, name, bname})
				switch el := cur.Else.(type) {
				case *ast.IfStmt:
					cur = el
					continue
				case *ast.BlockStmt:
					if len(el.List) != 1 {
						return bad(el, "final else is not a single return statusFromError("+recv+".ID, E)")
					}
					rs, isRet := el.List[0].(*ast.ReturnStmt)
					if !isRet || len(rs.Results) != 1 {
						return bad(el, "final else is not a single return statusFromError("+recv+".ID, E)")
					}
					c, isCall := rs.Results[0].(*ast.CallExpr)
					if !isCall || !isIdentNamed(c.Fun, "statusFromError") || len(c.Args) != 2 || o.t(c.Args[0]) != recv+".ID" {
						return bad(el, "final else is not a single return statusFromError("+recv+".ID, E)")
					}
					r.accessElse = o.t(c.Args[1])
				default:
					return bad(cur, "access-mode chain without a final else (flag word without access mode would reach os.OpenFile)")
				}
				break
			}
		case *ast.AssignStmt:
			// f, err := svr.openfile(svr.toLocalPath(p.Path), osFlags, mode)
			if sawOpen || len(st.Rhs) != 1 {
				return bad(st, "unexpected assignment involving "+acc)
			}
			c, isCall := st.Rhs[0].(*ast.CallExpr)
			if !isCall || !strings.HasSuffix(o.t(c.Fun), ".openfile") || len(c.Args) != 3 || !isIdentNamed(c.Args[1], acc) ||
				o.mentions(c.Args[0], acc) || o.mentions(c.Args[2], acc) {
				return bad(st, "not `… := svr.openfile(<path>, "+acc+", <mode>)`")
			}
			sawOpen = true
		default:
			return bad(s, "statement touching "+acc+" outside the closed shape")
		}
	}
	if !sawChain {
		return bad(fd.Body, "no access-mode if/else chain")
	}
	if !sawOpen {
		return bad(fd.Body, "no call of svr.openfile with "+acc)
	}
	// openfile (linux build): return os.OpenFile(path, flag, mode)
	r.verbatim = true
	if ofd := pi.funcDecl("Server.openfile"); ofd == nil {
		u.fail("Server.openfile not found")
		r.verbatim = false
	} else if got := pi.bodyText(ofd); got != "{ return os.OpenFile(path, flag, mode) }" || ofParamNames(ofd) != "path,flag,mode" {
		u.fail("Server.openfile (%s) is not `return os.OpenFile(path, flag, mode)`: %q", pi.pos(ofd), got)
		r.verbatim = false
	}
	// pflag constants of the package that respond never tests
	for _, name := range ofPflagConsts(pi) {
		v, _ := pi.constInt(name)
		o.pfVals[name] = v
		if !tested[name] {
			r.ignored = append(r.ignored, name)
		}
	}
	return r, true
}

func ofParamNames(fd *ast.FuncDecl) string {
	var ns []string
	for _, p := range fd.Type.Params.List {
		for _, n := range p.Names {
			ns = append(ns, n.Name)
		}
	}
	return strings.Join(ns, ",")
}

// ofPflagConsts: the package-level constants named sshFxf* (the SSH_FXF_* open flags), by value.
func ofPflagConsts(pi *pkgInfo) []string {
	var out []string
	for _, n := range pi.pkg.Scope().Names() {
		if strings.HasPrefix(n, "sshFxf") {
			if _, ok := pi.constInt(n); ok {
				out = append(out, n)
			}
		}
	}
	sort.Slice(out, func(i, j int) bool {
		a, _ := pi.constInt(out[i])
		b, _ := pi.constInt(out[j])
		return a < b
	})
	return out
}

// ---- handlers: newFileOpenFlags / FileOpenFlags / Request.Pflags ----
//
//	func newFileOpenFlags(flags uint32) FileOpenFlags {
//		return FileOpenFlags{ Field: flags&C != 0, … }
//	}
type ofField struct {
	field, pname string
	mask         int64
}

func (o *ofX) handlerFields() (fields []ofField, structFields []string, viaFlags bool, src string, ok bool) {
	pi, u := o.pi, o.u
	// the struct's fields
	for _, file := range pi.files {
		for _, d := range file.Decls {
			gd, isGen := d.(*ast.GenDecl)
			if !isGen || gd.Tok != token.TYPE {
				continue
			}
			for _, sp := range gd.Specs {
				ts := sp.(*ast.TypeSpec)
				st, isStruct := ts.Type.(*ast.StructType)
				if ts.Name.Name != "FileOpenFlags" || !isStruct {
					continue
				}
				for _, fl := range st.Fields.List {
					if o.t(fl.Type) != "bool" {
						u.fail("FileOpenFlags: field of type %s at %s", o.t(fl.Type), pi.pos(fl))
					}
					for _, n := range fl.Names {
						structFields = append(structFields, n.Name)
					}
				}
			}
		}
	}
	if structFields == nil {
		u.fail("type FileOpenFlags struct not found")
	}
	fd := pi.funcDecl("newFileOpenFlags")
	if fd == nil || fd.Body == nil {
		u.fail("newFileOpenFlags not found")
		return nil, structFields, false, "", false
	}
	src = pi.pos(fd)
	bad := func(n ast.Node, why string) ([]ofField, []string, bool, string, bool) {
		u.fail("newFileOpenFlags: %s at %s: %q", why, pi.pos(n), o.t(n))
		return nil, structFields, false, src, false
	}
	if fd.Type.Params == nil || len(fd.Type.Params.List) != 1 || len(fd.Type.Params.List[0].Names) != 1 {
		return bad(fd.Type, "not one parameter")
	}
	par := fd.Type.Params.List[0].Names[0].Name
	if len(fd.Body.List) != 1 {
		return bad(fd.Body, "body is not a single return")
	}
	rs, isRet := fd.Body.List[0].(*ast.ReturnStmt)
	if !isRet || len(rs.Results) != 1 {
		return bad(fd.Body, "body is not a single return")
	}
	cl, isLit := rs.Results[0].(*ast.CompositeLit)
	if !isLit || typeName(cl.Type) != "FileOpenFlags" {
		return bad(rs, "does not return a FileOpenFlags{…} literal")
	}
	for _, el := range cl.Elts {
		kv, isKV := el.(*ast.KeyValueExpr)
		if !isKV {
			return bad(el, "positional element")
		}
		key, isId := kv.Key.(*ast.Ident)
		if !isId {
			return bad(el, "key is not a field name")
		}
		a, name, okc := o.bitTest(kv.Value, par)
		if !okc || a.op != "ne" || a.want != 0 {
			return bad(kv.Value, "value is not `"+par+"&C != 0` over a named constant")
		}
		fields = append(fields, ofField{key.Name, name, a.mask})
	}
	// Request.Pflags: return newFileOpenFlags(r.Flags)
	viaFlags = true
	if pfd := pi.funcDecl("Request.Pflags"); pfd == nil || len(pfd.Recv.List[0].Names) != 1 ||
		pi.bodyText(pfd) != "{ return newFileOpenFlags("+pfd.Recv.List[0].Names[0].Name+".Flags) }" {
		u.fail("Request.Pflags is not `return newFileOpenFlags(r.Flags)`")
		viaFlags = false
	}
	return fields, structFields, viaFlags, src, true
}

// ---- request server: Request.open's method rule ----
//
//	flags := r.Pflags()
//	…
//	switch {
//	case flags.A, flags.B, …:
//		[ if flags.F { if x, ok := h.H.(IFACE); ok { r.Method = "M2"; … return … } } ]
//		r.Method = "M"
//		…
//	default:
//		return statusFromError(id, …)
//	}
type ofMethCase struct {
	fields []string
	method string
}
type ofUpgrade struct{ base, field, iface, method string }

func (o *ofX) methodRule() (cases []ofMethCase, ups []ofUpgrade, def string, src string, ok bool) {
	pi, u := o.pi, o.u
	fd := pi.funcDecl("Request.open")
	if fd == nil || fd.Body == nil || len(fd.Recv.List[0].Names) != 1 {
		u.fail("Request.open not found")
		return nil, nil, "", "", false
	}
	src = pi.pos(fd)
	bad := func(n ast.Node, why string) ([]ofMethCase, []ofUpgrade, string, string, bool) {
		u.fail("Request.open: %s at %s: %q", why, pi.pos(n), o.t(n))
		return nil, nil, "", src, false
	}
	recv := fd.Recv.List[0].Names[0].Name
	flagsVar := ""
	var sw *ast.SwitchStmt
	for _, s := range fd.Body.List {
		switch st := s.(type) {
		case *ast.AssignStmt:
			if len(st.Lhs) == 1 && len(st.Rhs) == 1 && st.Tok == token.DEFINE && o.t(st.Rhs[0]) == recv+".Pflags()" {
				if flagsVar != "" {
					return bad(st, "second "+recv+".Pflags()")
				}
				flagsVar = o.t(st.Lhs[0])
			}
		case *ast.SwitchStmt:
			if sw != nil {
				return bad(st, "second switch")
			}
			sw = st
		}
	}
	if flagsVar == "" || sw == nil || sw.Tag != nil || sw.Init != nil {
		return bad(fd.Body, "no `flags := "+recv+".Pflags()` followed by a tagless switch")
	}
	// every assignment to r.Method in the function must be one of those recognised below
	total := 0
	ast.Inspect(fd.Body, func(n ast.Node) bool {
		if as, isAs := n.(*ast.AssignStmt); isAs {
			for _, l := range as.Lhs {
				if o.t(l) == recv+".Method" {
					total++
				}
			}
		}
		return true
	})
	methAssign := func(s ast.Stmt) (string, bool) {
		as, isAs := s.(*ast.AssignStmt)
		if !isAs || as.Tok != token.ASSIGN || len(as.Lhs) != 1 || len(as.Rhs) != 1 || o.t(as.Lhs[0]) != recv+".Method" {
			return "", false
		}
		return pi.exprStr(as.Rhs[0])
	}
	fieldOf := func(e ast.Expr) (string, bool) {
		se, isSel := ofUnparen(e).(*ast.SelectorExpr)
		if !isSel || !isIdentNamed(se.X, flagsVar) {
			return "", false
		}
		return se.Sel.Name, true
	}
	recognised := 0
	sawDefault := false
	for ci, c := range sw.Body.List {
		cc := c.(*ast.CaseClause)
		if cc.List == nil {
			if ci != len(sw.Body.List)-1 {
				return bad(cc, "default is not the last clause")
			}
			if len(cc.Body) != 1 {
				return bad(cc, "default is not a single return statusFromError(…)")
			}
			rs, isRet := cc.Body[0].(*ast.ReturnStmt)
			if !isRet || len(rs.Results) != 1 || !strings.HasPrefix(o.t(rs.Results[0]), "statusFromError(") {
				return bad(cc, "default is not a single return statusFromError(…)")
			}
			sawDefault = true
			def = "error"
			continue
		}
		var mc ofMethCase
		for _, e := range cc.List {
			f, okf := fieldOf(e)
			if !okf {
				return bad(e, "case label is not "+flagsVar+".<Field>")
			}
			mc.fields = append(mc.fields, f)
		}
		body := cc.Body
		var pend []ofUpgrade
		if len(body) > 0 {
			if is, isIf := body[0].(*ast.IfStmt); isIf {
				f, okf := fieldOf(is.Cond)
				if !okf || is.Init != nil || is.Else != nil || len(is.Body.List) != 1 {
					return bad(is, "leading if is not `if "+flagsVar+".<Field> { if x, ok := h.H.(IFACE); ok { … } }`")
				}
				inner, isIf2 := is.Body.List[0].(*ast.IfStmt)
				if !isIf2 || inner.Init == nil || inner.Else != nil || !isIdentNamed(inner.Cond, "ok") {
					return bad(is, "leading if is not `if "+flagsVar+".<Field> { if x, ok := h.H.(IFACE); ok { … } }`")
				}
				ia, isAs := inner.Init.(*ast.AssignStmt)
				if !isAs || len(ia.Lhs) != 2 || len(ia.Rhs) != 1 || !isIdentNamed(ia.Lhs[1], "ok") {
					return bad(inner.Init, "not a comma-ok type assertion")
				}
				ta, isTA := ia.Rhs[0].(*ast.TypeAssertExpr)
				if !isTA || ta.Type == nil {
					return bad(inner.Init, "not a comma-ok type assertion")
				}
				ib := inner.Body.List
				if len(ib) < 2 {
					return bad(inner.Body, "upgrade branch too short")
				}
				m2, okm := methAssign(ib[0])
				if !okm {
					return bad(ib[0], "upgrade branch does not start with "+recv+".Method = \"…\"")
				}
				if _, isRet := ib[len(ib)-1].(*ast.ReturnStmt); !isRet {
					return bad(inner.Body, "upgrade branch does not end in return (would fall through to the base method)")
				}
				for _, s := range ib[1:] {
					if o.mentions(s, "Method") {
						return bad(s, "further use of Method in the upgrade branch")
					}
				}
				recognised++
				pend = append(pend, ofUpgrade{"", f, typeName(ta.Type), m2})
				body = body[1:]
			}
		}
		if len(body) == 0 {
			return bad(cc, "case without "+recv+".Method = \"…\"")
		}
		m, okm := methAssign(body[0])
		if !okm {
			return bad(body[0], "case does not start with "+recv+".Method = \"…\"")
		}
		recognised++
		for _, s := range body[1:] {
			if o.mentions(s, "Method") {
				return bad(s, "further use of Method in the case")
			}
		}
		mc.method = m
		for _, p := range pend {
			p.base = m
			ups = append(ups, p)
		}
		cases = append(cases, mc)
	}
	if !sawDefault {
		return bad(sw, "switch without default (unclassified flag words would get a handle without a handler call)")
	}
	if recognised != total {
		return bad(fd.Body, fmt.Sprintf("%d assignments to %s.Method, %d recognised", total, recv, recognised))
	}
	// requestMethod leaves OPEN's method to Request.open
	if rm := pi.funcDecl("requestMethod"); rm == nil {
		u.fail("requestMethod not found")
		return nil, nil, "", src, false
	} else {
		found, sets := false, false
		ast.Inspect(rm.Body, func(n ast.Node) bool {
			cc, isCC := n.(*ast.CaseClause)
			if !isCC {
				return true
			}
			for _, e := range cc.List {
				if typeName(e) == "sshFxpOpenPacket" {
					found = true
					if len(cc.Body) != 0 {
						u.fail("requestMethod: the clause of *sshFxpOpenPacket sets a method itself (%s)", pi.pos(cc))
						sets = true
					}
				}
			}
			return true
		})
		if !found {
			u.fail("requestMethod: no clause for *sshFxpOpenPacket")
		}
		if !found || sets {
			return nil, nil, "", src, false
		}
	}
	return cases, ups, def, src, true
}

func extractOpenFlags(x *extractor) {
	u := x.newUnit("OpenFlags")
	o := &ofX{pi: x.root, u: u, osVals: map[string]int64{}, pfVals: map[string]int64{}}
	u.pf("namespace Sftp.G\n\n")

	// --- client
	crules, csrc, _ := o.clientToPflags()
	u.pf("-- source: %s  toPflags; one row per `case C:` of the access-mode switch and per `if f&C == C`\n", csrc)
	u.pf("def clientToPflags : List (String × String) := %s\n", ofLeanPairs(ofRulePairs(crules)))
	u.pf("/-- numeric form: (conds, bits): if every (isEq, mask, want) of conds holds of the os flag word `f`\n")
	u.pf("    (`f &&& mask == want` for isEq = true, `f &&& mask != want` for false) then `bits` are OR-ed into the pflags -/\n")
	u.pf("def clientToPflagsN : List (List (Bool × Nat × Nat) × Nat) := %s\n\n", ofLeanRules(crules))

	calls, callsrc, callsOK := o.clientCalls()
	if !callsOK {
		calls = nil
	}
	var cp [][2]string
	var cn []string
	for _, c := range calls {
		cp = append(cp, [2]string{c.name, c.disp})
		if c.passThru {
			cn = append(cn, fmt.Sprintf("(%s, none)", leanStr(c.name)))
		} else {
			cn = append(cn, fmt.Sprintf("(%s, some %d)", leanStr(c.name), c.val))
		}
	}
	u.pf("-- source: %s  every caller of toPflags: `return c.open(path, toPflags(ARG))`\n", callsrc)
	u.pf("def clientOpenCalls : List (String × String) := %s\n", ofLeanPairs(cp))
	u.pf("/-- numeric form; `none` = the caller's own flag argument, unchanged -/\n")
	u.pf("def clientOpenCallsN : List (String × Option Nat) := [%s]\n", strings.Join(cn, ", "))
	u.pf("-- source: client.go Client.open: sshFxpOpenPacket{… Pflags: pflags}\n")
	u.pf("def clientSendsPflagsVerbatim : Bool := %s\n\n", leanBool(o.clientSendsVerbatim()))

	// --- server
	srv, _ := o.server()
	var sp [][2]string
	sp = append(sp, ofRulePairs(srv.access)...)
	if srv.accessElse != "" {
		sp = append(sp, [2]string{"else", "error:" + srv.accessElse})
	}
	sp = append(sp, ofRulePairs(srv.bits)...)
	for _, n := range srv.ignored {
		sp = append(sp, [2]string{n, ""})
	}
	u.pf("-- source: %s  (*sshFxpOpenPacket).respond; access-mode if/else chain (first match), its final else,\n", srv.src)
	u.pf("--   the single-flag clauses, and one row (P, \"\") for every sshFxf* constant respond never tests (= ignored)\n")
	u.pf("def serverFromPflags : List (String × String) := %s\n", ofLeanPairs(sp))
	u.pf("/-- first matching row gives the access mode; no row matches = request refused with `serverAccessElse` -/\n")
	u.pf("def serverAccessN : List (List (Bool × Nat × Nat) × Nat) := %s\n", ofLeanRules(srv.access))
	u.pf("def serverAccessElse : String := %s\n", leanStr(srv.accessElse))
	u.pf("/-- every matching row's bits are OR-ed in -/\n")
	u.pf("def serverBitsN : List (List (Bool × Nat × Nat) × Nat) := %s\n", ofLeanRules(srv.bits))
	u.pf("def serverIgnoredPflags : List String := %s\n", leanStrList(srv.ignored))
	u.pf("/-- respond hands the word to svr.openfile unchanged and (linux build) openfile is os.OpenFile(path, flag, mode) -/\n")
	u.pf("def serverPassesFlagsVerbatim : Bool := %s\n\n", leanBool(srv.verbatim))

	// --- handlers
	fields, structFields, viaFlags, hsrc, _ := o.handlerFields()
	var hp [][2]string
	var hn []string
	for _, f := range fields {
		hp = append(hp, [2]string{f.field, f.pname})
		hn = append(hn, fmt.Sprintf("(%s, %d)", leanStr(f.field), f.mask))
	}
	u.pf("-- source: %s  newFileOpenFlags: Field: flags&C != 0\n", hsrc)
	u.pf("def handlerFlagFields : List (String × String) := %s\n", ofLeanPairs(hp))
	u.pf("def handlerFlagFieldsN : List (String × Nat) := [%s]\n", strings.Join(hn, ", "))
	u.pf("def fileOpenFlagsStructFields : List String := %s\n", leanStrList(structFields))
	u.pf("/-- Request.Pflags() is newFileOpenFlags(r.Flags) -/\n")
	u.pf("def requestPflagsFromFlags : Bool := %s\n\n", leanBool(viaFlags))

	// --- method rule
	mcases, ups, def, msrc, _ := o.methodRule()
	var mp [][2]string
	var mc, mu []string
	for _, c := range mcases {
		for _, up := range ups {
			if up.base == c.method {
				mp = append(mp, [2]string{strings.Join(c.fields, "|") + " & " + up.field + " & " + up.iface, up.method})
			}
		}
		mp = append(mp, [2]string{strings.Join(c.fields, "|"), c.method})
		mc = append(mc, fmt.Sprintf("(%s, %s)", leanStrList(c.fields), leanStr(c.method)))
	}
	if def != "" {
		mp = append(mp, [2]string{"default", def})
	}
	for _, up := range ups {
		mu = append(mu, fmt.Sprintf("(%s, %s, %s, %s)", leanStr(up.base), leanStr(up.field), leanStr(up.iface), leanStr(up.method)))
	}
	u.pf("-- source: %s  Request.open: tagless switch over FileOpenFlags fields (first match); requestMethod leaves OPEN to it\n", msrc)
	u.pf("def openMethodRule : List (String × String) := %s\n", ofLeanPairs(mp))
	u.pf("/-- (fields, method): first row with one of its fields set -/\n")
	u.pf("def openMethodCases : List (List String × String) := [%s]\n", strings.Join(mc, ", "))
	u.pf("def openMethodDefault : String := %s\n", leanStr(def))
	u.pf("/-- (base method, field, optional handler interface, method): inside the base case, if the field is set and\n")
	u.pf("    the handler implements the interface, the method is the last component instead -/\n")
	u.pf("def openMethodUpgrades : List (String × String × String × String) := [%s]\n\n", strings.Join(mu, ", "))

	// --- constant values met on the way (go/types; os.* for linux/amd64)
	emitVals := func(name string, m map[string]int64) {
		var ks []string
		for k := range m {
			ks = append(ks, k)
		}
		sort.Slice(ks, func(i, j int) bool {
			if m[ks[i]] != m[ks[j]] {
				return m[ks[i]] < m[ks[j]]
			}
			return ks[i] < ks[j]
		})
		var p []string
		for _, k := range ks {
			p = append(p, fmt.Sprintf("(%s, %d)", leanStr(k), m[k]))
		}
		u.pf("def %s : List (String × Nat) := [%s]\n", name, strings.Join(p, ", "))
	}
	u.pf("-- go/types constant values of every os.* / sshFxf* name used above (GOOS=linux GOARCH=amd64)\n")
	emitVals("openOsFlagValues", o.osVals)
	emitVals("openPflagValues", o.pfVals)
	u.pf("\nend Sftp.G\n")
}
