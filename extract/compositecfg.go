package main

// Unit CompositeCfg: the facts of client.go `(*Client).Remove`, `(*Client).MkdirAll`, `(*Client).RemoveAll`
// (and of the two server.go handlePacket cases they talk to) on which Sftp/Model/Composite.lean depends (C05).
//
// Every field of `Sftp.Composite.CompositeCfg` is read off ONE statement (or its absence) of these functions.
// The functions are matched statement by statement against a closed list of shapes; local names (errF, errD,
// fi, dir, files, file, i, j, the parameter, the receiver) are BOUND from the statements that introduce them,
// so that a rename is not a change.  Anything else is a failure: the unit is reported as broken AND the fields
// of the function concerned get neutral values chosen so that the hypothesis of the instantiation theorem
// (RemoveCfgOk / MkdirAllCfgOk / RemoveAllCfgOk) is false.

import (
	"fmt"
	"go/ast"
	"go/token"
	"strings"
)

func init() { extractors = append(extractors, extractCompositeCfg) }

// ccM is the matcher for one section (one Go function): failures are recorded on the unit and on the section.
type ccM struct {
	pi    *pkgInfo
	u     *unit
	recv  string // receiver name of the function being matched
	bad   bool
	notes *[]string
}

func (m *ccM) t(n ast.Node) string { return m.pi.nodeText(n) }

func (m *ccM) fail(format string, a ...any) {
	m.bad = true
	m.u.fail(format, a...)
}

func (m *ccM) note(format string, a ...any) { *m.notes = append(*m.notes, fmt.Sprintf(format, a...)) }

// ccFunc: the declaration of Client.<name>, its receiver name and its single string parameter.
func ccFunc(pi *pkgInfo, name string) (fd *ast.FuncDecl, recv, param string, ok bool) {
	fd = pi.funcDecl("Client." + name)
	if fd == nil || fd.Body == nil || fd.Recv == nil || len(fd.Recv.List) != 1 || len(fd.Recv.List[0].Names) != 1 {
		return fd, "", "", false
	}
	recv = fd.Recv.List[0].Names[0].Name
	ps := fd.Type.Params.List
	if len(ps) != 1 || len(ps[0].Names) != 1 || exprString(ps[0].Type) != "string" {
		return fd, recv, "", false
	}
	return fd, recv, ps[0].Names[0].Name, true
}

// recvCall: `recv.Method(args…)`.
func (m *ccM) recvCall(e ast.Expr) (meth string, args []ast.Expr, ok bool) {
	c, isCall := e.(*ast.CallExpr)
	if !isCall {
		return "", nil, false
	}
	sel, isSel := c.Fun.(*ast.SelectorExpr)
	if !isSel {
		return "", nil, false
	}
	id, isId := sel.X.(*ast.Ident)
	if !isId || id.Name != m.recv {
		return "", nil, false
	}
	return sel.Sel.Name, c.Args, true
}

// asgCall: `l1[, l2] := recv.Method(arg)` (or `=`): the names on the left, the token, the method, the text of
// the single argument.
func (m *ccM) asgCall(s ast.Stmt) (lhs []string, tok token.Token, meth, arg string, ok bool) {
	as, isAs := s.(*ast.AssignStmt)
	if !isAs || len(as.Rhs) != 1 || (as.Tok != token.DEFINE && as.Tok != token.ASSIGN) {
		return nil, 0, "", "", false
	}
	for _, l := range as.Lhs {
		id, isId := l.(*ast.Ident)
		if !isId {
			return nil, 0, "", "", false
		}
		lhs = append(lhs, id.Name)
	}
	meth, args, isCall := m.recvCall(as.Rhs[0])
	if !isCall || len(args) != 1 {
		return nil, 0, "", "", false
	}
	return lhs, as.Tok, meth, m.t(args[0]), true
}

func (m *ccM) isText(s ast.Stmt, format string, a ...any) bool {
	return m.t(s) == fmt.Sprintf(format, a...)
}

// callProp: "call a method of the client and return its error if any", in one of the forms
//
//	if err := c.M(A); err != nil { return err }
//	err = c.M(A)  |  err := c.M(A)      followed by      if err != nil { return err }
//
// Returns the method, the text of the argument and the number of statements consumed (0 = no match).
func (m *ccM) callProp(ss []ast.Stmt, i int) (meth, arg string, n int) {
	if i >= len(ss) {
		return "", "", 0
	}
	if ifs, ok := ss[i].(*ast.IfStmt); ok && ifs.Init != nil && ifs.Else == nil {
		lhs, tok, me, a, ok := m.asgCall(ifs.Init)
		if ok && tok == token.DEFINE && len(lhs) == 1 && m.t(ifs.Cond) == lhs[0]+" != nil" &&
			len(ifs.Body.List) == 1 && m.isText(ifs.Body.List[0], "return %s", lhs[0]) {
			return me, a, 1
		}
		return "", "", 0
	}
	lhs, _, me, a, ok := m.asgCall(ss[i])
	if ok && len(lhs) == 1 && i+1 < len(ss) && m.isText(ss[i+1], "if %s != nil { return %s }", lhs[0], lhs[0]) {
		return me, a, 2
	}
	return "", "", 0
}

// ---------------------------------------------------------------------------------------------------------
// the primitives: which packet a client method sends, how the status reply becomes the returned error
// ---------------------------------------------------------------------------------------------------------

type ccPrim struct {
	method    string
	pkt       string // packet struct sent
	field     string // the field of the packet that carries the path argument
	errShape  string // "normalised" | "normalised,PathError" | "statusOrUnexpectedOK" | "via:<method>" | "?"
	srvCalls  []string
	srvStatus bool // the server case answers with statusFromError(p.ID, err)
	pos       string
}

// ccPrimOf reads `typ, data, err := c.sendPacket(ctx, nil, &T{ID: id, F: param})` and the `case sshFxpStatus:` arm.
func ccPrimOf(m *ccM, name string) ccPrim {
	p := ccPrim{method: name, errShape: "?"}
	pi := m.pi
	fd := pi.funcDecl("Client." + name)
	if fd == nil || fd.Body == nil || len(fd.Recv.List[0].Names) != 1 || len(fd.Type.Params.List) != 1 ||
		len(fd.Type.Params.List[0].Names) != 1 {
		m.fail("Client.%s: not found (or not a one-parameter method)", name)
		return p
	}
	p.pos = pi.pos(fd)
	recv := fd.Recv.List[0].Names[0].Name
	param := fd.Type.Params.List[0].Names[0].Name
	// delegation: `fs, err := c.stat(p); if err != nil { return nil, err }; return fileInfoFromStat(fs, path.Base(p)), nil`
	if len(fd.Body.List) == 3 {
		sub := &ccM{pi: pi, u: m.u, recv: recv, notes: m.notes}
		lhs, tok, meth, arg, ok := sub.asgCall(fd.Body.List[0])
		if ok && tok == token.DEFINE && len(lhs) == 2 && arg == param &&
			sub.isText(fd.Body.List[1], "if %s != nil { return nil, %s }", lhs[1], lhs[1]) &&
			sub.isText(fd.Body.List[2], "return fileInfoFromStat(%s, path.Base(%s)), nil", lhs[0], param) {
			q := ccPrimOf(m, meth)
			q.method = name
			q.errShape = q.errShape + ",via:" + meth
			return q
		}
	}
	sends := 0
	ast.Inspect(fd.Body, func(n ast.Node) bool {
		c, ok := n.(*ast.CallExpr)
		if !ok || exprString(c.Fun) != recv+".sendPacket" || len(c.Args) == 0 {
			return true
		}
		sends++
		ue, ok := c.Args[len(c.Args)-1].(*ast.UnaryExpr)
		if !ok || ue.Op != token.AND {
			return true
		}
		cl, ok := ue.X.(*ast.CompositeLit)
		if !ok {
			return true
		}
		p.pkt = typeName(cl.Type)
		for _, el := range cl.Elts {
			kv, ok := el.(*ast.KeyValueExpr)
			if !ok {
				p.field = "?"
				continue
			}
			k, v := exprString(kv.Key), pi.nodeText(kv.Value)
			switch {
			case v == param && p.field == "":
				p.field = k
			case k == "ID":
			default:
				p.field = "?" // another field is set: not the bare request of the model
			}
		}
		return true
	})
	if sends != 1 || p.pkt == "" || p.field == "" || p.field == "?" {
		m.fail("Client.%s: does not send exactly one `&T{ID: id, <Field>: %s}` packet (%s)", name, param, p.pos)
		return p
	}
	// the status arm
	var arm []ast.Stmt
	arms := 0
	ast.Inspect(fd.Body, func(n ast.Node) bool {
		sw, ok := n.(*ast.SwitchStmt)
		if !ok || sw.Tag == nil || pi.nodeText(sw.Tag) != "typ" {
			return true
		}
		for _, c := range sw.Body.List {
			cc := c.(*ast.CaseClause)
			for _, e := range cc.List {
				if exprString(e) == "sshFxpStatus" {
					arm = cc.Body
					arms++
				}
			}
		}
		return false
	})
	var texts []string
	for _, s := range arm {
		texts = append(texts, pi.nodeText(s))
	}
	joined := strings.Join(texts, "; ")
	switch {
	case arms != 1:
	case joined == "return normaliseError(unmarshalStatus(id, data))":
		p.errShape = "normalised"
	case len(texts) == 3 && texts[0] == "err = normaliseError(unmarshalStatus(id, data))" &&
		texts[1] == "if err == nil { return nil }" &&
		strings.HasPrefix(texts[2], "return &os.PathError{") && strings.Contains(texts[2], "Err: err"):
		p.errShape = "normalised,PathError"
	case joined == "return nil, statusOrUnexpectedOK(id, data)":
		want := "{ if err := normaliseError(unmarshalStatus(id, data)); err != nil { return err } return errUnexpectedOK }"
		if got := pi.bodyText(pi.funcDecl("statusOrUnexpectedOK")); got == want {
			p.errShape = "normalised"
		} else {
			m.fail("statusOrUnexpectedOK: unexpected body %q", got)
		}
	}
	if p.errShape == "?" {
		m.fail("Client.%s: the `case sshFxpStatus:` arm is not one of the known shapes: %q (%s)", name, joined, p.pos)
	}
	return p
}

// ccServerCase fills in what server.go handlePacket does for the packet of the primitive.
func ccServerCase(m *ccM, p *ccPrim) {
	pi := m.pi
	fd := pi.funcDecl("handlePacket")
	if fd == nil {
		m.fail("handlePacket not found")
		return
	}
	found := 0
	for _, s := range fd.Body.List {
		ts, ok := s.(*ast.TypeSwitchStmt)
		if !ok {
			continue
		}
		for _, c := range ts.Body.List {
			cc := c.(*ast.CaseClause)
			for _, e := range cc.List {
				if typeName(e) != p.pkt {
					continue
				}
				found++
				if len(cc.List) != 1 {
					m.fail("handlePacket: case %s shares its body with other types (%s)", p.pkt, pi.pos(cc))
					continue
				}
				p.srvCalls = collectCalls(pi, cc)
				// the two-statement cases: `err := CALL(…)` ; `rpkt = statusFromError(p.ID, err)`
				if len(cc.Body) == 2 && pi.nodeText(cc.Body[1]) == "rpkt = statusFromError(p.ID, err)" {
					if as, ok := cc.Body[0].(*ast.AssignStmt); ok && as.Tok == token.DEFINE && len(as.Lhs) == 1 &&
						pi.nodeText(as.Lhs[0]) == "err" {
						p.srvStatus = true
					}
				}
			}
		}
	}
	if found != 1 {
		m.fail("handlePacket: %d cases for %s", found, p.pkt)
	}
}

// ---------------------------------------------------------------------------------------------------------
// Client.Remove
// ---------------------------------------------------------------------------------------------------------

type ccRemove struct {
	fallbackOn                            []string
	compare, stats, follows, dirGivesErrD bool
}

var ccAllErrKinds = []string{"notExist", "permission", "failure"}

// ccGuardCond evaluates a guard condition over what the caller can tell about errF, for one error kind.
// Closed list of atoms: os.IsNotExist(F), os.IsPermission(F), errors.Is(F, os.ErrNotExist), errors.Is(F, os.ErrPermission).
func ccGuardCond(m *ccM, e ast.Expr, f, kind string) (bool, bool) {
	switch t := e.(type) {
	case *ast.ParenExpr:
		return ccGuardCond(m, t.X, f, kind)
	case *ast.UnaryExpr:
		if t.Op == token.NOT {
			v, ok := ccGuardCond(m, t.X, f, kind)
			return !v, ok
		}
	case *ast.BinaryExpr:
		if t.Op == token.LAND || t.Op == token.LOR {
			a, ok1 := ccGuardCond(m, t.X, f, kind)
			b, ok2 := ccGuardCond(m, t.Y, f, kind)
			if t.Op == token.LAND {
				return a && b, ok1 && ok2
			}
			return a || b, ok1 && ok2
		}
	case *ast.CallExpr:
		switch m.t(t) {
		case "os.IsNotExist(" + f + ")", "errors.Is(" + f + ", os.ErrNotExist)":
			return kind == "notExist", true
		case "os.IsPermission(" + f + ")", "errors.Is(" + f + ", os.ErrPermission)":
			return kind == "permission", true
		}
	}
	return false, false
}

func ccMatchRemove(m *ccM, fd *ast.FuncDecl, P string, wraps bool) (r ccRemove) {
	ss := fd.Body.List
	where := m.pi.pos(fd)
	// no fallback at all: `return c.removeFile(P)`
	if len(ss) == 1 && m.isText(ss[0], "return %s.removeFile(%s)", m.recv, P) {
		return r
	}
	if len(ss) < 3 {
		m.fail("Client.Remove: too few statements (%s)", where)
		return r
	}
	lhs, tok, meth, arg, ok := m.asgCall(ss[0])
	if !ok || tok != token.DEFINE || len(lhs) != 1 || meth != "removeFile" || arg != P {
		m.fail("Client.Remove: first statement is not `errF := %s.removeFile(%s)`: %q (%s)", m.recv, P, m.t(ss[0]), m.pi.pos(ss[0]))
		return r
	}
	F := lhs[0]
	if !m.isText(ss[1], "if %s == nil { return nil }", F) {
		m.fail("Client.Remove: second statement is not `if %s == nil { return nil }`: %q (%s)", F, m.t(ss[1]), m.pi.pos(ss[1]))
		return r
	}
	i := 2
	// guards `if COND { return errF }` narrow the set of outcomes that go on to RemoveDirectory
	on := map[string]bool{"notExist": true, "permission": true, "failure": true}
	for i < len(ss) {
		g, isIf := ss[i].(*ast.IfStmt)
		if !isIf || g.Init != nil || g.Else != nil || len(g.Body.List) != 1 || !m.isText(g.Body.List[0], "return %s", F) {
			break
		}
		for _, k := range ccAllErrKinds {
			v, ok := ccGuardCond(m, g.Cond, F, k)
			if !ok {
				m.fail("Client.Remove: guard condition %q is outside the closed list (os.IsNotExist / os.IsPermission / errors.Is(…, os.ErrNotExist|os.ErrPermission), !, &&, ||) (%s)",
					m.t(g.Cond), m.pi.pos(g))
				return r
			}
			if v {
				on[k] = false
			}
		}
		i++
	}
	if i == len(ss)-1 && m.isText(ss[i], "return %s", F) {
		return r // errF returned as it is: no fallback
	}
	if i+1 >= len(ss) {
		m.fail("Client.Remove: statements after the removeFile check not recognised (%s)", where)
		return r
	}
	lhs, tok, meth, arg, ok = m.asgCall(ss[i])
	if !ok || tok != token.DEFINE || len(lhs) != 1 || meth != "RemoveDirectory" || arg != P {
		m.fail("Client.Remove: expected `errD := %s.RemoveDirectory(%s)`, found %q (%s)", m.recv, P, m.t(ss[i]), m.pi.pos(ss[i]))
		return r
	}
	D := lhs[0]
	if D == F || !m.isText(ss[i+1], "if %s == nil { return nil }", D) {
		m.fail("Client.Remove: expected `if %s == nil { return nil }`, found %q (%s)", D, m.t(ss[i+1]), m.pi.pos(ss[i+1]))
		return r
	}
	i += 2
	for _, k := range ccAllErrKinds {
		if on[k] {
			r.fallbackOn = append(r.fallbackOn, k)
		}
	}
	neutral := ccRemove{}
	// optional: the errors.Is comparison of the two *os.PathError
	if i < len(ss) {
		if g, isIf := ss[i].(*ast.IfStmt); isIf && g.Init != nil {
			okShape := false
			if as, isAs := g.Init.(*ast.AssignStmt); isAs && as.Tok == token.DEFINE && len(as.Lhs) == 2 && g.Else == nil &&
				m.t(as.Lhs[1]) == "ok" && m.t(as.Rhs[0]) == F+".(*os.PathError)" && m.t(g.Cond) == "ok" && len(g.Body.List) == 1 {
				X := m.t(as.Lhs[0])
				if g2, isIf2 := g.Body.List[0].(*ast.IfStmt); isIf2 && g2.Init != nil && g2.Else == nil {
					if as2, isAs2 := g2.Init.(*ast.AssignStmt); isAs2 && as2.Tok == token.DEFINE && len(as2.Lhs) == 2 &&
						m.t(as2.Lhs[1]) == "ok" && m.t(as2.Rhs[0]) == D+".(*os.PathError)" {
						Y := m.t(as2.Lhs[0])
						if m.t(g2.Cond) == fmt.Sprintf("ok && errors.Is(%s.Err, %s.Err)", X, Y) &&
							len(g2.Body.List) == 1 && (m.isText(g2.Body.List[0], "return %s", X) || m.isText(g2.Body.List[0], "return %s", F)) {
							okShape = true
						}
					}
				}
			}
			if !okShape {
				m.fail("Client.Remove: the `if errF, ok := %s.(*os.PathError); ok { if errD, ok := %s.(*os.PathError); ok && errors.Is(errF.Err, errD.Err) { return errF } }` block has another shape (%s)",
					F, D, m.pi.pos(g))
				return neutral
			}
			r.compare = wraps
			if !wraps {
				m.note("Client.Remove: the errors.Is comparison is present but removeFile/RemoveDirectory do not both return *os.PathError: it never fires (rmCompare := false)")
			}
			i++
		}
	}
	// optional: fi, err := c.Stat(P); if err != nil { return err }
	fi := ""
	if i+1 < len(ss) {
		if lhs, tok, meth, arg, ok := m.asgCall(ss[i]); ok {
			if tok != token.DEFINE || len(lhs) != 2 || (meth != "Stat" && meth != "Lstat") || arg != P ||
				!m.isText(ss[i+1], "if %s != nil { return %s }", lhs[1], lhs[1]) {
				m.fail("Client.Remove: expected `fi, err := %s.Stat(%s); if err != nil { return err }`, found %q; %q (%s)",
					m.recv, P, m.t(ss[i]), m.t(ss[i+1]), m.pi.pos(ss[i]))
				return neutral
			}
			fi = lhs[0]
			r.stats, r.follows = true, meth == "Stat"
			i += 2
		}
	}
	// the tail
	if fi == "" {
		if i == len(ss)-1 && m.isText(ss[i], "return %s", F) {
			return r
		}
		m.fail("Client.Remove: without a stat the tail must be `return %s` (the model has no other choice) (%s)", F, where)
		return neutral
	}
	if i == len(ss)-2 {
		switch {
		case m.isText(ss[i], "if %s.IsDir() { return %s }", fi, D) && m.isText(ss[i+1], "return %s", F):
			r.dirGivesErrD = true
			return r
		case m.isText(ss[i], "if %s.IsDir() { return %s }", fi, F) && m.isText(ss[i+1], "return %s", D):
			r.dirGivesErrD = false
			return r
		}
	}
	m.fail("Client.Remove: tail is not `if %s.IsDir() { return %s }; return %s` (or the converse) (%s)", fi, D, F, where)
	return neutral
}

// ---------------------------------------------------------------------------------------------------------
// Client.MkdirAll
// ---------------------------------------------------------------------------------------------------------

type ccMkdirAll struct {
	statFirst, statFollows, dirIsNil bool
	fileErr                          string
	parents, recheck                 bool
}

// ccRetKind: what the caller sees of a returned error expression (closed list).
func ccRetKind(m *ccM, e ast.Expr) (string, bool) {
	txt := m.t(e)
	switch txt {
	case "nil":
		return "ok", true
	case "syscall.ENOTDIR":
		return "enotdir", true
	case "os.ErrNotExist":
		return "notExist", true
	case "os.ErrPermission":
		return "permission", true
	}
	if ue, ok := e.(*ast.UnaryExpr); ok && ue.Op == token.AND {
		if cl, ok := ue.X.(*ast.CompositeLit); ok && exprString(cl.Type) == "os.PathError" {
			for _, el := range cl.Elts {
				if kv, ok := el.(*ast.KeyValueExpr); ok && exprString(kv.Key) == "Err" {
					if k, ok := ccRetKind(m, kv.Value); ok && k != "ok" {
						return k, true
					}
				}
			}
		}
	}
	return "", false
}

func ccSingleReturn(s ast.Stmt) (ast.Expr, bool) {
	r, ok := s.(*ast.ReturnStmt)
	if !ok || len(r.Results) != 1 {
		return nil, false
	}
	return r.Results[0], true
}

func ccMatchMkdirAll(m *ccM, fd *ast.FuncDecl, P string) (r ccMkdirAll) {
	neutral := ccMkdirAll{fileErr: "ok"}
	r.fileErr = "ok" // no fast path: no locally built error (the field is only read when statFirst)
	ss := fd.Body.List
	where := m.pi.pos(fd)
	if len(ss) == 0 {
		m.fail("Client.MkdirAll: empty body (%s)", where)
		return neutral
	}
	i := 0
	// ---- the fast path ----
	if lhs, tok, meth, arg, ok := m.asgCall(ss[0]); ok && (meth == "Stat" || meth == "Lstat") {
		if tok != token.DEFINE || len(lhs) != 2 || arg != P || len(ss) < 2 {
			m.fail("Client.MkdirAll: expected `dir, err := %s.Stat(%s)`, found %q (%s)", m.recv, P, m.t(ss[0]), m.pi.pos(ss[0]))
			return neutral
		}
		dir, err := lhs[0], lhs[1]
		g, isIf := ss[1].(*ast.IfStmt)
		if !isIf || g.Init != nil || g.Else != nil || m.t(g.Cond) != err+" == nil" {
			m.fail("Client.MkdirAll: expected `if %s == nil { … }` after the Stat, found %q (%s)", err, m.t(ss[1]), m.pi.pos(ss[1]))
			return neutral
		}
		// body: [if [!]dir.IsDir() { return A }] return B
		var dirRet, fileRet ast.Expr
		b := g.Body.List
		switch {
		case len(b) == 1:
			if e, ok := ccSingleReturn(b[0]); ok {
				dirRet, fileRet = e, e
			}
		case len(b) == 2:
			g2, isIf2 := b[0].(*ast.IfStmt)
			e2, okB := ccSingleReturn(b[1])
			if isIf2 && okB && g2.Init == nil && g2.Else == nil && len(g2.Body.List) == 1 {
				if e1, okA := ccSingleReturn(g2.Body.List[0]); okA {
					switch m.t(g2.Cond) {
					case dir + ".IsDir()":
						dirRet, fileRet = e1, e2
					case "!" + dir + ".IsDir()":
						dirRet, fileRet = e2, e1
					}
				}
			}
		}
		if dirRet == nil {
			m.fail("Client.MkdirAll: the body of the fast path is not `[if [!]%s.IsDir() { return A }] return B` (%s)", dir, m.pi.pos(g))
			return neutral
		}
		dk, ok1 := ccRetKind(m, dirRet)
		fk, ok2 := ccRetKind(m, fileRet)
		if !ok1 || !ok2 {
			m.fail("Client.MkdirAll: a value returned by the fast path is outside the closed list (nil, &os.PathError{… Err: syscall.ENOTDIR|os.ErrNotExist|os.ErrPermission}): %q / %q (%s)",
				m.t(dirRet), m.t(fileRet), m.pi.pos(g))
			return neutral
		}
		r.statFirst, r.statFollows = true, meth == "Stat"
		switch {
		case dk == "ok":
			r.dirIsNil, r.fileErr = true, fk
		case fk == "ok":
			r.dirIsNil, r.fileErr = false, dk
		default:
			m.fail("Client.MkdirAll: the fast path returns an error for a directory AND for a non-directory: not representable (%s)", m.pi.pos(g))
			return neutral
		}
		i = 2
	}
	// ---- the index scan:  i := len(P); for i > 0 && P[i-1] == '/' { i-- }; j := i; for j > 0 && P[j-1] != '/' { j-- } ----
	J := ""
	if i+3 < len(ss) {
		if as, ok := ss[i].(*ast.AssignStmt); ok && as.Tok == token.DEFINE && len(as.Lhs) == 1 && m.t(as.Rhs[0]) == "len("+P+")" {
			I := m.t(as.Lhs[0])
			if as2, ok := ss[i+2].(*ast.AssignStmt); ok && as2.Tok == token.DEFINE && len(as2.Lhs) == 1 && m.t(as2.Rhs[0]) == I {
				jj := m.t(as2.Lhs[0])
				if m.isText(ss[i+1], "for %s > 0 && %s[%s-1] == '/' { %s-- }", I, P, I, I) &&
					m.isText(ss[i+3], "for %s > 0 && %s[%s-1] != '/' { %s-- }", jj, P, jj, jj) {
					J = jj
					i += 4
				} else {
					m.fail("Client.MkdirAll: the scan for the last path element is not the expected pair of loops (%s)", m.pi.pos(ss[i+1]))
					return neutral
				}
			}
		}
	}
	// ---- the parents:  if j > 1 { err = c.MkdirAll(P[0 : j-1]); if err != nil { return err } } ----
	if i < len(ss) {
		if g, isIf := ss[i].(*ast.IfStmt); isIf && g.Init == nil && J != "" && strings.HasPrefix(m.t(g.Cond), J+" ") {
			if m.t(g.Cond) != J+" > 1" || g.Else != nil {
				m.fail("Client.MkdirAll: the parent is created under the condition %q, expected `%s > 1` (%s)", m.t(g.Cond), J, m.pi.pos(g))
				return neutral
			}
			meth, arg, n := m.callProp(g.Body.List, 0)
			if n == 0 || n != len(g.Body.List) || meth != "MkdirAll" || (arg != fmt.Sprintf("%s[0 : %s-1]", P, J) && arg != fmt.Sprintf("%s[:%s-1]", P, J)) {
				m.fail("Client.MkdirAll: the body of `if %s > 1` is not `err = %s.MkdirAll(%s[0 : %s-1]); if err != nil { return err }` (%s)", J, m.recv, P, J, m.pi.pos(g))
				return neutral
			}
			r.parents = true
			i++
		}
	}
	// ---- the Mkdir ----
	rest := ss[i:]
	if len(rest) == 1 && m.isText(rest[0], "return %s.Mkdir(%s)", m.recv, P) {
		return r
	}
	if len(rest) == 3 {
		lhs, _, meth, arg, ok := m.asgCall(rest[0])
		g, isIf := rest[1].(*ast.IfStmt)
		if ok && isIf && len(lhs) == 1 && meth == "Mkdir" && arg == P && g.Init == nil && g.Else == nil &&
			m.t(g.Cond) == lhs[0]+" != nil" && m.isText(rest[2], "return nil") {
			err := lhs[0]
			b := g.Body.List
			switch {
			case len(b) == 1 && m.isText(b[0], "return %s", err):
				return r
			case len(b) == 3 && m.isText(b[2], "return %s", err):
				l2, tok2, meth2, arg2, ok2 := m.asgCall(b[0])
				if ok2 && tok2 == token.DEFINE && len(l2) == 2 && arg2 == P && l2[1] != err {
					if meth2 != "Lstat" {
						m.fail("Client.MkdirAll: the re-check after a failed Mkdir uses %s.%s, the model has Lstat only (%s)", m.recv, meth2, m.pi.pos(b[0]))
						return neutral
					}
					if m.isText(b[1], "if %s == nil && %s.IsDir() { return nil }", l2[1], l2[0]) {
						r.recheck = true
						return r
					}
				}
			}
		}
	}
	m.fail("Client.MkdirAll: the statements from %s on are not `[scan] [if j > 1 {…}] err = %s.Mkdir(%s); if err != nil { [dir, err1 := %s.Lstat(%s); if err1 == nil && dir.IsDir() { return nil }] return err }; return nil` (%s)",
		m.pi.pos(ss[i]), m.recv, P, m.recv, P, where)
	return neutral
}

// ---------------------------------------------------------------------------------------------------------
// Client.RemoveAll
// ---------------------------------------------------------------------------------------------------------

type ccRemoveAll struct {
	lstat, noEntNil, childrenFirst, recurseDirs, removesNonDirs bool
}

// ccMatchRemoveAll: `self` is the name of the recursive method (RemoveAll, or removeAll when RemoveAll delegates).
func ccMatchRemoveAll(m *ccM, fd *ast.FuncDecl, P, self string) (r ccRemoveAll) {
	neutral := ccRemoveAll{}
	ss := fd.Body.List
	where := m.pi.pos(fd)
	if len(ss) < 3 {
		m.fail("Client.%s: too few statements (%s)", self, where)
		return neutral
	}
	lhs, tok, meth, arg, ok := m.asgCall(ss[0])
	if !ok || tok != token.DEFINE || len(lhs) != 2 || (meth != "Lstat" && meth != "Stat") || arg != P {
		m.fail("Client.%s: first statement is not `fi, err := %s.Lstat(%s)`: %q (%s)", self, m.recv, P, m.t(ss[0]), m.pi.pos(ss[0]))
		return neutral
	}
	fi, err := lhs[0], lhs[1]
	r.lstat = meth == "Lstat"
	i := 1
	isNoEnt := func(c ast.Expr) bool {
		t := m.t(c)
		return t == "os.IsNotExist("+err+")" || t == "errors.Is("+err+", os.ErrNotExist)"
	}
	switch {
	case m.isText(ss[1], "if %s != nil { return %s }", err, err):
		i = 2
	case func() bool { // if os.IsNotExist(err) { return nil }; if err != nil { return err }
		g, isIf := ss[1].(*ast.IfStmt)
		return isIf && g.Init == nil && g.Else == nil && isNoEnt(g.Cond) && len(g.Body.List) == 1 &&
			m.isText(g.Body.List[0], "return nil") && m.isText(ss[2], "if %s != nil { return %s }", err, err)
	}():
		r.noEntNil = true
		i = 3
	case func() bool { // if err != nil { if os.IsNotExist(err) { return nil }; return err }
		g, isIf := ss[1].(*ast.IfStmt)
		if !isIf || g.Init != nil || g.Else != nil || m.t(g.Cond) != err+" != nil" || len(g.Body.List) != 2 {
			return false
		}
		g2, isIf2 := g.Body.List[0].(*ast.IfStmt)
		return isIf2 && g2.Init == nil && g2.Else == nil && isNoEnt(g2.Cond) && len(g2.Body.List) == 1 &&
			m.isText(g2.Body.List[0], "return nil") && m.isText(g.Body.List[1], "return %s", err)
	}():
		r.noEntNil = true
		i = 2
	default:
		m.fail("Client.%s: the handling of the Lstat error is not `if %s != nil { return %s }` (optionally with `if os.IsNotExist(%s) { return nil }`): %q (%s)",
			self, err, err, err, m.t(ss[1]), m.pi.pos(ss[1]))
		return neutral
	}
	rest := ss[i:]
	isDirBlock := func(s ast.Stmt) *ast.IfStmt {
		g, isIf := s.(*ast.IfStmt)
		if isIf && g.Init == nil && g.Else == nil && m.t(g.Cond) == fi+".IsDir()" {
			return g
		}
		return nil
	}
	finalRemove := func(s ast.Stmt) bool { return m.isText(s, "return %s.Remove(%s)", m.recv, P) }
	var block *ast.IfStmt
	switch {
	case len(rest) == 1 && finalRemove(rest[0]):
		// no descent at all
		r.removesNonDirs = true
		return r
	case len(rest) == 2 && isDirBlock(rest[0]) != nil && finalRemove(rest[1]):
		block = isDirBlock(rest[0])
		r.childrenFirst = true
	case len(rest) >= 3 && isDirBlock(rest[len(rest)-2]) != nil && m.isText(rest[len(rest)-1], "return nil"):
		// c.Remove(P) first, the descent afterwards
		meth, arg, n := m.callProp(rest, 0)
		if n != len(rest)-2 || meth != "Remove" || arg != P {
			m.fail("Client.%s: statements between the Lstat and the directory block not recognised (%s)", self, m.pi.pos(rest[0]))
			return neutral
		}
		block = isDirBlock(rest[len(rest)-2])
		r.childrenFirst = false
		m.note("Client.%s: %s.Remove(%s) comes BEFORE the ReadDir loop: raChildrenFirst := false; the model with this bit false has no descent at all, the code still descends after a successful Remove (and then fails in ReadDir)", self, m.recv, P)
	default:
		m.fail("Client.%s: the statements after the Lstat are not `[if %s.IsDir() { … }] return %s.Remove(%s)` (%s)", self, fi, m.recv, P, where)
		return neutral
	}
	// the block: files, err := c.ReadDir(P); if err != nil { return err }; for _, file := range files { BODY }
	b := block.Body.List
	if len(b) != 3 {
		m.fail("Client.%s: the directory block is not `files, err := %s.ReadDir(%s); if err != nil { return err }; for … { … }` (%s)", self, m.recv, P, m.pi.pos(block))
		return neutral
	}
	lhs, tok, meth, arg, ok = m.asgCall(b[0])
	if !ok || tok != token.DEFINE || len(lhs) != 2 || meth != "ReadDir" || arg != P ||
		!m.isText(b[1], "if %s != nil { return %s }", lhs[1], lhs[1]) {
		m.fail("Client.%s: the directory block does not start with `files, err := %s.ReadDir(%s); if err != nil { return err }` followed by one loop (%s)", self, m.recv, P, m.pi.pos(block))
		return neutral
	}
	files := lhs[0]
	loop, isRange := b[2].(*ast.RangeStmt)
	if !isRange || loop.Tok != token.DEFINE || loop.Key == nil || m.t(loop.Key) != "_" || loop.Value == nil || m.t(loop.X) != files {
		m.fail("Client.%s: expected `for _, file := range %s` (%s)", self, files, m.pi.pos(b[2]))
		return neutral
	}
	file := m.t(loop.Value)
	child := func(a string) bool {
		return a == fmt.Sprintf("%s + \"/\" + %s.Name()", P, file) || a == fmt.Sprintf("%s.Join(%s, %s.Name())", m.recv, P, file)
	}
	// one arm: call-and-propagate on the child, nothing else
	arm := func(stmts []ast.Stmt) string {
		meth, arg, n := m.callProp(stmts, 0)
		if n == 0 || n != len(stmts) || !child(arg) {
			return ""
		}
		return meth
	}
	lb := loop.Body.List
	recognised := false
	if len(lb) == 1 {
		if g, isIf := lb[0].(*ast.IfStmt); isIf && g.Init == nil && m.t(g.Cond) == file+".IsDir()" {
			thenM := arm(g.Body.List)
			elseM := "none"
			if g.Else != nil {
				eb, isBlock := g.Else.(*ast.BlockStmt)
				switch {
				case !isBlock:
					elseM = ""
				case len(eb.List) == 0 || (len(eb.List) == 1 && m.isText(eb.List[0], "continue")):
					elseM = "none"
				default:
					elseM = arm(eb.List)
				}
			}
			switch {
			case thenM == self && elseM == "Remove":
				r.recurseDirs, r.removesNonDirs, recognised = true, true, true
			case thenM == self && elseM == "none":
				r.recurseDirs, r.removesNonDirs, recognised = true, false, true
				m.note("Client.%s: non-directory children are skipped: raRemovesNonDirs := false; the model with this bit false also leaves a non-directory `%s` itself alone, the code still ends with %s.Remove(%s)", self, P, m.recv, P)
			case thenM == "Remove" && elseM == "Remove":
				r.recurseDirs, r.removesNonDirs, recognised = false, true, true
			}
		}
	}
	if !recognised && arm(lb) == "Remove" {
		r.recurseDirs, r.removesNonDirs, recognised = false, true, true
	}
	if !recognised {
		m.fail("Client.%s: the loop body is not `if %s.IsDir() { err = %s.%s(%s + \"/\" + %s.Name()); if err != nil { return err } } else { err = %s.Remove(…); if err != nil { return err } }` (or one of its listed variants) (%s)",
			self, file, m.recv, self, P, file, m.recv, m.pi.pos(loop))
		return neutral
	}
	return r
}

// ---------------------------------------------------------------------------------------------------------
// the unit
// ---------------------------------------------------------------------------------------------------------

func ccSrvCall(calls []string, field string) string {
	if len(calls) != 1 {
		return ""
	}
	switch calls[0] {
	case "os.Remove(L:" + field + ")":
		return "osRemove"
	case "syscall.Unlink(L:" + field + ")":
		return "unlink"
	case "syscall.Rmdir(L:" + field + ")":
		return "rmdir"
	}
	return ""
}

func extractCompositeCfg(x *extractor) {
	u := x.newUnit("CompositeCfg")
	pi := x.root
	u.pf("import Sftp.Model.Composite\nnamespace Sftp.G\nopen Sftp.Composite\n\n")
	var notes []string

	// ---------- the primitives and the server's cases ----------
	pm := &ccM{pi: pi, u: u, notes: &notes}
	var prims []ccPrim
	for _, n := range []string{"removeFile", "RemoveDirectory", "Mkdir", "Stat", "Lstat"} {
		p := ccPrimOf(pm, n)
		if p.pkt != "" {
			ccServerCase(pm, &p)
		}
		prims = append(prims, p)
	}
	prim := func(n string) *ccPrim {
		for i := range prims {
			if prims[i].method == n {
				return &prims[i]
			}
		}
		return &ccPrim{}
	}
	removePkt, rmdirPkt := "", ""
	for _, n := range []string{"removeFile", "RemoveDirectory"} {
		p := prim(n)
		call := ""
		if p.pkt != "" {
			call = ccSrvCall(p.srvCalls, p.field)
			if call == "" || !p.srvStatus {
				pm.fail("handlePacket: case *%s is not `err := os.Remove|syscall.Unlink|syscall.Rmdir(s.toLocalPath(p.%s)); rpkt = statusFromError(p.ID, err)`: calls %q",
					p.pkt, p.field, p.srvCalls)
				call = ""
			}
		}
		if n == "removeFile" {
			removePkt = call
		} else {
			rmdirPkt = call
		}
	}
	if p := prim("Mkdir"); p.pkt != "" && !p.srvStatus {
		pm.fail("handlePacket: case *%s is not `err := …; rpkt = statusFromError(p.ID, err)`", p.pkt)
	}
	// Lstat's server side goes through the per-OS helper `func (s *Server) lstat(name string)`: it must be os.Lstat
	if p := prim("Lstat"); len(p.srvCalls) == 1 && p.srvCalls[0] == "s.lstat(L:"+p.field+")" {
		fd := pi.funcDecl("Server.lstat")
		want := ""
		if fd != nil && len(fd.Type.Params.List) == 1 && len(fd.Type.Params.List[0].Names) == 1 {
			want = "{ return os.Lstat(" + fd.Type.Params.List[0].Names[0].Name + ") }"
		}
		if got := pi.bodyText(fd); fd != nil && got == want {
			p.srvCalls[0] += "=os.Lstat"
		} else {
			pm.fail("Server.lstat: body is not `return os.Lstat(name)`: %q", got)
		}
	}
	serverOK := !pm.bad
	wraps := prim("removeFile").errShape == "normalised,PathError" && prim("RemoveDirectory").errShape == "normalised,PathError"

	// statusIsByCode: does errors.Is tell two *StatusError with the same code equal?  Only through an `Is` method.
	statusIsByCode := false
	sm := &ccM{pi: pi, u: u, notes: &notes}
	if fd := pi.funcDecl("StatusError.Is"); fd != nil {
		got := pi.bodyText(fd)
		pn := "target"
		if len(fd.Type.Params.List) == 1 && len(fd.Type.Params.List[0].Names) == 1 {
			pn = fd.Type.Params.List[0].Names[0].Name
		}
		rn := "s"
		if len(fd.Recv.List[0].Names) == 1 {
			rn = fd.Recv.List[0].Names[0].Name
		}
		want := fmt.Sprintf("{ t, ok := %s.(*StatusError) return ok && %s.Code == t.Code }", pn, rn)
		if got == want {
			statusIsByCode = true
		} else {
			sm.fail("StatusError.Is exists with an unrecognised body %q (%s)", got, pi.pos(fd))
		}
	}
	if fd := pi.funcDecl("StatusError.Unwrap"); fd != nil {
		sm.fail("StatusError.Unwrap exists (%s): errors.Is on status errors is no longer a pointer comparison", pi.pos(fd))
	}

	// ---------- Client.Remove ----------
	var rm ccRemove
	rmM := &ccM{pi: pi, u: u, notes: &notes}
	rmPos := "client.go:?"
	if fd, recv, P, ok := ccFunc(pi, "Remove"); !ok {
		rmM.fail("Client.Remove(path string) not found")
	} else {
		rmM.recv = recv
		rmPos = pi.pos(fd)
		rm = ccMatchRemove(rmM, fd, P, wraps)
	}
	removeOK := !rmM.bad && !sm.bad
	if !removeOK {
		rm = ccRemove{}
		statusIsByCode = false
	}

	// ---------- Client.MkdirAll ----------
	ma := ccMkdirAll{fileErr: "ok"}
	maM := &ccM{pi: pi, u: u, notes: &notes}
	maPos := "client.go:?"
	if fd, recv, P, ok := ccFunc(pi, "MkdirAll"); !ok {
		maM.fail("Client.MkdirAll(path string) not found")
	} else {
		maM.recv = recv
		maPos = pi.pos(fd)
		ma = ccMatchMkdirAll(maM, fd, P)
	}
	if maM.bad {
		ma = ccMkdirAll{fileErr: "ok"}
	}

	// ---------- Client.RemoveAll ----------
	var ra ccRemoveAll
	raM := &ccM{pi: pi, u: u, notes: &notes}
	raPos := "client.go:?"
	if fd, recv, P, ok := ccFunc(pi, "RemoveAll"); !ok {
		raM.fail("Client.RemoveAll(path string) not found")
	} else {
		raM.recv = recv
		self := "RemoveAll"
		// delegation to an unexported worker: `return c.removeAll(P)`
		if len(fd.Body.List) == 1 && raM.isText(fd.Body.List[0], "return %s.removeAll(%s)", recv, P) {
			if fd2, recv2, P2, ok2 := ccFunc(pi, "removeAll"); ok2 {
				fd, recv, P, self = fd2, recv2, P2, "removeAll"
				raM.recv = recv
			} else {
				raM.fail("Client.removeAll(path string) not found")
			}
		}
		raPos = pi.pos(fd)
		if !raM.bad {
			ra = ccMatchRemoveAll(raM, fd, P, self)
		}
	}
	if raM.bad {
		ra = ccRemoveAll{}
	}

	// ---------- neutral values for whatever could not be read ----------
	if !serverOK || !removeOK || removePkt == "" || rmdirPkt == "" {
		// RemoveCfgOk (hence RemoveAllCfgOk) is false for this pair
		removePkt, rmdirPkt = "rmdir", "unlink"
	}
	shapeOK := len(u.errs) == 0

	// ---------- output ----------
	var ppos []string
	for _, p := range prims {
		ppos = append(ppos, p.pos)
	}
	u.pf("-- source: %s (the requests the composites are made of) and server.go handlePacket\n", strings.Join(ppos, ", "))
	u.pf("-- (client method, packet sent, field carrying the path, how the status reply becomes the error, the server's calls)\n")
	var rows []string
	for _, p := range prims {
		rows = append(rows, fmt.Sprintf("  (%s, %s, %s, %s, %s)", leanStr(p.method), leanStr(p.pkt), leanStr(p.field), leanStr(p.errShape), leanStrList(p.srvCalls)))
	}
	u.pf("def compositePrims : List (String × String × String × String × List String) := [\n%s]\n\n", strings.Join(rows, ",\n"))

	u.pf("-- false = some statement of Remove / MkdirAll / RemoveAll / the two server cases did not fit the closed list of shapes\n")
	u.pf("-- (see extract_errors.json); the fields concerned then hold neutral values that falsify the *CfgOk hypotheses\n")
	u.pf("def compositeShapeOK : Bool := %s\n", leanBool(shapeOK))
	u.pf("-- fields whose `false` value is only a conservative reading of the source (the model under that value is not exactly the code)\n")
	u.pf("def compositeCfgNotes : List String := %s\n\n", leanStrList(notes))

	var fb []string
	for _, k := range rm.fallbackOn {
		fb = append(fb, "."+k)
	}
	u.pf("-- source: %s (Client.Remove), %s (Client.MkdirAll), %s (Client.RemoveAll), server.go handlePacket\n", rmPos, maPos, raPos)
	u.pf("/-- client.go Remove / MkdirAll / RemoveAll and server.go's REMOVE / RMDIR cases as they are in the working tree. -/\n")
	u.pf("def compositeCfg : CompositeCfg :=\n")
	u.pf("  { removePkt := .%s, rmdirPkt := .%s,\n", removePkt, rmdirPkt)
	u.pf("    rmFallbackOn := [%s],\n", strings.Join(fb, ", "))
	u.pf("    rmCompare := %s, statusIsByCode := %s, rmStats := %s, rmStatFollows := %s, rmDirGivesErrD := %s,\n",
		leanBool(rm.compare), leanBool(statusIsByCode), leanBool(rm.stats), leanBool(rm.follows), leanBool(rm.dirGivesErrD))
	u.pf("    maStatFirst := %s, maStatFollows := %s, maDirIsNil := %s, maFileErr := .%s, maParents := %s,\n",
		leanBool(ma.statFirst), leanBool(ma.statFollows), leanBool(ma.dirIsNil), ma.fileErr, leanBool(ma.parents))
	u.pf("    maRecheck := %s,\n", leanBool(ma.recheck))
	u.pf("    raLstat := %s, raNoEntNil := %s, raChildrenFirst := %s, raRecurseDirs := %s, raRemovesNonDirs := %s }\n",
		leanBool(ra.lstat), leanBool(ra.noEntNil), leanBool(ra.childrenFirst), leanBool(ra.recurseDirs), leanBool(ra.removesNonDirs))
	u.pf("\nend Sftp.G\n")
}
