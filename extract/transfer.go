package main

import (
	"go/ast"
	"strings"
)

func init() { extractors = append(extractors, extractTransfer) }

// extractTransfer: the source facts of the File transfer paths that M-Transfer is parameterised by (C01, C12, C13).
func extractTransfer(x *extractor) {
	u := x.newUnit("TransferFacts")
	pi := x.root
	u.pf("namespace Sftp.G\n\n")
	fd := func(name string) *ast.FuncDecl {
		d := pi.funcDecl(name)
		if d == nil {
			u.fail("%s not found", name)
		}
		return d
	}
	text := func(name string) string {
		if d := fd(name); d != nil {
			return pi.bodyText(d)
		}
		return ""
	}
	// --- WriteTo reducer: is the offset assignment guarded by len(packet.b) > 0 ?
	movesOnEmpty := true
	found := false
	if d := fd("File.WriteTo"); d != nil {
		var walk func(n ast.Node, guarded bool)
		walk = func(n ast.Node, guarded bool) {
			ast.Inspect(n, func(m ast.Node) bool {
				switch t := m.(type) {
				case *ast.IfStmt:
					g := guarded || pi.nodeText(t.Cond) == "len(packet.b) > 0"
					walk(t.Body, g)
					if t.Else != nil {
						walk(t.Else, guarded)
					}
					return false
				case *ast.AssignStmt:
					if len(t.Lhs) == 1 && pi.nodeText(t.Lhs[0]) == "f.offset" {
						rhs := pi.nodeText(t.Rhs[0])
						if rhs == "packet.off + int64(len(packet.b))" {
							found = true
							movesOnEmpty = !guarded
						} else {
							u.fail("File.WriteTo: unexpected assignment f.offset = %s at %s", rhs, pi.pos(t))
						}
					}
				}
				return true
			})
		}
		walk(d.Body, false)
		if !found {
			u.fail("File.WriteTo: the reducer's `f.offset = packet.off + int64(len(packet.b))` was not found")
		}
	}
	// --- sequential ReadFrom: does the reader's error mask the write error?
	rf := text("File.ReadFrom")
	masks := strings.Contains(rf, "if err == nil { err = err2 }")
	returnsWriteErr := strings.Contains(rf, "if err2 != nil { return read, err2 }")
	if masks == returnsWriteErr {
		u.fail("File.ReadFrom: neither (or both) of the two known shapes for the chunk write error found")
	}
	seqShape := strings.Contains(rf, "m, err2 := f.writeChunkAt(ch, b[:n], f.offset) f.offset += int64(m)") &&
		strings.Contains(rf, "n, err := io.ReadFull(r, b)") && strings.Contains(rf, "read += int64(n)")
	if !seqShape {
		u.fail("File.ReadFrom: sequential loop shape not recognised")
	}
	concChoice := strings.Contains(rf, "if remain > int64(f.c.maxPacket) {")
	u.pf("-- source: client.go File.WriteTo (reduce loop), File.ReadFrom (sequential loop)\n")
	u.pf("def writeToMovesOnEmpty : Bool := %s\n", leanBool(movesOnEmpty))
	u.pf("def readFromMasksWriteErr : Bool := %s\n", leanBool(masks))

	// --- structural facts the model hard-codes
	ra := text("File.readAt")
	wa := text("File.writeAtConcurrent")
	rfc := text("File.readFromWithConcurrency")
	rca := text("File.readChunkAt")
	wt := text("File.WriteTo")
	foldLE := strings.Contains(ra, "if rErr.off <= firstErr.off { firstErr = rErr }") &&
		strings.Contains(wa, "if wErr.off <= firstErr.off { firstErr = wErr }") &&
		strings.Contains(rfc, "if rwErr.off <= firstErr.off { firstErr = rwErr }")
	readEvOff := strings.Contains(ra, "errCh <- rErr{packet.off + int64(n), err}") && strings.Contains(ra, "if n < len(packet.b) { err = io.EOF }")
	writeEvOff := strings.Contains(wa, "errCh <- wErr{work.off, err}") && strings.Contains(rfc, "errCh <- rwErr{work.off, err}")
	results := strings.Contains(ra, "if firstErr.err != nil { return int(firstErr.off - off), firstErr.err } return len(b), nil") &&
		strings.Contains(wa, "if firstErr.err != nil { return int(firstErr.off - off), firstErr.err } return len(b), nil") &&
		strings.Contains(rfc, "if firstErr.err != nil { f.offset = firstErr.off return read, firstErr.err } f.offset += read return read, nil")
	refill := strings.Contains(rca, "for err == nil && n < len(b) {") && strings.Contains(rca, "Offset: uint64(off) + uint64(n), Len: uint32(len(b) - n),")
	chunking := strings.Contains(ra, "rb := b if len(rb) > chunkSize { rb = rb[:chunkSize] }") && strings.Contains(ra, "offset += int64(len(rb)) b = b[len(rb):]") &&
		strings.Contains(wa, "wb := b[read:] if len(wb) > chunkSize { wb = wb[:chunkSize] }") && strings.Contains(wa, "read += len(wb)")
	wtChain := strings.Contains(wt, "off += int64(chunkSize) cur = next") && strings.Contains(wt, "Len: uint32(chunkSize),") &&
		strings.Contains(wt, "if packet.err != nil { if packet.err == io.EOF { return written, nil } return written, packet.err }")
	cancelOnErr := strings.Count(ra+wa+rfc, "select { case <-cancel: default: close(cancel) }") == 3
	dispatchBeforeHandoff := strings.Contains(ra, "select { case workCh <- work{id, res, rb, offset}: case <-cancel: return }") &&
		strings.Contains(wa, "select { case workCh <- work{id, res, off}: case <-cancel: return }") &&
		strings.Contains(rfc, "select { case workCh <- work{id, res, off}: case <-cancel: return }")
	u.pf("/-- earliest-offset fold with `<=` in the three concurrent reducers -/\ndef xferFoldLE : Bool := %s\n", leanBool(foldLE))
	u.pf("/-- concurrent readAt: error event at packet.off + n, short read ⇒ io.EOF; concurrent writes: event at the chunk offset -/\ndef xferEventOffsets : Bool := %s\n", leanBool(readEvOff && writeEvOff))
	u.pf("/-- results computed as (firstErr.off − off, firstErr.err) / (len, nil); concurrent ReadFrom sets f.offset = firstErr.off -/\ndef xferResults : Bool := %s\n", leanBool(results))
	u.pf("/-- readChunkAt re-requests the remainder after a short DATA reply -/\ndef xferRefillLoop : Bool := %s\n", leanBool(refill))
	u.pf("/-- chunk cut: at most chunkSize bytes, contiguous offsets (readAt, writeAtConcurrent) -/\ndef xferChunking : Bool := %s\n", leanBool(chunking))
	u.pf("/-- WriteTo: ordered cur/next chain of chunkSize reads, io.EOF ends the transfer with nil -/\ndef xferWriteToChain : Bool := %s\n", leanBool(wtChain))
	u.pf("/-- admissibility: work is handed out until cancel is closed by the first error; dispatched work is always awaited -/\ndef xferAdmissible : Bool := %s\n", leanBool(cancelOnErr && dispatchBeforeHandoff))
	u.pf("def readFromConcurrencyChoice : Bool := %s\n", leanBool(concChoice))
	u.pf("\nend Sftp.G\n")
}
