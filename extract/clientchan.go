package main

// Unit ClientChanCfg: the six source facts of the result-channel discipline model (Sftp/Model/ClientChan.lean,
// property C03, channel part).  Values are identified BY TYPE (types.Info): an "RC" value has type `chan T`
// (bidirectional) where T is the element type of clientConn.sendPacket's channel parameter (`result`); a "pool"
// value has an underlying type `chan RC` (resChanPool).  Every expression of one of these types must occur in one
// of a closed list of contexts; anything else is a broken tie (u.fail) and the configuration emitted is the
// neutral one (all facts off, sharedAcrossCallers on).  Recognised violations of a fact switch that fact off.

import (
	"fmt"
	"go/ast"
	"go/token"
	"go/types"
	"strings"
)

func init() { extractors = append(extractors, extractClientChan) }

type ccSite struct{ fn, kind, text, pos string }

type ccVarKind int

const (
	ccNone     ccVarKind = iota
	ccParam              // RC parameter (sendPacket, a chunk function, pool Put)
	ccReusable           // x := make(chan result, 1)
	ccPooled             // x := P.Get()
	ccPoolRecv           // case x := <-p (inside pool Get)
)

type ccIDDef struct {
	fn   ast.Node // innermost function node of `id := ....nextID()`
	loop ast.Node // innermost loop of that statement (nil: none)
	decl *ast.FuncDecl
}

type ccCtx struct {
	u    *unit
	pi   *pkgInfo
	elem types.Type // `result`

	spDecl, drDecl, nextIDDecl *ast.FuncDecl
	spFn, drFn, nextIDFn       *types.Func
	spCh, spCtx, spPkt         *types.Var
	poolGet, poolPut, poolNew  map[*types.Func]*ast.FuncDecl
	chunk                      map[*types.Func]int // RC parameter index of a chunk function
	declOf                     map[*ast.FuncDecl]*types.Func
	litName                    map[*ast.FuncLit]string
	fieldLocal                 map[*types.Var]bool // struct field of RC type -> declared in a function-local type
	nextidField                *types.Var

	fresh, putAfterRecv, abandoned, reuseSeq, shared, idsDistinct bool
	notes                                                         [][2]string
	sites                                                         []ccSite

	varKind   map[*types.Var]ccVarKind
	varScope  map[types.Object]ast.Node
	dispCount map[*types.Var]int
	dispPos   map[*types.Var]string
	storeCnt  map[*types.Var]int
	getSites  map[types.Object][][]ast.Node // pool variable -> stacks of its Get sites
	idDefs    map[*types.Var]ccIDDef
	idUses    map[*types.Var]int
	writes    map[*ast.FuncDecl]map[types.Object]int
	mentions  map[ast.Node]bool
}

func (c *ccCtx) fail(format string, a ...any) { c.u.fail(format, a...) }

func (c *ccCtx) flip(bit *bool, name string, to bool, format string, a ...any) {
	*bit = to
	c.notes = append(c.notes, [2]string{name, fmt.Sprintf(format, a...)})
}

func (c *ccCtx) site(stack []ast.Node, n ast.Node, kind, text string) {
	c.sites = append(c.sites, ccSite{c.fnName(stack), kind, text, c.pi.pos(n)})
}

// ---- types ----

func (c *ccCtx) isRC(t types.Type) bool {
	if t == nil || c.elem == nil {
		return false
	}
	ch, ok := t.Underlying().(*types.Chan)
	return ok && ch.Dir() == types.SendRecv && types.Identical(ch.Elem(), c.elem)
}

func (c *ccCtx) isDirRC(t types.Type) bool {
	if t == nil || c.elem == nil {
		return false
	}
	ch, ok := t.Underlying().(*types.Chan)
	return ok && ch.Dir() != types.SendRecv && types.Identical(ch.Elem(), c.elem)
}

func (c *ccCtx) isPool(t types.Type) bool {
	if t == nil {
		return false
	}
	ch, ok := t.Underlying().(*types.Chan)
	return ok && c.isRC(ch.Elem())
}

// contains: does the type contain (bidir) an RC or pool type / (dir) a directional channel of result, looking through
// pointers, slices, arrays, maps, channels, struct fields and signatures; a named type is looked into only when it is
// the type asked about (its own declaration is judged by visitTypeSpec).
func (c *ccCtx) contains(t types.Type, seen map[types.Type]bool) (bidir, dir bool) {
	if t == nil || seen[t] {
		return
	}
	top := len(seen) == 0
	seen[t] = true
	if c.isRC(t) || c.isPool(t) {
		return true, false
	}
	if c.isDirRC(t) {
		return false, true
	}
	if _, named := types.Unalias(t).(*types.Named); named && !top {
		return // a named type is judged where it is declared
	}
	or := func(b, d bool) { bidir = bidir || b; dir = dir || d }
	switch u := t.Underlying().(type) {
	case *types.Pointer:
		or(c.contains(u.Elem(), seen))
	case *types.Slice:
		or(c.contains(u.Elem(), seen))
	case *types.Array:
		or(c.contains(u.Elem(), seen))
	case *types.Chan:
		or(c.contains(u.Elem(), seen))
	case *types.Map:
		or(c.contains(u.Key(), seen))
		or(c.contains(u.Elem(), seen))
	case *types.Struct:
		for i := 0; i < u.NumFields(); i++ {
			or(c.contains(u.Field(i).Type(), seen))
		}
	case *types.Signature:
		for i := 0; i < u.Params().Len(); i++ {
			or(c.contains(u.Params().At(i).Type(), seen))
		}
		for i := 0; i < u.Results().Len(); i++ {
			or(c.contains(u.Results().At(i).Type(), seen))
		}
	case *types.Interface:
		for i := 0; i < u.NumMethods(); i++ {
			or(c.contains(u.Method(i).Type(), seen))
		}
	}
	return
}

func (c *ccCtx) has(t types.Type) (bool, bool) { return c.contains(t, map[types.Type]bool{}) }

// hasShallow: as has, but a named type is not looked into even at the top (field, variable and parameter types)
func (c *ccCtx) hasShallow(t types.Type) (bool, bool) {
	return c.contains(t, map[types.Type]bool{types.Typ[types.Invalid]: true})
}

// typeOf: the type of a VALUE expression (nil for type expressions, functions, packages).
func (c *ccCtx) typeOf(e ast.Expr) types.Type {
	info := c.pi.info
	if id, ok := e.(*ast.Ident); ok {
		if obj := info.Defs[id]; obj != nil {
			if v, ok := obj.(*types.Var); ok {
				return v.Type()
			}
			return nil
		}
		switch obj := info.Uses[id].(type) {
		case *types.Var:
			return obj.Type()
		case *types.Nil:
			if tv, ok := info.Types[e]; ok {
				return tv.Type
			}
		}
		return nil
	}
	tv, ok := info.Types[e]
	if !ok || tv.IsType() {
		return nil
	}
	return tv.Type
}

func (c *ccCtx) isNil(e ast.Expr) bool {
	id, ok := e.(*ast.Ident)
	if !ok {
		return false
	}
	_, ok = c.pi.info.Uses[id].(*types.Nil)
	return ok
}

func ccUnparen(e ast.Expr) ast.Expr {
	for {
		p, ok := e.(*ast.ParenExpr)
		if !ok {
			return e
		}
		e = p.X
	}
}

func (c *ccCtx) varOf(e ast.Expr) *types.Var {
	id, ok := ccUnparen(e).(*ast.Ident)
	if !ok {
		return nil
	}
	if v, ok := c.pi.info.Uses[id].(*types.Var); ok {
		return v
	}
	if v, ok := c.pi.info.Defs[id].(*types.Var); ok {
		return v
	}
	return nil
}

func (c *ccCtx) isVar(e ast.Expr, v *types.Var) bool { return v != nil && c.varOf(e) == v }

// callee of a call: *types.Func (function or method, also promoted) or *types.Builtin.
func (c *ccCtx) callee(call *ast.CallExpr) types.Object {
	switch f := ccUnparen(call.Fun).(type) {
	case *ast.Ident:
		return c.pi.info.Uses[f]
	case *ast.SelectorExpr:
		return c.pi.info.Uses[f.Sel]
	}
	return nil
}

func (c *ccCtx) isBuiltin(call *ast.CallExpr, name string) bool {
	b, ok := c.callee(call).(*types.Builtin)
	return ok && b.Name() == name
}

// pkgSel: `pkg.Name` where pkg is an import of the given path.
func (c *ccCtx) pkgSel(e ast.Expr, path, name string) bool {
	sel, ok := ccUnparen(e).(*ast.SelectorExpr)
	if !ok || sel.Sel.Name != name {
		return false
	}
	id, ok := sel.X.(*ast.Ident)
	if !ok {
		return false
	}
	pn, ok := c.pi.info.Uses[id].(*types.PkgName)
	return ok && pn.Imported().Path() == path
}

func (c *ccCtx) isBackground(e ast.Expr) bool {
	call, ok := ccUnparen(e).(*ast.CallExpr)
	return ok && len(call.Args) == 0 && c.pkgSel(call.Fun, "context", "Background")
}

// isMakeRC: make(chan result, 1)
func (c *ccCtx) isMakeRC(e ast.Expr) (isMake, capOne bool) {
	call, ok := ccUnparen(e).(*ast.CallExpr)
	if !ok || !c.isBuiltin(call, "make") || !c.isRC(c.typeOf(call)) {
		return false, false
	}
	if len(call.Args) == 2 {
		if v, ok := c.pi.exprInt(call.Args[1]); ok && v == 1 {
			return true, true
		}
	}
	return true, false
}

func (c *ccCtx) isCallTo(e ast.Expr, set map[*types.Func]*ast.FuncDecl) (*ast.CallExpr, bool) {
	call, ok := ccUnparen(e).(*ast.CallExpr)
	if !ok {
		return nil, false
	}
	f, ok := c.callee(call).(*types.Func)
	if !ok {
		return nil, false
	}
	_, ok = set[f]
	return call, ok
}

func (c *ccCtx) isNextIDCall(e ast.Expr) bool {
	call, ok := ccUnparen(e).(*ast.CallExpr)
	if !ok || c.nextIDFn == nil {
		return false
	}
	f, ok := c.callee(call).(*types.Func)
	return ok && f == c.nextIDFn && len(call.Args) == 0
}

// ---- stack helpers ----

func ccParent(stack []ast.Node) (ast.Node, int) {
	for i := len(stack) - 1; i >= 0; i-- {
		if _, ok := stack[i].(*ast.ParenExpr); !ok {
			return stack[i], i
		}
	}
	return nil, -1
}

func ccFnNode(stack []ast.Node) ast.Node {
	for i := len(stack) - 1; i >= 0; i-- {
		switch stack[i].(type) {
		case *ast.FuncLit, *ast.FuncDecl:
			return stack[i]
		}
	}
	return nil
}

func ccFnDecl(stack []ast.Node) *ast.FuncDecl {
	for _, n := range stack {
		if fd, ok := n.(*ast.FuncDecl); ok {
			return fd
		}
	}
	return nil
}

func ccLoop(stack []ast.Node) ast.Node {
	for i := len(stack) - 1; i >= 0; i-- {
		switch stack[i].(type) {
		case *ast.ForStmt, *ast.RangeStmt:
			return stack[i]
		case *ast.FuncLit, *ast.FuncDecl:
			return nil
		}
	}
	return nil
}

func ccDeclName(fd *ast.FuncDecl) string {
	if fd.Recv != nil && len(fd.Recv.List) == 1 {
		return recvName(fd.Recv.List[0].Type) + "." + fd.Name.Name
	}
	return fd.Name.Name
}

func (c *ccCtx) fnName(stack []ast.Node) string {
	fd := ccFnDecl(stack)
	if fd == nil {
		return "package"
	}
	if lit, ok := ccFnNode(stack).(*ast.FuncLit); ok {
		return c.litName[lit]
	}
	return ccDeclName(fd)
}

// does the node mention a value of RC / pool type (nested function literals included unless skipLits)?
func (c *ccCtx) mentionsRC(n ast.Node, skipLits bool) bool {
	found := false
	ast.Inspect(n, func(m ast.Node) bool {
		if found || m == nil {
			return false
		}
		if _, ok := m.(*ast.FuncLit); ok && skipLits && m != n {
			return false
		}
		if e, ok := m.(ast.Expr); ok {
			if t := c.typeOf(e); c.isRC(t) || c.isPool(t) {
				found = true
			}
		}
		return !found
	})
	return found
}

// canonical text: local variables of RC type print as `ch`, of pool type as `pool`, of the element type as `s`,
// of a function-local struct type with an RC field as `w`, of type context.Context as `ctx` (so that local renames do
// not change the evidence).
func (c *ccCtx) txt(n ast.Node) string {
	type saved struct {
		id   *ast.Ident
		name string
	}
	var undo []saved
	ast.Inspect(n, func(m ast.Node) bool {
		id, ok := m.(*ast.Ident)
		if !ok {
			return true
		}
		var v *types.Var
		if x, ok := c.pi.info.Uses[id].(*types.Var); ok {
			v = x
		} else if x, ok := c.pi.info.Defs[id].(*types.Var); ok {
			v = x
		}
		if v == nil || v.IsField() || v.Parent() == c.pi.pkg.Scope() {
			return true
		}
		nn := ""
		switch t := v.Type(); {
		case c.isRC(t):
			nn = "ch"
		case c.isPool(t):
			nn = "pool"
		case c.elem != nil && types.Identical(t, c.elem):
			nn = "s"
		case c.isLocalWork(t):
			nn = "w"
		case strings.HasSuffix(t.String(), "context.Context"):
			nn = "ctx"
		}
		if nn != "" && nn != id.Name {
			undo = append(undo, saved{id, id.Name})
			id.Name = nn
		}
		return true
	})
	s := c.pi.nodeText(n)
	for _, u := range undo {
		u.id.Name = u.name
	}
	return s
}

// a named struct type declared inside a function that has a direct RC field
func (c *ccCtx) isLocalWork(t types.Type) bool {
	nt, ok := t.(*types.Named)
	if !ok || nt.Obj().Parent() == c.pi.pkg.Scope() || nt.Obj().Pkg() != c.pi.pkg {
		return false
	}
	st, ok := nt.Underlying().(*types.Struct)
	if !ok {
		return false
	}
	for i := 0; i < st.NumFields(); i++ {
		if c.isRC(st.Field(i).Type()) {
			return true
		}
	}
	return false
}

func (c *ccCtx) isPkgLevelNamed(t types.Type) bool {
	if p, ok := t.(*types.Pointer); ok {
		t = p.Elem()
	}
	nt, ok := t.(*types.Named)
	return ok && nt.Obj().Parent() == c.pi.pkg.Scope()
}

// ---- anchors ----

func (c *ccCtx) paramVars(fd *ast.FuncDecl) []*types.Var {
	var out []*types.Var
	for _, f := range fd.Type.Params.List {
		if len(f.Names) == 0 {
			out = append(out, nil)
		}
		for _, n := range f.Names {
			v, _ := c.pi.info.Defs[n].(*types.Var)
			out = append(out, v)
		}
	}
	return out
}

func (c *ccCtx) recvVar(fd *ast.FuncDecl) *types.Var {
	if fd.Recv == nil || len(fd.Recv.List) != 1 || len(fd.Recv.List[0].Names) != 1 {
		return nil
	}
	v, _ := c.pi.info.Defs[fd.Recv.List[0].Names[0]].(*types.Var)
	return v
}

func (c *ccCtx) findAnchors() bool {
	pi := c.pi
	c.spDecl = pi.funcDecl("clientConn.sendPacket")
	c.drDecl = pi.funcDecl("clientConn.dispatchRequest")
	c.nextIDDecl = pi.funcDecl("Client.nextID")
	if c.spDecl == nil || c.drDecl == nil || c.nextIDDecl == nil {
		c.fail("clientConn.sendPacket / clientConn.dispatchRequest / Client.nextID not found")
		return false
	}
	c.spFn, _ = pi.info.Defs[c.spDecl.Name].(*types.Func)
	c.drFn, _ = pi.info.Defs[c.drDecl.Name].(*types.Func)
	c.nextIDFn, _ = pi.info.Defs[c.nextIDDecl.Name].(*types.Func)
	ps := c.paramVars(c.spDecl)
	if c.spFn == nil || c.drFn == nil || c.nextIDFn == nil || len(ps) != 3 || ps[0] == nil || ps[1] == nil || ps[2] == nil {
		c.fail("clientConn.sendPacket: expected three named parameters (ctx, ch, p) at %s", pi.pos(c.spDecl))
		return false
	}
	ch, ok := ps[1].Type().Underlying().(*types.Chan)
	if !ok || ch.Dir() != types.SendRecv {
		c.fail("clientConn.sendPacket: second parameter is not a bidirectional channel at %s", pi.pos(c.spDecl))
		return false
	}
	c.elem = ch.Elem()
	c.spCtx, c.spCh, c.spPkt = ps[0], ps[1], ps[2]
	if !strings.HasSuffix(c.spCtx.Type().String(), "context.Context") {
		c.fail("clientConn.sendPacket: first parameter is not a context.Context at %s", pi.pos(c.spDecl))
		return false
	}
	// pool methods / constructor / chunk functions, by signature
	for _, f := range pi.files {
		for _, d := range f.Decls {
			fd, ok := d.(*ast.FuncDecl)
			if !ok {
				continue
			}
			fn, _ := pi.info.Defs[fd.Name].(*types.Func)
			if fn == nil {
				continue
			}
			c.declOf[fd] = fn
			sig := fn.Type().(*types.Signature)
			k := 0
			ast.Inspect(fd, func(n ast.Node) bool {
				if lit, ok := n.(*ast.FuncLit); ok {
					k++
					c.litName[lit] = fmt.Sprintf("%s$%d", ccDeclName(fd), k)
				}
				return true
			})
			if fn == c.spFn {
				continue
			}
			if sig.Recv() != nil && c.isPool(sig.Recv().Type()) {
				switch {
				case sig.Params().Len() == 0 && sig.Results().Len() == 1 && c.isRC(sig.Results().At(0).Type()):
					c.poolGet[fn] = fd
				case sig.Params().Len() == 1 && sig.Results().Len() == 0 && c.isRC(sig.Params().At(0).Type()):
					c.poolPut[fn] = fd
				default:
					c.fail("%s: unknown method on the result-channel pool type at %s", ccDeclName(fd), pi.pos(fd))
				}
				continue
			}
			if sig.Recv() == nil && sig.Results().Len() == 1 && c.isPool(sig.Results().At(0).Type()) {
				c.poolNew[fn] = fd
				continue
			}
			idx, cnt := -1, 0
			for i := 0; i < sig.Params().Len(); i++ {
				if c.isRC(sig.Params().At(i).Type()) {
					idx, cnt = i, cnt+1
				}
			}
			if cnt == 1 {
				c.chunk[fn] = idx
			} else if cnt > 1 {
				c.fail("%s: more than one result-channel parameter at %s", ccDeclName(fd), pi.pos(fd))
			}
		}
	}
	if len(c.poolGet) != 1 || len(c.poolPut) != 1 || len(c.poolNew) != 1 {
		c.fail("result-channel pool: expected one Get, one Put and one constructor, found %d/%d/%d", len(c.poolGet), len(c.poolPut), len(c.poolNew))
	}
	return true
}

// ---- strict shapes of the anchor functions ----

// clientConn.sendPacket:
//
//	if cap(ch) < 1 { ch = make(chan result, 1) }      (only assignments to ch and defers inside the if)
//	c.dispatchRequest(ch, p)
//	select { case <-ctx.Done(): ...; return _, _, ctx.Err()   case s := <-ch: ...; return s.f0, s.f1, s.f2 }
func (c *ccCtx) checkSendPacket() {
	pi, fd := c.pi, c.spDecl
	bad := func(what string, n ast.Node) { c.fail("clientConn.sendPacket: %s at %s", what, pi.pos(n)) }
	if len(fd.Body.List) != 3 {
		bad("body is not `if cap(ch) < 1 {...}; dispatchRequest(ch, p); select {...}`", fd)
		return
	}
	// statement 0
	ifs, ok := fd.Body.List[0].(*ast.IfStmt)
	condOK := false
	if ok && ifs.Init == nil && ifs.Else == nil {
		if be, ok := ifs.Cond.(*ast.BinaryExpr); ok && be.Op == token.LSS {
			if call, ok := be.X.(*ast.CallExpr); ok && c.isBuiltin(call, "cap") && len(call.Args) == 1 && c.isVar(call.Args[0], c.spCh) {
				if v, ok := pi.exprInt(be.Y); ok && v == 1 {
					condOK = true
				}
			}
		}
	}
	if !condOK {
		bad("first statement is not `if cap(ch) < 1 {...}`", fd.Body.List[0])
		return
	}
	assigns := 0
	for _, s := range ifs.Body.List {
		switch st := s.(type) {
		case *ast.AssignStmt:
			if st.Tok != token.ASSIGN || len(st.Lhs) != 1 || len(st.Rhs) != 1 || !c.isVar(st.Lhs[0], c.spCh) {
				bad("unrecognised assignment under `if cap(ch) < 1`", st)
				continue
			}
			assigns++
			if mk, one := c.isMakeRC(st.Rhs[0]); !(mk && one) {
				c.flip(&c.fresh, "freshPerSyncCall", false, "%s: the channel of a call that brings none is `%s`, not make(chan result, 1)", pi.pos(st), c.txt(st.Rhs[0]))
			}
		case *ast.DeferStmt:
			// judged by the generic defer rule
		default:
			bad("unrecognised statement under `if cap(ch) < 1`", s)
		}
	}
	if assigns == 0 {
		bad("no assignment to ch under `if cap(ch) < 1`", ifs)
	}
	// statement 1
	okDisp := false
	if es, ok := fd.Body.List[1].(*ast.ExprStmt); ok {
		if call, ok := es.X.(*ast.CallExpr); ok && c.callee(call) == types.Object(c.drFn) && len(call.Args) == 2 &&
			c.isVar(call.Args[0], c.spCh) && c.isVar(call.Args[1], c.spPkt) {
			okDisp = true
		}
	}
	if !okDisp {
		bad("second statement is not dispatchRequest(ch, p)", fd.Body.List[1])
	}
	// statement 2
	sel, ok := fd.Body.List[2].(*ast.SelectStmt)
	if !ok || len(sel.Body.List) != 2 {
		bad("third statement is not a select with two arms", fd.Body.List[2])
		return
	}
	sawCtx, sawRecv := false, false
	for _, cl := range sel.Body.List {
		cc := cl.(*ast.CommClause)
		var ret *ast.ReturnStmt
		if len(cc.Body) > 0 {
			ret, _ = cc.Body[len(cc.Body)-1].(*ast.ReturnStmt)
		}
		switch cm := cc.Comm.(type) {
		case *ast.ExprStmt:
			if !c.isCtxDone(cm.X) {
				bad("unrecognised select arm", cc)
				continue
			}
			sawCtx = true
			okRet := false
			if ret != nil && len(ret.Results) == 3 {
				if call, ok := ret.Results[2].(*ast.CallExpr); ok && len(call.Args) == 0 {
					if s, ok := call.Fun.(*ast.SelectorExpr); ok && s.Sel.Name == "Err" && c.isVar(s.X, c.spCtx) {
						okRet = true
					}
				}
			}
			if !okRet {
				bad("the ctx.Done() arm does not end in `return ..., ctx.Err()`", cc)
			}
		case *ast.AssignStmt:
			var sv *types.Var
			if cm.Tok == token.DEFINE && len(cm.Lhs) == 1 && len(cm.Rhs) == 1 {
				if ue, ok := cm.Rhs[0].(*ast.UnaryExpr); ok && ue.Op == token.ARROW && c.isVar(ue.X, c.spCh) {
					sv = c.varOf(cm.Lhs[0])
				}
			}
			if sv == nil {
				bad("unrecognised select arm", cc)
				continue
			}
			sawRecv = true
			st, _ := c.elem.Underlying().(*types.Struct)
			okRet := ret != nil && st != nil && len(ret.Results) == st.NumFields()
			if okRet {
				for i, r := range ret.Results {
					s, ok := r.(*ast.SelectorExpr)
					if !ok || !c.isVar(s.X, sv) || c.pi.info.Uses[s.Sel] != types.Object(st.Field(i)) {
						okRet = false
					}
				}
			}
			if !okRet {
				bad("the receive arm does not end in `return s.typ, s.data, s.err`", cc)
			}
		default:
			bad("unrecognised select arm", cc)
		}
	}
	if !sawCtx || !sawRecv {
		bad("select does not have the arms `case <-ctx.Done()` and `case s := <-ch`", sel)
	}
}

// <-ctx.Done() with ctx of type context.Context
func (c *ccCtx) isCtxDone(e ast.Expr) bool {
	ue, ok := ccUnparen(e).(*ast.UnaryExpr)
	if !ok || ue.Op != token.ARROW {
		return false
	}
	call, ok := ue.X.(*ast.CallExpr)
	if !ok || len(call.Args) != 0 {
		return false
	}
	s, ok := call.Fun.(*ast.SelectorExpr)
	if !ok || s.Sel.Name != "Done" {
		return false
	}
	t := c.typeOf(s.X)
	return t != nil && strings.HasSuffix(t.String(), "context.Context")
}

func (c *ccCtx) checkPool() {
	pi := c.pi
	for _, fd := range c.poolGet {
		// select { case ch := <-p: return ch   default: return make(chan result, 1) }
		ok := false
		rv := c.recvVar(fd)
		if len(fd.Body.List) == 1 && rv != nil {
			if sel, isSel := fd.Body.List[0].(*ast.SelectStmt); isSel && len(sel.Body.List) == 2 {
				a, b := false, false
				for _, cl := range sel.Body.List {
					cc := cl.(*ast.CommClause)
					if len(cc.Body) != 1 {
						continue
					}
					ret, isRet := cc.Body[0].(*ast.ReturnStmt)
					if !isRet || len(ret.Results) != 1 {
						continue
					}
					if cc.Comm == nil {
						mk, one := c.isMakeRC(ret.Results[0])
						b = mk && one
					} else if as, isAs := cc.Comm.(*ast.AssignStmt); isAs && as.Tok == token.DEFINE && len(as.Lhs) == 1 && len(as.Rhs) == 1 {
						if ue, isUe := as.Rhs[0].(*ast.UnaryExpr); isUe && ue.Op == token.ARROW && c.isVar(ue.X, rv) {
							a = c.isVar(ret.Results[0], c.varOf(as.Lhs[0]))
						}
					}
				}
				ok = a && b
			}
		}
		if !ok {
			c.fail("%s: body is not `select { case ch := <-p: return ch; default: return make(chan result, 1) }` at %s", ccDeclName(fd), pi.pos(fd))
		}
	}
	for _, fd := range c.poolPut {
		// select { case p <- ch:   default: }
		ok := false
		rv, ps := c.recvVar(fd), c.paramVars(fd)
		if len(fd.Body.List) == 1 && rv != nil && len(ps) == 1 && ps[0] != nil {
			if sel, isSel := fd.Body.List[0].(*ast.SelectStmt); isSel && len(sel.Body.List) == 2 {
				a, b := false, false
				for _, cl := range sel.Body.List {
					cc := cl.(*ast.CommClause)
					if len(cc.Body) != 0 {
						continue
					}
					if cc.Comm == nil {
						b = true
					} else if ss, isSend := cc.Comm.(*ast.SendStmt); isSend {
						a = c.isVar(ss.Chan, rv) && c.isVar(ss.Value, ps[0])
					}
				}
				ok = a && b
			}
		}
		if !ok {
			c.fail("%s: body is not `select { case p <- ch: default: }` at %s", ccDeclName(fd), pi.pos(fd))
		}
	}
	for _, fd := range c.poolNew {
		ok := false
		if len(fd.Body.List) == 1 {
			if ret, isRet := fd.Body.List[0].(*ast.ReturnStmt); isRet && len(ret.Results) == 1 {
				if call, isCall := ret.Results[0].(*ast.CallExpr); isCall && c.isBuiltin(call, "make") && len(call.Args) == 2 && c.isPool(c.typeOf(call)) {
					ok = true
				}
			}
		}
		if !ok {
			c.fail("%s: body is not `return make(chan chan result, depth)` at %s", ccDeclName(fd), pi.pos(fd))
		}
	}
}

// Client.nextID: return atomic.AddUint32(&c.nextid, 1)
func (c *ccCtx) checkNextID() {
	fd := c.nextIDDecl
	ok := false
	rv := c.recvVar(fd)
	if len(fd.Body.List) == 1 && rv != nil {
		if ret, isRet := fd.Body.List[0].(*ast.ReturnStmt); isRet && len(ret.Results) == 1 {
			if call, isCall := ret.Results[0].(*ast.CallExpr); isCall && c.pkgSel(call.Fun, "sync/atomic", "AddUint32") && len(call.Args) == 2 {
				if ue, isUe := call.Args[0].(*ast.UnaryExpr); isUe && ue.Op == token.AND {
					if s, isSel := ue.X.(*ast.SelectorExpr); isSel && c.isVar(s.X, rv) {
						if v, isInt := c.pi.exprInt(call.Args[1]); isInt && v == 1 {
							ok = true
							c.nextidField, _ = c.pi.info.Uses[s.Sel].(*types.Var)
						}
					}
				}
			}
		}
	}
	text := "return " + "?"
	if len(fd.Body.List) > 0 {
		text = c.pi.nodeText(fd.Body)
	}
	c.sites = append(c.sites, ccSite{ccDeclName(fd), "idSource", text, c.pi.pos(fd)})
	if !ok {
		c.flip(&c.idsDistinct, "idsDistinctInFlight", false, "%s: Client.nextID is not `return atomic.AddUint32(&c.nextid, 1)`", c.pi.pos(fd))
	}
}

// ---- the walk: every value of RC / pool type in a recognised context ----

func (c *ccCtx) walk() {
	for _, f := range c.pi.files {
		var stack []ast.Node
		ast.Inspect(f, func(n ast.Node) bool {
			if n == nil {
				stack = stack[:len(stack)-1]
				return true
			}
			c.visit(n, stack)
			stack = append(stack, n)
			return true
		})
	}
}

func (c *ccCtx) visit(n ast.Node, stack []ast.Node) {
	switch t := n.(type) {
	case *ast.TypeSpec:
		c.visitTypeSpec(t, stack)
	case *ast.StructType:
		if p, _ := ccParent(stack); p != nil {
			if _, ok := p.(*ast.TypeSpec); !ok {
				if b, d := c.has(c.pi.info.TypeOf(t)); b || d {
					c.fail("anonymous struct type with a result-channel field at %s", c.pi.pos(t))
				}
			}
		}
	case *ast.ValueSpec:
		c.visitValueSpec(t, stack)
	case *ast.FuncDecl:
		c.visitSig(t.Type, t, stack)
	case *ast.FuncLit:
		c.visitSig(t.Type, t, stack)
	case *ast.SelectStmt:
		c.visitSelect(t, append(stack, n))
	case *ast.DeferStmt:
		c.visitDefer(t, stack)
	case *ast.AssignStmt:
		c.visitAssign(t, stack)
	case *ast.CallExpr:
		c.visitCallIDs(t, stack)
		// an untyped nil argument in the place of a result-channel parameter is a use (of no channel)
		if sig, ok := c.pi.info.TypeOf(t.Fun).(*types.Signature); ok {
			for i, a := range t.Args {
				if id, isId := ccUnparen(a).(*ast.Ident); isId && c.isNil(id) && i < sig.Params().Len() {
					if pt := sig.Params().At(i).Type(); c.isRC(pt) {
						c.rcUse(id, append(append([]ast.Node(nil), stack...), t))
					} else if c.isPool(pt) || c.isDirRC(pt) {
						c.unrec(t, stack, "nil passed as pool / directional channel")
					}
				}
			}
		}
	}
	if id, ok := n.(*ast.Ident); ok {
		if v, ok := c.pi.info.Defs[id].(*types.Var); ok && !v.IsField() {
			c.varScope[v] = ccFnNode(stack)
		}
	}
	if e, ok := n.(ast.Expr); ok {
		c.visitExpr(e, stack)
	}
}

func (c *ccCtx) visitExpr(e ast.Expr, stack []ast.Node) {
	switch e.(type) {
	case *ast.ParenExpr, *ast.KeyValueExpr:
		return
	}
	p, _ := ccParent(stack)
	if sel, ok := p.(*ast.SelectorExpr); ok && sel.Sel == e {
		// the selector as a whole is the value; but a tracked function must be called, not taken as a value
		if fn, ok := c.pi.info.Uses[sel.Sel].(*types.Func); ok && c.tracked(fn) {
			gp, _ := ccParent(stack[:len(stack)-1])
			if call, ok := gp.(*ast.CallExpr); !ok || ccUnparen(call.Fun) != ast.Expr(sel) {
				c.fail("%s used as a value (not called) at %s", fn.Name(), c.pi.pos(e))
			}
		}
		if v, ok := c.pi.info.Uses[sel.Sel].(*types.Var); ok && v == c.nextidField && c.nextidField != nil && ccFnDecl(stack) != c.nextIDDecl {
			c.flip(&c.idsDistinct, "idsDistinctInFlight", false, "%s: the id counter is touched outside nextID: %s", c.pi.pos(e), c.pi.nodeText(sel))
			c.site(stack, e, "idSource", c.pi.nodeText(sel))
		}
		return
	}
	if kv, ok := p.(*ast.KeyValueExpr); ok && kv.Key == e {
		if id, ok := e.(*ast.Ident); ok {
			if v, ok := c.pi.info.Uses[id].(*types.Var); ok && v == c.nextidField && c.nextidField != nil {
				c.flip(&c.idsDistinct, "idsDistinctInFlight", false, "%s: the id counter is initialised in a literal", c.pi.pos(e))
			}
		}
		return
	}
	if id, ok := e.(*ast.Ident); ok {
		if fn, ok := c.pi.info.Uses[id].(*types.Func); ok && c.tracked(fn) {
			if call, ok := p.(*ast.CallExpr); !ok || ccUnparen(call.Fun) != e {
				c.fail("%s used as a value (not called) at %s", fn.Name(), c.pi.pos(e))
			}
		}
	}
	t := c.typeOf(e)
	switch {
	case c.isRC(t):
		c.rcExpr(e, stack)
	case c.isPool(t):
		c.poolExpr(e, stack)
	}
}

func (c *ccCtx) tracked(fn *types.Func) bool {
	if fn == c.spFn || fn == c.drFn {
		return true
	}
	if _, ok := c.chunk[fn]; ok {
		return true
	}
	_, a := c.poolGet[fn]
	_, b := c.poolPut[fn]
	_, d := c.poolNew[fn]
	return a || b || d
}

func (c *ccCtx) unrec(e ast.Node, stack []ast.Node, what string) {
	c.fail("%s: unrecognised use of a result channel / pool (%s): `%s` at %s", c.fnName(stack), what, c.pi.nodeText(e), c.pi.pos(e))
}

// ---- declarations ----

func (c *ccCtx) visitTypeSpec(ts *ast.TypeSpec, stack []ast.Node) {
	t := c.pi.info.TypeOf(ts.Type)
	obj := c.pi.info.Defs[ts.Name]
	if t == nil || obj == nil {
		return
	}
	pkgLevel := obj.Parent() == c.pi.pkg.Scope()
	if c.isPool(t) && pkgLevel {
		if _, ok := ts.Type.(*ast.ChanType); ok {
			c.sites = append(c.sites, ccSite{ts.Name.Name, "field", "type " + ts.Name.Name + " " + c.pi.nodeText(ts.Type) + " (the pool type)", c.pi.pos(ts)})
			return
		}
	}
	st, isStruct := ts.Type.(*ast.StructType)
	if !isStruct {
		if b, d := c.hasShallow(t); b || d {
			if pkgLevel && b {
				c.flip(&c.shared, "sharedAcrossCallers", true, "%s: package-level type %s contains a result channel / pool", c.pi.pos(ts), ts.Name.Name)
				c.sites = append(c.sites, ccSite{ts.Name.Name, "field", "type " + ts.Name.Name + " " + c.pi.nodeText(ts.Type) + " (package-level type)", c.pi.pos(ts)})
			} else {
				c.fail("type %s contains a result channel in an unrecognised way at %s", ts.Name.Name, c.pi.pos(ts))
			}
		}
		return
	}
	spRecv := ""
	if c.spDecl != nil {
		spRecv = recvName(c.spDecl.Recv.List[0].Type)
	}
	for _, f := range st.Fields.List {
		ft := c.pi.info.TypeOf(f.Type)
		b, d := c.hasShallow(ft)
		if !b && !d {
			continue
		}
		names := []string{"(embedded)"}
		if len(f.Names) > 0 {
			names = nil
			for _, n := range f.Names {
				names = append(names, n.Name)
			}
		}
		desc := strings.Join(names, ", ") + " " + c.pi.nodeText(f.Type)
		switch {
		case pkgLevel && b:
			c.flip(&c.shared, "sharedAcrossCallers", true, "%s: field `%s` of package-level type %s", c.pi.pos(f), desc, ts.Name.Name)
			c.sites = append(c.sites, ccSite{ts.Name.Name, "field", desc + " (package-level type)", c.pi.pos(f)})
			for _, n := range f.Names {
				if v, ok := c.pi.info.Defs[n].(*types.Var); ok {
					c.fieldLocal[v] = false
				}
			}
		case pkgLevel && d:
			// the routing table of the connection: map[uint32]chan<- result in sendPacket's receiver type
			m, isMap := ft.Underlying().(*types.Map)
			if ts.Name.Name == spRecv && isMap && c.isDirRC(m.Elem()) && m.Elem().Underlying().(*types.Chan).Dir() == types.SendOnly {
				c.sites = append(c.sites, ccSite{ts.Name.Name, "field", desc + " (routing table, send-only)", c.pi.pos(f)})
			} else {
				c.fail("field `%s` of %s: directional result channel outside the routing table at %s", desc, ts.Name.Name, c.pi.pos(f))
			}
		case !pkgLevel && c.isRC(ft):
			c.sites = append(c.sites, ccSite{c.fnName(stack), "field", ts.Name.Name + "." + desc + " (function-local type)", c.pi.pos(f)})
			for _, n := range f.Names {
				if v, ok := c.pi.info.Defs[n].(*types.Var); ok {
					c.fieldLocal[v] = true
				}
			}
			if len(f.Names) == 0 {
				c.fail("embedded result channel in local type %s at %s", ts.Name.Name, c.pi.pos(f))
			}
		default:
			c.fail("field `%s` of function-local type %s holds result channels in an unrecognised way at %s", desc, ts.Name.Name, c.pi.pos(f))
		}
	}
}

func (c *ccCtx) visitValueSpec(vs *ast.ValueSpec, stack []ast.Node) {
	for _, n := range vs.Names {
		v, ok := c.pi.info.Defs[n].(*types.Var)
		if !ok {
			continue
		}
		b, d := c.hasShallow(v.Type())
		if !b && !d {
			continue
		}
		if v.Parent() == c.pi.pkg.Scope() && b {
			c.flip(&c.shared, "sharedAcrossCallers", true, "%s: package-level variable %s of type %s", c.pi.pos(n), n.Name, types.TypeString(v.Type(), types.RelativeTo(c.pi.pkg)))
			c.sites = append(c.sites, ccSite{"package", "field", "var " + c.pi.nodeText(vs), c.pi.pos(vs)})
			c.varScope[v] = nil
		} else {
			c.fail("variable declaration `%s` holding result channels at %s", c.pi.nodeText(vs), c.pi.pos(vs))
		}
	}
}

func (c *ccCtx) visitSig(ft *ast.FuncType, owner ast.Node, stack []ast.Node) {
	var fn *types.Func
	if fd, ok := owner.(*ast.FuncDecl); ok {
		fn = c.declOf[fd]
	}
	check := func(fl *ast.FieldList, isResult bool) {
		if fl == nil {
			return
		}
		for i, f := range fl.List {
			t := c.pi.info.TypeOf(f.Type)
			b, _ := c.hasShallow(t)
			if !b {
				continue
			}
			ok := false
			if fn != nil {
				_, g := c.poolGet[fn]
				_, p := c.poolPut[fn]
				_, nw := c.poolNew[fn]
				_, ck := c.chunk[fn]
				switch {
				case fn == c.spFn && !isResult && i == 1:
					ok = true
				case g && isResult, p && !isResult, nw && isResult:
					ok = true
				case ck && !isResult && c.isRC(t):
					ok = true
				}
			}
			if !ok {
				c.fail("function signature carries a result channel / pool in an unrecognised way: `%s` at %s", c.pi.nodeText(f), c.pi.pos(f))
			}
		}
	}
	check(ft.Params, false)
	check(ft.Results, true)
}

// ---- RC-typed expressions ----

func (c *ccCtx) rcExpr(e ast.Expr, stack []ast.Node) {
	switch t := e.(type) {
	case *ast.CallExpr:
		if c.isBuiltin(t, "make") {
			c.rcMake(t, stack)
		} else if _, ok := c.isCallTo(t, c.poolGet); ok {
			c.rcGet(t, stack)
		} else {
			c.unrec(e, stack, "call returning a result channel")
		}
	case *ast.UnaryExpr:
		fd := ccFnDecl(stack)
		if fd == nil || c.declOf[fd] == nil || c.poolGet[c.declOf[fd]] == nil || t.Op != token.ARROW {
			c.unrec(e, stack, "receive of a result channel from a channel")
		}
	case *ast.Ident, *ast.SelectorExpr:
		c.rcUse(e, stack)
	default:
		c.unrec(e, stack, "expression form")
	}
}

func (c *ccCtx) inDecl(stack []ast.Node, set map[*types.Func]*ast.FuncDecl) bool {
	fd := ccFnDecl(stack)
	if fd == nil {
		return false
	}
	fn := c.declOf[fd]
	return fn != nil && set[fn] == fd
}

// index of e (modulo parentheses) in a list
func ccIndex(list []ast.Expr, e ast.Expr) int {
	for i, x := range list {
		if ccUnparen(x) == e {
			return i
		}
	}
	return -1
}

func (c *ccCtx) rcMake(call *ast.CallExpr, stack []ast.Node) {
	if _, one := c.isMakeRC(call); !one {
		c.unrec(call, stack, "result channel whose capacity is not the constant 1")
		return
	}
	p, pi := ccParent(stack)
	switch pt := p.(type) {
	case *ast.AssignStmt:
		i := ccIndex(pt.Rhs, call)
		if i < 0 || len(pt.Lhs) != len(pt.Rhs) {
			c.unrec(pt, stack, "make in a multi-value assignment")
			return
		}
		lhs := ccUnparen(pt.Lhs[i])
		if id, ok := lhs.(*ast.Ident); ok && pt.Tok == token.DEFINE && c.pi.info.Defs[id] != nil {
			c.site(stack, pt, "make", "ch := make(chan result, 1) (reusable channel of a sequential loop)")
			return
		}
		if pt.Tok == token.ASSIGN && c.isVar(lhs, c.spCh) && ccFnDecl(stack) == c.spDecl {
			c.site(stack, pt, "make", "if cap(ch) < 1 { ch = make(chan result, 1) }")
			return
		}
		if sel, ok := lhs.(*ast.SelectorExpr); ok && pt.Tok == token.ASSIGN {
			if v, ok := c.pi.info.Uses[sel.Sel].(*types.Var); ok && v.IsField() {
				if loc, known := c.fieldLocal[v]; known && !loc {
					c.site(stack, pt, "make", c.txt(pt)+" (field of a package-level type)")
					return
				}
			}
		}
		c.unrec(pt, stack, "make assigned to something else than a new local or sendPacket's parameter")
	case *ast.ReturnStmt:
		if c.inDecl(stack, c.poolGet) {
			c.site(stack, pt, "make", "default: return make(chan result, 1)")
		} else {
			c.unrec(pt, stack, "returned make")
		}
	case *ast.KeyValueExpr, *ast.CompositeLit:
		lit, _ := p.(*ast.CompositeLit)
		if lit == nil {
			gp, _ := ccParent(stack[:pi])
			lit, _ = gp.(*ast.CompositeLit)
		}
		if lit != nil && c.isPkgLevelNamed(c.typeOf(lit)) {
			b, _ := c.has(c.typeOf(lit))
			if b { // the field rule has switched sharedAcrossCallers on
				c.site(stack, p, "make", c.txt(p)+" (field of a package-level type)")
				return
			}
		}
		c.unrec(p, stack, "make inside a composite literal")
	case *ast.ValueSpec:
		// judged by visitValueSpec
	default:
		c.unrec(call, stack, "make in an unrecognised position")
	}
}

func (c *ccCtx) rcGet(call *ast.CallExpr, stack []ast.Node) {
	sel, _ := ccUnparen(call.Fun).(*ast.SelectorExpr)
	var pool types.Object
	if sel != nil {
		switch x := ccUnparen(sel.X).(type) {
		case *ast.Ident:
			pool = c.pi.info.Uses[x]
		case *ast.SelectorExpr:
			pool = c.pi.info.Uses[x.Sel]
		}
	}
	if pool == nil {
		c.unrec(call, stack, "Get on something that is not a pool variable")
		return
	}
	p, _ := ccParent(stack)
	as, ok := p.(*ast.AssignStmt)
	if !ok || len(as.Lhs) != len(as.Rhs) || ccIndex(as.Rhs, call) < 0 {
		c.unrec(call, stack, "pool Get whose result is not assigned to a variable")
		return
	}
	lhs := ccUnparen(as.Lhs[ccIndex(as.Rhs, call)])
	if id, ok := lhs.(*ast.Ident); ok && as.Tok == token.DEFINE && c.pi.info.Defs[id] != nil {
		c.site(stack, as, "poolGet", c.txt(as))
		c.getSites[pool] = append(c.getSites[pool], append([]ast.Node(nil), stack...))
		return
	}
	if v := c.varOf(lhs); v != nil && as.Tok == token.ASSIGN && c.varKind[v] == ccParam {
		c.site(stack, as, "poolGet", c.txt(as)+" (assigned to the channel parameter)")
		if ccFnDecl(stack) != c.spDecl {
			c.flip(&c.fresh, "freshPerSyncCall", false, "%s: channel parameter replaced by a pooled channel", c.pi.pos(as))
		}
		return
	}
	c.unrec(as, stack, "pool Get assigned to something else than a new local")
}

// root variable and field of `w.res`
func (c *ccCtx) selParts(e *ast.SelectorExpr) (root *types.Var, field *types.Var) {
	field, _ = c.pi.info.Uses[e.Sel].(*types.Var)
	root = c.varOf(e.X)
	return
}

func (c *ccCtx) rcUse(e ast.Expr, stack []ast.Node) {
	info := c.pi.info
	p, pidx := ccParent(stack)
	fnNode := ccFnNode(stack)
	// --- definitions
	if id, ok := e.(*ast.Ident); ok && info.Defs[id] != nil {
		v := info.Defs[id].(*types.Var)
		switch pt := p.(type) {
		case *ast.AssignStmt:
			i := ccIndex(pt.Lhs, e)
			if pt.Tok != token.DEFINE || i < 0 || len(pt.Lhs) != len(pt.Rhs) {
				c.unrec(pt, stack, "definition of a result-channel variable")
				return
			}
			rhs := ccUnparen(pt.Rhs[i])
			c.varScope[v] = fnNode
			if mk, _ := c.isMakeRC(rhs); mk {
				c.varKind[v] = ccReusable
			} else if _, ok := c.isCallTo(rhs, c.poolGet); ok {
				c.varKind[v] = ccPooled
			} else if ue, ok := rhs.(*ast.UnaryExpr); ok && ue.Op == token.ARROW && c.isPool(c.typeOf(ue.X)) && c.inDecl(stack, c.poolGet) {
				c.varKind[v] = ccPoolRecv
			} else {
				c.unrec(pt, stack, "result-channel variable defined from something else than make / pool Get")
			}
		case *ast.Field:
			if v.IsField() {
				return // struct field: visitTypeSpec
			}
			c.varKind[v] = ccParam
			c.varScope[v] = fnNode
			if fnNode == nil { // the FuncDecl is the parent chain's function node only below its body
				c.varScope[v] = ccFnDecl(stack)
			}
			if fd := ccFnDecl(stack); fd != nil && c.declOf[fd] != nil {
				if _, ok := c.chunk[c.declOf[fd]]; ok {
					c.site(stack, p, "passChan", "parameter ch chan result (chunk function: forwards it to sendPacket)")
				}
			}
		case *ast.ValueSpec:
			// visitValueSpec
		default:
			c.unrec(e, stack, "definition of a result-channel variable")
		}
		return
	}
	// --- uses: what is it?
	var v *types.Var
	kind := ccNone
	isNil := c.isNil(e)
	pkgField := false
	desc := "ch"
	switch t := e.(type) {
	case *ast.Ident:
		if !isNil {
			v = c.varOf(e)
			if v == nil {
				c.unrec(e, stack, "identifier")
				return
			}
			kind = c.varKind[v]
			if v.Parent() == c.pi.pkg.Scope() {
				pkgField = true // package-level channel variable: sharedAcrossCallers is on already
				desc = t.Name
			} else if kind == ccNone {
				c.unrec(e, stack, "result-channel variable of unknown origin")
				return
			} else if sc, ok := c.varScope[v]; ok && sc != fnNode {
				c.flip(&c.shared, "sharedAcrossCallers", true, "%s: result channel captured by a function literal", c.pi.pos(e))
				if kind == ccReusable {
					c.flip(&c.reuseSeq, "reuseOnlySequential", false, "%s: reusable channel used inside a function literal", c.pi.pos(e))
				}
			}
		} else {
			desc = "nil"
		}
	case *ast.SelectorExpr:
		root, field := c.selParts(t)
		if field == nil || !field.IsField() {
			c.unrec(e, stack, "selector")
			return
		}
		loc, known := c.fieldLocal[field]
		if !known {
			c.unrec(e, stack, "field of an unknown struct type")
			return
		}
		if !loc {
			pkgField = true
			desc = c.pi.nodeText(e)
		} else {
			desc = "w." + field.Name()
			if root == nil {
				c.unrec(e, stack, "work-item field not selected from a local variable")
				return
			}
			if sc, ok := c.varScope[root]; !ok || sc != fnNode {
				c.flip(&c.shared, "sharedAcrossCallers", true, "%s: work item `%s` is not local to the goroutine that uses its channel", c.pi.pos(e), root.Name())
			}
		}
	}
	isWorkField := !isNil && v == nil && !pkgField
	// --- context
	switch pt := p.(type) {
	case *ast.CallExpr:
		idx := ccIndex(pt.Args, e)
		if idx < 0 {
			c.unrec(pt, stack, "call")
			return
		}
		if c.isBuiltin(pt, "cap") || c.isBuiltin(pt, "len") {
			return
		}
		fn, _ := c.callee(pt).(*types.Func)
		gp, _ := ccParent(stack[:pidx])
		_, isGo := gp.(*ast.GoStmt)
		_, isDefer := gp.(*ast.DeferStmt)
		async := isGo || isDefer
		chunkIdx, isChunk := c.chunk[fn]
		switch {
		case fn != nil && fn == c.spFn && idx == 1:
			bg := c.isBackground(pt.Args[0])
			ctxd := "ctx"
			if bg {
				ctxd = "context.Background()"
			}
			text := fmt.Sprintf("sendPacket(%s, %s, %s)", ctxd, desc, c.pktType(pt.Args[2]))
			if isNil {
				c.site(stack, pt, "passNil", text)
				return
			}
			c.site(stack, pt, "passChan", text)
			if kind == ccPooled || kind == ccPoolRecv || isWorkField {
				c.unrec(pt, stack, "pooled channel passed to sendPacket")
				return
			}
			if !bg {
				c.flip(&c.fresh, "freshPerSyncCall", false, "%s: sendPacket with a cancellable ctx is given a channel", c.pi.pos(pt))
				c.flip(&c.reuseSeq, "reuseOnlySequential", false, "%s: a channel that outlives the call is used with a cancellable ctx (the reply may be left in it)", c.pi.pos(pt))
			}
			if async {
				c.flip(&c.reuseSeq, "reuseOnlySequential", false, "%s: sendPacket with a caller-supplied channel started by go/defer", c.pi.pos(pt))
			}
		case isChunk && idx == chunkIdx:
			text := fmt.Sprintf("%s(%s, ...)", fn.Name(), desc)
			if isNil {
				c.site(stack, pt, "passNil", text)
				return
			}
			c.site(stack, pt, "passChan", text)
			if kind == ccPooled || kind == ccPoolRecv || isWorkField {
				c.unrec(pt, stack, "pooled channel passed to a chunk function")
				return
			}
			if async {
				c.flip(&c.reuseSeq, "reuseOnlySequential", false, "%s: chunk function with a caller-supplied channel started by go/defer", c.pi.pos(pt))
			}
		case fn != nil && fn == c.drFn && idx == 0:
			if isNil {
				c.unrec(pt, stack, "dispatchRequest with a nil channel")
				return
			}
			if v != nil && v == c.spCh && ccFnDecl(stack) == c.spDecl {
				c.site(stack, pt, "passChan", "dispatchRequest(ch, p) (inside sendPacket)")
				return
			}
			c.site(stack, pt, "passChan", fmt.Sprintf("dispatchRequest(%s, %s)", desc, c.pktType(pt.Args[1])))
			switch {
			case pkgField:
			case kind == ccPooled:
				c.dispCount[v]++
				c.dispPos[v] = c.pi.pos(pt)
				if async {
					c.unrec(pt, stack, "dispatchRequest started by go/defer")
				}
			case kind == ccReusable || kind == ccParam:
				c.flip(&c.reuseSeq, "reuseOnlySequential", false, "%s: dispatchRequest on a reusable channel without consuming the reply", c.pi.pos(pt))
			default:
				c.unrec(pt, stack, "dispatchRequest on a work item's channel")
			}
		case fn != nil && c.poolPut[fn] != nil && idx == 0:
			c.putSite(pt, e, desc, stack, pidx, isWorkField || pkgField, isNil)
		default:
			c.unrec(pt, stack, "result channel passed to an unrecognised function")
		}
	case *ast.UnaryExpr:
		if pt.Op != token.ARROW {
			c.unrec(pt, stack, "operator")
			return
		}
		gp, gidx := ccParent(stack[:pidx])
		as, ok := gp.(*ast.AssignStmt)
		if !ok || as.Tok != token.DEFINE || len(as.Lhs) != 1 || len(as.Rhs) != 1 {
			c.unrec(pt, stack, "receive that is not `s := <-ch`")
			return
		}
		ggp, _ := ccParent(stack[:gidx])
		switch {
		case v != nil && v == c.spCh && ccFnDecl(stack) == c.spDecl:
			c.site(stack, as, "recv", "case s := <-ch: (select with ctx.Done())")
		case isWorkField:
			if _, ok := ggp.(*ast.BlockStmt); !ok {
				c.unrec(as, stack, "receive on a work item's channel that is not a plain statement")
				return
			}
			c.site(stack, as, "recv", "s := <-"+desc)
		case pkgField:
			c.site(stack, as, "recv", "s := <-"+desc)
		default:
			c.unrec(as, stack, "receive on a channel that is neither sendPacket's nor a work item's")
		}
	case *ast.AssignStmt:
		if ccIndex(pt.Lhs, e) >= 0 && pt.Tok == token.ASSIGN {
			if v != nil && v == c.spCh && ccFnDecl(stack) == c.spDecl {
				return // checkSendPacket
			}
			if pkgField {
				return // sharedAcrossCallers is on
			}
		}
		c.unrec(pt, stack, "assignment from / to a result-channel variable")
	case *ast.CompositeLit, *ast.KeyValueExpr:
		lit, _ := p.(*ast.CompositeLit)
		if lit == nil {
			gp, _ := ccParent(stack[:pidx])
			lit, _ = gp.(*ast.CompositeLit)
		}
		if lit == nil {
			c.unrec(p, stack, "key/value")
			return
		}
		lt := c.typeOf(lit)
		switch {
		case c.isLocalWork(lt) && kind == ccPooled:
			c.storeCnt[v]++
			c.site(stack, lit, "field", fmt.Sprintf("%s{... res: ch ...} (work item carrying the pooled channel)", lt.(*types.Named).Obj().Name()))
		case c.isPkgLevelNamed(lt):
			if b, _ := c.has(lt); b {
				c.site(stack, lit, "field", c.txt(p)+" (stored in a package-level type)")
			} else {
				c.unrec(lit, stack, "composite literal")
			}
		default:
			c.unrec(lit, stack, "channel stored in a composite literal")
		}
	case *ast.ReturnStmt:
		if !(c.inDecl(stack, c.poolGet) && kind == ccPoolRecv) {
			c.unrec(pt, stack, "result channel returned")
		} else {
			c.site(stack, pt, "poolGet", "case ch := <-p: return ch")
		}
	case *ast.SendStmt:
		if !(pt.Value == e || ccUnparen(pt.Value) == e) || !c.inDecl(stack, c.poolPut) {
			c.unrec(pt, stack, "send")
		} else {
			c.site(stack, pt, "poolPut", "case p <- ch: (default: dropped)")
		}
	case *ast.ValueSpec:
		// visitValueSpec
	default:
		c.unrec(e, stack, fmt.Sprintf("context %T", p))
	}
}

func (c *ccCtx) pktType(e ast.Expr) string {
	e = ccUnparen(e)
	if ue, ok := e.(*ast.UnaryExpr); ok && ue.Op == token.AND {
		if cl, ok := ue.X.(*ast.CompositeLit); ok {
			return typeName(cl.Type)
		}
	}
	if c.isVar(e, c.spPkt) {
		return "p"
	}
	return "?"
}

// X.Put(y): must be an expression statement directly after `s := <-y` (same list of statements, or first statement
// of the select arm whose communication is that receive).
func (c *ccCtx) putSite(call *ast.CallExpr, arg ast.Expr, desc string, stack []ast.Node, pidx int, fieldArg, isNil bool) {
	text := "pool.Put(" + desc + ")"
	gp, gidx := ccParent(stack[:pidx])
	if isNil {
		c.unrec(call, stack, "Put(nil)")
		return
	}
	switch g := gp.(type) {
	case *ast.DeferStmt, *ast.GoStmt:
		c.site(stack, gp, "poolPut", c.txt(gp))
		c.flip(&c.putAfterRecv, "poolPutOnlyAfterRecv", false, "%s: `%s` runs whether or not the reply was received", c.pi.pos(gp), c.txt(gp))
		return
	case *ast.ExprStmt:
		ggp, _ := ccParent(stack[:gidx])
		var list []ast.Stmt
		var comm ast.Stmt
		switch b := ggp.(type) {
		case *ast.BlockStmt:
			list = b.List
		case *ast.CaseClause:
			list = b.Body
		case *ast.CommClause:
			list, comm = b.Body, b.Comm
		}
		var prev ast.Stmt
		for i, s := range list {
			if s == ast.Stmt(g) {
				if i > 0 {
					prev = list[i-1]
				} else {
					prev = comm
				}
			}
		}
		ok := false
		if as, isAs := prev.(*ast.AssignStmt); isAs && as.Tok == token.DEFINE && len(as.Lhs) == 1 && len(as.Rhs) == 1 {
			if ue, isUe := ccUnparen(as.Rhs[0]).(*ast.UnaryExpr); isUe && ue.Op == token.ARROW {
				ok = c.sameChan(ue.X, arg)
			}
		}
		if ok {
			c.site(stack, call, "poolPut", "s := <-"+desc+"; "+text)
		} else {
			c.site(stack, call, "poolPut", text+" (not directly after the receive)")
			c.flip(&c.putAfterRecv, "poolPutOnlyAfterRecv", false, "%s: Put is not directly preceded by the receive on the same channel", c.pi.pos(call))
		}
	default:
		c.unrec(call, stack, "Put that is not a statement")
	}
}

// same variable, or same field of the same variable
func (c *ccCtx) sameChan(a, b ast.Expr) bool {
	a, b = ccUnparen(a), ccUnparen(b)
	if va, vb := c.varOf(a), c.varOf(b); va != nil || vb != nil {
		return va == vb
	}
	sa, oka := a.(*ast.SelectorExpr)
	sb, okb := b.(*ast.SelectorExpr)
	if !oka || !okb || c.pi.info.Uses[sa.Sel] != c.pi.info.Uses[sb.Sel] {
		return false
	}
	if c.varOf(sa.X) != nil {
		return c.varOf(sa.X) == c.varOf(sb.X)
	}
	return c.pi.nodeText(sa.X) == c.pi.nodeText(sb.X)
}

// ---- pool-typed expressions ----

func (c *ccCtx) poolExpr(e ast.Expr, stack []ast.Node) {
	info := c.pi.info
	p, pidx := ccParent(stack)
	switch t := e.(type) {
	case *ast.CallExpr:
		if _, ok := c.isCallTo(t, c.poolNew); ok {
			switch pt := p.(type) {
			case *ast.AssignStmt:
				i := ccIndex(pt.Rhs, e)
				if pt.Tok == token.DEFINE && i >= 0 && len(pt.Lhs) == len(pt.Rhs) {
					if id, ok := ccUnparen(pt.Lhs[i]).(*ast.Ident); ok && info.Defs[id] != nil {
						c.site(stack, pt, "make", "pool := "+c.pi.nodeText(t.Fun)+"(...) (function-local pool)")
						return
					}
				}
				c.unrec(pt, stack, "pool constructor not assigned to a new local")
			case *ast.ValueSpec:
				// visitValueSpec
			default:
				c.unrec(e, stack, "pool constructor in an unrecognised position")
			}
			return
		}
		if c.isBuiltin(t, "make") && c.inDecl(stack, c.poolNew) {
			if _, ok := p.(*ast.ReturnStmt); ok {
				return
			}
		}
		c.unrec(e, stack, "call returning a pool")
	case *ast.Ident, *ast.SelectorExpr:
		if id, ok := e.(*ast.Ident); ok && info.Defs[id] != nil {
			v := info.Defs[id].(*types.Var)
			switch p.(type) {
			case *ast.AssignStmt:
				c.varScope[v] = ccFnNode(stack)
			case *ast.Field:
				if v.IsField() {
					return
				}
				fd := ccFnDecl(stack)
				if fd == nil || c.recvVar(fd) != v || !(c.inDecl(stack, c.poolGet) || c.inDecl(stack, c.poolPut)) {
					c.unrec(e, stack, "pool parameter")
				}
			case *ast.ValueSpec:
			default:
				c.unrec(e, stack, "definition of a pool variable")
			}
			return
		}
		switch pt := p.(type) {
		case *ast.SelectorExpr:
			gp, _ := ccParent(stack[:pidx])
			call, ok := gp.(*ast.CallExpr)
			if ok && ccUnparen(call.Fun) == ast.Expr(pt) {
				if fn, ok := c.callee(call).(*types.Func); ok && (c.poolGet[fn] != nil || c.poolPut[fn] != nil) {
					return
				}
			}
			c.unrec(pt, stack, "pool used for something else than Get / Put")
		case *ast.UnaryExpr:
			if !(pt.Op == token.ARROW && c.inDecl(stack, c.poolGet)) {
				c.unrec(pt, stack, "receive from the pool outside its Get")
			}
		case *ast.SendStmt:
			if !(ccUnparen(pt.Chan) == e && c.inDecl(stack, c.poolPut)) {
				c.unrec(pt, stack, "send into the pool outside its Put")
			}
		default:
			c.unrec(e, stack, fmt.Sprintf("pool in context %T", p))
		}
	default:
		c.unrec(e, stack, "pool expression form")
	}
}

// ---- id definitions and writes ----

func (c *ccCtx) visitAssign(as *ast.AssignStmt, stack []ast.Node) {
	if as.Tok != token.DEFINE || len(as.Lhs) != len(as.Rhs) {
		return
	}
	for i, l := range as.Lhs {
		id, ok := l.(*ast.Ident)
		if !ok {
			continue
		}
		v, ok := c.pi.info.Defs[id].(*types.Var)
		if ok && c.isNextIDCall(as.Rhs[i]) {
			c.idDefs[v] = ccIDDef{ccFnNode(stack), ccLoop(stack), ccFnDecl(stack)}
		}
	}
}

// number of writes (other than the defining `:=`) to each variable of a function: =, op=, ++/--, &x, := re-use
func (c *ccCtx) writesIn(fd *ast.FuncDecl) map[types.Object]int {
	if w, ok := c.writes[fd]; ok {
		return w
	}
	w := map[types.Object]int{}
	use := func(e ast.Expr) {
		if id, ok := ccUnparen(e).(*ast.Ident); ok {
			if obj := c.pi.info.Uses[id]; obj != nil {
				w[obj]++
			}
		}
	}
	ast.Inspect(fd, func(n ast.Node) bool {
		switch t := n.(type) {
		case *ast.AssignStmt:
			for _, l := range t.Lhs {
				use(l)
			}
		case *ast.IncDecStmt:
			use(t.X)
		case *ast.UnaryExpr:
			if t.Op == token.AND {
				use(t.X)
			}
		case *ast.RangeStmt:
			if t.Key != nil {
				use(t.Key)
			}
			if t.Value != nil {
				use(t.Value)
			}
		}
		return true
	})
	c.writes[fd] = w
	return w
}

// every request handed to sendPacket / dispatchRequest: &T{... ID: <nextID() | local defined once from nextID()> ...}
func (c *ccCtx) visitCallIDs(call *ast.CallExpr, stack []ast.Node) {
	fn, _ := c.callee(call).(*types.Func)
	var pkt ast.Expr
	switch {
	case fn != nil && fn == c.spFn && len(call.Args) == 3:
		pkt = call.Args[2]
	case fn != nil && fn == c.drFn && len(call.Args) == 2:
		pkt = call.Args[1]
	default:
		return
	}
	pkt = ccUnparen(pkt)
	if ccFnDecl(stack) == c.spDecl && c.isVar(pkt, c.spPkt) {
		return // sendPacket forwards its own parameter
	}
	bad := func(why string) {
		c.site(stack, call, "idSource", c.pktType(pkt)+".ID <- "+why)
		c.flip(&c.idsDistinct, "idsDistinctInFlight", false, "%s: request id %s", c.pi.pos(call), why)
	}
	ue, ok := pkt.(*ast.UnaryExpr)
	var lit *ast.CompositeLit
	if ok && ue.Op == token.AND {
		lit, _ = ue.X.(*ast.CompositeLit)
	}
	if lit == nil {
		c.fail("%s: request passed to %s is not a `&T{...}` literal at %s", c.fnName(stack), fn.Name(), c.pi.pos(call))
		return
	}
	tn := typeName(lit.Type)
	// the field that T.id() returns
	var idField *types.Var
	if idDecl := c.pi.funcDecl(tn + ".id"); idDecl != nil && len(idDecl.Body.List) == 1 {
		if ret, ok := idDecl.Body.List[0].(*ast.ReturnStmt); ok && len(ret.Results) == 1 {
			if s, ok := ret.Results[0].(*ast.SelectorExpr); ok && c.isVar(s.X, c.recvVar(idDecl)) {
				idField, _ = c.pi.info.Uses[s.Sel].(*types.Var)
			}
		}
	}
	if idField == nil {
		c.fail("%s.id(): not `return p.<field>` (request literal at %s)", tn, c.pi.pos(call))
		return
	}
	var val ast.Expr
	for _, el := range lit.Elts {
		kv, ok := el.(*ast.KeyValueExpr)
		if !ok {
			c.fail("%s: positional request literal at %s", c.fnName(stack), c.pi.pos(lit))
			return
		}
		if k, ok := kv.Key.(*ast.Ident); ok && c.pi.info.Uses[k] == types.Object(idField) {
			val = ccUnparen(kv.Value)
		}
	}
	switch {
	case val == nil:
		bad("is not set in the literal")
	case c.isNextIDCall(val):
		c.site(stack, call, "idSource", tn+".ID <- nextID()")
	default:
		v := c.varOf(val)
		def, ok := c.idDefs[v]
		switch {
		case v == nil:
			bad("is `" + c.pi.nodeText(val) + "`, not nextID() or a local holding it")
		case !ok:
			bad("comes from a variable that is not defined by `id := ....nextID()`")
		case def.fn != ccFnNode(stack) || def.loop != ccLoop(stack):
			bad("is drawn outside the loop / function that dispatches it")
		case c.writesIn(def.decl)[v] > 0:
			bad("comes from a variable that is modified after `id := ....nextID()`")
		default:
			c.idUses[v]++
			if c.idUses[v] > 1 {
				bad("is used for more than one request")
			} else {
				c.site(stack, call, "idSource", tn+".ID <- id := nextID() (same iteration)")
			}
		}
	}
}

// ---- select arms and defers ----

// selects directly in a function node (nested literals excluded)
func ccSelectsOf(fn ast.Node) []*ast.SelectStmt {
	var out []*ast.SelectStmt
	ast.Inspect(fn, func(n ast.Node) bool {
		if _, ok := n.(*ast.FuncLit); ok && n != fn {
			return false
		}
		if s, ok := n.(*ast.SelectStmt); ok {
			out = append(out, s)
		}
		return true
	})
	return out
}

func (c *ccCtx) armKind(cc *ast.CommClause) string {
	var rx ast.Expr
	switch cm := cc.Comm.(type) {
	case nil:
		return "default"
	case *ast.SendStmt:
		return "send"
	case *ast.ExprStmt:
		rx = cm.X
	case *ast.AssignStmt:
		if len(cm.Rhs) == 1 {
			rx = cm.Rhs[0]
		}
	}
	ue, ok := ccUnparen(rx).(*ast.UnaryExpr)
	if !ok || ue.Op != token.ARROW {
		return "?"
	}
	if c.isCtxDone(ue) {
		return "ctx"
	}
	if t := c.typeOf(ue.X); c.isRC(t) || c.isPool(t) {
		return "recv"
	}
	return "cancel"
}

func (c *ccCtx) holdsRC(fn ast.Node) bool {
	if b, ok := c.mentions[fn]; ok {
		return b
	}
	var body ast.Node
	switch t := fn.(type) {
	case *ast.FuncDecl:
		body = t.Body
	case *ast.FuncLit:
		body = t.Body
	}
	b := body != nil && c.mentionsRC(body, true)
	c.mentions[fn] = b
	return b
}

// stack includes the select itself
func (c *ccCtx) visitSelect(sel *ast.SelectStmt, stack []ast.Node) {
	if c.inDecl(stack, c.poolGet) || c.inDecl(stack, c.poolPut) {
		return // strict shapes
	}
	fn := ccFnNode(stack)
	if fn == nil {
		return
	}
	for _, cl := range sel.Body.List {
		cc := cl.(*ast.CommClause)
		k := c.armKind(cc)
		if k != "ctx" && k != "cancel" && k != "default" {
			continue
		}
		touches := false
		for _, s := range cc.Body {
			if c.mentionsRC(s, false) {
				touches = true
			}
		}
		if !touches && !c.holdsRC(fn) {
			continue
		}
		body := ""
		for _, s := range cc.Body {
			body += " " + c.txt(s)
		}
		head := "default:"
		kind := "cancelArm"
		switch k {
		case "ctx":
			head, kind = "case <-ctx.Done():", "ctxArm"
		case "cancel":
			head = "case <-cancel:"
		}
		if k == "default" && !touches {
			continue
		}
		c.site(stack, cc, kind, head+body)
		if touches {
			c.flip(&c.abandoned, "abandonedNotReturned", false, "%s: the arm `%s` of a call that gives up touches a result channel / pool:%s", c.pi.pos(cc), head, body)
		}
	}
}

func (c *ccCtx) visitDefer(d *ast.DeferStmt, stack []ast.Node) {
	if !c.mentionsRC(d.Call, false) {
		return
	}
	fn := ccFnNode(stack)
	if fn == nil {
		return
	}
	for _, sel := range ccSelectsOf(fn) {
		for _, cl := range sel.Body.List {
			if k := c.armKind(cl.(*ast.CommClause)); k == "ctx" || k == "cancel" {
				c.flip(&c.abandoned, "abandonedNotReturned", false, "%s: `%s` also runs when the call gives up (`case <-%s` at %s)", c.pi.pos(d), c.txt(d), map[string]string{"ctx": "ctx.Done()", "cancel": "cancel"}[k], c.pi.pos(cl))
				return
			}
		}
	}
}

// ---- rules over the collected facts ----

func (c *ccCtx) finish() {
	// every pooled channel is dispatched exactly once and handed on in a work item
	for v, k := range c.varKind {
		if k != ccPooled {
			continue
		}
		if c.dispCount[v] != 1 {
			c.fail("pooled channel `%s` is dispatched %d times between Get and hand-over (last at %s)", v.Name(), c.dispCount[v], c.dispPos[v])
		}
		if c.storeCnt[v] < 1 {
			c.fail("pooled channel `%s` (dispatched at %s) is not handed on in a work item", v.Name(), c.dispPos[v])
		}
	}
	// dispatch with a pool channel happens in exactly one goroutine per invocation: one Get site per pool, in the
	// function itself or in ONE `go func() {...}()` that is not started in a loop
	for pool, stacks := range c.getSites {
		if len(stacks) != 1 {
			c.flip(&c.shared, "sharedAcrossCallers", true, "pool `%s` has %d Get sites", pool.Name(), len(stacks))
			continue
		}
		st := stacks[0]
		lits := 0
		for i, n := range st {
			lit, ok := n.(*ast.FuncLit)
			if !ok {
				continue
			}
			lits++
			okGo := false
			if i >= 2 {
				call, isCall := st[i-1].(*ast.CallExpr)
				_, isGo := st[i-2].(*ast.GoStmt)
				okGo = isCall && isGo && ccUnparen(call.Fun) == ast.Expr(lit)
			}
			inLoop := false
			for _, m := range st[:i] {
				switch m.(type) {
				case *ast.ForStmt, *ast.RangeStmt:
					inLoop = true
				}
			}
			if !okGo || inLoop || lits > 1 {
				c.flip(&c.shared, "sharedAcrossCallers", true, "%s: the function literal that Gets from pool `%s` is not a single `go func(){...}()` outside loops", c.pi.pos(lit), pool.Name())
			}
		}
	}
}

func (c *ccCtx) emit(haveAnchors bool) {
	u := c.u
	neutral := len(u.errs) > 0 || !haveAnchors
	fresh, put, ab, reuse, shared, ids := c.fresh, c.putAfterRecv, c.abandoned, c.reuseSeq, c.shared, c.idsDistinct
	if neutral {
		fresh, put, ab, reuse, shared, ids = false, false, false, false, true, false
	}
	src := []string{}
	if haveAnchors {
		src = append(src, c.pi.pos(c.spDecl)+" clientConn.sendPacket", c.pi.pos(c.nextIDDecl)+" Client.nextID")
		for _, fd := range c.poolGet {
			src = append(src, c.pi.pos(fd)+" "+ccDeclName(fd))
		}
		for _, fd := range c.poolPut {
			src = append(src, c.pi.pos(fd)+" "+ccDeclName(fd))
		}
	}
	u.pf("-- source: %s; every value of type `chan result` / resChanPool in package sftp (see clientChanSites)\n", strings.Join(src, ", "))
	if neutral {
		u.pf("-- EXTRACTION FAILED (see extract_errors.json): neutral configuration\n")
	}
	u.pf("def clientChanCfg : Sftp.ClientChan.ChanCfg :=\n")
	u.pf("  { freshPerSyncCall := %s, poolPutOnlyAfterRecv := %s, abandonedNotReturned := %s,\n", leanBool(fresh), leanBool(put), leanBool(ab))
	u.pf("    reuseOnlySequential := %s, sharedAcrossCallers := %s, idsDistinctInFlight := %s }\n\n", leanBool(reuse), leanBool(shared), leanBool(ids))
	u.pf("/-- why a fact is off: (fact, reason) -/\n")
	var ns []string
	seen := map[string]bool{}
	for _, n := range c.notes {
		k := n[0] + "\x00" + n[1]
		if !seen[k] {
			seen[k] = true
			ns = append(ns, fmt.Sprintf("  (%s, %s)", leanStr(n[0]), leanStr(n[1])))
		}
	}
	if len(ns) == 0 {
		u.pf("def clientChanNotes : List (String × String) := []\n\n")
	} else {
		u.pf("def clientChanNotes : List (String × String) := [\n%s]\n\n", strings.Join(ns, ",\n"))
	}
	u.pf("/-- evidence: every site found, (function, kind, normalised text);\nkind ∈ make | poolGet | poolPut | recv | ctxArm | cancelArm | passNil | passChan | field | idSource -/\n")
	u.pf("def clientChanSites : List (String × String × String) := [")
	for i, s := range c.sites {
		sep := ","
		if i == len(c.sites)-1 {
			sep = ""
		}
		u.pf("\n  (%s, %s, %s)%s -- %s", leanStr(s.fn), leanStr(s.kind), leanStr(s.text), sep, s.pos)
	}
	if len(c.sites) > 0 {
		u.pf("\n  ")
	}
	u.pf("]\n\nend Sftp.G\n")
}

// extractClientChan: unit ClientChanCfg.
func extractClientChan(x *extractor) {
	u := x.newUnit("ClientChanCfg")
	u.pf("import Sftp.Model.ClientChan\nnamespace Sftp.G\n\n")
	c := &ccCtx{u: u, pi: x.root,
		poolGet: map[*types.Func]*ast.FuncDecl{}, poolPut: map[*types.Func]*ast.FuncDecl{}, poolNew: map[*types.Func]*ast.FuncDecl{},
		chunk: map[*types.Func]int{}, declOf: map[*ast.FuncDecl]*types.Func{}, litName: map[*ast.FuncLit]string{},
		fieldLocal: map[*types.Var]bool{},
		fresh:      true, putAfterRecv: true, abandoned: true, reuseSeq: true, shared: false, idsDistinct: true,
		varKind: map[*types.Var]ccVarKind{}, varScope: map[types.Object]ast.Node{}, dispCount: map[*types.Var]int{},
		dispPos: map[*types.Var]string{}, storeCnt: map[*types.Var]int{}, getSites: map[types.Object][][]ast.Node{},
		idDefs: map[*types.Var]ccIDDef{}, idUses: map[*types.Var]int{}, writes: map[*ast.FuncDecl]map[types.Object]int{},
		mentions: map[ast.Node]bool{}}
	ok := c.findAnchors()
	if ok {
		c.checkNextID()
		c.checkSendPacket()
		c.checkPool()
		c.walk()
		c.finish()
	}
	c.emit(ok)
}
