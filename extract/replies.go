package main

// Unit ClientReplies (property C20): for every place where the client decodes
// bytes received from the server, the reply cases (`switch typ { case sshFxpX: … }`)
// and, per case, the ordered decoding operations applied to the reply bytes, as a
// small program over Sftp.Reply.RStep (lean/Sftp/Model/ReplyStep.lean).
//
// Closed list of statement shapes (anything else that touches the reply bytes is a
// failure, never a guess):
//   v, data := unmarshalUint32|Uint64|String(data)              unchecked primitive
//   v, data, err := unmarshal…Safe(data) ; if err != nil {…}    checked primitive
//   s, data, _ := unmarshalStringSafe(data)                     checked, error discarded (strOpt)
//   x, _ := f(data) / x, _, err := f(data)                      peek (remaining slice thrown away)
//   attr, data, err = unmarshalAttrs(data) / unmarshalExtensionPair / return unmarshalFileStat(flags, b)
//   … unmarshalStatus(id, data) …                               status (ends the case)
//   … statusOrUnexpectedOK(id, data) …                          the same, through the helper whose body must be
//                                                               `if err := normaliseError(unmarshalStatus(id, data)); err != nil { return err }; return errUnexpectedOK`
//   if v, data, e := unmarshal…Safe(data); e != nil {…} else …  checked primitive as the init of an if/else-if chain
//   if len(data) < K {…}                                        makes the next unchecked u32/u64 safe
//   if sid != id {…} [else {…}]   if count != K {…}   if flags&C == C {…}
//   if l > len(data) [|| l > bufbound] {…} [else {…}]           makes the next data[:l] / buf[:l] safe
//   if count > uint32(len(b)/K) {…} ; x := make([]T, count) ; for i := 0; i < count; i++ {…}
//   for len(data) > 0 {…}
//   err = binary.Read(bytes.NewReader(data), binary.BigEndian, &x) ; if err != nil {…}
//   if err == nil {…}   (continuation)      statements that do not mention the reply bytes (ignored)

import (
	"fmt"
	"go/ast"
	"go/token"
	"go/types"
	"sort"
	"strings"
)

func init() { extractors = append(extractors, extractReplies) }

type rstep struct {
	kind  string // u32 u64 str strOpt flags call checkId idFromLast checkCountIs sliceLen sliceBuf loopCount loopRest ifFlag binaryRead peek
	safe  bool
	n     int64
	guard int64 // loopCount: -1 = none
	fn    string
	body  []rstep
}

func rpLeanProg(p []rstep) string {
	var parts []string
	for _, s := range p {
		parts = append(parts, s.lean())
	}
	return "[" + strings.Join(parts, ", ") + "]"
}

func (s rstep) lean() string {
	switch s.kind {
	case "u32", "u64", "str", "flags", "sliceLen", "sliceBuf":
		return fmt.Sprintf(".%s %s", s.kind, leanBool(s.safe))
	case "strOpt", "checkId", "idFromLast":
		return "." + s.kind
	case "call":
		switch s.fn {
		case "unmarshalAttrs":
			return ".attrs"
		}
		return ".call " + leanStr(s.fn)
	case "checkCountIs", "binaryRead":
		return fmt.Sprintf(".%s %d", s.kind, s.n)
	case "loopCount":
		g := "none"
		if s.guard >= 0 {
			g = fmt.Sprintf("(some %d)", s.guard)
		}
		return fmt.Sprintf(".loopCount %s %d %s", g, s.n, rpLeanProg(s.body))
	case "loopRest":
		return ".loopRest " + rpLeanProg(s.body)
	case "ifFlag":
		return fmt.Sprintf(".ifFlag %d %s", s.n, rpLeanProg(s.body))
	case "peek":
		if len(s.body) == 1 && s.body[0].kind == "call" && s.body[0].fn == "unmarshalStatus" {
			return ".status"
		}
		return ".peek " + rpLeanProg(s.body)
	}
	return ".call \"?\""
}

type rsite struct {
	fn, pos, op string
	head        bool
}

type rpDecoderInfo struct {
	kind    string
	safe    bool
	results int
}

var replyDecoders = map[string]rpDecoderInfo{
	"unmarshalUint32":        {"u32", false, 2},
	"unmarshalUint32Safe":    {"u32", true, 3},
	"unmarshalUint64":        {"u64", false, 2},
	"unmarshalUint64Safe":    {"u64", true, 3},
	"unmarshalString":        {"str", false, 2},
	"unmarshalStringSafe":    {"str", true, 3},
	"unmarshalAttrs":         {"call", true, 3},
	"unmarshalFileStat":      {"call", true, 3},
	"unmarshalExtensionPair": {"call", true, 3},
}

type rwalk struct {
	pi       *pkgInfo
	u        *unit
	fn       string
	cur      string // text of the expression holding the not yet decoded reply bytes
	lastVar  string // variable holding the uint32 read most recently
	flagsVar string
	sites    *[]rsite
	nsteps   int // decoding steps emitted so far at the top level of this case (for `head`)
	depth    int

	viaOKHelper bool // the status of this case is decoded through statusOrUnexpectedOK

	lenGuard   int64 // from `if len(data) < K`
	sliceGuard bool  // from `if l > len(data)`
	bufGuard   bool
	cntGuard   int64 // from `if count > len(b)/K`, -1 none
	mk         int64 // from make([]T, count)
}

func (w *rwalk) fail(n ast.Node, format string, a ...any) {
	w.u.fail("%s: %s (%s)", w.fn, fmt.Sprintf(format, a...), w.pi.pos(n))
}

func (w *rwalk) mentionsCur(n ast.Node) bool {
	found := false
	ast.Inspect(n, func(m ast.Node) bool {
		if found || m == nil {
			return false
		}
		switch t := m.(type) {
		case *ast.Ident:
			if t.Name == w.cur {
				found = true
			}
		case *ast.SelectorExpr:
			if exprString(t) == w.cur {
				found = true
				return false
			}
		}
		return true
	})
	return found
}

// rpStatusHelper: the client.go wrapper around unmarshalStatus that never returns nil.
const rpStatusHelper = "statusOrUnexpectedOK"

func rpIsStatusCall(name string) bool { return name == "unmarshalStatus" || name == rpStatusHelper }

func rpDecoderCalls(n ast.Node) []*ast.CallExpr {
	var out []*ast.CallExpr
	ast.Inspect(n, func(m ast.Node) bool {
		if c, ok := m.(*ast.CallExpr); ok {
			if id, ok := c.Fun.(*ast.Ident); ok {
				if _, ok := replyDecoders[id.Name]; ok || rpIsStatusCall(id.Name) {
					out = append(out, c)
				}
			}
		}
		return true
	})
	return out
}

func rpStripConv(e ast.Expr) ast.Expr {
	for {
		switch t := e.(type) {
		case *ast.ParenExpr:
			e = t.X
			continue
		case *ast.CallExpr:
			if id, ok := t.Fun.(*ast.Ident); ok && len(t.Args) == 1 {
				switch id.Name {
				case "int", "int64", "uint32", "uint64", "uint", "int32":
					e = t.Args[0]
					continue
				}
			}
		}
		return e
	}
}

func rpTerminates(b *ast.BlockStmt) bool {
	if b == nil || len(b.List) == 0 {
		return false
	}
	switch t := b.List[len(b.List)-1].(type) {
	case *ast.ReturnStmt:
		return true
	case *ast.BranchStmt:
		return t.Tok == token.BREAK || t.Tok == token.CONTINUE || t.Tok == token.GOTO
	}
	return false
}

// rpSetsErr: a block consisting of assignments to an error variable only (`err = …`).
func rpSetsErr(b *ast.BlockStmt) bool {
	if b == nil || len(b.List) == 0 {
		return false
	}
	for _, s := range b.List {
		as, ok := s.(*ast.AssignStmt)
		if !ok || len(as.Lhs) != 1 {
			return false
		}
		if id, ok := as.Lhs[0].(*ast.Ident); !ok || !strings.HasPrefix(id.Name, "err") {
			return false
		}
	}
	return true
}

func rpIsLenOf(e ast.Expr, cur string) bool {
	c, ok := rpStripConv(e).(*ast.CallExpr)
	if !ok || len(c.Args) != 1 {
		return false
	}
	id, ok := c.Fun.(*ast.Ident)
	return ok && id.Name == "len" && exprString(c.Args[0]) == cur
}

// bufBound: an expression that bounds the request's own buffer.
func rpIsBufBound(e ast.Expr) bool {
	e = rpStripConv(e)
	switch t := e.(type) {
	case *ast.Ident:
		return t.Name == "chunkSize"
	case *ast.SelectorExpr:
		return exprString(t) == "f.c.maxPacket"
	case *ast.CallExpr:
		if id, ok := t.Fun.(*ast.Ident); ok && (id.Name == "len" || id.Name == "cap") && len(t.Args) == 1 {
			_, isId := t.Args[0].(*ast.Ident)
			_, isSel := t.Args[0].(*ast.SelectorExpr)
			return isId || isSel
		}
	}
	return false
}

// sliceGuards: which of (l > len(cur)), (l > buffer bound) a condition establishes as top-level disjuncts.
func (w *rwalk) sliceGuards(cond ast.Expr) (data, buf, ok bool) {
	switch t := cond.(type) {
	case *ast.ParenExpr:
		return w.sliceGuards(t.X)
	case *ast.BinaryExpr:
		if t.Op == token.LOR {
			d1, b1, ok1 := w.sliceGuards(t.X)
			d2, b2, ok2 := w.sliceGuards(t.Y)
			return d1 || d2, b1 || b2, ok1 && ok2
		}
		var l, bound ast.Expr
		switch t.Op {
		case token.GTR:
			l, bound = t.X, t.Y
		case token.LSS:
			l, bound = t.Y, t.X
		default:
			return false, false, false
		}
		if exprString(rpStripConv(l)) != w.lastVar || w.lastVar == "" {
			return false, false, false
		}
		if rpIsLenOf(bound, w.cur) {
			return true, false, true
		}
		if rpIsBufBound(bound) {
			return false, true, true
		}
	}
	return false, false, false
}

func (w *rwalk) emitTop() {
	if w.depth == 0 {
		w.nsteps++
	}
}

func (w *rwalk) sub() *rwalk {
	c := *w
	c.depth++
	c.lenGuard, c.sliceGuard, c.bufGuard, c.cntGuard, c.mk = 0, false, false, -1, 0
	return &c
}

// walk returns the program of a statement list and whether the list always ends the case.
func (w *rwalk) walk(stmts []ast.Stmt) (prog []rstep, done bool) {
	for i := 0; i < len(stmts); i++ {
		st := stmts[i]
		var next ast.Stmt
		if i+1 < len(stmts) {
			next = stmts[i+1]
		}
		calls := rpDecoderCalls(st)

		// --- unmarshalStatus anywhere in a simple statement ends the case
		if len(calls) > 0 {
			isSimple := false
			switch st.(type) {
			case *ast.ReturnStmt, *ast.AssignStmt, *ast.ExprStmt:
				isSimple = true
			}
			if id := calls[0].Fun.(*ast.Ident); rpIsStatusCall(id.Name) && isSimple {
				c := calls[0]
				if len(calls) != 1 || len(c.Args) != 2 || exprString(c.Args[1]) != w.cur {
					w.fail(st, "unrecognised %s call", id.Name)
					return prog, true
				}
				if id.Name == rpStatusHelper {
					w.viaOKHelper = true
				}
				idArg := exprString(c.Args[0])
				if idArg == w.lastVar && w.lastVar != "" {
					prog = append(prog, rstep{kind: "idFromLast"})
				} else if idArg != "id" && !strings.HasSuffix(idArg, ".id") {
					w.fail(st, "unmarshalStatus is not given the request id but %q", idArg)
				}
				prog = append(prog, rstep{kind: "peek", body: []rstep{{kind: "call", fn: "unmarshalStatus"}}})
				w.emitTop()
				return prog, true
			}
		}

		switch t := st.(type) {
		case *ast.DeclStmt:
			continue

		case *ast.ReturnStmt:
			if len(calls) == 1 && len(t.Results) == 1 {
				// `return unmarshalFileStat(flags, b)`
				c := calls[0]
				name := c.Fun.(*ast.Ident).Name
				if t.Results[0] == ast.Expr(c) && replyDecoders[name].kind == "call" && exprString(c.Args[len(c.Args)-1]) == w.cur {
					prog = append(prog, rstep{kind: "call", fn: name})
					w.emitTop()
					return prog, true
				}
			}
			if len(calls) > 0 {
				w.fail(st, "unrecognised decoder call in return")
			}
			return prog, true

		case *ast.BranchStmt:
			return prog, true

		case *ast.AssignStmt:
			if len(calls) == 1 && len(t.Rhs) == 1 && t.Rhs[0] == ast.Expr(calls[0]) {
				steps, skip, cont, fin := w.decode(t, calls[0], next, stmts[i+1:])
				prog = append(prog, steps...)
				if fin {
					return prog, cont
				}
				i += skip
				continue
			}
			if len(calls) > 0 {
				w.fail(st, "unrecognised decoder call")
				continue
			}
			// binary.Read(bytes.NewReader(data), binary.BigEndian, &x)
			if len(t.Rhs) == 1 {
				if c, ok := t.Rhs[0].(*ast.CallExpr); ok && exprString(c.Fun) == "binary.Read" && len(c.Args) == 3 {
					n, ok := w.binarySize(c)
					if !ok || !w.errChecked(exprString(t.Lhs[0]), next) {
						w.fail(st, "unrecognised binary.Read")
						continue
					}
					prog = append(prog, rstep{kind: "binaryRead", n: n})
					w.emitTop()
					i++
					continue
				}
				// x := make([]T, count)
				if c, ok := t.Rhs[0].(*ast.CallExpr); ok && exprString(c.Fun) == "make" && len(c.Args) == 2 && exprString(c.Args[1]) == w.lastVar && w.lastVar != "" {
					if at, ok := c.Args[0].(*ast.ArrayType); ok {
						if tv, ok := w.pi.info.Types[at.Elt]; ok && tv.Type != nil {
							w.mk = types.SizesFor("gc", "amd64").Sizeof(tv.Type)
							continue
						}
					}
					w.fail(st, "unrecognised make with a count from the reply")
					continue
				}
			}
			prog = append(prog, w.slices(st)...)
			continue

		case *ast.ExprStmt, *ast.IncDecStmt, *ast.SendStmt:
			prog = append(prog, w.slices(st)...)
			continue

		case *ast.IfStmt:
			if t.Init != nil {
				// `if v, data, e := unmarshal…Safe(data); e != nil { err = e } else …`
				if ias, ok := t.Init.(*ast.AssignStmt); ok && len(ias.Rhs) == 1 {
					ic := rpDecoderCalls(ias)
					if len(ic) == 1 && ias.Rhs[0] == ast.Expr(ic[0]) && !rpIsStatusCall(ic[0].Fun.(*ast.Ident).Name) &&
						len(rpDecoderCalls(t.Cond)) == 0 && len(rpDecoderCalls(t.Body)) == 0 &&
						(rpTerminates(t.Body) || (rpSetsErr(t.Body) && (t.Else != nil || next == nil))) {
						check := &ast.IfStmt{If: t.If, Cond: t.Cond, Body: t.Body}
						steps, skip, _, fin := w.decode(ias, ic[0], check, []ast.Stmt{check})
						prog = append(prog, steps...)
						if skip != 1 || fin {
							w.fail(st, "the error of the decoder in the if-init is not what the condition tests")
						}
						if t.Else != nil {
							p, d := w.walkElse(t.Else)
							prog = append(prog, p...)
							if d {
								return prog, true
							}
						}
						continue
					}
				}
				if w.mentionsCur(t) || len(calls) > 0 {
					w.fail(st, "unrecognised if with init statement")
				}
				continue
			}
			cond := t.Cond
			condTxt := w.pi.nodeText(cond)
			if be, ok := cond.(*ast.BinaryExpr); ok {
				x, y := exprString(be.X), exprString(be.Y)
				// id check
				if be.Op == token.NEQ && w.lastVar != "" && ((x == w.lastVar && rpIsIDExpr(y)) || (y == w.lastVar && rpIsIDExpr(x))) {
					if !strings.Contains(w.pi.nodeText(t.Body), "unexpectedIDErr") || !(rpTerminates(t.Body) || (rpSetsErr(t.Body) && (t.Else != nil || next == nil))) {
						w.fail(st, "id check does not produce unexpectedIDErr and leave")
					}
					prog = append(prog, rstep{kind: "checkId"})
					if t.Else != nil {
						p, d := w.walkElse(t.Else)
						prog = append(prog, p...)
						if d {
							return prog, true
						}
					}
					continue
				}
				// count check `count != K`
				if be.Op == token.NEQ && x == w.lastVar && w.lastVar != "" {
					if k, ok := w.pi.exprInt(be.Y); ok && rpTerminates(t.Body) {
						prog = append(prog, rstep{kind: "checkCountIs", n: k})
						continue
					}
				}
				// length guard `len(data) < K`
				if be.Op == token.LSS && rpIsLenOf(be.X, w.cur) {
					if k, ok := w.pi.exprInt(be.Y); ok && (rpTerminates(t.Body) || rpSetsErr(t.Body) && t.Else != nil) {
						w.lenGuard = k
						if t.Else != nil {
							p, d := w.walkElseKeep(t.Else)
							prog = append(prog, p...)
							if d {
								return prog, true
							}
						}
						continue
					}
				}
				// count guard `count > uint32(len(b)/K)`
				if be.Op == token.GTR && exprString(rpStripConv(be.X)) == w.lastVar && w.lastVar != "" {
					if q, ok := rpStripConv(be.Y).(*ast.BinaryExpr); ok && q.Op == token.QUO && rpIsLenOf(q.X, w.cur) {
						if k, ok := w.pi.exprInt(q.Y); ok && k > 0 && rpTerminates(t.Body) {
							w.cntGuard = k
							continue
						}
					}
				}
				// flags test `flags&C == C`
				if be.Op == token.EQL {
					if a, ok := be.X.(*ast.BinaryExpr); ok && a.Op == token.AND && exprString(a.X) == "flags" {
						c1, ok1 := w.pi.exprInt(a.Y)
						c2, ok2 := w.pi.exprInt(be.Y)
						if ok1 && ok2 && c1 == c2 && t.Else == nil {
							s := w.sub()
							s.cur, s.lastVar = w.cur, w.lastVar
							body, _ := s.walk(t.Body.List)
							w.cur, w.lastVar = s.cur, s.lastVar
							prog = append(prog, rstep{kind: "ifFlag", n: c1, body: body})
							w.emitTop()
							continue
						}
					}
				}
			}
			// slice guard
			if d, b, ok := w.sliceGuards(cond); ok && (rpTerminates(t.Body) || rpSetsErr(t.Body) && (t.Else != nil || next == nil)) {
				w.sliceGuard = w.sliceGuard || d
				w.bufGuard = w.bufGuard || b
				if t.Else != nil {
					p, dn := w.walkElseKeep(t.Else)
					prog = append(prog, p...)
					if dn {
						return prog, true
					}
				}
				continue
			}
			// `if err == nil { …continuation… }`
			if strings.HasSuffix(condTxt, "== nil") && strings.HasPrefix(condTxt, "err") && (w.mentionsCur(t.Body) || len(calls) > 0) {
				p, d := w.walk(t.Body.List)
				prog = append(prog, p...)
				if d {
					return prog, true
				}
				continue
			}
			if w.mentionsCur(st) || len(calls) > 0 {
				w.fail(st, "unrecognised if %q touching the reply bytes", condTxt)
			} else if w.lastVar != "" && rpMentionsIdent(cond, w.lastVar) {
				w.fail(st, "unrecognised condition %q on a value read from the reply", condTxt)
			}
			continue

		case *ast.ForStmt:
			// for len(data) > 0 {…}
			if t.Init == nil && t.Post == nil && t.Cond != nil {
				if be, ok := t.Cond.(*ast.BinaryExpr); ok && be.Op == token.GTR && rpIsLenOf(be.X, w.cur) && exprString(be.Y) == "0" {
					s := w.sub()
					body, _ := s.walk(t.Body.List)
					if s.cur != w.cur {
						w.fail(st, "loop body leaves the reply bytes in %q", s.cur)
					}
					prog = append(prog, rstep{kind: "loopRest", body: body})
					w.emitTop()
					continue
				}
			}
			// for i := T(0); i < count; i++ {…}
			if be, ok := t.Cond.(*ast.BinaryExpr); ok && t.Init != nil && t.Post != nil && be.Op == token.LSS &&
				exprString(be.Y) == w.lastVar && w.lastVar != "" {
				iv := exprString(be.X)
				initTxt, postTxt := w.pi.nodeText(t.Init), w.pi.nodeText(t.Post)
				if (initTxt == iv+" := uint32(0)" || initTxt == iv+" := 0") && postTxt == iv+"++" {
					s := w.sub()
					body, _ := s.walk(t.Body.List)
					if s.cur != w.cur {
						w.fail(st, "loop body leaves the reply bytes in %q", s.cur)
					}
					prog = append(prog, rstep{kind: "loopCount", guard: w.cntGuard, n: w.mk, body: body})
					w.cntGuard, w.mk = -1, 0
					w.emitTop()
					continue
				}
			}
			if w.mentionsCur(st) || len(calls) > 0 {
				w.fail(st, "unrecognised loop touching the reply bytes")
			}
			continue

		default:
			if w.mentionsCur(st) || len(calls) > 0 {
				w.fail(st, "unrecognised statement touching the reply bytes")
			}
		}
	}
	return prog, false
}

func rpMentionsIdent(n ast.Node, name string) bool {
	found := false
	ast.Inspect(n, func(m ast.Node) bool {
		if id, ok := m.(*ast.Ident); ok && id.Name == name {
			found = true
		}
		return !found
	})
	return found
}

func rpIsIDExpr(s string) bool { return s == "id" || strings.HasSuffix(s, ".id") }

func (w *rwalk) walkElse(e ast.Stmt) ([]rstep, bool) {
	switch b := e.(type) {
	case *ast.BlockStmt:
		p, _ := w.walk(b.List)
		return p, false
	case *ast.IfStmt:
		p, _ := w.walk([]ast.Stmt{b})
		return p, false
	}
	return nil, false
}

// walkElseKeep: like walkElse; the guards just established stay in force inside the else branch.
func (w *rwalk) walkElseKeep(e ast.Stmt) ([]rstep, bool) { return w.walkElse(e) }

// errChecked: the statement after a checked decoder handles its error.
func (w *rwalk) errChecked(errVar string, next ast.Stmt) bool {
	switch n := next.(type) {
	case *ast.IfStmt:
		if n.Init == nil && w.pi.nodeText(n.Cond) == errVar+" != nil" && (rpTerminates(n.Body) || rpSetsErr(n.Body)) {
			return true
		}
	}
	return false
}

// decode handles `lhs… := decoder(args)`.  skip = number of following statements consumed;
// fin = the statement list ends here (cont then says whether the case is done).
func (w *rwalk) decode(as *ast.AssignStmt, c *ast.CallExpr, next ast.Stmt, rest []ast.Stmt) (prog []rstep, skip int, done bool, fin bool) {
	name := c.Fun.(*ast.Ident).Name
	info := replyDecoders[name]
	if len(as.Lhs) != info.results || len(c.Args) == 0 || exprString(c.Args[len(c.Args)-1]) != w.cur {
		w.fail(as, "%s is not applied to the current reply bytes %q", name, w.cur)
		return nil, 0, false, false
	}
	v, r := exprString(as.Lhs[0]), exprString(as.Lhs[1])
	step := rstep{kind: info.kind, safe: info.safe, fn: name}
	if info.kind == "u32" && v == w.flagsVar && v != "" {
		step.kind = "flags"
	}
	if !info.safe {
		need := int64(4)
		if info.kind == "u64" {
			need = 8
		}
		if info.kind != "str" && w.lenGuard >= need {
			step.safe = true
		}
		if !step.safe {
			*w.sites = append(*w.sites, rsite{w.fn, w.pi.pos(c), name, w.depth == 0 && w.nsteps == 0 && info.kind == "u32"})
		}
	}
	w.lenGuard = 0
	if info.kind == "u32" {
		w.lastVar = v
		if v == "_" {
			w.lastVar = ""
		}
		w.sliceGuard, w.bufGuard = false, false
	}
	peek := r == "_"
	if !peek {
		if _, ok := as.Lhs[1].(*ast.Ident); !ok {
			w.fail(as, "remaining bytes assigned to %q", r)
		}
	}
	wrap := func(s rstep) []rstep {
		w.emitTop()
		if peek {
			return []rstep{{kind: "peek", body: []rstep{s}}}
		}
		return []rstep{s}
	}
	if info.results == 3 {
		e := exprString(as.Lhs[2])
		switch {
		case e == "_":
			if info.kind != "str" {
				w.fail(as, "error of %s discarded", name)
			}
			step.kind = "strOpt"
			if !peek {
				w.cur = r
			}
			return wrap(step), 0, false, false
		case w.errChecked(e, next):
			if !peek {
				w.cur = r
			}
			return wrap(step), 1, false, false
		}
		if rs, ok := next.(*ast.ReturnStmt); ok && strings.Contains(w.pi.nodeText(rs), e) && len(rpDecoderCalls(rs)) == 0 {
			if !peek {
				w.cur = r
			}
			return wrap(step), 0, true, true
		}
		if is, ok := next.(*ast.IfStmt); ok && is.Init == nil && w.pi.nodeText(is.Cond) == e+" == nil" && len(rest) == 1 && is.Else == nil {
			if !peek {
				w.cur = r
			}
			p := wrap(step)
			q, d := w.walk(is.Body.List)
			return append(p, q...), 0, d, true
		}
		w.fail(as, "error of %s is not checked by the next statement", name)
		return wrap(step), 0, false, false
	}
	if !peek {
		w.cur = r
	}
	return wrap(step), 0, false, false
}

// slices: `X[:l]` expressions with l the value just read, in source order.
func (w *rwalk) slices(st ast.Stmt) []rstep {
	var out []rstep
	sawCur := false
	ast.Inspect(st, func(m ast.Node) bool {
		se, ok := m.(*ast.SliceExpr)
		if !ok {
			return true
		}
		hi := ""
		if se.High != nil {
			hi = exprString(rpStripConv(se.High))
		}
		x := exprString(se.X)
		if x == w.cur {
			sawCur = true
		}
		if hi == "" || w.lastVar == "" || hi != w.lastVar {
			if x == w.cur {
				w.fail(st, "reply bytes sliced by %q which is not the value just read", w.pi.nodeText(se))
			}
			return true
		}
		if se.Low != nil || se.Max != nil {
			w.fail(st, "unrecognised slice %q", w.pi.nodeText(se))
			return true
		}
		if x == w.cur {
			out = append(out, rstep{kind: "sliceLen", safe: w.sliceGuard})
			if !w.sliceGuard {
				*w.sites = append(*w.sites, rsite{w.fn, w.pi.pos(se), w.pi.nodeText(se), false})
			}
		} else {
			out = append(out, rstep{kind: "sliceBuf", safe: w.bufGuard})
			if !w.bufGuard {
				*w.sites = append(*w.sites, rsite{w.fn, w.pi.pos(se), w.pi.nodeText(se), false})
			}
		}
		w.emitTop()
		return true
	})
	if !sawCur && w.mentionsCur(st) {
		// e.g. `ch <- result{typ: typ, data: data}` is not a decoding step; an index expression would be
		bad := false
		ast.Inspect(st, func(m ast.Node) bool {
			if ie, ok := m.(*ast.IndexExpr); ok && exprString(ie.X) == w.cur {
				bad = true
			}
			return true
		})
		if bad {
			w.fail(st, "reply bytes indexed directly")
		}
	}
	return out
}

func (w *rwalk) binarySize(c *ast.CallExpr) (int64, bool) {
	// first arg: bytes.NewReader(cur)
	r, ok := c.Args[0].(*ast.CallExpr)
	if !ok || exprString(r.Fun) != "bytes.NewReader" || len(r.Args) != 1 || exprString(r.Args[0]) != w.cur {
		return 0, false
	}
	ue, ok := c.Args[2].(*ast.UnaryExpr)
	if !ok || ue.Op != token.AND {
		return 0, false
	}
	tv, ok := w.pi.info.Types[ue.X]
	if !ok || tv.Type == nil {
		return 0, false
	}
	st, ok := tv.Type.Underlying().(*types.Struct)
	if !ok {
		return 0, false
	}
	var n int64
	for i := 0; i < st.NumFields(); i++ {
		b, ok := st.Field(i).Type().Underlying().(*types.Basic)
		if !ok {
			return 0, false
		}
		switch b.Kind() {
		case types.Uint8, types.Int8:
			n++
		case types.Uint16, types.Int16:
			n += 2
		case types.Uint32, types.Int32:
			n += 4
		case types.Uint64, types.Int64:
			n += 8
		default:
			return 0, false
		}
	}
	return n, true
}

// ---- drivers ----

type replyRow struct {
	fn   string
	typ  int64
	prog []rstep
	pos  string
}

var replyFuncs = []string{
	"Client.ReadDirContext", "Client.opendir", "Client.Lstat", "Client.ReadLink", "Client.Link", "Client.Symlink",
	"Client.fsetstat", "Client.setstat", "Client.open", "Client.close", "Client.stat", "Client.fstat",
	"Client.StatVFS", "Client.removeFile", "Client.RemoveDirectory", "Client.Rename", "Client.PosixRename",
	"Client.RealPath", "Client.Mkdir", "File.readChunkAt", "File.readAt", "File.WriteTo", "File.writeChunkAt",
	"File.writeAtConcurrent", "File.readFromWithConcurrency", "File.Sync",
}

func rpFuncKey(fd *ast.FuncDecl) string {
	if fd.Recv != nil && len(fd.Recv.List) == 1 {
		return recvName(fd.Recv.List[0].Type) + "." + fd.Name.Name
	}
	return fd.Name.Name
}

// replySwitches finds `switch typ {…}` / `switch s.typ {…}` / `switch { case typ == X: … }` in a function.
func replySwitches(pi *pkgInfo, fd *ast.FuncDecl) []*ast.SwitchStmt {
	var out []*ast.SwitchStmt
	ast.Inspect(fd.Body, func(n ast.Node) bool {
		sw, ok := n.(*ast.SwitchStmt)
		if !ok {
			return true
		}
		if sw.Tag != nil {
			if t := exprString(sw.Tag); t == "typ" || t == "s.typ" {
				out = append(out, sw)
			}
			return true
		}
		for _, c := range sw.Body.List {
			for _, e := range c.(*ast.CaseClause).List {
				if be, ok := e.(*ast.BinaryExpr); ok && be.Op == token.EQL && exprString(be.X) == "typ" {
					out = append(out, sw)
					return true
				}
			}
		}
		return true
	})
	return out
}

func extractReplies(x *extractor) {
	u := x.newUnit("ClientReplies")
	pi := x.root
	u.pf("import Sftp.Model.ReplyStep\nnamespace Sftp.G\nopen Sftp.Reply\n\n")
	var sites []rsite

	// 1. the shared decoders of packet.go
	decoders := []string{"unmarshalStatus", "unmarshalAttrs", "unmarshalFileStat", "unmarshalExtensionPair"}
	decProg := map[string][]rstep{}
	for _, name := range decoders {
		fd := pi.funcDecl(name)
		if fd == nil || fd.Body == nil {
			u.fail("%s not found", name)
			continue
		}
		// the []byte parameter
		cur := ""
		for _, f := range fd.Type.Params.List {
			if exprString(f.Type) == "[]byte" && len(f.Names) == 1 {
				cur = f.Names[0].Name
			}
		}
		if cur == "" {
			u.fail("%s: no []byte parameter", name)
			continue
		}
		w := &rwalk{pi: pi, u: u, fn: name, cur: cur, sites: &sites, cntGuard: -1}
		// a uint32 that is handed to unmarshalFileStat as its flags
		ast.Inspect(fd.Body, func(n ast.Node) bool {
			if c, ok := n.(*ast.CallExpr); ok && exprString(c.Fun) == "unmarshalFileStat" && len(c.Args) == 2 {
				w.flagsVar = exprString(c.Args[0])
			}
			return true
		})
		prog, _ := w.walk(fd.Body.List)
		for _, s := range prog {
			if s.kind == "peek" && len(s.body) == 1 && s.body[0].fn == "unmarshalStatus" {
				u.fail("%s calls unmarshalStatus", name)
			}
		}
		decProg[name] = prog
		u.pf("-- source: %s\n", pi.pos(fd))
		u.pf("def %sProg : List RStep := %s\n", name, rpLeanProg(prog))
	}
	var parts []string
	for _, name := range decoders {
		if _, ok := decProg[name]; ok {
			parts = append(parts, fmt.Sprintf("(%s, %sProg)", leanStr(name), name))
		}
	}
	u.pf("def decoderProgs : List (String × List RStep) := [%s]\n\n", strings.Join(parts, ", "))

	// 2. clientConn.recv: every reply reaches its waiter only with the 4 id bytes present
	var recvProg []rstep
	recvLen := int64(0)
	if fd := pi.funcDecl("clientConn.recv"); fd == nil {
		u.fail("clientConn.recv not found")
	} else {
		var loop *ast.ForStmt
		for _, s := range fd.Body.List {
			if f, ok := s.(*ast.ForStmt); ok {
				loop = f
			}
		}
		if loop == nil {
			u.fail("clientConn.recv: loop not found")
		} else {
			w := &rwalk{pi: pi, u: u, fn: "clientConn.recv", cur: "data", sites: &sites, cntGuard: -1}
			var body []ast.Stmt
			sendSeen := false
			for _, s := range loop.Body.List {
				if ss, ok := s.(*ast.SendStmt); ok {
					sendSeen = strings.Contains(pi.nodeText(ss), "data: data")
					break
				}
				body = append(body, s)
			}
			recvProg, _ = w.walk(body)
			if !sendSeen {
				u.fail("clientConn.recv: the result{…data: data} hand-over was not found")
			}
			if len(recvProg) == 1 && recvProg[0].kind == "peek" && len(recvProg[0].body) == 1 && recvProg[0].body[0].kind == "u32" {
				if recvProg[0].body[0].safe {
					recvLen = 4
				}
			} else {
				u.fail("clientConn.recv: expected exactly `sid, _, err := unmarshalUint32Safe(data)` before the hand-over")
			}
			u.pf("-- source: %s\n", pi.pos(fd))
		}
	}
	u.pf("def recvProg : List RStep := %s\n", rpLeanProg(recvProg))
	u.pf("def recvGuaranteedLen : Nat := %d\n\n", recvLen)

	// 3. the reply sites of client.go
	// the helper `statusOrUnexpectedOK(id, data)`: unmarshalStatus on the same bytes, nil turned into an error
	helperOK := false
	var viaHelper []string
	if fd := pi.funcDecl(rpStatusHelper); fd != nil {
		canon := "{ if err := normaliseError(unmarshalStatus(id, data)); err != nil { return err } return errUnexpectedOK }"
		sig := pi.nodeText(fd.Type)
		helperOK = pi.bodyText(fd) == canon && sig == "func(id uint32, data []byte) error"
		if !helperOK {
			u.fail("%s: unexpected signature %q or body %q", rpStatusHelper, sig, pi.bodyText(fd))
		}
	}
	var rows []replyRow
	type dflt struct {
		fn string
		ok bool
	}
	var defaults []dflt
	known := map[string]bool{}
	for _, k := range replyFuncs {
		known[k] = true
	}
	for fi, f := range pi.files {
		if pi.names[fi] != "client.go" {
			continue
		}
		for _, d := range f.Decls {
			fd, ok := d.(*ast.FuncDecl)
			if !ok || fd.Body == nil {
				continue
			}
			key := rpFuncKey(fd)
			sws := replySwitches(pi, fd)
			if known[key] && len(sws) != 1 {
				u.fail("%s: expected exactly one reply switch, found %d", key, len(sws))
			}
			if !known[key] && len(sws) > 0 {
				u.fail("%s: reply switch at %s in a function that is not in the C20 list", key, pi.pos(sws[0]))
			}
			if key == rpStatusHelper && helperOK {
				continue
			}
			if !known[key] && key != "Client.recvVersion" {
				// no other function of client.go may decode server bytes by hand
				for _, c := range rpDecoderCalls(fd.Body) {
					u.fail("%s: decoder call at %s outside a known reply site", key, pi.pos(c))
				}
			}
			if !known[key] {
				continue
			}
			for _, sw := range sws {
				cur := "data"
				if sw.Tag != nil && exprString(sw.Tag) == "s.typ" {
					cur = "s.data"
				}
				hasDefault := false
				for _, c := range sw.Body.List {
					cc := c.(*ast.CaseClause)
					if cc.List == nil {
						txt := pi.nodeText(cc)
						hasDefault = strings.Contains(txt, "unimplementedPacketErr(") || strings.Contains(txt, "unexpectedPacketErr{")
						if len(rpDecoderCalls(cc)) > 0 {
							u.fail("%s: default case decodes reply bytes (%s)", key, pi.pos(cc))
						}
						continue
					}
					var typs []int64
					skip := false
					for _, e := range cc.List {
						if sw.Tag == nil {
							be, ok := e.(*ast.BinaryExpr)
							if ok && be.Op == token.EQL && exprString(be.X) == "typ" {
								e = be.Y
							} else if pi.nodeText(e) == "err != nil" && len(rpDecoderCalls(cc)) == 0 {
								skip = true
								continue
							} else {
								u.fail("%s: unrecognised case %q (%s)", key, pi.nodeText(e), pi.pos(e))
								skip = true
								continue
							}
						}
						if v, ok := pi.exprInt(e); ok {
							typs = append(typs, v)
						} else {
							u.fail("%s: non-constant case (%s)", key, pi.pos(e))
						}
					}
					if skip && len(typs) == 0 {
						continue
					}
					w := &rwalk{pi: pi, u: u, fn: key, cur: cur, sites: &sites, cntGuard: -1}
					prog, _ := w.walk(cc.Body)
					for _, t := range typs {
						rows = append(rows, replyRow{key, t, prog, pi.pos(cc)})
					}
					if w.viaOKHelper {
						viaHelper = append(viaHelper, key)
						if !helperOK {
							u.fail("%s: status decoded through %s whose body is not the expected one (%s)", key, rpStatusHelper, pi.pos(cc))
						}
					}
				}
				defaults = append(defaults, dflt{key, hasDefault})
				if !hasDefault {
					u.fail("%s: the reply switch has no default that returns unimplementedPacketErr/unexpectedPacketErr", key)
				}
			}
		}
	}
	for _, k := range replyFuncs {
		if pi.funcDecl(k) == nil {
			u.fail("%s not found", k)
		}
	}
	u.pf("-- (function, reply type byte, program); source positions in the comments\n")
	parts = nil
	for _, r := range rows {
		parts = append(parts, fmt.Sprintf("  (%s, %d, %s) -- %s", leanStr(r.fn), r.typ, rpLeanProg(r.prog), r.pos))
	}
	u.pf("def clientReplies : List (String × Nat × List RStep) := [\n%s\n]\n\n", rpJoinRows(parts))
	parts = nil
	for _, d := range defaults {
		parts = append(parts, fmt.Sprintf("(%s, %s)", leanStr(d.fn), leanBool(d.ok)))
	}
	u.pf("def replyDefaultIsError : List (String × Bool) := [%s]\n\n", strings.Join(parts, ", "))

	// 4. recvVersion (reads the connection directly: no recv guarantee)
	var hs []replyRow
	if fd := pi.funcDecl("Client.recvVersion"); fd == nil {
		u.fail("Client.recvVersion not found")
	} else {
		typ := int64(-1)
		at := -1
		for i, s := range fd.Body.List {
			if is, ok := s.(*ast.IfStmt); ok && is.Init == nil {
				if be, ok := is.Cond.(*ast.BinaryExpr); ok && be.Op == token.NEQ && exprString(be.X) == "typ" && rpTerminates(is.Body) {
					if v, ok := pi.exprInt(be.Y); ok {
						typ, at = v, i
					}
				}
			}
		}
		if at < 0 {
			u.fail("Client.recvVersion: `if typ != sshFxpVersion { return … }` not found")
		} else {
			for _, s := range fd.Body.List[:at] {
				if len(rpDecoderCalls(s)) > 0 {
					u.fail("Client.recvVersion: decoding before the type check (%s)", pi.pos(s))
				}
			}
			w := &rwalk{pi: pi, u: u, fn: "Client.recvVersion", cur: "data", sites: &sites, cntGuard: -1}
			prog, _ := w.walk(fd.Body.List[at+1:])
			hs = append(hs, replyRow{"Client.recvVersion", typ, prog, pi.pos(fd)})
		}
	}
	parts = nil
	for _, r := range hs {
		parts = append(parts, fmt.Sprintf("  (%s, %d, %s) -- %s", leanStr(r.fn), r.typ, rpLeanProg(r.prog), r.pos))
	}
	u.pf("def handshakeReplies : List (String × Nat × List RStep) := [\n%s\n]\n\n", rpJoinRows(parts))

	// 4b. the functions whose successful reply carries data must not take an OK status for success
	wantHelper := []string{"Client.opendir", "Client.Lstat", "Client.ReadLink", "Client.open", "Client.stat", "Client.fstat", "Client.StatVFS", "Client.RealPath"}
	sortedEq := func(a, b []string) bool {
		a, b = append([]string(nil), a...), append([]string(nil), b...)
		sort.Strings(a)
		sort.Strings(b)
		return strings.Join(a, ",") == strings.Join(b, ",")
	}
	u.pf("-- the functions that decode their STATUS case through %s (an OK status is an error for them)\n", rpStatusHelper)
	u.pf("def statusViaOKHelper : List String := %s\n", leanStrList(viaHelper))
	u.pf("def dataRepliesRejectOKStatus : Bool := %s\n\n", leanBool(helperOK && sortedEq(viaHelper, wantHelper)))

	// 5. id checks
	statusChecks := false
	for _, s := range decProg["unmarshalStatus"] {
		if s.kind == "checkId" {
			statusChecks = true
		}
	}
	parts = nil
	for _, r := range rows {
		checked, fromLast := false, false
		for _, s := range r.prog {
			switch {
			case s.kind == "checkId":
				checked = true
			case s.kind == "idFromLast":
				fromLast = true
			case s.kind == "peek" && len(s.body) == 1 && s.body[0].fn == "unmarshalStatus":
				checked = checked || (statusChecks && !fromLast)
			}
		}
		parts = append(parts, fmt.Sprintf("(%s, %d, %s)", leanStr(r.fn), r.typ, leanBool(checked)))
	}
	u.pf("-- whether the reply's id is compared with the request's id (`sid != id` ⇒ error)\n")
	u.pf("def idChecked : List (String × Nat × Bool) := [%s]\n\n", strings.Join(parts, ", "))

	// 6. the unchecked operations (function, position, operation, covered by recv's 4-byte guarantee)
	parts = nil
	for _, s := range sites {
		head := s.head && recvLen >= 4 && s.fn != "Client.recvVersion" && s.fn != "clientConn.recv" &&
			s.fn != "unmarshalAttrs" && s.fn != "unmarshalFileStat" && s.fn != "unmarshalExtensionPair"
		parts = append(parts, fmt.Sprintf("  (%s, %s, %s, %s)", leanStr(s.fn), leanStr(s.pos), leanStr(s.op), leanBool(head)))
	}
	u.pf("def uncheckedSites : List (String × String × String × Bool) := [\n%s\n]\n", strings.Join(parts, ",\n"))
	u.pf("\nend Sftp.G\n")
}

// rpJoinRows joins "row -- comment" lines with commas placed before the comment.
func rpJoinRows(rows []string) string {
	var out []string
	for i, r := range rows {
		j := strings.LastIndex(r, " -- ")
		body, cmt := r, ""
		if j >= 0 {
			body, cmt = r[:j], r[j:]
		}
		if i < len(rows)-1 {
			body += ","
		}
		out = append(out, body+cmt)
	}
	return strings.Join(out, "\n")
}
