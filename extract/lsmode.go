package main

import (
	"fmt"
	"go/ast"
	"go/token"
	"strings"
)

func init() { extractors = append(extractors, extractLsMode) }

// extractLsMode (units LsMode and LsOwner, property C17): the long name of listings.
//
//  1. The statement shapes of sshfx.FileMode.String (internal/encoding/ssh/filexfer/permissions.go), in source
//     order, as a table of buffer-writing statements:
//     `var buf [N]byte`
//     `switch m.Type() { case C…: buf[K] = CH … default: buf[K] = CH }`          -> .typeSwitch K MASK cases dflt
//     `for i, c := range CONSTSTRING { if m&E(i) != 0 { buf[I(i)] = byte(c) } else { buf[I(i)] = CH } }`
//     expanded per character                                                    -> .bitChar idx mask then else
//     `if m&FLAG != 0 { if COND { buf[K] = A } else { buf[K] = B } }`              -> .special FLAG K cond A B
//     with COND `buf[J] == CH` (.bufEq J CH) or `m&MASK != 0` (.bitSet MASK)
//     `return string(buf[:])`
//  2. Where the owner of an entry comes from: the ordered owner-writing steps of fileStatFromInfo (attrs.go,
//     with fileStatFromInfoOs of the unix build inlined; a later step overrides an earlier one) and the priority
//     order of runLs's uid/gid lookup (ls_formatting.go with lsLinksUIDGID of ls_unix.go inlined; first match wins).
//     runLs shapes recognised: `if v, ok := dirent.(I); ok { uid…; gid… } else { switch sys := dirent.Sys().(type) {…} }`
//     (interface first; current tree) and the bare Sys() type switch whose default clause holds
//     `if v, ok := dirent.(I); ok { uid…; gid…; break }` (interface after the typed clauses; the shape before fix
//     286d03f, kept so that a return to it flips the table instead of merely failing).  The default clause of a type
//     switch is ordered after all its typed clauses wherever it is written.
func extractLsMode(x *extractor) {
	u := x.newUnit("LsMode")
	u.pf("import Sftp.Model.LsMode\nnamespace Sftp.G\nopen Sftp\n\n")
	lsModeTable(x, u)
	u.pf("end Sftp.G\n")
	// a unit of its own: the 2^16-case proofs depend on the mode table only
	o := x.newUnit("LsOwner")
	o.pf("import Sftp.Model.LsMode\nnamespace Sftp.G\nopen Sftp\n\n")
	lsOwnerTables(x, o)
	o.pf("end Sftp.G\n")
}

// ---------- FileMode.String ----------

func lsModeTable(x *extractor, u *unit) {
	pi := x.fx
	const name = "FileMode.String"
	var stmts []string
	bufLen := int64(0)
	ok := false
	defer func() {
		if !ok { // keep the generated file well-typed; the failure is in extract_errors.json
			u.pf("def lsMode : LsTable := { len := 0, stmts := [] } -- EXTRACTION FAILED\n\n")
			return
		}
		u.pf("def lsMode : LsTable := { len := %d, stmts := [\n  %s] }\n\n", bufLen, strings.Join(stmts, ",\n  "))
	}()
	fd := pi.funcDecl(name)
	if fd == nil || fd.Body == nil || fd.Recv == nil || len(fd.Recv.List) != 1 || len(fd.Recv.List[0].Names) != 1 {
		u.fail("%s not found (or receiver unnamed)", name)
		return
	}
	u.pf("-- source: %s\n", pi.pos(fd))
	recv := fd.Recv.List[0].Names[0].Name
	buf := ""

	isRecv := func(e ast.Expr) bool {
		for {
			p, isP := e.(*ast.ParenExpr)
			if !isP {
				break
			}
			e = p.X
		}
		id, isId := e.(*ast.Ident)
		return isId && id.Name == recv
	}
	unparen := func(e ast.Expr) ast.Expr {
		for {
			p, isP := e.(*ast.ParenExpr)
			if !isP {
				return e
			}
			e = p.X
		}
	}
	// `m & E` (either order): returns E
	recvAnd := func(e ast.Expr) (ast.Expr, bool) {
		be, isB := unparen(e).(*ast.BinaryExpr)
		if !isB || be.Op != token.AND {
			return nil, false
		}
		if isRecv(be.X) {
			return be.Y, true
		}
		if isRecv(be.Y) {
			return be.X, true
		}
		return nil, false
	}
	// `m & E != 0`: returns E
	bitTest := func(e ast.Expr) (ast.Expr, bool) {
		be, isB := unparen(e).(*ast.BinaryExpr)
		if !isB || be.Op != token.NEQ {
			return nil, false
		}
		if z, isC := pi.exprInt(be.Y); !isC || z != 0 {
			return nil, false
		}
		return recvAnd(be.X)
	}
	// `buf[IDX]` : returns IDX
	bufIndex := func(e ast.Expr) (ast.Expr, bool) {
		ie, isI := unparen(e).(*ast.IndexExpr)
		if !isI {
			return nil, false
		}
		id, isId := ie.X.(*ast.Ident)
		if !isId || id.Name != buf || buf == "" {
			return nil, false
		}
		return ie.Index, true
	}
	// a block that is exactly `buf[IDX] = V`: returns IDX, V
	oneAssign := func(b *ast.BlockStmt) (ast.Expr, ast.Expr, bool) {
		if b == nil || len(b.List) != 1 {
			return nil, nil, false
		}
		as, isA := b.List[0].(*ast.AssignStmt)
		if !isA || as.Tok != token.ASSIGN || len(as.Lhs) != 1 || len(as.Rhs) != 1 {
			return nil, nil, false
		}
		idx, isB := bufIndex(as.Lhs[0])
		if !isB {
			return nil, nil, false
		}
		return idx, as.Rhs[0], true
	}
	// the mask of the receiver type's Type method: `return (m & CONST)`
	typeMask := func() (int64, bool) {
		td := pi.funcDecl("FileMode.Type")
		if td == nil || td.Recv == nil || len(td.Recv.List) != 1 || len(td.Recv.List[0].Names) != 1 {
			return 0, false
		}
		r, isS := singleReturn(td)
		if !isS {
			return 0, false
		}
		be, isB := unparen(r).(*ast.BinaryExpr)
		if !isB || be.Op != token.AND {
			return 0, false
		}
		rn := td.Recv.List[0].Names[0].Name
		if id, isId := unparen(be.X).(*ast.Ident); isId && id.Name == rn {
			return pi.exprInt(be.Y)
		}
		if id, isId := unparen(be.Y).(*ast.Ident); isId && id.Name == rn {
			return pi.exprInt(be.X)
		}
		return 0, false
	}

	sawReturn := false
	for _, st := range fd.Body.List {
		if sawReturn {
			u.fail("%s: statement after return at %s", name, pi.pos(st))
			return
		}
		switch s := st.(type) {
		case *ast.DeclStmt:
			gd := s.Decl.(*ast.GenDecl)
			if gd.Tok == token.CONST {
				continue // local constant, evaluated by the type checker where used
			}
			if gd.Tok != token.VAR || len(gd.Specs) != 1 || buf != "" {
				u.fail("%s: unrecognised declaration at %s", name, pi.pos(st))
				return
			}
			vs := gd.Specs[0].(*ast.ValueSpec)
			at, isArr := vs.Type.(*ast.ArrayType)
			if len(vs.Names) != 1 || len(vs.Values) != 0 || !isArr || at.Len == nil || exprString(at.Elt) != "byte" {
				u.fail("%s: declaration is not `var buf [N]byte` at %s", name, pi.pos(st))
				return
			}
			n, isC := pi.exprInt(at.Len)
			if !isC || n <= 0 || n > 64 {
				u.fail("%s: buffer length is not a small constant at %s", name, pi.pos(st))
				return
			}
			buf, bufLen = vs.Names[0].Name, n
		case *ast.SwitchStmt:
			call, isCall := s.Tag.(*ast.CallExpr)
			if s.Init != nil || !isCall || len(call.Args) != 0 {
				u.fail("%s: switch tag is not `m.Type()` at %s", name, pi.pos(st))
				return
			}
			sel, isSel := call.Fun.(*ast.SelectorExpr)
			if !isSel || !isRecv(sel.X) || sel.Sel.Name != "Type" {
				u.fail("%s: switch tag is not `m.Type()` at %s", name, pi.pos(st))
				return
			}
			mask, isM := typeMask()
			if !isM {
				u.fail("FileMode.Type is not `return m & CONST`")
				return
			}
			var cases []string
			var idx, dflt int64 = -1, 0
			for _, c := range s.Body.List {
				cc := c.(*ast.CaseClause)
				ie, ve, isA := oneAssign(&ast.BlockStmt{List: cc.Body})
				if !isA {
					u.fail("%s: case body is not `buf[K] = CH` at %s", name, pi.pos(cc))
					return
				}
				k, ok1 := pi.exprInt(ie)
				ch, ok2 := pi.exprInt(ve)
				if !ok1 || !ok2 || (idx >= 0 && k != idx) {
					u.fail("%s: case body does not assign a constant to one fixed position at %s", name, pi.pos(cc))
					return
				}
				idx = k
				if cc.List == nil {
					dflt = ch
					continue
				}
				for _, e := range cc.List {
					cv, isC := pi.exprInt(e)
					if !isC {
						u.fail("%s: non-constant case at %s", name, pi.pos(e))
						return
					}
					cases = append(cases, fmt.Sprintf("(%d, %d)", cv, ch))
				}
			}
			if idx < 0 {
				u.fail("%s: empty switch at %s", name, pi.pos(st))
				return
			}
			stmts = append(stmts, fmt.Sprintf(".typeSwitch %d %d [%s] %d", idx, mask, strings.Join(cases, ", "), dflt))
		case *ast.RangeStmt:
			ki, isK := s.Key.(*ast.Ident)
			vi, isV := s.Value.(*ast.Ident)
			str, isS := pi.exprStr(s.X)
			if !isK || !isV || !isS || s.Tok != token.DEFINE || len(s.Body.List) != 1 {
				u.fail("%s: loop is not `for i, c := range CONSTSTRING { if … }` at %s", name, pi.pos(st))
				return
			}
			is, isIf := s.Body.List[0].(*ast.IfStmt)
			if !isIf || is.Init != nil {
				u.fail("%s: loop body is not one if/else at %s", name, pi.pos(st))
				return
			}
			maskE, isT := bitTest(is.Cond)
			els, isBlk := is.Else.(*ast.BlockStmt)
			if !isT || !isBlk {
				u.fail("%s: loop body is not `if m&E != 0 {…} else {…}` at %s", name, pi.pos(is))
				return
			}
			ti, tv, ok1 := oneAssign(is.Body)
			ei, ev, ok2 := oneAssign(els)
			if !ok1 || !ok2 {
				u.fail("%s: loop branches are not single `buf[I] = V` assignments at %s", name, pi.pos(is))
				return
			}
			for i := 0; i < len(str); i++ {
				if str[i] >= 0x80 {
					u.fail("%s: non-ASCII loop string at %s", name, pi.pos(s.X))
					return
				}
				ec := &evalCtx{pi: pi, env: map[string]int64{ki.Name: int64(i), vi.Name: int64(str[i])}}
				ec.calls = map[string]func(args []int64) (val, error){
					"byte": func(a []int64) (val, error) {
						if len(a) != 1 {
							return val{}, fmt.Errorf("byte/%d", len(a))
						}
						return val{i: a[0] & 0xff}, nil
					},
				}
				vals := make([]int64, 5)
				for j, e := range []ast.Expr{maskE, ti, tv, ei, ev} {
					v, err := ec.eval(e)
					if err != nil || v.isBool {
						u.fail("%s: cannot evaluate loop expression %s for i=%d at %s", name, exprString(e), i, pi.pos(e))
						return
					}
					vals[j] = v.i
				}
				if vals[1] != vals[3] {
					u.fail("%s: loop branches write different positions at %s", name, pi.pos(is))
					return
				}
				stmts = append(stmts, fmt.Sprintf(".bitChar %d %d %d %d", vals[1], vals[0]&0xFFFFFFFF, vals[2], vals[4]))
			}
		case *ast.IfStmt:
			flagE, isT := bitTest(s.Cond)
			if !isT || s.Init != nil || s.Else != nil || len(s.Body.List) != 1 {
				u.fail("%s: unrecognised if at %s", name, pi.pos(st))
				return
			}
			flag, isC := pi.exprInt(flagE)
			inner, isIf := s.Body.List[0].(*ast.IfStmt)
			if !isC || !isIf || inner.Init != nil {
				u.fail("%s: special-bit block is not `if m&FLAG != 0 { if COND {…} else {…} }` at %s", name, pi.pos(st))
				return
			}
			els, isBlk := inner.Else.(*ast.BlockStmt)
			if !isBlk {
				u.fail("%s: special-bit block has no else branch at %s", name, pi.pos(inner))
				return
			}
			cond := ""
			if me, isBit := bitTest(inner.Cond); isBit {
				mv, isC := pi.exprInt(me)
				if !isC {
					u.fail("%s: non-constant mask in %s at %s", name, exprString(inner.Cond), pi.pos(inner))
					return
				}
				cond = fmt.Sprintf("(.bitSet %d)", mv)
			} else if be, isB := unparen(inner.Cond).(*ast.BinaryExpr); isB && be.Op == token.EQL {
				je, isBuf := bufIndex(be.X)
				var j, ch int64
				ok1, ok2 := false, false
				if isBuf {
					j, ok1 = pi.exprInt(je)
					ch, ok2 = pi.exprInt(be.Y)
				}
				if !ok1 || !ok2 {
					u.fail("%s: condition %s is neither `buf[J] == CH` nor `m&MASK != 0` at %s", name, exprString(inner.Cond), pi.pos(inner))
					return
				}
				cond = fmt.Sprintf("(.bufEq %d %d)", j, ch)
			} else {
				u.fail("%s: condition %s is neither `buf[J] == CH` nor `m&MASK != 0` at %s", name, exprString(inner.Cond), pi.pos(inner))
				return
			}
			ti, tv, ok1 := oneAssign(inner.Body)
			ei, ev, ok2 := oneAssign(els)
			if !ok1 || !ok2 {
				u.fail("%s: special-bit branches are not single `buf[K] = CH` assignments at %s", name, pi.pos(inner))
				return
			}
			tk, c1 := pi.exprInt(ti)
			ek, c2 := pi.exprInt(ei)
			tc, c3 := pi.exprInt(tv)
			ecv, c4 := pi.exprInt(ev)
			if !c1 || !c2 || !c3 || !c4 || tk != ek {
				u.fail("%s: special-bit branches do not assign constants to one position at %s", name, pi.pos(inner))
				return
			}
			stmts = append(stmts, fmt.Sprintf(".special %d %d %s %d %d", flag, tk, cond, tc, ecv))
		case *ast.ReturnStmt:
			if buf == "" || len(s.Results) != 1 || pi.nodeText(s.Results[0]) != "string("+buf+"[:])" {
				u.fail("%s: return is not `string(buf[:])` at %s", name, pi.pos(st))
				return
			}
			sawReturn = true
		default:
			u.fail("%s: unrecognised statement at %s", name, pi.pos(st))
			return
		}
	}
	if !sawReturn || buf == "" {
		u.fail("%s: no buffer declaration or no return", name)
		return
	}
	ok = true
}

// ---------- owner sources ----------

type ownerSrc struct {
	kind string // "sysType" | "iface"
	name string
	unc  bool
	note string
}

func (o ownerSrc) lean() string {
	if o.kind == "sysType" {
		return fmt.Sprintf(".sysType %s %s", leanStr(o.name), leanBool(o.unc))
	}
	return fmt.Sprintf(".iface %s %s", leanStr(o.name), leanBool(o.unc))
}

func leanOwnerList(l []ownerSrc) string {
	var parts []string
	for _, o := range l {
		parts = append(parts, o.lean())
	}
	return "[" + strings.Join(parts, ", ") + "]"
}

// typeTest recognises `v, ok := X.(T)` / `v, ok := X.Sys().(T)` as the Init of an if statement.
// subject is the identifier the owner is read from afterwards (v).
func typeTest(pi *pkgInfo, s ast.Stmt, fiName string) (src ownerSrc, subject, okName string, ok bool) {
	as, isA := s.(*ast.AssignStmt)
	if !isA || as.Tok != token.DEFINE || len(as.Lhs) != 2 || len(as.Rhs) != 1 {
		return
	}
	ta, isT := as.Rhs[0].(*ast.TypeAssertExpr)
	if !isT || ta.Type == nil {
		return
	}
	v, isV := as.Lhs[0].(*ast.Ident)
	o, isO := as.Lhs[1].(*ast.Ident)
	if !isV || !isO {
		return
	}
	switch pi.nodeText(ta.X) {
	case fiName:
		return ownerSrc{kind: "iface", name: exprString(ta.Type)}, v.Name, o.Name, true
	case fiName + ".Sys()":
		return ownerSrc{kind: "sysType", name: exprString(ta.Type)}, v.Name, o.Name, true
	}
	return
}

// guardOf splits an if condition `ok` / `ok && REST`: unconditional iff it is exactly `ok`.
func guardOf(pi *pkgInfo, cond ast.Expr, okName string) (unconditional bool, rest string, ok bool) {
	txt := pi.nodeText(cond)
	if txt == okName {
		return true, "", true
	}
	if strings.HasPrefix(txt, okName+" && ") {
		return false, strings.TrimPrefix(txt, okName+" && "), true
	}
	return false, "", false
}

var ownerGetters = map[string]string{"UID": "u", "Uid": "u", "Uid()": "u", "GID": "g", "Gid": "g", "Gid()": "g"}

// ownerField classifies `subject.UID`, `subject.Uid()` … : "u", "g" or "".
func ownerField(pi *pkgInfo, e ast.Expr, subject string) string {
	txt := pi.nodeText(e)
	if !strings.HasPrefix(txt, subject+".") {
		return ""
	}
	return ownerGetters[strings.TrimPrefix(txt, subject+".")]
}

func mentionsOwner(pi *pkgInfo, n ast.Node) bool {
	found := false
	ast.Inspect(n, func(n ast.Node) bool {
		switch t := n.(type) {
		case *ast.SelectorExpr:
			switch t.Sel.Name {
			case "UID", "GID", "Uid", "Gid":
				found = true
			}
		case *ast.Ident:
			switch t.Name {
			case "UID", "GID", "sshFileXferAttrUIDGID", "uid", "gid":
				found = true
			}
		}
		return !found
	})
	return found
}

func lsOwnerTables(x *extractor, u *unit) {
	pi := x.root
	var attrsSteps, lsOrder []ownerSrc
	okA, okL := false, false
	srcA, srcL := "?", "?"
	defer func() {
		if !okA {
			attrsSteps = nil
		}
		if !okL {
			lsOrder = nil
		}
		for _, o := range attrsSteps {
			if o.note != "" {
				u.pf("-- %s\n", o.note)
			}
		}
		u.pf("-- source: %s (a later step overrides an earlier one)\n", srcA)
		u.pf("def attrsOwnerSteps : List OwnerSrc := %s\n\n", leanOwnerList(attrsSteps))
		for _, o := range lsOrder {
			if o.note != "" {
				u.pf("-- %s\n", o.note)
			}
		}
		u.pf("-- source: %s (first match wins)\n", srcL)
		u.pf("def lsOwnerOrder : List OwnerSrc := %s\n\n", leanOwnerList(lsOrder))
	}()

	// ---- fileStatFromInfo: ordered owner-writing steps (a later step overrides an earlier one)
	// a body writing the owner of `target` from `subject`: flags |= UIDGID; target.UID = subject.Uid…; target.GID = subject.Gid…
	ownerBody := func(fn string, b *ast.BlockStmt, flagsText, target, subject string) bool {
		sawF, sawU, sawG := false, false, false
		for _, st := range b.List {
			as, isA := st.(*ast.AssignStmt)
			if !isA || len(as.Lhs) != 1 || len(as.Rhs) != 1 {
				u.fail("%s: unrecognised statement in an owner block at %s", fn, pi.pos(st))
				return false
			}
			l := pi.nodeText(as.Lhs[0])
			switch {
			case as.Tok == token.OR_ASSIGN && l == flagsText && pi.nodeText(as.Rhs[0]) == "sshFileXferAttrUIDGID":
				sawF = true
			case as.Tok == token.ASSIGN && l == target+".UID" && ownerField(pi, as.Rhs[0], subject) == "u":
				sawU = true
			case as.Tok == token.ASSIGN && l == target+".GID" && ownerField(pi, as.Rhs[0], subject) == "g":
				sawG = true
			default:
				u.fail("%s: owner block statement %q is not flags |= UIDGID / UID = x.Uid / GID = x.Gid at %s", fn, pi.nodeText(st), pi.pos(st))
				return false
			}
		}
		if !sawF || !sawU || !sawG {
			u.fail("%s: owner block at %s does not set the flag, UID and GID", fn, pi.pos(b))
			return false
		}
		return true
	}
	func() {
		const fn = "fileStatFromInfo"
		fd := pi.funcDecl(fn)
		if fd == nil || fd.Body == nil || len(fd.Type.Params.List) != 1 || len(fd.Type.Params.List[0].Names) != 1 {
			u.fail("%s not found", fn)
			return
		}
		srcA = pi.pos(fd)
		fi := fd.Type.Params.List[0].Names[0].Name
		for _, st := range fd.Body.List {
			if !mentionsOwner(pi, st) {
				// the call of the os specific decoder mentions no owner itself
				es, isE := st.(*ast.ExprStmt)
				if !isE {
					continue
				}
				call, isC := es.X.(*ast.CallExpr)
				if !isC {
					continue
				}
				id, isId := call.Fun.(*ast.Ident)
				if !isId || id.Name != "fileStatFromInfoOs" {
					u.fail("%s: unrecognised call statement at %s", fn, pi.pos(st))
					return
				}
				if len(call.Args) != 3 || pi.nodeText(call.Args[0]) != fi || pi.nodeText(call.Args[1]) != "&flags" || pi.nodeText(call.Args[2]) != "fileStat" {
					u.fail("%s: unexpected arguments of fileStatFromInfoOs at %s", fn, pi.pos(st))
					return
				}
				od := pi.funcDecl("fileStatFromInfoOs")
				if od == nil || od.Body == nil || len(od.Type.Params.List) != 3 {
					u.fail("fileStatFromInfoOs not found")
					return
				}
				var pn []string
				for _, p := range od.Type.Params.List {
					if len(p.Names) != 1 {
						u.fail("fileStatFromInfoOs: unexpected parameter list")
						return
					}
					pn = append(pn, p.Names[0].Name)
				}
				for _, ost := range od.Body.List {
					is, isIf := ost.(*ast.IfStmt)
					if !isIf || is.Init == nil || is.Else != nil {
						u.fail("fileStatFromInfoOs: unrecognised statement at %s", pi.pos(ost))
						return
					}
					src, subject, okName, isT := typeTest(pi, is.Init, pn[0])
					if !isT {
						u.fail("fileStatFromInfoOs: if is not `v, ok := fi.Sys().(T); ok` at %s", pi.pos(ost))
						return
					}
					unc, rest, isG := guardOf(pi, is.Cond, okName)
					if !isG {
						u.fail("fileStatFromInfoOs: unrecognised condition at %s", pi.pos(is.Cond))
						return
					}
					if !ownerBody("fileStatFromInfoOs", is.Body, "*"+pn[1], pn[2], subject) {
						return
					}
					src.unc = unc
					if !unc {
						src.note = fmt.Sprintf("%s: additional guard `%s` at %s", src.name, rest, pi.pos(is.Cond))
					}
					attrsSteps = append(attrsSteps, src)
				}
				continue
			}
			is, isIf := st.(*ast.IfStmt)
			if !isIf || is.Init == nil || is.Else != nil {
				u.fail("%s: unrecognised statement touching the owner at %s", fn, pi.pos(st))
				return
			}
			src, subject, okName, isT := typeTest(pi, is.Init, fi)
			if !isT {
				u.fail("%s: if is not `v, ok := fi.(T); ok` at %s", fn, pi.pos(st))
				return
			}
			unc, rest, isG := guardOf(pi, is.Cond, okName)
			if !isG {
				u.fail("%s: unrecognised condition at %s", fn, pi.pos(is.Cond))
				return
			}
			if !ownerBody(fn, is.Body, "flags", "fileStat", subject) {
				return
			}
			src.unc = unc
			if !unc {
				src.note = fmt.Sprintf("%s: additional guard `%s` at %s", src.name, rest, pi.pos(is.Cond))
			}
			attrsSteps = append(attrsSteps, src)
		}
		okA = true
	}()

	// ---- runLs: priority order of the uid/gid lookup (first match wins)
	// a clause body that is exactly uid = lsFormatID(subject.<uid>); gid = lsFormatID(subject.<gid>) [+ allowed extra]
	lsBody := func(fn string, list []ast.Stmt, subject string, numLinks bool) bool {
		sawU, sawG := false, false
		for _, st := range list {
			as, isA := st.(*ast.AssignStmt)
			if !isA || as.Tok != token.ASSIGN || len(as.Lhs) != 1 || len(as.Rhs) != 1 {
				u.fail("%s: unrecognised statement in an owner clause at %s", fn, pi.pos(st))
				return false
			}
			l := pi.nodeText(as.Lhs[0])
			if numLinks && l == "numLinks" {
				continue
			}
			call, isC := as.Rhs[0].(*ast.CallExpr)
			if !isC || pi.nodeText(call.Fun) != "lsFormatID" || len(call.Args) != 1 {
				u.fail("%s: owner clause statement %q is not uid/gid = lsFormatID(x.…) at %s", fn, pi.nodeText(st), pi.pos(st))
				return false
			}
			f := ownerField(pi, call.Args[0], subject)
			switch {
			case l == "uid" && f == "u":
				sawU = true
			case l == "gid" && f == "g":
				sawG = true
			default:
				u.fail("%s: owner clause statement %q crosses or misses the owner fields at %s", fn, pi.nodeText(st), pi.pos(st))
				return false
			}
		}
		if !sawU || !sawG {
			u.fail("%s: owner clause does not set both uid and gid", fn)
			return false
		}
		return true
	}
	// type switch `switch sys := X.Sys().(type)`: returns clauses
	sysSwitch := func(st ast.Stmt, fi string) (*ast.TypeSwitchStmt, string, bool) {
		ts, isTS := st.(*ast.TypeSwitchStmt)
		if !isTS || ts.Init != nil {
			return nil, "", false
		}
		as, isA := ts.Assign.(*ast.AssignStmt)
		if !isA || len(as.Lhs) != 1 || len(as.Rhs) != 1 || pi.nodeText(as.Rhs[0]) != fi+".Sys().(type)" {
			return nil, "", false
		}
		return ts, pi.nodeText(as.Lhs[0]), true
	}
	func() {
		const fn = "runLs"
		fd := pi.funcDecl(fn)
		if fd == nil || fd.Body == nil || len(fd.Type.Params.List) != 2 || len(fd.Type.Params.List[1].Names) != 1 {
			u.fail("%s not found", fn)
			return
		}
		srcL = pi.pos(fd)
		fi := fd.Type.Params.List[1].Names[0].Name
		sawInit, sawSwitch := false, false
		// procSwitch appends the sources of `switch sys := dirent.Sys().(type) {…}`: the typed clauses in source
		// order, then what the default clause does (it only runs when no typed clause matches)
		procSwitch := func(ts *ast.TypeSwitchStmt, sys string) bool {
			var clauses []*ast.CaseClause
			var dflt *ast.CaseClause
			for _, c := range ts.Body.List {
				cc := c.(*ast.CaseClause)
				if cc.List == nil {
					dflt = cc
				} else {
					clauses = append(clauses, cc)
				}
			}
			if dflt != nil {
				clauses = append(clauses, dflt)
			}
			for _, c := range clauses {
				cc := c
				if cc.List != nil {
					if !lsBody(fn, cc.Body, sys, false) {
						return false
					}
					for _, t := range cc.List {
						lsOrder = append(lsOrder, ownerSrc{kind: "sysType", name: exprString(t), unc: true})
					}
					continue
				}
				// default: `if v, ok := dirent.(I); ok { uid…; gid…; break }` then `numLinks, uid, gid = lsLinksUIDGID(dirent)`
				for _, ds := range cc.Body {
					if is, isIf := ds.(*ast.IfStmt); isIf {
						if is.Init == nil || is.Else != nil {
							u.fail("%s: unrecognised if in the default clause at %s", fn, pi.pos(ds))
							return false
						}
						src, subject, okName, isT := typeTest(pi, is.Init, fi)
						if !isT {
							u.fail("%s: if in the default clause is not `v, ok := dirent.(T); ok` at %s", fn, pi.pos(ds))
							return false
						}
						unc, rest, isG := guardOf(pi, is.Cond, okName)
						if !isG {
							u.fail("%s: unrecognised condition at %s", fn, pi.pos(is.Cond))
							return false
						}
						n := len(is.Body.List)
						br, isBr := ast.Stmt(nil), false
						if n > 0 {
							br = is.Body.List[n-1]
							b, isB := br.(*ast.BranchStmt)
							isBr = isB && b.Tok == token.BREAK && b.Label == nil
						}
						if !isBr {
							u.fail("%s: the interface clause does not end in break (a later source would override it) at %s", fn, pi.pos(ds))
							return false
						}
						if !lsBody(fn, is.Body.List[:n-1], subject, false) {
							return false
						}
						src.unc = unc
						if !unc {
							src.note = fmt.Sprintf("runLs %s: additional guard `%s` at %s", src.name, rest, pi.pos(is.Cond))
						}
						lsOrder = append(lsOrder, src)
						continue
					}
					if pi.nodeText(ds) != "numLinks, uid, gid = lsLinksUIDGID("+fi+")" {
						u.fail("%s: unrecognised statement in the default clause at %s", fn, pi.pos(ds))
						return false
					}
					ld := pi.funcDecl("lsLinksUIDGID")
					if ld == nil || ld.Body == nil || len(ld.Type.Params.List) != 1 || len(ld.Type.Params.List[0].Names) != 1 {
						u.fail("lsLinksUIDGID not found")
						return false
					}
					lfi := ld.Type.Params.List[0].Names[0].Name
					sawLInit, sawLSwitch := false, false
					for _, lst := range ld.Body.List {
						lt := pi.nodeText(lst)
						switch {
						case lt == "numLinks = 1", lt == "return numLinks, uid, gid":
						case lt == `uid, gid = "0", "0"`:
							sawLInit = true
						default:
							lts, lsys, isLTS := sysSwitch(lst, lfi)
							if !isLTS || sawLSwitch {
								u.fail("lsLinksUIDGID: unrecognised statement at %s", pi.pos(lst))
								return false
							}
							sawLSwitch = true
							for _, lc := range lts.Body.List {
								lcc := lc.(*ast.CaseClause)
								if lcc.List == nil {
									if len(lcc.Body) != 0 {
										u.fail("lsLinksUIDGID: non-empty default clause at %s", pi.pos(lcc))
										return false
									}
									continue
								}
								if !lsBody("lsLinksUIDGID", lcc.Body, lsys, true) {
									return false
								}
								for _, t := range lcc.List {
									lsOrder = append(lsOrder, ownerSrc{kind: "sysType", name: exprString(t), unc: true})
								}
							}
						}
					}
					if !sawLInit || !sawLSwitch {
						u.fail("lsLinksUIDGID: defaults or Sys() type switch missing")
						return false
					}
				}
			}
			return true
		}
		for _, st := range fd.Body.List {
			txt := pi.nodeText(st)
			if txt == `uid, gid := "0", "0"` {
				sawInit = true
				continue
			}
			// `if v, ok := dirent.(I); ok { uid…; gid… } else { switch sys := dirent.Sys().(type) {…} }`: interface first
			if is, isIf := st.(*ast.IfStmt); isIf && is.Init != nil {
				src, subject, okName, isT := typeTest(pi, is.Init, fi)
				if !isT {
					if mentionsOwner(pi, st) {
						u.fail("%s: uid/gid written outside the recognised shapes at %s", fn, pi.pos(st))
						return
					}
					continue
				}
				els, isBlk := is.Else.(*ast.BlockStmt)
				if sawSwitch || !sawInit || !isBlk || len(els.List) != 1 {
					u.fail("%s: type test at %s is not `if v, ok := dirent.(T); ok {…} else { switch sys := dirent.Sys().(type) {…} }` after the defaults", fn, pi.pos(st))
					return
				}
				unc, rest, isG := guardOf(pi, is.Cond, okName)
				if !isG {
					u.fail("%s: unrecognised condition at %s", fn, pi.pos(is.Cond))
					return
				}
				if !lsBody(fn, is.Body.List, subject, false) {
					return
				}
				src.unc = unc
				if !unc {
					src.note = fmt.Sprintf("runLs %s: additional guard `%s` at %s", src.name, rest, pi.pos(is.Cond))
				}
				ts, sys, isTS := sysSwitch(els.List[0], fi)
				if !isTS {
					u.fail("%s: else branch at %s is not the Sys() type switch", fn, pi.pos(els))
					return
				}
				lsOrder = append(lsOrder, src)
				sawSwitch = true
				if !procSwitch(ts, sys) {
					return
				}
				continue
			}
			ts, sys, isTS := sysSwitch(st, fi)
			if !isTS {
				// uid/gid may be read (name lookup, Sprintf) but not written elsewhere
				if as, isA := st.(*ast.AssignStmt); isA {
					for _, l := range as.Lhs {
						if n := pi.nodeText(l); n == "uid" || n == "gid" {
							u.fail("%s: uid/gid written outside the recognised shapes at %s", fn, pi.pos(st))
							return
						}
					}
				}
				if is, isIf := st.(*ast.IfStmt); isIf && strings.Contains(txt, "uid, gid =") {
					if !strings.HasPrefix(pi.nodeText(is.Cond), "idLookup != nil") || txt != "if idLookup != nil { uid, gid = idLookup.LookupUserName(uid), idLookup.LookupGroupName(gid) }" {
						u.fail("%s: uid/gid written outside the recognised shapes at %s", fn, pi.pos(st))
						return
					}
				}
				continue
			}
			if sawSwitch || !sawInit {
				u.fail("%s: second Sys() type switch, or switch before the `\"0\", \"0\"` defaults at %s", fn, pi.pos(st))
				return
			}
			sawSwitch = true
			if !procSwitch(ts, sys) {
				return
			}
		}
		if !sawSwitch {
			u.fail("%s: no Sys() type switch found", fn)
			return
		}
		okL = true
	}()
}
