package main

// Unit CodecTables, part 2: the filexfer codec (internal/encoding/ssh/filexfer and …/openssh).

import (
	"go/ast"
	"go/token"
	"go/types"
	"strings"
)

var fxAppendKinds = map[string]string{"AppendUint8": ".u8", "AppendUint32": ".u32", "AppendUint64": ".u64", "AppendString": ".str", "AppendByteSlice": ".lenData"}
var fxConsumeKinds = map[string]string{"ConsumeUint8": ".u8", "ConsumeUint32": ".u32", "ConsumeUint64": ".u64", "ConsumeString": ".str",
	"ConsumeByteSlice": ".lenData", "ConsumeByteSliceCopy": ".lenData"}

// containers whose MarshalPacket / UnmarshalPacketBody delegate; used as verified templates
var fxContainers = map[string]bool{"RawPacket": true, "RequestPacket": true, "ExtendedPacket": true, "ExtendedReplyPacket": true}

const canonFxExtendedMarshal = "{ buf := NewBuffer(b) if buf.Cap() < 9 { size := 4 + len(p.ExtendedRequest) buf = NewMarshalBuffer(size) } buf.StartPacket(PacketTypeExtended, reqid) buf.AppendString(p.ExtendedRequest) if p.Data != nil { payload, err = p.Data.MarshalBinary() if err != nil { return nil, nil, err } } return buf.Packet(payload) }"
const canonFxExtendedReplyMarshal = "{ buf := NewBuffer(b) if buf.Cap() < 9 { buf = NewMarshalBuffer(0) } buf.StartPacket(PacketTypeExtendedReply, reqid) if p.Data != nil { payload, err = p.Data.MarshalBinary() if err != nil { return nil, nil, err } } return buf.Packet(payload) }"
const canonFxExtendedUnmarshal = "{ p.ExtendedRequest = buf.ConsumeString() if buf.Err != nil { return buf.Err } if p.Data == nil { p.Data = newExtendedPacket(p.ExtendedRequest) } return p.Data.UnmarshalBinary(buf.Bytes()) }"
const canonFxExtendedReplyUnmarshal = "{ if p.Data == nil { p.Data = new(Buffer) } return p.Data.UnmarshalBinary(buf.Bytes()) }"
const canonFxRequestUnmarshalFrom = "{ typ := PacketType(buf.ConsumeUint8()) if buf.Err != nil { return buf.Err } req, err := newPacketFromType(typ) if err != nil { return err } *p = RequestPacket{ RequestID: buf.ConsumeUint32(), Request: req, } return p.Request.UnmarshalPacketBody(buf) }"
const canonFxStartPacket = "{ *b = Buffer{ b: append(b.b[:0], make([]byte, 4)...), } b.AppendUint8(uint8(packetType)) b.AppendUint32(requestID) }"

func (c *codecX) verifyFxPrims() {
	pi := c.x.fx
	c.fxSafe = map[string]bool{}
	body := func(n string) string { return pi.bodyText(pi.funcDecl("Buffer." + n)) }
	fixed := func(n string, size string) bool {
		b := body(n)
		i := strings.Index(b, "if b.Len() < "+size+" { b.off = len(b.b) b.Err = ErrShortPacket return 0 }")
		j := strings.Index(b, "b.b[b.off")
		return i >= 0 && j > i // the check precedes the first access
	}
	c.fxSafe["ConsumeUint8"] = fixed("ConsumeUint8", "1")
	c.fxSafe["ConsumeUint32"] = fixed("ConsumeUint32", "4")
	c.fxSafe["ConsumeUint64"] = fixed("ConsumeUint64", "8")
	bs := body("ConsumeByteSlice")
	i := strings.Index(bs, "length := int(b.ConsumeUint32()) if b.Err != nil { return nil }")
	j := strings.Index(bs, "if b.Len() < length || length < 0 { b.off = len(b.b) b.Err = ErrShortPacket return nil }")
	k := strings.Index(bs, "b.b[b.off")
	c.fxSafe["ConsumeByteSlice"] = c.fxSafe["ConsumeUint32"] && i >= 0 && j > i && k > j
	c.fxSafe["ConsumeString"] = c.fxSafe["ConsumeByteSlice"] && body("ConsumeString") == "{ return string(b.ConsumeByteSlice()) }"
	c.fxSafe["ConsumeByteSliceCopy"] = c.fxSafe["ConsumeByteSlice"] && strings.HasPrefix(body("ConsumeByteSliceCopy"), "{ data := b.ConsumeByteSlice() ") &&
		!strings.Contains(body("ConsumeByteSliceCopy"), "b.b[")
	c.fxSafe["ConsumeCount"] = c.fxSafe["ConsumeUint32"] && body("ConsumeCount") == "{ return int(b.ConsumeUint32()) }"
	c.verifyFxCopyPrims()
	c.verifyFxBufferReset()
}

// verifyFxCopyPrims: the two primitives that copy INTO an existing slice (a caller's hint, the Buffer's own
// backing array) are modelled as "the result is exactly the source bytes, whatever the destination held":
//
//	ConsumeByteSliceCopy(hint): result has length len(data) and equals data, for every hint
//	(*Buffer).UnmarshalBinary(data): b.b equals data and b.off = 0, for every previous b.b
//
// That holds for the grow-by-append(make) / copy / reslice-to-n idiom (the destination is first made at least
// len(src) long, so copy transfers all of src) and for append(dst[:0], src...). Any other body — in particular one
// that tests cap(dst) but copies into dst's LENGTH — is reported, and the fact is emitted as false.
func (c *codecX) verifyFxCopyPrims() {
	pi, u := c.x.fx, c.u
	one := func(name string, fd *ast.FuncDecl, shapes func(recv, arg string) []string) bool {
		if fd == nil || fd.Body == nil || fd.Recv == nil || len(fd.Recv.List) != 1 || len(fd.Recv.List[0].Names) != 1 ||
			len(fd.Type.Params.List) != 1 || len(fd.Type.Params.List[0].Names) != 1 {
			u.fail("Buffer.%s: not found, or not a method with one named parameter", name)
			return false
		}
		got := pi.bodyText(fd)
		for _, want := range shapes(fd.Recv.List[0].Names[0].Name, fd.Type.Params.List[0].Names[0].Name) {
			if got == want {
				return true
			}
		}
		u.fail("Buffer.%s at %s is not the grow-by-append(make)/copy idiom (nor append(dst[:0], src...)); the model's \"copies all of the source for every destination\" is not justified: %s", name, pi.pos(fd), got)
		return false
	}
	cp := pi.funcDecl("Buffer.ConsumeByteSliceCopy")
	okCopy := one("ConsumeByteSliceCopy", cp, func(b, hint string) []string {
		return []string{
			"{ data := " + b + ".ConsumeByteSlice() if grow := len(data) - len(" + hint + "); grow > 0 { " + hint + " = append(" + hint + ", make([]byte, grow)...) } n := copy(" + hint + ", data) " + hint + " = " + hint + "[:n] return " + hint + " }",
			"{ data := " + b + ".ConsumeByteSlice() return append(" + hint + "[:0], data...) }",
			"{ return append(" + hint + "[:0], " + b + ".ConsumeByteSlice()...) }",
		}
	})
	ub := pi.funcDecl("Buffer.UnmarshalBinary")
	okUnm := one("UnmarshalBinary", ub, func(b, data string) []string {
		return []string{
			"{ if grow := len(" + data + ") - len(" + b + ".b); grow > 0 { " + b + ".b = append(" + b + ".b, make([]byte, grow)...) } n := copy(" + b + ".b, " + data + ") " + b + ".b = " + b + ".b[:n] " + b + ".off = 0 return nil }",
			"{ " + b + ".b = append(" + b + ".b[:0], " + data + "...) " + b + ".off = 0 return nil }",
		}
	})
	if cp != nil && ub != nil {
		u.pf("-- source: %s Buffer.ConsumeByteSliceCopy, %s Buffer.UnmarshalBinary\n", pi.pos(cp), pi.pos(ub))
	}
	u.pf("-- buffer.go: copying into an existing slice transfers ALL of the source (destination grown to len(src) before copy, result resliced to the copied count)\n")
	u.pf("def fxCopyPrims : List (String × Bool) := [(\"Buffer.UnmarshalBinary\", %s), (\"ConsumeByteSliceCopy\", %s)]\n\n", leanBool(okUnm), leanBool(okCopy))
}

// verifyFxBufferReset: (*Buffer).Reset must leave a Buffer that is EMPTY in every respect — contents, read offset and
// the sticky Err — keeping only the storage; the model of a reused Buffer (and of everything that marshals into or
// decodes from one after Reset) is "Reset gives the state of a fresh Buffer". Accepted bodies:
//
//	*b = Buffer{b: b.b[:0]}                       the whole value is replaced, no other field is set
//	b.b = b.b[:0]; b.off = 0; b.Err = nil         every field of the struct assigned its zero (any order)
//
// A body that truncates the slice only (offset or Err survive) is reported, and the fact is emitted as false.
func (c *codecX) verifyFxBufferReset() {
	pi, u := c.x.fx, c.u
	fd := pi.funcDecl("Buffer.Reset")
	ok := false
	switch {
	case fd == nil || fd.Body == nil || fd.Recv == nil || len(fd.Recv.List) != 1 || len(fd.Recv.List[0].Names) != 1 || fd.Type.Params.NumFields() != 0:
		u.fail("Buffer.Reset: not found, or not a method without parameters on a named receiver")
	default:
		b := fd.Recv.List[0].Names[0].Name
		got := pi.bodyText(fd)
		if got == "{ *"+b+" = Buffer{ b: "+b+".b[:0], } }" || got == "{ *"+b+" = Buffer{b: "+b+".b[:0]} }" {
			ok = true
			break
		}
		// field by field: every field of the struct exactly once, with its zero value (the storage truncated)
		var st *types.Struct
		if o := pi.pkg.Scope().Lookup("Buffer"); o != nil {
			st, _ = o.Type().Underlying().(*types.Struct)
		}
		want := map[string]bool{}
		for i := 0; st != nil && i < st.NumFields(); i++ {
			f := st.Field(i)
			zero := ""
			switch t := f.Type().Underlying().(type) {
			case *types.Basic:
				if t.Info()&types.IsNumeric != 0 {
					zero = "0"
				}
			case *types.Interface, *types.Pointer, *types.Map:
				zero = "nil"
			case *types.Slice:
				zero = "nil"
				if f.Name() == "b" {
					zero = b + ".b[:0]"
				}
			}
			if zero == "" {
				want = nil
				break
			}
			want[b+"."+f.Name()+" = "+zero] = true
		}
		all := want != nil && len(want) > 0 && len(fd.Body.List) == len(want)
		for _, s := range fd.Body.List {
			t := pi.nodeText(s)
			if all && want[t] {
				delete(want, t)
			} else {
				all = false
			}
		}
		if all && len(want) == 0 {
			ok = true
			break
		}
		u.fail("Buffer.Reset at %s neither replaces the whole Buffer value (*b = Buffer{b: b.b[:0]}) nor assigns every field its zero: the read offset or the sticky Err survive a Reset, and the model's \"a Buffer after Reset is a fresh Buffer\" is not justified: %s", pi.pos(fd), got)
	}
	if fd != nil {
		u.pf("-- source: %s Buffer.Reset\n", pi.pos(fd))
	}
	u.pf("-- buffer.go: true iff Reset clears contents, read offset and sticky Err together (whole-value replacement, or every field assigned its zero); only the storage b.b[:0] is kept\n")
	u.pf("def fxBufferResetClearsAll : Bool := %s\n\n", leanBool(ok))
}

// typeNameOf: the named type of an expression (through pointers).
func typeNameOf(pi *pkgInfo, e ast.Expr) string {
	var t types.Type
	if tv, ok := pi.info.Types[e]; ok && tv.Type != nil {
		t = tv.Type
	} else if id, ok := e.(*ast.Ident); ok {
		if o := pi.info.Defs[id]; o != nil {
			t = o.Type()
		} else if o := pi.info.Uses[id]; o != nil {
			t = o.Type()
		}
	}
	if t == nil {
		return ""
	}
	if p, ok := t.(*types.Pointer); ok {
		t = p.Elem()
	}
	if n, ok := t.(*types.Named); ok {
		return n.Obj().Name()
	}
	return t.String()
}

// bufCall: s is `buf.M(args)`.
func bufCall(s ast.Stmt, buf string) (string, *ast.CallExpr) {
	es, ok := s.(*ast.ExprStmt)
	if !ok {
		return "", nil
	}
	call, ok := es.X.(*ast.CallExpr)
	if !ok {
		return "", nil
	}
	m, ok := selOn(call.Fun, buf)
	if !ok {
		return "", nil
	}
	return m, call
}

// parseFxAppends parses the statements of a filexfer marshaller.
// mode "packet": MarshalPacket (StartPacket … return buf.Packet(x));
// mode "binary": Init/Version MarshalBinary (NewBuffer(make(4,…)), AppendUint8(type) … PutLength, return b.Bytes(), nil);
// mode "into":   MarshalInto(buf) (fields only).
func (c *codecX) parseFxAppends(pi *pkgInfo, who string, fd *ast.FuncDecl, recv, mode string) (row crow, ok bool) {
	u := c.u
	bad := func(n ast.Node, why string) (crow, bool) {
		u.fail("%s: %s at %s: %s", who, why, pi.pos(n), pi.nodeText(n))
		return crow{}, false
	}
	row = crow{name: who, typ: -1, pos: pi.pos(fd)}
	buf := ""
	if mode == "into" {
		if len(fd.Type.Params.List) != 1 || len(fd.Type.Params.List[0].Names) != 1 {
			return bad(fd, "unexpected MarshalInto signature")
		}
		buf = fd.Type.Params.List[0].Names[0].Name
	}
	pendingCount := ""
	sizeVar := ""
	done := false
	putLen := false
	for _, s := range fd.Body.List {
		if done {
			return bad(s, "statement after the final return")
		}
		txt := pi.nodeText(s)
		switch st := s.(type) {
		case *ast.AssignStmt:
			lhs, _ := st.Lhs[0].(*ast.Ident)
			switch {
			case lhs != nil && st.Tok == token.DEFINE && buf == "" && mode == "packet" && txt == lhs.Name+" := NewBuffer(b)":
				buf = lhs.Name
			case lhs != nil && st.Tok == token.DEFINE && buf == "" && mode == "binary" && sizeVar != "" && txt == lhs.Name+" := NewBuffer(make([]byte, 4, 4+"+sizeVar+"))":
				buf = lhs.Name
			case lhs != nil && st.Tok == token.DEFINE && buf == "" && mode == "binary" && sizeVar == "":
				sizeVar = lhs.Name // size of the packet (capacity and length prefix)
			default:
				return bad(s, "unrecognised assignment")
			}
		case *ast.IfStmt:
			// capacity only: `if buf.Cap() < 9 { size := …; buf = NewMarshalBuffer(size) }`
			if mode != "packet" || buf == "" || pi.nodeText(st.Cond) != buf+".Cap() < 9" || st.Else != nil || row.typ >= 0 {
				return bad(s, "unrecognised if")
			}
			b := pi.nodeText(st.Body)
			if strings.Contains(b, "Append") || strings.Contains(b, "StartPacket") || strings.Contains(b, "payload") || !strings.Contains(b, buf+" = NewMarshalBuffer(") {
				return bad(s, "the capacity branch does more than allocate")
			}
		case *ast.RangeStmt:
			over, okr := selOn(st.X, recv)
			val, _ := st.Value.(*ast.Ident)
			if !okr || val == nil {
				return bad(s, "unrecognised range")
			}
			if mode == "binary" && buf == "" && sizeVar != "" && txt == "for _, "+val.Name+" := range "+recv+"."+over+" { "+sizeVar+" += "+val.Name+".Len() }" {
				continue
			}
			if buf == "" || txt != "for _, "+val.Name+" := range "+recv+"."+over+" { "+val.Name+".MarshalInto("+buf+") }" {
				return bad(s, "unrecognised loop")
			}
			switch typeNameOf(pi, st.Value) {
			case "NameEntry":
				if pendingCount != over {
					return bad(s, "name entries without their count")
				}
				pendingCount = ""
				row.fields = append(row.fields, cfield{".names", over, true})
			case "ExtensionPair":
				if pendingCount != "" {
					return bad(s, "unexpected count before the extension pairs")
				}
				row.fields = append(row.fields, cfield{".pairs", over, true})
			default:
				return bad(s, "loop over an unknown element type "+typeNameOf(pi, st.Value))
			}
		case *ast.ExprStmt:
			call, _ := st.X.(*ast.CallExpr)
			if call == nil {
				return bad(s, "unrecognised statement")
			}
			if m, bc := bufCall(s, buf); bc != nil && buf != "" {
				if pendingCount != "" {
					return bad(s, "field written between a count and its elements")
				}
				switch {
				case m == "StartPacket" && mode == "packet" && row.typ < 0 && len(row.fields) == 0 && len(bc.Args) == 2 && isIdent(bc.Args[1], "reqid"):
					v, okv := pi.exprInt(bc.Args[0])
					if !okv {
						return bad(s, "packet type is not a constant")
					}
					row.typ = v
					row.fields = append(row.fields, cfield{".u32", "ID", true})
				case m == "AppendUint8" && mode == "binary" && row.typ < 0 && len(row.fields) == 0 && len(bc.Args) == 1:
					v, okv := pi.exprInt(bc.Args[0])
					if !okv {
						return bad(s, "packet type is not a constant")
					}
					row.typ = v
				case m == "PutLength" && mode == "binary" && len(bc.Args) == 1 && isIdent(bc.Args[0], sizeVar):
					putLen = true
				case fxAppendKinds[m] != "" && len(bc.Args) == 1:
					if mode != "into" && row.typ < 0 {
						return bad(s, "field written before the packet type")
					}
					kind := fxAppendKinds[m]
					arg := stripConv(pi, bc.Args[0])
					if f, okf := selOn(arg, recv); okf {
						row.fields = append(row.fields, cfield{kind, f, true})
					} else if sv, oks := pi.exprStr(arg); oks && kind == ".str" {
						row.fields = append(row.fields, cfield{cstrKind(sv), "ext", true})
					} else if ln, cl := callName(arg); ln == "len" && kind == ".u32" && len(cl.Args) == 1 {
						f, okf := selOn(cl.Args[0], recv)
						if !okf {
							return bad(s, "unrecognised count")
						}
						pendingCount = f
					} else {
						return bad(s, "unrecognised operand")
					}
				default:
					return bad(s, "unrecognised buffer call")
				}
				continue
			}
			// recv.F.MarshalInto(buf)
			if se, okS := call.Fun.(*ast.SelectorExpr); okS && se.Sel.Name == "MarshalInto" && len(call.Args) == 1 && isIdent(call.Args[0], buf) && buf != "" {
				if f, okf := selOn(se.X, recv); okf && typeNameOf(pi, se.X) == "Attributes" && pendingCount == "" {
					if mode != "into" && row.typ < 0 {
						return bad(s, "field written before the packet type")
					}
					row.fields = append(row.fields, cfield{".attrs", f, true})
					continue
				}
			}
			return bad(s, "unrecognised call")
		case *ast.ReturnStmt:
			switch {
			case mode == "packet" && txt == "return "+buf+".Packet(payload)" && pendingCount == "":
				assigned := false
				ast.Inspect(fd.Body, func(n ast.Node) bool {
					if as, ok := n.(*ast.AssignStmt); ok {
						for _, l := range as.Lhs {
							if isIdent(l, "payload") {
								assigned = true
							}
						}
					}
					return true
				})
				if assigned {
					return bad(s, "payload is assigned")
				}
			case mode == "packet" && pendingCount != "" && txt == "return "+buf+".Packet("+recv+"."+pendingCount+")":
				row.fields = append(row.fields, cfield{".lenData", pendingCount, true})
				pendingCount = ""
			case mode == "binary" && putLen && pendingCount == "" && txt == "return "+buf+".Bytes(), nil":
			default:
				return bad(s, "unrecognised return")
			}
			done = true
		default:
			return bad(s, "unrecognised statement")
		}
	}
	if mode == "into" {
		if pendingCount != "" {
			u.fail("%s: count without elements (%s)", who, row.pos)
			return crow{}, false
		}
		return row, true
	}
	if !done || row.typ < 0 {
		u.fail("%s: packet type or final return not recognised (%s)", who, row.pos)
		return crow{}, false
	}
	return row, true
}

// consumeOf: e is (a conversion of) buf.ConsumeX(...) -> X.
func consumeOf(pi *pkgInfo, e ast.Expr, buf string) (string, bool) {
	e = stripConv(pi, e)
	call, ok := e.(*ast.CallExpr)
	if !ok {
		return "", false
	}
	m, ok := selOn(call.Fun, buf)
	if !ok || fxConsumeKinds[m] == "" {
		return "", false
	}
	if m == "ConsumeByteSliceCopy" {
		if len(call.Args) != 1 {
			return "", false
		}
	} else if len(call.Args) != 0 {
		return "", false
	}
	return m, true
}

// parseFxLit: `*recv = T{F: buf.ConsumeX(), …}` -> fields in SOURCE order (Go evaluates keyed literals left to right).
func (c *codecX) parseFxLit(pi *pkgInfo, who string, s ast.Stmt, recv, buf, typ string) ([]cfield, bool) {
	as, ok := s.(*ast.AssignStmt)
	if !ok || as.Tok != token.ASSIGN || len(as.Lhs) != 1 || len(as.Rhs) != 1 || pi.nodeText(as.Lhs[0]) != "*"+recv {
		return nil, false
	}
	cl, ok := as.Rhs[0].(*ast.CompositeLit)
	if !ok || typeName(cl.Type) != typ {
		return nil, false
	}
	var out []cfield
	for _, el := range cl.Elts {
		kv, ok := el.(*ast.KeyValueExpr)
		if !ok {
			c.u.fail("%s: unkeyed composite literal at %s", who, pi.pos(el))
			return nil, false
		}
		key, _ := kv.Key.(*ast.Ident)
		m, okc := consumeOf(pi, kv.Value, buf)
		if key == nil || !okc {
			c.u.fail("%s: element is not F: %s.ConsumeX() at %s: %s", who, buf, pi.pos(el), pi.nodeText(el))
			return nil, false
		}
		out = append(out, cfield{fxConsumeKinds[m], key.Name, c.fxSafe[m]})
	}
	return out, true
}

// parseFxReads parses UnmarshalPacketBody / UnmarshalFrom: [literal] then `return buf.Err` | `return recv.Attrs.UnmarshalFrom(buf)`.
func (c *codecX) parseFxReads(pi *pkgInfo, who string, fd *ast.FuncDecl, typ string) ([]cfield, bool) {
	u := c.u
	recv := recvVar(fd)
	if len(fd.Type.Params.List) != 1 || len(fd.Type.Params.List[0].Names) != 1 {
		u.fail("%s: unexpected signature (%s)", who, pi.pos(fd))
		return nil, false
	}
	buf := fd.Type.Params.List[0].Names[0].Name
	stmts := fd.Body.List
	var fields []cfield
	i := 0
	if len(stmts) == 2 {
		f, ok := c.parseFxLit(pi, who, stmts[0], recv, buf, typ)
		if !ok {
			u.fail("%s: first statement is not `*%s = %s{…}` at %s: %s", who, recv, typ, pi.pos(stmts[0]), pi.nodeText(stmts[0]))
			return nil, false
		}
		fields = f
		i = 1
	}
	if len(stmts) != i+1 {
		u.fail("%s: body is not [literal;] return (%s)", who, pi.pos(fd))
		return nil, false
	}
	rs, ok := stmts[i].(*ast.ReturnStmt)
	if !ok || len(rs.Results) != 1 {
		u.fail("%s: unrecognised final statement at %s", who, pi.pos(stmts[i]))
		return nil, false
	}
	txt := pi.nodeText(rs.Results[0])
	switch {
	case txt == buf+".Err":
	case strings.HasPrefix(txt, recv+".") && strings.HasSuffix(txt, ".UnmarshalFrom("+buf+")"):
		call := rs.Results[0].(*ast.CallExpr)
		x := call.Fun.(*ast.SelectorExpr).X
		f, okf := selOn(x, recv)
		if !okf || typeNameOf(pi, x) != "Attributes" {
			u.fail("%s: UnmarshalFrom of a non-Attributes field at %s", who, pi.pos(rs))
			return nil, false
		}
		fields = append(fields, cfield{".attrs", f, c.attrsSafe()})
	default:
		u.fail("%s: unrecognised return at %s: %s", who, pi.pos(rs), txt)
		return nil, false
	}
	return fields, true
}

var attrsSafeMemo *bool

// attrsSafe: Attributes.UnmarshalFrom / XXX_UnmarshalByFlags / ExtendedAttribute.UnmarshalFrom read only through Consume*.
func (c *codecX) attrsSafe() bool {
	if attrsSafeMemo != nil {
		return *attrsSafeMemo
	}
	pi := c.x.fx
	ok := pi.bodyText(pi.funcDecl("Attributes.UnmarshalFrom")) == "{ flags := buf.ConsumeUint32() return a.XXX_UnmarshalByFlags(flags, buf) }"
	if !ok {
		c.u.fail("Attributes.UnmarshalFrom is not flags word + XXX_UnmarshalByFlags")
	}
	for _, n := range []string{"Attributes.XXX_UnmarshalByFlags", "ExtendedAttribute.UnmarshalFrom"} {
		fd := pi.funcDecl(n)
		if fd == nil {
			c.u.fail("%s not found", n)
			ok = false
			continue
		}
		ast.Inspect(fd.Body, func(nd ast.Node) bool {
			switch t := nd.(type) {
			case *ast.IndexExpr:
				if pi.nodeText(t.X) != "a.ExtendedAttributes" { // indexing the slice just made, by range
					ok = false
				}
			case *ast.SliceExpr:
				ok = false
			case *ast.CallExpr:
				if m, isSel := selOn(t.Fun, "buf"); isSel && m != "Len" { // Len() only inspects
					if s, known := c.fxSafe[m]; !known || !s {
						ok = false
					}
				}
			}
			return true
		})
	}
	attrsSafeMemo = &ok
	return ok
}

func (c *codecX) extractFx() {
	u := c.u
	fx, os := c.x.fx, c.x.ossh
	c.verifyFxPrims()
	attrsSafeMemo = nil

	if got := fx.bodyText(fx.funcDecl("Buffer.StartPacket")); got != canonFxStartPacket {
		u.fail("Buffer.StartPacket is not 4 length bytes, type, request id: %s", got)
	}
	// element templates
	okEntry := false
	if fd := fx.funcDecl("NameEntry.MarshalInto"); fd != nil {
		if r, ok := c.parseFxAppends(fx, "NameEntry.MarshalInto", fd, recvVar(fd), "into"); ok {
			okEntry = len(r.fields) == 3 && r.fields[0] == (cfield{".str", "Filename", true}) && r.fields[1] == (cfield{".str", "Longname", true}) && r.fields[2].kind == ".attrs"
		}
	}
	if !okEntry {
		u.fail("NameEntry.MarshalInto is not filename, longname, attrs")
	}
	okPair := false
	if fd := fx.funcDecl("ExtensionPair.MarshalInto"); fd != nil {
		if r, ok := c.parseFxAppends(fx, "ExtensionPair.MarshalInto", fd, recvVar(fd), "into"); ok {
			okPair = len(r.fields) == 2 && r.fields[0] == (cfield{".str", "Name", true}) && r.fields[1] == (cfield{".str", "Data", true})
		}
	}
	if !okPair {
		u.fail("ExtensionPair.MarshalInto is not name, data")
	}
	entrySafe, pairSafe := false, false
	if fd := fx.funcDecl("NameEntry.UnmarshalFrom"); fd != nil {
		if f, ok := c.parseFxReads(fx, "NameEntry.UnmarshalFrom", fd, "NameEntry"); ok {
			if len(f) == 3 && f[0].kind == ".str" && f[0].name == "Filename" && f[1].kind == ".str" && f[1].name == "Longname" && f[2].kind == ".attrs" {
				entrySafe = f[0].safe && f[1].safe && f[2].safe
			} else {
				u.fail("NameEntry.UnmarshalFrom is not filename, longname, attrs")
			}
		}
	}
	if fd := fx.funcDecl("ExtensionPair.UnmarshalFrom"); fd != nil {
		if f, ok := c.parseFxReads(fx, "ExtensionPair.UnmarshalFrom", fd, "ExtensionPair"); ok {
			if len(f) == 2 && f[0].kind == ".str" && f[0].name == "Name" && f[1].kind == ".str" && f[1].name == "Data" {
				pairSafe = f[0].safe && f[1].safe
			} else {
				u.fail("ExtensionPair.UnmarshalFrom is not name, data")
			}
		}
	}
	// container templates
	extM := fx.bodyText(fx.funcDecl("ExtendedPacket.MarshalPacket")) == canonFxExtendedMarshal
	extRM := fx.bodyText(fx.funcDecl("ExtendedReplyPacket.MarshalPacket")) == canonFxExtendedReplyMarshal
	extU := fx.bodyText(fx.funcDecl("ExtendedPacket.UnmarshalPacketBody")) == canonFxExtendedUnmarshal
	extRU := fx.bodyText(fx.funcDecl("ExtendedReplyPacket.UnmarshalPacketBody")) == canonFxExtendedReplyUnmarshal
	reqU := fx.bodyText(fx.funcDecl("RequestPacket.UnmarshalFrom")) == canonFxRequestUnmarshalFrom
	for n, ok := range map[string]bool{"ExtendedPacket.MarshalPacket": extM, "ExtendedReplyPacket.MarshalPacket": extRM,
		"ExtendedPacket.UnmarshalPacketBody": extU, "ExtendedReplyPacket.UnmarshalPacketBody": extRU, "RequestPacket.UnmarshalFrom": reqU} {
		if !ok {
			u.fail("%s: container body changed: %s", n, fx.bodyText(fx.funcDecl(n)))
		}
	}
	extTyp, _ := fx.constInt("PacketTypeExtended")
	extReplyTyp, _ := fx.constInt("PacketTypeExtendedReply")
	idField := cfield{".u32", "ID", c.fxSafe["ConsumeUint32"] && reqU}

	// --- marshal, package filexfer ---
	for _, t := range fx.methodsNamed("MarshalPacket") {
		if fxContainers[t] {
			continue
		}
		fd := fx.funcDecl(t + ".MarshalPacket")
		if r, ok := c.parseFxAppends(fx, t, fd, recvVar(fd), "packet"); ok {
			if strings.Contains(fmtFields(r.fields), ".names") && !okEntry {
				continue
			}
			c.fxMarshal = append(c.fxMarshal, r)
		}
	}
	for _, t := range []string{"InitPacket", "VersionPacket"} {
		fd := fx.funcDecl(t + ".MarshalBinary")
		if fd == nil {
			u.fail("%s.MarshalBinary not found", t)
			continue
		}
		if r, ok := c.parseFxAppends(fx, t, fd, recvVar(fd), "binary"); ok && okPair {
			c.fxMarshal = append(c.fxMarshal, r)
		}
	}
	// --- unmarshal, package filexfer ---
	for _, t := range fx.methodsNamed("UnmarshalPacketBody") {
		if fxContainers[t] {
			continue
		}
		fd := fx.funcDecl(t + ".UnmarshalPacketBody")
		if t == "NamePacket" {
			if c.nameUnmarshalShape(fd) {
				c.fxUnmarshal = append(c.fxUnmarshal, crow{name: t, pos: fx.pos(fd), fields: []cfield{idField,
					{".names", "Entries", c.fxSafe["ConsumeCount"] && entrySafe}}})
			}
			continue
		}
		if f, ok := c.parseFxReads(fx, t, fd, t); ok {
			c.fxUnmarshal = append(c.fxUnmarshal, crow{name: t, pos: fx.pos(fd), fields: append([]cfield{idField}, f...)})
		}
	}
	for _, t := range []string{"InitPacket", "VersionPacket"} {
		fd := fx.funcDecl(t + ".UnmarshalBinary")
		if fd == nil {
			u.fail("%s.UnmarshalBinary not found", t)
			continue
		}
		if f, ok := c.initUnmarshal(t, fd, pairSafe); ok {
			c.fxUnmarshal = append(c.fxUnmarshal, crow{name: t, pos: fx.pos(fd), fields: f})
		}
	}

	// --- package openssh ---
	for _, t := range os.methodsNamed("MarshalPacket") {
		fd := os.funcDecl(t + ".MarshalPacket")
		recv := recvVar(fd)
		body := os.bodyText(fd)
		into := os.funcDecl(t + ".MarshalInto")
		mb := os.funcDecl(t + ".MarshalBinary")
		if into == nil || mb == nil {
			u.fail("openssh.%s: MarshalInto / MarshalBinary not found", t)
			continue
		}
		// MarshalBinary = fresh buffer, MarshalInto, Bytes
		okMB := false
		if n := len(mb.Body.List); n >= 3 {
			bv := ""
			if as, ok := mb.Body.List[n-3].(*ast.AssignStmt); ok && as.Tok == token.DEFINE && len(as.Lhs) == 1 {
				if id, ok := as.Lhs[0].(*ast.Ident); ok && strings.HasPrefix(os.nodeText(as.Rhs[0]), "sshfx.NewBuffer(make([]byte, 0, ") {
					bv = id.Name
				}
			}
			okMB = bv != "" && os.nodeText(mb.Body.List[n-2]) == recv+".MarshalInto("+bv+")" && os.nodeText(mb.Body.List[n-1]) == "return "+bv+".Bytes(), nil"
			for _, s := range mb.Body.List[:n-3] {
				if as, ok := s.(*ast.AssignStmt); !ok || as.Tok != token.DEFINE || !isIdent(as.Lhs[0], "size") {
					okMB = false
				}
			}
		}
		if !okMB {
			u.fail("openssh.%s.MarshalBinary is not a fresh buffer + MarshalInto (%s): %s", t, os.pos(mb), os.bodyText(mb))
			continue
		}
		data, ok := c.parseFxAppends(os, t+".MarshalInto", into, recv, "into")
		if !ok {
			continue
		}
		row := crow{name: t, pos: os.pos(fd)}
		const pre = "{ p := &sshfx.ExtendedPacket{ ExtendedRequest: "
		const post = ", Data: " // + recv + ", } return p.MarshalPacket(reqid, b) }"
		switch {
		case strings.HasPrefix(body, pre) && strings.HasSuffix(body, post+recv+", } return p.MarshalPacket(reqid, b) }") && extM:
			var nameExpr ast.Expr
			ast.Inspect(fd.Body, func(n ast.Node) bool {
				if kv, ok := n.(*ast.KeyValueExpr); ok && isIdent(kv.Key, "ExtendedRequest") {
					nameExpr = kv.Value
				}
				return true
			})
			sv, oks := os.exprStr(nameExpr)
			if !oks {
				u.fail("openssh.%s: extension name is not a constant (%s)", t, os.pos(fd))
				continue
			}
			row.typ = extTyp
			row.fields = append([]cfield{{".u32", "ID", true}, {cstrKind(sv), "ExtendedRequest", true}}, data.fields...)
		case body == "{ p := &sshfx.ExtendedReplyPacket{ Data: "+recv+", } return p.MarshalPacket(reqid, b) }" && extRM:
			row.typ = extReplyTyp
			row.fields = append([]cfield{{".u32", "ID", true}}, data.fields...)
		default:
			u.fail("openssh.%s.MarshalPacket: not a wrapper of ExtendedPacket / ExtendedReplyPacket (%s): %s", t, os.pos(fd), body)
			continue
		}
		c.fxMarshal = append(c.fxMarshal, row)

		// decoder: UnmarshalBinary -> UnmarshalFrom (literal)
		ub, uf := os.funcDecl(t+".UnmarshalBinary"), os.funcDecl(t+".UnmarshalFrom")
		if ub == nil || uf == nil {
			u.fail("openssh.%s: UnmarshalBinary / UnmarshalFrom not found", t)
			continue
		}
		if got := os.bodyText(ub); got != "{ return "+recv+".UnmarshalFrom(sshfx.NewBuffer(data)) }" {
			u.fail("openssh.%s.UnmarshalBinary is not UnmarshalFrom(NewBuffer(data)): %s", t, got)
			continue
		}
		f, ok := c.parseFxReads(os, "openssh."+t+".UnmarshalFrom", uf, t)
		if !ok {
			continue
		}
		urow := crow{name: t, pos: os.pos(uf)}
		if row.typ == extTyp {
			if !extU {
				continue
			}
			urow.fields = append([]cfield{idField, {".str", "ExtendedRequest", c.fxSafe["ConsumeString"]}}, f...)
		} else {
			upb := os.funcDecl(t + ".UnmarshalPacketBody")
			if upb == nil || os.bodyText(upb) != "{ p := &sshfx.ExtendedReplyPacket{ Data: "+recv+", } return p.UnmarshalPacketBody(buf) }" || !extRU {
				u.fail("openssh.%s.UnmarshalPacketBody: not a wrapper of ExtendedReplyPacket", t)
				continue
			}
			urow.fields = append([]cfield{idField}, f...)
		}
		c.fxUnmarshal = append(c.fxUnmarshal, urow)
	}
	// registry
	for _, f := range os.files {
		for _, d := range f.Decls {
			fd, ok := d.(*ast.FuncDecl)
			if !ok || fd.Recv != nil || !strings.HasPrefix(fd.Name.Name, "RegisterExtension") {
				continue
			}
			found := false
			ast.Inspect(fd.Body, func(n ast.Node) bool {
				call, ok := n.(*ast.CallExpr)
				if !ok || exprString(call.Fun) != "sshfx.RegisterExtendedPacketType" || len(call.Args) != 2 {
					return true
				}
				name, okn := os.exprStr(call.Args[0])
				typ := ""
				ast.Inspect(call.Args[1], func(m ast.Node) bool {
					if nc, ok := m.(*ast.CallExpr); ok && isIdent(nc.Fun, "new") && len(nc.Args) == 1 {
						typ = typeName(nc.Args[0])
					}
					return true
				})
				if okn && typ != "" {
					c.fxRegistry = append(c.fxRegistry, [2]string{name, typ})
					found = true
				}
				return true
			})
			if !found {
				u.fail("openssh.%s: registration not recognised (%s)", fd.Name.Name, os.pos(fd))
			}
		}
	}
}

// nameUnmarshalShape: count, error check, [guard], literal with make, loop, return buf.Err.
func (c *codecX) nameUnmarshalShape(fd *ast.FuncDecl) bool {
	pi, u := c.x.fx, c.u
	want := []string{
		"count := buf.ConsumeCount()",
		"if buf.Err != nil { return buf.Err }",
		"*p = NamePacket{ Entries: make([]*NameEntry, 0, count), }",
		"for i := 0; i < count; i++ { var e NameEntry if err := e.UnmarshalFrom(buf); err != nil { return err } p.Entries = append(p.Entries, &e) }",
		"return buf.Err",
	}
	k := 0
	for _, s := range fd.Body.List {
		txt := pi.nodeText(s)
		if k < len(want) && txt == want[k] {
			k++
			continue
		}
		if _, isIf := s.(*ast.IfStmt); isIf && k == 2 && strings.Contains(pi.nodeText(s.(*ast.IfStmt).Cond), "count") {
			continue // a count guard; judged by countGuard
		}
		u.fail("NamePacket.UnmarshalPacketBody: unrecognised statement at %s: %s", pi.pos(s), txt)
		return false
	}
	if k != len(want) {
		u.fail("NamePacket.UnmarshalPacketBody: shape not recognised (%s)", pi.pos(fd))
		return false
	}
	return true
}

// initUnmarshal: `buf := NewBuffer(data); *p = T{Version: buf.ConsumeUint32()}; for buf.Len() > 0 {…}; return buf.Err|nil`.
func (c *codecX) initUnmarshal(t string, fd *ast.FuncDecl, pairSafe bool) ([]cfield, bool) {
	pi, u := c.x.fx, c.u
	st := fd.Body.List
	recv := recvVar(fd)
	if len(st) != 4 || pi.nodeText(st[0]) != "buf := NewBuffer(data)" {
		u.fail("%s.UnmarshalBinary: shape not recognised (%s)", t, pi.pos(fd))
		return nil, false
	}
	f, ok := c.parseFxLit(pi, t, st[1], recv, "buf", t)
	if !ok {
		u.fail("%s.UnmarshalBinary: second statement is not the literal (%s)", t, pi.pos(st[1]))
		return nil, false
	}
	loop := "for buf.Len() > 0 { var ext ExtensionPair if err := ext.UnmarshalFrom(buf); err != nil { return err } " + recv + ".Extensions = append(" + recv + ".Extensions, &ext) }"
	if pi.nodeText(st[2]) != loop {
		u.fail("%s.UnmarshalBinary: extension loop not recognised at %s: %s", t, pi.pos(st[2]), pi.nodeText(st[2]))
		return nil, false
	}
	switch pi.nodeText(st[3]) {
	case "return buf.Err":
	case "return nil":
		c.fxDropsErr = append(c.fxDropsErr, t)
	default:
		u.fail("%s.UnmarshalBinary: unrecognised return at %s", t, pi.pos(st[3]))
		return nil, false
	}
	return append(f, cfield{".pairs", "Extensions", pairSafe}), true
}

// ---- framing of the filexfer codec: readPacket, RawPacket.ReadFrom, RequestPacket.ReadFrom ----
//
// Recognised shape of readPacket(r, b, maxPacketLength) — a straight line of top-level statements:
//   [ if cap(b) < 4 { b = make([]byte, <constant>) } ]          constant-size scratch for the length word
//   if _, err := io.ReadFull(r, b[:4]); err != nil { return nil, err }
//   length := unmarshalUint32(b)
//   <length checks>                                              each a top-level `if` on length / int(length) without
//                                                                init/else, all of whose paths return (nil, Err{Short,Long}Packet):
//        if int(length) < K { [if int(length) < 0 { return nil, ErrLongPacket }] return nil, ErrShortPacket }
//        if length > maxPacketLength { return nil, ErrLongPacket }
//   [ if int(length) > cap(b) { b = make([]byte, length) } ]     nothing else inside
//   n, err := io.ReadFull(r, b[:length])
//   return b[:n], err
// The limit check counts only as a top-level statement BEFORE the first statement that allocates or reads
// `length` bytes: it then dominates them (no branch around it). A limit check anywhere else (e.g. inside the
// allocation branch) is a recorded failure and fxRecvLongCheck = false.

type fxRecvFacts struct {
	longCheck, limitIsParam, readsFull, allocGuarded, wrappersOK bool
	minLen, defaultMax                                           int64
	pos                                                          string
}

const canonFxReadFromRaw = "{ b, err := readPacket(r, b, maxPacketLength) if err != nil { return err } return p.UnmarshalFrom(NewBuffer(b)) }"

func (c *codecX) extractFxRecv() fxRecvFacts {
	pi, u := c.x.fx, c.u
	var r fxRecvFacts
	if v, ok := pi.constInt("DefaultMaxPacketLength"); ok {
		r.defaultMax = v
	} else {
		u.fail("filexfer.DefaultMaxPacketLength is not an integer constant")
	}
	fd := pi.funcDecl("readPacket")
	if fd == nil {
		u.fail("filexfer readPacket not found")
		return r
	}
	r.pos = pi.pos(fd)
	// signature: (r io.Reader, b []byte, maxPacketLength uint32)
	var params []string
	for _, f := range fd.Type.Params.List {
		for _, n := range f.Names {
			params = append(params, n.Name+" "+pi.nodeText(f.Type))
		}
	}
	if strings.Join(params, ", ") != "r io.Reader, b []byte, maxPacketLength uint32" {
		u.fail("filexfer readPacket: unexpected parameters (%s) at %s", strings.Join(params, ", "), r.pos)
		return r
	}
	// the limit parameter must not be assigned anywhere
	ast.Inspect(fd.Body, func(n ast.Node) bool {
		if as, ok := n.(*ast.AssignStmt); ok {
			for _, l := range as.Lhs {
				if isIdent(l, "maxPacketLength") || isIdent(l, "length") && as.Tok != token.DEFINE {
					u.fail("filexfer readPacket: %s is re-assigned at %s", pi.nodeText(l), pi.pos(as))
				}
			}
		}
		return true
	})
	stmts := fd.Body.List
	i := 0
	// optional scratch allocation of constant size
	if i < len(stmts) {
		if is, ok := stmts[i].(*ast.IfStmt); ok && is.Init == nil && is.Else == nil && pi.nodeText(is.Cond) == "cap(b) < 4" {
			okScratch := false
			if len(is.Body.List) == 1 {
				if as, ok := is.Body.List[0].(*ast.AssignStmt); ok && len(as.Lhs) == 1 && isIdent(as.Lhs[0], "b") && len(as.Rhs) == 1 {
					if call, ok := as.Rhs[0].(*ast.CallExpr); ok && isIdent(call.Fun, "make") && len(call.Args) == 2 && pi.nodeText(call.Args[0]) == "[]byte" {
						if v, ok := pi.exprInt(call.Args[1]); ok && v >= 4 && v <= 4096 {
							okScratch = true
						}
					}
				}
			}
			if !okScratch {
				u.fail("filexfer readPacket: scratch allocation is not `b = make([]byte, <constant 4..4096>)` at %s: %s", pi.pos(is), pi.nodeText(is))
			}
			i++
		}
	}
	if i >= len(stmts) || pi.nodeText(stmts[i]) != "if _, err := io.ReadFull(r, b[:4]); err != nil { return nil, err }" {
		u.fail("filexfer readPacket: header read not recognised (%s)", r.pos)
		return r
	}
	i++
	if i >= len(stmts) || pi.nodeText(stmts[i]) != "length := unmarshalUint32(b)" {
		u.fail("filexfer readPacket: `length := unmarshalUint32(b)` does not follow the header read (%s)", r.pos)
		return r
	}
	i++
	// usesLength: the statement allocates or reads a length-dependent amount
	touchesBody := func(s ast.Stmt) bool {
		found := false
		ast.Inspect(s, func(n ast.Node) bool {
			switch x := n.(type) {
			case *ast.CallExpr:
				if isIdent(x.Fun, "make") || strings.HasPrefix(pi.nodeText(x.Fun), "io.") || strings.Contains(pi.nodeText(x.Fun), "Read") {
					found = true
				}
			case *ast.SliceExpr:
				found = true
			}
			return true
		})
		return found
	}
	// allErrReturns: every path through the block ends in `return nil, Err…Packet`; only ifs on length and returns inside
	var allErrReturns func(b *ast.BlockStmt) bool
	allErrReturns = func(b *ast.BlockStmt) bool {
		if len(b.List) == 0 {
			return false
		}
		for k, s := range b.List {
			switch x := s.(type) {
			case *ast.IfStmt:
				if x.Init != nil || x.Else != nil || !strings.Contains(pi.nodeText(x.Cond), "length") || touchesBody(x) || !allErrReturns(x.Body) {
					return false
				}
			case *ast.ReturnStmt:
				if k != len(b.List)-1 || len(x.Results) != 2 || !isIdent(x.Results[0], "nil") ||
					!(isIdent(x.Results[1], "ErrLongPacket") || isIdent(x.Results[1], "ErrShortPacket")) {
					return false
				}
			default:
				return false
			}
		}
		_, lastIsRet := b.List[len(b.List)-1].(*ast.ReturnStmt)
		return lastIsRet
	}
	minSeen := false
	for ; i < len(stmts); i++ {
		is, ok := stmts[i].(*ast.IfStmt)
		if !ok || touchesBody(stmts[i]) {
			break
		}
		if is.Init != nil || is.Else != nil {
			u.fail("filexfer readPacket: length check with init/else at %s", pi.pos(is))
			continue
		}
		be, ok := is.Cond.(*ast.BinaryExpr)
		if !ok {
			u.fail("filexfer readPacket: unrecognised condition at %s: %s", pi.pos(is), pi.nodeText(is.Cond))
			continue
		}
		lhs, rhs := pi.nodeText(be.X), pi.nodeText(be.Y)
		switch {
		case lhs == "length" && be.Op == token.GTR && rhs == "maxPacketLength" && pi.nodeText(is.Body) == "{ return nil, ErrLongPacket }":
			if r.longCheck {
				u.fail("filexfer readPacket: second limit check at %s", pi.pos(is))
			}
			r.longCheck, r.limitIsParam = true, true
		case lhs == "int(length)" && be.Op == token.LSS && allErrReturns(is.Body):
			if v, ok := pi.exprInt(be.Y); ok && v >= 0 && !minSeen {
				r.minLen, minSeen = v, true
			} else {
				u.fail("filexfer readPacket: unrecognised minimum-length check at %s: %s", pi.pos(is), pi.nodeText(is))
			}
		default:
			u.fail("filexfer readPacket: unrecognised length check at %s: %s", pi.pos(is), pi.nodeText(is))
		}
	}
	// optional allocation branch: exactly `if int(length) > cap(b) { b = make([]byte, length) }`
	r.allocGuarded = true
	if i < len(stmts) {
		if is, ok := stmts[i].(*ast.IfStmt); ok {
			if pi.nodeText(is) == "if int(length) > cap(b) { b = make([]byte, length) }" {
				i++
			} else {
				r.allocGuarded = false
				u.fail("filexfer readPacket: allocation branch is not exactly `if int(length) > cap(b) { b = make([]byte, length) }` at %s: %s", pi.pos(is), pi.nodeText(is))
				i++
			}
		}
	}
	if i+2 == len(stmts) && pi.nodeText(stmts[i]) == "n, err := io.ReadFull(r, b[:length])" && pi.nodeText(stmts[i+1]) == "return b[:n], err" {
		r.readsFull = true
	} else {
		u.fail("filexfer readPacket: tail is not `n, err := io.ReadFull(r, b[:length]); return b[:n], err` (%s)", r.pos)
	}
	// any make / read of the body anywhere else in the function?
	nMake, nRead := 0, 0
	ast.Inspect(fd.Body, func(n ast.Node) bool {
		if call, ok := n.(*ast.CallExpr); ok {
			if isIdent(call.Fun, "make") {
				nMake++
			}
			if strings.HasPrefix(pi.nodeText(call.Fun), "io.") || strings.Contains(pi.nodeText(call.Fun), "Read") {
				nRead++
			}
		}
		return true
	})
	if nMake > 2 || nRead != 2 {
		u.fail("filexfer readPacket: %d make and %d read calls, expected at most 2 and exactly 2 (%s)", nMake, nRead, r.pos)
		r.readsFull = false
	}
	if !r.longCheck {
		u.fail("filexfer readPacket: no `if length > maxPacketLength { return nil, ErrLongPacket }` at top level before the body is allocated or read — the limit check does not dominate them (%s)", r.pos)
	}
	if !minSeen || r.minLen < 1 {
		u.fail("filexfer readPacket: no minimum-length check (a zero-length frame is not refused) (%s)", r.pos)
	}
	// the two exported wrappers pass buffer and limit through unchanged and deliver only on success
	r.wrappersOK = true
	for _, w := range []string{"RawPacket.ReadFrom", "RequestPacket.ReadFrom"} {
		wd := pi.funcDecl(w)
		if got := pi.bodyText(wd); got != canonFxReadFromRaw {
			r.wrappersOK = false
			u.fail("filexfer %s is not readPacket(r, b, maxPacketLength) + UnmarshalFrom on success: %s", w, got)
			continue
		}
		var ps []string
		for _, f := range wd.Type.Params.List {
			for _, n := range f.Names {
				ps = append(ps, n.Name+" "+pi.nodeText(f.Type))
			}
		}
		if strings.Join(ps, ", ") != "r io.Reader, b []byte, maxPacketLength uint32" {
			r.wrappersOK = false
			u.fail("filexfer %s: unexpected parameters (%s)", w, strings.Join(ps, ", "))
		}
	}
	return r
}

func (c *codecX) emitFxRecv() {
	u := c.u
	r := c.extractFxRecv()
	u.pf("\n-- source: internal/encoding/ssh/filexfer %s readPacket (RawPacket.ReadFrom, RequestPacket.ReadFrom)\n", r.pos)
	u.pf("-- `if length > maxPacketLength { return nil, ErrLongPacket }` is a top-level statement before any allocation/read of the body\n")
	u.pf("def fxRecvLongCheck : Bool := %s\n", leanBool(r.longCheck))
	u.pf("-- the limit is the caller's maxPacketLength, passed through unchanged by both ReadFrom wrappers\n")
	u.pf("def fxRecvLimitIsParam : Bool := %s\n", leanBool(r.limitIsParam && r.wrappersOK))
	u.pf("-- declared lengths below this are refused (type byte + request id); 0 if there is no such check\n")
	u.pf("def fxRecvMinLen : Nat := %d\n", r.minLen)
	u.pf("-- the body is allocated only as `if int(length) > cap(b) { b = make([]byte, length) }` after the checks\n")
	u.pf("def fxRecvAllocAfterChecks : Bool := %s\n", leanBool(r.allocGuarded && r.longCheck))
	u.pf("-- body read with io.ReadFull(r, b[:length]); its error is returned; the wrappers decode only on success\n")
	u.pf("def fxRecvReadsFull : Bool := %s\n", leanBool(r.readsFull && r.wrappersOK))
	u.pf("def fxDefaultMaxPacketLength : Nat := %d\n", r.defaultMax)
}
