package main

// Units SrvNilGuards (A), SrvCloseSites (B), SrvPages (C), SrvReaddir (D): source facts about the LIFETIME of the things a
// server session lends out, one generated file per part so that a broken tie is attributed to the properties it matters to
// (consumers: Props/C02NilGuards.lean, Props/C11CloseSites.lean, Props/C18Pages.lean, Props/C16ReaddirFit.lean).
//
//	A  request.go        nil guards of the request-server wrappers (fileget, fileput, fileputget, filelist …): every use of
//	                     the result of r.getReaderAt() / getWriterAt() / getWriterAtReaderAt() / getListerAt() is dominated by
//	                     `if v == nil { return statusFromError(…) }`; Request.open / opendir store the object only AFTER the
//	                     handler returned while packetWorker published the handle BEFORE it called them.
//	B  request-server.go who may close a *Request: every call of (*Request).close and of rs.closeRequest in the package,
//	                     with the ORIGIN of the value it is applied to (fresh | table | copyOfTable | packetHandle …).
//	C  packet-manager.go, packet.go, request.go, server.go, conn.go   allocator page lifetime: call sites of ReleasePages,
//	                     the key expression of every GetPage / getDataSlice / recvPacket / packetData / call … site
//	                     (order id or request id), where order ids are assigned, which request decoders alias the page.
//	D  server.go, packet.go, ls_formatting.go   READDIR batch, frame limit, cost of one NAME entry.
//
// Closed shapes only; anything else is a u.fail.  Helpers are local (prefix sl).

import (
	"go/ast"
	"go/token"
	"go/types"
	"sort"
	"strings"
)

func init() { extractors = append(extractors, extractSrvLifetimes) }

func extractSrvLifetimes(x *extractor) {
	pi := x.root
	for _, part := range []struct {
		unit string
		f    func(*pkgInfo, *unit)
	}{
		{"SrvNilGuards", slNilGuards},   // A
		{"SrvCloseSites", slCloseSites}, // B
		{"SrvPages", slPages},           // C
		{"SrvReaddir", slReaddir},       // D
	} {
		u := x.newUnit(part.unit)
		u.pf("namespace Sftp.G\n\n")
		part.f(pi, u)
		u.pf("end Sftp.G\n")
	}
}

// ---------------------------------------------------------------------------------------------------------------
// small helpers

func slFuncName(fd *ast.FuncDecl) string {
	if fd.Recv != nil && len(fd.Recv.List) == 1 {
		return recvName(fd.Recv.List[0].Type) + "." + fd.Name.Name
	}
	return fd.Name.Name
}

func slRecvIdent(fd *ast.FuncDecl) string {
	if fd.Recv != nil && len(fd.Recv.List) == 1 && len(fd.Recv.List[0].Names) == 1 {
		return fd.Recv.List[0].Names[0].Name
	}
	return ""
}

// slParams: the parameter names of a declaration, flattened, in order ("" for unnamed).
func slParams(fd *ast.FuncDecl) []*ast.Ident {
	var out []*ast.Ident
	if fd.Type.Params == nil {
		return out
	}
	for _, f := range fd.Type.Params.List {
		if len(f.Names) == 0 {
			out = append(out, nil)
		}
		for _, n := range f.Names {
			out = append(out, n)
		}
	}
	return out
}

func slEachFunc(pi *pkgInfo, f func(fd *ast.FuncDecl)) {
	for _, file := range pi.files {
		for _, d := range file.Decls {
			if fd, ok := d.(*ast.FuncDecl); ok && fd.Body != nil {
				f(fd)
			}
		}
	}
}

func slIsIdent(e ast.Expr, name string) bool {
	id, ok := e.(*ast.Ident)
	return ok && id.Name == name
}

func slMentions(n ast.Node, name string) bool {
	found := false
	ast.Inspect(n, func(m ast.Node) bool {
		if id, ok := m.(*ast.Ident); ok && id.Name == name {
			found = true
		}
		return !found
	})
	return found
}

func slContains(outer, inner ast.Node) bool {
	return outer.Pos() <= inner.Pos() && inner.End() <= outer.End()
}

// slLists: every statement list of a body (block, case / comm clause bodies), outermost first.
func slLists(body ast.Node) [][]ast.Stmt {
	var out [][]ast.Stmt
	ast.Inspect(body, func(n ast.Node) bool {
		switch t := n.(type) {
		case *ast.BlockStmt:
			out = append(out, t.List)
		case *ast.CaseClause:
			out = append(out, t.Body)
		case *ast.CommClause:
			out = append(out, t.Body)
		}
		return true
	})
	return out
}

func slTriples(rows [][3]string) string {
	parts := make([]string, len(rows))
	for i, r := range rows {
		parts[i] = "(" + leanStr(r[0]) + ", " + leanStr(r[1]) + ", " + leanStr(r[2]) + ")"
	}
	return "[" + strings.Join(parts, ",\n   ") + "]"
}

func slPairs(rows [][2]string) string {
	parts := make([]string, len(rows))
	for i, r := range rows {
		parts[i] = "(" + leanStr(r[0]) + ", " + leanStr(r[1]) + ")"
	}
	return "[" + strings.Join(parts, ",\n   ") + "]"
}

// slCallee: the declared function or method a call refers to (nil for conversions, closures, unresolved names).
func slCallee(pi *pkgInfo, c *ast.CallExpr) *types.Func {
	var id *ast.Ident
	switch f := c.Fun.(type) {
	case *ast.Ident:
		id = f
	case *ast.SelectorExpr:
		id = f.Sel
	default:
		return nil
	}
	fn, _ := pi.info.Uses[id].(*types.Func)
	return fn
}

// slRecvTypeName: name of the receiver's named type of a method object ("" for functions).
func slRecvTypeName(fn *types.Func) string {
	if fn == nil {
		return ""
	}
	sig, ok := fn.Type().(*types.Signature)
	if !ok || sig.Recv() == nil {
		return ""
	}
	t := sig.Recv().Type()
	if p, ok := t.(*types.Pointer); ok {
		t = p.Elem()
	}
	if n, ok := t.(*types.Named); ok {
		return n.Obj().Name()
	}
	return ""
}

func slCallName(c *ast.CallExpr) string {
	switch f := c.Fun.(type) {
	case *ast.Ident:
		return f.Name
	case *ast.SelectorExpr:
		return f.Sel.Name
	}
	return ""
}

// ---------------------------------------------------------------------------------------------------------------
// A. nil guards of the request-server wrappers

var slGetters = map[string]string{
	"getReaderAt": "readerAt", "getWriterAt": "writerAt", "getWriterAtReaderAt": "writerAtReaderAt", "getListerAt": "listerAt",
}
var slSetters = map[string]string{
	"setReaderAt": "readerAt", "setWriterAt": "writerAt", "setWriterAtReaderAt": "writerAtReaderAt", "setListerAt": "listerAt",
}

// slAccessorField: body of a state accessor as `lock…; return s.<field>` (getter) / `lock…; s.<field> = <param>` (setter).
func slAccessorField(pi *pkgInfo, name string, setter bool) (string, *ast.FuncDecl) {
	fd := pi.funcDecl("state." + name)
	if fd == nil || fd.Body == nil || len(fd.Body.List) == 0 {
		return "", fd
	}
	s := slRecvIdent(fd)
	if s == "" {
		return "", fd
	}
	list := fd.Body.List
	for _, st := range list[:len(list)-1] {
		switch pi.nodeText(st) {
		case s + ".mu.RLock()", "defer " + s + ".mu.RUnlock()", s + ".mu.Lock()", "defer " + s + ".mu.Unlock()":
		default:
			return "", fd
		}
	}
	last := list[len(list)-1]
	if setter {
		ps := slParams(fd)
		as, ok := last.(*ast.AssignStmt)
		if !ok || as.Tok != token.ASSIGN || len(as.Lhs) != 1 || len(as.Rhs) != 1 || len(ps) != 1 || ps[0] == nil || !slIsIdent(as.Rhs[0], ps[0].Name) {
			return "", fd
		}
		return strings.TrimPrefix(pi.nodeText(as.Lhs[0]), s+"."), fd
	}
	rt, ok := last.(*ast.ReturnStmt)
	if !ok || len(rt.Results) != 1 {
		return "", fd
	}
	return strings.TrimPrefix(pi.nodeText(rt.Results[0]), s+"."), fd
}

// slIsNilGuard: `if v == nil { return statusFromError(…) }` (no init, no else, nothing else in the body).
func slIsNilGuard(st ast.Stmt, v string) bool {
	is, ok := st.(*ast.IfStmt)
	if !ok || is.Init != nil || is.Else != nil || len(is.Body.List) != 1 {
		return false
	}
	be, ok := is.Cond.(*ast.BinaryExpr)
	if !ok || be.Op != token.EQL {
		return false
	}
	if !(slIsIdent(be.X, v) && slIsIdent(be.Y, "nil")) && !(slIsIdent(be.X, "nil") && slIsIdent(be.Y, v)) {
		return false
	}
	rt, ok := is.Body.List[0].(*ast.ReturnStmt)
	if !ok || len(rt.Results) != 1 {
		return false
	}
	c, ok := rt.Results[0].(*ast.CallExpr)
	return ok && slIsIdent(c.Fun, "statusFromError")
}

// slOnlyCommaOk: every mention of v inside n is the operand of a type assertion in a two-value definition
// (`c, ok := v.(T)`), which never panics on a nil interface.
func slOnlyCommaOk(n ast.Node, v string) bool {
	okUses := map[*ast.Ident]bool{}
	ast.Inspect(n, func(m ast.Node) bool {
		if as, ok := m.(*ast.AssignStmt); ok && len(as.Lhs) == 2 && len(as.Rhs) == 1 {
			if ta, ok := as.Rhs[0].(*ast.TypeAssertExpr); ok && ta.Type != nil {
				if id, ok := ta.X.(*ast.Ident); ok && id.Name == v {
					okUses[id] = true
				}
			}
		}
		return true
	})
	all := true
	ast.Inspect(n, func(m ast.Node) bool {
		if id, ok := m.(*ast.Ident); ok && id.Name == v && !okUses[id] {
			all = false
		}
		return true
	})
	return all
}

func slNilGuards(pi *pkgInfo, u *unit) {
	// accessors: each getter returns exactly the field its setter stores
	var acc [][2]string
	for _, g := range []string{"getReaderAt", "getWriterAt", "getWriterAtReaderAt", "getListerAt"} {
		f, fd := slAccessorField(pi, g, false)
		if f != slGetters[g] {
			u.fail("state.%s: body is not `lock; return s.%s` (%s)", g, slGetters[g], x10Pos(pi, fd))
		}
		acc = append(acc, [2]string{g, f})
	}
	for _, s := range []string{"setReaderAt", "setWriterAt", "setWriterAtReaderAt", "setListerAt"} {
		f, fd := slAccessorField(pi, s, true)
		if f != slSetters[s] {
			u.fail("state.%s: body is not `lock; s.%s = <param>` (%s)", s, slSetters[s], x10Pos(pi, fd))
		}
		acc = append(acc, [2]string{s, f})
	}
	u.pf("-- source: request.go state accessors (getter / setter, the field it returns / stores)\n")
	u.pf("def stateAccessors : List (String × String) :=\n  %s\n\n", slPairs(acc))

	// every getter call outside the methods of `state`
	type row struct {
		fn, getter string
		guarded    bool
		pos        token.Pos
	}
	var rows []row
	slEachFunc(pi, func(fd *ast.FuncDecl) {
		name := slFuncName(fd)
		if strings.HasPrefix(name, "state.") {
			return
		}
		var calls []*ast.CallExpr
		ast.Inspect(fd.Body, func(n ast.Node) bool {
			if c, ok := n.(*ast.CallExpr); ok {
				if sel, ok := c.Fun.(*ast.SelectorExpr); ok && (slGetters[sel.Sel.Name] != "" || sel.Sel.Name == "getAllReaderWriters") {
					calls = append(calls, c)
				}
			}
			// direct field access that bypasses the getters
			if sel, ok := n.(*ast.SelectorExpr); ok {
				switch sel.Sel.Name {
				case "readerAt", "writerAt", "writerAtReaderAt", "listerAt":
					rows = append(rows, row{name, "field:" + sel.Sel.Name, false, sel.Pos()})
					u.fail("%s: direct use of the state field %s outside the methods of state at %s", name, sel.Sel.Name, pi.pos(sel))
				}
			}
			return true
		})
		handled := map[*ast.CallExpr]bool{}
		for i, st := range fd.Body.List {
			as, ok := st.(*ast.AssignStmt)
			if !ok || as.Tok != token.DEFINE || len(as.Rhs) != 1 {
				continue
			}
			c, ok := as.Rhs[0].(*ast.CallExpr)
			if !ok || len(c.Args) != 0 {
				continue
			}
			sel, ok := c.Fun.(*ast.SelectorExpr)
			if !ok {
				continue
			}
			rest := fd.Body.List[i+1:]
			switch {
			case slGetters[sel.Sel.Name] != "" && len(as.Lhs) == 1:
				v, ok := as.Lhs[0].(*ast.Ident)
				if !ok || v.Name == "_" {
					continue
				}
				handled[c] = true
				guarded := false
				for _, r := range rest { // the first later statement that mentions v must be the guard
					if slMentions(r, v.Name) {
						guarded = slIsNilGuard(r, v.Name)
						break
					}
				}
				// v must keep the value it was tested with
				ast.Inspect(fd.Body, func(n ast.Node) bool {
					switch t := n.(type) {
					case *ast.AssignStmt:
						if t == as {
							return true
						}
						for _, l := range t.Lhs {
							if slIsIdent(l, v.Name) {
								guarded = false
								u.fail("%s: %s (result of %s) is assigned again at %s", name, v.Name, sel.Sel.Name, pi.pos(t))
							}
						}
					case *ast.UnaryExpr:
						if t.Op == token.AND && slIsIdent(t.X, v.Name) {
							guarded = false
							u.fail("%s: address of %s (result of %s) taken at %s", name, v.Name, sel.Sel.Name, pi.pos(t))
						}
					}
					return true
				})
				rows = append(rows, row{name, sel.Sel.Name, guarded, c.Pos()})
			case sel.Sel.Name == "getAllReaderWriters" && len(as.Lhs) == 3:
				handled[c] = true
				safe := true
				for _, l := range as.Lhs {
					v, ok := l.(*ast.Ident)
					if !ok {
						safe = false
						continue
					}
					if v.Name == "_" {
						continue
					}
					for _, r := range rest {
						if !slOnlyCommaOk(r, v.Name) {
							safe = false
						}
					}
				}
				rows = append(rows, row{name, sel.Sel.Name, safe, c.Pos()})
			}
		}
		for _, c := range calls {
			if !handled[c] {
				rows = append(rows, row{name, slCallName(c), false, c.Pos()})
				u.fail("%s: the result of %s is not bound by a top-level `v := r.%s()` at %s", name, slCallName(c), slCallName(c), pi.pos(c))
			}
		}
	})
	sort.SliceStable(rows, func(i, j int) bool { return rows[i].pos < rows[j].pos })
	var parts []string
	for _, r := range rows {
		parts = append(parts, "("+leanStr(r.fn)+", "+leanStr(r.getter)+", "+leanBool(r.guarded)+")")
	}
	if len(rows) == 0 {
		u.fail("no use of r.getReaderAt()/getWriterAt()/getWriterAtReaderAt()/getListerAt() found")
	}
	u.pf("-- source: request.go (every call of a state getter outside the methods of state; guarded = the first statement that\n")
	u.pf("--   mentions the result is `if v == nil { return statusFromError(…) }`; getAllReaderWriters: only `c, ok := v.(T)` uses)\n")
	u.pf("def wrapperNilGuards : List (String × String × Bool) :=\n  [%s]\n\n", strings.Join(parts, ",\n   "))

	// Request.open / opendir: r.Method = "…"; v, err := <handler>(r); …; r.setX(v)   in one statement list
	var stores []string
	storesOK := true
	for _, fname := range []string{"Request.open", "Request.opendir"} {
		fd := pi.funcDecl(fname)
		if fd == nil || fd.Body == nil {
			u.fail("%s not found", fname)
			storesOK = false
			continue
		}
		r := slRecvIdent(fd)
		n := 0
		for _, list := range slLists(fd.Body) {
			for j, st := range list {
				es, ok := st.(*ast.ExprStmt)
				if !ok {
					continue
				}
				c, ok := es.X.(*ast.CallExpr)
				if !ok || len(c.Args) != 1 {
					continue
				}
				sel, ok := c.Fun.(*ast.SelectorExpr)
				if !ok || slSetters[sel.Sel.Name] == "" || !slIsIdent(sel.X, r) {
					continue
				}
				n++
				v, ok := c.Args[0].(*ast.Ident)
				method, handler := "", ""
				k := -1
				if ok {
					for i := j - 1; i >= 0 && k < 0; i-- {
						if as, ok := list[i].(*ast.AssignStmt); ok && as.Tok == token.DEFINE && len(as.Rhs) == 1 && len(as.Lhs) >= 1 && slIsIdent(as.Lhs[0], v.Name) {
							if hc, ok := as.Rhs[0].(*ast.CallExpr); ok && len(hc.Args) == 1 && slIsIdent(hc.Args[0], r) {
								k, handler = i, exprString(hc.Fun)
							}
						}
					}
				}
				for i := k - 1; i >= 0 && method == ""; i-- {
					if as, ok := list[i].(*ast.AssignStmt); ok && as.Tok == token.ASSIGN && len(as.Lhs) == 1 && len(as.Rhs) == 1 && pi.nodeText(as.Lhs[0]) == r+".Method" {
						if s, ok := pi.exprStr(as.Rhs[0]); ok {
							method = s
						}
					}
				}
				if k < 0 || method == "" {
					storesOK = false
					u.fail("%s: `%s` is not preceded in its block by `%s.Method = \"…\"` and `v, err := <handler>(%s)` at %s", fname, pi.nodeText(st), r, r, pi.pos(st))
					continue
				}
				stores = append(stores, "("+leanStr(fname)+", "+leanStr(method)+", "+leanStr(handler)+", "+leanStr(sel.Sel.Name)+")")
			}
		}
		if n == 0 {
			storesOK = false
			u.fail("%s: no r.setReaderAt/setWriterAt/setWriterAtReaderAt/setListerAt call found (%s)", fname, pi.pos(fd))
		}
		// a setter anywhere else in the function (not a plain statement) is not a recognised shape
		cnt := 0
		ast.Inspect(fd.Body, func(m ast.Node) bool {
			if c, ok := m.(*ast.CallExpr); ok {
				if sel, ok := c.Fun.(*ast.SelectorExpr); ok && slSetters[sel.Sel.Name] != "" {
					cnt++
				}
			}
			return true
		})
		if cnt != n {
			storesOK = false
			u.fail("%s: a state setter is called outside a plain statement (%s)", fname, pi.pos(fd))
		}
	}
	u.pf("-- source: request.go Request.open / Request.opendir (function, r.Method set, handler called, setter called — in this order in one block)\n")
	u.pf("def objectStores : List (String × String × String × String) :=\n  [%s]\n\n", strings.Join(stores, ",\n   "))

	// packetWorker: handle := rs.nextRequest(request) in front of request.open / request.opendir
	var pubs [][3]string
	pubOK := true
	if pw := pi.funcDecl("RequestServer.packetWorker"); pw == nil || pw.Body == nil {
		u.fail("RequestServer.packetWorker not found")
		pubOK = false
	} else {
		for _, list := range slLists(pw.Body) {
			for j, st := range list {
				var oc *ast.CallExpr
				ast.Inspect(st, func(m ast.Node) bool {
					if c, ok := m.(*ast.CallExpr); ok {
						if sel, ok := c.Fun.(*ast.SelectorExpr); ok && (sel.Sel.Name == "open" || sel.Sel.Name == "opendir") && slRecvTypeName(slCallee(pi, c)) == "Request" {
							oc = c
						}
					}
					return oc == nil
				})
				if oc == nil {
					continue
				}
				if _, isBlockish := st.(*ast.AssignStmt); !isBlockish {
					continue // the enclosing compound statements are visited through their own lists
				}
				reqVar := exprString(oc.Fun.(*ast.SelectorExpr).X)
				before := "notBefore"
				for i := 0; i < j; i++ {
					if as, ok := list[i].(*ast.AssignStmt); ok && len(as.Rhs) == 1 {
						if c, ok := as.Rhs[0].(*ast.CallExpr); ok && slCallName(c) == "nextRequest" && len(c.Args) == 1 && exprString(c.Args[0]) == reqVar {
							before = "publishedBefore"
						}
					}
				}
				if before != "publishedBefore" {
					pubOK = false
				}
				pubs = append(pubs, [3]string{slCallName(oc), pi.nodeText(st), before})
			}
		}
		if len(pubs) != 2 {
			pubOK = false
			u.fail("packetWorker: expected exactly two statements `rpkt = request.open(…)` / `rpkt = request.opendir(…)`, found %d", len(pubs))
		}
	}
	nextStores := false
	if nr := pi.funcDecl("RequestServer.nextRequest"); nr != nil && nr.Body != nil {
		ps := slParams(nr)
		for _, st := range nr.Body.List {
			if as, ok := st.(*ast.AssignStmt); ok && as.Tok == token.ASSIGN && len(as.Lhs) == 1 && len(as.Rhs) == 1 && len(ps) == 1 && ps[0] != nil {
				if ix, ok := as.Lhs[0].(*ast.IndexExpr); ok && strings.HasSuffix(exprString(ix.X), ".openRequests") && slIsIdent(as.Rhs[0], ps[0].Name) {
					nextStores = true
				}
			}
		}
	}
	if !nextStores {
		u.fail("RequestServer.nextRequest: does not store its argument in rs.openRequests")
	}
	u.pf("-- source: request-server.go packetWorker (which call, the statement, whether `handle := rs.nextRequest(request)` stands before it)\n")
	u.pf("def publishSites : List (String × String × String) :=\n  %s\n\n", slTriples(pubs))
	u.pf("/-- the handle is in rs.openRequests (nextRequest) and r.Method is set BEFORE the handler's Fileread / Filewrite / OpenFile /\nFilelist is called; the reader / writer / lister is stored only AFTER it returned -/\n")
	u.pf("def handlePublishedBeforeObjectStored : Bool := %s\n\n", leanBool(storesOK && pubOK && nextStores && len(stores) > 0))
}

// ---------------------------------------------------------------------------------------------------------------
// B. who closes a *Request

type slEnv map[string]string

func (e slEnv) clone() slEnv {
	c := slEnv{}
	for k, v := range e {
		c[k] = v
	}
	return c
}

func slMerge(a, b slEnv) slEnv {
	out := slEnv{}
	for k, v := range a {
		if w, ok := b[k]; ok && w != v {
			out[k] = "mixed"
		} else {
			out[k] = v
		}
	}
	for k, v := range b {
		if _, ok := a[k]; !ok {
			out[k] = v
		}
	}
	return out
}

type slCloseWalker struct {
	pi       *pkgInfo
	u        *unit
	fn       string
	label    string   // fn, or fn:<case types> inside packetWorker's request switch
	ifs      []string // "init; cond" of the enclosing if statements (then-branches only)
	mainSw   *ast.TypeSwitchStmt
	sites    *[][3]string
	sitePos  *[]token.Pos
	deferred bool
}

func slTitle(s string) string {
	if s == "" {
		return s
	}
	return strings.ToUpper(s[:1]) + s[1:]
}

// origin of the value of an expression, "" when it is not a *Request / handle we follow
func (w *slCloseWalker) origin(e ast.Expr, env slEnv) string {
	switch t := e.(type) {
	case *ast.ParenExpr:
		return w.origin(t.X, env)
	case *ast.Ident:
		return env[t.Name]
	case *ast.UnaryExpr:
		if t.Op == token.AND {
			if cl, ok := t.X.(*ast.CompositeLit); ok && typeName(cl.Type) == "Request" {
				for _, el := range cl.Elts {
					kv, ok := el.(*ast.KeyValueExpr)
					if !ok {
						return "literalSharingState"
					}
					switch exprString(kv.Key) {
					case "Method", "Filepath", "Flags", "Attrs", "Target":
					default:
						return "literalSharingState"
					}
				}
				return "fresh"
			}
		}
	case *ast.IndexExpr:
		if strings.HasSuffix(exprString(t.X), ".openRequests") {
			return "table"
		}
	case *ast.CallExpr:
		switch slCallName(t) {
		case "requestFromPacket", "NewRequest":
			if _, ok := t.Fun.(*ast.Ident); ok {
				return "fresh"
			}
		case "getRequest":
			return "table"
		case "copy", "WithContext":
			if sel, ok := t.Fun.(*ast.SelectorExpr); ok {
				if o := w.origin(sel.X, env); o != "" {
					return "copyOf" + slTitle(o)
				}
			}
		case "nextRequest":
			return "newHandle"
		case "getHandle":
			return "packetHandle"
		}
	}
	return ""
}

func (w *slCloseWalker) site(origin, call string, pos token.Pos) {
	if w.deferred {
		call = "defer " + call
	}
	*w.sites = append(*w.sites, [3]string{w.label, origin, call})
	*w.sitePos = append(*w.sitePos, pos)
}

func (w *slCloseWalker) inFailedOpen() bool {
	for _, c := range w.ifs {
		if c == "_, ok := rpkt.(*sshFxpHandlePacket); !ok" {
			return true
		}
	}
	return false
}

// calls: record the close calls inside an expression / simple statement
func (w *slCloseWalker) calls(n ast.Node, env slEnv) {
	if n == nil {
		return
	}
	ast.Inspect(n, func(m ast.Node) bool {
		if fl, ok := m.(*ast.FuncLit); ok {
			w.stmts(fl.Body.List, env.clone())
			return false
		}
		c, ok := m.(*ast.CallExpr)
		if !ok {
			return true
		}
		sel, ok := c.Fun.(*ast.SelectorExpr)
		if !ok {
			return true
		}
		name := sel.Sel.Name
		callee := slCallee(w.pi, c)
		recvT := slRecvTypeName(callee)
		switch {
		case name == "closeRequest":
			o := "other"
			if len(c.Args) == 1 {
				if oo := w.origin(c.Args[0], env); oo != "" {
					o = oo
				}
			}
			if o == "newHandle" && w.inFailedOpen() {
				o = "newHandleOnFailedOpen"
			}
			w.site(o, "closeRequest", c.Pos())
		case name == "close" && (recvT == "Request" || (callee == nil && w.origin(sel.X, env) != "")):
			o := w.origin(sel.X, env)
			if o == "" {
				o = "other"
			}
			w.site(o, "close", c.Pos())
		case strings.Contains(strings.ToLower(name), "close") && name != "close":
			// closeListerAt, Close … on (a part of) a value we follow
			root := sel.X
			for {
				if s2, ok := root.(*ast.SelectorExpr); ok {
					root = s2.X
					continue
				}
				break
			}
			if o := w.origin(root, env); o != "" && o != "newHandle" && o != "packetHandle" {
				w.site(o, "part:"+name, c.Pos())
			}
		}
		return true
	})
}

func (w *slCloseWalker) assign(lhs []ast.Expr, rhs []ast.Expr, env slEnv) {
	for _, r := range rhs {
		w.calls(r, env)
	}
	set := func(l ast.Expr, o string) {
		id, ok := l.(*ast.Ident)
		if !ok || id.Name == "_" {
			return
		}
		if o != "" {
			env[id.Name] = o
		} else if _, tracked := env[id.Name]; tracked {
			env[id.Name] = "other"
		}
	}
	switch {
	case len(lhs) == len(rhs):
		os := make([]string, len(rhs))
		for i, r := range rhs {
			os[i] = w.origin(r, env)
		}
		for i, l := range lhs {
			set(l, os[i])
		}
	case len(rhs) == 1 && len(lhs) >= 1:
		set(lhs[0], w.origin(rhs[0], env))
		for _, l := range lhs[1:] {
			set(l, "")
		}
	}
}

func (w *slCloseWalker) stmts(list []ast.Stmt, env slEnv) slEnv {
	for _, s := range list {
		env = w.stmt(s, env)
	}
	return env
}

func (w *slCloseWalker) stmt(s ast.Stmt, env slEnv) slEnv {
	switch t := s.(type) {
	case nil:
		return env
	case *ast.AssignStmt:
		w.assign(t.Lhs, t.Rhs, env)
	case *ast.DeclStmt:
		if gd, ok := t.Decl.(*ast.GenDecl); ok {
			for _, sp := range gd.Specs {
				if vs, ok := sp.(*ast.ValueSpec); ok && len(vs.Values) > 0 {
					lhs := make([]ast.Expr, len(vs.Names))
					for i, n := range vs.Names {
						lhs[i] = n
					}
					w.assign(lhs, vs.Values, env)
				}
			}
		}
	case *ast.BlockStmt:
		return w.stmts(t.List, env)
	case *ast.IfStmt:
		env = w.stmt(t.Init, env)
		w.calls(t.Cond, env)
		desc := w.pi.nodeText(t.Cond)
		if t.Init != nil {
			desc = w.pi.nodeText(t.Init) + "; " + desc
		}
		w.ifs = append(w.ifs, desc)
		e1 := w.stmts(t.Body.List, env.clone())
		w.ifs = w.ifs[:len(w.ifs)-1]
		e2 := env
		if t.Else != nil {
			e2 = w.stmt(t.Else, env.clone())
		}
		return slMerge(e1, e2)
	case *ast.ForStmt:
		env = w.stmt(t.Init, env)
		w.calls(t.Cond, env)
		e1 := w.stmts(t.Body.List, env.clone())
		e1 = w.stmt(t.Post, e1)
		return slMerge(e1, env)
	case *ast.RangeStmt:
		w.calls(t.X, env)
		e1 := env.clone()
		if t.Value != nil {
			if id, ok := t.Value.(*ast.Ident); ok && strings.HasSuffix(exprString(t.X), ".openRequests") {
				e1[id.Name] = "table"
			}
		}
		e1 = w.stmts(t.Body.List, e1)
		return slMerge(e1, env)
	case *ast.SwitchStmt:
		env = w.stmt(t.Init, env)
		w.calls(t.Tag, env)
		return w.clauses(t.Body.List, env, false)
	case *ast.TypeSwitchStmt:
		env = w.stmt(t.Init, env)
		return w.clauses(t.Body.List, env, t == w.mainSw)
	case *ast.SelectStmt:
		out := env
		for _, c := range t.Body.List {
			cc := c.(*ast.CommClause)
			e1 := w.stmt(cc.Comm, env.clone())
			out = slMerge(out, w.stmts(cc.Body, e1))
		}
		return out
	case *ast.LabeledStmt:
		return w.stmt(t.Stmt, env)
	case *ast.DeferStmt:
		w.deferred = true
		w.calls(t.Call, env)
		w.deferred = false
	case *ast.GoStmt:
		w.calls(t.Call, env)
	default:
		w.calls(s, env)
	}
	return env
}

func (w *slCloseWalker) clauses(list []ast.Stmt, env slEnv, main bool) slEnv {
	var out slEnv
	hasDefault := false
	for _, c := range list {
		cc := c.(*ast.CaseClause)
		if cc.List == nil {
			hasDefault = true
		}
		saved := w.label
		if main {
			var names []string
			for _, e := range cc.List {
				names = append(names, exprString(e))
			}
			if cc.List == nil {
				names = []string{"default"}
			}
			w.label = w.fn + ":" + strings.Join(names, ",")
		} else {
			for _, e := range cc.List {
				w.calls(e, env)
			}
		}
		e1 := w.stmts(cc.Body, env.clone())
		w.label = saved
		if out == nil {
			out = e1
		} else {
			out = slMerge(out, e1)
		}
	}
	if out == nil {
		return env
	}
	if !hasDefault {
		out = slMerge(out, env)
	}
	return out
}

// slAllowedCloseSite mirrors Sftp.C11Lifetimes.allowedSite (the Lean side recomputes it from the table).
func slAllowedCloseSite(r [3]string) bool {
	isCloseReq := r[2] == "closeRequest"
	switch {
	case r[1] == "fresh" && r[2] == "close":
		return true
	case r[1] == "newHandleOnFailedOpen" && isCloseReq:
		return true
	case r[1] == "packetHandle" && isCloseReq && r[0] == "RequestServer.packetWorker:*sshFxpClosePacket":
		return true
	case r[1] == "table" && r[2] == "close" && (r[0] == "RequestServer.closeRequest" || r[0] == "RequestServer.Serve"):
		return true
	}
	return false
}

func slCloseSites(pi *pkgInfo, u *unit) {
	var sites [][3]string
	var poss []token.Pos
	foundMain := false
	slEachFunc(pi, func(fd *ast.FuncDecl) {
		name := slFuncName(fd)
		if name == "Request.close" {
			return // the definition itself
		}
		w := &slCloseWalker{pi: pi, u: u, fn: name, label: name, sites: &sites, sitePos: &poss}
		env := slEnv{}
		isReq := func(e ast.Expr) bool { return typeName(e) == "Request" }
		if fd.Recv != nil && len(fd.Recv.List) == 1 && isReq(fd.Recv.List[0].Type) {
			if r := slRecvIdent(fd); r != "" {
				env[r] = "receiver"
			}
		}
		if fd.Type.Params != nil {
			for _, f := range fd.Type.Params.List {
				if isReq(f.Type) {
					for _, n := range f.Names {
						env[n.Name] = "param"
					}
				}
			}
		}
		if name == "RequestServer.packetWorker" {
			ast.Inspect(fd.Body, func(n ast.Node) bool {
				ts, ok := n.(*ast.TypeSwitchStmt)
				if !ok {
					return true
				}
				if strings.HasSuffix(pi.nodeText(ts.Assign), ".requestPacket.(type)") {
					if w.mainSw != nil {
						u.fail("packetWorker: more than one type switch over pkt.requestPacket at %s", pi.pos(ts))
					}
					w.mainSw = ts
				}
				return true
			})
			if w.mainSw == nil {
				u.fail("packetWorker: type switch over pkt.requestPacket not found")
			} else {
				foundMain = true
			}
		}
		w.stmts(fd.Body.List, env)
	})
	// source order
	idx := make([]int, len(sites))
	for i := range idx {
		idx[i] = i
	}
	sort.SliceStable(idx, func(a, b int) bool { return poss[idx[a]] < poss[idx[b]] })
	ordered := make([][3]string, len(sites))
	all := foundMain && len(sites) > 0
	for i, j := range idx {
		ordered[i] = sites[j]
		if !slAllowedCloseSite(sites[j]) {
			all = false
		}
	}
	// the handle-bearing cases that must NOT close: record how FSTAT / FSETSTAT obtain the request they call
	var callers [][3]string
	if pw := pi.funcDecl("RequestServer.packetWorker"); pw != nil && pw.Body != nil {
		sl2 := &slCallOrigins{pi: pi, rows: &callers}
		sl2.run(pw)
	}
	u.pf("-- source: request-server.go, request.go (every call of (*Request).close / rs.closeRequest / Close of a part of a request\n")
	u.pf("--   in the package: where (function[:case of packetWorker's switch]), origin of the receiver / handle, what is called:\n")
	u.pf("--   close = (*Request).close, closeRequest = rs.closeRequest, part:<name> = a closing method of a part of a request; `defer ` in front)\n")
	u.pf("def closeSites : List (String × String × String) :=\n  %s\n\n", slTriples(ordered))
	u.pf("-- source: request-server.go packetWorker (case, origin of the request, the `<request>.call(…)` it serves the packet with)\n")
	u.pf("def callSites : List (String × String × String) :=\n  %s\n\n", slTriples(callers))
	u.pf("/-- a request that is (or shares its objects with) an entry of rs.openRequests is closed only by the CLOSE case\n(through closeRequest), by a failing OPEN / OPENDIR, or by Serve's final sweep -/\n")
	u.pf("def liveRequestClosedOnlyByClose : Bool := %s\n\n", leanBool(all))
}

// slCallOrigins: for every `<x>.call(…)` in packetWorker, the case and the origin of x (same flow rules as the close walker).
type slCallOrigins struct {
	pi   *pkgInfo
	rows *[][3]string
}

func (s *slCallOrigins) run(fd *ast.FuncDecl) {
	var sites [][3]string
	var poss []token.Pos
	w := &slCloseWalker{pi: s.pi, fn: "packetWorker", label: "packetWorker", sites: &sites, sitePos: &poss}
	ast.Inspect(fd.Body, func(n ast.Node) bool {
		if ts, ok := n.(*ast.TypeSwitchStmt); ok && strings.HasSuffix(s.pi.nodeText(ts.Assign), ".requestPacket.(type)") {
			w.mainSw = ts
		}
		return true
	})
	if w.mainSw == nil {
		return
	}
	// walk each clause with the close walker's environment, but collect `.call(` receivers
	for _, c := range w.mainSw.Body.List {
		cc := c.(*ast.CaseClause)
		var names []string
		for _, e := range cc.List {
			names = append(names, exprString(e))
		}
		if cc.List == nil {
			names = []string{"default"}
		}
		label := strings.Join(names, ",")
		s.walk(w, cc.Body, slEnv{}, label)
	}
}

func (s *slCallOrigins) walk(w *slCloseWalker, list []ast.Stmt, env slEnv, label string) slEnv {
	for _, st := range list {
		// record calls in this statement's own expressions (not in nested blocks, which are walked below)
		record := func(n ast.Node, env slEnv) {
			if n == nil {
				return
			}
			ast.Inspect(n, func(m ast.Node) bool {
				if _, ok := m.(*ast.BlockStmt); ok {
					return false
				}
				if c, ok := m.(*ast.CallExpr); ok {
					if sel, ok := c.Fun.(*ast.SelectorExpr); ok && sel.Sel.Name == "call" && slRecvTypeName(slCallee(s.pi, c)) == "Request" {
						o := w.origin(sel.X, env)
						if o == "" {
							o = "other"
						}
						*s.rows = append(*s.rows, [3]string{label, o, exprString(sel.X) + ".call"})
					}
				}
				return true
			})
		}
		switch t := st.(type) {
		case *ast.IfStmt:
			if t.Init != nil {
				env = s.walk(w, []ast.Stmt{t.Init}, env, label)
			}
			record(t.Cond, env)
			e1 := s.walk(w, t.Body.List, env.clone(), label)
			e2 := env
			if t.Else != nil {
				e2 = s.walk(w, []ast.Stmt{t.Else}, env.clone(), label)
			}
			env = slMerge(e1, e2)
		case *ast.BlockStmt:
			env = s.walk(w, t.List, env, label)
		case *ast.AssignStmt:
			// the right-hand side is evaluated with the old environment
			for _, r := range t.Rhs {
				record(r, env)
			}
			quiet := &slCloseWalker{pi: s.pi, sites: &[][3]string{}, sitePos: &[]token.Pos{}}
			quiet.assign(t.Lhs, t.Rhs, env)
		default:
			record(st, env)
			// nested statement lists of other compound statements
			switch t := st.(type) {
			case *ast.ForStmt:
				env = slMerge(s.walk(w, t.Body.List, env.clone(), label), env)
			case *ast.RangeStmt:
				env = slMerge(s.walk(w, t.Body.List, env.clone(), label), env)
			case *ast.SwitchStmt:
				for _, c := range t.Body.List {
					env = slMerge(s.walk(w, c.(*ast.CaseClause).Body, env.clone(), label), env)
				}
			case *ast.TypeSwitchStmt:
				for _, c := range t.Body.List {
					env = slMerge(s.walk(w, c.(*ast.CaseClause).Body, env.clone(), label), env)
				}
			}
		}
	}
	return env
}

// ---------------------------------------------------------------------------------------------------------------
// C. allocator page lifetime

// slKeyClass classifies the expression that is passed as the allocator key.
func slKeyClass(pi *pkgInfo, fd *ast.FuncDecl, keyParam map[*types.Func]int, e ast.Expr, depth int) string {
	if depth > 4 {
		return "other"
	}
	switch t := e.(type) {
	case *ast.ParenExpr:
		return slKeyClass(pi, fd, keyParam, t.X, depth+1)
	case *ast.BasicLit:
		if v, ok := pi.exprInt(t); ok && v == 0 {
			r := ""
			if fd.Recv != nil && len(fd.Recv.List) == 1 {
				r = recvName(fd.Recv.List[0].Type)
			}
			if r == "Client" || r == "clientConn" {
				return "clientZero"
			}
		}
		return "other"
	case *ast.CallExpr:
		if len(t.Args) == 0 {
			switch slCallName(t) {
			case "orderID", "getNextOrderID":
				return "orderID"
			case "id":
				return "requestID"
			}
		}
		return "other"
	case *ast.SelectorExpr:
		if t.Sel.Name == "ID" {
			return "requestID"
		}
		return "other"
	case *ast.Ident:
		obj := pi.info.Uses[t]
		if obj == nil {
			return "other"
		}
		// a parameter of the enclosing function that is itself an allocator-key parameter: checked at ITS callers
		if me, _ := pi.info.Defs[fd.Name].(*types.Func); me != nil {
			if k, ok := keyParam[me]; ok {
				ps := slParams(fd)
				if k < len(ps) && ps[k] != nil && pi.info.Defs[ps[k]] == obj {
					return "orderID"
				}
			}
		}
		// a local variable with exactly one definition
		var defs []ast.Expr
		n := 0
		ast.Inspect(fd.Body, func(m ast.Node) bool {
			as, ok := m.(*ast.AssignStmt)
			if !ok {
				return true
			}
			for i, l := range as.Lhs {
				id, ok := l.(*ast.Ident)
				if !ok {
					continue
				}
				if pi.info.Defs[id] == obj || pi.info.Uses[id] == obj {
					n++
					if len(as.Lhs) == len(as.Rhs) {
						defs = append(defs, as.Rhs[i])
					}
				}
			}
			return true
		})
		if n == 1 && len(defs) == 1 {
			return slKeyClass(pi, fd, keyParam, defs[0], depth+1)
		}
		return "other"
	}
	return "other"
}

func slPages(pi *pkgInfo, u *unit) {
	// key parameters: GetPage / ReleasePages take the key at 0; a function that passes one of its own parameters on as a key
	// has a key parameter itself (fixpoint), so that its callers are classified in turn.
	keyParam := map[*types.Func]int{}
	for _, n := range []string{"allocator.GetPage", "allocator.ReleasePages"} {
		fd := pi.funcDecl(n)
		if fd == nil {
			u.fail("%s not found", n)
			continue
		}
		if fn, ok := pi.info.Defs[fd.Name].(*types.Func); ok {
			keyParam[fn] = 0
		}
	}
	for changed, rounds := true, 0; changed && rounds < 10; rounds++ {
		changed = false
		slEachFunc(pi, func(fd *ast.FuncDecl) {
			me, _ := pi.info.Defs[fd.Name].(*types.Func)
			if me == nil {
				return
			}
			ps := slParams(fd)
			ast.Inspect(fd.Body, func(n ast.Node) bool {
				c, ok := n.(*ast.CallExpr)
				if !ok {
					return true
				}
				k, ok := keyParam[slCallee(pi, c)]
				if !ok || k >= len(c.Args) {
					return true
				}
				id, ok := c.Args[k].(*ast.Ident)
				if !ok {
					return true
				}
				for j, p := range ps {
					if p != nil && pi.info.Defs[p] == pi.info.Uses[id] {
						if old, ok := keyParam[me]; ok && old != j {
							u.fail("%s: two different parameters are used as allocator keys (%s)", slFuncName(fd), pi.pos(c))
						} else if !ok {
							keyParam[me] = j
							changed = true
						}
					}
				}
				return true
			})
		})
	}

	var keys, rels [][3]string
	var relGuards []string
	allKeys := true
	relAfter := true
	relMatches := false
	// a call by NAME of a key-taking function that the type checker could not resolve is not a recognised shape
	keyNames := map[string]bool{}
	for fn := range keyParam {
		keyNames[fn.Name()] = true
	}
	slEachFunc(pi, func(fd *ast.FuncDecl) {
		name := slFuncName(fd)
		inAlloc := strings.HasPrefix(name, "allocator.")
		ast.Inspect(fd.Body, func(n ast.Node) bool {
			c, ok := n.(*ast.CallExpr)
			if !ok {
				return true
			}
			callee := slCallee(pi, c)
			k, isKey := keyParam[callee]
			if !isKey {
				if callee == nil && keyNames[slCallName(c)] && slCallName(c) != "call" {
					u.fail("%s: cannot resolve the call %s at %s", name, pi.nodeText(c.Fun), pi.pos(c))
					allKeys = false
				}
				return true
			}
			if inAlloc || k >= len(c.Args) {
				return true
			}
			class := slKeyClass(pi, fd, keyParam, c.Args[k], 0)
			if class != "orderID" && class != "clientZero" {
				allKeys = false
			}
			keys = append(keys, [3]string{name, exprString(c.Fun) + "(" + pi.nodeText(c.Args[k]) + ")", class})
			if callee.Name() == "ReleasePages" {
				// afterSendPacket: in some statement list of the function an earlier statement of the same list is a plain
				// `<…>.sendPacket(…)` call and a later one contains this call
				pos := "notAfterSend"
				var conds []string
				sent := "" // the variable whose packet the preceding sendPacket wrote
				for _, list := range slLists(fd.Body) {
					for i, st := range list {
						if !slContains(st, c) {
							continue
						}
						for _, prev := range list[:i] {
							if es, ok := prev.(*ast.ExprStmt); ok {
								if pc, ok := es.X.(*ast.CallExpr); ok && slCallName(pc) == "sendPacket" && strings.HasSuffix(exprString(pc.Fun), ".sender.sendPacket") && len(pc.Args) == 1 {
									pos = "afterSendPacket"
									a := pc.Args[0]
									if ta, ok := a.(*ast.TypeAssertExpr); ok {
										a = ta.X
									}
									sent = exprString(a)
								}
							}
						}
					}
				}
				// the released key is `X.orderID()` and an enclosing condition is `X.orderID() == <sent>.orderID()` (either way round)
				keyRecv := ""
				if kc, ok := c.Args[k].(*ast.CallExpr); ok && slCallName(kc) == "orderID" {
					if sel, ok := kc.Fun.(*ast.SelectorExpr); ok {
						keyRecv = exprString(sel.X)
					}
				}
				ast.Inspect(fd.Body, func(m ast.Node) bool {
					if is, ok := m.(*ast.IfStmt); ok && slContains(is.Body, c) {
						conds = append(conds, pi.nodeText(is.Cond))
						if be, ok := is.Cond.(*ast.BinaryExpr); ok && be.Op == token.EQL && keyRecv != "" && sent != "" {
							l, r := pi.nodeText(be.X), pi.nodeText(be.Y)
							a, b := keyRecv+".orderID()", sent+".orderID()"
							if (l == a && r == b) || (l == b && r == a) {
								relMatches = true
							}
						}
					}
					return true
				})
				rels = append(rels, [3]string{name, pi.nodeText(c), pos})
				relGuards = append(relGuards, strings.Join(conds, " && "))
				if pos != "afterSendPacket" || name != "packetManager.maybeSendPackets" {
					relAfter = false
				}
			}
			return true
		})
	})
	if len(rels) != 1 {
		relAfter = false
	}
	if len(keys) == 0 {
		allKeys = false
		u.fail("no allocator key site found")
	}
	u.pf("-- source: every call of (*allocator).ReleasePages outside allocator.go (function, call, position)\n")
	u.pf("def releaseSites : List (String × String × String) :=\n  %s\n", slTriples(rels))
	u.pf("/-- the conditions of the if statements around each release site -/\n")
	u.pf("def releaseGuards : List String := %s\n\n", leanStrList(relGuards))
	u.pf("-- source: every call that passes an allocator key (GetPage, ReleasePages and the functions that hand a parameter on to them):\n")
	u.pf("--   (function, call(key expression), class of the key: orderID | requestID | clientZero | other)\n")
	u.pf("def pageKeySites : List (String × String × String) :=\n  %s\n\n", slTriples(keys))
	u.pf("def releaseOnlyAfterSend : Bool := %s\n", leanBool(relAfter))
	u.pf("/-- the released key is the order id of the head request, tested equal to the order id of the response just sent -/\n")
	u.pf("def releaseKeyMatchesSent : Bool := %s\n", leanBool(relMatches && len(rels) == 1))
	u.pf("def allPageKeysAreOrderIds : Bool := %s\n\n", leanBool(allKeys))

	// where order ids come from
	var oids [][2]string
	slEachFunc(pi, func(fd *ast.FuncDecl) {
		name := slFuncName(fd)
		ast.Inspect(fd.Body, func(n ast.Node) bool {
			switch t := n.(type) {
			case *ast.CallExpr:
				switch slCallName(t) {
				case "newOrderID", "newOrderedRequest", "getNextOrderID":
					oids = append(oids, [2]string{name, slCallName(t)})
				}
			case *ast.AssignStmt:
				for _, l := range t.Lhs {
					if sel, ok := l.(*ast.SelectorExpr); ok && sel.Sel.Name == "orderid" {
						oids = append(oids, [2]string{name, "assign:" + pi.nodeText(t)})
					}
				}
			case *ast.IncDecStmt:
				if sel, ok := t.X.(*ast.SelectorExpr); ok && sel.Sel.Name == "orderid" {
					oids = append(oids, [2]string{name, "assign:" + pi.nodeText(t)})
				}
			}
			return true
		})
	})
	newReq := false
	if ok, _ := x10BodyIs(pi, "packetManager.newOrderedRequest", "return orderedRequest{requestPacket: p, orderid: s.newOrderID()}"); ok {
		newReq = true
	} else if fd := pi.funcDecl("packetManager.newOrderedRequest"); fd != nil && fd.Body != nil && len(fd.Body.List) == 1 {
		// modulo the names of the receiver and the parameter
		if rt, ok := fd.Body.List[0].(*ast.ReturnStmt); ok && len(rt.Results) == 1 {
			if cl, ok := rt.Results[0].(*ast.CompositeLit); ok && typeName(cl.Type) == "orderedRequest" {
				for _, el := range cl.Elts {
					if kv, ok := el.(*ast.KeyValueExpr); ok && exprString(kv.Key) == "orderid" {
						if c, ok := kv.Value.(*ast.CallExpr); ok && slCallName(c) == "newOrderID" && len(c.Args) == 0 {
							newReq = true
						}
					}
				}
			}
		}
	}
	getters := true
	for _, t := range []string{"orderedRequest.orderID", "orderedResponse.orderID"} {
		fd := pi.funcDecl(t)
		if fd == nil || fd.Body == nil || len(fd.Body.List) != 1 || pi.nodeText(fd.Body.List[0]) != "return "+slRecvIdent(fd)+".orderid" {
			getters = false
			u.fail("%s: body is not `return p.orderid`", t)
		}
	}
	// in each receive loop: recvPacket(getNextOrderID()) before newOrderedRequest, in one loop body
	loops := true
	for _, fn := range []string{"Server.Serve", "RequestServer.serveLoop"} {
		fd := pi.funcDecl(fn)
		ok := false
		if fd != nil && fd.Body != nil {
			for _, st := range fd.Body.List {
				fs, isFor := st.(*ast.ForStmt)
				if !isFor {
					continue
				}
				recvAt, newAt := -1, -1
				for i, b := range fs.Body.List {
					txt := pi.nodeText(b)
					if recvAt < 0 && strings.Contains(txt, ".recvPacket(") && strings.Contains(txt, ".getNextOrderID())") {
						recvAt = i
					}
					if newAt < 0 && strings.Contains(txt, ".newOrderedRequest(") {
						newAt = i
					}
				}
				if recvAt >= 0 && newAt > recvAt {
					ok = true
				}
			}
		}
		if !ok {
			loops = false
		}
	}
	want := [][2]string{
		{"packetManager.newOrderedRequest", "newOrderID"},
		{"RequestServer.serveLoop", "getNextOrderID"}, {"RequestServer.serveLoop", "newOrderedRequest"},
		{"Server.Serve", "getNextOrderID"}, {"Server.Serve", "newOrderedRequest"},
	}
	same := len(oids) == len(want)
	if same {
		a := append([][2]string{}, oids...)
		b := append([][2]string{}, want...)
		less := func(s [][2]string) func(i, j int) bool {
			return func(i, j int) bool { return s[i][0]+"|"+s[i][1] < s[j][0]+"|"+s[j][1] }
		}
		sort.Slice(a, less(a))
		sort.Slice(b, less(b))
		for i := range a {
			if a[i] != b[i] {
				same = false
			}
		}
	}
	u.pf("-- source: packet-manager.go, server.go, request-server.go (who calls newOrderID / newOrderedRequest / getNextOrderID, who assigns .orderid)\n")
	u.pf("def orderIdSites : List (String × String) :=\n  %s\n", slPairs(oids))
	u.pf("/-- the order id is taken by newOrderedRequest (`orderid: s.newOrderID()`), called by the receive loop itself right after the\nrecvPacket(getNextOrderID()) that lent the page, so the page key IS the id the request gets -/\n")
	u.pf("def orderIdAssignedInReceiveLoop : Bool := %s\n\n", leanBool(newReq && getters && loops && same))

	// request decoders that keep a sub-slice of their input
	reqTypes := map[string]bool{}
	if mp := pi.funcDecl("makePacket"); mp == nil {
		u.fail("makePacket not found")
	} else {
		ast.Inspect(mp.Body, func(n ast.Node) bool {
			if ue, ok := n.(*ast.UnaryExpr); ok && ue.Op == token.AND {
				if cl, ok := ue.X.(*ast.CompositeLit); ok {
					reqTypes[typeName(cl.Type)] = true
				}
			}
			return true
		})
	}
	var aliases [][2]string
	var aliasPos []string
	slEachFunc(pi, func(fd *ast.FuncDecl) {
		if fd.Name.Name != "UnmarshalBinary" || fd.Recv == nil {
			return
		}
		recv := recvName(fd.Recv.List[0].Type)
		if !reqTypes[recv] {
			return
		}
		r := slRecvIdent(fd)
		ps := slParams(fd)
		if r == "" || len(ps) != 1 || ps[0] == nil {
			return
		}
		b := ps[0].Name
		ast.Inspect(fd.Body, func(n ast.Node) bool {
			as, ok := n.(*ast.AssignStmt)
			if !ok || len(as.Lhs) != len(as.Rhs) {
				return true
			}
			for i, l := range as.Lhs {
				sel, ok := l.(*ast.SelectorExpr)
				if !ok || !slIsIdent(sel.X, r) {
					continue
				}
				rhs := as.Rhs[i]
				for {
					if se, ok := rhs.(*ast.SliceExpr); ok {
						rhs = se.X
						continue
					}
					if pe, ok := rhs.(*ast.ParenExpr); ok {
						rhs = pe.X
						continue
					}
					break
				}
				if slIsIdent(rhs, b) {
					aliases = append(aliases, [2]string{recv, pi.nodeText(as)})
					aliasPos = append(aliasPos, pi.pos(as))
				}
			}
			return true
		})
	})
	u.pf("-- source: packet.go UnmarshalBinary of the request types of makePacket that keep a sub-slice of the receive buffer: %s\n", strings.Join(aliasPos, ", "))
	u.pf("def pageAliases : List (String × String) :=\n  %s\n\n", slPairs(aliases))
}

// ---------------------------------------------------------------------------------------------------------------
// D. READDIR batch × frame limit

func slReaddir(pi *pkgInfo, u *unit) {
	batch, found := int64(0), false
	var entry [][2]string
	if fd := pi.funcDecl("sshFxpReaddirPacket.respond"); fd == nil || fd.Body == nil {
		u.fail("sshFxpReaddirPacket.respond not found")
	} else {
		n := 0
		ast.Inspect(fd.Body, func(m ast.Node) bool {
			if c, ok := m.(*ast.CallExpr); ok && slCallName(c) == "Readdir" && len(c.Args) == 1 {
				n++
				if v, ok := pi.exprInt(c.Args[0]); ok && v > 0 {
					batch, found = v, true
					u.pf("-- source: %s (sshFxpReaddirPacket.respond: %s)\n", pi.pos(c), pi.nodeText(c))
				} else {
					u.fail("sshFxpReaddirPacket.respond: the argument of Readdir is not a positive constant at %s", pi.pos(c))
				}
			}
			return true
		})
		if n != 1 {
			found = false
			u.fail("sshFxpReaddirPacket.respond: expected exactly one Readdir(N) call, found %d", n)
		}
		// the entry literal
		ast.Inspect(fd.Body, func(m ast.Node) bool {
			if cl, ok := m.(*ast.CompositeLit); ok && typeName(cl.Type) == "sshFxpNameAttr" {
				for _, el := range cl.Elts {
					if kv, ok := el.(*ast.KeyValueExpr); ok {
						entry = append(entry, [2]string{exprString(kv.Key), pi.nodeText(kv.Value)})
					}
				}
			}
			return true
		})
	}
	u.pf("def readdirBatchFound : Bool := %s\n", leanBool(found))
	u.pf("def readdirBatch : Nat := %d\n", batch)
	u.pf("/-- the NAME entry the os-backed server builds for one directory entry -/\n")
	u.pf("def readdirEntry : List (String × String) :=\n  %s\n\n", slPairs(entry))

	mml, ok := pi.constInt("maxMsgLength")
	if !ok {
		u.fail("constant maxMsgLength not found")
	}
	refuses := false
	if rp := pi.funcDecl("recvPacket"); rp != nil {
		refuses = strings.Contains(pi.bodyText(rp), "if length > maxMsgLength {") && strings.Contains(pi.bodyText(rp), "return 0, nil, errLongPacket")
	}
	if !refuses {
		u.fail("recvPacket: `if length > maxMsgLength { … return 0, nil, errLongPacket }` not found")
	}
	u.pf("-- source: packet.go maxMsgLength; recvPacket refuses a frame whose length word exceeds it\n")
	u.pf("def srvMaxMsgLength : Nat := %d\n", mml)
	u.pf("def recvRefusesLongerThanMax : Bool := %s\n\n", leanBool(refuses))

	// sshFxpNameAttr.MarshalBinary: what one entry costs
	var fields []string
	if fd := pi.funcDecl("sshFxpNameAttr.MarshalBinary"); fd == nil || fd.Body == nil {
		u.fail("sshFxpNameAttr.MarshalBinary not found")
	} else {
		r := slRecvIdent(fd)
		u.pf("-- source: %s (sshFxpNameAttr.MarshalBinary)\n", pi.pos(fd))
		for _, st := range fd.Body.List {
			txt := pi.nodeText(st)
			switch {
			case txt == "var b []byte", txt == "return b, nil":
			case strings.HasPrefix(txt, "b = marshalString(b, "+r+".") && strings.HasSuffix(txt, ")"):
				fields = append(fields, "string:"+strings.TrimSuffix(strings.TrimPrefix(txt, "b = marshalString(b, "+r+"."), ")"))
			case txt == "for _, attr := range "+r+".Attrs { b = marshal(b, attr) }":
				fields = append(fields, "each:Attrs")
			default:
				fields = append(fields, "?")
				u.fail("sshFxpNameAttr.MarshalBinary: unrecognised statement at %s: %q", pi.pos(st), txt)
			}
		}
	}
	u.pf("def nameEntryFields : List String := %s\n", leanStrList(fields))

	var hdr []string
	if fd := pi.funcDecl("sshFxpNamePacket.marshalPacket"); fd == nil || fd.Body == nil {
		u.fail("sshFxpNamePacket.marshalPacket not found")
	} else {
		r := slRecvIdent(fd)
		u.pf("-- source: %s (sshFxpNamePacket.marshalPacket)\n", pi.pos(fd))
		for _, st := range fd.Body.List {
			txt := pi.nodeText(st)
			switch {
			case strings.HasPrefix(txt, "l := "), txt == "var payload []byte", txt == "return b, payload, nil":
			case txt == "b := make([]byte, 4, l)":
				hdr = append(hdr, "len:4")
			case txt == "b = append(b, sshFxpName)":
				hdr = append(hdr, "byte:type")
			case txt == "b = marshalUint32(b, "+r+".ID)":
				hdr = append(hdr, "uint32:ID")
			case txt == "b = marshalUint32(b, uint32(len("+r+".NameAttrs)))":
				hdr = append(hdr, "uint32:count")
			case strings.HasPrefix(txt, "for _, na := range "+r+".NameAttrs { ab, err := na.MarshalBinary()") && strings.HasSuffix(txt, "payload = append(payload, ab...) }"):
				hdr = append(hdr, "each:NameAttrs")
			default:
				hdr = append(hdr, "?")
				u.fail("sshFxpNamePacket.marshalPacket: unrecognised statement at %s: %q", pi.pos(st), txt)
			}
		}
	}
	u.pf("def namePacketFields : List String := %s\n\n", leanStrList(hdr))

	// runLs: the format of the long name
	format := ""
	var args []string
	if fd := pi.funcDecl("runLs"); fd == nil || fd.Body == nil || len(fd.Body.List) == 0 {
		u.fail("runLs not found")
	} else if rt, ok := fd.Body.List[len(fd.Body.List)-1].(*ast.ReturnStmt); !ok || len(rt.Results) != 1 {
		u.fail("runLs: does not end with a single-value return (%s)", pi.pos(fd))
	} else if c, ok := rt.Results[0].(*ast.CallExpr); !ok || exprString(c.Fun) != "fmt.Sprintf" || len(c.Args) < 1 {
		u.fail("runLs: the result is not fmt.Sprintf(…) at %s", pi.pos(rt))
	} else {
		u.pf("-- source: %s (runLs)\n", pi.pos(rt))
		if s, ok := pi.exprStr(c.Args[0]); ok {
			format = s
		} else {
			u.fail("runLs: the format is not a constant string at %s", pi.pos(c))
		}
		for _, a := range c.Args[1:] {
			args = append(args, pi.nodeText(a))
		}
	}
	u.pf("def lsFormat : String := %s\n", leanStr(format))
	u.pf("def lsFormatArgs : List String := %s\n\n", leanStrList(args))

	// marshalFileInfo / marshalFileStat: bytes of an attribute block without extended pairs
	total, okAttrs := int64(0), true
	if fd := pi.funcDecl("marshalFileInfo"); fd == nil || !strings.Contains(pi.bodyText(fd), "b = marshalUint32(b, flags) return marshalFileStat(b, flags, fileStat)") {
		okAttrs = false
		u.fail("marshalFileInfo: `b = marshalUint32(b, flags); return marshalFileStat(b, flags, fileStat)` not found")
	} else {
		total = 4
	}
	if fd := pi.funcDecl("marshalFileStat"); fd == nil || fd.Body == nil {
		okAttrs = false
		u.fail("marshalFileStat not found")
	} else {
		u.pf("-- source: %s (marshalFileStat: flags word + every fixed-size field; the extended pairs are not counted)\n", pi.pos(fd))
		for _, st := range fd.Body.List {
			is, ok := st.(*ast.IfStmt)
			if !ok {
				if _, isRet := st.(*ast.ReturnStmt); !isRet {
					okAttrs = false
					u.fail("marshalFileStat: unrecognised statement at %s", pi.pos(st))
				}
				continue
			}
			if strings.Contains(pi.nodeText(is.Cond), "sshFileXferAttrExtended") {
				continue
			}
			for _, b := range is.Body.List {
				txt := pi.nodeText(b)
				switch {
				case strings.HasPrefix(txt, "b = marshalUint32(b, fileStat."):
					total += 4
				case strings.HasPrefix(txt, "b = marshalUint64(b, fileStat."):
					total += 8
				default:
					okAttrs = false
					u.fail("marshalFileStat: unrecognised statement at %s: %q", pi.pos(b), txt)
				}
			}
		}
	}
	if !okAttrs {
		total = 0
	}
	u.pf("def attrFixedBytes : Nat := %d\n\n", total)
}
