package main

import (
	"go/constant"
	"go/types"
	"sort"
)

func init() { extractors = append(extractors, extractConsts) }

// extractConsts dumps every package-level integer and string constant of
// package sftp, filexfer and filexfer/openssh.
func extractConsts(x *extractor) {
	u := x.newUnit("Consts")
	u.pf("namespace Sftp.G\n\n")
	dump := func(pi *pkgInfo, prefix string) {
		scope := pi.pkg.Scope()
		names := scope.Names()
		sort.Strings(names)
		for _, n := range names {
			c, ok := scope.Lookup(n).(*types.Const)
			if !ok {
				continue
			}
			v := c.Val()
			switch v.Kind() {
			case constant.Int:
				if constant.Sign(v) < 0 {
					continue
				}
				u.pf("def %s%s : Nat := %s\n", prefix, n, v.ExactString())
			case constant.String:
				u.pf("def %s%s : String := %s\n", prefix, n, leanStr(constant.StringVal(v)))
			case constant.Bool:
				u.pf("def %s%s : Bool := %v\n", prefix, n, constant.BoolVal(v))
			}
		}
	}
	dump(x.root, "")
	u.pf("\n")
	dump(x.fx, "fx_")
	u.pf("\nend Sftp.G\n")
	for _, must := range []string{"sshFxpInit", "sshFxpExtendedReply", "maxMsgLength", "sshFxfExcl", "sshFileXferAttrExtended", "SftpServerWorkerCount", "sshFxOPUnsupported"} {
		if _, ok := x.root.constInt(must); !ok {
			u.fail("constant %s not found in package sftp", must)
		}
	}
}
