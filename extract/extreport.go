package main

// Unit ExtReport (property C19): how the client REPORTS the extensions it recorded.
//
// Unit Handshake ties what Client.recvVersion RECORDS (`c.ext[ext.Name] = ext.Data` in the extension loop); the
// Lean model proves that record equal to the advertised list (last pair of a name wins).  What a caller sees,
// however, is Client.HasExtension, and what the client itself acts on is File.Sync's guard.  This unit ties
//
//   1. Client.HasExtension to the one closed shape (local names are free)
//          func (R *Client) HasExtension(P string) (string, bool) { A, B := R.ext[P]; return A, B }
//      emitted canonically as "data, ok := c.ext[name]; return data, ok"; any other body is emitted as its
//      normalised text, hasExtensionIsMapLookup = false, and recorded as a broken tie;
//   2. EVERY use of the field Client.ext in package sftp (by types.Object identity), classified
//          init     `ext: <expr>` in a composite literal
//          store    `X.ext[K] = V`
//          lookup2  `A, B := X.ext[K]` / `A, B = X.ext[K]`         (value and presence)
//          lookup1  `X.ext[K]` anywhere else                       (value only: "" for a missing name)
//          delete   `delete(X.ext, K)`
//          other    anything else (len, range, copy of the map, assignment of the field …): broken tie
//   3. EVERY call of a method named HasExtension in package sftp with the statement head it occurs in, and
//      File.Sync's guard to the closed shape
//          if A, B := f.c.HasExtension(openssh.ExtensionFSync().Name); !B || A != "1" { return &StatusError{Code: sshFxOPUnsupported, …} }
//      standing before the first request is sent (nextID / sendPacket), with the name resolved to the constant
//      of the openssh package.

import (
	"go/ast"
	"go/token"
	"go/types"
	"strings"
)

func init() { extractors = append(extractors, extractExtReport) }

const erCanon = "data, ok := c.ext[name]; return data, ok"

// erStmts renders a body as "stmt; stmt" with normalised white space.
func erStmts(pi *pkgInfo, b *ast.BlockStmt) string {
	if b == nil {
		return ""
	}
	parts := make([]string, len(b.List))
	for i, s := range b.List {
		parts[i] = pi.nodeText(s)
	}
	return strings.Join(parts, "; ")
}

// erFieldObj finds the object of field `field` of struct type `typ` of the package.
func erFieldObj(pi *pkgInfo, typ, field string) (*types.Var, string) {
	tn, ok := pi.pkg.Scope().Lookup(typ).(*types.TypeName)
	if !ok {
		return nil, ""
	}
	st, ok := tn.Type().Underlying().(*types.Struct)
	if !ok {
		return nil, ""
	}
	for i := 0; i < st.NumFields(); i++ {
		if f := st.Field(i); f.Name() == field {
			return f, types.TypeString(f.Type(), func(p *types.Package) string { return p.Name() })
		}
	}
	return nil, ""
}

func erFuncName(fd *ast.FuncDecl) string {
	if fd == nil {
		return "?"
	}
	if fd.Recv != nil && len(fd.Recv.List) == 1 {
		return recvName(fd.Recv.List[0].Type) + "." + fd.Name.Name
	}
	return fd.Name.Name
}

type erUse struct{ fn, kind, text, pos string }

// erClassify classifies one use of the field given the chain of its ancestors (outermost first; the last
// element is the identifier itself).
func erClassify(pi *pkgInfo, stack []ast.Node) (kind, text string) {
	n := len(stack)
	id := stack[n-1]
	if n >= 2 {
		if kv, ok := stack[n-2].(*ast.KeyValueExpr); ok && kv.Key == id {
			if n >= 3 {
				if _, isLit := stack[n-3].(*ast.CompositeLit); isLit {
					return "init", pi.nodeText(kv)
				}
			}
			return "other", pi.nodeText(kv)
		}
	}
	// X.ext
	if n < 2 {
		return "other", pi.nodeText(id)
	}
	sel, ok := stack[n-2].(*ast.SelectorExpr)
	if !ok || sel.Sel != id {
		return "other", pi.nodeText(stack[n-2])
	}
	// nearest enclosing statement, for the text
	var stmt ast.Node = sel
	for i := n - 3; i >= 0; i-- {
		if s, ok := stack[i].(ast.Stmt); ok {
			stmt = s
			if i > 0 { // the init statement of an if / switch: report the head of that statement
				switch p := stack[i-1].(type) {
				case *ast.IfStmt:
					if p.Init == s {
						stmt = p
					}
				}
			}
			break
		}
	}
	stmtText := pi.nodeText(stmt)
	switch s := stmt.(type) {
	case *ast.IfStmt:
		stmtText = "if "
		if s.Init != nil {
			stmtText += pi.nodeText(s.Init) + "; "
		}
		stmtText += pi.nodeText(s.Cond)
	case *ast.ForStmt, *ast.RangeStmt, *ast.SwitchStmt, *ast.BlockStmt:
		if len(stmtText) > 120 {
			stmtText = stmtText[:120] + " …"
		}
	}
	if n < 3 {
		return "other", stmtText
	}
	switch p := stack[n-3].(type) {
	case *ast.IndexExpr:
		if p.X != sel {
			return "other", stmtText // the map used as an index of something else
		}
		if n >= 4 {
			if as, ok := stack[n-4].(*ast.AssignStmt); ok {
				for _, l := range as.Lhs {
					if l == p {
						if as.Tok == token.ASSIGN && len(as.Lhs) == 1 && len(as.Rhs) == 1 {
							return "store", stmtText
						}
						return "other", stmtText // op-assignment or tuple store
					}
				}
				if len(as.Lhs) == 2 && len(as.Rhs) == 1 && as.Rhs[0] == p && (as.Tok == token.DEFINE || as.Tok == token.ASSIGN) {
					return "lookup2", stmtText
				}
			}
			if vs, ok := stack[n-4].(*ast.ValueSpec); ok && len(vs.Names) == 2 && len(vs.Values) == 1 && vs.Values[0] == p {
				return "lookup2", stmtText
			}
			if _, ok := stack[n-4].(*ast.IncDecStmt); ok {
				return "other", stmtText
			}
			if u, ok := stack[n-4].(*ast.UnaryExpr); ok && u.Op == token.AND {
				return "other", stmtText
			}
		}
		return "lookup1", stmtText
	case *ast.CallExpr:
		if fn, ok := p.Fun.(*ast.Ident); ok && fn.Name == "delete" && len(p.Args) == 2 && p.Args[0] == sel {
			return "delete", stmtText
		}
	}
	return "other", stmtText
}

func extractExtReport(x *extractor) {
	u := x.newUnit("ExtReport")
	pi := x.root
	u.pf("namespace Sftp.G\n\n")

	// ---- 1. Client.HasExtension
	shape, isLookup := "", false
	fd := pi.funcDecl("Client.HasExtension")
	if fd == nil || fd.Body == nil {
		u.fail("Client.HasExtension not found")
		u.pf("-- source: (Client.HasExtension not found)\n")
	} else {
		u.pf("-- source: %s\n", pi.pos(fd))
		shape = erStmts(pi, fd.Body)
		why := ""
		recv, param := "", ""
		switch {
		case fd.Recv == nil || len(fd.Recv.List) != 1 || len(fd.Recv.List[0].Names) != 1 || exprString(fd.Recv.List[0].Type) != "*Client":
			why = "the receiver is not a named *Client"
		case fd.Type.Params == nil || len(fd.Type.Params.List) != 1 || len(fd.Type.Params.List[0].Names) != 1 || exprString(fd.Type.Params.List[0].Type) != "string":
			why = "the parameter list is not one string"
		case fd.Type.Results == nil || len(fd.Type.Results.List) != 2 || len(fd.Type.Results.List[0].Names) != 0 || len(fd.Type.Results.List[1].Names) != 0 ||
			exprString(fd.Type.Results.List[0].Type) != "string" || exprString(fd.Type.Results.List[1].Type) != "bool":
			why = "the results are not unnamed (string, bool)"
		default:
			recv, param = fd.Recv.List[0].Names[0].Name, fd.Type.Params.List[0].Names[0].Name
		}
		if why == "" {
			why = "the body is not `A, B := R.ext[P]; return A, B`"
			if b := fd.Body.List; len(b) == 2 {
				as, ok1 := b[0].(*ast.AssignStmt)
				rs, ok2 := b[1].(*ast.ReturnStmt)
				if ok1 && ok2 && as.Tok == token.DEFINE && len(as.Lhs) == 2 && len(as.Rhs) == 1 && len(rs.Results) == 2 {
					a, okA := as.Lhs[0].(*ast.Ident)
					bb, okB := as.Lhs[1].(*ast.Ident)
					ix, okI := as.Rhs[0].(*ast.IndexExpr)
					ra, okRA := rs.Results[0].(*ast.Ident)
					rb, okRB := rs.Results[1].(*ast.Ident)
					if okA && okB && okI && okRA && okRB {
						fresh := func(n string) bool { return n != "_" && n != recv && n != param }
						if fresh(a.Name) && fresh(bb.Name) && a.Name != bb.Name &&
							exprString(ix.X) == recv+".ext" && exprString(ix.Index) == param &&
							ra.Name == a.Name && rb.Name == bb.Name && recv != "_" && param != "_" && recv != param {
							isLookup, why = true, ""
							shape = erCanon
						}
					}
				}
			}
		}
		if !isLookup {
			u.fail("Client.HasExtension is not the map lookup `data, ok := c.ext[name]; return data, ok`: %s (%s): %s", why, pi.pos(fd), shape)
		}
	}
	u.pf("def hasExtensionShape : String := %s\n", leanStr(shape))
	u.pf("def hasExtensionIsMapLookup : Bool := %s\n\n", leanBool(isLookup))

	// ---- 2. every use of Client.ext
	fobj, ftyp := erFieldObj(pi, "Client", "ext")
	if fobj == nil {
		u.fail("struct Client has no field ext")
	} else if ftyp != "map[string]string" {
		u.fail("Client.ext is a %s, not a map[string]string", ftyp)
	}
	var uses []erUse
	type call struct{ fn, head, pos string }
	var calls []call
	var syncIf *ast.IfStmt
	var syncFd *ast.FuncDecl
	for _, f := range pi.files {
		for _, d := range f.Decls {
			cur, _ := d.(*ast.FuncDecl)
			var stack []ast.Node
			ast.Inspect(d, func(n ast.Node) bool {
				if n == nil {
					stack = stack[:len(stack)-1]
					return true
				}
				stack = append(stack, n)
				switch t := n.(type) {
				case *ast.Ident:
					if fobj != nil && pi.info.Uses[t] == types.Object(fobj) {
						k, txt := erClassify(pi, stack)
						uses = append(uses, erUse{erFuncName(cur), k, txt, pi.pos(t)})
					}
				case *ast.SelectorExpr:
					// a method VALUE c.HasExtension that is not called would escape the call list
					if t.Sel.Name == "HasExtension" {
						called := false
						if len(stack) >= 2 {
							if ce, ok := stack[len(stack)-2].(*ast.CallExpr); ok && ce.Fun == t {
								called = true
							}
						}
						head := ""
						for i := len(stack) - 2; i >= 0; i-- {
							if s, ok := stack[i].(ast.Stmt); ok {
								if i > 0 { // the init statement of an if: the if is the statement
									if is, ok := stack[i-1].(*ast.IfStmt); ok && is.Init == s {
										s = is
									}
								}
								if is, ok := s.(*ast.IfStmt); ok {
									head = "if "
									if is.Init != nil {
										head += pi.nodeText(is.Init) + "; "
									}
									head += pi.nodeText(is.Cond)
									if cur != nil && erFuncName(cur) == "File.Sync" && syncIf == nil {
										syncIf, syncFd = is, cur
									}
								} else {
									head = pi.nodeText(s)
									if len(head) > 160 {
										head = head[:160] + " …"
									}
								}
								break
							}
						}
						if !called {
							head = "method value: " + head
							u.fail("%s: HasExtension used as a method value (%s)", erFuncName(cur), pi.pos(t))
						}
						calls = append(calls, call{erFuncName(cur), head, pi.pos(t)})
					}
				}
				return true
			})
		}
	}
	var src []string
	rows := make([]string, len(uses))
	nInit, nStore, nL2 := 0, 0, 0
	for i, e := range uses {
		src = append(src, e.pos)
		rows[i] = "(" + leanStr(e.fn) + ", " + leanStr(e.kind) + ", " + leanStr(e.text) + ")"
		switch e.kind {
		case "init":
			nInit++
		case "store":
			nStore++
		case "lookup2":
			nL2++
		case "other":
			u.fail("%s: unclassified use of Client.ext (%s): %s", e.fn, e.pos, e.text)
		}
	}
	if fobj != nil && (nInit == 0 || nStore == 0 || nL2 == 0) {
		u.fail("Client.ext: expected at least one initialisation, one store and one two-value lookup (found %d/%d/%d)", nInit, nStore, nL2)
	}
	u.pf("-- source: %s\n", strings.Join(src, ", "))
	u.pf("def extFieldType : String := %s\n", leanStr(ftyp))
	u.pf("def extUses : List (String × String × String) := [%s]\n\n", strings.Join(rows, ", "))

	// ---- 3. callers of HasExtension; File.Sync's guard
	src = src[:0]
	rows = rows[:0]
	for _, c := range calls {
		src = append(src, c.pos)
		rows = append(rows, "("+leanStr(c.fn)+", "+leanStr(c.head)+")")
	}
	u.pf("-- source: %s\n", strings.Join(src, ", "))
	u.pf("def hasExtensionCallers : List (String × String) := [%s]\n", strings.Join(rows, ", "))
	guardOK, guardName, guardData, guardFirst := false, "", "", false
	if syncIf == nil {
		u.fail("File.Sync: no `if … HasExtension(…) …` guard found")
	} else {
		is := syncIf
		as, ok := is.Init.(*ast.AssignStmt)
		if ok && as.Tok == token.DEFINE && len(as.Lhs) == 2 && len(as.Rhs) == 1 && is.Else == nil {
			a, b := exprString(as.Lhs[0]), exprString(as.Lhs[1])
			ce, isCall := as.Rhs[0].(*ast.CallExpr)
			if isCall && exprString(ce.Fun) == "f.c.HasExtension" && len(ce.Args) == 1 && a != "_" && b != "_" && a != b {
				// the name: openssh.ExtensionFSync().Name, resolved in the openssh package
				if exprString(ce.Args[0]) == "openssh.ExtensionFSync().Name" {
					if ofd := x.ossh.funcDecl("ExtensionFSync"); ofd != nil && ofd.Body != nil {
						ast.Inspect(ofd.Body, func(n ast.Node) bool {
							if kv, ok := n.(*ast.KeyValueExpr); ok && exprString(kv.Key) == "Name" {
								if s, ok := x.ossh.exprStr(kv.Value); ok {
									guardName = s
								}
							}
							return true
						})
					}
				} else if s, ok := pi.exprStr(ce.Args[0]); ok {
					guardName = s
				}
				// the condition: !B || A != "<data>"
				if be, ok := is.Cond.(*ast.BinaryExpr); ok && be.Op == token.LOR {
					l, okL := be.X.(*ast.UnaryExpr)
					r, okR := be.Y.(*ast.BinaryExpr)
					if okL && okR && l.Op == token.NOT && exprString(l.X) == b && r.Op == token.NEQ && exprString(r.X) == a {
						if s, ok := pi.exprStr(r.Y); ok {
							guardData = s
							body := pi.nodeText(is.Body)
							if rpTerminates(is.Body) && len(is.Body.List) == 1 && strings.HasPrefix(body, "{ return &StatusError{ Code: sshFxOPUnsupported,") {
								guardOK = true
							}
						}
					}
				}
			}
		}
		if guardName == "" {
			u.fail("File.Sync: the name given to HasExtension is not a constant (%s)", pi.pos(is))
		}
		if !guardOK {
			u.fail("File.Sync: the guard is not `if data, ok := f.c.HasExtension(NAME); !ok || data != \"…\" { return &StatusError{Code: sshFxOPUnsupported…} }` (%s)", pi.pos(is))
		}
		// the guard stands before anything is sent
		if syncFd != nil && syncFd.Body != nil {
			guardFirst = true
			seen := false
			for _, s := range syncFd.Body.List {
				if s == ast.Stmt(is) {
					seen = true
					break
				}
				t := pi.nodeText(s)
				if strings.Contains(t, "sendPacket") || strings.Contains(t, "nextID") || strings.Contains(t, "dispatchRequest") {
					guardFirst = false
				}
			}
			if !seen {
				guardFirst = false // nested somewhere: not the top-level guard
			}
			if !guardFirst {
				u.fail("File.Sync: the extension guard is not a top-level statement before the request is sent (%s)", pi.pos(is))
			}
		}
		u.pf("-- source: %s\n", pi.pos(is))
	}
	u.pf("def syncGuardIsPresentAndData : Bool := %s\n", leanBool(guardOK))
	u.pf("def syncGuardName : String := %s\n", leanStr(guardName))
	u.pf("def syncGuardData : String := %s\n", leanStr(guardData))
	u.pf("def syncGuardBeforeSend : Bool := %s\n", leanBool(guardFirst))
	u.pf("\nend Sftp.G\n")
}
