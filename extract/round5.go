package main

// Round-5 source shapes that the differential harness catches but no other unit covers.  Four independent units
// (one Lean consumer each, each consumer imports only its own generated file):
//
//	FileInfoAcc   (Props/C17FileInfo)   attrs.go: the accessor methods of the client-side `fileInfo` (os.FileInfo built from
//	                                    ATTRS / NAME replies): IsDir goes through Mode(), Mode through toFileMode(stat.Mode).
//	IdLookup      (Props/C17IdLookup)   ls_formatting.go: osIDLookup.LookupUserName / LookupGroupName each resolve through their
//	                                    own os/user function; no package-level variable, no receiver state between them.
//	NormaliseErr  (Props/C13Normalise)  client.go normaliseError: the switch scrutinee is the uint32 `err.Code` itself (the WIDTH
//	                                    of what is classified); the case table sorted by code.
//	ServeShape    (Props/C11Serve)      server.go / request-server.go: Serve never returns from inside the receive loop and the
//	                                    clean-up after it is close(pktChan), wg.Wait(), pktMgr.wait(), sweep — plain statements.
//
// Helpers are prefixed r5 (a few r4 helpers of round4.go are reused); each unit is its own extractor (own panic isolation)
// and emits its file from values computed beforehand, so the generated Lean is well-typed also when the analysis fails.

import (
	"fmt"
	"go/ast"
	"go/token"
	"go/types"
	"sort"
	"strings"
)

func init() {
	extractors = append(extractors, extractFileInfoAcc, extractIdLookup, extractNormaliseErr, extractServeShape)
}

// ---------------------------------------------------------------------------------------------------------------
// shared helpers

// r5Guard runs the analysis of a unit; a panic (unforeseen source shape) is a broken tie, the emission still happens.
func r5Guard(u *unit, f func()) {
	defer func() {
		if p := recover(); p != nil {
			u.fail("analysis panicked (unforeseen source shape): %v", p)
		}
	}()
	f()
}

// r5Methods: the methods declared on the named type `recv` (pointer or value receiver), sorted by name.
func r5Methods(pi *pkgInfo, recv string) []*ast.FuncDecl {
	var out []*ast.FuncDecl
	for _, f := range pi.files {
		for _, d := range f.Decls {
			fd, ok := d.(*ast.FuncDecl)
			if ok && fd.Recv != nil && len(fd.Recv.List) == 1 && recvName(fd.Recv.List[0].Type) == recv {
				out = append(out, fd)
			}
		}
	}
	sort.SliceStable(out, func(i, j int) bool { return out[i].Name.Name < out[j].Name.Name })
	return out
}

// r5RecvObj: the receiver variable of a method (nil if unnamed or `_`).
func r5RecvObj(pi *pkgInfo, fd *ast.FuncDecl) types.Object {
	if fd.Recv == nil || len(fd.Recv.List) != 1 || len(fd.Recv.List[0].Names) != 1 {
		return nil
	}
	return pi.info.Defs[fd.Recv.List[0].Names[0]]
}

// r5Body: the statements of a body, `; `-joined, with the objects of ren printed under canonical names.
func r5Body(pi *pkgInfo, list []ast.Stmt, ren map[types.Object]string) string {
	parts := make([]string, len(list))
	for i, s := range list {
		parts[i] = r4Text(pi, s, ren)
	}
	return strings.Join(parts, "; ")
}

// r5SingleReturn: the expression of a body that is exactly `return E`.
func r5SingleReturn(fd *ast.FuncDecl) ast.Expr {
	if fd == nil || fd.Body == nil || len(fd.Body.List) != 1 {
		return nil
	}
	rs, ok := fd.Body.List[0].(*ast.ReturnStmt)
	if !ok || len(rs.Results) != 1 {
		return nil
	}
	return ast.Unparen(rs.Results[0])
}

// r5IsIdentOf: e is the identifier of obj.
func r5IsIdentOf(pi *pkgInfo, e ast.Expr, obj types.Object) bool {
	id, ok := ast.Unparen(e).(*ast.Ident)
	return ok && obj != nil && r4Obj(pi, id) == obj
}

// r5FieldSel: e is `X.f` selecting a struct FIELD named f; returns X.
func r5FieldSel(pi *pkgInfo, e ast.Expr, f string) (ast.Expr, bool) {
	sel, ok := ast.Unparen(e).(*ast.SelectorExpr)
	if !ok || sel.Sel.Name != f {
		return nil, false
	}
	v, isVar := pi.info.Uses[sel.Sel].(*types.Var)
	if !isVar || !v.IsField() {
		return nil, false
	}
	return sel.X, true
}

// r5MethodCall: e is `X.m()` (no arguments) whose callee is the declared method object `want`; returns X.
func r5MethodCall(pi *pkgInfo, e ast.Expr, want types.Object) (ast.Expr, bool) {
	c, ok := ast.Unparen(e).(*ast.CallExpr)
	if !ok || len(c.Args) != 0 || want == nil {
		return nil, false
	}
	sel, ok := ast.Unparen(c.Fun).(*ast.SelectorExpr)
	if !ok || pi.info.Uses[sel.Sel] != want {
		return nil, false
	}
	return sel.X, true
}

func r5MethodObj(pi *pkgInfo, name string) types.Object {
	fd := pi.funcDecl(name)
	if fd == nil {
		return nil
	}
	return pi.info.Defs[fd.Name]
}

// r5BasicBits: width in bits of an unsigned / signed integer basic type (0 if it is not one); int, uint, uintptr = 64.
func r5BasicBits(t types.Type) (bits int, name string) {
	if t == nil {
		return 0, "?"
	}
	name = types.TypeString(t, func(p *types.Package) string { return p.Name() })
	b, ok := types.Unalias(t).Underlying().(*types.Basic)
	if !ok {
		return 0, name
	}
	switch b.Kind() {
	case types.Uint8, types.Int8:
		return 8, name
	case types.Uint16, types.Int16:
		return 16, name
	case types.Uint32, types.Int32:
		return 32, name
	case types.Uint64, types.Int64, types.Int, types.Uint, types.Uintptr:
		return 64, name
	}
	return 0, name
}

// r5PkgVars: the package-level VARIABLES of this package that a node mentions (sorted, unique).
func r5PkgVars(pi *pkgInfo, n ast.Node) []string {
	seen := map[string]bool{}
	var out []string
	ast.Inspect(n, func(m ast.Node) bool {
		if id, ok := m.(*ast.Ident); ok {
			if v, isVar := pi.info.Uses[id].(*types.Var); isVar && !v.IsField() && v.Pkg() == pi.pkg && v.Parent() == pi.pkg.Scope() && !seen[v.Name()] {
				seen[v.Name()] = true
				out = append(out, v.Name())
			}
		}
		return true
	})
	sort.Strings(out)
	return out
}

// r5CallName: "importpath.Name" for a call through an imported package name (works for packages the importer could
// not load, too), "Recv.name" / "name" for functions of this package, "builtin:name", "conv:T" for conversions,
// "?<text>" otherwise.
func r5CallName(pi *pkgInfo, c *ast.CallExpr) string {
	if tv, ok := pi.info.Types[c.Fun]; ok && tv.IsType() {
		return "conv:" + pi.nodeText(c.Fun)
	}
	switch f := ast.Unparen(c.Fun).(type) {
	case *ast.Ident:
		if _, ok := pi.info.Uses[f].(*types.Builtin); ok {
			return "builtin:" + f.Name
		}
	case *ast.SelectorExpr:
		if x, ok := f.X.(*ast.Ident); ok {
			if pn, ok := pi.info.Uses[x].(*types.PkgName); ok {
				return pn.Imported().Path() + "." + f.Sel.Name
			}
		}
	}
	if fn := r4Callee(pi, c); fn != nil {
		return r4CalleeName(pi, fn)
	}
	return "?" + pi.nodeText(c.Fun)
}

func r5PairBools(rows []r5PairBool) string {
	parts := make([]string, len(rows))
	for i, r := range rows {
		parts[i] = "(" + leanStr(r.name) + ", " + leanBool(r.val) + ")"
	}
	return "[" + strings.Join(parts, ", ") + "]"
}

type r5PairBool struct {
	name string
	val  bool
}

// ---------------------------------------------------------------------------------------------------------------
// 1. FileInfoAcc
//
// Shapes recognised (attrs.go):
//	type fileInfo struct { name string; stat *FileStat }
//	func (fi *fileInfo) M() T { return E }            for every method M of fileInfo: one return statement
//	IsDir:  E = fi.Mode().IsDir()                      callee objects: fileInfo.Mode, then a method IsDir of (io/fs).FileMode
//	Mode:   E = fi.stat.FileMode()  with  func (fs *FileStat) FileMode() os.FileMode { return toFileMode(fs.Mode) }
//	        or E = toFileMode(fi.stat.Mode)            callee object: the package's toFileMode (what unit Mode tabulates)
// The other bodies are emitted as text (receiver printed as `fi`) and compared in Lean.

type r5FileInfoFacts struct {
	src          string
	fields       [][2]string
	methods      [][2]string
	helpers      [][2]string
	isDirViaMode bool
	modeViaConv  bool
	ctor         string
	litSites     []string
}

func r5FileInfoAnalyse(pi *pkgInfo, u *unit) (f r5FileInfoFacts) {
	f.src = "attrs.go"
	obj := pi.pkg.Scope().Lookup("fileInfo")
	tn, _ := obj.(*types.TypeName)
	if tn == nil {
		u.fail("type fileInfo not found in package sftp")
		return
	}
	st, ok := tn.Type().Underlying().(*types.Struct)
	if !ok {
		u.fail("fileInfo is not a struct type")
		return
	}
	qual := func(p *types.Package) string {
		if p == pi.pkg {
			return ""
		}
		return p.Name()
	}
	for i := 0; i < st.NumFields(); i++ {
		f.fields = append(f.fields, [2]string{st.Field(i).Name(), types.TypeString(st.Field(i).Type(), qual)})
	}

	ms := r5Methods(pi, "fileInfo")
	if len(ms) > 0 {
		f.src = pi.pos(ms[0])
	}
	byName := map[string]*ast.FuncDecl{}
	for _, fd := range ms {
		if fd.Body == nil {
			u.fail("fileInfo.%s has no body (%s)", fd.Name.Name, pi.pos(fd))
			continue
		}
		ren := map[types.Object]string{}
		if r := r5RecvObj(pi, fd); r != nil {
			ren[r] = "fi"
		}
		f.methods = append(f.methods, [2]string{fd.Name.Name, r5Body(pi, fd.Body.List, ren)})
		byName[fd.Name.Name] = fd
		if r5SingleReturn(fd) == nil {
			u.fail("fileInfo.%s: body is not a single `return E` (%s)", fd.Name.Name, pi.pos(fd))
		}
	}
	for _, want := range []string{"IsDir", "ModTime", "Mode", "Name", "Size", "Sys"} {
		if byName[want] == nil {
			u.fail("method fileInfo.%s not found", want)
		}
	}

	// the FileStat helpers the accessors delegate to
	for _, h := range []string{"FileMode", "ModTime"} {
		fd := pi.funcDecl("FileStat." + h)
		if fd == nil || fd.Body == nil {
			u.fail("method FileStat.%s not found", h)
			continue
		}
		ren := map[types.Object]string{}
		if r := r5RecvObj(pi, fd); r != nil {
			ren[r] = "fs"
		}
		f.helpers = append(f.helpers, [2]string{"FileStat." + h, r5Body(pi, fd.Body.List, ren)})
	}

	// Mode: through toFileMode(<receiver>.stat.Mode), directly or through FileStat.FileMode
	toFileMode := pi.pkg.Scope().Lookup("toFileMode")
	isToFileModeOf := func(e ast.Expr, isArg func(ast.Expr) bool) bool {
		c, ok := ast.Unparen(e).(*ast.CallExpr)
		if !ok || len(c.Args) != 1 || toFileMode == nil {
			return false
		}
		id, ok := ast.Unparen(c.Fun).(*ast.Ident)
		return ok && pi.info.Uses[id] == toFileMode && isArg(c.Args[0])
	}
	if fd := byName["Mode"]; fd != nil {
		recv := r5RecvObj(pi, fd)
		statOfRecv := func(e ast.Expr) bool { // <receiver>.stat
			x, ok := r5FieldSel(pi, e, "stat")
			return ok && r5IsIdentOf(pi, x, recv)
		}
		if e := r5SingleReturn(fd); e != nil {
			if x, ok := r5MethodCall(pi, e, r5MethodObj(pi, "FileStat.FileMode")); ok && statOfRecv(x) {
				// one hop: FileStat.FileMode must be `return toFileMode(<its receiver>.Mode)`
				h := pi.funcDecl("FileStat.FileMode")
				hr := r5RecvObj(pi, h)
				f.modeViaConv = isToFileModeOf(r5SingleReturn(h), func(a ast.Expr) bool {
					x, ok := r5FieldSel(pi, a, "Mode")
					return ok && r5IsIdentOf(pi, x, hr)
				})
			} else {
				f.modeViaConv = isToFileModeOf(e, func(a ast.Expr) bool {
					x, ok := r5FieldSel(pi, a, "Mode")
					return ok && statOfRecv(x)
				})
			}
		}
	}

	// IsDir: <receiver>.Mode().IsDir(), the outer method being FileMode.IsDir of io/fs
	if fd := byName["IsDir"]; fd != nil && byName["Mode"] != nil {
		recv := r5RecvObj(pi, fd)
		if c, ok := r5SingleReturn(fd).(*ast.CallExpr); ok && len(c.Args) == 0 {
			if sel, ok := ast.Unparen(c.Fun).(*ast.SelectorExpr); ok && sel.Sel.Name == "IsDir" {
				outerOK := false
				if fn, ok := pi.info.Uses[sel.Sel].(*types.Func); ok && fn.Pkg() != nil && fn.Pkg().Path() == "io/fs" {
					if sig, ok := fn.Type().(*types.Signature); ok && sig.Recv() != nil {
						if n := r4NamedOf(sig.Recv().Type()); n != nil && n.Obj().Name() == "FileMode" {
							outerOK = true
						}
					}
				}
				x, innerOK := r5MethodCall(pi, sel.X, pi.info.Defs[byName["Mode"].Name])
				f.isDirViaMode = outerOK && innerOK && r5IsIdentOf(pi, x, recv)
			}
		}
	}

	// where fileInfo values are made
	for _, fd := range r4Funcs(pi) {
		has := false
		ast.Inspect(fd.Body, func(n ast.Node) bool {
			if cl, ok := n.(*ast.CompositeLit); ok {
				if tv, ok := pi.info.Types[cl]; ok {
					if nn := r4NamedOf(tv.Type); nn != nil && nn.Obj() == tn {
						has = true
					}
				}
			}
			return true
		})
		if has {
			f.litSites = append(f.litSites, r4FuncName(fd))
		}
	}
	if fd := pi.funcDecl("fileInfoFromStat"); fd == nil {
		u.fail("fileInfoFromStat not found")
	} else {
		ren := map[types.Object]string{}
		for _, p := range fd.Type.Params.List {
			for _, id := range p.Names {
				o := pi.info.Defs[id]
				if o == nil {
					continue
				}
				switch types.TypeString(o.Type(), qual) {
				case "*FileStat":
					ren[o] = "stat"
				case "string":
					ren[o] = "name"
				}
			}
		}
		if e := r5SingleReturn(fd); e != nil {
			f.ctor = r4Text(pi, e, ren)
		} else {
			u.fail("fileInfoFromStat: body is not a single `return E` (%s)", pi.pos(fd))
		}
	}
	return
}

func extractFileInfoAcc(x *extractor) {
	u := x.newUnit("FileInfoAcc")
	var f r5FileInfoFacts
	r5Guard(u, func() { f = r5FileInfoAnalyse(x.root, u) })
	u.pf("namespace Sftp.G\n\n")
	u.pf("-- source: attrs.go `type fileInfo struct` (field, type)\n")
	u.pf("def fileInfoFields : List (String × String) := %s\n\n", r4Pairs(f.fields))
	u.pf("-- source: %s: every method of the client-side fileInfo (method, body; the receiver is printed as `fi`), sorted by name\n", f.src)
	u.pf("def fileInfoMethods : List (String × String) :=\n  %s\n\n", r4Pairs(f.methods))
	u.pf("-- source: attrs.go: the FileStat methods the accessors delegate to (receiver printed as `fs`)\n")
	u.pf("def fileStatHelpers : List (String × String) :=\n  %s\n\n", r4Pairs(f.helpers))
	u.pf("-- by callee OBJECTS (go/types): IsDir is `<receiver>.Mode().IsDir()` with fileInfo.Mode and (io/fs).FileMode.IsDir\n")
	u.pf("def isDirViaMode : Bool := %s\n", leanBool(f.isDirViaMode))
	u.pf("-- Mode is toFileMode(<receiver>.stat.Mode), directly or through FileStat.FileMode = `return toFileMode(fs.Mode)`\n")
	u.pf("def modeViaToFileMode : Bool := %s\n\n", leanBool(f.modeViaConv))
	u.pf("-- source: attrs.go fileInfoFromStat (parameters printed as `stat`, `name`) and every function with a fileInfo literal\n")
	u.pf("def fileInfoCtor : String := %s\n", leanStr(f.ctor))
	u.pf("def fileInfoLiteralSites : List String := %s\n", leanStrList(f.litSites))
	u.pf("\nend Sftp.G\n")
}

// ---------------------------------------------------------------------------------------------------------------
// 2. IdLookup
//
// Shape recognised (ls_formatting.go), for LookupUserName and LookupGroupName of osIDLookup:
//	func (osIDLookup) M(id string) string {
//		r, err := user.F(id)            // F a function of package os/user, its only argument the parameter
//		if err != nil { return id }
//		return r.Field
//	}
// Anything else is a broken tie; the body is emitted as text in any case (parameter `id`, looked-up value `r`).

type r5IdFacts struct {
	src      string
	bodies   [][2]string
	callees  []r4PairList
	pkgVars  []r4PairList
	sources  [][3]string // method, os/user function, field returned
	recvFlds []string
	indep    bool
}

func r5IdAnalyse(pi *pkgInfo, u *unit) (f r5IdFacts) {
	f.src = "ls_formatting.go"
	if tn, ok := pi.pkg.Scope().Lookup("osIDLookup").(*types.TypeName); !ok {
		u.fail("type osIDLookup not found")
	} else if st, ok := tn.Type().Underlying().(*types.Struct); !ok {
		u.fail("osIDLookup is not a struct type")
		f.recvFlds = []string{"?"}
	} else {
		for i := 0; i < st.NumFields(); i++ {
			f.recvFlds = append(f.recvFlds, st.Field(i).Name())
		}
	}
	shapesOK := true
	for _, m := range []string{"LookupUserName", "LookupGroupName"} {
		fd := pi.funcDecl("osIDLookup." + m)
		if fd == nil || fd.Body == nil {
			u.fail("method osIDLookup.%s not found", m)
			shapesOK = false
			continue
		}
		if f.src == "ls_formatting.go" {
			f.src = pi.pos(fd)
		}
		ren := map[types.Object]string{}
		var param types.Object
		if len(fd.Type.Params.List) == 1 && len(fd.Type.Params.List[0].Names) == 1 {
			param = pi.info.Defs[fd.Type.Params.List[0].Names[0]]
			ren[param] = "id"
		}
		if r := r5RecvObj(pi, fd); r != nil {
			ren[r] = "l"
		}
		// the shape
		fn, field := "", ""
		good := false
		if len(fd.Body.List) == 3 && param != nil {
			as, ok0 := fd.Body.List[0].(*ast.AssignStmt)
			is, ok1 := fd.Body.List[1].(*ast.IfStmt)
			rs, ok2 := fd.Body.List[2].(*ast.ReturnStmt)
			if ok0 && ok1 && ok2 && as.Tok == token.DEFINE && len(as.Lhs) == 2 && len(as.Rhs) == 1 && len(rs.Results) == 1 {
				rid, okr := as.Lhs[0].(*ast.Ident)
				eid, oke := as.Lhs[1].(*ast.Ident)
				call, okc := ast.Unparen(as.Rhs[0]).(*ast.CallExpr)
				if okr && oke && okc && len(call.Args) == 1 && r5IsIdentOf(pi, call.Args[0], param) {
					robj, eobj := pi.info.Defs[rid], pi.info.Defs[eid]
					if robj != nil && eobj != nil {
						ren[robj] = "r"
						ren[eobj] = "err"
						name := r5CallName(pi, call)
						// if err != nil { return <param> }
						guard := false
						if be, ok := ast.Unparen(is.Cond).(*ast.BinaryExpr); ok && be.Op == token.NEQ && is.Init == nil && is.Else == nil && len(is.Body.List) == 1 {
							y, oky := ast.Unparen(be.Y).(*ast.Ident)
							if ret, ok := is.Body.List[0].(*ast.ReturnStmt); ok && oky && y.Name == "nil" && r5IsIdentOf(pi, be.X, eobj) &&
								len(ret.Results) == 1 && r5IsIdentOf(pi, ret.Results[0], param) {
								guard = true
							}
						}
						// return r.Field
						if sel, ok := ast.Unparen(rs.Results[0]).(*ast.SelectorExpr); ok && r5IsIdentOf(pi, sel.X, robj) && guard &&
							strings.HasPrefix(name, "os/user.") {
							fn, field, good = strings.TrimPrefix(name, "os/user."), sel.Sel.Name, true
						}
					}
				}
			}
		}
		if !good {
			shapesOK = false
			u.fail("osIDLookup.%s (%s): body is not `r, err := user.F(id); if err != nil { return id }; return r.Field`", m, pi.pos(fd))
		}
		f.sources = append(f.sources, [3]string{m, fn, field})
		f.bodies = append(f.bodies, [2]string{m, r5Body(pi, fd.Body.List, ren)})
		var cs []string
		ast.Inspect(fd.Body, func(n ast.Node) bool {
			if c, ok := n.(*ast.CallExpr); ok {
				cs = append(cs, r5CallName(pi, c))
			}
			return true
		})
		f.callees = append(f.callees, r4PairList{m, cs})
		f.pkgVars = append(f.pkgVars, r4PairList{m, r5PkgVars(pi, fd)})
	}
	f.indep = shapesOK && len(f.recvFlds) == 0 && len(f.sources) == 2 && f.sources[0][1] != f.sources[1][1]
	for _, v := range f.pkgVars {
		if len(v.list) > 0 {
			f.indep = false
		}
	}
	for _, c := range f.callees {
		if len(c.list) != 1 {
			f.indep = false
		}
	}
	return
}

func extractIdLookup(x *extractor) {
	u := x.newUnit("IdLookup")
	var f r5IdFacts
	r5Guard(u, func() { f = r5IdAnalyse(x.root, u) })
	u.pf("namespace Sftp.G\n\n")
	u.pf("-- source: %s osIDLookup.LookupUserName / LookupGroupName (method, body; parameter printed as `id`, the looked-up\n-- value as `r`)\n", f.src)
	u.pf("def idLookupBodies : List (String × String) :=\n  %s\n\n", r4Pairs(f.bodies))
	u.pf("-- (method, function of package os/user it resolves through, field of the result it returns); empty strings if the body\n-- is not the recognised shape\n")
	u.pf("def idLookupSources : List (String × String × String) := %s\n\n", r4Triples(f.sources))
	u.pf("-- every call in the two bodies (method, callees) and every package-level variable of package sftp they mention\n")
	u.pf("def idLookupCallees : List (String × List String) := %s\n", r4PairLists(f.callees))
	u.pf("def idLookupPkgVars : List (String × List String) := %s\n", r4PairLists(f.pkgVars))
	u.pf("-- fields of `type osIDLookup struct` (state the two methods could share through the receiver)\n")
	u.pf("def idLookupRecvFields : List String := %s\n\n", leanStrList(f.recvFlds))
	u.pf("-- both bodies are the recognised shape, resolve through DIFFERENT os/user functions, contain no other call, mention no\n-- package-level variable, and the receiver type has no fields\n")
	u.pf("def idLookupsIndependent : Bool := %s\n", leanBool(f.indep))
	u.pf("\nend Sftp.G\n")
}

// ---------------------------------------------------------------------------------------------------------------
// 3. NormaliseErr
//
// Shape recognised (client.go):
//	func normaliseError(err error) error {
//		switch err := err.(type) {
//		case *StatusError:
//			switch TAG { case C…: return R … default: return R }
//		default: return err
//		}
//	}
// TAG is emitted as text (the type-switch variable printed as `err`) together with the width of ITS type: the value the
// cases are compared with.  `err.Code` is 32 bits wide; `fx(err.Code)` 8.  R ∈ nil, io.EOF, os.ErrNotExist, os.ErrPermission,
// same (the *StatusError itself).  The case table is sorted by code (Go rejects duplicate constants in a switch).

type r5NormFacts struct {
	src       string
	tag       string
	tagType   string
	tagBits   int
	fieldBits int
	cases     []r5NormCase
	dflt      string
}

type r5NormCase struct {
	code int64
	res  string
}

func r5NormAnalyse(pi *pkgInfo, u *unit) (f r5NormFacts) {
	f.src, f.dflt, f.tagType = "client.go", "?", "?"
	fd := pi.funcDecl("normaliseError")
	if fd == nil || fd.Body == nil {
		u.fail("normaliseError not found")
		return
	}
	f.src = pi.pos(fd)
	// the Code field of StatusError
	if tn, ok := pi.pkg.Scope().Lookup("StatusError").(*types.TypeName); ok {
		if st, ok := tn.Type().Underlying().(*types.Struct); ok {
			for i := 0; i < st.NumFields(); i++ {
				if st.Field(i).Name() == "Code" {
					f.fieldBits, _ = r5BasicBits(st.Field(i).Type())
				}
			}
		}
	}
	if f.fieldBits == 0 {
		u.fail("StatusError.Code: integer field not found")
	}
	var ts *ast.TypeSwitchStmt
	if len(fd.Body.List) == 1 {
		ts, _ = fd.Body.List[0].(*ast.TypeSwitchStmt)
	}
	if ts == nil {
		u.fail("normaliseError: body is not a single type switch (%s)", pi.pos(fd))
		return
	}
	var sw *ast.SwitchStmt
	for _, c := range ts.Body.List {
		cc := c.(*ast.CaseClause)
		if len(cc.List) == 1 && pi.nodeText(cc.List[0]) == "*StatusError" {
			if len(cc.Body) == 1 {
				sw, _ = cc.Body[0].(*ast.SwitchStmt)
			}
			if sw == nil {
				u.fail("normaliseError: the *StatusError case is not a single switch statement (%s)", pi.pos(cc))
			}
		}
	}
	if sw == nil {
		u.fail("normaliseError: no `case *StatusError:` with a switch (%s)", pi.pos(fd))
		return
	}
	if sw.Init != nil || sw.Tag == nil {
		u.fail("normaliseError: the inner switch has an init statement or no tag (%s)", pi.pos(sw))
		return
	}
	// the scrutinee: print the *StatusError-typed variable as `err`
	ren := map[types.Object]string{}
	ast.Inspect(sw.Tag, func(n ast.Node) bool {
		if id, ok := n.(*ast.Ident); ok {
			if v, isVar := pi.info.Uses[id].(*types.Var); isVar && !v.IsField() {
				if nn := r4NamedOf(v.Type()); nn != nil && nn.Obj().Name() == "StatusError" {
					ren[v] = "err"
				}
			}
		}
		return true
	})
	f.tag = r4Text(pi, sw.Tag, ren)
	if tv, ok := pi.info.Types[sw.Tag]; ok {
		f.tagBits, f.tagType = r5BasicBits(tv.Type)
	}
	if f.tagBits == 0 {
		u.fail("normaliseError: the switch tag `%s` has no integer type (%s)", f.tag, pi.pos(sw.Tag))
	}
	res := func(list []ast.Stmt, pos ast.Node) string {
		if len(list) == 1 {
			if r, ok := list[0].(*ast.ReturnStmt); ok && len(r.Results) == 1 {
				e := ast.Unparen(r.Results[0])
				if id, ok := e.(*ast.Ident); ok {
					if _, isNil := pi.info.Uses[id].(*types.Nil); isNil {
						return "nil"
					}
					if v, isVar := pi.info.Uses[id].(*types.Var); isVar {
						if nn := r4NamedOf(v.Type()); nn != nil && nn.Obj().Name() == "StatusError" {
							return "same"
						}
					}
				}
				if sel, ok := e.(*ast.SelectorExpr); ok {
					if x, ok := sel.X.(*ast.Ident); ok {
						if pn, ok := pi.info.Uses[x].(*types.PkgName); ok {
							switch t := pn.Imported().Path() + "." + sel.Sel.Name; t {
							case "io.EOF", "os.ErrNotExist", "os.ErrPermission":
								return t
							}
						}
					}
				}
			}
		}
		u.fail("normaliseError: unrecognised case body at %s", pi.pos(pos))
		return "?"
	}
	for _, c := range sw.Body.List {
		cc := c.(*ast.CaseClause)
		r := res(cc.Body, cc)
		if cc.List == nil {
			f.dflt = r
			continue
		}
		for _, e := range cc.List {
			if v, ok := pi.exprInt(e); ok && v >= 0 {
				f.cases = append(f.cases, r5NormCase{v, r})
			} else {
				u.fail("normaliseError: case expression %s is not a constant (%s)", pi.nodeText(e), pi.pos(e))
			}
		}
	}
	if f.dflt == "?" {
		u.fail("normaliseError: the inner switch has no recognised default (%s)", pi.pos(sw))
	}
	sort.SliceStable(f.cases, func(i, j int) bool { return f.cases[i].code < f.cases[j].code })
	return
}

func extractNormaliseErr(x *extractor) {
	u := x.newUnit("NormaliseErr")
	var f r5NormFacts
	r5Guard(u, func() { f = r5NormAnalyse(x.root, u) })
	u.pf("namespace Sftp.G\n\n")
	u.pf("-- source: %s (normaliseError): the tag of the switch inside `case *StatusError:` (the variable printed as `err`), the\n-- type of that expression and its width in bits (0 = not an integer type)\n", f.src)
	u.pf("def normaliseScrutinee : String := %s\n", leanStr(f.tag))
	u.pf("def normaliseScrutineeType : String := %s\n", leanStr(f.tagType))
	u.pf("def normaliseScrutineeBits : Nat := %d\n", f.tagBits)
	u.pf("-- source: sftp.go `type StatusError struct`: width of the Code field (what arrives from the wire)\n")
	u.pf("def statusCodeFieldBits : Nat := %d\n\n", f.fieldBits)
	var rows []string
	for _, c := range f.cases {
		rows = append(rows, fmt.Sprintf("(%d, %s)", c.code, leanStr(c.res)))
	}
	u.pf("-- the cases of that switch sorted by code (code, result: nil | io.EOF | os.ErrNotExist | os.ErrPermission | same) and its default\n")
	u.pf("def normaliseCases : List (Nat × String) := [%s]\n", strings.Join(rows, ", "))
	u.pf("def normaliseDefaultRes : String := %s\n", leanStr(f.dflt))
	u.pf("\nend Sftp.G\n")
}

// ---------------------------------------------------------------------------------------------------------------
// 4. ServeShape
//
// Shapes recognised, for (*Server).Serve (server.go) and (*RequestServer).Serve (request-server.go):
//	prefix   declarations, `runWorker := func…`, `pktChan := X.pktMgr.workerChan(runWorker)`, `ctx, cancel := …`, defers
//	loop     either a top-level `for { … }` (inline) or ONE top-level `err := X.serveLoop(pktChan)` whose callee is a method of
//	         the same type of the form `defer close(<chan param>); declarations; for { … }` (helper)
//	tail     everything after the loop, each statement classified by callee / operand OBJECTS, not by spelling:
//	         close(pktChan) | wg.Wait() | pktMgr.wait() | mu.Lock() | mu.Unlock() | sweep(<handle table field>) | return err
//	         | defer <one of these> ; anything else is reported as other:<text> and is a broken tie.
// For the helper form the helper's deferred close(pktChan) runs when the helper returns, i.e. before the first tail
// statement; it is listed first as "close(pktChan)@serveLoop".

type r5Serve struct {
	server   string
	src      string
	site     string
	prefix   []string // defers before the loop, source order
	tail     []string
	exits    []string
	noReturn bool
	waitsOK  bool
}

type r5ServeCtx struct {
	pi    *pkgInfo
	u     *unit
	fn    string
	recv  types.Object
	chans map[types.Object]bool // variables holding the worker channel
}

func (c *r5ServeCtx) isWaitGroup(e ast.Expr) bool {
	tv, ok := c.pi.info.Types[e]
	if !ok {
		return false
	}
	n := r4NamedOf(tv.Type)
	return n != nil && n.Obj().Name() == "WaitGroup" && n.Obj().Pkg() != nil && n.Obj().Pkg().Path() == "sync"
}

// recvField: e is `<receiver>.f` (possibly through embedded fields) — returns the field name.
func (c *r5ServeCtx) recvField(e ast.Expr) (string, bool) {
	sel, ok := ast.Unparen(e).(*ast.SelectorExpr)
	if !ok || !r5IsIdentOf(c.pi, sel.X, c.recv) {
		return "", false
	}
	if v, isVar := c.pi.info.Uses[sel.Sel].(*types.Var); isVar && v.IsField() {
		return sel.Sel.Name, true
	}
	return "", false
}

// call: the kind of a call expression in the clean-up, "" if it is not one of the recognised ones.
func (c *r5ServeCtx) call(call *ast.CallExpr) string {
	pi := c.pi
	switch f := ast.Unparen(call.Fun).(type) {
	case *ast.Ident:
		if _, ok := pi.info.Uses[f].(*types.Builtin); ok && f.Name == "close" && len(call.Args) == 1 {
			if id, ok := ast.Unparen(call.Args[0]).(*ast.Ident); ok && c.chans[r4Obj(pi, id)] {
				return "close(pktChan)"
			}
		}
		if v, ok := pi.info.Uses[f].(*types.Var); ok && len(call.Args) == 0 {
			// a context.CancelFunc local
			if strings.HasSuffix(types.TypeString(v.Type(), nil), "context.CancelFunc") {
				return "cancel()"
			}
		}
	case *ast.SelectorExpr:
		if len(call.Args) != 0 {
			return ""
		}
		fn, _ := pi.info.Uses[f.Sel].(*types.Func)
		if fn == nil {
			return ""
		}
		if c.isWaitGroup(f.X) && fn.Name() == "Wait" {
			return "wg.Wait()"
		}
		name := r4CalleeName(pi, fn)
		if fld, ok := c.recvField(f.X); ok {
			switch {
			case name == "packetManager.wait" && fld == "pktMgr":
				return "pktMgr.wait()"
			case name == "sync.Mutex.Lock" || name == "sync.RWMutex.Lock":
				return fld + ".Lock()"
			case name == "sync.Mutex.Unlock" || name == "sync.RWMutex.Unlock":
				return fld + ".Unlock()"
			}
		}
	case *ast.FuncLit:
		// func() { if X.pktMgr.alloc != nil { X.pktMgr.alloc.Free() } }()
		if len(call.Args) == 0 && len(f.Body.List) == 1 {
			ren := map[types.Object]string{}
			if c.recv != nil {
				ren[c.recv] = "s"
			}
			if r4Text(pi, f.Body.List[0], ren) == "if s.pktMgr.alloc != nil { s.pktMgr.alloc.Free() }" {
				return "allocFree()"
			}
		}
	}
	return ""
}

// stmt: the kind of one statement of the clean-up.
func (c *r5ServeCtx) stmt(s ast.Stmt) string {
	pi := c.pi
	other := func() string {
		ren := map[types.Object]string{}
		if c.recv != nil {
			ren[c.recv] = "s"
		}
		return "other:" + r4Text(pi, s, ren)
	}
	switch st := s.(type) {
	case *ast.ExprStmt:
		if call, ok := ast.Unparen(st.X).(*ast.CallExpr); ok {
			if k := c.call(call); k != "" {
				return k
			}
		}
	case *ast.DeferStmt:
		if k := c.call(st.Call); k != "" {
			return "defer " + k
		}
		return "defer " + other()
	case *ast.RangeStmt:
		if fld, ok := c.recvField(st.X); ok {
			if tv, ok := pi.info.Types[st.X]; ok {
				if _, isMap := types.Unalias(tv.Type).Underlying().(*types.Map); isMap {
					// nothing in the sweep may leave Serve or start a goroutine
					bad := false
					ast.Inspect(st.Body, func(n ast.Node) bool {
						switch n.(type) {
						case *ast.ReturnStmt, *ast.GoStmt, *ast.DeferStmt:
							bad = true
						}
						return true
					})
					if !bad {
						return "sweep(" + fld + ")"
					}
				}
			}
		}
	case *ast.ReturnStmt:
		if len(st.Results) == 1 {
			if id, ok := ast.Unparen(st.Results[0]).(*ast.Ident); ok {
				if v, isVar := r4Obj(pi, id).(*types.Var); isVar && types.TypeString(v.Type(), nil) == "error" {
					return "return err"
				}
			}
		}
	}
	return other()
}

// loopExits: how control leaves a `for { … }`: every return, and every break that targets this loop.
func r5LoopExits(loop *ast.ForStmt) (exits []string, hasReturn bool) {
	var walk func(n ast.Node, depth int)
	walk = func(n ast.Node, depth int) {
		ast.Inspect(n, func(m ast.Node) bool {
			if m == nil || m == n {
				return true
			}
			switch t := m.(type) {
			case *ast.FuncLit:
				return false
			case *ast.ReturnStmt:
				exits = append(exits, "return")
				hasReturn = true
			case *ast.BranchStmt:
				switch {
				case t.Tok == token.BREAK && t.Label == nil && depth == 0:
					exits = append(exits, "break")
				case t.Tok == token.BREAK && t.Label != nil:
					exits = append(exits, "break:"+t.Label.Name)
				case t.Tok == token.GOTO:
					exits = append(exits, "goto")
				}
			case *ast.ForStmt, *ast.RangeStmt, *ast.SwitchStmt, *ast.TypeSwitchStmt, *ast.SelectStmt:
				walk(t, depth+1)
				return false
			}
			return true
		})
	}
	walk(loop.Body, 0)
	return
}

func r5ServeAnalyse(pi *pkgInfo, u *unit, server, typ string) (r r5Serve) {
	r.server, r.src, r.site = server, typ+".Serve", "?"
	fd := pi.funcDecl(typ + ".Serve")
	if fd == nil || fd.Body == nil {
		u.fail("%s.Serve not found", typ)
		return
	}
	r.src = pi.pos(fd)
	c := &r5ServeCtx{pi: pi, u: u, fn: typ + ".Serve", recv: r5RecvObj(pi, fd), chans: map[types.Object]bool{}}
	if c.recv == nil {
		u.fail("%s.Serve: unnamed receiver (%s)", typ, r.src)
		return
	}
	// the worker channel: `v := <receiver>.pktMgr.workerChan(…)`
	for _, s := range fd.Body.List {
		if as, ok := s.(*ast.AssignStmt); ok && len(as.Lhs) == 1 && len(as.Rhs) == 1 {
			if call, ok := ast.Unparen(as.Rhs[0]).(*ast.CallExpr); ok {
				if fn := r4Callee(pi, call); fn != nil && r4CalleeName(pi, fn) == "packetManager.workerChan" {
					if id, ok := as.Lhs[0].(*ast.Ident); ok && r4Obj(pi, id) != nil {
						c.chans[r4Obj(pi, id)] = true
					}
				}
			}
		}
	}
	if len(c.chans) != 1 {
		u.fail("%s.Serve: expected exactly one variable assigned from pktMgr.workerChan(…), found %d (%s)", typ, len(c.chans), r.src)
	}

	// locate the loop among the top-level statements
	loopAt := -1
	var helper *ast.FuncDecl
	for i, s := range fd.Body.List {
		switch st := s.(type) {
		case *ast.ForStmt:
			if loopAt >= 0 {
				u.fail("%s.Serve: more than one top-level loop / serveLoop call (%s)", typ, pi.pos(s))
			}
			loopAt = i
			if st.Init != nil || st.Cond != nil || st.Post != nil {
				u.fail("%s.Serve: the receive loop is not `for { … }` (%s)", typ, pi.pos(s))
			}
			r.site = "inline"
			r.exits, _ = r5LoopExits(st)
		case *ast.AssignStmt:
			if len(st.Rhs) != 1 {
				continue
			}
			call, ok := ast.Unparen(st.Rhs[0]).(*ast.CallExpr)
			if !ok {
				continue
			}
			fn := r4Callee(pi, call)
			if fn == nil || fn.Pkg() != pi.pkg || r4CalleeName(pi, fn) != typ+".serveLoop" {
				continue
			}
			if loopAt >= 0 {
				u.fail("%s.Serve: more than one top-level loop / serveLoop call (%s)", typ, pi.pos(s))
			}
			loopAt = i
			sel, _ := ast.Unparen(call.Fun).(*ast.SelectorExpr)
			if sel == nil || !r5IsIdentOf(pi, sel.X, c.recv) || len(call.Args) != 1 {
				u.fail("%s.Serve: serveLoop is not called as <receiver>.serveLoop(pktChan) (%s)", typ, pi.pos(s))
				continue
			}
			if id, ok := ast.Unparen(call.Args[0]).(*ast.Ident); !ok || !c.chans[r4Obj(pi, id)] {
				u.fail("%s.Serve: serveLoop's argument is not the worker channel (%s)", typ, pi.pos(s))
				continue
			}
			helper = pi.funcDecl(typ + ".serveLoop")
			r.site = "helper:" + typ + ".serveLoop"
		}
	}
	if loopAt < 0 {
		u.fail("%s.Serve: no top-level `for { … }` and no top-level `err := <receiver>.serveLoop(pktChan)` (%s)", typ, r.src)
		return
	}

	// the helper: `defer close(<chan parameter>)`, declarations, one `for { … }` — nothing after it
	helperClose := false
	if helper != nil && helper.Body != nil {
		hc := &r5ServeCtx{pi: pi, u: u, fn: typ + ".serveLoop", recv: r5RecvObj(pi, helper), chans: map[types.Object]bool{}}
		if len(helper.Type.Params.List) == 1 && len(helper.Type.Params.List[0].Names) == 1 {
			hc.chans[pi.info.Defs[helper.Type.Params.List[0].Names[0]]] = true
		}
		nLoops := 0
		for i, s := range helper.Body.List {
			switch st := s.(type) {
			case *ast.DeferStmt:
				if k := hc.call(st.Call); k == "close(pktChan)" && i == 0 {
					helperClose = true
				} else {
					u.fail("%s.serveLoop: unrecognised defer %q (%s)", typ, pi.nodeText(s), pi.pos(s))
				}
			case *ast.DeclStmt:
			case *ast.ForStmt:
				nLoops++
				if st.Init != nil || st.Cond != nil || st.Post != nil || i != len(helper.Body.List)-1 {
					u.fail("%s.serveLoop: the receive loop is not a final `for { … }` (%s)", typ, pi.pos(s))
				}
				r.exits, _ = r5LoopExits(st)
			default:
				u.fail("%s.serveLoop: unrecognised statement %q (%s)", typ, pi.nodeText(s), pi.pos(s))
			}
		}
		if nLoops != 1 {
			u.fail("%s.serveLoop: expected exactly one loop, found %d", typ, nLoops)
		}
	} else if strings.HasPrefix(r.site, "helper:") {
		u.fail("%s.serveLoop not found", typ)
	}

	// prefix: only its defers matter (they run after the whole tail)
	for _, s := range fd.Body.List[:loopAt] {
		if ds, ok := s.(*ast.DeferStmt); ok {
			k := c.stmt(ds)
			r.prefix = append(r.prefix, k)
			if strings.Contains(k, "other:") {
				u.fail("%s.Serve: unrecognised defer before the receive loop: %s (%s)", typ, k, pi.pos(s))
			}
		}
	}
	// tail
	if helperClose {
		r.tail = append(r.tail, "close(pktChan)@serveLoop")
	}
	for _, s := range fd.Body.List[loopAt+1:] {
		k := c.stmt(s)
		r.tail = append(r.tail, k)
		if strings.Contains(k, "other:") {
			u.fail("%s.Serve: unrecognised statement after the receive loop: %s (%s)", typ, k, pi.pos(s))
		}
	}

	// no return of Serve inside a loop; exactly one return, the last top-level statement
	nRet, retInLoop := 0, false
	var scan func(n ast.Node, inLoop bool)
	scan = func(n ast.Node, inLoop bool) {
		ast.Inspect(n, func(m ast.Node) bool {
			if m == nil || m == n {
				return true
			}
			switch t := m.(type) {
			case *ast.FuncLit:
				return false
			case *ast.ReturnStmt:
				nRet++
				if inLoop {
					retInLoop = true
				}
			case *ast.ForStmt:
				scan(t, true)
				return false
			case *ast.RangeStmt:
				scan(t, true)
				return false
			}
			return true
		})
	}
	scan(fd.Body, false)
	_, lastIsRet := fd.Body.List[len(fd.Body.List)-1].(*ast.ReturnStmt)
	r.noReturn = !retInLoop && nRet == 1 && lastIsRet
	if r.site == "inline" {
		for _, e := range r.exits {
			if e != "break" && !strings.HasPrefix(e, "break:") {
				r.noReturn = false
			}
		}
	}

	// order: close < wg.Wait < pktMgr.wait < sweep, each exactly once, plain
	idx := func(pred func(string) bool) int {
		at, n := -1, 0
		for i, k := range r.tail {
			if pred(k) {
				at = i
				n++
			}
		}
		if n != 1 {
			return -1
		}
		return at
	}
	iClose := idx(func(k string) bool { return k == "close(pktChan)" || k == "close(pktChan)@serveLoop" })
	iWg := idx(func(k string) bool { return k == "wg.Wait()" })
	iPm := idx(func(k string) bool { return k == "pktMgr.wait()" })
	iSw := idx(func(k string) bool { return strings.HasPrefix(k, "sweep(") })
	r.waitsOK = iClose >= 0 && iClose < iWg && iWg < iPm && iPm < iSw
	return
}

func extractServeShape(x *extractor) {
	u := x.newUnit("ServeShape")
	var rs []r5Serve
	for _, s := range [][2]string{{"Server", "Server"}, {"RequestServer", "RequestServer"}} {
		var r r5Serve
		s := s
		r.server = s[0]
		r5Guard(u, func() { r = r5ServeAnalyse(x.root, u, s[0], s[1]) })
		r.server = s[0]
		rs = append(rs, r)
	}
	u.pf("namespace Sftp.G\n\n")
	var tails, prefixes, exits []r4PairList
	var sites [][2]string
	var noRet, waits []r5PairBool
	srcs := ""
	for _, r := range rs {
		tails = append(tails, r4PairList{r.server, r.tail})
		prefixes = append(prefixes, r4PairList{r.server, r.prefix})
		exits = append(exits, r4PairList{r.server, r.exits})
		sites = append(sites, [2]string{r.server, r.site})
		noRet = append(noRet, r5PairBool{r.server, r.noReturn})
		waits = append(waits, r5PairBool{r.server, r.waitsOK})
		srcs += " " + r.src
	}
	u.pf("-- source:%s ((*Server).Serve, (*RequestServer).Serve)\n", srcs)
	u.pf("-- where the receive loop is: inline in Serve, or in a helper method called as `err := <receiver>.serveLoop(pktChan)`\n")
	u.pf("def serveLoopSite : List (String × String) := %s\n", r4Pairs(sites))
	u.pf("-- how control leaves the receive loop (break = out of the loop, return = out of the function that holds the loop)\n")
	u.pf("def serveLoopExits : List (String × List String) := %s\n", r4PairLists(exits))
	u.pf("-- Serve never returns from inside a loop and its only return is its last statement (with an inline loop: every exit is a break)\n")
	u.pf("def serveLoopHasNoReturn : List (String × Bool) := %s\n\n", r5PairBools(noRet))
	u.pf("-- the defer statements of Serve before the receive loop, in source order (they run after the tail, in reverse)\n")
	u.pf("def servePrefixDefers : List (String × List String) := %s\n", r4PairLists(prefixes))
	u.pf("-- the statements of Serve after the receive loop, classified by callee / operand objects; for the helper form the\n-- helper's `defer close(pktChan)` comes first\n")
	u.pf("def serveTail : List (String × List String) :=\n  %s\n", r4PairLists(tails))
	u.pf("-- close(pktChan), wg.Wait(), pktMgr.wait(), sweep: each exactly once in the tail, as plain statements, in this order\n")
	u.pf("def serveWaitsBeforeSweep : List (String × Bool) := %s\n", r5PairBools(waits))
	u.pf("\nend Sftp.G\n")
}
