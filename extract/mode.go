package main

import (
	"fmt"
	"go/ast"
	"go/token"
	"strings"
)

func init() { extractors = append(extractors, extractMode) }

// bitMapFunc recognises functions of the shape
//
//	out := T(in & MASK)
//	switch U(in) & SMASK { case C...: out |= BITS ... }
//	if U(in)&TEST != 0 { out |= BITS } ...
//	return out
//
// (toFileMode, fromFileMode, toChmodPerm) and emits them as tables.
func bitMapFunc(x *extractor, u *unit, name string) {
	pi := x.root
	fd := pi.funcDecl(name)
	if fd == nil {
		u.fail("function %s not found", name)
		u.pf("def %s : BitMap := { initMask := 0, switchMask := 0, cases := [], ifs := [] } -- EXTRACTION FAILED\n\n", name)
		return
	}
	u.pf("-- source: %s\n", pi.pos(fd))
	var initMask int64 = -1
	var switchMask int64 = -1
	type kv struct{ k, v int64 }
	var cases, ifs []kv
	hasSwitch := false
	done := false
	defer func() {
		if !done { // keep the generated file well-typed; the failure is in extract_errors.json
			u.pf("def %s : BitMap := { initMask := 0, switchMask := 0, cases := [], ifs := [] } -- EXTRACTION FAILED\n\n", name)
		}
	}()

	orBits := func(body []ast.Stmt) (int64, bool) {
		var bits int64
		for _, s := range body {
			as, ok := s.(*ast.AssignStmt)
			if !ok || as.Tok != token.OR_ASSIGN || len(as.Rhs) != 1 {
				return 0, false
			}
			v, ok := pi.exprInt(as.Rhs[0])
			if !ok {
				return 0, false
			}
			bits |= v
		}
		return bits, true
	}
	// the constant operand of an `a & CONST` expression, looking through conversions and parens
	var andConst func(e ast.Expr) (int64, bool)
	andConst = func(e ast.Expr) (int64, bool) {
		switch t := e.(type) {
		case *ast.ParenExpr:
			return andConst(t.X)
		case *ast.CallExpr: // conversion T(x & c)
			if len(t.Args) == 1 {
				return andConst(t.Args[0])
			}
		case *ast.BinaryExpr:
			if t.Op == token.AND {
				if v, ok := pi.exprInt(t.Y); ok {
					return v, true
				}
				if v, ok := pi.exprInt(t.X); ok {
					return v, true
				}
			}
		}
		return 0, false
	}

	for _, st := range fd.Body.List {
		switch s := st.(type) {
		case *ast.DeclStmt, *ast.AssignStmt:
			var rhs ast.Expr
			if ds, ok := s.(*ast.DeclStmt); ok {
				gd := ds.Decl.(*ast.GenDecl)
				if gd.Tok == token.CONST {
					continue // local constant, evaluated by the type checker where used
				}
				if len(gd.Specs) == 1 {
					vs := gd.Specs[0].(*ast.ValueSpec)
					if len(vs.Values) == 1 {
						rhs = vs.Values[0]
					}
				}
			} else {
				as := s.(*ast.AssignStmt)
				if len(as.Rhs) == 1 && (as.Tok == token.DEFINE || as.Tok == token.ASSIGN) {
					rhs = as.Rhs[0]
				}
			}
			if rhs == nil {
				u.fail("%s: unrecognised statement at %s", name, pi.pos(st))
				return
			}
			v, ok := andConst(rhs)
			if !ok || initMask != -1 {
				u.fail("%s: unrecognised initialisation at %s", name, pi.pos(st))
				return
			}
			initMask = v
		case *ast.SwitchStmt:
			if hasSwitch || s.Tag == nil {
				u.fail("%s: unrecognised switch at %s", name, pi.pos(st))
				return
			}
			hasSwitch = true
			v, ok := andConst(s.Tag)
			if !ok {
				u.fail("%s: switch tag is not `x & CONST` at %s", name, pi.pos(st))
				return
			}
			switchMask = v
			for _, c := range s.Body.List {
				cc := c.(*ast.CaseClause)
				bits, ok := orBits(cc.Body)
				if !ok {
					u.fail("%s: case body is not `out |= CONST` at %s", name, pi.pos(cc))
					return
				}
				if cc.List == nil {
					u.fail("%s: default clause not supported at %s", name, pi.pos(cc))
					return
				}
				for _, e := range cc.List {
					k, ok := pi.exprInt(e)
					if !ok {
						u.fail("%s: non-constant case at %s", name, pi.pos(e))
						return
					}
					cases = append(cases, kv{k, bits})
				}
			}
		case *ast.IfStmt:
			be, ok := s.Cond.(*ast.BinaryExpr)
			if !ok || be.Op != token.NEQ || s.Else != nil || s.Init != nil {
				u.fail("%s: unrecognised if at %s", name, pi.pos(st))
				return
			}
			if z, ok := pi.exprInt(be.Y); !ok || z != 0 {
				u.fail("%s: if condition is not `x&C != 0` at %s", name, pi.pos(st))
				return
			}
			t, ok := andConst(be.X)
			if !ok {
				u.fail("%s: if condition is not `x&C != 0` at %s", name, pi.pos(st))
				return
			}
			bits, ok := orBits(s.Body.List)
			if !ok {
				u.fail("%s: if body is not `out |= CONST` at %s", name, pi.pos(st))
				return
			}
			ifs = append(ifs, kv{t, bits})
		case *ast.ReturnStmt:
		default:
			u.fail("%s: unrecognised statement at %s", name, pi.pos(st))
			return
		}
	}
	if initMask < 0 {
		u.fail("%s: no initialisation found", name)
		return
	}
	if switchMask < 0 {
		switchMask = 0
	}
	fmtKV := func(l []kv) string {
		var parts []string
		for _, e := range l {
			parts = append(parts, fmt.Sprintf("(%d, %d)", e.k, e.v))
		}
		return "[" + strings.Join(parts, ", ") + "]"
	}
	done = true
	u.pf("def %s : BitMap := { initMask := %d, switchMask := %d, cases := %s, ifs := %s }\n\n",
		name, initMask, switchMask, fmtKV(cases), fmtKV(ifs))
}

func extractMode(x *extractor) {
	u := x.newUnit("Mode")
	u.pf("import Sftp.Model.BitMap\nnamespace Sftp.G\nopen Sftp\n\n")
	for _, n := range []string{"toFileMode", "fromFileMode", "toChmodPerm"} {
		bitMapFunc(x, u, n)
	}
	u.pf("end Sftp.G\n")
}
