package main

// Unit FileMethods (property C12, closed-state part): for every exported method of
// *File in client.go, the lock it takes first, the deferred unlock, the closed-handle
// check under the lock, the assignments to f.offset, and for Close the order
// `handle := f.handle; f.handle = ""` before `f.c.close(handle)`.
//
// Shapes recognised (anything else is a failure):
//   stmt 0:  f.mu.Lock() | f.mu.RLock()          stmt 1:  defer f.mu.Unlock() | defer f.mu.RUnlock()
//   closed check:  if f.handle == "" { return …os.ErrClosed }   as stmt 2 of the method, or as stmt 0 of the
//                  single unexported f.<callee>(…) that stmt 2 calls (Read→readAt, ReadAt→readAt,
//                  ReadFromWithConcurrency→readFromWithConcurrency)
//   a method without any f.mu call must not touch f.handle, f.offset or f.c (Name)
//
// Offset part of C12, "Seek computes … end-relative positions … and rejects a negative result without moving":
// where the size of an end-relative Seek comes from. An os.File asks the descriptor; the only request of the
// protocol that asks the open file is FSTAT on the handle (`f.c.fstat(f.handle)`); `f.c.stat(f.path)` asks whatever
// the NAME shows now. Shapes recognised in File.Seek (anything else is a failure):
//   switch whence { … case io.SeekEnd:  X, err := f.<m>()          (<m> an unexported method of *File without arguments)
//                                       if err != nil { return f.offset, err }
//                                       offset += X.Size()  |  offset += int64(X.Size)   … }
//   if offset < 0 { return f.offset, os.ErrInvalid }   before   f.offset = offset   (both top-level statements of Seek)
// Emitted: every `f.c.<call>(…)` reachable from Seek through unexported File methods, as "function: call"
// (seekSends); seekEndUsesHandleStat = the calls reachable from the io.SeekEnd clause are exactly
// [f.c.fstat(f.handle)] and nothing else in Seek sends; seekRejectsNegativeFirst.
// WriteTo's pre-sizing is DIFFERENT and documented as such: `if f.c.useFstat { fileStat, err = f.c.fstat(f.handle) }
// else { fileStat, err = f.c.stat(f.path) }` — the size is used for the worker-pool guess and the
// sequential/concurrent choice only (writeToPresize, writeToSizeOnlyGuess: no statement assigning f.offset
// mentions fileStat/fileSize/concurrency).

import (
	"fmt"
	"go/ast"
	"sort"
	"strings"
)

func init() { extractors = append(extractors, extractFileMethods) }

var fileMethodNames = []string{"Close", "Name", "Read", "ReadAt", "WriteTo", "Stat", "Write", "WriteAt",
	"ReadFromWithConcurrency", "ReadFrom", "Seek", "Chown", "Chmod", "SetExtendedData", "Truncate", "Sync"}

func fmIsClosedCheck(pi *pkgInfo, s ast.Stmt) bool {
	is, ok := s.(*ast.IfStmt)
	if !ok || is.Init != nil || is.Else != nil || pi.nodeText(is.Cond) != `f.handle == ""` || len(is.Body.List) != 1 {
		return false
	}
	rs, ok := is.Body.List[0].(*ast.ReturnStmt)
	if !ok || len(rs.Results) == 0 {
		return false
	}
	return exprString(rs.Results[len(rs.Results)-1]) == "os.ErrClosed"
}

// fmCallees: unexported methods of *File called as f.<name>(…) inside n.
func fmCallees(pi *pkgInfo, n ast.Node) []string {
	seen := map[string]bool{}
	var out []string
	ast.Inspect(n, func(m ast.Node) bool {
		c, ok := m.(*ast.CallExpr)
		if !ok {
			return true
		}
		se, ok := c.Fun.(*ast.SelectorExpr)
		if !ok {
			return true
		}
		if id, ok := se.X.(*ast.Ident); ok && id.Name == "f" && !ast.IsExported(se.Sel.Name) && pi.funcDecl("File."+se.Sel.Name) != nil {
			if !seen[se.Sel.Name] {
				seen[se.Sel.Name] = true
				out = append(out, se.Sel.Name)
			}
		}
		return true
	})
	return out
}

// fmReach: the method and every unexported File method reachable from it.
func fmReach(pi *pkgInfo, name string) []string {
	seen := map[string]bool{name: true}
	order := []string{name}
	for i := 0; i < len(order); i++ {
		fd := pi.funcDecl("File." + order[i])
		if fd == nil || fd.Body == nil {
			continue
		}
		for _, c := range fmCallees(pi, fd.Body) {
			if !seen[c] {
				seen[c] = true
				order = append(order, c)
			}
		}
	}
	return order
}

func extractFileMethods(x *extractor) {
	u := x.newUnit("FileMethods")
	pi := x.root
	u.pf("import Sftp.Model.FileFacts\nnamespace Sftp.G\n\n")

	// the set of exported methods must be exactly the list the property talks about
	var have []string
	for _, f := range pi.files {
		for _, d := range f.Decls {
			if fd, ok := d.(*ast.FuncDecl); ok && fd.Recv != nil && len(fd.Recv.List) == 1 &&
				recvName(fd.Recv.List[0].Type) == "File" && ast.IsExported(fd.Name.Name) {
				have = append(have, fd.Name.Name)
			}
		}
	}
	want := append([]string(nil), fileMethodNames...)
	sort.Strings(have)
	sort.Strings(want)
	if strings.Join(have, ",") != strings.Join(want, ",") {
		u.fail("exported methods of *File are %v, expected %v", have, want)
	}

	var rows []string
	for _, name := range fileMethodNames {
		fd := pi.funcDecl("File." + name)
		if fd == nil || fd.Body == nil {
			u.fail("File.%s not found", name)
			continue
		}
		recvOK := len(fd.Recv.List[0].Names) == 1 && fd.Recv.List[0].Names[0].Name == "f"
		if !recvOK {
			u.fail("File.%s: receiver is not named f", name)
		}
		body := fd.Body.List
		lock, deferOK := "none", false
		if len(body) > 0 {
			switch pi.nodeText(body[0]) {
			case "f.mu.Lock()":
				lock = "Lock"
			case "f.mu.RLock()":
				lock = "RLock"
			}
		}
		if lock != "none" && len(body) > 1 {
			wantDefer := map[string]string{"Lock": "defer f.mu.Unlock()", "RLock": "defer f.mu.RUnlock()"}[lock]
			deferOK = pi.nodeText(body[1]) == wantDefer
		}
		reach := fmReach(pi, name)

		// other uses of the mutex anywhere reachable
		muCalls := 0
		sends := false
		var offs []string
		for _, r := range reach {
			rfd := pi.funcDecl("File." + r)
			if rfd == nil || rfd.Body == nil {
				continue
			}
			ast.Inspect(rfd.Body, func(m ast.Node) bool {
				switch t := m.(type) {
				case *ast.SelectorExpr:
					txt := exprString(t)
					if txt == "f.mu" {
						muCalls++
					}
					if txt == "f.handle" || txt == "f.c" {
						sends = true
					}
				case *ast.AssignStmt:
					for _, l := range t.Lhs {
						if exprString(l) == "f.offset" {
							offs = append(offs, r+": "+pi.nodeText(t))
						}
					}
				case *ast.IncDecStmt:
					if exprString(t.X) == "f.offset" {
						offs = append(offs, r+": "+pi.nodeText(t))
					}
				}
				return true
			})
		}
		expectMu := 0
		if lock != "none" {
			expectMu = 1
			if deferOK {
				expectMu = 2
			}
		}
		holdsToEnd := lock != "none" && deferOK && muCalls == expectMu
		if lock == "none" && muCalls > 0 {
			u.fail("File.%s: uses f.mu but not as its first statement (%s)", name, pi.pos(fd))
		}

		// closed-handle check
		checks, checkIn := false, ""
		if lock != "none" && deferOK && len(body) > 2 {
			if fmIsClosedCheck(pi, body[2]) {
				checks, checkIn = true, name
			} else {
				txt := pi.nodeText(body[2])
				cs := fmCallees(pi, body[2])
				if len(cs) == 1 && !strings.Contains(txt, "f.handle") && !strings.Contains(txt, "f.c.") {
					cfd := pi.funcDecl("File." + cs[0])
					if cfd != nil && cfd.Body != nil && len(cfd.Body.List) > 0 && fmIsClosedCheck(pi, cfd.Body.List[0]) {
						checks, checkIn = true, cs[0]
					}
				}
			}
		}

		// Close: handle := f.handle; f.handle = ""; … f.c.close(handle)
		clears := false
		if name == "Close" {
			iCopy, iClear, iSend := -1, -1, -1
			for i, s := range body {
				txt := pi.nodeText(s)
				switch {
				case txt == "handle := f.handle":
					iCopy = i
				case txt == `f.handle = ""`:
					iClear = i
				case strings.Contains(txt, "f.c.close("):
					if iSend < 0 {
						iSend = i
					}
					if !strings.Contains(txt, "f.c.close(handle)") {
						u.fail("File.Close: f.c.close is not given the local copy `handle` (%s)", pi.pos(s))
						iSend = -2
					}
				}
			}
			clears = iCopy >= 0 && iCopy < iClear && iClear < iSend
			if iSend == -1 {
				u.fail("File.Close: no f.c.close(…) call found")
			}
		}
		rows = append(rows, fmt.Sprintf("  { name := %s, lock := %s, deferUnlock := %s, holdsToEnd := %s, sends := %s, checksClosed := %s, checkIn := %s,\n    offsetAssigns := %s, clearsBeforeSend := %s } -- %s",
			leanStr(name), leanStr(lock), leanBool(deferOK), leanBool(holdsToEnd), leanBool(sends), leanBool(checks), leanStr(checkIn),
			leanStrList(offs), leanBool(clears), pi.pos(fd)))
	}
	u.pf("-- source: client.go, the exported methods of *File\n")
	u.pf("def fileMethods : List FileMethodFact := [\n%s\n]\n", rpJoinRows(rows))
	fmSeekFacts(u, pi)
	u.pf("\nend Sftp.G\n")
}

// fmSends: every call `f.c.<name>(…)` in n, as written.
func fmSends(pi *pkgInfo, n ast.Node) []string {
	var out []string
	ast.Inspect(n, func(m ast.Node) bool {
		c, ok := m.(*ast.CallExpr)
		if !ok {
			return true
		}
		if se, ok := c.Fun.(*ast.SelectorExpr); ok && exprString(se.X) == "f.c" {
			out = append(out, pi.nodeText(c))
		}
		return true
	})
	return out
}

// fmSendsReach: the sends in n and in every unexported File method reachable from n, as "function: call"
// (those of n itself under the name `in`).
func fmSendsReach(pi *pkgInfo, in string, n ast.Node) []string {
	var out []string
	for _, s := range fmSends(pi, n) {
		out = append(out, in+": "+s)
	}
	seen := map[string]bool{}
	queue := fmCallees(pi, n)
	for i := 0; i < len(queue); i++ {
		name := queue[i]
		if seen[name] {
			continue
		}
		seen[name] = true
		fd := pi.funcDecl("File." + name)
		if fd == nil || fd.Body == nil {
			continue
		}
		for _, s := range fmSends(pi, fd.Body) {
			out = append(out, name+": "+s)
		}
		queue = append(queue, fmCallees(pi, fd.Body)...)
	}
	return out
}

// fmMentions: does any identifier of names occur in n?
func fmMentions(n ast.Node, names ...string) bool {
	hit := false
	ast.Inspect(n, func(m ast.Node) bool {
		if id, ok := m.(*ast.Ident); ok {
			for _, w := range names {
				if id.Name == w {
					hit = true
				}
			}
		}
		return !hit
	})
	return hit
}

func fmSeekFacts(u *unit, pi *pkgInfo) {
	usesHandle, rejectsFirst := false, false
	var sends []string
	endSource := ""
	where := "client.go"
	if fd := pi.funcDecl("File.Seek"); fd == nil || fd.Body == nil {
		u.fail("File.Seek not found")
	} else {
		where = pi.pos(fd)
		sends = fmSendsReach(pi, "Seek", fd.Body)
		// f must not leave Seek (or what it reaches) other than through f.<m>(), f.c.<call>() and f.mu: a helper that is
		// handed f, f.path or f.handle could send on its own
		for _, r := range fmReach(pi, "Seek") {
			rfd := pi.funcDecl("File." + r)
			if rfd == nil || rfd.Body == nil {
				continue
			}
			ast.Inspect(rfd.Body, func(m ast.Node) bool {
				c, ok := m.(*ast.CallExpr)
				if !ok {
					return true
				}
				if se, ok := c.Fun.(*ast.SelectorExpr); ok {
					if x := exprString(se.X); x == "f" || x == "f.c" || x == "f.mu" {
						return true
					}
				}
				for _, a := range c.Args {
					if fmMentions(a, "f") {
						if t := pi.nodeText(c); t != "path.Base(f.path)" && t != "fileInfoFromStat(fs, path.Base(f.path))" {
							u.fail("File.%s (reached from Seek): f is handed to %s (%s)", r, t, pi.pos(c))
						}
					}
				}
				return true
			})
		}
		// the switch over whence and its io.SeekEnd clause
		var sw *ast.SwitchStmt
		iNeg, iAssign := -1, -1
		for i, s := range fd.Body.List {
			switch t := s.(type) {
			case *ast.SwitchStmt:
				if t.Init == nil && t.Tag != nil && exprString(t.Tag) == "whence" {
					if sw != nil {
						u.fail("File.Seek: more than one `switch whence` (%s)", pi.pos(t))
					}
					sw = t
				}
			case *ast.IfStmt:
				if pi.nodeText(t) == "if offset < 0 { return f.offset, os.ErrInvalid }" {
					iNeg = i
				}
			case *ast.AssignStmt:
				if pi.nodeText(t) == "f.offset = offset" {
					iAssign = i
				}
			}
		}
		// the assignment after the rejection is the only one (the method table lists every assignment)
		nAssign := 0
		ast.Inspect(fd.Body, func(m ast.Node) bool {
			if a, ok := m.(*ast.AssignStmt); ok {
				for _, l := range a.Lhs {
					if exprString(l) == "f.offset" {
						nAssign++
					}
				}
			}
			return true
		})
		rejectsFirst = iNeg >= 0 && iAssign > iNeg && nAssign == 1
		if !rejectsFirst {
			u.fail("File.Seek: `if offset < 0 { return f.offset, os.ErrInvalid }` before the single `f.offset = offset` not found (%s)", where)
		}
		if sw == nil {
			u.fail("File.Seek: `switch whence` not found (%s)", where)
		} else {
			var end *ast.CaseClause
			var elsewhere []string
			for _, c := range sw.Body.List {
				cc := c.(*ast.CaseClause)
				isEnd := false
				for _, e := range cc.List {
					if exprString(e) == "io.SeekEnd" {
						isEnd = true
					}
				}
				if isEnd {
					if end != nil || len(cc.List) != 1 {
						u.fail("File.Seek: io.SeekEnd shares its case or occurs twice (%s)", pi.pos(cc))
					}
					end = cc
					continue
				}
				for _, st := range cc.Body {
					elsewhere = append(elsewhere, fmSendsReach(pi, "Seek", st)...)
				}
			}
			if end == nil {
				u.fail("File.Seek: no `case io.SeekEnd` (%s)", pi.pos(sw))
			} else {
				shape := false
				if len(end.Body) == 3 {
					if as, ok := end.Body[0].(*ast.AssignStmt); ok && as.Tok.String() == ":=" && len(as.Lhs) == 2 && len(as.Rhs) == 1 && exprString(as.Lhs[1]) == "err" {
						x := exprString(as.Lhs[0])
						if c, ok := as.Rhs[0].(*ast.CallExpr); ok && len(c.Args) == 0 {
							if se, ok := c.Fun.(*ast.SelectorExpr); ok && exprString(se.X) == "f" && !ast.IsExported(se.Sel.Name) && pi.funcDecl("File."+se.Sel.Name) != nil {
								add := pi.nodeText(end.Body[2])
								shape = pi.nodeText(end.Body[1]) == "if err != nil { return f.offset, err }" &&
									(add == "offset += "+x+".Size()" || add == "offset += int64("+x+".Size)")
								endSource = "f." + se.Sel.Name + "()"
							}
						}
					}
				}
				if !shape {
					u.fail("File.Seek: the io.SeekEnd clause is not `X, err := f.<m>(); if err != nil { return f.offset, err }; offset += X.Size()` (%s)", pi.pos(end))
				}
				var endSends []string
				for _, st := range end.Body {
					endSends = append(endSends, fmSendsReach(pi, "Seek", st)...)
				}
				onlyHandle := len(endSends) == 1 && strings.HasSuffix(endSends[0], ": f.c.fstat(f.handle)")
				usesHandle = shape && onlyHandle && len(elsewhere) == 0 && len(sends) == 1
			}
		}
	}
	// WriteTo's pre-sizing
	presize, onlyGuess := "unrecognised", false
	if fd := pi.funcDecl("File.WriteTo"); fd == nil || fd.Body == nil {
		u.fail("File.WriteTo not found")
	} else {
		for _, s := range fd.Body.List {
			is, ok := s.(*ast.IfStmt)
			if !ok || !fmMentions(is, "fileStat") {
				continue
			}
			switch pi.nodeText(is) {
			case "if f.c.useFstat { fileStat, err = f.c.fstat(f.handle) } else { fileStat, err = f.c.stat(f.path) }":
				presize = "useFstat: f.c.fstat(f.handle); else: f.c.stat(f.path)"
			case "if fileSize <= uint64(f.c.maxPacket) || !isRegular(fileStat.Mode) { return f.writeToSequential(w) }":
			default:
				u.fail("File.WriteTo: unexpected statement using fileStat at %s", pi.pos(is))
			}
		}
		if presize == "unrecognised" {
			// the other shape this unit knows: always the handle
			if strings.Contains(pi.bodyText(fd), "fileStat, err := f.c.fstat(f.handle)") && !strings.Contains(pi.bodyText(fd), "f.c.stat(") {
				presize = "f.c.fstat(f.handle)"
			} else {
				u.fail("File.WriteTo: the pre-sizing STAT/FSTAT choice was not recognised (%s)", pi.pos(fd))
			}
		}
		onlyGuess = true
		for _, r := range fmReach(pi, "WriteTo") {
			rfd := pi.funcDecl("File." + r)
			if rfd == nil || rfd.Body == nil {
				continue
			}
			ast.Inspect(rfd.Body, func(m ast.Node) bool {
				if a, ok := m.(*ast.AssignStmt); ok {
					for _, l := range a.Lhs {
						if exprString(l) == "f.offset" && fmMentions(a, "fileStat", "fileSize", "concurrency", "concurrency64") {
							onlyGuess = false
						}
					}
				}
				return true
			})
		}
		if !onlyGuess {
			u.fail("File.WriteTo: an assignment to f.offset depends on the pre-sized file size (%s)", pi.pos(fd))
		}
	}
	u.pf("\n-- source: %s File.Seek (the io.SeekEnd clause takes its size from %s) and what that reaches\n", where, endSource)
	u.pf("/-- every `f.c.<call>(…)` reachable from Seek through unexported File methods, as \"function: call\" -/\n")
	u.pf("def seekSends : List String := %s\n", leanStrList(sends))
	u.pf("/-- the io.SeekEnd clause is `X, err := f.<m>(); if err != nil { return f.offset, err }; offset += X.Size()`, all it reaches\n    is `f.c.fstat(f.handle)` (FSTAT on the open handle, never STAT of the path), and nothing else in Seek sends -/\n")
	u.pf("def seekEndUsesHandleStat : Bool := %s\n", leanBool(usesHandle))
	u.pf("/-- `if offset < 0 { return f.offset, os.ErrInvalid }` precedes the single `f.offset = offset` -/\n")
	u.pf("def seekRejectsNegativeFirst : Bool := %s\n", leanBool(rejectsFirst))
	u.pf("/-- where WriteTo's pre-sizing asks for the file size (NOT the handle unless UseFstat(true): documented difference) -/\n")
	u.pf("def writeToPresize : String := %s\n", leanStr(presize))
	u.pf("/-- no assignment to f.offset reachable from WriteTo mentions the pre-sized size or the concurrency derived from it -/\n")
	u.pf("def writeToSizeOnlyGuess : Bool := %s\n", leanBool(onlyGuess))
}
