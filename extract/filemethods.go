package main

// Unit FileMethods (property C12, closed-state part): for every exported method of
// *File in client.go, the lock it takes first, the deferred unlock, the closed-handle
// check under the lock, the assignments to f.offset, and for Close the order
// `handle := f.handle; f.handle = ""` before `f.c.close(handle)`.
//
// Shapes recognised (anything else is a failure):
//   stmt 0:  f.mu.Lock() | f.mu.RLock()          stmt 1:  defer f.mu.Unlock() | defer f.mu.RUnlock()
//   closed check:  if f.handle == "" { return …os.ErrClosed }   as stmt 2 of the method, or as stmt 0 of the
//                  single unexported f.<callee>(…) that stmt 2 calls (Read→readAt, ReadAt→readAt,
//                  ReadFromWithConcurrency→readFromWithConcurrency)
//   a method without any f.mu call must not touch f.handle, f.offset or f.c (Name)

import (
	"fmt"
	"go/ast"
	"sort"
	"strings"
)

func init() { extractors = append(extractors, extractFileMethods) }

var fileMethodNames = []string{"Close", "Name", "Read", "ReadAt", "WriteTo", "Stat", "Write", "WriteAt",
	"ReadFromWithConcurrency", "ReadFrom", "Seek", "Chown", "Chmod", "SetExtendedData", "Truncate", "Sync"}

func fmIsClosedCheck(pi *pkgInfo, s ast.Stmt) bool {
	is, ok := s.(*ast.IfStmt)
	if !ok || is.Init != nil || is.Else != nil || pi.nodeText(is.Cond) != `f.handle == ""` || len(is.Body.List) != 1 {
		return false
	}
	rs, ok := is.Body.List[0].(*ast.ReturnStmt)
	if !ok || len(rs.Results) == 0 {
		return false
	}
	return exprString(rs.Results[len(rs.Results)-1]) == "os.ErrClosed"
}

// fmCallees: unexported methods of *File called as f.<name>(…) inside n.
func fmCallees(pi *pkgInfo, n ast.Node) []string {
	seen := map[string]bool{}
	var out []string
	ast.Inspect(n, func(m ast.Node) bool {
		c, ok := m.(*ast.CallExpr)
		if !ok {
			return true
		}
		se, ok := c.Fun.(*ast.SelectorExpr)
		if !ok {
			return true
		}
		if id, ok := se.X.(*ast.Ident); ok && id.Name == "f" && !ast.IsExported(se.Sel.Name) && pi.funcDecl("File."+se.Sel.Name) != nil {
			if !seen[se.Sel.Name] {
				seen[se.Sel.Name] = true
				out = append(out, se.Sel.Name)
			}
		}
		return true
	})
	return out
}

// fmReach: the method and every unexported File method reachable from it.
func fmReach(pi *pkgInfo, name string) []string {
	seen := map[string]bool{name: true}
	order := []string{name}
	for i := 0; i < len(order); i++ {
		fd := pi.funcDecl("File." + order[i])
		if fd == nil || fd.Body == nil {
			continue
		}
		for _, c := range fmCallees(pi, fd.Body) {
			if !seen[c] {
				seen[c] = true
				order = append(order, c)
			}
		}
	}
	return order
}

func extractFileMethods(x *extractor) {
	u := x.newUnit("FileMethods")
	pi := x.root
	u.pf("import Sftp.Model.FileFacts\nnamespace Sftp.G\n\n")

	// the set of exported methods must be exactly the list the property talks about
	var have []string
	for _, f := range pi.files {
		for _, d := range f.Decls {
			if fd, ok := d.(*ast.FuncDecl); ok && fd.Recv != nil && len(fd.Recv.List) == 1 &&
				recvName(fd.Recv.List[0].Type) == "File" && ast.IsExported(fd.Name.Name) {
				have = append(have, fd.Name.Name)
			}
		}
	}
	want := append([]string(nil), fileMethodNames...)
	sort.Strings(have)
	sort.Strings(want)
	if strings.Join(have, ",") != strings.Join(want, ",") {
		u.fail("exported methods of *File are %v, expected %v", have, want)
	}

	var rows []string
	for _, name := range fileMethodNames {
		fd := pi.funcDecl("File." + name)
		if fd == nil || fd.Body == nil {
			u.fail("File.%s not found", name)
			continue
		}
		recvOK := len(fd.Recv.List[0].Names) == 1 && fd.Recv.List[0].Names[0].Name == "f"
		if !recvOK {
			u.fail("File.%s: receiver is not named f", name)
		}
		body := fd.Body.List
		lock, deferOK := "none", false
		if len(body) > 0 {
			switch pi.nodeText(body[0]) {
			case "f.mu.Lock()":
				lock = "Lock"
			case "f.mu.RLock()":
				lock = "RLock"
			}
		}
		if lock != "none" && len(body) > 1 {
			wantDefer := map[string]string{"Lock": "defer f.mu.Unlock()", "RLock": "defer f.mu.RUnlock()"}[lock]
			deferOK = pi.nodeText(body[1]) == wantDefer
		}
		reach := fmReach(pi, name)

		// other uses of the mutex anywhere reachable
		muCalls := 0
		sends := false
		var offs []string
		for _, r := range reach {
			rfd := pi.funcDecl("File." + r)
			if rfd == nil || rfd.Body == nil {
				continue
			}
			ast.Inspect(rfd.Body, func(m ast.Node) bool {
				switch t := m.(type) {
				case *ast.SelectorExpr:
					txt := exprString(t)
					if txt == "f.mu" {
						muCalls++
					}
					if txt == "f.handle" || txt == "f.c" {
						sends = true
					}
				case *ast.AssignStmt:
					for _, l := range t.Lhs {
						if exprString(l) == "f.offset" {
							offs = append(offs, r+": "+pi.nodeText(t))
						}
					}
				case *ast.IncDecStmt:
					if exprString(t.X) == "f.offset" {
						offs = append(offs, r+": "+pi.nodeText(t))
					}
				}
				return true
			})
		}
		expectMu := 0
		if lock != "none" {
			expectMu = 1
			if deferOK {
				expectMu = 2
			}
		}
		holdsToEnd := lock != "none" && deferOK && muCalls == expectMu
		if lock == "none" && muCalls > 0 {
			u.fail("File.%s: uses f.mu but not as its first statement (%s)", name, pi.pos(fd))
		}

		// closed-handle check
		checks, checkIn := false, ""
		if lock != "none" && deferOK && len(body) > 2 {
			if fmIsClosedCheck(pi, body[2]) {
				checks, checkIn = true, name
			} else {
				txt := pi.nodeText(body[2])
				cs := fmCallees(pi, body[2])
				if len(cs) == 1 && !strings.Contains(txt, "f.handle") && !strings.Contains(txt, "f.c.") {
					cfd := pi.funcDecl("File." + cs[0])
					if cfd != nil && cfd.Body != nil && len(cfd.Body.List) > 0 && fmIsClosedCheck(pi, cfd.Body.List[0]) {
						checks, checkIn = true, cs[0]
					}
				}
			}
		}

		// Close: handle := f.handle; f.handle = ""; … f.c.close(handle)
		clears := false
		if name == "Close" {
			iCopy, iClear, iSend := -1, -1, -1
			for i, s := range body {
				txt := pi.nodeText(s)
				switch {
				case txt == "handle := f.handle":
					iCopy = i
				case txt == `f.handle = ""`:
					iClear = i
				case strings.Contains(txt, "f.c.close("):
					if iSend < 0 {
						iSend = i
					}
					if !strings.Contains(txt, "f.c.close(handle)") {
						u.fail("File.Close: f.c.close is not given the local copy `handle` (%s)", pi.pos(s))
						iSend = -2
					}
				}
			}
			clears = iCopy >= 0 && iCopy < iClear && iClear < iSend
			if iSend == -1 {
				u.fail("File.Close: no f.c.close(…) call found")
			}
		}
		rows = append(rows, fmt.Sprintf("  { name := %s, lock := %s, deferUnlock := %s, holdsToEnd := %s, sends := %s, checksClosed := %s, checkIn := %s,\n    offsetAssigns := %s, clearsBeforeSend := %s } -- %s",
			leanStr(name), leanStr(lock), leanBool(deferOK), leanBool(holdsToEnd), leanBool(sends), leanBool(checks), leanStr(checkIn),
			leanStrList(offs), leanBool(clears), pi.pos(fd)))
	}
	u.pf("-- source: client.go, the exported methods of *File\n")
	u.pf("def fileMethods : List FileMethodFact := [\n%s\n]\n", rpJoinRows(rows))
	u.pf("\nend Sftp.G\n")
}
