package main

// Unit Handshake (property C19): the ordered checks of Client.recvVersion, the
// supportedSFTPExtensions literal and the all-or-nothing shape of SetSFTPExtensions
// (sftp.go), the INIT reply of both servers, the answer to an unknown extended request
// and the receive loops' treatment of errUnknownExtendedPacket.
// (The extended-name switch itself is Generated/Gate.lean's extSwitch.)
//
// Every fact is a whole-statement match on the normalised source text of a small, fixed
// shape; anything else is a failure.

import (
	"fmt"
	"go/ast"
	"go/token"
	"strings"
)

func init() { extractors = append(extractors, extractHandshake) }

func hsFindCase(pi *pkgInfo, fd *ast.FuncDecl, typ string) (*ast.CaseClause, []string, bool) {
	var found *ast.CaseClause
	var all []string
	hasDefault := false
	if fd == nil || fd.Body == nil {
		return nil, nil, false
	}
	ast.Inspect(fd.Body, func(n ast.Node) bool {
		ts, ok := n.(*ast.TypeSwitchStmt)
		if !ok {
			return true
		}
		// only the switch over the request packet
		if !strings.Contains(pi.nodeText(ts.Assign), "requestPacket.(type)") {
			return true
		}
		for _, c := range ts.Body.List {
			cc := c.(*ast.CaseClause)
			if cc.List == nil {
				hasDefault = true
				if typ == "default" {
					found = cc
				}
			}
			for _, e := range cc.List {
				all = append(all, typeName(e))
				if typeName(e) == typ {
					found = cc
				}
			}
		}
		return false
	})
	return found, all, hasDefault
}

func extractHandshake(x *extractor) {
	u := x.newUnit("Handshake")
	pi := x.root
	u.pf("namespace Sftp.G\n\n")

	// ---- 1. Client.recvVersion: statement by statement
	typ, version := int64(-1), int64(-1)
	reject := "?"
	typFirst, versionSafe, extLoop := false, false, false
	if fd := pi.funcDecl("Client.recvVersion"); fd == nil || fd.Body == nil {
		u.fail("Client.recvVersion not found")
	} else {
		u.pf("-- source: %s\n", pi.pos(fd))
		b := fd.Body.List
		ok := len(b) == 8
		if ok {
			ok = pi.nodeText(b[0]) == "typ, data, err := c.recvPacket(0)"
			if is, isIf := b[1].(*ast.IfStmt); !isIf || pi.nodeText(is.Cond) != "err != nil" || !rpTerminates(is.Body) {
				ok = false
			}
		}
		if !ok {
			u.fail("Client.recvVersion: expected 8 statements starting with `typ, data, err := c.recvPacket(0)` and its error check (%s)", pi.pos(fd))
		} else {
			// b[2]: if typ != sshFxpVersion { return &unexpectedPacketErr{…} }
			if is, isIf := b[2].(*ast.IfStmt); isIf && is.Init == nil && is.Else == nil {
				if be, isBin := is.Cond.(*ast.BinaryExpr); isBin && be.Op == token.NEQ && exprString(be.X) == "typ" {
					if v, isC := pi.exprInt(be.Y); isC && rpTerminates(is.Body) && strings.Contains(pi.nodeText(is.Body), "unexpectedPacketErr") {
						typ, typFirst = v, true
					}
				}
			}
			if !typFirst {
				u.fail("Client.recvVersion: statement 3 is not `if typ != sshFxpVersion { return &unexpectedPacketErr… }` (%s)", pi.pos(b[2]))
			}
			// b[3], b[4]: version, data, err := unmarshalUint32Safe(data); if err != nil { return err }
			switch pi.nodeText(b[3]) {
			case "version, data, err := unmarshalUint32Safe(data)":
				if is, isIf := b[4].(*ast.IfStmt); isIf && pi.nodeText(is.Cond) == "err != nil" && pi.nodeText(is.Body) == "{ return err }" {
					versionSafe = true
				} else {
					u.fail("Client.recvVersion: the error of unmarshalUint32Safe is not returned (%s)", pi.pos(b[4]))
				}
			default:
				u.fail("Client.recvVersion: statement 4 is not `version, data, err := unmarshalUint32Safe(data)` (%s)", pi.pos(b[3]))
			}
			// b[5]: if version <op> sftpProtocolVersion { return &unexpectedVersionErr{…} }
			vi := 5
			if !versionSafe {
				vi = 4
			}
			if is, isIf := b[vi].(*ast.IfStmt); isIf && is.Init == nil && is.Else == nil {
				if be, isBin := is.Cond.(*ast.BinaryExpr); isBin && exprString(be.X) == "version" {
					if v, isC := pi.exprInt(be.Y); isC && rpTerminates(is.Body) && strings.Contains(pi.nodeText(is.Body), "unexpectedVersionErr") {
						switch be.Op {
						case token.NEQ, token.LSS, token.GTR, token.LEQ, token.GEQ, token.EQL:
							reject, version = be.Op.String(), v
						}
					}
				}
			}
			if reject == "?" {
				u.fail("Client.recvVersion: no `if version <op> sftpProtocolVersion { return &unexpectedVersionErr… }` (%s)", pi.pos(b[vi]))
			}
			// b[6]: the extension loop;  last: return nil
			want := "for len(data) > 0 { var ext extensionPair ext, data, err = unmarshalExtensionPair(data) if err != nil { return err } c.ext[ext.Name] = ext.Data }"
			if vi+1 < len(b) && pi.nodeText(b[vi+1]) == want {
				extLoop = true
			} else {
				u.fail("Client.recvVersion: the extension loop does not have the expected shape (%s)", pi.pos(b[len(b)-2]))
			}
			if pi.nodeText(b[len(b)-1]) != "return nil" {
				u.fail("Client.recvVersion: does not end with `return nil`")
			}
		}
	}
	u.pf("def hsVersionTyp : Nat := %d\n", max64(typ, 0))
	u.pf("def hsTypCheckFirst : Bool := %s\n", leanBool(typFirst))
	u.pf("def hsVersionSafe : Bool := %s\n", leanBool(versionSafe))
	u.pf("def hsVersionReject : String := %s\n", leanStr(reject))
	u.pf("def hsVersion : Nat := %d\n", max64(version, 0))
	u.pf("def hsExtLoop : Bool := %s\n", leanBool(extLoop))
	pairCanon := "{ var ep extensionPair var err error ep.Name, b, err = unmarshalStringSafe(b) if err != nil { return ep, b, err } ep.Data, b, err = unmarshalStringSafe(b) return ep, b, err }"
	pairOK := pi.bodyText(pi.funcDecl("unmarshalExtensionPair")) == pairCanon
	if !pairOK {
		u.fail("unmarshalExtensionPair: unexpected body")
	}
	u.pf("def hsExtPairSafe : Bool := %s\n", leanBool(pairOK))
	initV := int64(0)
	if fd := pi.funcDecl("Client.sendInit"); fd != nil {
		ast.Inspect(fd.Body, func(n ast.Node) bool {
			if kv, ok := n.(*ast.KeyValueExpr); ok && exprString(kv.Key) == "Version" {
				if v, ok := pi.exprInt(kv.Value); ok {
					initV = v
				}
			}
			return true
		})
	}
	if initV == 0 {
		u.fail("Client.sendInit: Version not found")
	}
	u.pf("def hsInitVersion : Nat := %d\n\n", initV)

	// ---- 2. sftp.go: supportedSFTPExtensions, sftpExtensions, SetSFTPExtensions
	var pairs []string
	initOK := false
	for fi, f := range pi.files {
		if pi.names[fi] != "sftp.go" {
			continue
		}
		for _, d := range f.Decls {
			gd, ok := d.(*ast.GenDecl)
			if !ok || gd.Tok != token.VAR {
				continue
			}
			for _, sp := range gd.Specs {
				vs := sp.(*ast.ValueSpec)
				for i, n := range vs.Names {
					if i >= len(vs.Values) {
						continue
					}
					switch n.Name {
					case "supportedSFTPExtensions":
						u.pf("-- source: %s\n", pi.pos(vs))
						cl, ok := vs.Values[i].(*ast.CompositeLit)
						if !ok || exprString(cl.Type) != "[]sshExtensionPair" {
							u.fail("supportedSFTPExtensions is not a []sshExtensionPair literal")
							continue
						}
						for _, e := range cl.Elts {
							el, ok := e.(*ast.CompositeLit)
							if !ok || len(el.Elts) != 2 {
								u.fail("supportedSFTPExtensions: unrecognised element (%s)", pi.pos(e))
								continue
							}
							a, b := el.Elts[0], el.Elts[1]
							if kv, ok := a.(*ast.KeyValueExpr); ok && exprString(kv.Key) == "Name" {
								a = kv.Value
							}
							if kv, ok := b.(*ast.KeyValueExpr); ok && exprString(kv.Key) == "Data" {
								b = kv.Value
							}
							n1, ok1 := pi.exprStr(a)
							d1, ok2 := pi.exprStr(b)
							if !ok1 || !ok2 {
								u.fail("supportedSFTPExtensions: non-constant element (%s)", pi.pos(e))
								continue
							}
							pairs = append(pairs, fmt.Sprintf("(%s, %s)", leanStr(n1), leanStr(d1)))
						}
					case "sftpExtensions":
						initOK = exprString(vs.Values[i]) == "supportedSFTPExtensions"
					}
				}
			}
		}
	}
	if len(pairs) == 0 {
		u.fail("supportedSFTPExtensions not found in sftp.go")
	}
	if !initOK {
		u.fail("sftpExtensions is not initialised with supportedSFTPExtensions")
	}
	u.pf("def supportedExtensions : List (String × String) := [%s]\n", strings.Join(pairs, ", "))
	u.pf("def advertisedInitiallySupported : Bool := %s\n", leanBool(initOK))

	validates, inLoop, afterLoop := false, false, false
	if fd := pi.funcDecl("SetSFTPExtensions"); fd == nil || fd.Body == nil {
		u.fail("SetSFTPExtensions not found")
	} else {
		u.pf("-- source: %s\n", pi.pos(fd))
		b := fd.Body.List
		loopIdx := -1
		for i, s := range b {
			if rs, ok := s.(*ast.RangeStmt); ok {
				loopIdx = i
				loopWant := "for _, extension := range extensions { sftpExtension, err := getSupportedExtensionByName(extension) if err != nil { return err } tempExtensions = append(tempExtensions, sftpExtension) }"
				validates = pi.nodeText(rs) == loopWant
				ast.Inspect(rs.Body, func(n ast.Node) bool {
					if as, ok := n.(*ast.AssignStmt); ok {
						for _, l := range as.Lhs {
							if exprString(l) == "sftpExtensions" {
								inLoop = true
							}
						}
					}
					return true
				})
			}
		}
		nAssign := 0
		ast.Inspect(fd.Body, func(n ast.Node) bool {
			if as, ok := n.(*ast.AssignStmt); ok {
				for _, l := range as.Lhs {
					if exprString(l) == "sftpExtensions" {
						nAssign++
					}
				}
			}
			return true
		})
		if loopIdx >= 0 && len(b) == loopIdx+3 && loopIdx >= 1 &&
			pi.nodeText(b[loopIdx-1]) == "tempExtensions := []sshExtensionPair{}" &&
			pi.nodeText(b[loopIdx+1]) == "sftpExtensions = tempExtensions" &&
			pi.nodeText(b[loopIdx+2]) == "return nil" && nAssign == 1 {
			afterLoop = true
		}
		if !validates && !inLoop {
			u.fail("SetSFTPExtensions: the validation loop does not have the expected shape")
		}
		if !afterLoop && !inLoop {
			u.fail("SetSFTPExtensions: `sftpExtensions = tempExtensions; return nil` after the loop not found")
		}
	}
	u.pf("def setExtValidatesIntoTemp : Bool := %s\n", leanBool(validates))
	u.pf("def setExtAssignInLoop : Bool := %s\n", leanBool(inLoop))
	u.pf("def setExtAssignAfterLoop : Bool := %s\n", leanBool(afterLoop))
	lookupCanon := "{ for _, supportedExtension := range supportedSFTPExtensions { if supportedExtension.Name == extensionName { return supportedExtension, nil } } return sshExtensionPair{}, fmt.Errorf(\"unsupported extension: %s\", extensionName) }"
	lookupOK := pi.bodyText(pi.funcDecl("getSupportedExtensionByName")) == lookupCanon
	if !lookupOK {
		u.fail("getSupportedExtensionByName: unexpected body")
	}
	u.pf("def setExtLookupByName : Bool := %s\n\n", leanBool(lookupOK))

	// ---- 3. the servers
	initWant := "rpkt = &sshFxVersionPacket{ Version: sftpProtocolVersion, Extensions: sftpExtensions, }"
	initWant2 := "rpkt = &sshFxVersionPacket{Version: sftpProtocolVersion, Extensions: sftpExtensions}"
	isInit := func(cc *ast.CaseClause) bool {
		if cc == nil || len(cc.Body) != 1 {
			return false
		}
		t := pi.nodeText(cc.Body[0])
		return t == initWant || t == initWant2
	}
	osFd := pi.funcDecl("handlePacket")
	osInit, _, _ := hsFindCase(pi, osFd, "sshFxInitPacket")
	osInitOK := isInit(osInit)
	if !osInitOK {
		u.fail("handlePacket: the INIT case does not answer with Version: sftpProtocolVersion, Extensions: sftpExtensions")
	}
	rsFd := pi.funcDecl("RequestServer.packetWorker")
	rsInit, rsCases, rsHasDefault := hsFindCase(pi, rsFd, "sshFxInitPacket")
	rsInitOK := isInit(rsInit)
	if !rsInitOK {
		u.fail("RequestServer.packetWorker: the INIT case does not answer with Version: sftpProtocolVersion, Extensions: sftpExtensions")
	}
	sv, _ := pi.constInt("sftpProtocolVersion")
	u.pf("-- source: %s, %s\n", pi.pos(osFd), pi.pos(rsFd))
	u.pf("def osInitAnswersVersionAndExts : Bool := %s\n", leanBool(osInitOK))
	u.pf("def rsInitAnswersVersionAndExts : Bool := %s\n", leanBool(rsInitOK))
	u.pf("def serverVersion : Nat := %d\n", sv)

	osExt, _, _ := hsFindCase(pi, osFd, "sshFxpExtendedPacket")
	osUnk := osExt != nil && len(osExt.Body) == 1 &&
		pi.nodeText(osExt.Body[0]) == "if p.SpecificPacket == nil { rpkt = statusFromError(p.ID, ErrSSHFxOpUnsupported) } else { rpkt = p.respond(s) }"
	if !osUnk {
		u.fail("handlePacket: the *sshFxpExtendedPacket case is not `if p.SpecificPacket == nil { …ErrSSHFxOpUnsupported } else { p.respond(s) }`")
	}
	rsDef, _, _ := hsFindCase(pi, rsFd, "default")
	rsUnk := rsHasDefault && rsDef != nil && len(rsDef.Body) == 1 &&
		pi.nodeText(rsDef.Body[0]) == "rpkt = statusFromError(pkt.id(), ErrSSHFxOpUnsupported)"
	// the worker replaces a recognised extended packet by its specific packet and leaves an unknown one alone
	rsUnwrap := rsFd != nil && strings.Contains(pi.bodyText(rsFd),
		"if epkt, ok := pkt.requestPacket.(*sshFxpExtendedPacket); ok { if epkt.SpecificPacket != nil { pkt.requestPacket = epkt.SpecificPacket } }")
	if !rsUnk || !rsUnwrap {
		u.fail("RequestServer.packetWorker: default case / extended unwrapping not as expected")
	}
	u.pf("def osUnknownExtUnsupported : Bool := %s\n", leanBool(osUnk))
	u.pf("def rsUnknownExtUnsupported : Bool := %s\n", leanBool(rsUnk && rsUnwrap))
	u.pf("def rsWorkerCaseTypes : List String := %s\n", leanStrList(rsCases))
	// ErrSSHFxOpUnsupported is a typed constant fxerr(sshFxOPUnsupported): its value is the status code sent
	opu, opuOK := pi.constInt("ErrSSHFxOpUnsupported")
	if !opuOK {
		u.fail("ErrSSHFxOpUnsupported is not an integer constant")
	}
	u.pf("def opUnsupportedCode : Nat := %d\n", opu)

	// receive loops: errUnknownExtendedPacket is let through (empty switch case, or excluded in the condition), then the packet is queued
	nonFatal := func(name, queue string) bool {
		fd := pi.funcDecl(name)
		if fd == nil || fd.Body == nil {
			u.fail("%s not found", name)
			return false
		}
		ok := false
		ast.Inspect(fd.Body, func(n ast.Node) bool {
			blk, isBlk := n.(*ast.BlockStmt)
			if !isBlk {
				return true
			}
			for i, s := range blk.List {
				is, isIf := s.(*ast.IfStmt)
				if !isIf || is.Init != nil || is.Else != nil || i == 0 || i+1 >= len(blk.List) {
					continue
				}
				// shape 2: `if err != nil && !errors.Is(err, errUnknownExtendedPacket) { …; break|return … }`:
				// the unknown-extended error skips the if, every other error leaves the loop
				if pi.nodeText(is.Cond) == "err != nil && !errors.Is(err, errUnknownExtendedPacket)" && rpTerminates(is.Body) &&
					pi.nodeText(blk.List[i-1]) == "pkt, err = makePacket(rxPacket{pktType, pktBytes})" &&
					pi.nodeText(blk.List[i+1]) == queue {
					ok = true
					continue
				}
				// shape 1: `if err != nil { switch { case errors.Is(err, errUnknownExtendedPacket): default: … } }`
				if pi.nodeText(is.Cond) != "err != nil" || len(is.Body.List) != 1 {
					continue
				}
				if pi.nodeText(blk.List[i-1]) != "pkt, err = makePacket(rxPacket{pktType, pktBytes})" {
					continue
				}
				sw, isSw := is.Body.List[0].(*ast.SwitchStmt)
				if !isSw || sw.Tag != nil {
					continue
				}
				for _, c := range sw.Body.List {
					cc := c.(*ast.CaseClause)
					if len(cc.List) == 1 && pi.nodeText(cc.List[0]) == "errors.Is(err, errUnknownExtendedPacket)" && len(cc.Body) == 0 {
						if pi.nodeText(blk.List[i+1]) == queue {
							ok = true
						}
					}
				}
			}
			return true
		})
		if !ok {
			u.fail("%s: errUnknownExtendedPacket is not ignored with the packet still being queued", name)
		}
		return ok
	}
	u.pf("def osRecvUnknownExtNonFatal : Bool := %s\n", leanBool(nonFatal("Server.Serve", "pktChan <- svr.pktMgr.newOrderedRequest(pkt)")))
	u.pf("def rsRecvUnknownExtNonFatal : Bool := %s\n", leanBool(nonFatal("RequestServer.serveLoop", "pktChan <- rs.pktMgr.newOrderedRequest(pkt)")))
	mp := pi.bodyText(pi.funcDecl("makePacket"))
	mpOK := strings.Contains(mp, "if err := pkt.UnmarshalBinary(p.pktBytes); err != nil { // Return partially unpacked packet to allow callers to return // error messages appropriately with necessary id() method. return pkt, err }") ||
		strings.Contains(mp, "if err := pkt.UnmarshalBinary(p.pktBytes); err != nil { return pkt, err }")
	if !mpOK {
		u.fail("makePacket: does not return the partially decoded packet together with the error")
	}
	u.pf("def makePacketReturnsPktOnError : Bool := %s\n", leanBool(mpOK))
	u.pf("\nend Sftp.G\n")
}

func max64(a, b int64) int64 {
	if a > b {
		return a
	}
	return b
}
