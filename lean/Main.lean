import Sftp.Driver.C17
import Sftp.Driver.C17Ls
import Sftp.Driver.C17Time
import Sftp.Driver.C09
import Sftp.Driver.C10Path
import Sftp.Driver.Codec
import Sftp.Driver.C16
import Sftp.Driver.C15
import Sftp.Driver.C02
import Sftp.Driver.C18
import Sftp.Driver.C11
import Sftp.Driver.ClientConn
import Sftp.Driver.Transfer
import Sftp.Driver.C10
import Sftp.Driver.C06
import Sftp.Driver.C19
import Sftp.Driver.C20
import Sftp.Driver.Cur
import Sftp.Driver.Dispatch
import Sftp.Driver.C05Composite
import Sftp.Driver.C03Chan
import Sftp.Driver.C19Ext
import Sftp.Driver.MultiHandle
/-
  `sftpmodel`: line-protocol driver for the executable models.
  One case per input line (`op arg…`), one output line per case.
-/
open Sftp

def allOps : List (String × (List String → String)) :=
  Sftp.Driver.C17.ops ++ Sftp.Driver.C17Ls.ops ++ Sftp.Driver.C17Time.ops ++ Sftp.Driver.C09.ops ++ Sftp.Driver.C10Path.ops ++ Sftp.Driver.Codec.ops ++
  Sftp.Driver.C16.ops ++ Sftp.Driver.C15.ops ++ Sftp.Driver.C02.ops ++
  Sftp.Driver.C18.ops ++ Sftp.Driver.C11.ops ++ Sftp.Driver.ClientConn.ops ++ Sftp.Driver.Transfer.ops ++ Sftp.Driver.C10.ops ++ Sftp.Driver.C06.ops ++ Sftp.Driver.C19.ops ++ Sftp.Driver.C20.ops ++ Sftp.Driver.Cur.ops ++ Sftp.Driver.Dispatch.ops ++ Sftp.Driver.C05Composite.ops ++ Sftp.Driver.C03Chan.ops ++ Sftp.Driver.C19Ext.ops ++ Sftp.Driver.MultiHandle.ops

def step (line : String) : String :=
  match (line.trimAscii.toString.splitOn " ").filter (· ≠ "") with
  | [] => "bad-op"
  | op :: args =>
    match allOps.lookup op with
    | some f => f args
    | none => "bad-op"

partial def loop (h : IO.FS.Stream) (out : IO.FS.Stream) : IO Unit := do
  let line ← h.getLine
  if line.isEmpty then return ()
  out.putStrLn (step line)
  loop h out

def main : IO Unit := do
  let stdin ← IO.getStdin
  let stdout ← IO.getStdout
  loop stdin stdout
  stdout.flush
