-- Root of the `Sftp` library: every property file (and through them models, specs, proofs).
import Sftp.Prim
import Sftp.Props.C17
import Sftp.Props.C09
import Sftp.Props.C10Path
import Sftp.Props.C16
import Sftp.Props.C15
import Sftp.Props.C02
import Sftp.Props.C14
import Sftp.Props.Known.C02
import Sftp.Props.C18
import Sftp.Props.C11
import Sftp.Props.C03
import Sftp.Props.C04
