-- Root of the `Sftp` library: every property file (and through them models, specs, proofs).
import Sftp.Prim
import Sftp.Props.C17
import Sftp.Props.C09
