import Sftp.Props.C18Inst
#print axioms Sftp.C18.current_good
#print axioms Sftp.C18.page_guard_present
#print axioms Sftp.C18.recv_and_free_shape
#print axioms Sftp.C18.output_independent_of_allocator_current
#print axioms Sftp.C18.pages_disjoint_current
