import Sftp.Props.C01
#print axioms Sftp.C01.plan_tiles
#print axioms Sftp.C01.writeAt_any_order
#print axioms Sftp.C01.writeAt_count
#print axioms Sftp.C01.readAt_spec
#print axioms Sftp.C01.readAtM_ok
#print axioms Sftp.C01.readAtM_spec
#print axioms Sftp.C01.writeTo_spec
#print axioms Sftp.C01.readFrom_spec
