import Sftp.Props.C05
#print axioms Sftp.C05.server_calls_as_spec
#print axioms Sftp.C05.toLocalPath_shape
#print axioms Sftp.C05.adapter_transparent
#print axioms Sftp.C05.toLocal_abs
#print axioms Sftp.C05.toLocal_no_workdir
#print axioms Sftp.C05.toLocal_rel
#print axioms Sftp.C05.toLocal_absolute
