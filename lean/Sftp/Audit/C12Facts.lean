import Sftp.Props.C12Facts
#print axioms Sftp.C12.every_method_locks_and_checks
#print axioms Sftp.C12.cfg_current
#print axioms Sftp.C12.no_use_after_close_on_wire
#print axioms Sftp.C12.no_use_after_close_current
#print axioms Sftp.C12.closed_is_final_example
#print axioms Sftp.C12.close_rlock_breaks
#print axioms Sftp.C12.early_unlock_breaks
