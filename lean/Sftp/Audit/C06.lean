import Sftp.Props.C06
#print axioms Sftp.C06.decode_encode
#print axioms Sftp.C06.decode_encode_trailing
#print axioms Sftp.C06.attrs_decode_encode
#print axioms Sftp.C06.pair_min_size
#print axioms Sftp.C06.name_min_size
#print axioms Sftp.C06.length_prefix
#print axioms Sftp.C06.recv_frame
#print axioms Sftp.C06.layouts_agree
#print axioms Sftp.C06.layouts_agree_exact
#print axioms Sftp.C06.masks_are_v3
#print axioms Sftp.C06.flags_rest_is_attrs
