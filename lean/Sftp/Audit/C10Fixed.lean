import Sftp.Props.C10Fixed
#print axioms Sftp.C10.has_perm_test_current
#print axioms Sftp.C10.error_kind_preserved_now
