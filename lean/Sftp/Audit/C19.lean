import Sftp.Props.C19
#print axioms Sftp.C19.client_accepts_iff_v3
#print axioms Sftp.C19.client_rejects_cleanly
#print axioms Sftp.C19.ext_reported_eq_advertised
#print axioms Sftp.C19.setExtensions_all_or_nothing
#print axioms Sftp.C19.setExtensions_error_iff
#print axioms Sftp.C19.source_shape
#print axioms Sftp.C19.client_accepts_iff_v3_current
#print axioms Sftp.C19.servers_answer_v3_with_configured_list
#print axioms Sftp.C19.advertised_subset_served
#print axioms Sftp.C19.configured_subset_served
#print axioms Sftp.C19.unknown_ext_unsupported
