import Sftp.Props.Known.C06
#print axioms Sftp.C06.Known.mkdir_layouts_differ
#print axioms Sftp.C06.Known.mkdir_agree_on_empty_attrs
#print axioms Sftp.C06.Known.mkdir_disagree_witness
