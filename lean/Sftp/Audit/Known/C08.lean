import Sftp.Props.Known.C08
#print axioms Sftp.C08.Known.fx_alloc_witness
#print axioms Sftp.C08.Known.fx_alloc_not_linear
#print axioms Sftp.C08.Known.fx_names_alloc_witness
