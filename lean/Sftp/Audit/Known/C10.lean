import Sftp.Props.Known.C10
#print axioms Sftp.C10.Known.f8_witness
#print axioms Sftp.C10.Known.f8_witnesses
#print axioms Sftp.C10.Known.f8_not_affected
#print axioms Sftp.C10.Known.f8_witness_current
