import Sftp.Props.Known.C20
#print axioms Sftp.C20.Known.prefix_replies_not_all_safe
#print axioms Sftp.C20.Known.prefix_unsafe_rows
#print axioms Sftp.C20.Known.status_id_only_panics
#print axioms Sftp.C20.Known.truncated_replies_panic
#print axioms Sftp.C20.Known.repaired_shape_errs
#print axioms Sftp.C20.Known.f7_open_iff_unsafe
