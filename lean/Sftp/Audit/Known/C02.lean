import Sftp.Props.Known.C02
#print axioms Sftp.C02.Known.drop_witness
#print axioms Sftp.C02.Known.drop_is_final
