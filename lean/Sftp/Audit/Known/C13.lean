import Sftp.Props.Known.C13
#print axioms Sftp.C13.Known.readFrom_masks_write_error
#print axioms Sftp.C13.Known.readFrom_repaired
