import Sftp.Props.Known.C12
#print axioms Sftp.C12.Known.writeTo_offset_witness
#print axioms Sftp.C12.Known.writeTo_offset_repaired
