import Sftp.Props.C08Inst
#print axioms Sftp.C08.tables_all_safe
#print axioms Sftp.C08.main_decoders_total
#print axioms Sftp.C08.fx_decoders_total
#print axioms Sftp.C08.main_alloc_linear
#print axioms Sftp.C08.fx_guard_absent
#print axioms Sftp.C08.recv_facts
