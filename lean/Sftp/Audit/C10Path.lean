import Sftp.Props.C10Path
#print axioms Sftp.C10.absClean_iff
#print axioms Sftp.C10.absClean_iff_clean_fix
#print axioms Sftp.C10.withBase_absClean_of_abs
#print axioms Sftp.C10.withBase_absClean
#print axioms Sftp.C10.cleanPath_absClean
#print axioms Sftp.C10.confined
#print axioms Sftp.C10.confined_prefix
#print axioms Sftp.C10.clean_idempotent
#print axioms Sftp.C10.withBase_of_abs
#print axioms Sftp.C10.withBase_of_rel
#print axioms Sftp.C10.withBase_of_rel_eq
#print axioms Sftp.C10.withBase_idempotent
#print axioms Sftp.C10.withBase_fix
