import Sftp.Props.C01Multi
#print axioms Sftp.C01Multi.impl_refines_spec_partial
#print axioms Sftp.C01Multi.impl_refines_spec_state_partial
#print axioms Sftp.C01Multi.impl_refines_spec_core
#print axioms Sftp.C01Multi.deviation_fstat_by_name
#print axioms Sftp.C01Multi.deviation_truncate_by_name
#print axioms Sftp.C01Multi.deviation_truncate_readonly
#print axioms Sftp.C01Multi.deviation_rdonly_creat_writes
#print axioms Sftp.C01Multi.deviation_empty_write_extends
#print axioms Sftp.C01Multi.deviation_empty_read_eof
#print axioms Sftp.C01Multi.handles_agree_any_state
#print axioms Sftp.C01Multi.handles_on_one_file_agree
#print axioms Sftp.C01Multi.write_visible_any_state
#print axioms Sftp.C01Multi.write_visible_through_every_handle
#print axioms Sftp.C01Multi.write_at_offset_visible
#print axioms Sftp.C01Multi.unlinked_file_lives_recreated_name_is_new
#print axioms Sftp.C01Multi.seed_replace_on_trunc_breaks_refinement
