import Sftp.Props.C10
#print axioms Sftp.C10.method_table
#print axioms Sftp.C10.method_names_closed
#print axioms Sftp.C10.call_table
#print axioms Sftp.C10.called_exactly_once
#print axioms Sftp.C10.wrapper_calls_at_most_once
#print axioms Sftp.C10.fields_table
#print axioms Sftp.C10.paths_cleaned
#print axioms Sftp.C10.handler_path_absClean
#print axioms Sftp.C10.tables_ok
#print axioms Sftp.C10.error_kind_preserved
#print axioms Sftp.C10.error_kind_preserved_current
#print axioms Sftp.C10.error_kind_preserved_partial
#print axioms Sftp.C10.message_is_error_text
#print axioms Sftp.C10.perm_test_needed
#print axioms Sftp.C10.outside_families
