import Sftp.Props.C17
#print axioms Sftp.C17.toFileMode_is_reference
#print axioms Sftp.C17.wire_os_wire
#print axioms Sftp.C17.fromFileMode_is_reference
#print axioms Sftp.C17.os_wire_os
#print axioms Sftp.C17.toChmodPerm_spec
