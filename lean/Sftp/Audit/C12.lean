import Sftp.Props.C12
#print axioms Sftp.C12.step_refines
#print axioms Sftp.C12.offset_refines
#print axioms Sftp.C12.seek_spec
#print axioms Sftp.C12.closed_is_final
#print axioms Sftp.C12.closed_is_final_run
#print axioms Sftp.C12.close_closes
#print axioms Sftp.C12.one_close_sent
