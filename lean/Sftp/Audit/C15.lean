import Sftp.Props.C15
#print axioms Sftp.C15.lin_points_imply_linearizable
#print axioms Sftp.C15.lin_points_imply_linearizable_ord
#print axioms Sftp.C15.checker_sound
#print axioms Sftp.C15.checker_complete
#print axioms Sftp.C15.within_extent_size_constant
#print axioms Sftp.C15.size_results_initial
#print axioms Sftp.C15.sequential_order_unique
#print axioms Sftp.C15.sequential_linearizable_iff
