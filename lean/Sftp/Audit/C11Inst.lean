import Sftp.Props.C11Inst
#print axioms Sftp.C11.current_good_rs
#print axioms Sftp.C11.current_good_os
#print axioms Sftp.C11.close_cancels_context
#print axioms Sftp.C11.closed_exactly_once_rs
#print axioms Sftp.C11.closed_exactly_once_os
#print axioms Sftp.C11.handle_strings_fresh_rs
#print axioms Sftp.C11.handle_strings_fresh_os
