import Sftp.Props.C14
#print axioms Sftp.C14.close_after_all_prior
#print axioms Sftp.C14.close_after_everything_prior
#print axioms Sftp.C14.closeSafe_always
#print axioms Sftp.C14.close_blocks
#print axioms Sftp.C14.barrier_needed
#print axioms Sftp.C14.close_not_pool_needed
