import Sftp.Props.C20Fixed
#print axioms Sftp.C20.all_client_replies_safe
#print axioms Sftp.C20.client_never_panics
#print axioms Sftp.C20.no_unchecked_sites
#print axioms Sftp.C20.data_replies_reject_ok_status
