import Sftp.Props.C17Ls
#print axioms Sftp.C17.longname_mode_column
#print axioms Sftp.C17.longname_mode_bytes
#print axioms Sftp.C17.longname_mode_length
#print axioms Sftp.C17.attrs_owner_interface_wins
#print axioms Sftp.C17.attrs_owner_stat_t
#print axioms Sftp.C17.attrs_owner_absent
#print axioms Sftp.C17.longname_sys_first
#print axioms Sftp.C17.longname_owner_agrees
