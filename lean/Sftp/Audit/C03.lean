import Sftp.Props.C03
#print axioms Sftp.C03.ids_distinct
#print axioms Sftp.C03.ids_range
#print axioms Sftp.C03.routing
#print axioms Sftp.C03.routing_pending
#print axioms Sftp.C03.wire_framed
#print axioms Sftp.C03.wire_wellFramed
#print axioms Sftp.C03.one_writer
#print axioms Sftp.C03.current_ok
#print axioms Sftp.C03.idAtomic_needed
#print axioms Sftp.C03.sendUnderLock_needed
#print axioms Sftp.C03.getChannelDeletes_needed
