import Sftp.Props.C02Inst
#print axioms Sftp.C02.cfg_ok_current
#print axioms Sftp.C02.shape_ok_current
#print axioms Sftp.C02.sent_is_prefix_current
#print axioms Sftp.C02.sent_ids_current
#print axioms Sftp.C02.no_duplicate_no_invention_current
#print axioms Sftp.C02.no_waitgroup_panic_current
#print axioms Sftp.C02.exactly_once_at_drain_current
#print axioms Sftp.C02.no_stuck_state_current
