import Sftp.Props.C16Inst
#print axioms Sftp.C16.generated_cfg_ok
#print axioms Sftp.C16.listing_exact_current
#print axioms Sftp.C16.listing_exact_plain_current
#print axioms Sftp.C16.listing_terminates_current
#print axioms Sftp.C16.os_listing_exact_current
