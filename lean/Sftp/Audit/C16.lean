import Sftp.Props.C16
#print axioms Sftp.C16.listing_exact
#print axioms Sftp.C16.listing_exact_plain
#print axioms Sftp.C16.listing_terminates
#print axioms Sftp.C16.os_lister_legal
#print axioms Sftp.C16.os_listing_exact
#print axioms Sftp.C16.example_lister_legal
#print axioms Sftp.C16.script_lister_legal
#print axioms Sftp.C16.current_cfg_ok
#print axioms Sftp.C16.incByN_needed
#print axioms Sftp.C16.incByN_needed_duplicates
#print axioms Sftp.C16.eofOnlyWhenEmpty_needed
#print axioms Sftp.C16.batch_needed
#print axioms Sftp.C16.filterDots_needed
#print axioms Sftp.C16.stopOnStatus_needed
#print axioms Sftp.C16.eofIsNil_needed
#print axioms Sftp.C16.legal_needed
#print axioms Sftp.C16.base_after_filter_witness
